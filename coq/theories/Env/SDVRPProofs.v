(* SDVRP: theorems for C01 (mask soundness w.r.t. the split-delivery problem), C02 (no dead end, done stable, step
   bound with an explicit measure, no crash), C03 (reward = objective: inherited from CVRP), C04 (padding inert),
   C05 (mask completeness w.r.t. visit sequences), C06 (checker).  All in exact arithmetic ([exact]).
   The specification lives in Spec/SplitDelivery.v (plans, greedy decoding of visit sequences) and Spec/Routes.v. *)
From Coq Require Import ZArith List Bool Lia ZifyBool Arith.
From RL4CO Require Import Base.Num Base.EnvSig Spec.Routes Spec.SplitDelivery Env.CVRP Env.CVRPProofs Env.SDVRP.
Import ListNotations.
Open Scope Z_scope.

Notation SD := (SDVRP exact).

(* documented input format = CVRP's: non-negative demands and capacity ([cvrp_wf]).
   needed for termination (C02): a vehicle that can carry something *)
Definition sd_solvable (i : cvrp_inst) : Prop := 0 < cap i.
Definition sd_solvableb (i : cvrp_inst) : bool := 0 <? cap i.
Lemma sd_solvableb_ok i : sd_solvableb i = true <-> sd_solvable i.
Proof. unfold sd_solvableb, sd_solvable. lia. Qed.

(* initial vector of remaining demands, indexed by node *)
Definition rem0 (i : cvrp_inst) : list Z := 0 :: dem i.
(* the plan a visit sequence stands for *)
Definition sd_plan (i : cvrp_inst) (acts : list nat) : plan := greedy (rem0 i) (cap i) 0 acts.

Lemma rem0_demand i j : (1 <= j)%nat -> nth j (rem0 i) 0 = demand i j.
Proof. intros Hj. unfold rem0, demand. destruct j as [|j]; [lia|]. cbn [nth]. replace (S j - 1)%nat with j by lia. reflexivity. Qed.

(* ---------------------------------------------------------------- list facts *)
Lemma all_zero_nth l : all_zero l = true <-> forall j, nth j l 0 = 0.
Proof.
  unfold all_zero. rewrite forallb_forall. split.
  - intros H j. destruct (Nat.ltb j (length l)) eqn:E.
    + apply Nat.ltb_lt in E. specialize (H (nth j l 0) (nth_In l 0 E)). lia.
    + apply Nat.ltb_ge in E. apply nth_overflow. exact E.
  - intros H x Hx. destruct (In_nth l x 0 Hx) as (j & _ & <-). specialize (H j). lia.
Qed.
Lemma anypos_nth l : existsb (fun d => 0 <? d) l = true <-> exists j, 0 < nth j l 0.
Proof.
  rewrite existsb_exists. split.
  - intros (x & Hx & Hp). destruct (In_nth l x 0 Hx) as (j & _ & <-). exists j. lia.
  - intros (j & Hj). exists (nth j l 0). split; [|lia].
    destruct (Nat.ltb j (length l)) eqn:E; [apply Nat.ltb_lt in E; apply nth_In; exact E|].
    apply Nat.ltb_ge in E. rewrite nth_overflow in Hj by exact E. lia.
Qed.

Lemma sumZ_set_nth a x l : (a < length l)%nat -> sumZ (set_nth a x l) = sumZ l - nth a l 0 + x.
Proof.
  revert a; induction l as [|h t IH]; intros [|a] Hl; cbn [length] in Hl; try lia; cbn [set_nth sumZ nth]; [lia|].
  rewrite IH by lia. lia.
Qed.
Lemma filter_length_le {X} (f : X -> bool) l : (length (filter f l) <= length l)%nat.
Proof. induction l as [|x l IH]; cbn [filter length]; [lia|]. destruct (f x); cbn [length]; lia. Qed.
Definition countz (l : list Z) : Z := Z.of_nat (length (filter (fun d => d =? 0) l)).
Lemma countz_set_nth a x l : (a < length l)%nat ->
  countz (set_nth a x l) = countz l - (if nth a l 0 =? 0 then 1 else 0) + (if x =? 0 then 1 else 0).
Proof.
  unfold countz. revert a; induction l as [|h t IH]; intros [|a] Hl; cbn [length] in Hl; try lia; cbn [set_nth filter nth].
  - destruct (h =? 0), (x =? 0); cbn [length]; lia.
  - specialize (IH a ltac:(lia)). destruct (h =? 0); cbn [length]; lia.
Qed.
Lemma countz_le l : 0 <= countz l <= Z.of_nat (length l).
Proof. unfold countz. pose proof (filter_length_le (fun d => d =? 0) l). lia. Qed.
Lemma pos_sum_count l : (forall j, 0 <= nth j l 0) -> (exists j, 0 < nth j l 0) ->
  0 < sumZ l /\ countz l <= Z.of_nat (length l) - 1.
Proof.
  unfold countz. induction l as [|h t IH]; intros Hnn (j & Hj); [destruct j; cbn in Hj; lia|].
  assert (Hnt : forall k, 0 <= nth k t 0) by (intros k; apply (Hnn (S k))).
  assert (Hs : 0 <= sumZ t).
  { apply sumZ_nonneg. apply Forall_forall. intros x Hx. destruct (In_nth t x 0 Hx) as (k & _ & <-). apply Hnt. }
  pose proof (filter_length_le (fun d => d =? 0) t) as Hf.
  pose proof (Hnn 0%nat) as Hh. cbn [nth] in Hh. cbn [sumZ filter length].
  destruct j as [|j]; cbn [nth] in Hj.
  - replace (h =? 0) with false by lia. lia.
  - destruct (IH Hnt (ex_intro _ j Hj)) as [H1 H2]. destruct (h =? 0); cbn [length]; lia.
Qed.

(* ---------------------------------------------------------------- mask facts *)
Lemma sd_offered_depot i s : offered (E:=SD) i s 0 = negb (sd_mask_depot i s).
Proof. reflexivity. Qed.
Lemma sd_offered_loc i s a : (1 <= a)%nat ->
  offered (E:=SD) i s a = (Nat.leb a (n_of i) && negb (sd_mask_loc i s a))%bool.
Proof.
  intros Ha. unfold offered. cbn [mask SDVRP]; unfold sd_mask. destruct a as [|a]; [lia|]. cbn [nth].
  unfold sd_locs. destruct (Nat.leb (S a) (n_of i)) eqn:El.
  - apply Nat.leb_le in El. rewrite nth_map_seq by lia. reflexivity.
  - apply Nat.leb_gt in El. rewrite nth_overflow by (rewrite map_length, seq_length; lia). reflexivity.
Qed.
Lemma sd_offered_range i s a : offered (E:=SD) i s a = true -> (a <= n_of i)%nat.
Proof.
  destruct a as [|a]; [lia|]. rewrite sd_offered_loc by lia. intros H. apply andb_prop in H as [H _]. apply Nat.leb_le in H. exact H.
Qed.

(* ---------------------------------------------------------------- the invariant *)
Record SInv (i : cvrp_inst) (p : list nat) (s : sd_st) : Prop := {
  sinv_len : length (sdwd s) = S (n_of i);
  sinv_d0 : nth 0 (sdwd s) 0 = 0;
  sinv_nn : forall j, 0 <= nth j (sdwd s) 0;
  sinv_used : 0 <= sused s <= cap i;
  sinv_cur0 : scur s = 0%nat -> sused s = 0;
  sinv_cur : scur s = last p 0%nat;
  (* a customer left with unserved demand means the vehicle is full *)
  sinv_full : scur s <> 0%nat -> 0 < nth (scur s) (sdwd s) 0 -> sused s = cap i;
  sinv_dn : sdn s = if match p with [] => true | _ => false end then false else negb (existsb (fun d => 0 <? d) (sdwd s));
}.

Lemma dem_nth_nonneg i j : cvrp_wf i -> 0 <= nth j (rem0 i) 0.
Proof.
  intros [Hd _]. unfold rem0. destruct j as [|j]; [cbn; lia|]. cbn [nth].
  destruct (Nat.ltb j (length (dem i))) eqn:E.
  - apply Nat.ltb_lt in E. eapply Forall_forall in Hd; [exact Hd | apply nth_In; exact E].
  - apply Nat.ltb_ge in E. rewrite nth_overflow by exact E. lia.
Qed.

Lemma sd_reset_inv i : cvrp_wf i -> SInv i [] (sd_reset i).
Proof.
  intros Hwf. pose proof Hwf as [_ Hc]. constructor; cbn [sd_reset sdwd sused scur sdn last].
  - cbn [length]. reflexivity.
  - reflexivity.
  - intros j. apply (dem_nth_nonneg i j Hwf).
  - lia.
  - reflexivity.
  - reflexivity.
  - congruence.
  - reflexivity.
Qed.

(* what an offered customer looks like *)
Lemma sd_offered_cust i p s a : SInv i p s -> (1 <= a)%nat -> offered (E:=SD) i s a = true ->
  (a <= n_of i)%nat /\ 0 < nth a (sdwd s) 0 /\ sused s < cap i.
Proof.
  intros HI Ha Ho. rewrite sd_offered_loc in Ho by exact Ha. apply andb_prop in Ho as [Hle Hml]. apply Nat.leb_le in Hle.
  unfold sd_mask_loc in Hml. apply negb_true_iff, orb_false_iff in Hml as [H1 H2].
  pose proof (sinv_nn _ _ _ HI a). repeat split; lia.
Qed.

(* the depot step leaves the demand vector as it is *)
Lemma sd_depot_dwd i p s : SInv i p s -> sdwd (sd_step exact i s 0) = sdwd s.
Proof.
  intros HI. cbn [sd_step sdwd]. unfold sd_delivered. rewrite !rnd_exact.
  pose proof (sinv_d0 _ _ _ HI) as H0. pose proof (sinv_used _ _ _ HI) as Hu. pose proof (sinv_len _ _ _ HI) as Hl.
  destruct (sdwd s) as [|h t]; [cbn in Hl; lia|]. cbn [nth] in *. subst h. cbn [set_nth].
  replace (Z.min 0 (cap i - sused s)) with 0 by lia. reflexivity.
Qed.

Lemma sd_step_inv i p s a :
  cvrp_wf i -> SInv i p s -> offered (E:=SD) i s a = true -> SInv i (p ++ [a]) (sd_step exact i s a).
Proof.
  intros Hwf HI Ho. pose proof HI as [Hlen Hd0 Hnn Hused Hc0 Hcur Hfull Hdn].
  assert (Hdnn : sdn (sd_step exact i s a) =
            (if match p ++ [a] with [] => true | _ => false end then false else negb (existsb (fun d => 0 <? d) (sdwd (sd_step exact i s a))))).
  { destruct p; reflexivity. }
  destruct (Nat.eqb a 0) eqn:Ea.
  - apply Nat.eqb_eq in Ea. subst a. constructor; try (rewrite (sd_depot_dwd i p s HI); assumption).
    + cbn [sd_step sused Nat.eqb]. destruct Hwf. lia.
    + reflexivity.
    + cbn [sd_step scur]. rewrite last_last. reflexivity.
    + cbn [sd_step scur]. congruence.
    + exact Hdnn.
  - apply Nat.eqb_neq in Ea. destruct (sd_offered_cust i p s a HI ltac:(lia) Ho) as (Hle & Hpos & Hroom).
    constructor; cbn [sd_step sdwd sused scur]; unfold sd_delivered; rewrite ?rnd_exact.
    + rewrite set_nth_length. exact Hlen.
    + rewrite nth_set_nth_neq by lia. exact Hd0.
    + intros j. rewrite nth_set_nth. destruct (Nat.eqb j a && Nat.ltb a (length (sdwd s)))%bool; [lia | apply Hnn].
    + replace (Nat.eqb a 0) with false by (symmetry; apply Nat.eqb_neq; exact Ea). lia.
    + intros H. congruence.
    + rewrite last_last. reflexivity.
    + intros _. rewrite nth_set_nth_eq by lia. replace (Nat.eqb a 0) with false by (symmetry; apply Nat.eqb_neq; exact Ea). lia.
    + exact Hdnn.
Qed.

Lemma sd_adm_inv i acts : cvrp_wf i -> adm (E:=SD) i acts = true -> SInv i acts (run (E:=SD) i acts).
Proof.
  intros Hwf. apply (adm_invariant SD i (fun p s => SInv i p s)).
  - apply sd_reset_inv; exact Hwf.
  - intros p s a HI Ho. apply sd_step_inv; assumption.
Qed.

Lemma sd_done_zero i p s : SInv i p s -> sdn s = true -> forall j, nth j (sdwd s) 0 = 0.
Proof.
  intros HI Hd j. rewrite (sinv_dn _ _ _ HI) in Hd. destruct p; [discriminate|].
  apply negb_true_iff in Hd. pose proof (sinv_nn _ _ _ HI j).
  destruct (Z.eq_dec (nth j (sdwd s) 0) 0) as [|Hne]; [assumption|]. exfalso.
  assert (existsb (fun d => 0 <? d) (sdwd s) = true) by (apply anypos_nth; exists j; lia). congruence.
Qed.

(* ================================================================ the plan of an admitted run *)
(* From any state satisfying the invariant, along any admitted continuation: the model's demand vector is the greedy
   decoding's, every visit is in range and delivers something, the route that continues the open one delivers at most
   the remaining capacity and all later routes at most the capacity, and what customer j receives is exactly what its
   remaining demand decreases by. *)
Lemma sd_run_greedy i : cvrp_wf i -> forall acts p s,
  SInv i p s -> adm_from (E:=SD) i s acts = true ->
  let pl := greedy (sdwd s) (cap i) (sused s) acts in
  let s' := run_from (E:=SD) i s acts in
  SInv i (p ++ acts) s' /\
  sdwd s' = greedy_rem (sdwd s) (cap i) (sused s) acts /\
  (forall v, In v pl -> (fst v <= n_of i)%nat) /\
  sd_plan_strict pl /\
  (exists h t, plan_routes pl = h :: t /\ route_qty h <= cap i - sused s /\ Forall (fun r => route_qty r <= cap i) t) /\
  (forall j, delivered_to j pl + nth j (sdwd s') 0 = nth j (sdwd s) 0 + (if Nat.eqb j 0 then 0 else 0)).
Proof.
  intros Hwf acts. induction acts as [|a r IH]; intros p s HI Hadm; cbv zeta.
  - cbn [greedy greedy_rem run_from plan_routes]. rewrite app_nil_r. split; [exact HI|]. split; [reflexivity|].
    split; [intros v []|]. split; [intros v []|]. split.
    + exists [], []. split; [reflexivity|]. split; [cbn; pose proof (sinv_used _ _ _ HI); lia | constructor].
    + intros j. unfold delivered_to. cbn. destruct (Nat.eqb j 0); lia.
  - cbn [adm_from run_from] in *. apply andb_prop in Hadm as [Ho Hadm].
    pose proof (sd_step_inv i p s a Hwf HI Ho) as HI1.
    specialize (IH (p ++ [a]) _ HI1 Hadm). cbv zeta in IH.
    destruct IH as (HIf & Hrem & Hrng & Hstr & (h & t & Hpr & Hh & Ht) & Hdel).
    rewrite <- app_assoc in HIf. cbn [app] in HIf. cbn [step SDVRP] in *.
    destruct (Nat.eqb a 0) eqn:Ea.
    + apply Nat.eqb_eq in Ea. subst a. cbn [greedy greedy_rem Nat.eqb].
      rewrite (sd_depot_dwd i p s HI) in *. cbn [sd_step sused Nat.eqb] in *.
      split; [exact HIf|]. split; [exact Hrem|].
      split; [intros v [<-|Hv]; [cbn; lia | apply Hrng; exact Hv]|].
      split; [intros v [<-|Hv] Hn; [cbn in Hn; congruence | apply Hstr; assumption]|].
      split.
      * exists [], (h :: t). cbn [plan_routes fst Nat.eqb]. rewrite Hpr. split; [reflexivity|].
        split; [cbn; pose proof (sinv_used _ _ _ HI); lia|]. constructor; [lia | exact Ht].
      * intros j. rewrite delivered_to_cons. cbn [fst snd]. specialize (Hdel j). destruct (Nat.eqb 0 j); lia.
    + pose proof Ea as Ea'. apply Nat.eqb_neq in Ea'.
      destruct (sd_offered_cust i p s a HI ltac:(lia) Ho) as (Hle & Hpos & Hroom).
      cbn [greedy greedy_rem]. rewrite Ea.
      assert (Hdw : sdwd (sd_step exact i s a) = set_nth a (nth a (sdwd s) 0 - Z.min (nth a (sdwd s) 0) (cap i - sused s)) (sdwd s)).
      { cbn [sd_step sdwd]. unfold sd_delivered. rewrite !rnd_exact. reflexivity. }
      assert (Hus : sused (sd_step exact i s a) = sused s + Z.min (nth a (sdwd s) 0) (cap i - sused s)).
      { cbn [sd_step sused]. unfold sd_delivered. rewrite Ea, !rnd_exact. reflexivity. }
      rewrite Hdw, Hus in *.
      set (q := Z.min (nth a (sdwd s) 0) (cap i - sused s)) in *.
      split; [exact HIf|]. split; [exact Hrem|].
      split; [intros v [<-|Hv]; [cbn; lia | apply Hrng; exact Hv]|].
      split; [intros v [<-|Hv] Hn; [cbn; lia | apply Hstr; assumption]|].
      split.
      * exists ((a, q) :: h), t. cbn [plan_routes fst]. rewrite Ea, Hpr. split; [reflexivity|].
        split; [|exact Ht]. unfold route_qty in *. cbn [map snd sumZ]. lia.
      * intros j. rewrite delivered_to_cons. cbn [fst snd]. specialize (Hdel j).
        rewrite nth_set_nth in Hdel. rewrite (sinv_len _ _ _ HI) in Hdel.
        replace (Nat.ltb a (S (n_of i))) with true in Hdel by (symmetry; apply Nat.ltb_lt; lia).
        rewrite andb_true_r in Hdel. rewrite (Nat.eqb_sym a j). destruct (Nat.eqb j a) eqn:Eja; [apply Nat.eqb_eq in Eja; subst j|]; destruct (Nat.eqb _ 0); lia.
Qed.

(* ================================================================ C01 *)
Theorem sdvrp_mask_sound i acts :
  cvrp_wf i -> adm (E:=SD) i acts = true -> done SD i (run (E:=SD) i acts) = true ->
  sd_plan_ok (n_of i) (demand i) (cap i) (sd_plan i acts) /\ sd_plan_strict (sd_plan i acts).
Proof.
  intros Hwf Hadm Hd.
  destruct (sd_run_greedy i Hwf acts [] _ (sd_reset_inv i Hwf) Hadm) as (HIf & _ & Hrng & Hstr & (h & t & Hpr & Hh & Ht) & Hdel).
  cbn [app sd_reset sdwd sused] in *. fold (rem0 i) in *. fold (sd_plan i acts) in *.
  split; [|exact Hstr]. split; [exact Hrng|]. split.
  - rewrite Hpr. constructor; [lia | exact Ht].
  - intros j Hj. specialize (Hdel j). cbn [done SDVRP sd_done] in Hd.
    rewrite (sd_done_zero i acts _ HIf Hd j) in Hdel. rewrite rem0_demand in Hdel by lia.
    destruct (Nat.eqb j 0); lia.
Qed.

(* ================================================================ C02 *)
Theorem sdvrp_step_ok i acts a :
  offered (E:=SD) i (run (E:=SD) i acts) a = true -> stepok SD i (run (E:=SD) i acts) a = true.
Proof. intros Ho. cbn [stepok SDVRP]. unfold sd_stepok. apply Nat.leb_le. apply (sd_offered_range _ _ _ Ho). Qed.

(* every state whatsoever offers an action: the depot is masked only when some customer is offered *)
Theorem sdvrp_no_dead_end i (s : sd_st) : anyb (mask SD i s) = true.
Proof.
  cbn [mask SDVRP]; unfold sd_mask. unfold anyb. cbn [existsb].
  destruct (sd_mask_depot i s) eqn:Ed; [|reflexivity]. cbn [negb orb].
  unfold sd_mask_depot in Ed. apply andb_prop in Ed as [_ Hex].
  apply existsb_exists in Hex as (j & Hj & Hjm). apply existsb_exists.
  exists true. split; [|reflexivity]. apply in_map_iff. exists j. split; [exact Hjm | exact Hj].
Qed.

Lemma sd_done_only_depot i p s a : SInv i p s -> sdn s = true -> offered (E:=SD) i s a = true -> a = 0%nat.
Proof.
  intros HI Hd Ho. destruct a as [|a]; [reflexivity|]. exfalso.
  destruct (sd_offered_cust i p s (S a) HI ltac:(lia) Ho) as (_ & Hpos & _).
  rewrite (sd_done_zero i p s HI Hd (S a)) in Hpos. lia.
Qed.

Theorem sdvrp_done_stable i acts a :
  cvrp_wf i -> adm (E:=SD) i (acts ++ [a]) = true -> done SD i (run (E:=SD) i acts) = true ->
  done SD i (run (E:=SD) i (acts ++ [a])) = true.
Proof.
  intros Hwf Hadm Hd. pose proof Hadm as Hadm'. rewrite adm_snoc in Hadm'. apply andb_prop in Hadm' as [Ha Ho].
  pose proof (sd_adm_inv i acts Hwf Ha) as HI. cbn [done SDVRP sd_done] in *.
  pose proof (sd_done_only_depot i acts _ a HI Hd Ho) as ->.
  pose proof (sd_adm_inv i _ Hwf Hadm) as HI'.
  change (sdn (run (E:=SD) i (acts ++ [0%nat])) = true). rewrite (sinv_dn _ _ _ HI').
  replace (match acts ++ [0%nat] with [] => true | _ => false end) with false by (destruct acts; reflexivity).
  rewrite run_snoc. cbn [step SDVRP]. rewrite (sd_depot_dwd i acts _ HI).
  apply negb_true_iff. apply not_true_iff_false. intros Hex. apply anypos_nth in Hex as (j & Hj).
  rewrite (sd_done_zero i acts _ HI Hd j) in Hj. lia.
Qed.

(* ---- the step bound, with an explicit measure ----
   ncust p        customer visits made so far
   countz dwd     nodes whose remaining demand is zero (a visit that exhausts its customer raises it by one)
   K              = ncust p - (countz now - countz initially): the visits that filled the vehicle WITHOUT exhausting
                    the customer; each of them closes a route that delivered exactly one capacity, hence
   cap * K + (what the open route has delivered, unless it was just counted) <= total delivered so far. *)
Definition ncust (p : list nat) : Z := Z.of_nat (length (customers p)).
Lemma ncust_snoc p a : ncust (p ++ [a]) = ncust p + (if Nat.eqb a 0 then 0 else 1).
Proof. unfold ncust, customers. rewrite filter_app, app_length. simpl. destruct (Nat.eqb a 0); simpl; lia. Qed.
Definition Kof (i : cvrp_inst) (p : list nat) (s : sd_st) : Z := ncust p - (countz (sdwd s) - countz (rem0 i)).
Definition Dlv (i : cvrp_inst) (s : sd_st) : Z := sumZ (rem0 i) - sumZ (sdwd s).
Definition rof (s : sd_st) : Z :=
  if (negb (Nat.eqb (scur s) 0) && (0 <? nth (scur s) (sdwd s) 0))%bool then 0 else sused s.

Lemma sd_measure i acts : cvrp_wf i -> adm (E:=SD) i acts = true ->
  let s := run (E:=SD) i acts in 0 <= Kof i acts s /\ cap i * Kof i acts s + rof s <= Dlv i s.
Proof.
  intros Hwf. cbv zeta. induction acts as [|a p IH] using rev_ind; intros Hadm.
  - unfold Kof, Dlv, rof, ncust, run. cbn [run_from reset SDVRP sd_reset sdwd sused scur customers filter length Nat.eqb negb andb]. fold (rem0 i). lia.
  - rewrite adm_snoc in Hadm. apply andb_prop in Hadm as [Hap Ho]. specialize (IH Hap).
    pose proof (sd_adm_inv i p Hwf Hap) as HI. set (s := run (E:=SD) i p) in *.
    rewrite run_snoc. fold s. cbn [step SDVRP].
    pose proof (sinv_used _ _ _ HI) as Hu. pose proof (sinv_len _ _ _ HI) as Hlen.
    assert (Hr0 : 0 <= rof s) by (unfold rof; destruct (_ && _)%bool; lia).
    unfold Kof, Dlv in *. rewrite ncust_snoc.
    destruct (Nat.eqb a 0) eqn:Ea.
    + apply Nat.eqb_eq in Ea. subst a. rewrite (sd_depot_dwd i p s HI).
      unfold rof at 1. cbn [sd_step scur sused Nat.eqb negb andb]. lia.
    + apply Nat.eqb_neq in Ea. destruct (sd_offered_cust i p s a HI ltac:(lia) Ho) as (Hle & Hpos & Hroom).
      assert (Hrs : rof s = sused s).
      { unfold rof. destruct (negb (Nat.eqb (scur s) 0) && (0 <? nth (scur s) (sdwd s) 0))%bool eqn:E; [|reflexivity].
        apply andb_prop in E as [E1 E2]. apply negb_true_iff, Nat.eqb_neq in E1.
        pose proof (sinv_full _ _ _ HI E1 ltac:(lia)). lia. }
      assert (Hdw : sdwd (sd_step exact i s a) = set_nth a (nth a (sdwd s) 0 - Z.min (nth a (sdwd s) 0) (cap i - sused s)) (sdwd s)).
      { cbn [sd_step sdwd]. unfold sd_delivered. rewrite !rnd_exact. reflexivity. }
      assert (Hus : sused (sd_step exact i s a) = sused s + Z.min (nth a (sdwd s) 0) (cap i - sused s)).
      { cbn [sd_step sused]. unfold sd_delivered. replace (Nat.eqb a 0) with false by (symmetry; apply Nat.eqb_neq; exact Ea). rewrite !rnd_exact. reflexivity. }
      unfold rof at 1. replace (scur (sd_step exact i s a)) with a by reflexivity.
      rewrite Hdw, Hus, sumZ_set_nth, countz_set_nth by lia. rewrite nth_set_nth_eq by lia.
      replace (Nat.eqb a 0) with false by (symmetry; apply Nat.eqb_neq; exact Ea). cbn [negb andb].
      replace (nth a (sdwd s) 0 =? 0) with false by lia.
      destruct (Z.le_gt_cases (nth a (sdwd s) 0) (cap i - sused s)) as [Hc|Hc].
      * (* the customer is exhausted *)
        replace (Z.min (nth a (sdwd s) 0) (cap i - sused s)) with (nth a (sdwd s) 0) by lia.
        replace (nth a (sdwd s) 0 - nth a (sdwd s) 0) with 0 by lia.
        change (0 =? 0) with true. change (0 <? 0) with false. cbv iota. destruct IH as [IH1 IH2]. split; [lia | nia].
      * (* the vehicle is filled, the customer keeps some demand *)
        replace (Z.min (nth a (sdwd s) 0) (cap i - sused s)) with (cap i - sused s) by lia.
        replace (nth a (sdwd s) 0 - (cap i - sused s) =? 0) with false by lia.
        replace (0 <? nth a (sdwd s) 0 - (cap i - sused s)) with true by lia. destruct IH as [IH1 IH2]. split; [lia | nia].
Qed.

Definition ceil_div (a b : Z) : Z := (a + b - 1) / b.
Lemma ceil_div_ge a b : 0 < b -> a <= b * ceil_div a b.
Proof.
  intros Hb. unfold ceil_div. pose proof (Z.div_mod (a + b - 1) b ltac:(lia)). pose proof (Z.mod_pos_bound (a + b - 1) b Hb). lia.
Qed.

(* the proven bound: 1 when there is nothing to deliver, else 2 (n + ceil(total demand / capacity)) - 3 *)
Definition sd_bound (i : cvrp_inst) : nat :=
  Nat.max 1 (2 * (n_of i + Z.to_nat (ceil_div (sumZ (dem i)) (cap i))) - 3).

Theorem sdvrp_bound i acts :
  cvrp_wf i -> sd_solvable i -> adm (E:=SD) i acts = true ->
  (forall p q, acts = p ++ q -> q <> [] -> done SD i (run (E:=SD) i p) = false) ->
  (length acts <= sd_bound i)%nat.
Proof.
  intros Hwf Hsol Hadm Hnd. unfold sd_solvable in Hsol.
  induction acts as [|a p _] using rev_ind; [unfold sd_bound; cbn; lia|].
  (* p is a proper prefix: not finished *)
  assert (Hadp : adm (E:=SD) i p = true) by (apply adm_prefix in Hadm; exact Hadm).
  pose proof (sd_adm_inv i p Hwf Hadp) as HI.
  assert (Hndp : sdn (run (E:=SD) i p) = false) by (apply (Hnd p [a]); [reflexivity | discriminate]).
  destruct (existsb (fun d => 0 <? d) (rem0 i)) eqn:Epos.
  - (* some demand is positive *)
    (* (3) length of a not-finished-before prefix: every depot visit is preceded by its own customer visit *)
    assert (G : forall p' q, p ++ [a] = p' ++ q -> q <> [] ->
               Z.of_nat (length p') + (if Nat.eqb (scur (run (E:=SD) i p')) 0 then 0 else 1) <= 2 * ncust p').
    { intros p'. induction p' as [|b p' IHp] using rev_ind; intros q Hq Hqn; [cbn; lia|].
      rewrite <- app_assoc in Hq. cbn [app] in Hq. specialize (IHp _ Hq ltac:(discriminate)).
      assert (Hadb : adm (E:=SD) i (p' ++ [b]) = true).
      { rewrite Hq in Hadm. change (b :: q) with ([b] ++ q) in Hadm. rewrite app_assoc in Hadm. apply adm_prefix in Hadm. exact Hadm. }
      rewrite adm_snoc in Hadb. apply andb_prop in Hadb as [Hap' Hob].
      pose proof (sd_adm_inv i p' Hwf Hap') as HI'.
      rewrite run_snoc, app_length, ncust_snoc. cbn [length step SDVRP sd_step scur].
      destruct (Nat.eqb b 0) eqn:Eb; [|destruct (Nat.eqb (scur (run (E:=SD) i p')) 0); lia].
      apply Nat.eqb_eq in Eb. subst b. cbn [Nat.eqb].
      destruct (Nat.eqb (scur (run (E:=SD) i p')) 0) eqn:Ec; [|lia]. exfalso.
      (* a depot visit from the depot: every customer is masked, the vehicle is empty, so nothing is left *)
      apply Nat.eqb_eq in Ec. rewrite sd_offered_depot in Hob. apply negb_true_iff in Hob.
      unfold sd_mask_depot in Hob. rewrite Ec in Hob. cbn [Nat.eqb andb] in Hob.
      assert (Hz : forall j, nth j (sdwd (run (E:=SD) i p')) 0 = 0).
      { intros j. destruct (Nat.ltb j (S (n_of i))) eqn:Ej.
        - apply Nat.ltb_lt in Ej. destruct j as [|j]; [apply (sinv_d0 _ _ _ HI')|].
          destruct (Z.eq_dec (nth (S j) (sdwd (run (E:=SD) i p')) 0) 0) as [|Hne]; [assumption|]. exfalso.
          assert (existsb (fun j0 => negb (sd_mask_loc i (run (E:=SD) i p') j0)) (sd_locs i) = true) as Hex.
          { apply existsb_exists. exists (S j). split; [apply in_seq; lia|].
            unfold sd_mask_loc. rewrite (sinv_cur0 _ _ _ HI' Ec). apply negb_true_iff, orb_false_iff. split; lia. }
          congruence.
        - apply Nat.ltb_ge in Ej. apply nth_overflow. rewrite (sinv_len _ _ _ HI'). lia. }
      destruct p' as [|c p'].
      + apply anypos_nth in Epos as (j & Hj). specialize (Hz j). cbn [run run_from reset SDVRP sd_reset sdwd] in Hz. fold (rem0 i) in Hz. lia.
      + assert (Hdn' : sdn (run (E:=SD) i (c :: p')) = true).
        { rewrite (sinv_dn _ _ _ HI'). apply negb_true_iff. apply not_true_iff_false. intros Hex.
          apply anypos_nth in Hex as (j & Hj). rewrite Hz in Hj. lia. }
        pose proof (Hnd (c :: p') (0%nat :: q) Hq ltac:(discriminate)) as Hcontra.
        change (sdn (run (E:=SD) i (c :: p')) = false) in Hcontra. congruence. }
    specialize (G p [a] eq_refl ltac:(discriminate)).
    (* some demand is still positive in the state before the last action *)
    assert (Hposp : exists j, 0 < nth j (sdwd (run (E:=SD) i p)) 0).
    { destruct p as [|c p'].
      - apply anypos_nth in Epos. exact Epos.
      - rewrite (sinv_dn _ _ _ HI) in Hndp. apply negb_false_iff in Hndp. apply anypos_nth. exact Hndp. }
    destruct (pos_sum_count _ (sinv_nn _ _ _ HI) Hposp) as [Hsum Hcnt]. rewrite (sinv_len _ _ _ HI) in Hcnt.
    destruct (sd_measure i p Hwf Hadp) as [HK0 HK]. cbv zeta in HK0, HK. unfold Kof, Dlv in *.
    assert (Hr0 : 0 <= rof (run (E:=SD) i p)).
    { unfold rof. pose proof (sinv_used _ _ _ HI). destruct (_ && _)%bool; lia. }
    assert (Hc0 : 1 <= countz (rem0 i)).
    { unfold rem0, countz. cbn [filter]. cbn. lia. }
    assert (Hs0 : sumZ (rem0 i) = sumZ (dem i)) by (unfold rem0; cbn [sumZ]; lia).
    pose proof (ceil_div_ge (sumZ (dem i)) (cap i) Hsol) as Hceil.
    set (c := ceil_div (sumZ (dem i)) (cap i)) in *.
    set (K := ncust p - (countz (sdwd (run (E:=SD) i p)) - countz (rem0 i))) in *.
    assert (HKc : K <= c - 1) by nia.
    assert (Hc1 : 1 <= c) by nia.
    unfold sd_bound. fold c. rewrite app_length. cbn [length].
    assert (Hlen : Z.of_nat (length p) <= 2 * (Z.of_nat (n_of i) + c) - 4).
    { destruct (Nat.eqb (scur (run (E:=SD) i p)) 0); lia. }
    lia.
  - (* nothing to deliver: the first action is the depot and finishes the row *)
    assert (Hz : forall j, nth j (rem0 i) 0 = 0).
    { intros j. pose proof (dem_nth_nonneg i j Hwf). destruct (Z.eq_dec (nth j (rem0 i) 0) 0) as [|Hne]; [assumption|]. exfalso.
      assert (existsb (fun d => 0 <? d) (rem0 i) = true) by (apply anypos_nth; exists j; lia). congruence. }
    destruct p as [|b p']; [unfold sd_bound; cbn [app length]; lia|]. exfalso.
    (* b is offered at reset, hence the depot; after it the row is finished *)
    assert (Hadb : adm (E:=SD) i [b] = true).
    { change (b :: p') with ([b] ++ p') in Hadp. apply adm_prefix in Hadp. exact Hadp. }
    assert (Hob : offered (E:=SD) i (sd_reset i) b = true).
    { unfold adm in Hadb. cbn [adm_from reset SDVRP] in Hadb. rewrite andb_true_r in Hadb. exact Hadb. }
    assert (b = 0%nat) as ->.
    { destruct b as [|b]; [reflexivity|]. exfalso.
      destruct (sd_offered_cust i [] _ (S b) (sd_reset_inv i Hwf) ltac:(lia) Hob) as (_ & Hpos & _).
      cbn [sd_reset sdwd] in Hpos. fold (rem0 i) in Hpos. rewrite Hz in Hpos. lia. }
    pose proof (sd_adm_inv i [0%nat] Hwf Hadb) as HI0.
    assert (Hd0 : sdn (run (E:=SD) i [0%nat]) = true).
    { rewrite (sinv_dn _ _ _ HI0). apply negb_true_iff. apply not_true_iff_false. intros Hex.
      apply anypos_nth in Hex as (j & Hj).
      change (run (E:=SD) i [0%nat]) with (sd_step exact i (sd_reset i) 0) in Hj.
      rewrite (sd_depot_dwd i [] _ (sd_reset_inv i Hwf)) in Hj. cbn [sd_reset sdwd] in Hj. fold (rem0 i) in Hj. rewrite Hz in Hj. lia. }
    pose proof (Hnd [0%nat] (p' ++ [a]) eq_refl ltac:(destruct p'; discriminate)) as Hcontra.
    change (sdn (run (E:=SD) i [0%nat]) = false) in Hcontra. congruence.
Qed.

(* the form of DESIGN Appendix A / the property text *)
Corollary sdvrp_bound_appendix i acts :
  cvrp_wf i -> sd_solvable i -> adm (E:=SD) i acts = true ->
  (forall p q, acts = p ++ q -> q <> [] -> done SD i (run (E:=SD) i p) = false) ->
  (length acts <= 2 * (n_of i + Z.to_nat (ceil_div (sumZ (dem i)) (cap i))) + 1)%nat.
Proof. intros H1 H2 H3 H4. pose proof (sdvrp_bound i acts H1 H2 H3 H4). unfold sd_bound in *. lia. Qed.

(* ================================================================ C04 *)
Lemma sd_done_mask i p s : SInv i p s -> sdn s = true -> sd_mask i s = true :: repeat false (n_of i).
Proof.
  intros HI Hd. unfold sd_mask.
  assert (Hall : forall j, sd_mask_loc i s j = true).
  { intros j. unfold sd_mask_loc. rewrite (sd_done_zero i p s HI Hd j). reflexivity. }
  f_equal.
  - unfold sd_mask_depot. replace (existsb (fun j => negb (sd_mask_loc i s j)) (sd_locs i)) with false; [rewrite andb_false_r; reflexivity|].
    symmetry. apply not_true_iff_false. intros H. apply existsb_exists in H as (j & _ & Hm). rewrite Hall in Hm. discriminate.
  - unfold sd_locs. generalize 1%nat. induction (n_of i) as [|n IH]; intros st; [reflexivity|].
    cbn [seq map repeat]. rewrite Hall. cbn [negb]. f_equal. apply IH.
Qed.

Theorem sdvrp_padding_inert i acts k :
  cvrp_wf i -> adm (E:=SD) i acts = true -> done SD i (run (E:=SD) i acts) = true ->
  let pad := repeat 0%nat k in
  adm (E:=SD) i (acts ++ pad) = true /\
  done SD i (run (E:=SD) i (acts ++ pad)) = true /\
  mask SD i (run (E:=SD) i (acts ++ pad)) = true :: repeat false (n_of i) /\
  (dfun i 0%nat 0%nat = 0 -> cvrp_reward i (acts ++ pad) = cvrp_reward i acts).
Proof.
  intros Hwf Hadm Hd. cbv zeta. induction k as [|k IH].
  - cbn [repeat]. rewrite app_nil_r. pose proof (sd_adm_inv i acts Hwf Hadm) as HI.
    repeat split; auto. apply (sd_done_mask i acts); assumption.
  - destruct IH as (IH1 & IH2 & IH3 & IH4).
    replace (repeat 0%nat (S k)) with (repeat 0%nat k ++ [0%nat]) by (symmetry; apply (repeat_cons k 0%nat)).
    rewrite app_assoc.
    assert (Ho : offered (E:=SD) i (run (E:=SD) i (acts ++ repeat 0%nat k)) 0 = true).
    { unfold offered. rewrite IH3. reflexivity. }
    assert (Hadm' : adm (E:=SD) i ((acts ++ repeat 0%nat k) ++ [0%nat]) = true) by (rewrite adm_snoc, IH1, Ho; reflexivity).
    assert (Hd' : done SD i (run (E:=SD) i ((acts ++ repeat 0%nat k) ++ [0%nat])) = true) by (apply sdvrp_done_stable; assumption).
    pose proof (sd_adm_inv i _ Hwf Hadm') as HI.
    repeat split; auto.
    + apply (sd_done_mask i _ _ HI Hd').
    + intros H00. rewrite <- app_assoc.
      replace (repeat 0%nat k ++ [0%nat]) with (repeat 0%nat (S k)) by (apply (repeat_cons k 0%nat)).
      unfold cvrp_reward, cyclic_len. rewrite walk_len_pad by exact H00. reflexivity.
Qed.

(* ================================================================ C05 *)
(* the documented pruning: no depot visit while standing at the depot ([prev] = node the vehicle stands at) *)
Fixpoint nodd (prev : nat) (acts : list nat) : bool :=
  match acts with [] => true | a :: r => negb (Nat.eqb prev 0 && Nat.eqb a 0) && nodd a r end.

Lemma sd_adm_of_plan i : cvrp_wf i -> forall acts p s,
  SInv i p s -> nodd (scur s) acts = true ->
  (forall v, In v (greedy (sdwd s) (cap i) (sused s) acts) -> (fst v <= n_of i)%nat) ->
  sd_plan_strict (greedy (sdwd s) (cap i) (sused s) acts) ->
  adm_from (E:=SD) i s acts = true.
Proof.
  intros Hwf acts. induction acts as [|a r IH]; intros p s HI Hnd Hrng Hstr; [reflexivity|].
  cbn [adm_from nodd] in *. apply andb_prop in Hnd as [Hnd1 Hnd2].
  assert (Ho : offered (E:=SD) i s a = true).
  { destruct (Nat.eqb a 0) eqn:Ea.
    - apply Nat.eqb_eq in Ea. subst a. rewrite sd_offered_depot. unfold sd_mask_depot.
      rewrite andb_true_r in Hnd1. apply negb_true_iff in Hnd1. rewrite Hnd1. reflexivity.
    - cbn [greedy] in Hrng, Hstr. rewrite Ea in Hrng, Hstr. apply Nat.eqb_neq in Ea.
      rewrite sd_offered_loc by lia.
      specialize (Hrng _ (or_introl eq_refl)). specialize (Hstr _ (or_introl eq_refl)). cbn [fst snd] in *.
      specialize (Hstr Ea). apply andb_true_intro. split; [apply Nat.leb_le; exact Hrng|].
      unfold sd_mask_loc. apply negb_true_iff, orb_false_iff. split; lia. }
  rewrite Ho. cbn [andb]. pose proof (sd_step_inv i p s a Hwf HI Ho) as HI1.
  apply (IH (p ++ [a]) _ HI1).
  - cbn [step SDVRP sd_step scur]. exact Hnd2.
  - destruct (Nat.eqb a 0) eqn:Ea.
    + apply Nat.eqb_eq in Ea. subst a. cbn [step SDVRP]. rewrite (sd_depot_dwd i p s HI). cbn [sd_step sused Nat.eqb].
      intros v Hv. apply Hrng. cbn [greedy Nat.eqb]. right. exact Hv.
    + cbn [step SDVRP sd_step sdwd sused]. unfold sd_delivered. rewrite Ea, !rnd_exact.
      intros v Hv. apply Hrng. cbn [greedy]. rewrite Ea. right. exact Hv.
  - destruct (Nat.eqb a 0) eqn:Ea.
    + apply Nat.eqb_eq in Ea. subst a. cbn [step SDVRP]. rewrite (sd_depot_dwd i p s HI). cbn [sd_step sused Nat.eqb].
      intros v Hv. apply Hstr. cbn [greedy Nat.eqb]. right. exact Hv.
    + cbn [step SDVRP sd_step sdwd sused]. unfold sd_delivered. rewrite Ea, !rnd_exact.
      intros v Hv. apply Hstr. cbn [greedy]. rewrite Ea. right. exact Hv.
Qed.

(* EVERY visit sequence whose greedy decoding is a solution of the split-delivery problem with no pointless visit, and
   which never visits the depot while standing at it (the documented pruning), is reachable through the mask, and the
   row is finished at its end.  Load exactly filling the vehicle and demand exactly exhausted are included. *)
Theorem sdvrp_mask_complete i acts :
  cvrp_wf i -> acts <> [] -> nodd 0 acts = true ->
  sd_plan_ok (n_of i) (demand i) (cap i) (sd_plan i acts) -> sd_plan_strict (sd_plan i acts) ->
  adm (E:=SD) i acts = true /\ done SD i (run (E:=SD) i acts) = true.
Proof.
  intros Hwf Hne Hnd (Hrng & _ & Hdel) Hstr.
  assert (Hadm : adm (E:=SD) i acts = true).
  { apply (sd_adm_of_plan i Hwf acts [] _ (sd_reset_inv i Hwf)); assumption. }
  split; [exact Hadm|].
  destruct (sd_run_greedy i Hwf acts [] _ (sd_reset_inv i Hwf) Hadm) as (HIf & _ & _ & _ & _ & Hd).
  cbn [app sd_reset sdwd sused] in *. fold (rem0 i) in *. fold (sd_plan i acts) in *.
  change (sdn (run_from (E:=SD) i (sd_reset i) acts) = true).
  rewrite (sinv_dn _ _ _ HIf). destruct acts as [|a0 r0]; [congruence|].
  apply negb_true_iff. apply not_true_iff_false. intros Hex. apply anypos_nth in Hex as (j & Hj).
  pose proof (sinv_len _ _ _ HIf) as Hlen.
  destruct (Nat.ltb j (S (n_of i))) eqn:Ej.
  - apply Nat.ltb_lt in Ej. destruct j as [|j]; [rewrite (sinv_d0 _ _ _ HIf) in Hj; lia|].
    specialize (Hd (S j)). rewrite Hdel, rem0_demand in Hd by lia. cbn [Nat.eqb] in Hd. lia.
  - apply Nat.ltb_ge in Ej. rewrite nth_overflow in Hj by lia. lia.
Qed.

(* ================================================================ C06 *)
(* facts about the greedy decoding of an ARBITRARY in-range visit sequence (no mask involved) *)
Lemma greedy_facts n cp : 0 <= cp -> forall acts rem load,
  length rem = S n -> (forall j, 0 <= nth j rem 0) -> 0 <= load <= cp -> (forall a, In a acts -> (a <= n)%nat) ->
  let pl := greedy rem cp load acts in
  let rem' := greedy_rem rem cp load acts in
  (forall v, In v pl -> (fst v <= n)%nat) /\
  (exists h t, plan_routes pl = h :: t /\ route_qty h <= cp - load /\ Forall (fun r => route_qty r <= cp) t) /\
  (forall j, (1 <= j)%nat -> delivered_to j pl + nth j rem' 0 = nth j rem 0) /\
  (forall j, 0 <= nth j rem' 0) /\ length rem' = S n /\ nth 0 rem' 0 = nth 0 rem 0.
Proof.
  intros Hcp acts. induction acts as [|a r IH]; intros rem load Hlen Hnn Hld Hrng; cbv zeta.
  - cbn [greedy greedy_rem plan_routes]. split; [intros v []|]. split.
    + exists [], []. split; [reflexivity|]. split; [cbn; lia | constructor].
    + split; [intros j _; unfold delivered_to; cbn; lia|]. auto.
  - cbn [greedy greedy_rem]. destruct (Nat.eqb a 0) eqn:Ea.
    + destruct (IH rem 0 Hlen Hnn ltac:(lia) ltac:(intros b Hb; apply Hrng; right; exact Hb)) as (H1 & (h & t & Hpr & Hh & Ht) & H3 & H4 & H5 & H6).
      split; [intros v [<-|Hv]; [cbn; lia | apply H1; exact Hv]|]. split.
      * exists [], (h :: t). cbn [plan_routes fst Nat.eqb]. rewrite Hpr. split; [reflexivity|]. split; [cbn; lia|]. constructor; [lia | exact Ht].
      * split; [|auto]. intros j Hj. rewrite delivered_to_cons. cbn [fst snd]. specialize (H3 j Hj). destruct (Nat.eqb 0 j); lia.
    + pose proof Ea as Ea'. apply Nat.eqb_neq in Ea'. assert (Han : (a <= n)%nat) by (apply Hrng; left; reflexivity).
      set (q := Z.min (nth a rem 0) (cp - load)). pose proof (Hnn a) as Hna.
      destruct (IH (set_nth a (nth a rem 0 - q) rem) (load + q)) as (H1 & (h & t & Hpr & Hh & Ht) & H3 & H4 & H5 & H6).
      * rewrite set_nth_length. exact Hlen.
      * intros j. rewrite nth_set_nth. destruct (Nat.eqb j a && Nat.ltb a (length rem))%bool; [unfold q; lia | apply Hnn].
      * unfold q. lia.
      * intros b Hb. apply Hrng. right. exact Hb.
      * split; [intros v [<-|Hv]; [cbn; lia | apply H1; exact Hv]|]. split.
        -- exists ((a, q) :: h), t. cbn [plan_routes fst]. rewrite Ea, Hpr. split; [reflexivity|]. split; [|exact Ht].
           unfold route_qty in *. cbn [map snd sumZ]. lia.
        -- split; [|split; [exact H4|split; [exact H5|]]].
           ++ intros j Hj. rewrite delivered_to_cons. cbn [fst snd]. specialize (H3 j Hj). rewrite nth_set_nth, Hlen in H3.
              replace (Nat.ltb a (S n)) with true in H3 by (symmetry; apply Nat.ltb_lt; lia). rewrite andb_true_r in H3.
              rewrite (Nat.eqb_sym a j). destruct (Nat.eqb j a) eqn:Eja; [apply Nat.eqb_eq in Eja; subst j|]; lia.
           ++ rewrite H6. apply nth_set_nth_neq. lia.
Qed.

(* the checker's loop against the greedy decoding.  [dm] is the checker's vector: it agrees with the remaining demands
   on the customers; its depot entry d0 is -capacity until the first depot visit and 0 afterwards *)
Lemma sd_check_loop_spec i : cvrp_wf i -> forall acts dm rem u prev d0 pd,
  length rem = S (n_of i) -> length dm = S (n_of i) -> nth 0 rem 0 = 0 -> (forall j, 0 <= nth j rem 0) -> 0 <= u <= cap i ->
  nth 0 dm 0 = d0 -> (forall j, (1 <= j)%nat -> nth j dm 0 = nth j rem 0) -> (d0 = - cap i \/ d0 = 0) ->
  (pd = true -> d0 = 0) -> (pd = true <-> prev = Some 0%nat) ->
  (sd_check_loop exact i dm u prev acts = true <->
   (forall a, In a acts -> (a <= n_of i)%nat) /\
   no_early_double_depot rem (cap i) u pd acts = true /\ all_zero (greedy_rem rem (cap i) u acts) = true).
Proof.
  intros Hwf acts. pose proof Hwf as [_ Hcap].
  induction acts as [|a r IH]; intros dm rem u prev d0 pd Hlr Hld Hr0 Hnn Hu Hd0 Hdm Hd0c Hpd Hprev.
  - cbn [sd_check_loop no_early_double_depot greedy_rem]. rewrite !all_zero_nth. split.
    + intros H. split; [intros a []|]. split; [reflexivity|].
      intros j. destruct j as [|j]; [exact Hr0|]. rewrite <- Hdm by lia. specialize (H j).
      destruct dm as [|h t]; [cbn in Hld; lia | exact H].
    + intros (_ & _ & H) j. specialize (H (S j)). rewrite <- Hdm in H by lia.
      destruct dm as [|h t]; [cbn in Hld; lia | exact H].
  - cbn [sd_check_loop no_early_double_depot greedy_rem]. rewrite !rnd_exact.
    assert (Hazd : pd = true -> all_zero dm = all_zero rem).
    { intros Hp. specialize (Hpd Hp). apply eq_true_iff_eq. rewrite !all_zero_nth. split; intros H j.
      - destruct j as [|j]; [exact Hr0|]. rewrite <- Hdm by lia. apply H.
      - destruct j as [|j]; [lia|]. rewrite Hdm by lia. apply H. }
    destruct (Nat.eqb a 0) eqn:Ea.
    + apply Nat.eqb_eq in Ea. subst a. cbn [Nat.leb andb].
      (* the depot: d = min(d0, cap - u) = d0; the depot entry becomes 0 *)
      assert (Hmin : Z.min (nth 0 dm 0) (cap i - u) = d0) by (rewrite Hd0; destruct Hd0c; lia).
      rewrite Hmin, Hd0.
      assert (Hdm' : nth 0 (set_nth 0 (d0 - d0) dm) 0 = 0) by (rewrite nth_set_nth_eq by lia; lia).
      specialize (IH (set_nth 0 (d0 - d0) dm) rem 0 (Some 0%nat) 0 true Hlr ltac:(rewrite set_nth_length; exact Hld) Hr0 Hnn ltac:(lia) Hdm'
                   ltac:(intros j Hj; rewrite nth_set_nth_neq by lia; apply Hdm; exact Hj) ltac:(right; reflexivity) ltac:(reflexivity) ltac:(tauto)).
      assert (Hguard : (match prev with Some 0%nat => all_zero dm | _ => true end) = (if pd then all_zero rem else true)).
      { destruct pd.
        - rewrite (proj1 Hprev eq_refl). apply Hazd. reflexivity.
        - destruct prev as [[|k]|]; try reflexivity. exfalso. assert (false = true) by (apply Hprev; reflexivity). discriminate. }
      rewrite Hguard. change (forallb (fun d : Z => d =? 0) rem) with (all_zero rem).
      rewrite !andb_true_iff, IH. split.
      * intros ((Hg & _) & (H1 & H3 & H4)). split; [intros a [<-|Ha]; [lia | apply H1; exact Ha]|].
        split; [split; [exact Hg | exact H3] | exact H4].
      * intros (H1 & [Hg H3] & H4). split; [split; [exact Hg | reflexivity]|].
        split; [intros a Ha; apply H1; right; exact Ha|]. split; assumption.
    + pose proof Ea as Ea'. apply Nat.eqb_neq in Ea'.
      replace (match prev with Some 0%nat => true | _ => true end) with true by (destruct prev as [[|k]|]; reflexivity).
      cbn [andb]. destruct (Nat.leb a (n_of i)) eqn:Ela.
      2:{ cbn [andb]. split; [discriminate|]. intros (H1 & _). apply Nat.leb_gt in Ela. specialize (H1 a (or_introl eq_refl)). lia. }
      apply Nat.leb_le in Ela. cbn [andb]. rewrite (Hdm a ltac:(lia)).
      set (q := Z.min (nth a rem 0) (cap i - u)). pose proof (Hnn a) as Hna.
      specialize (IH (set_nth a (nth a rem 0 - q) dm) (set_nth a (nth a rem 0 - q) rem) (u + q) (Some a) d0 false).
      rewrite IH.
      * split.
        -- intros (H1 & H3 & H4). split; [intros b [<-|Hb]; [exact Ela | apply H1; exact Hb]|]. split; assumption.
        -- intros (H1 & H3 & H4). split; [intros b Hb; apply H1; right; exact Hb|]. split; assumption.
      * rewrite set_nth_length. exact Hlr.
      * rewrite set_nth_length. exact Hld.
      * rewrite nth_set_nth_neq by lia. exact Hr0.
      * intros j. rewrite nth_set_nth. destruct (Nat.eqb j a && Nat.ltb a (length rem))%bool; [unfold q; lia | apply Hnn].
      * unfold q. lia.
      * rewrite nth_set_nth_neq by lia. exact Hd0.
      * intros j Hj. rewrite !nth_set_nth, Hlr, Hld. destruct (Nat.eqb j a && Nat.ltb a (S (n_of i)))%bool; [reflexivity | apply Hdm; exact Hj].
      * exact Hd0c.
      * discriminate.
      * split; [discriminate|]. intros H. inversion H. lia.
Qed.

(* The checker decides, for EVERY action list: existing nodes only; no two consecutive depot visits while demand is
   unserved (its documented format restriction); all demand served by the greedy decoding.  (Before the repair 56d7d8e
   of /repo it also demanded a depot visit somewhere in the list; that conjunct and the refutation witness of
   completeness are recorded as fixed in known_findings.json.) *)
Theorem sdvrp_checker_iff i acts :
  cvrp_wf i ->
  (sd_checker exact i acts = true <->
   (forall a, In a acts -> (a <= n_of i)%nat) /\
   no_early_double_depot (rem0 i) (cap i) 0 false acts = true /\ all_zero (greedy_rem (rem0 i) (cap i) 0 acts) = true).
Proof.
  intros Hwf. unfold sd_checker.
  pose proof (sd_check_loop_spec i Hwf acts ((- cap i) :: dem i) (rem0 i) 0 None (- cap i) false) as H.
  specialize (H eq_refl eq_refl eq_refl (fun j => dem_nth_nonneg i j Hwf) ltac:(destruct Hwf; lia) eq_refl).
  specialize (H ltac:(intros j Hj; destruct j; [lia | reflexivity]) (or_introl eq_refl) ltac:(discriminate) ltac:(split; discriminate)).
  exact H.
Qed.

(* accepted => the decoded plan solves the split-delivery problem (visits that deliver nothing are not excluded) *)
Theorem sdvrp_checker_sound i acts :
  cvrp_wf i -> sd_checker exact i acts = true ->
  sd_plan_ok (n_of i) (demand i) (cap i) (sd_plan i acts).
Proof.
  intros Hwf Hc. apply (sdvrp_checker_iff i acts Hwf) in Hc as (Hrng & _ & Hz). pose proof Hwf as [_ Hcap].
  destruct (greedy_facts (n_of i) (cap i) Hcap acts (rem0 i) 0) as (H1 & (h & t & Hpr & Hh & Ht) & H3 & _); auto; try lia.
  { intros j. apply (dem_nth_nonneg i j Hwf). }
  fold (sd_plan i acts) in *. split; [exact H1|]. split.
  - rewrite Hpr. constructor; [lia | exact Ht].
  - intros j Hj. specialize (H3 j ltac:(lia)). rewrite all_zero_nth in Hz. rewrite Hz, rem0_demand in H3 by lia. lia.
Qed.

Lemma plan_range_acts i acts : (forall v, In v (sd_plan i acts) -> (fst v <= n_of i)%nat) -> forall a, In a acts -> (a <= n_of i)%nat.
Proof.
  unfold sd_plan. generalize (rem0 i) 0. induction acts as [|b r IH]; intros rem load Hrng a Ha; [destruct Ha|].
  cbn [greedy] in Hrng. destruct (Nat.eqb b 0) eqn:Eb.
  - destruct Ha as [<-|Ha]; [apply Nat.eqb_eq in Eb; lia|]. apply (IH rem 0); [intros v Hv; apply Hrng; right; exact Hv | exact Ha].
  - destruct Ha as [<-|Ha]; [apply (Hrng _ (or_introl eq_refl))|]. eapply IH; [intros v Hv; apply Hrng; right; exact Hv | exact Ha].
Qed.

(* every solution of the problem without an early double depot is accepted -- with or without a depot visit *)
Theorem sdvrp_checker_complete i acts :
  cvrp_wf i ->
  sd_plan_ok (n_of i) (demand i) (cap i) (sd_plan i acts) ->
  no_early_double_depot (rem0 i) (cap i) 0 false acts = true ->
  sd_checker exact i acts = true.
Proof.
  intros Hwf (Hrng & _ & Hdel) Hdd. apply (sdvrp_checker_iff i acts Hwf). pose proof Hwf as [_ Hcap].
  pose proof (plan_range_acts i acts Hrng) as Hr.
  repeat split; auto.
  destruct (greedy_facts (n_of i) (cap i) Hcap acts (rem0 i) 0) as (_ & _ & H3 & H4 & H5 & H6); auto; try lia.
  { intros j. apply (dem_nth_nonneg i j Hwf). }
  apply all_zero_nth. intros j. destruct j as [|j]; [rewrite H6; reflexivity|].
  destruct (Nat.ltb (S j) (S (n_of i))) eqn:Ej.
  - apply Nat.ltb_lt in Ej. specialize (H3 (S j) ltac:(lia)). fold (sd_plan i acts) in H3. rewrite Hdel, rem0_demand in H3 by lia. lia.
  - apply Nat.ltb_ge in Ej. apply nth_overflow. lia.
Qed.

(* mask-made action lists have no early double depot: the depot is offered at the depot only when nothing is left *)
Lemma sd_adm_no_early_dd i : cvrp_wf i -> sd_solvable i -> forall acts p s pd,
  SInv i p s -> (pd = true -> scur s = 0%nat) -> adm_from (E:=SD) i s acts = true ->
  no_early_double_depot (sdwd s) (cap i) (sused s) pd acts = true.
Proof.
  intros Hwf Hsol acts. unfold sd_solvable in Hsol. induction acts as [|a r IH]; intros p s pd HI Hpd Hadm; [reflexivity|].
  cbn [adm_from no_early_double_depot] in *. apply andb_prop in Hadm as [Ho Hadm].
  pose proof (sd_step_inv i p s a Hwf HI Ho) as HI1. cbn [step SDVRP] in *.
  destruct (Nat.eqb a 0) eqn:Ea.
  - apply Nat.eqb_eq in Ea. subst a. apply andb_true_intro. split.
    + destruct pd; [|reflexivity]. specialize (Hpd eq_refl).
      rewrite sd_offered_depot in Ho. apply negb_true_iff in Ho. unfold sd_mask_depot in Ho. rewrite Hpd in Ho. cbn [Nat.eqb andb] in Ho.
      change (all_zero (sdwd s) = true). apply all_zero_nth. intros j.
      destruct (Nat.ltb j (S (n_of i))) eqn:Ej.
      * apply Nat.ltb_lt in Ej. destruct j as [|j]; [apply (sinv_d0 _ _ _ HI)|].
        destruct (Z.eq_dec (nth (S j) (sdwd s) 0) 0) as [|Hne]; [assumption|]. exfalso.
        assert (existsb (fun j0 => negb (sd_mask_loc i s j0)) (sd_locs i) = true) as Hex.
        { apply existsb_exists. exists (S j). split; [apply in_seq; lia|].
          unfold sd_mask_loc. rewrite (sinv_cur0 _ _ _ HI Hpd). apply negb_true_iff, orb_false_iff. split; lia. }
        congruence.
      * apply Nat.ltb_ge in Ej. apply nth_overflow. rewrite (sinv_len _ _ _ HI). lia.
    + specialize (IH (p ++ [0%nat]) _ true HI1 ltac:(reflexivity) Hadm).
      rewrite (sd_depot_dwd i p s HI) in IH. cbn [sd_step sused Nat.eqb] in IH. exact IH.
  - specialize (IH (p ++ [a]) _ false HI1 ltac:(discriminate) Hadm).
    cbn [sd_step sdwd sused] in IH. unfold sd_delivered in IH. rewrite Ea, !rnd_exact in IH. exact IH.
Qed.

(* ... hence every completed mask-made episode is accepted, padded or not, with or without a depot visit
   (C01 + completeness) *)
Corollary sdvrp_checker_accepts_mask_made i acts :
  cvrp_wf i -> sd_solvable i -> adm (E:=SD) i acts = true -> done SD i (run (E:=SD) i acts) = true ->
  sd_checker exact i acts = true.
Proof.
  intros Hwf Hsol Hadm Hd. apply sdvrp_checker_complete; [exact Hwf | apply sdvrp_mask_sound; assumption |].
  apply (sd_adm_no_early_dd i Hwf Hsol acts [] (sd_reset i) false (sd_reset_inv i Hwf)); [discriminate | exact Hadm].
Qed.

Corollary sdvrp_checker_rejects_unserved i acts j :
  cvrp_wf i -> (1 <= j <= n_of i)%nat -> delivered_to j (sd_plan i acts) <> demand i j ->
  sd_checker exact i acts = false.
Proof.
  intros Hwf Hj Hn. apply not_true_iff_false. intros Hc.
  destruct (sdvrp_checker_sound i acts Hwf Hc) as (_ & _ & Hd). apply Hn. apply Hd. exact Hj.
Qed.
Corollary sdvrp_checker_rejects_unknown_node i acts a :
  cvrp_wf i -> In a acts -> (n_of i < a)%nat -> sd_checker exact i acts = false.
Proof.
  intros Hwf Ha Hn. apply not_true_iff_false. intros Hc.
  apply (sdvrp_checker_iff i acts Hwf) in Hc as (Hrng & _). specialize (Hrng a Ha). lia.
Qed.

(* executable twins for the harness: [slack] relaxes the equalities/inequalities (0 = the specification itself) *)
Definition sd_plan_okb_tol (n : nat) (dm : nat -> Z) (cp slack : Z) (p : plan) : bool :=
  forallb (fun v => Nat.leb (fst v) n) p &&
  forallb (fun r => route_qty r <=? cp + slack) (plan_routes p) &&
  forallb (fun j => Z.abs (delivered_to j p - dm j) <=? slack) (seq 1 n).
Definition sd_feasibleb (i : cvrp_inst) (slack : Z) (acts : list nat) : bool :=
  sd_plan_okb_tol (n_of i) (demand i) (cap i) slack (sd_plan i acts).
Definition sd_strictb (i : cvrp_inst) (acts : list nat) : bool := sd_plan_strictb (sd_plan i acts).
Lemma sd_feasibleb_ok i acts : sd_feasibleb i 0 acts = true <-> sd_plan_ok (n_of i) (demand i) (cap i) (sd_plan i acts).
Proof.
  rewrite <- sd_plan_okb_ok. unfold sd_feasibleb, sd_plan_okb_tol, sd_plan_okb.
  rewrite !andb_true_iff, !forallb_forall. split; intros [[H1 H2] H3]; repeat split; auto.
  - intros r Hr. specialize (H2 r Hr). lia.
  - intros j Hj. specialize (H3 j Hj). lia.
  - intros r Hr. specialize (H2 r Hr). lia.
  - intros j Hj. specialize (H3 j Hj). lia.
Qed.
