(* C09 -- k-opt (k_max in {3,4}): exhaustive finite validity of the sequential move builder + relinking
   operator, lifted from vm_compute.  This is a BOUNDED statement (bounds explicit in the theorem);
   the unbounded statement [ImproveKopt.k_opt_valid_statement] is proved in ImproveKoptBuilder.v
   ([k_opt_valid], every k and every n >= 3); this file remains as an independent exhaustive evaluation. *)
From Coq Require Import ZArith List Bool Lia ZifyBool Arith.
From RL4CO Require Import Env.Improve Env.ImproveKopt.
Import ListNotations.

(* P holds for every duplicate-free list pre ++ sfx with |pre| = m over {0..n-1} *)
Fixpoint forall_inj (n m : nat) (sfx : list nat) (P : list nat -> bool) : bool :=
  match m with
  | O => P sfx
  | S m' => forallb (fun x => if mem x sfx then true else forall_inj n m' (x :: sfx) P) (seq 0 n)
  end.

Lemma forall_inj_spec n m : forall sfx P, forall_inj n m sfx P = true ->
  forall pre, length pre = m -> Forall (fun x => x < n) pre -> NoDup (pre ++ sfx) -> P (pre ++ sfx) = true.
Proof.
  induction m as [|m IH]; intros sfx P H pre Hl Hf Hnd.
  - destruct pre; [exact H|discriminate].
  - destruct (list_last_cases pre) as [->|[pre' [x ->]]]; [discriminate|].
    rewrite app_length in Hl. simpl in Hl.
    apply Forall_app in Hf as [Hf' Hx]. inversion Hx as [|? ? Hxn _]; subst.
    rewrite <- app_assoc in Hnd |- *. cbn [app] in Hnd |- *.
    simpl in H. rewrite forallb_forall in H.
    assert (Hin : In x (seq 0 n)) by (apply in_seq; lia).
    specialize (H x Hin).
    assert (Hm : mem x sfx = false).
    { destruct (mem x sfx) eqn:E; [|reflexivity]. apply mem_In in E.
      apply NoDup_remove_2 in Hnd. exfalso. apply Hnd. apply in_or_app. right. exact E. }
    rewrite Hm in H. apply (IH (x :: sfx) P H pre'); [lia|exact Hf'|exact Hnd].
Qed.

Lemma is_tour_NoDup rec : is_tour rec -> NoDup rec.
Proof.
  intros Ht. apply (NoDup_nth rec 0). intros i j Hi Hj E. apply (is_tour_nxt_inj _ Ht); assumption.
Qed.

(* P holds for every builder state reachable by m more permitted draws *)
Fixpoint kb_forall (rec vt : list nat) (gs m i : nat) (st : kb) (P : kb -> bool) : bool :=
  match m with
  | O => P st
  | S m' => forallb (fun c => if kb_allows gs i st c
                              then kb_forall rec vt gs m' (S i) (kb_step rec vt gs i st c) P else true)
                    (seq 0 gs)
  end.

Lemma kb_forall_spec rec vt gs P : forall m i st, kb_forall rec vt gs m i st P = true ->
  forall cs st', length cs = m -> kb_loop rec vt gs i cs st = Some st' -> P st' = true.
Proof.
  induction m as [|m IH]; intros i st H cs st' Hl Hk.
  - destruct cs; [|discriminate]. simpl in Hk. inversion Hk; subst. exact H.
  - destruct cs as [|c cs]; [discriminate|]. cbn [kb_loop] in Hk.
    destruct (kb_allows gs i st c) eqn:E; [|discriminate].
    simpl in H. rewrite forallb_forall in H.
    assert (Hin : In c (seq 0 gs)).
    { unfold kb_allows in E. apply andb_prop in E as [E _]. apply Nat.ltb_lt in E. apply in_seq. lia. }
    specialize (H c Hin). rewrite E in H. apply (IH _ _ H cs st'); [simpl in Hl; lia|exact Hk].
Qed.

Definition action_ok (k : nat) (rec a : list nat) : bool :=
  is_tourb (k_opt k rec a) && scatter_consistent (firstn k (skipn k a)) (skipn (2 * k) a).

Definition action_ok_with (ags : list nat) (k : nat) (rec a : list nat) : bool :=
  is_tourb (k_opt_with ags k rec a) && scatter_consistent (firstn k (skipn k a)) (skipn (2 * k) a).

Definition kopt_check (k n : nat) : bool :=
  forall_inj n n [] (fun rec =>
    if is_tourb rec
    then let vt := visited_time rec in
         let ags := argsort rec in
         kb_forall rec vt (length rec) k 0 (kb_init k (length rec))
                   (fun st => action_ok_with ags k rec (kb_finish k st))
    else true).

Lemma kopt_check_spec k n : kopt_check k n = true ->
  forall rec cs a, length rec = n -> is_tour rec -> length cs = k ->
    kopt_builder k rec cs = Some a -> action_ok k rec a = true.
Proof.
  intros H rec cs a Hl Ht Hc Hb. unfold kopt_check in H.
  assert (Hr : Forall (fun x => x < n) rec).
  { apply Forall_forall. intros x Hx. apply In_nth with (d := 0) in Hx as [i [Hi <-]].
    rewrite <- Hl. apply (is_tour_in_range _ Ht). exact Hi. }
  assert (Hnd : NoDup (rec ++ [])) by (rewrite app_nil_r; apply is_tour_NoDup; exact Ht).
  pose proof (forall_inj_spec n n [] _ H rec Hl Hr Hnd) as H1. cbv beta in H1. rewrite app_nil_r in H1.
  apply is_tourb_spec in Ht. rewrite Ht in H1. cbv zeta in H1.
  unfold kopt_builder in Hb.
  destruct (kb_loop rec (visited_time rec) (length rec) 0 cs (kb_init k (length rec))) as [st|] eqn:Ek; [|discriminate].
  inversion Hb; subst a.
  exact (kb_forall_spec _ _ _ _ _ _ _ H1 cs st Hc Ek).
Qed.

Lemma check_3_3 : kopt_check 3 3 = true. Proof. vm_cast_no_check (@eq_refl bool true). Qed.
Lemma check_3_4 : kopt_check 3 4 = true. Proof. vm_cast_no_check (@eq_refl bool true). Qed.
Lemma check_3_5 : kopt_check 3 5 = true. Proof. vm_cast_no_check (@eq_refl bool true). Qed.
Lemma check_3_6 : kopt_check 3 6 = true. Proof. vm_cast_no_check (@eq_refl bool true). Qed.
Lemma check_3_7 : kopt_check 3 7 = true. Proof. vm_cast_no_check (@eq_refl bool true). Qed.
Lemma check_3_8 : kopt_check 3 8 = true. Proof. vm_cast_no_check (@eq_refl bool true). Qed.
Lemma check_4_3 : kopt_check 4 3 = true. Proof. vm_cast_no_check (@eq_refl bool true). Qed.
Lemma check_4_4 : kopt_check 4 4 = true. Proof. vm_cast_no_check (@eq_refl bool true). Qed.
Lemma check_4_5 : kopt_check 4 5 = true. Proof. vm_cast_no_check (@eq_refl bool true). Qed.
Lemma check_4_6 : kopt_check 4 6 = true. Proof. vm_cast_no_check (@eq_refl bool true). Qed.
Lemma check_4_7 : kopt_check 4 7 = true. Proof. vm_cast_no_check (@eq_refl bool true). Qed.

(* PARTIAL (bounded) THEOREM: k = 3 with 3 <= n <= 8, k = 4 with 3 <= n <= 7; all tours, all draws the
   sampler can make.  Also: the scatter of (left, right) never has conflicting duplicate indices. *)
Theorem k_opt_valid_partial : forall k rec cs a,
  (k = 3 /\ 3 <= length rec <= 8) \/ (k = 4 /\ 3 <= length rec <= 7) ->
  is_tour rec -> length cs = k -> kopt_builder k rec cs = Some a ->
  is_tour (k_opt k rec a) /\
  scatter_consistent (firstn k (skipn k a)) (skipn (2 * k) a) = true.
Proof.
  intros k rec cs a Hb Ht Hc Hk.
  assert (H : action_ok k rec a = true).
  { destruct Hb as [[-> Hn]|[-> Hn]].
    - assert (Hcases : length rec = 3 \/ length rec = 4 \/ length rec = 5 \/ length rec = 6 \/ length rec = 7 \/ length rec = 8) by lia.
      destruct Hcases as [E|[E|[E|[E|[E|E]]]]].
      + exact (kopt_check_spec 3 3 check_3_3 rec cs a E Ht Hc Hk).
      + exact (kopt_check_spec 3 4 check_3_4 rec cs a E Ht Hc Hk).
      + exact (kopt_check_spec 3 5 check_3_5 rec cs a E Ht Hc Hk).
      + exact (kopt_check_spec 3 6 check_3_6 rec cs a E Ht Hc Hk).
      + exact (kopt_check_spec 3 7 check_3_7 rec cs a E Ht Hc Hk).
      + exact (kopt_check_spec 3 8 check_3_8 rec cs a E Ht Hc Hk).
    - assert (Hcases : length rec = 3 \/ length rec = 4 \/ length rec = 5 \/ length rec = 6 \/ length rec = 7) by lia.
      destruct Hcases as [E|[E|[E|[E|E]]]].
      + exact (kopt_check_spec 4 3 check_4_3 rec cs a E Ht Hc Hk).
      + exact (kopt_check_spec 4 4 check_4_4 rec cs a E Ht Hc Hk).
      + exact (kopt_check_spec 4 5 check_4_5 rec cs a E Ht Hc Hk).
      + exact (kopt_check_spec 4 6 check_4_6 rec cs a E Ht Hc Hk).
      + exact (kopt_check_spec 4 7 check_4_7 rec cs a E Ht Hc Hk). }
  unfold action_ok in H. apply andb_prop in H as [H1 H2]. split; [apply is_tourb_spec; exact H1|exact H2].
Qed.

(* non-vacuity: the 6-node tour 0 3 1 5 2 4 and draws (0, 1, 2) give a genuine 3-exchange (order 0 1 3 2 5 4);
   draws (2, 5, 1) are impossible (5 is masked after 2) *)
Example k_opt_ex :
  is_tourb [3; 5; 4; 1; 0; 2] = true /\
  kopt_builder 3 [3; 5; 4; 1; 0; 2] [0; 1; 2] = Some [0; 1; 2; 0; 3; 5; 1; 2; 4] /\
  k_opt 3 [3; 5; 4; 1; 0; 2] [0; 1; 2; 0; 3; 5; 1; 2; 4] = [1; 3; 5; 2; 0; 4] /\
  kopt_builder 3 [3; 5; 4; 1; 0; 2] [2; 5; 1] = None.
Proof. vm_compute. repeat split; reflexivity. Qed.

(* REFUTED at n = 2 (degenerate two-node instance): the sampler's own move turns the tour 0 <-> 1 into two
   self-loops.  The lower bound 3 <= n in the statements above is therefore necessary. *)
Theorem k_opt_two_nodes_refuted :
  exists cs a, is_tourb [1; 0] = true /\ length cs = 3 /\ kopt_builder 3 [1; 0] cs = Some a /\
               is_tourb (k_opt 3 [1; 0] a) = false.
Proof. exists [1; 1; 0], [1; 1; 0; 1; 0; 0; 1; 0; 0]. vm_compute. repeat split; reflexivity. Qed.
