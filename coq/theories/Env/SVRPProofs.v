(* SVRP: independent specification and the theorems for C01-C06, for both behaviours of the technician index
   ([fx = false]: the code as it is; [fx = true]: index clamped, the repaired behaviour), plus the [_refuted]
   witnesses for the statements the code as it is violates. *)
From Coq Require Import ZArith List Bool Lia ZifyBool Arith.
From RL4CO Require Import Base.Num Base.EnvSig Base.SortNat Spec.Routes Env.SVRP.
Import ListNotations.
Open Scope Z_scope.

(* ---------------------------------------------------------------- specification (problem definition) *)
(* Skill VRP (class docstring; Cappanera, Gouveia, Scutella 2011): every customer is served by exactly one technician,
   whose skill is at least the customer's requirement; each technician drives one closed route from the depot; travel
   is charged at the technician's cost factor.  An action list encodes a solution by splitting it at the depot
   visits: the k-th segment (k = 0, 1, ...) is the route of technician k.  Empty segments are technicians that stay
   at home (also beyond the last technician: padding). *)
Definition route_ok (i : svrp_inst) (k : nat) (r : list nat) : Prop :=
  (r <> [] -> (k < sm_of i)%nat) /\ Forall (fun j => sskill i j <= tskill i k) r.
Fixpoint routes_ok (i : svrp_inst) (k : nat) (rs : list (list nat)) : Prop :=
  match rs with
  | [] => True
  | r :: rest => route_ok i k r /\ routes_ok i (S k) rest
  end.
Definition svrp_feasible (i : svrp_inst) (acts : list nat) : Prop :=
  (forall j, (1 <= j <= sn_of i)%nat -> occ j acts = 1%nat) /\
  (forall a, In a acts -> (a <= sn_of i)%nat) /\
  routes_ok i 0 (routes acts).

(* objective: sum over technicians of cost factor * closed length of the technician's route *)
Fixpoint wsum (i : svrp_inst) (k : nat) (rs : list (list nat)) : Z :=
  match rs with
  | [] => 0
  | r :: rest => nth k (tcosts i) 0 * route_len (sdfun i) r + wsum i (S k) rest
  end.
Definition svrp_objective (i : svrp_inst) (acts : list nat) : Z := - wsum i 0 (routes acts).

(* documented input format: at least one technician and one customer, one cost factor per technician *)
Definition svrp_wfb (i : svrp_inst) : bool :=
  Nat.ltb 0 (sm_of i) && Nat.ltb 0 (sn_of i) && Nat.eqb (length (tcosts i)) (sm_of i).
Definition svrp_wf (i : svrp_inst) : Prop := (0 < sm_of i)%nat /\ (0 < sn_of i)%nat /\ length (tcosts i) = sm_of i.
Lemma svrp_wfb_ok i : svrp_wfb i = true <-> svrp_wf i.
Proof. unfold svrp_wfb, svrp_wf. rewrite !andb_true_iff, !Nat.ltb_lt, Nat.eqb_eq. tauto. Qed.

(* needed for solvability (C02): the last technician can serve every customer (the generator sorts technicians
   ascendingly and scales the requirements by the largest skill) *)
Definition svrp_solvableb (i : svrp_inst) : bool := forallb (fun q => q <=? tskill i (sm_of i - 1)) (skills i).
Definition svrp_solvable (i : svrp_inst) : Prop := forall j, (1 <= j <= sn_of i)%nat -> sskill i j <= tskill i (sm_of i - 1).
Lemma svrp_solvableb_ok i : svrp_solvableb i = true <-> svrp_solvable i.
Proof.
  unfold svrp_solvableb, svrp_solvable. rewrite forallb_forall. split.
  - intros H j Hj. unfold sskill. assert (In (nth (j - 1) (skills i) 0) (skills i)) as Hin by (apply nth_In; unfold sn_of in Hj; lia).
    specialize (H _ Hin). lia.
  - intros H q Hq. destruct (In_nth _ _ 0 Hq) as (k & Hk & <-). specialize (H (S k)). unfold sskill, sn_of in H.
    replace (S k - 1)%nat with k in H by lia. apply Z.leb_le. apply H. lia.
Qed.

(* ---------------------------------------------------------------- executable twins of the specification *)
Fixpoint routes_okb (i : svrp_inst) (k : nat) (rs : list (list nat)) : bool :=
  match rs with
  | [] => true
  | r :: rest =>
      ((match r with [] => true | _ => Nat.ltb k (sm_of i) end) && forallb (fun j => sskill i j <=? tskill i k) r)
      && routes_okb i (S k) rest
  end.
Definition svrp_feasibleb (i : svrp_inst) (acts : list nat) : bool :=
  forallb (fun j => Nat.eqb (occ j acts) 1) (seq 1 (sn_of i)) &&
  forallb (fun a => Nat.leb a (sn_of i)) acts &&
  routes_okb i 0 (routes acts).

(* ---------------------------------------------------------------- basic facts *)
Section Proofs.
  Variable fx : bool.
  Notation E := (SVRP fx).

  (* technician on duty after z depot visits *)
  Definition etech (i : svrp_inst) (z : nat) : nat := if fx then Nat.min z (sm_of i - 1) else z.

  Lemma offered_lt i s a : offered (E:=E) i s a = true -> (stech s < sm_of i)%nat.
  Proof.
    unfold offered. cbn [mask SVRP]. unfold svrp_mask. destruct (Nat.ltb (stech s) (sm_of i)) eqn:El.
    - intros _. apply Nat.ltb_lt. exact El.
    - destruct a; discriminate.
  Qed.

  Lemma offered_sdepot i s : offered (E:=E) i s 0 = true -> smask_depot i s = false.
  Proof.
    intros H. pose proof (offered_lt i s 0 H) as Hl. apply Nat.ltb_lt in Hl.
    unfold offered in H. cbn [mask SVRP] in H. unfold svrp_mask in H. rewrite Hl in H. cbn [nth] in H.
    apply negb_true_iff in H. exact H.
  Qed.

  Lemma offered_sloc i s a : (1 <= a)%nat -> (stech s < sm_of i)%nat ->
    offered (E:=E) i s a = (Nat.leb a (sn_of i) && negb (smask_loc i s a))%bool.
  Proof.
    intros Ha Hl. apply Nat.ltb_lt in Hl. unfold offered. cbn [mask SVRP]. unfold svrp_mask. rewrite Hl.
    destruct a as [|a]; [lia|]. cbn [nth]. unfold slocs. destruct (Nat.leb (S a) (sn_of i)) eqn:El.
    - apply Nat.leb_le in El. rewrite nth_map_seq by lia. reflexivity.
    - apply Nat.leb_gt in El. rewrite nth_overflow by (rewrite map_length, seq_length; lia). reflexivity.
  Qed.

  Lemma route_ok_nil i k : route_ok i k [].
  Proof. split; [congruence | constructor]. Qed.

  (* ---------------------------------------------------------------- the invariant *)
  (* state s reached after prefix p whose open route (since the last depot visit) is c, in reverse *)
  Record Inv (i : svrp_inst) (p c : list nat) (s : svrp_st) : Prop := {
    il_len : length (svis s) = S (sn_of i);
    il_vis : forall j, (j <= sn_of i)%nat -> nth j (svis s) false = true <-> In j p;
    il_cnt : forall j, (1 <= j <= sn_of i)%nat -> (occ j p <= 1)%nat;
    il_rng : forall a, In a p -> (a <= sn_of i)%nat;
    il_cur : scur s = last p 0%nat;
    il_cur0 : scur s = 0%nat -> c = [];
    il_tech : stech s = etech i (occ 0 p);
    il_open : route_ok i (occ 0 p) (rev c);
    (* clamped behaviour only: once the last technician has returned, no unvisited customer is within his skill *)
    il_sat : fx = true -> (sm_of i <= occ 0 p)%nat ->
             forall j, (1 <= j <= sn_of i)%nat -> nth j (svis s) false = false -> tskill i (sm_of i - 1) < sskill i j;
  }.

  Lemma reset_inv i : svrp_wf i -> Inv i [] [] (svrp_reset i).
  Proof.
    intros (Hm & Hn & _). constructor; cbn [svrp_reset svis scur stech rev last]; try reflexivity.
    - rewrite repeat_length. reflexivity.
    - intros j Hj. split; [|intros []]. intros H. exfalso. rewrite nth_repeat in H. discriminate.
    - intros j Hj. rewrite occ_nil. lia.
    - intros a [].
    - rewrite occ_nil. unfold etech. destruct fx; lia.
    - apply route_ok_nil.
    - rewrite occ_nil. lia.
  Qed.

  Lemma occ0_snoc p a : occ 0 (p ++ [a]) = (occ 0 p + (if Nat.eqb a 0 then 1 else 0))%nat.
  Proof. rewrite occ_app, occ_cons, occ_nil. lia. Qed.

  Lemma step_inv i p c s a :
    svrp_wf i -> Inv i p c s -> offered (E:=E) i s a = true ->
    Inv i (p ++ [a]) (if Nat.eqb a 0 then [] else a :: c) (svrp_step fx i s a).
  Proof.
    intros Hwf HI Hm. pose proof (offered_lt i s a Hm) as Hlt.
    destruct HI as [Hlen Hvis Hcnt Hrng Hcur Hc0 Htech Hopen Hsat]. destruct Hwf as (Hm0 & Hn0 & _).
    destruct (Nat.eqb a 0) eqn:Ea.
    - apply Nat.eqb_eq in Ea; subst a. pose proof (offered_sdepot i s Hm) as Hd.
      constructor; cbn [svrp_step svis scur stech].
      + rewrite set_nth_length; exact Hlen.
      + intros j Hj. rewrite nth_set_nth, Hlen, in_app_iff. cbn [In]. destruct (Nat.eqb j 0) eqn:Ej.
        * apply Nat.eqb_eq in Ej. subst j. cbn. tauto.
        * apply Nat.eqb_neq in Ej. cbn [andb]. rewrite Hvis by exact Hj. split; [tauto|]. intros [H|[H|[]]]; [exact H | lia].
      + intros j Hj. rewrite occ_app, occ_cons, occ_nil. replace (Nat.eqb 0 j) with false by (symmetry; apply Nat.eqb_neq; lia).
        specialize (Hcnt j Hj). lia.
      + intros b Hb. apply in_app_iff in Hb as [Hb|[<-|[]]]; [auto | lia].
      + rewrite last_last. reflexivity.
      + reflexivity.
      + rewrite occ0_snoc. cbn [Nat.eqb]. unfold next_tech. cbn [Nat.eqb]. rewrite Htech. unfold etech. destruct fx; lia.
      + apply route_ok_nil.
      + intros Hfx Hz j Hj Hv. rewrite occ0_snoc in Hz. cbn [Nat.eqb] in Hz.
        rewrite nth_set_nth_neq in Hv by lia.
        destruct (Nat.leb (sm_of i) (occ 0 p)) eqn:Ez.
        * apply Nat.leb_le in Ez. apply (Hsat Hfx Ez j Hj Hv).
        * apply Nat.leb_gt in Ez. assert (Hst : stech s = (sm_of i - 1)%nat) by (rewrite Htech; unfold etech; rewrite Hfx; lia).
          unfold smask_depot in Hd. rewrite Hst, Nat.eqb_refl, orb_true_r in Hd. cbn [andb] in Hd.
          assert (Hml : smask_loc i s j = true).
          { destruct (smask_loc i s j) eqn:Eml; [reflexivity|]. exfalso.
            assert (existsb (fun j0 => negb (smask_loc i s j0)) (slocs i) = true); [|congruence].
            apply existsb_exists. exists j. rewrite Eml. split; [apply in_seq; lia | reflexivity]. }
          unfold smask_loc in Hml. rewrite Hv in Hml. cbn [orb] in Hml. apply negb_true_iff in Hml.
          unfold can_service in Hml. rewrite Hst in Hml. lia.
    - pose proof Ea as Ea0. apply Nat.eqb_neq in Ea0.
      rewrite offered_sloc in Hm by lia. apply andb_prop in Hm as [Hle Hml]. apply Nat.leb_le in Hle.
      unfold smask_loc in Hml. apply negb_true_iff, orb_false_iff in Hml as [Hnv Hcs]. apply negb_false_iff in Hcs.
      unfold can_service in Hcs.
      assert (Ha : (1 <= a <= sn_of i)%nat) by lia.
      (* the open route belongs to an existing technician *)
      assert (Hz : (occ 0 p < sm_of i)%nat).
      { destruct (Nat.leb (sm_of i) (occ 0 p)) eqn:Ez; [|apply Nat.leb_gt in Ez; exact Ez]. apply Nat.leb_le in Ez. exfalso.
        destruct fx eqn:Efx.
        - pose proof (Hsat eq_refl Ez a Ha Hnv) as Hs. unfold etech in Htech. rewrite Htech in Hcs.
          replace (Nat.min (occ 0 p) (sm_of i - 1)) with (sm_of i - 1)%nat in Hcs by lia. lia.
        - unfold etech in Htech. lia. }
      assert (Hst : stech s = occ 0 p) by (rewrite Htech; unfold etech; destruct fx; lia).
      constructor; cbn [svrp_step svis scur stech].
      + rewrite set_nth_length; exact Hlen.
      + intros j Hj. rewrite nth_set_nth, Hlen.
        replace (Nat.ltb a (S (sn_of i))) with true by (symmetry; apply Nat.ltb_lt; lia).
        rewrite andb_true_r, in_app_iff. cbn [In]. destruct (Nat.eqb j a) eqn:Ej.
        * apply Nat.eqb_eq in Ej. subst. tauto.
        * apply Nat.eqb_neq in Ej. rewrite Hvis by exact Hj. split; [tauto|]. intros [H|[H|[]]]; [exact H | congruence].
      + intros j Hj. rewrite occ_app, occ_cons, occ_nil. destruct (Nat.eqb a j) eqn:Ej.
        * apply Nat.eqb_eq in Ej. subst j.
          assert (~ In a p) as Hn. { rewrite <- Hvis by lia. rewrite Hnv. discriminate. }
          apply occ_not_In in Hn. lia.
        * specialize (Hcnt j Hj). lia.
      + intros b Hb. apply in_app_iff in Hb as [Hb|[<-|[]]]; [auto | lia].
      + rewrite last_last. reflexivity.
      + intros H. lia.
      + rewrite occ0_snoc, Ea, Nat.add_0_r. unfold next_tech. rewrite Ea. exact Htech.
      + rewrite occ0_snoc, Ea, Nat.add_0_r. cbn [rev]. destruct Hopen as [_ Hf]. split; [intros _; exact Hz|].
        apply Forall_app. split; [exact Hf|]. constructor; [|constructor]. rewrite <- Hst. lia.
      + intros Hfx Hz'. rewrite occ0_snoc, Ea, Nat.add_0_r in Hz'. lia.
  Qed.

  (* invariant along a run, together with the routes closed on the way *)
  Lemma run_inv i : svrp_wf i -> forall acts p c s,
    Inv i p c s -> adm_from (E:=E) i s acts = true ->
    routes_ok i (occ 0 p) (routes_aux acts c) /\
    exists c', Inv i (p ++ acts) c' (run_from (E:=E) i s acts).
  Proof.
    intros Hwf acts. induction acts as [|a r IH]; intros p c s HI Hadm; cbn [adm_from run_from routes_aux] in *.
    - split; [cbn [routes_ok]; split; [exact (il_open _ _ _ _ HI) | exact I]|]. exists c. rewrite app_nil_r. exact HI.
    - apply andb_prop in Hadm as [Hm Hadm].
      pose proof (step_inv i p c s a Hwf HI Hm) as HI'.
      destruct (IH _ _ _ HI' Hadm) as [HF [c' HI'']]. rewrite occ0_snoc in HF.
      destruct (Nat.eqb a 0) eqn:Ea.
      + split; [cbn [routes_ok]; split; [exact (il_open _ _ _ _ HI)|]; replace (S (occ 0 p)) with (occ 0 p + 1)%nat by lia; exact HF|].
        exists c'. rewrite <- app_assoc in HI''. exact HI''.
      + rewrite Nat.add_0_r in HF. split; [exact HF|]. exists c'. rewrite <- app_assoc in HI''. exact HI''.
  Qed.

  Lemma adm_inv i acts : svrp_wf i -> adm (E:=E) i acts = true -> exists c, Inv i acts c (run (E:=E) i acts).
  Proof.
    intros Hwf Hadm. destruct (run_inv i Hwf acts [] [] _ (reset_inv i Hwf) Hadm) as [_ [c H]]. exists c. exact H.
  Qed.

  (* ================================================================ C01 *)
  Theorem svrp_mask_sound i acts :
    svrp_wf i -> adm (E:=E) i acts = true -> done E i (run (E:=E) i acts) = true -> svrp_feasible i acts.
  Proof.
    intros Hwf Hadm Hdone.
    destruct (run_inv i Hwf acts [] [] _ (reset_inv i Hwf) Hadm) as [HF [c' HI]].
    cbn [app] in HI. rewrite occ_nil in HF. destruct HI as [Hlen Hvis Hcnt Hrng _ _ _ _ _].
    split; [|split].
    - intros j Hj. specialize (Hcnt j Hj).
      assert (In j acts) as Hin. { apply Hvis; [lia|]. apply allb_nth; [exact Hdone|]. unfold run in Hlen. lia. }
      apply occ_In in Hin. lia.
    - exact Hrng.
    - exact HF.
  Qed.
  (* ================================================================ C02 *)
  Theorem svrp_done_stable i acts a :
    adm (E:=E) i (acts ++ [a]) = true -> done E i (run (E:=E) i acts) = true ->
    done E i (run (E:=E) i (acts ++ [a])) = true.
  Proof.
    intros Hadm Hd. rewrite run_snoc. cbn [done SVRP step] in *. unfold svrp_done in *.
    cbn [svrp_step svis]. apply allb_forall. intros j Hj. rewrite set_nth_length in Hj.
    rewrite nth_set_nth. destruct (Nat.eqb j a && Nat.ltb a (length (svis (run (E:=E) i acts))))%bool; [reflexivity|].
    apply allb_nth; assumption.
  Qed.

  Lemma ok_from_app i s a b : ok_from (E:=E) i s (a ++ b) = (ok_from (E:=E) i s a && ok_from (E:=E) i (run_from (E:=E) i s a) b)%bool.
  Proof. revert s; induction a as [|x a IH]; intros s; cbn [app ok_from run_from andb]; [reflexivity|]. rewrite IH, andb_assoc. reflexivity. Qed.

  (* as long as no step raised, the technician index is inside td["techs"] *)
  Lemma ok_tech i acts : svrp_wf i -> ok_from (E:=E) i (reset E i) acts = true -> (stech (run (E:=E) i acts) < sm_of i)%nat.
  Proof.
    intros (Hm & _). induction acts as [|a acts IH] using rev_ind; intros Hok; [cbn; exact Hm|].
    rewrite ok_from_app in Hok. apply andb_prop in Hok as [_ Hok]. cbn [ok_from] in Hok. rewrite andb_true_r in Hok.
    rewrite run_snoc. cbn [stepok SVRP step] in *. unfold svrp_stepok in Hok. apply andb_prop in Hok as [_ Hok].
    apply Nat.ltb_lt in Hok. exact Hok.
  Qed.

  Lemma inv_tech_lt i p c s : svrp_wf i -> Inv i p c s -> fx = true -> (stech s < sm_of i)%nat.
  Proof. intros (Hm & _) HI Hfx. rewrite (il_tech _ _ _ _ HI). unfold etech. rewrite Hfx. lia. Qed.

  (* every state reached through offered actions without a raise (finished or not) offers at least one action *)
  Theorem svrp_no_dead_end i acts :
    svrp_wf i -> adm (E:=E) i acts = true -> (fx = true \/ ok_from (E:=E) i (reset E i) acts = true) ->
    anyb (mask E i (run (E:=E) i acts)) = true.
  Proof.
    intros Hwf Hadm Hh. destruct (adm_inv i acts Hwf Hadm) as [c HI].
    assert (Hlt : (stech (run (E:=E) i acts) < sm_of i)%nat).
    { destruct Hh as [Hfx|Hok]; [apply (inv_tech_lt i acts c _ Hwf HI Hfx) | apply ok_tech; assumption]. }
    set (s := run (E:=E) i acts) in *. cbn [mask SVRP]. unfold svrp_mask. apply Nat.ltb_lt in Hlt. rewrite Hlt.
    unfold anyb. cbn [existsb]. destruct (smask_depot i s) eqn:Ed; [|reflexivity]. cbn [negb orb].
    unfold smask_depot in Ed. apply andb_prop in Ed as [_ Hex].
    apply existsb_exists in Hex as (j & Hj & Hjm). apply existsb_exists.
    exists true. split; [|reflexivity]. apply in_map_iff. exists j. split; [exact Hjm | exact Hj].
  Qed.

  (* at the last technician the depot opens only when every customer is visited (solvable instances) *)
  Lemma last_tech_depot i p c s : svrp_solvable i -> Inv i p c s -> stech s = (sm_of i - 1)%nat ->
    smask_depot i s = false -> forall j, (1 <= j <= sn_of i)%nat -> nth j (svis s) false = true.
  Proof.
    intros Hsol HI Hst Hd j Hj. unfold smask_depot in Hd. rewrite Hst, Nat.eqb_refl, orb_true_r in Hd. cbn [andb] in Hd.
    destruct (nth j (svis s) false) eqn:Ev; [reflexivity|]. exfalso.
    assert (existsb (fun j0 => negb (smask_loc i s j0)) (slocs i) = true); [|congruence].
    apply existsb_exists. exists j. split; [apply in_seq; lia|]. unfold smask_loc, can_service. rewrite Ev, Hst. cbn [orb].
    specialize (Hsol j Hj). apply negb_true_iff, negb_false_iff. lia.
  Qed.

  (* offered actions never index outside the tensors -- for the repaired behaviour always; for the code as it is,
     on rows that are not yet finished when there are at least two technicians *)
  Theorem svrp_step_ok i acts a :
    svrp_wf i -> svrp_solvable i -> adm (E:=E) i acts = true -> offered (E:=E) i (run (E:=E) i acts) a = true ->
    (fx = true \/ (done E i (run (E:=E) i acts) = false /\ (2 <= sm_of i)%nat)) ->
    stepok E i (run (E:=E) i acts) a = true.
  Proof.
    intros Hwf Hsol Hadm Ho Hh. destruct (adm_inv i acts Hwf Hadm) as [c HI]. pose proof (offered_lt i _ a Ho) as Hlt.
    set (s := run (E:=E) i acts) in *. cbn [stepok SVRP]. unfold svrp_stepok. apply andb_true_intro. split.
    - destruct a as [|a]; [reflexivity|]. rewrite offered_sloc in Ho by lia. apply andb_prop in Ho as [Hle _]. exact Hle.
    - apply Nat.ltb_lt. unfold next_tech. destruct (Nat.eqb a 0) eqn:Ea; [|exact Hlt]. apply Nat.eqb_eq in Ea. subst a.
      destruct Hwf as (Hm & _). destruct fx eqn:Efx; [lia|].
      destruct Hh as [Hc|[Hnd Hm2]]; [discriminate|].
      destruct (Nat.eq_dec (stech s) (sm_of i - 1)) as [Hst|Hst]; [|lia]. exfalso.
      pose proof (last_tech_depot i acts c s Hsol HI Hst (offered_sdepot i s Ho)) as Hall.
      (* not finished, so the depot itself is unvisited: no depot visit so far, so technician 0 is on duty *)
      assert (Hn0 : ~ In 0%nat acts).
      { intros Hin. cbn [done SVRP] in Hnd. unfold svrp_done in Hnd.
        assert (allb (svis s) = true); [|congruence]. apply allb_forall. intros j Hj. rewrite (il_len _ _ _ _ HI) in Hj.
        destruct j as [|j]; [apply (il_vis _ _ _ _ HI); [lia | exact Hin] | apply Hall; lia]. }
      apply occ_not_In in Hn0. pose proof (il_tech _ _ _ _ HI) as Ht. unfold etech in Ht. rewrite Hn0, Efx in Ht. lia.
  Qed.

  Lemma customers_bound n p : (forall j, (1 <= j <= n)%nat -> (occ j p <= 1)%nat) ->
    (forall a, In a p -> (a <= n)%nat) -> (length (customers p) <= n)%nat.
  Proof.
    intros Hc Hr.
    assert (ND : NoDup (customers p)).
    { apply (NoDup_count_occ Nat.eq_dec). intros x. unfold customers.
      destruct (Nat.eqb x 0) eqn:Ex.
      - apply Nat.eqb_eq in Ex. subst x.
        assert (~ In 0%nat (filter (fun a => negb (Nat.eqb a 0)) p)) as H.
        { intros H. apply filter_In in H as [_ H]. discriminate. }
        apply (count_occ_not_In Nat.eq_dec) in H. lia.
      - apply Nat.eqb_neq in Ex.
        destruct (in_dec Nat.eq_dec x p) as [Hin|Hnin].
        + assert (count_occ Nat.eq_dec (filter (fun a => negb (Nat.eqb a 0)) p) x <= count_occ Nat.eq_dec p x)%nat as Hle.
          { clear. induction p as [|y p IH]; simpl; [lia|]. destruct (Nat.eqb y 0); simpl; destruct (Nat.eq_dec y x); lia. }
          specialize (Hc x). specialize (Hr x Hin). unfold occ in Hc. lia.
        + assert (~ In x (filter (fun a => negb (Nat.eqb a 0)) p)) as H by (intros H; apply filter_In in H; tauto).
          apply (count_occ_not_In Nat.eq_dec) in H. lia. }
    assert (Hincl : incl (customers p) (seq 1 n)).
    { intros x Hx. unfold customers in Hx. apply filter_In in Hx as [Hx Hnz]. apply in_seq.
      apply negb_true_iff, Nat.eqb_neq in Hnz. specialize (Hr x Hx). lia. }
    pose proof (NoDup_incl_length ND Hincl) as H. rewrite seq_length in H. exact H.
  Qed.

  Lemma length_customers_zeros p : length p = (length (customers p) + occ 0 p)%nat.
  Proof.
    induction p as [|a p IH]; [reflexivity|]. unfold customers in *. rewrite occ_cons. cbn [filter length].
    destruct (Nat.eqb a 0); cbn [negb length]; lia.
  Qed.

  (* an admitted action list none of whose proper prefixes is finished has at most n + m actions *)
  Theorem svrp_bound i acts :
    svrp_wf i -> svrp_solvable i -> adm (E:=E) i acts = true ->
    (forall p q, acts = p ++ q -> q <> [] -> done E i (run (E:=E) i p) = false) ->
    (length acts <= sn_of i + sm_of i)%nat.
  Proof.
    intros Hwf Hsol Hadm Hnd.
    assert (G : forall p q, acts = p ++ q -> (occ 0 p <= sm_of i)%nat /\ (occ 0 p = sm_of i -> q = [])).
    { intros p. induction p as [|a p IH] using rev_ind; intros q Hq.
      - rewrite occ_nil. destruct Hwf as (Hm & _). split; [lia | intros H; lia].
      - rewrite <- app_assoc in Hq. cbn [app] in Hq. destruct (IH _ Hq) as [Hle Himp].
        assert (Hlt : (occ 0 p < sm_of i)%nat). { destruct (Nat.eq_dec (occ 0 p) (sm_of i)) as [He|]; [specialize (Himp He); discriminate | lia]. }
        rewrite occ0_snoc. split; [destruct (Nat.eqb a 0); lia|]. intros Hz.
        destruct (Nat.eqb a 0) eqn:Ea; [|lia]. apply Nat.eqb_eq in Ea. subst a.
        destruct q as [|b q]; [reflexivity|]. exfalso.
        assert (Hadm1 : adm (E:=E) i ((p ++ [0%nat]) ++ [b]) = true).
        { rewrite Hq in Hadm. replace (p ++ 0%nat :: b :: q) with (((p ++ [0%nat]) ++ [b]) ++ q) in Hadm by (rewrite <- !app_assoc; reflexivity).
          apply adm_prefix in Hadm. exact Hadm. }
        rewrite adm_snoc in Hadm1. apply andb_prop in Hadm1 as [Hadm0 Hob].
        pose proof Hadm0 as Hadm0'. rewrite adm_snoc in Hadm0'. apply andb_prop in Hadm0' as [Hadmp Ho0].
        destruct (adm_inv i p Hwf Hadmp) as [c HI]. destruct (adm_inv i _ Hwf Hadm0) as [c0 HI0].
        pose proof (offered_lt i _ b Hob) as Hltb. rewrite (il_tech _ _ _ _ HI0), occ0_snoc in Hltb. cbn [Nat.eqb] in Hltb.
        unfold etech in Hltb. destruct (Bool.bool_dec fx true) as [Efx|Efx]; [|apply not_true_is_false in Efx; rewrite Efx in Hltb; lia].
        (* clamped behaviour: the last technician has just returned, so everything is visited: the prefix is finished *)
        assert (Hst : stech (run (E:=E) i p) = (sm_of i - 1)%nat) by (rewrite (il_tech _ _ _ _ HI); unfold etech; rewrite Efx; lia).
        pose proof (last_tech_depot i p c _ Hsol HI Hst (offered_sdepot i _ Ho0)) as Hall.
        assert (Hdone : done E i (run (E:=E) i (p ++ [0%nat])) = true).
        { cbn [done SVRP]. unfold svrp_done. apply allb_forall. intros j Hj. rewrite (il_len _ _ _ _ HI0) in Hj.
          destruct j as [|j]; [apply (il_vis _ _ _ _ HI0); [lia | apply in_app_iff; right; left; reflexivity]|].
          rewrite run_snoc. cbn [step SVRP svrp_step svis]. rewrite nth_set_nth_neq by lia. apply Hall. lia. }
        rewrite (Hnd (p ++ [0%nat]) (b :: q)) in Hdone; [discriminate | rewrite <- app_assoc; exact Hq | discriminate]. }
    destruct (G acts [] (eq_sym (app_nil_r acts))) as [Hz _].
    destruct (adm_inv i acts Hwf Hadm) as [c HI].
    pose proof (customers_bound (sn_of i) acts (il_cnt _ _ _ _ HI) (il_rng _ _ _ _ HI)) as Hcb.
    rewrite (length_customers_zeros acts). lia.
  Qed.

  (* ================================================================ C03 *)
  (* total version of [tcost]: the cost factor charged for technician index k *)
  Definition costf (i : svrp_inst) (k : nat) : Z :=
    nth (if fx then Nat.min k (length (tcosts i) - 1) else k) (tcosts i) 0.
  Fixpoint wl (i : svrp_inst) (from tech : nat) (acts : list nat) : Z :=
    match acts with
    | [] => costf i tech * sdfun i from 0%nat
    | a :: r => costf i tech * sdfun i from a + wl i a (if Nat.eqb a 0 then S tech else tech) r
    end.

  Lemma tcost_some i k : (0 < length (tcosts i))%nat -> (fx = true \/ (k < length (tcosts i))%nat) -> tcost fx i k = Some (costf i k).
  Proof.
    intros HL Hh. unfold tcost, tidx, costf. destruct (Bool.bool_dec fx true) as [Efx|Efx].
    - rewrite Efx. apply Nat.ltb_lt in HL. rewrite HL. reflexivity.
    - apply not_true_is_false in Efx. destruct Hh as [Hc|Hk]; [congruence|]. rewrite Efx. apply Nat.ltb_lt in Hk. rewrite Hk. reflexivity.
  Qed.

  Lemma legs_total i : (0 < length (tcosts i))%nat -> forall acts from tech,
    (fx = true \/ (tech + occ 0 acts < length (tcosts i))%nat) -> legs fx i from tech acts = Some (wl i from tech acts).
  Proof.
    intros HL acts. induction acts as [|a r IH]; intros from tech Hh; cbn [legs wl].
    - rewrite tcost_some; [reflexivity | exact HL | destruct Hh as [H|H]; [left; exact H | right; lia]].
    - rewrite tcost_some; [| exact HL | destruct Hh as [H|H]; [left; exact H | right; lia]].
      rewrite IH; [reflexivity|]. destruct Hh as [H|H]; [left; exact H | right]. rewrite occ_cons in H.
      destruct (Nat.eqb a 0); lia.
  Qed.

  Fixpoint wsumc (c : nat -> Z) (d : nat -> nat -> Z) (k : nat) (rs : list (list nat)) : Z :=
    match rs with [] => 0 | r :: rest => c k * route_len d r + wsumc c d (S k) rest end.

  (* the leg-wise charging of _get_reward equals the route-wise weighted sum *)
  Lemma wl_routes_aux i acts : forall curr from tech, from = hd 0%nat curr ->
    costf i tech * (path_len (sdfun i) 0%nat (rev curr) - sdfun i from 0%nat) + wl i from tech acts
    = wsumc (costf i) (sdfun i) tech (routes_aux acts curr).
  Proof.
    induction acts as [|a r IH]; intros curr from tech Hf; cbn [wl routes_aux].
    - cbn [wsumc]. unfold route_len. ring.
    - destruct (Nat.eqb a 0) eqn:Ea.
      + apply Nat.eqb_eq in Ea. subst a. cbn [wsumc]. rewrite <- (IH [] 0%nat (S tech) eq_refl). cbn [rev path_len]. unfold route_len. ring.
      + rewrite <- (IH (a :: curr) a tech eq_refl). cbn [rev]. rewrite path_len_snoc.
        assert (L : last (rev curr) 0%nat = from).
        { subst from. destruct curr as [|c0 curr]; cbn [rev hd]; [reflexivity|]. rewrite last_last. reflexivity. }
        rewrite L. ring.
  Qed.

  Lemma wsumc_wsum i : sdfun i 0%nat 0%nat = 0 -> forall rs k,
    (forall q r, nth_error rs q = Some r -> r <> [] -> (k + q < length (tcosts i))%nat) ->
    wsumc (costf i) (sdfun i) k rs = wsum i k rs.
  Proof.
    intros H00 rs. induction rs as [|r rs IH]; intros k Hidx; cbn [wsumc wsum]; [reflexivity|].
    rewrite IH by (intros q r' Hq Hr'; specialize (Hidx (S q) r' Hq Hr'); lia). f_equal.
    destruct r as [|x r].
    - unfold route_len. cbn [path_len]. rewrite H00. ring.
    - specialize (Hidx 0%nat (x :: r) eq_refl ltac:(discriminate)). unfold costf.
      replace (if fx then Nat.min k (length (tcosts i) - 1) else k) with k by (destruct fx; lia). reflexivity.
  Qed.

  Lemma routes_ok_idx i rs : forall k, routes_ok i k rs ->
    forall q r, nth_error rs q = Some r -> r <> [] -> (k + q < sm_of i)%nat.
  Proof.
    induction rs as [|r0 rs IH]; intros k Hok q r Hq Hr; [destruct q; discriminate|].
    destruct Hok as [[Hk _] Hrest]. destruct q as [|q]; cbn [nth_error] in Hq.
    - injection Hq as <-. specialize (Hk Hr). lia.
    - specialize (IH (S k) Hrest q r Hq Hr). lia.
  Qed.

  (* for ANY action list whose non-empty routes belong to existing technicians: the value computed by _get_reward is
     minus the sum over technicians of cost factor * closed route length *)
  Theorem svrp_reward_is_objective_gen i acts :
    svrp_wf i -> sdfun i 0%nat 0%nat = 0 -> routes_ok i 0 (routes acts) ->
    (fx = true \/ (occ 0 acts < sm_of i)%nat) ->
    svrp_reward fx i acts = Some (svrp_objective i acts).
  Proof.
    intros (Hm & Hn & HL) H00 Hok Hh. unfold svrp_reward, svrp_objective.
    rewrite legs_total; [| rewrite HL; exact Hm | destruct Hh as [H|H]; [left; exact H | right; rewrite HL; lia]].
    f_equal. f_equal. pose proof (wl_routes_aux i acts [] 0%nat 0%nat eq_refl) as H. cbn [rev path_len] in H.
    unfold routes. rewrite <- (wsumc_wsum i H00 _ 0%nat); [rewrite <- H; ring|].
    intros q r Hq Hr. rewrite HL. apply (routes_ok_idx i _ 0%nat Hok q r Hq Hr).
  Qed.

  Theorem svrp_reward_is_objective i acts :
    svrp_wf i -> sdfun i 0%nat 0%nat = 0 -> adm (E:=E) i acts = true -> done E i (run (E:=E) i acts) = true ->
    (fx = true \/ (occ 0 acts < sm_of i)%nat) ->
    svrp_reward fx i acts = Some (svrp_objective i acts).
  Proof.
    intros Hwf H00 Hadm Hd Hh. destruct (svrp_mask_sound i acts Hwf Hadm Hd) as (_ & _ & Hok).
    apply svrp_reward_is_objective_gen; assumption.
  Qed.

  (* ================================================================ C04 *)
  Lemma wl_zeros i : sdfun i 0%nat 0%nat = 0 -> forall k t, wl i 0%nat t (repeat 0%nat k) = 0.
  Proof. intros H00 k. induction k as [|k IH]; intros t; cbn [repeat wl Nat.eqb]; [rewrite H00; ring | rewrite IH, H00; ring]. Qed.

  Lemma wl_pad i : sdfun i 0%nat 0%nat = 0 -> forall acts from tech k,
    wl i from tech (acts ++ repeat 0%nat k) = wl i from tech acts.
  Proof.
    intros H00 acts. induction acts as [|a r IH]; intros from tech k; cbn [app wl].
    - destruct k as [|k]; [reflexivity|]. cbn [repeat wl Nat.eqb]. rewrite wl_zeros by exact H00. ring.
    - rewrite IH. reflexivity.
  Qed.

  Lemma done_mask i s : length (svis s) = S (sn_of i) -> svrp_done i s = true -> (stech s < sm_of i)%nat ->
    svrp_mask i s = true :: repeat false (sn_of i).
  Proof.
    intros Hl Hds Hlt. unfold svrp_mask. apply Nat.ltb_lt in Hlt. rewrite Hlt.
    assert (Hall : forall j, In j (slocs i) -> smask_loc i s j = true).
    { intros j Hj. apply in_seq in Hj. unfold smask_loc. unfold svrp_done in Hds. rewrite (allb_nth _ j Hds) by lia. reflexivity. }
    f_equal.
    - unfold smask_depot. replace (existsb (fun j => negb (smask_loc i s j)) (slocs i)) with false; [rewrite andb_false_r; reflexivity|].
      symmetry. apply not_true_iff_false. intros H. apply existsb_exists in H as (j & Hj & Hm). rewrite Hall in Hm by exact Hj. discriminate.
    - unfold slocs in *. clear -Hall. revert Hall. generalize 1%nat. induction (sn_of i) as [|n IH]; intros st Hall; [reflexivity|].
      cbn [seq map repeat]. rewrite Hall by (left; reflexivity). cbn [negb]. f_equal. apply IH. intros j Hj. apply Hall. right. exact Hj.
  Qed.

  Lemma occ0_pad acts k : occ 0 (acts ++ repeat 0%nat k) = (occ 0 acts + k)%nat.
  Proof. rewrite occ_app, occ_repeat0. reflexivity. Qed.

  (* after a row has finished, k further steps -- any k for the repaired behaviour; for the code as it is, as long as
     the total number of depot visits stays below the number of technicians: the depot is offered (and only it), the
     row stays finished, the mask does not change, the reward of the padded action list is that of the unpadded one *)
  Theorem svrp_padding_inert i acts k :
    svrp_wf i -> adm (E:=E) i acts = true -> done E i (run (E:=E) i acts) = true ->
    (fx = true \/ (occ 0 acts + k < sm_of i)%nat) ->
    let pad := repeat 0%nat k in
    adm (E:=E) i (acts ++ pad) = true /\
    done E i (run (E:=E) i (acts ++ pad)) = true /\
    mask E i (run (E:=E) i (acts ++ pad)) = true :: repeat false (sn_of i) /\
    (sdfun i 0%nat 0%nat = 0 -> svrp_reward fx i (acts ++ pad) = svrp_reward fx i acts).
  Proof.
    intros Hwf Hadm Hd Hh. cbv zeta.
    assert (Hlt : forall k', (k' <= k)%nat -> forall c s, Inv i (acts ++ repeat 0%nat k') c s -> (stech s < sm_of i)%nat).
    { intros k' Hk' c s HI. destruct Hh as [Hfx|Hz]; [apply (inv_tech_lt i _ c s Hwf HI Hfx)|].
      rewrite (il_tech _ _ _ _ HI), occ0_pad. unfold etech. destruct fx; lia. }
    assert (G : forall k', (k' <= k)%nat ->
              adm (E:=E) i (acts ++ repeat 0%nat k') = true /\ done E i (run (E:=E) i (acts ++ repeat 0%nat k')) = true).
    { induction k' as [|k' IH]; intros Hk'; [cbn [repeat]; rewrite app_nil_r; split; assumption|].
      destruct (IH ltac:(lia)) as [IH1 IH2].
      replace (repeat 0%nat (S k')) with (repeat 0%nat k' ++ [0%nat]) by (symmetry; apply (repeat_cons k' 0%nat)). rewrite app_assoc.
      destruct (adm_inv i _ Hwf IH1) as [c HI].
      assert (Ho : offered (E:=E) i (run (E:=E) i (acts ++ repeat 0%nat k')) 0 = true).
      { unfold offered. cbn [mask SVRP]. rewrite (done_mask i _ (il_len _ _ _ _ HI) IH2 (Hlt k' ltac:(lia) c _ HI)). reflexivity. }
      assert (Hadm' : adm (E:=E) i ((acts ++ repeat 0%nat k') ++ [0%nat]) = true) by (rewrite adm_snoc, IH1, Ho; reflexivity).
      split; [exact Hadm' | apply svrp_done_stable; assumption]. }
    destruct (G k (le_n k)) as [G1 G2]. split; [exact G1|]. split; [exact G2|].
    destruct (adm_inv i _ Hwf G1) as [c HI]. split.
    - cbn [mask SVRP]. apply (done_mask i _ (il_len _ _ _ _ HI) G2 (Hlt k (le_n k) c _ HI)).
    - intros H00. destruct Hwf as (Hm & Hn & HL). unfold svrp_reward.
      rewrite !legs_total; try (rewrite HL; exact Hm).
      + rewrite wl_pad by exact H00. reflexivity.
      + destruct Hh as [H|H]; [left; exact H | right; rewrite HL; lia].
      + destruct Hh as [H|H]; [left; exact H | right; rewrite HL, occ0_pad; lia].
  Qed.

  (* ================================================================ C06 *)
  Lemma ssorted_ok_iff i acts :
    ssorted_ok i acts = true <->
    (sn_of i <= length acts)%nat /\ (forall j, (1 <= j <= sn_of i)%nat -> occ j acts = 1%nat) /\ (forall a, In a acts -> (a <= sn_of i)%nat).
  Proof.
    unfold ssorted_ok. set (n := sn_of i). set (k := (length acts - n)%nat). set (s := sort_nat acts).
    rewrite !andb_true_iff, Nat.leb_le. split.
    - intros [[Hlen Hz] Hs]. split; [exact Hlen|].
      destruct (list_eq_dec Nat.eq_dec (skipn k s) (seq 1 n)) as [Hsk|]; [|discriminate].
      apply (sort_is_zeros_seq acts n Hlen). fold k. fold s.
      rewrite <- (firstn_skipn k s). rewrite Hsk. f_equal.
      assert (Hl : length (firstn k s) = k) by (unfold s; rewrite firstn_length, sort_length; unfold k; lia).
      rewrite <- Hl at 2. clear -Hz. induction (firstn k s) as [|x l IH]; [reflexivity|].
      cbn [forallb] in Hz. apply andb_prop in Hz as [Hx Hz]. apply Nat.eqb_eq in Hx. subst x. cbn [length repeat]. f_equal. apply IH. exact Hz.
    - intros (Hlen & Hocc & Hrng). pose proof (proj2 (sort_is_zeros_seq acts n Hlen) (conj Hocc Hrng)) as Hs. fold k in Hs. fold s in Hs.
      split; [split; [exact Hlen|]|].
      + rewrite Hs. rewrite firstn_app, repeat_length, Nat.sub_diag. cbn [firstn]. rewrite app_nil_r, firstn_all2 by (rewrite repeat_length; lia).
        apply forallb_forall. intros x Hx. apply repeat_spec in Hx. subst. reflexivity.
      + rewrite Hs. rewrite skipn_app, repeat_length, Nat.sub_diag. cbn [skipn]. rewrite skipn_all2 by (rewrite repeat_length; lia). cbn [app].
        destruct (list_eq_dec Nat.eq_dec (seq 1 n) (seq 1 n)); [reflexivity | congruence].
  Qed.

  (* what the checker's loop verifies: every route that is CLOSED by a depot visit (all but the last segment) is within
     the skill of the technician the code indexes for it *)
  Definition seg_ok (i : svrp_inst) (k : nat) (r : list nat) : Prop :=
    exists q, tidx fx (sm_of i) k = Some q /\ ((k < sm_of i)%nat \/ r = []) /\ Forall (fun j => sskill i j <= tskill i q) r.
  Fixpoint closed_ok (i : svrp_inst) (k : nat) (rs : list (list nat)) : Prop :=
    match rs with
    | [] => True
    | r :: rest => match rest with [] => True | _ => seg_ok i k r /\ closed_ok i (S k) rest end
    end.

  Lemma routes_aux_cons acts c : exists h t, routes_aux acts c = h :: t.
  Proof.
    revert c. induction acts as [|a r IH]; intros c; cbn [routes_aux]; [eauto|].
    destruct (Nat.eqb a 0); [eauto | apply IH].
  Qed.

  Lemma forallb_Forall_rev (f : nat -> bool) (P : nat -> Prop) l : (forall x, f x = true <-> P x) ->
    forallb f l = true <-> Forall P (rev l).
  Proof.
    intros H. rewrite forallb_forall, Forall_forall. split; intros G x Hx.
    - apply H, G. apply in_rev. exact Hx.
    - apply H, G. apply in_rev in Hx. exact Hx.
  Qed.

  Lemma rev_nil_iff {A} (l : list A) : rev l = [] <-> l = [].
  Proof. split; [intros H; rewrite <- (rev_involutive l), H; reflexivity | intros ->; reflexivity]. Qed.

  Lemma skill_loop_spec i acts : forall k seg,
    skill_loop fx i k seg acts = true <-> closed_ok i k (routes_aux acts seg).
  Proof.
    induction acts as [|a r IH]; intros k seg; cbn [skill_loop routes_aux].
    - cbn [closed_ok]. tauto.
    - destruct (Nat.eqb a 0).
      + destruct (routes_aux_cons r []) as (h & t & Eh). cbn [closed_ok]. rewrite Eh. rewrite <- Eh. unfold seg_ok.
        assert (Hg : (Nat.ltb k (sm_of i) || match seg with [] => true | _ :: _ => false end)%bool = true <->
                     ((k < sm_of i)%nat \/ rev seg = [])).
        { rewrite orb_true_iff, Nat.ltb_lt, rev_nil_iff. destruct seg; [tauto|]. split; [intros [H|H]; [left; exact H | discriminate] | intros [H|H]; [left; exact H | discriminate]]. }
        destruct (tidx fx (sm_of i) k) as [q|].
        * rewrite !andb_true_iff, IH, Hg. rewrite (forallb_Forall_rev _ (fun j => sskill i j <= tskill i q)) by (intros x; apply Z.leb_le).
          split; [intros [[H0 H1] H2]; split; [exists q; split; [reflexivity | split; assumption] | exact H2]|].
          intros [(q' & Hq & H0 & H1) H2]. injection Hq as <-. split; [split|]; assumption.
        * split; [discriminate | intros [(q' & Hq & _) _]; discriminate].
      + apply IH.
  Qed.

  (* the checker's verdict, characterised *)
  Theorem svrp_checker_iff i acts :
    svrp_checker fx i acts = true <->
    (sn_of i <= length acts)%nat /\ (forall j, (1 <= j <= sn_of i)%nat -> occ j acts = 1%nat) /\
    (forall a, In a acts -> (a <= sn_of i)%nat) /\ closed_ok i 0 (routes acts).
  Proof. unfold svrp_checker, routes. rewrite andb_true_iff, ssorted_ok_iff, skill_loop_spec. tauto. Qed.

  Lemma routes_aux_length acts c : length (routes_aux acts c) = S (occ 0 acts).
  Proof.
    revert c. induction acts as [|a r IH]; intros c; cbn [routes_aux]; [reflexivity|]. rewrite occ_cons.
    destruct (Nat.eqb a 0); cbn [length]; rewrite IH; lia.
  Qed.

  Lemma tidx_lt m k : (0 < m)%nat -> (fx = true \/ (k < m)%nat) -> tidx fx m k = Some (if fx then Nat.min k (m - 1) else k).
  Proof.
    intros Hm Hh. unfold tidx. destruct (Bool.bool_dec fx true) as [Efx|Efx].
    - rewrite Efx. apply Nat.ltb_lt in Hm. rewrite Hm. reflexivity.
    - apply not_true_is_false in Efx. rewrite Efx. destruct Hh as [Hc|Hk]; [congruence|]. apply Nat.ltb_lt in Hk. rewrite Hk. reflexivity.
  Qed.

  Lemma routes_ok_closed i : svrp_wf i -> forall rs k, routes_ok i k rs ->
    (fx = true \/ (k + length rs <= S (sm_of i))%nat) -> closed_ok i k rs.
  Proof.
    intros (Hm & _) rs. induction rs as [|r rest IH]; intros k Hok Hh; [exact I|]. cbn [closed_ok].
    destruct rest as [|r' rest]; [exact I|]. destruct Hok as [[Hk Hf] Hrest]. split.
    - unfold seg_ok. rewrite tidx_lt; [| exact Hm | destruct Hh as [H|H]; [left; exact H | right; cbn [length] in H; lia]].
      eexists. split; [reflexivity|]. destruct r as [|x r]; [split; [right; reflexivity | constructor]|].
      specialize (Hk ltac:(discriminate)). split; [left; exact Hk|].
      replace (if fx then Nat.min k (sm_of i - 1) else k) with k by (destruct fx; lia). exact Hf.
    - apply IH; [exact Hrest | destruct Hh as [H|H]; [left; exact H | right; cbn [length] in *; lia]].
  Qed.

  (* every feasible action list of sufficient length is accepted -- for the repaired behaviour always; for the code as
     it is, when it contains at most as many depot visits as there are technicians *)
  Theorem svrp_checker_complete i acts :
    svrp_wf i -> svrp_feasible i acts -> (sn_of i <= length acts)%nat ->
    (fx = true \/ (occ 0 acts <= sm_of i)%nat) ->
    svrp_checker fx i acts = true.
  Proof.
    intros Hwf (Hocc & Hrng & Hok) Hlen Hh. apply svrp_checker_iff. split; [exact Hlen|]. split; [exact Hocc|]. split; [exact Hrng|].
    apply (routes_ok_closed i Hwf _ 0%nat Hok). destruct Hh as [H|H]; [left; exact H | right].
    unfold routes. rewrite routes_aux_length. lia.
  Qed.

  Lemma closed_ok_nth i rs : forall k, closed_ok i k rs ->
    forall q r, nth_error rs q = Some r -> (S q < length rs)%nat -> seg_ok i (k + q) r.
  Proof.
    induction rs as [|r0 rest IH]; intros k Hc q r Hq Hl; [destruct q; discriminate|]. cbn [closed_ok] in Hc.
    destruct rest as [|r1 rest]; [cbn [length] in Hl; lia|]. destruct Hc as [H0 Hrest].
    destruct q as [|q]; cbn [nth_error] in Hq.
    - injection Hq as <-. rewrite Nat.add_0_r. exact H0.
    - replace (k + S q)%nat with (S k + q)%nat by lia. apply (IH (S k) Hrest q r Hq). cbn [length] in *. lia.
  Qed.

  (* what the loop verifies about a closed route is exactly the specification's [route_ok]: a non-empty route belongs to
     an existing technician (k < m) and is within THAT technician's skill (below m the clamp changes nothing) *)
  Lemma seg_ok_route_ok i k r : seg_ok i k r -> route_ok i k r.
  Proof.
    intros (q & Hq & Hk & Hf). destruct r as [|x r]; [apply route_ok_nil|].
    destruct Hk as [Hk|Hk]; [|discriminate]. split; [intros _; exact Hk|].
    unfold tidx in Hq. destruct fx.
    - destruct (Nat.ltb 0 (sm_of i)); [|discriminate]. injection Hq as <-. replace (Nat.min k (sm_of i - 1)) with k in Hf by lia. exact Hf.
    - destruct (Nat.ltb k (sm_of i)); [|discriminate]. injection Hq as <-. exact Hf.
  Qed.

  (* accepted => every customer exactly once, only existing nodes, and every route CLOSED by a depot visit satisfies the
     specification: if it is non-empty its number is below the number of technicians and every customer on it is
     within that technician's skill.  (Nothing is said about the customers after the last depot visit: see the
     refutation.) *)
  Theorem svrp_checker_sound_closed i acts :
    svrp_checker fx i acts = true ->
    (forall j, (1 <= j <= sn_of i)%nat -> occ j acts = 1%nat) /\
    (forall a, In a acts -> (a <= sn_of i)%nat) /\
    (forall q r, nth_error (routes acts) q = Some r -> (S q < length (routes acts))%nat -> route_ok i q r).
  Proof.
    intros H. apply svrp_checker_iff in H as (_ & Hocc & Hrng & Hc). split; [exact Hocc|]. split; [exact Hrng|].
    intros q r Hq Hl. apply seg_ok_route_ok. exact (closed_ok_nth i _ 0%nat Hc q r Hq Hl).
  Qed.

  Lemma closed_ok_routes_ok i : forall rs k, closed_ok i k rs -> last rs [] = [] -> routes_ok i k rs.
  Proof.
    intros rs. induction rs as [|r rest IH]; intros k Hc Hlast; [exact I|]. cbn [routes_ok closed_ok] in *.
    destruct rest as [|r' rest].
    - cbn [last] in Hlast. subst r. split; [apply route_ok_nil | exact I].
    - destruct Hc as [Hs Hrest]. split; [apply seg_ok_route_ok; exact Hs | apply IH; [exact Hrest | exact Hlast]].
  Qed.

  (* accepted and ending with a depot visit (padding included) => feasible *)
  Theorem svrp_checker_sound_if_closed i acts :
    svrp_checker fx i acts = true -> last (routes acts) [] = [] -> svrp_feasible i acts.
  Proof.
    intros H Hlast. apply svrp_checker_iff in H as (_ & Hocc & Hrng & Hc). split; [exact Hocc|]. split; [exact Hrng|].
    apply closed_ok_routes_ok; [exact Hc | exact Hlast].
  Qed.

  Corollary svrp_checker_rejects_missing i acts j :
    (1 <= j <= sn_of i)%nat -> ~ In j acts -> svrp_checker fx i acts = false.
  Proof.
    intros Hj Hn. apply not_true_iff_false. intros Hc. apply svrp_checker_iff in Hc as (_ & Hocc & _).
    specialize (Hocc j Hj). apply occ_not_In in Hn. lia.
  Qed.
  Corollary svrp_checker_rejects_duplicate i acts j :
    (1 <= j <= sn_of i)%nat -> (2 <= occ j acts)%nat -> svrp_checker fx i acts = false.
  Proof.
    intros Hj Hn. apply not_true_iff_false. intros Hc. apply svrp_checker_iff in Hc as (_ & Hocc & _). specialize (Hocc j Hj). lia.
  Qed.
  (* unmet skill in a route closed by a depot visit *)
  Corollary svrp_checker_rejects_unmet_skill i acts q r j :
    nth_error (routes acts) q = Some r -> (S q < length (routes acts))%nat -> In j r ->
    tskill i q < sskill i j ->
    svrp_checker fx i acts = false.
  Proof.
    intros Hq Hl Hj Hs. apply not_true_iff_false. intros Hc. destruct (svrp_checker_sound_closed i acts Hc) as (_ & _ & H).
    destruct (H q r Hq Hl) as [_ Hf]. rewrite Forall_forall in Hf. specialize (Hf j Hj). lia.
  Qed.
  (* customers in a route closed by a depot visit that starts after m or more depot visits: no technician is left *)
  Corollary svrp_checker_rejects_route_after_last_technician i acts q r :
    nth_error (routes acts) q = Some r -> (S q < length (routes acts))%nat -> r <> [] -> (sm_of i <= q)%nat ->
    svrp_checker fx i acts = false.
  Proof.
    intros Hq Hl Hr Hm. apply not_true_iff_false. intros Hc. destruct (svrp_checker_sound_closed i acts Hc) as (_ & _ & H).
    destruct (H q r Hq Hl) as [Hk _]. specialize (Hk Hr). lia.
  Qed.

  Corollary svrp_checker_accepts_mask_made i acts :
    svrp_wf i -> adm (E:=E) i acts = true -> done E i (run (E:=E) i acts) = true ->
    (fx = true \/ (occ 0 acts <= sm_of i)%nat) ->
    svrp_checker fx i acts = true.
  Proof.
    intros Hwf Hadm Hd Hh. pose proof (svrp_mask_sound i acts Hwf Hadm Hd) as Hf. apply svrp_checker_complete; auto.
    destruct Hf as (Hocc & _ & _). destruct (adm_inv i acts Hwf Hadm) as [c HI].
    (* n distinct customers occur *)
    assert (Hincl : incl (seq 1 (sn_of i)) acts) by (intros x Hx; apply in_seq in Hx; apply occ_In; rewrite Hocc; lia).
    pose proof (NoDup_incl_length (seq_NoDup (sn_of i) 1) Hincl) as H. rewrite seq_length in H. exact H.
  Qed.

  (* ================================================================ C05 *)
  (* A solution of the problem: one route per technician 0 .. L-1 (L <= m), possibly empty, partitioning the customers,
     each within its technician's skill.  Encoding: the routes separated by one depot visit; a closing depot visit
     when only technician 0 is listed. *)
  Fixpoint enc (rs : list (list nat)) : list nat :=
    match rs with
    | [] => []
    | r :: rest => match rest with [] => r | _ => r ++ 0%nat :: enc rest end
    end.
  Definition encode (rs : list (list nat)) : list nat := match rs with [r] => r ++ [0%nat] | _ => enc rs end.

  (* the pruning built into the mask: a technician stays at home only if none of the customers still waiting is
     within his skill; the last listed technician drives *)
  Fixpoint canonical (i : svrp_inst) (k : nat) (rs : list (list nat)) : Prop :=
    match rs with
    | [] => True
    | r :: rest => (r = [] -> rest <> [] /\ forall j, In j (concat rest) -> tskill i k < sskill i j) /\ canonical i (S k) rest
    end.

  Lemma adm_route i : svrp_wf i -> forall r p c s,
    Inv i p c s -> NoDup r -> (forall x, In x r -> (1 <= x <= sn_of i)%nat /\ ~ In x p) ->
    Forall (fun j => sskill i j <= tskill i (occ 0 p)) r -> (r <> [] -> (occ 0 p < sm_of i)%nat) ->
    adm_from (E:=E) i s r = true /\ Inv i (p ++ r) (rev r ++ c) (run_from (E:=E) i s r).
  Proof.
    intros Hwf r. induction r as [|x r IH]; intros p c s HI Hnd Hin Hsk Hk.
    - cbn. rewrite app_nil_r. split; [reflexivity | exact HI].
    - cbn [adm_from run_from]. destruct (Hin x (or_introl eq_refl)) as [Hx Hxp]. specialize (Hk ltac:(discriminate)).
      assert (Hst : stech s = occ 0 p) by (rewrite (il_tech _ _ _ _ HI); unfold etech; destruct fx; lia).
      inversion Hsk as [|? ? Hsx Hsk']; subst.
      assert (Ho : offered (E:=E) i s x = true).
      { rewrite offered_sloc by lia. apply andb_true_intro. split; [apply Nat.leb_le; lia|].
        unfold smask_loc, can_service. rewrite Hst. apply negb_true_iff, orb_false_iff. split.
        - destruct (nth x (svis s) false) eqn:Ev; [|reflexivity]. exfalso. apply Hxp. apply (il_vis _ _ _ _ HI); [lia | exact Ev].
        - apply negb_false_iff. lia. }
      pose proof (step_inv i p c s x Hwf HI Ho) as HI'.
      replace (Nat.eqb x 0) with false in HI' by (symmetry; apply Nat.eqb_neq; lia).
      inversion Hnd as [|? ? Hxr Hnd']; subst.
      assert (Hz : occ 0 (p ++ [x]) = occ 0 p) by (rewrite occ0_snoc; replace (Nat.eqb x 0) with false by (symmetry; apply Nat.eqb_neq; lia); lia).
      destruct (IH (p ++ [x]) (x :: c) _ HI' Hnd') as [Ha HI''].
      + intros y Hy. destruct (Hin y (or_intror Hy)) as [Hy1 Hy2]. split; [exact Hy1|].
        intros Hc. apply in_app_iff in Hc as [Hc|[Hc|[]]]; [tauto | subst; tauto].
      + rewrite Hz. exact Hsk'.
      + intros _. rewrite Hz. exact Hk.
      + cbn [step SVRP] in *. rewrite Ho, Ha. split; [reflexivity|]. cbn [rev]. rewrite <- !app_assoc in *. exact HI''.
  Qed.

  Lemma adm_enc i : svrp_wf i -> forall rs p s,
    Inv i p [] s -> scur s = 0%nat -> rs <> [] -> (occ 0 p + length rs <= sm_of i)%nat ->
    NoDup (concat rs) -> (forall x, In x (concat rs) -> (1 <= x <= sn_of i)%nat /\ ~ In x p) ->
    (forall j, (1 <= j <= sn_of i)%nat -> ~ In j p -> In j (concat rs)) ->
    routes_ok i (occ 0 p) rs -> canonical i (occ 0 p) rs ->
    adm_from (E:=E) i s (enc rs) = true /\ exists c', Inv i (p ++ enc rs) c' (run_from (E:=E) i s (enc rs)).
  Proof.
    intros Hwf rs. induction rs as [|r rest IH]; intros p s HI Hcur Hne Hlen Hnd Hin Hcov Hok Hcan; [congruence|].
    cbn [concat] in Hnd, Hin, Hcov. destruct Hok as [[Hrk Hrs] Hokr]. destruct Hcan as [Hce Hcanr].
    pose proof (NoDup_app_l _ _ Hnd) as Hndr.
    destruct (adm_route i Hwf r p [] s HI Hndr) as [Ha1 HI1].
    { intros x Hx. apply Hin. apply in_app_iff. left. exact Hx. }
    { exact Hrs. }
    { intros Hr. cbn [length] in Hlen. lia. }
    rewrite app_nil_r in HI1. destruct rest as [|r' rest].
    - cbn [enc]. split; [exact Ha1 | eexists; exact HI1].
    - change (enc (r :: r' :: rest)) with (r ++ 0%nat :: enc (r' :: rest)).
      set (s1 := run_from (E:=E) i s r) in *. cbn [length] in Hlen.
      assert (Hz1 : occ 0 (p ++ r) = occ 0 p).
      { rewrite occ_app. assert (~ In 0%nat r) as Hn by (intros H0; destruct (Hin 0%nat) as [H1 _]; [apply in_app_iff; left; exact H0 | lia]).
        apply occ_not_In in Hn. lia. }
      assert (Hst1 : stech s1 = occ 0 p) by (rewrite (il_tech _ _ _ _ HI1), Hz1; unfold etech; destruct fx; lia).
      (* the depot after route r *)
      assert (Ho : offered (E:=E) i s1 0 = true).
      { unfold offered. cbn [mask SVRP]. unfold svrp_mask. replace (Nat.ltb (stech s1) (sm_of i)) with true by (symmetry; apply Nat.ltb_lt; lia).
        cbn [nth]. apply negb_true_iff. unfold smask_depot.
        replace (Nat.eqb (stech s1) (sm_of i - 1)) with false by (symmetry; apply Nat.eqb_neq; lia). rewrite orb_false_r.
        destruct (Nat.eqb (scur s1) 0) eqn:Ec; [|reflexivity]. cbn [andb]. apply Nat.eqb_eq in Ec.
        (* we are at the depot: r is empty, and by canonicity nobody waiting is within this technician's skill *)
        assert (Hr : r = []).
        { destruct r as [|x r] using rev_ind; [reflexivity|]. exfalso. rewrite (il_cur _ _ _ _ HI1), app_assoc, last_last in Ec.
          destruct (Hin x) as [H1 _]; [apply in_app_iff; left; apply in_app_iff; right; left; reflexivity | lia]. }
        subst r. destruct (Hce eq_refl) as [_ Hsk]. apply not_true_iff_false. intros Hex.
        apply existsb_exists in Hex as (j & Hj & Hjm). apply in_seq in Hj. unfold smask_loc in Hjm.
        apply negb_true_iff, orb_false_iff in Hjm as [Hv Hcs]. apply negb_false_iff in Hcs. unfold can_service in Hcs. rewrite Hst1 in Hcs.
        assert (~ In j p) as Hnp.
        { intros Hc. assert (nth j (svis s1) false = true) by (apply (il_vis _ _ _ _ HI1 j ltac:(lia)); rewrite app_nil_r; exact Hc). congruence. }
        specialize (Hcov j ltac:(lia) Hnp). cbn [app] in Hcov. specialize (Hsk j Hcov). lia. }
      pose proof (step_inv i _ _ s1 0%nat Hwf HI1 Ho) as HI2. cbn [Nat.eqb] in HI2.
      assert (Hz2 : occ 0 ((p ++ r) ++ [0%nat]) = S (occ 0 p)) by (rewrite occ0_snoc, Hz1; cbn [Nat.eqb]; lia).
      destruct (IH ((p ++ r) ++ [0%nat]) _ HI2) as [Ha3 [c' HI3]].
      + reflexivity.
      + discriminate.
      + rewrite Hz2. cbn [length]. lia.
      + apply NoDup_app_r in Hnd. exact Hnd.
      + intros x Hx. destruct (Hin x) as [Hx1 Hx2]; [apply in_app_iff; right; exact Hx|]. split; [exact Hx1|].
        intros Hc. apply in_app_iff in Hc as [Hc|[Hc|[]]]; [|lia].
        apply in_app_iff in Hc as [Hc|Hc]; [tauto|]. exact (NoDup_app_disj _ _ x Hnd Hc Hx).
      + intros j Hj Hnp. assert (~ In j p) as Hnp' by (intros Hc; apply Hnp; apply in_app_iff; left; apply in_app_iff; left; exact Hc).
        specialize (Hcov j Hj Hnp'). apply in_app_iff in Hcov as [Hc|Hc]; [|exact Hc].
        exfalso. apply Hnp. apply in_app_iff. left. apply in_app_iff. right. exact Hc.
      + rewrite Hz2. exact Hokr.
      + rewrite Hz2. exact Hcanr.
      + split.
        * rewrite adm_from_app. fold s1. rewrite Ha1. cbn [andb adm_from]. rewrite Ho. cbn [andb]. exact Ha3.
        * exists c'. rewrite run_from_app. fold s1. cbn [run_from]. rewrite <- !app_assoc in HI3. cbn [app] in HI3. exact HI3.
  Qed.

  Lemma in_enc x rs : In x (concat rs) -> In x (enc rs).
  Proof.
    induction rs as [|r rest IH]; [intros []|]. cbn [concat]. intros H. apply in_app_iff in H. destruct rest as [|r' rest].
    - cbn [enc]. destruct H as [H|H]; [exact H | destruct H].
    - change (enc (r :: r' :: rest)) with (r ++ 0%nat :: enc (r' :: rest)). apply in_app_iff.
      destruct H as [H|H]; [left; exact H | right; right; apply IH; exact H].
  Qed.

  (* EVERY canonical solution is admitted by the mask in its encoding, and the row is finished at its end *)
  Theorem svrp_mask_complete i rs :
    svrp_wf i -> rs <> [] -> (length rs <= sm_of i)%nat -> NoDup (concat rs) ->
    (forall x, In x (concat rs) <-> (1 <= x <= sn_of i)%nat) ->
    routes_ok i 0 rs -> canonical i 0 rs ->
    adm (E:=E) i (encode rs) = true /\ done E i (run (E:=E) i (encode rs)) = true.
  Proof.
    intros Hwf Hne Hlen Hnd Hin Hok Hcan.
    destruct (adm_enc i Hwf rs [] _ (reset_inv i Hwf) eq_refl Hne) as [Ha [c HI]]; auto.
    { intros x Hx. split; [apply Hin; exact Hx | intros []]. }
    { intros j Hj _. apply Hin. exact Hj. }
    cbn [app] in HI. unfold adm, run. cbn [reset SVRP] in *. set (s := run_from (E:=E) i (svrp_reset i) (enc rs)) in *.
    assert (Hcust : forall j, (1 <= j <= sn_of i)%nat -> nth j (svis s) false = true).
    { intros j Hj. apply (il_vis _ _ _ _ HI); [lia|]. apply in_enc. apply Hin. exact Hj. }
    destruct rs as [|r [|r' rest]]; [congruence| |].
    - (* only technician 0 drives: the closing depot visit *)
      cbn [encode enc] in *. destruct Hcan as [Hr _].
      assert (Hrn : r <> []) by (intros ->; destruct (Hr eq_refl) as [Hc _]; congruence).
      assert (Hst : stech s = 0%nat).
      { rewrite (il_tech _ _ _ _ HI). assert (~ In 0%nat r) as Hn by (intros H0; cbn [concat] in Hin; rewrite app_nil_r in Hin; apply Hin in H0; lia).
        apply occ_not_In in Hn. rewrite Hn. unfold etech. destruct fx; lia. }
      assert (Ho : offered (E:=E) i s 0 = true).
      { unfold offered. cbn [mask SVRP]. unfold svrp_mask. destruct Hwf as (Hm & _).
        replace (Nat.ltb (stech s) (sm_of i)) with true by (symmetry; apply Nat.ltb_lt; lia). cbn [nth]. apply negb_true_iff. unfold smask_depot.
        replace (existsb (fun j => negb (smask_loc i s j)) (slocs i)) with false; [apply andb_false_r|].
        symmetry. apply not_true_iff_false. intros Hex. apply existsb_exists in Hex as (j & Hj & Hjm). apply in_seq in Hj.
        unfold smask_loc in Hjm. rewrite Hcust in Hjm by lia. discriminate. }
      split.
      + rewrite adm_from_app. fold s. rewrite Ha. cbn [andb adm_from]. rewrite Ho. reflexivity.
      + rewrite run_from_app. fold s. cbn [run_from step SVRP done]. unfold svrp_done. apply allb_forall. intros j Hj.
        cbn [svrp_step svis] in *. rewrite set_nth_length, (il_len _ _ _ _ HI) in Hj. rewrite nth_set_nth, (il_len _ _ _ _ HI).
        destruct j as [|j]; [reflexivity|]. cbn [Nat.eqb andb]. apply Hcust. lia.
    - (* several technicians listed: a depot visit occurs inside the encoding *)
      change (encode (r :: r' :: rest)) with (enc (r :: r' :: rest)). fold s. split; [exact Ha|].
      cbn [done SVRP]. unfold svrp_done. apply allb_forall. intros j Hj. rewrite (il_len _ _ _ _ HI) in Hj.
      destruct j as [|j]; [|apply Hcust; lia]. apply (il_vis _ _ _ _ HI); [lia|].
      change (enc (r :: r' :: rest)) with (r ++ 0%nat :: enc (r' :: rest)). apply in_app_iff. right. left. reflexivity.
  Qed.
End Proofs.

(* ---------------------------------------------------------------- the boolean twin decides the specification *)
Lemma routes_okb_ok i rs : forall k, routes_okb i k rs = true <-> routes_ok i k rs.
Proof.
  induction rs as [|r rest IH]; intros k; cbn [routes_okb routes_ok]; [tauto|].
  rewrite !andb_true_iff, IH, forallb_forall. unfold route_ok. rewrite Forall_forall.
  assert (G : (match r with [] => true | _ :: _ => Nat.ltb k (sm_of i) end) = true <-> (r <> [] -> (k < sm_of i)%nat)).
  { destruct r; [split; [congruence | reflexivity]|]. rewrite Nat.ltb_lt. split; [auto | intros H; apply H; discriminate]. }
  rewrite G. split.
  - intros [[H1 H2] H3]. split; [split; [exact H1 | intros x Hx; apply Z.leb_le, H2, Hx] | exact H3].
  - intros [[H1 H2] H3]. split; [split; [exact H1 | intros x Hx; apply Z.leb_le, H2, Hx] | exact H3].
Qed.

Lemma svrp_feasibleb_ok i acts : svrp_feasibleb i acts = true <-> svrp_feasible i acts.
Proof.
  unfold svrp_feasibleb, svrp_feasible. rewrite !andb_true_iff, !forallb_forall, routes_okb_ok. split.
  - intros [[H1 H2] H3]. repeat split; auto.
    + intros j Hj. apply Nat.eqb_eq. apply H1. apply in_seq. lia.
    + intros a Ha. apply Nat.leb_le. apply H2. exact Ha.
  - intros (H1 & H2 & H3). repeat split; auto.
    + intros j Hj. apply Nat.eqb_eq. apply H1. apply in_seq in Hj. lia.
    + intros a Ha. apply Nat.leb_le. apply H2. exact Ha.
Qed.

(* ---------------------------------------------------------------- the encoding loses nothing *)
Lemma routes_aux_nz0 r : Forall (fun x => x <> 0%nat) r -> forall c, routes_aux r c = [rev c ++ r].
Proof.
  induction r as [|x r IH]; intros Hr c; cbn [routes_aux]; [rewrite app_nil_r; reflexivity|].
  inversion Hr as [|? ? Hx Hr']; subst. apply Nat.eqb_neq in Hx. rewrite Hx, IH by exact Hr'. cbn [rev]. rewrite <- app_assoc. reflexivity.
Qed.
Lemma routes_aux_nz1 r : Forall (fun x => x <> 0%nat) r -> forall c rest,
  routes_aux (r ++ 0%nat :: rest) c = (rev c ++ r) :: routes_aux rest [].
Proof.
  induction r as [|x r IHr]; intros Hr c rest; cbn [app routes_aux].
  - cbn. rewrite app_nil_r. reflexivity.
  - inversion Hr as [|? ? Hx Hr']; subst. apply Nat.eqb_neq in Hx. rewrite Hx. rewrite IHr by exact Hr'. cbn [rev]. rewrite <- app_assoc. reflexivity.
Qed.
Lemma routes_enc rs : rs <> [] -> Forall (fun r => Forall (fun x => x <> 0%nat) r) rs -> routes (enc rs) = rs.
Proof.
  intros Hne Hnz. unfold routes. induction rs as [|r rest IH]; [congruence|]. inversion Hnz as [|? ? Hr Hrest]; subst.
  destruct rest as [|r' rest]; [cbn [enc]; rewrite routes_aux_nz0 by exact Hr; reflexivity|].
  change (enc (r :: r' :: rest)) with (r ++ 0%nat :: enc (r' :: rest)). rewrite routes_aux_nz1 by exact Hr. cbn [rev app].
  f_equal. apply IH; [discriminate | exact Hrest].
Qed.

(* objective of the encoding = minus the sum over the listed technicians of cost factor * closed route length *)
Theorem svrp_encode_objective i rs :
  sdfun i 0%nat 0%nat = 0 -> rs <> [] -> Forall (fun r => Forall (fun x => x <> 0%nat) r) rs ->
  svrp_objective i (encode rs) = - wsum i 0 rs.
Proof.
  intros H00 Hne Hnz. unfold svrp_objective. destruct rs as [|r [|r' rest]]; [congruence| |].
  - cbn [encode]. inversion Hnz as [|? ? Hr _]; subst. unfold routes. rewrite routes_aux_nz1 by exact Hr.
    cbn [rev app routes_aux wsum]. unfold route_len at 2. cbn [path_len]. rewrite H00. ring.
  - change (encode (r :: r' :: rest)) with (enc (r :: r' :: rest)). rewrite routes_enc by (assumption || discriminate). reflexivity.
Qed.

(* ================================================================ refutations: the code as it is (fx = false) *)
Notation E0 := (SVRP false).

(* C02 / C04: a finished row is offered the depot as padding, and the third depot visit raises (3 technicians) *)
Theorem svrp_step_ok_refuted :
  exists i acts a, svrp_wfb i = true /\ svrp_solvableb i = true /\
    adm (E:=E0) i acts = true /\ done E0 i (run (E:=E0) i acts) = true /\
    offered (E:=E0) i (run (E:=E0) i acts) a = true /\ stepok E0 i (run (E:=E0) i acts) a = false.
Proof.
  exists {| techs := [1; 2; 3]; skills := [1]; tcosts := [1; 2; 3]; sdist := [] |}, [1; 0; 0]%nat, 0%nat.
  vm_compute. repeat split; reflexivity.
Qed.

(* C02: with a single technician the closing depot visit of EVERY episode raises -- on a row that is not finished *)
Theorem svrp_step_ok_single_technician_refuted :
  exists i acts a, svrp_wfb i = true /\ svrp_solvableb i = true /\
    adm (E:=E0) i acts = true /\ done E0 i (run (E:=E0) i acts) = false /\
    offered (E:=E0) i (run (E:=E0) i acts) a = true /\ stepok E0 i (run (E:=E0) i acts) a = false.
Proof.
  exists {| techs := [5]; skills := [1; 1]; tcosts := [1]; sdist := [] |}, [1; 2]%nat, 0%nat.
  vm_compute. repeat split; reflexivity.
Qed.

(* C03 / C04: _get_reward raises on an action list with as many depot visits as technicians *)
Theorem svrp_reward_raises_refuted :
  exists i acts, svrp_wfb i = true /\ svrp_feasibleb i acts = true /\ svrp_reward false i acts = None.
Proof.
  exists {| techs := [1; 2; 3]; skills := [1]; tcosts := [1; 2; 3]; sdist := [[0; 5]; [5; 0]] |}, [1; 0; 0; 0]%nat.
  vm_compute. repeat split; reflexivity.
Qed.

(* C06: the customers after the last depot visit are never checked: an infeasible solution is accepted *)
Theorem svrp_checker_sound_refuted :
  exists i acts, svrp_wfb i = true /\ svrp_solvableb i = true /\
    svrp_checker false i acts = true /\ ~ svrp_feasible i acts.
Proof.
  exists {| techs := [1; 5]; skills := [5]; tcosts := [1; 2]; sdist := [] |}, [1]%nat.
  split; [reflexivity|]. split; [reflexivity|]. split; [reflexivity|].
  intros H. apply svrp_feasibleb_ok in H. vm_compute in H. discriminate.
Qed.

(* C06: a feasible (padded) solution with more depot visits than technicians is rejected (IndexError) *)
Theorem svrp_checker_complete_refuted :
  exists i acts, svrp_wfb i = true /\ svrp_feasible i acts /\ (sn_of i <= length acts)%nat /\ svrp_checker false i acts = false.
Proof.
  exists {| techs := [1; 2; 3]; skills := [1]; tcosts := [1; 2; 3]; sdist := [] |}, [1; 0; 0; 0; 0]%nat.
  split; [reflexivity|]. split; [apply svrp_feasibleb_ok; reflexivity|]. split; [cbn; lia | reflexivity].
Qed.

(* C05: the pruning "a technician who could serve a waiting customer may not stay at home" hides the optimum.
   Two customers on a line, 35 and 16 from the depot (19 apart); customer 1 needs skill 5, customer 2 skill 1;
   technicians of skill 1, 5, 9 at cost 1, 2, 3.  Letting technician 0 stay at home and technician 1 serve both
   costs 2 * 70 = 140; every complete episode the mask admits costs at least 1 * 32 + 2 * 70 = 172. *)
Fixpoint lists_upto (alphabet : list nat) (len : nat) : list (list nat) :=
  match len with
  | O => [[]]
  | S l => [] :: flat_map (fun a => map (cons a) (lists_upto alphabet l)) alphabet
  end.
Lemma lists_upto_complete alphabet len : forall l, (length l <= len)%nat -> Forall (fun a => In a alphabet) l -> In l (lists_upto alphabet len).
Proof.
  induction len as [|len IH]; intros l Hl Hf.
  - destruct l; [left; reflexivity | cbn in Hl; lia].
  - destruct l as [|a l]; [left; reflexivity|]. right. inversion Hf as [|? ? Ha Hf']; subst.
    apply in_flat_map. exists a. split; [exact Ha|]. apply in_map. apply IH; [cbn in Hl; lia | exact Hf'].
Qed.

Definition idle_inst : svrp_inst :=
  {| techs := [1; 5; 9]; skills := [5; 1]; tcosts := [1; 2; 3]; sdist := [[0; 35; 16]; [35; 0; 19]; [16; 19; 0]] |}.

Theorem svrp_idle_technician_hidden_refuted :
  svrp_wfb idle_inst = true /\ svrp_solvableb idle_inst = true /\
  let sol := [0; 1; 2]%nat in
  svrp_feasible idle_inst sol /\ svrp_objective idle_inst sol = -140 /\
  adm (E:=E0) idle_inst sol = false /\
  forall acts, (length acts <= sn_of idle_inst + sm_of idle_inst)%nat ->
    adm (E:=E0) idle_inst acts = true -> done E0 idle_inst (run (E:=E0) idle_inst acts) = true ->
    svrp_objective idle_inst acts <= -172.
Proof.
  split; [reflexivity|]. split; [reflexivity|]. cbv zeta. split; [apply svrp_feasibleb_ok; reflexivity|].
  split; [reflexivity|]. split; [reflexivity|].
  intros acts Hlen Hadm Hd.
  assert (Hwf : svrp_wf idle_inst) by (apply svrp_wfb_ok; reflexivity).
  destruct (adm_inv false idle_inst acts Hwf Hadm) as [c HI].
  assert (Hin : In acts (lists_upto [0; 1; 2]%nat 5)).
  { apply lists_upto_complete; [exact Hlen|]. apply Forall_forall. intros a Ha. apply (il_rng _ _ _ _ _ HI) in Ha.
    change (sn_of idle_inst) with 2%nat in Ha. cbn [In]. lia. }
  assert (G : forallb (fun l => negb (adm (E:=E0) idle_inst l && done E0 idle_inst (run (E:=E0) idle_inst l)) || (svrp_objective idle_inst l <=? -172))
                      (lists_upto [0; 1; 2]%nat 5) = true) by (vm_compute; reflexivity).
  rewrite forallb_forall in G. specialize (G acts Hin). rewrite Hadm, Hd in G. cbn [andb negb orb] in G. lia.
Qed.
