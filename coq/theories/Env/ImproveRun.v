(* C09 -- whole runs: every tour seen along any sequence of admitted moves (and step_to_solution calls with a
   valid target) is valid, in particular rec_current and rec_best; the reported costs are the lengths of those
   tours.  Combines the best-so-far bookkeeping theorem (Improve.v, any operator) with the operator theorems
   (ImproveTwoOpt.v, ImprovePDP.v: unbounded; ImproveKoptFinite.v: bounded). *)
From Coq Require Import ZArith List Bool Lia ZifyBool Arith Permutation.
From RL4CO Require Import Env.Improve Env.ImproveTwoOpt Env.ImprovePDP Env.ImproveKopt Env.ImproveKoptFinite.
Import ListNotations.

Lemma last_in_gen {A} (l : list A) (x d : A) : In (last (x :: l) d) (x :: l).
Proof.
  revert x; induction l as [|y l IH]; intros x; [left; reflexivity|].
  change (last (x :: y :: l) d) with (last (y :: l) d). right. apply IH.
Qed.

Section Run.
  Variable tour : Type.
  Variable act : Type.
  Variable op : tour -> act -> tour.
  Variable cost : tour -> Z.
  Variable P : tour -> Prop.                  (* validity of a tour *)
  Variable adm : tour -> act -> Prop.         (* the move is admitted in the state whose current tour is t *)
  Hypothesis op_ok : forall t a, P t -> adm t a -> P (op t a).

  Fixpoint admitted_seq (t : tour) (acts : list act) : Prop :=
    match acts with [] => True | a :: r => adm t a /\ admitted_seq (op t a) r end.

  Lemma seen_valid : forall acts t, P t -> admitted_seq t acts -> Forall P (seen_from tour act op t acts).
  Proof.
    induction acts as [|a r IH]; intros t Ht Ha; [constructor|].
    destruct Ha as [Ha Hr]. cbn [seen_from]. constructor; [apply op_ok; assumption|].
    apply IH; [apply op_ok; assumption|exact Hr].
  Qed.

  Theorem run_valid : forall t0 acts, P t0 -> admitted_seq t0 acts ->
    let s := fst (bsf_run tour act op cost (bsf_reset tour cost t0) acts) in
    P (rec_current s) /\ P (rec_best s) /\ Forall P (seen_from tour act op t0 acts).
  Proof.
    intros t0 acts H0 Ha s.
    pose proof (seen_valid acts t0 H0 Ha) as Hs.
    destruct (bsf_exact tour act op cost t0 acts) as [_ [_ [_ [Hb [Hc _]]]]].
    fold s in Hb, Hc. rewrite Forall_forall in Hs.
    split; [|split; [|apply Forall_forall; exact Hs]].
    - rewrite Hc. destruct (seen_from tour act op t0 acts) as [|x l] eqn:E; [exact H0|].
      apply Hs. apply last_in_gen.
    - destruct Hb as [Hb|Hb]; [rewrite <- Hb; exact H0|apply Hs; exact Hb].
  Qed.
End Run.

(* ------------------------------------------------------------------ instances *)

(* a step of the environments' API: a move through _local_operator, or step_to_solution(target) *)
Definition step_op (o : list nat -> list nat -> list nat) (t : list nat) (a : list nat + list nat) : list nat :=
  match a with inl m => o t m | inr target => target end.

Lemma iterate_length {A} (f : A -> A) (len : A -> nat) (Hf : forall x, len (f x) = len x) k x :
  len (iterate f k x) = len x.
Proof. revert x; induction k as [|k IH]; intros x; [reflexivity|]. cbn [iterate]. rewrite IH. apply Hf. Qed.

Lemma two_opt_length sol f s : length (two_opt sol f s) = length sol.
Proof.
  unfold two_opt.
  rewrite (iterate_length (two_opt_body sol s) (fun st => length (fst st))).
  - cbn [fst]. rewrite !set_nth_length. reflexivity.
  - intros [r c]. unfold two_opt_body. cbn [fst snd]. apply set_nth_length.
Qed.

Lemma pdp_op_length sol a f s : length (pdp_op sol a f s) = length sol.
Proof. unfold pdp_op. rewrite !set_nth_length. reflexivity. Qed.

(* 2-opt: moves (first, second) inside get_mask; step_to_solution targets that are tours of the same size *)
Definition adm_two_opt (n : nat) (t : list nat) (a : list nat + list nat) : Prop :=
  match a with
  | inl m => two_opt_mask n (nth 0 m 0) (nth 1 m 0) = true
  | inr target => is_tour target /\ length target = n
  end.

Theorem two_opt_run_valid (D : nat -> nat -> Z) (t0 : list nat) (acts : list (list nat + list nat)) :
  is_tour t0 ->
  admitted_seq _ _ (step_op (fun t m => two_opt t (nth 0 m 0) (nth 1 m 0))) (adm_two_opt (length t0)) t0 acts ->
  let s := fst (bsf_run _ _ (step_op (fun t m => two_opt t (nth 0 m 0) (nth 1 m 0))) (get_costs D)
                        (bsf_reset _ (get_costs D) t0) acts) in
  is_tour (rec_current s) /\ is_tour (rec_best s) /\
  cost_current s = tour_length D (walk (rec_current s) 0 (length (rec_current s))) /\
  cost_bsf s = tour_length D (walk (rec_best s) 0 (length (rec_best s))).
Proof.
  intros H0 Ha s.
  set (P := fun t : list nat => is_tour t /\ length t = length t0).
  assert (Hok : forall t a, P t -> adm_two_opt (length t0) t a -> P (step_op (fun t m => two_opt t (nth 0 m 0) (nth 1 m 0)) t a)).
  { intros t [m|target] [Ht Hl] Hadm; cbn [step_op adm_two_opt] in *.
    - split; [apply two_opt_valid; [exact Ht|rewrite Hl; exact Hadm]|rewrite two_opt_length; exact Hl].
    - exact Hadm. }
  destruct (run_valid _ _ _ (get_costs D) P (adm_two_opt (length t0)) Hok t0 acts (conj H0 eq_refl) Ha) as [[Hc _] [[Hb _] _]].
  fold s in Hc, Hb.
  destruct (bsf_exact _ _ (step_op (fun t m => two_opt t (nth 0 m 0) (nth 1 m 0))) (get_costs D) t0 acts) as [E1 [E2 _]].
  fold s in E1, E2.
  split; [exact Hc|]. split; [exact Hb|]. split.
  - rewrite E1. apply get_costs_is_tour_length. exact Hc.
  - rewrite E2. apply get_costs_is_tour_length. exact Hb.
Qed.

(* PDP ruin-repair: moves (a0, first, second) admitted by get_mask(a0 + 1); targets valid PDP tours of the same size *)
Definition adm_pdp (n : nat) (t : list nat) (a : list nat + list nat) : Prop :=
  match a with
  | inl m => pdp_admissible t (nth 0 m 0) (nth 1 m 0) (nth 2 m 0) = true
  | inr target => pdp_valid target /\ length target = n
  end.

Theorem pdp_run_valid (D : nat -> nat -> Z) (h : nat) (t0 : list nat) (acts : list (list nat + list nat)) :
  length t0 = 2 * h + 1 -> pdp_valid t0 ->
  admitted_seq _ _ (step_op (fun t m => pdp_op t (nth 0 m 0) (nth 1 m 0) (nth 2 m 0))) (adm_pdp (length t0)) t0 acts ->
  let s := fst (bsf_run _ _ (step_op (fun t m => pdp_op t (nth 0 m 0) (nth 1 m 0) (nth 2 m 0))) (get_costs D)
                        (bsf_reset _ (get_costs D) t0) acts) in
  pdp_valid (rec_current s) /\ pdp_valid (rec_best s) /\
  cost_current s = tour_length D (walk (rec_current s) 0 (length (rec_current s))) /\
  cost_bsf s = tour_length D (walk (rec_best s) 0 (length (rec_best s))).
Proof.
  intros Hlen H0 Ha s.
  set (P := fun t : list nat => pdp_valid t /\ length t = length t0).
  assert (Hok : forall t a, P t -> adm_pdp (length t0) t a ->
                            P (step_op (fun t m => pdp_op t (nth 0 m 0) (nth 1 m 0) (nth 2 m 0)) t a)).
  { intros t [m|target] [Ht Hl] Hadm; cbn [step_op adm_pdp] in *.
    - split; [apply (pdp_rr_valid t h); [rewrite Hl; exact Hlen|exact Ht|exact Hadm]|rewrite pdp_op_length; exact Hl].
    - exact Hadm. }
  destruct (run_valid _ _ _ (get_costs D) P (adm_pdp (length t0)) Hok t0 acts (conj H0 eq_refl) Ha) as [[Hc _] [[Hb _] _]].
  fold s in Hc, Hb.
  destruct (bsf_exact _ _ (step_op (fun t m => pdp_op t (nth 0 m 0) (nth 1 m 0) (nth 2 m 0))) (get_costs D) t0 acts) as [E1 [E2 _]].
  fold s in E1, E2.
  split; [exact Hc|]. split; [exact Hb|]. split.
  - rewrite E1. apply get_costs_is_tour_length. apply Hc.
  - rewrite E2. apply get_costs_is_tour_length. apply Hb.
Qed.

(* k-opt (k_max in {3,4}): BOUNDED by the finite statement of ImproveKoptFinite.v -- moves are the actions the
   sequential builder forms from k draws; targets are tours of the same size *)
Lemma scatter_length rec idx vals : length (scatter rec idx vals) = length rec.
Proof.
  unfold scatter. revert rec. induction (combine idx vals) as [|p l IH]; intros rec; [reflexivity|].
  cbn [fold_left]. rewrite IH. apply set_nth_length.
Qed.

Lemma k_opt_length k sol a : length (k_opt k sol a) = length sol.
Proof.
  unfold k_opt, k_opt_with.
  rewrite (iterate_length (k_opt_body (argsort sol) (map (nxt sol) (firstn k a))) (fun st => length (fst st))).
  - cbn [fst]. apply scatter_length.
  - intros [r c]. unfold k_opt_body. cbn [fst snd]. apply set_nth_length.
Qed.

Definition adm_kopt (k n : nat) (t : list nat) (a : list nat + list nat) : Prop :=
  match a with
  | inl m => exists cs, length cs = k /\ kopt_builder k t cs = Some m
  | inr target => is_tour target /\ length target = n
  end.

Theorem kopt_run_valid_partial (D : nat -> nat -> Z) (k : nat) (t0 : list nat) (acts : list (list nat + list nat)) :
  (k = 3 /\ 3 <= length t0 <= 8) \/ (k = 4 /\ 3 <= length t0 <= 7) ->
  is_tour t0 ->
  admitted_seq _ _ (step_op (k_opt k)) (adm_kopt k (length t0)) t0 acts ->
  let s := fst (bsf_run _ _ (step_op (k_opt k)) (get_costs D) (bsf_reset _ (get_costs D) t0) acts) in
  is_tour (rec_current s) /\ is_tour (rec_best s) /\
  cost_current s = tour_length D (walk (rec_current s) 0 (length (rec_current s))) /\
  cost_bsf s = tour_length D (walk (rec_best s) 0 (length (rec_best s))).
Proof.
  intros Hk H0 Ha s.
  set (P := fun t : list nat => is_tour t /\ length t = length t0).
  assert (Hok : forall t a, P t -> adm_kopt k (length t0) t a -> P (step_op (k_opt k) t a)).
  { intros t [m|target] [Ht Hl] Hadm; cbn [step_op adm_kopt] in *.
    - destruct Hadm as [cs [Hcs Hb]]. split; [|rewrite k_opt_length; exact Hl].
      apply (k_opt_valid_partial k t cs m); [rewrite Hl; exact Hk|exact Ht|exact Hcs|exact Hb].
    - exact Hadm. }
  destruct (run_valid _ _ _ (get_costs D) P (adm_kopt k (length t0)) Hok t0 acts (conj H0 eq_refl) Ha) as [[Hc _] [[Hb _] _]].
  fold s in Hc, Hb.
  destruct (bsf_exact _ _ (step_op (k_opt k)) (get_costs D) t0 acts) as [E1 [E2 _]].
  fold s in E1, E2.
  split; [exact Hc|]. split; [exact Hb|]. split.
  - rewrite E1. apply get_costs_is_tour_length. exact Hc.
  - rewrite E2. apply get_costs_is_tour_length. exact Hb.
Qed.

(* non-vacuity: an admitted 2-opt run with a neutral move, an improving move and a step_to_solution *)
Example run_ex :
  let D := fun i j : nat => Z.of_nat (if Nat.leb i j then j - i else i - j) in
  let opx := step_op (fun t m => two_opt t (nth 0 m 0) (nth 1 m 0)) in
  let acts := [inl [1; 2]; inl [0; 3]; inr [1; 2; 3; 0]] in
  is_tourb [2; 3; 1; 0] = true /\
  two_opt_mask 4 1 2 = true /\ two_opt_mask 4 0 3 = true /\ is_tourb [1; 2; 3; 0] = true /\
  let r := bsf_run _ _ opx (get_costs D) (bsf_reset _ (get_costs D) [2; 3; 1; 0]) acts in
  map (get_costs D) (seen_from _ _ opx [2; 3; 1; 0] acts) = [8%Z; 6%Z; 6%Z] /\ snd r = [0%Z; 2%Z; 0%Z] /\
  cost_bsf (fst r) = 6%Z.
Proof. vm_compute. repeat split; reflexivity. Qed.
