(* Building blocks shared by the models of the single-tour environments (TSP, ATSP, PDP):
   - the "visited" bit-vector automaton (scatter of 0 at the chosen node, mask = the bit-vector),
   - torch.roll(-1) and the "gather + roll" sum used by the rewards,
   - sorted(actions) == arange(len(actions)) used by the checkers. *)
From Coq Require Import ZArith List Bool Lia ZifyBool Arith Permutation.
From RL4CO Require Import Base.Num Base.SortNat Spec.Routes Spec.Tours.
Import ListNotations.
Open Scope Z_scope.

(* ---------------------------------------------------------------- availability bit-vector *)
(* available.scatter(-1, a, 0) *)
Definition clear (a : nat) (av : list bool) : list bool := set_nth a false av.

Fixpoint avail_after (av : list bool) (acts : list nat) : list bool :=
  match acts with [] => av | a :: r => avail_after (clear a av) r end.

(* every action is a True entry of the vector it is taken from *)
Fixpoint avail_adm (av : list bool) (acts : list nat) : bool :=
  match acts with [] => true | a :: r => nth a av false && avail_adm (clear a av) r end.

Lemma clear_length a av : length (clear a av) = length av.
Proof. apply set_nth_length. Qed.

Lemma nth_clear a av j : nth j (clear a av) false = nth j av false && negb (Nat.eqb j a).
Proof.
  unfold clear. rewrite nth_set_nth. destruct (Nat.eqb j a) eqn:E; cbn [andb negb]; [|rewrite andb_true_r; reflexivity].
  apply Nat.eqb_eq in E. subst j. destruct (Nat.ltb a (length av)) eqn:L; [rewrite andb_false_r; reflexivity|].
  apply Nat.ltb_ge in L. rewrite nth_overflow by exact L. reflexivity.
Qed.

Lemma avail_after_length av acts : length (avail_after av acts) = length av.
Proof. revert av; induction acts as [|a r IH]; intros av; simpl; [reflexivity|]. rewrite IH. apply clear_length. Qed.

Lemma avail_after_app av a b : avail_after av (a ++ b) = avail_after (avail_after av a) b.
Proof. revert av; induction a as [|x a IH]; intros av; simpl; auto. Qed.

Lemma nth_avail_after av acts j :
  nth j (avail_after av acts) false = nth j av false && negb (existsb (Nat.eqb j) acts).
Proof.
  revert av; induction acts as [|a r IH]; intros av; simpl; [rewrite andb_true_r; reflexivity|].
  rewrite IH, nth_clear. rewrite negb_orb, andb_assoc. reflexivity.
Qed.

Lemma existsb_eqb_In j l : existsb (Nat.eqb j) l = true <-> In j l.
Proof.
  rewrite existsb_exists. split.
  - intros (x & Hx & E). apply Nat.eqb_eq in E. subst. exact Hx.
  - intros H. exists j. split; [exact H | apply Nat.eqb_refl].
Qed.

Lemma nth_avail_after_true av acts j :
  nth j (avail_after av acts) false = true <-> nth j av false = true /\ ~ In j acts.
Proof.
  rewrite nth_avail_after, andb_true_iff, negb_true_iff. rewrite <- existsb_eqb_In.
  destruct (existsb (Nat.eqb j) acts); intuition congruence.
Qed.

Lemma avail_adm_spec av acts :
  avail_adm av acts = true <-> NoDup acts /\ (forall a, In a acts -> nth a av false = true).
Proof.
  revert av; induction acts as [|a r IH]; intros av; simpl.
  - split; [intros _; split; [constructor | intros a []] | reflexivity].
  - rewrite andb_true_iff, IH. split.
    + intros (Ha & Hn & Hall). split.
      * constructor; [|exact Hn]. intros Hin. specialize (Hall a Hin). rewrite nth_clear, Nat.eqb_refl, andb_false_r in Hall. discriminate.
      * intros b [<-|Hb]; [exact Ha|]. specialize (Hall b Hb). rewrite nth_clear in Hall. apply andb_prop in Hall. tauto.
    + intros (Hnd & Hall). inversion Hnd as [|? ? Hna Hnr]; subst. split; [apply Hall; left; reflexivity|]. split; [exact Hnr|].
      intros b Hb. rewrite nth_clear. apply andb_true_intro. split; [apply Hall; right; exact Hb|].
      apply negb_true_iff, Nat.eqb_neq. intros ->. contradiction.
Qed.

Lemma avail_adm_app av a b : avail_adm av (a ++ b) = avail_adm av a && avail_adm (avail_after av a) b.
Proof. revert av; induction a as [|x a IH]; intros av; simpl; [reflexivity|]. rewrite IH, andb_assoc. reflexivity. Qed.

Lemma nth_repeat_true n j : nth j (repeat true n) false = Nat.ltb j n.
Proof.
  destruct (Nat.ltb j n) eqn:E.
  - apply Nat.ltb_lt in E. rewrite nth_indep with (d' := true) by (rewrite repeat_length; exact E). apply nth_repeat.
  - apply Nat.ltb_ge in E. apply nth_overflow. rewrite repeat_length. exact E.
Qed.

(* admitted from the all-True vector = pairwise distinct nodes in range *)
Lemma avail_adm_fresh n acts :
  avail_adm (repeat true n) acts = true <-> NoDup acts /\ (forall a, In a acts -> (a < n)%nat).
Proof.
  rewrite avail_adm_spec. split; intros [H1 H2]; (split; [exact H1|]); intros a Ha; specialize (H2 a Ha).
  - rewrite nth_repeat_true in H2. apply Nat.ltb_lt. exact H2.
  - rewrite nth_repeat_true. apply Nat.ltb_lt. exact H2.
Qed.

Lemma countb_zero l : countb l = 0%nat <-> (forall j, nth j l false = false).
Proof.
  unfold countb. induction l as [|b l IH]; simpl.
  - split; [intros _ [|j]; reflexivity | reflexivity].
  - destruct b; simpl.
    + split; [discriminate | intros H; specialize (H 0%nat); discriminate].
    + rewrite IH. split; [intros H [|j]; [reflexivity | apply H] | intros H j; apply (H (S j))].
Qed.

Lemma countb_anyb l : Nat.eqb (countb l) 0 = negb (anyb l).
Proof.
  unfold countb, anyb. induction l as [|b l IH]; simpl; [reflexivity|]. destruct b; simpl; [reflexivity | exact IH].
Qed.

Lemma anyb_false l : anyb l = false <-> (forall j, nth j l false = false).
Proof.
  rewrite <- countb_zero. pose proof (countb_anyb l) as H. destruct (anyb l); cbn [negb] in H.
  - apply Nat.eqb_neq in H. split; [discriminate | contradiction].
  - apply Nat.eqb_eq in H. tauto.
Qed.

(* pairwise distinct nodes in range: at most n of them; all of 0..n-1 are among them iff there are exactly n *)
Lemma distinct_in_range_le n acts : NoDup acts -> (forall a, In a acts -> (a < n)%nat) -> (length acts <= n)%nat.
Proof.
  intros Hn Hr. assert (incl acts (seq 0 n)) as Hi by (intros a Ha; apply in_seq; specialize (Hr a Ha); lia).
  pose proof (NoDup_incl_length Hn Hi) as H. rewrite seq_length in H. exact H.
Qed.

Lemma distinct_all_iff n acts : NoDup acts -> (forall a, In a acts -> (a < n)%nat) ->
  ((forall j, (j < n)%nat -> In j acts) <-> length acts = n).
Proof.
  intros Hn Hr. pose proof (distinct_in_range_le n acts Hn Hr) as Hle. split.
  - intros Hall. assert (incl (seq 0 n) acts) as Hi by (intros a Ha; apply in_seq in Ha; apply Hall; lia).
    pose proof (NoDup_incl_length (seq_NoDup n 0) Hi) as H. rewrite seq_length in H. lia.
  - intros Hl j Hj.
    assert (incl acts (seq 0 n)) as Hi by (intros a Ha; apply in_seq; specialize (Hr a Ha); lia).
    assert (incl (seq 0 n) acts) as Hi2 by (apply (NoDup_length_incl Hn); [rewrite seq_length; lia | exact Hi]).
    apply Hi2. apply in_seq. lia.
Qed.

(* nothing left in the vector <-> exactly n (distinct, in range) nodes were taken *)
Lemma nothing_left_iff n acts : NoDup acts -> (forall a, In a acts -> (a < n)%nat) ->
  (anyb (avail_after (repeat true n) acts) = false <-> length acts = n).
Proof.
  intros Hn Hr. rewrite <- (distinct_all_iff n acts Hn Hr), anyb_false. split.
  - intros H j Hj. specialize (H j). rewrite nth_avail_after, nth_repeat_true in H.
    apply Nat.ltb_lt in Hj. rewrite Hj in H. cbn [andb] in H. apply negb_false_iff in H. apply existsb_eqb_In. exact H.
  - intros H j. rewrite nth_avail_after, nth_repeat_true. destruct (Nat.ltb j n) eqn:E; [|reflexivity].
    apply Nat.ltb_lt in E. cbn [andb]. apply negb_false_iff, existsb_eqb_In. apply H. exact E.
Qed.

(* ---------------------------------------------------------------- torch.roll(x, -1) and the gather+roll sum *)
Definition roll (l : list nat) : list nat := tl l ++ firstn 1 l.

(* sum over t of d (l_t) (roll l)_t *)
Definition roll_sum (d : nat -> nat -> Z) (l : list nat) : Z :=
  sumZ (map (fun p => d (fst p) (snd p)) (combine l (roll l))).

Lemma combine_shift_sum d x r z :
  sumZ (map (fun p => d (fst p) (snd p)) (combine (x :: r) (r ++ [z]))) = open_len d (x :: r) + d (last (x :: r) x) z.
Proof.
  revert x; induction r as [|y r IH]; intros x.
  - simpl. lia.
  - change (combine (x :: y :: r) ((y :: r) ++ [z])) with ((x, y) :: combine (y :: r) (r ++ [z])).
    cbn [map sumZ fst snd]. rewrite IH. rewrite open_len_cons.
    change (last (x :: y :: r) x) with (last (y :: r) x). rewrite (last_default_irrel r y x y). lia.
Qed.

(* the gather+roll sum is the closed tour length, for any action list and any (asymmetric) cost *)
Theorem roll_sum_closed_len d l : roll_sum d l = closed_len d l.
Proof.
  destruct l as [|x r]; [reflexivity|]. unfold roll_sum, roll, closed_len. cbn [tl firstn].
  apply combine_shift_sum.
Qed.

(* get_tour_length evaluates the distance with the arguments (next, current): same sum under the transposed cost *)
Lemma roll_sum_flip_sym d l : (forall a b, d a b = d b a) -> roll_sum (fun a b => d b a) l = closed_len d l.
Proof.
  intros S. rewrite roll_sum_closed_len. destruct l as [|x r]; [reflexivity|]. unfold closed_len.
  rewrite open_len_sym by exact S. rewrite (S x). reflexivity.
Qed.

(* ---------------------------------------------------------------- sorted(actions) == arange(len(actions)) *)
Definition sorted_is_arange (acts : list nat) : bool :=
  if list_eq_dec Nat.eq_dec (sort_nat acts) (seq 0 (length acts)) then true else false.

Lemma sorted_is_arange_perm acts : sorted_is_arange acts = true <-> Permutation acts (seq 0 (length acts)).
Proof.
  unfold sorted_is_arange. destruct (list_eq_dec Nat.eq_dec (sort_nat acts) (seq 0 (length acts))) as [E|N].
  - split; [intros _ | reflexivity]. rewrite <- E. apply Permutation_sym, sort_perm.
  - split; [discriminate|]. intros P. exfalso. apply N.
    rewrite (sort_perm_eq _ _ P). apply sort_sorted_id. apply sorted_seq.
Qed.

Lemma sorted_is_arange_iff acts : sorted_is_arange acts = true <-> visits_each_once (length acts) acts.
Proof. rewrite sorted_is_arange_perm, visits_each_once_perm. reflexivity. Qed.
