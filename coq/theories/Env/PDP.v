(* PDPEnv (rl4co/envs/routing/pdp/env.py, class PDPEnv), one batch row, bookkeeping variable by variable.
   Node 0 is the depot, pickups are 1..n/2, the delivery of pickup k is k + n/2.  [pforce] is the constructor flag
   force_start_at_depot (both values are variants of the same model).  _step contains no batch-global construct. *)
From Coq Require Import ZArith List Bool Lia ZifyBool Arith.
From RL4CO Require Import Base.Num Base.EnvSig Base.SortNat Spec.Tours Env.TourCore.
Import ListNotations.
Open Scope Z_scope.

Record pdp_inst := {
  pgen_n : nat;             (* self.generator.num_loc: sizes the masks in _reset *)
  pforce : bool;            (* self.force_start_at_depot *)
  pdist : list (list Z);    (* pairwise distances of cat(depot, locs); used by the reward only *)
}.
Definition pdp_nloc (i : pdp_inst) : nat := length (pdist i) - 1.     (* td["locs"].shape[-2] - 1 in _step *)
Definition pdp_d (i : pdp_inst) (a b : nat) : Z := mget (pdist i) a b.

Record pdp_st := {
  pcur : nat;               (* td["current_node"] *)
  ptodel : list bool;       (* td["to_deliver"]: True = pickup, depot, or delivery whose pickup has been visited *)
  pavail : list bool;       (* td["available"]: True = not visited yet *)
  pcnt : nat;               (* td["i"] *)
  pmask : list bool;        (* td["action_mask"] *)
  pdn : bool;               (* td["done"] *)
}.

(* elementwise a & b *)
Definition andl (a b : list bool) : list bool := map (fun p => fst p && snd p) (combine a b).

Definition pdp_reset (i : pdp_inst) : pdp_st :=
  let n := pgen_n i in
  let to_deliver := repeat true (n / 2 + 1) ++ repeat false (n / 2) in
  let available := repeat true (n + 1) in
  let action_mask := repeat true (n + 1) in
  if pforce i then
    {| pcur := 0; ptodel := to_deliver; pavail := available; pcnt := 0;
       pmask := true :: repeat false n;                       (* action_mask[..., 1:] = False *)
       pdn := false |}
  else
    {| pcur := 0; ptodel := to_deliver;
       pavail := set_nth 0 false available;                   (* available[..., 0] = False *)
       pcnt := 0;
       pmask := set_nth 0 false (andl action_mask to_deliver);  (* (action_mask & to_deliver); [..., 0] = False *)
       pdn := false |}.

(* (current_node + num_loc // 2) % (num_loc + 1) *)
Definition partner (i : pdp_inst) (a : nat) : nat := (a + pdp_nloc i / 2) mod (pdp_nloc i + 1).

Definition pdp_step (i : pdp_inst) (s : pdp_st) (a : nat) : pdp_st :=
  let available := clear a (pavail s) in
  let to_deliver := set_nth (partner i a) true (ptodel s) in
  {| pcur := a;
     ptodel := to_deliver;
     pavail := available;
     pcnt := S (pcnt s);
     pmask := andl available to_deliver;
     pdn := Nat.eqb (countb available) 0 |}.        (* torch.count_nonzero(available, -1) == 0 *)

(* scatter indices must be inside the tensors *)
Definition pdp_stepok (i : pdp_inst) (s : pdp_st) (a : nat) : bool :=
  Nat.ltb a (length (pavail s)) && Nat.ltb (partner i a) (length (ptodel s)) &&
  Nat.eqb (length (pavail s)) (length (ptodel s)).

Definition pdp_mask (i : pdp_inst) (s : pdp_st) : list bool := pmask s.
Definition pdp_done (i : pdp_inst) (s : pdp_st) : bool := pdn s.

Definition PDP : Env := {|
  inst := pdp_inst; st := pdp_st;
  reset := pdp_reset; step := pdp_step; stepok := pdp_stepok; mask := pdp_mask; done := pdp_done |}.

(* ---------------------------------------------------------------- _get_reward *)
(* locs_ordered = cat(depot, gather(locs, actions)); get_tour_length: the distance is evaluated at (next, current) *)
Definition pdp_reward (i : pdp_inst) (acts : list nat) : Z := - roll_sum (fun c nx => pdp_d i nx c) (0%nat :: acts).
Definition pdp_rewardok (i : pdp_inst) (acts : list nat) : bool :=
  Nat.ltb 1 (length acts) && forallb (fun a => Nat.ltb a (length (pdist i))) acts.

(* ---------------------------------------------------------------- check_solution_validity *)
(* the depot is prepended unless force_start_at_depot; then: actions.size(1) == td["locs"].size(-2) (added by the fix
   5d5f57a, recorded as fixed in known_findings.json: before it a route omitting the highest-numbered pairs was
   accepted); sorted == arange(len); actions[:, 1:-1] != 0;
   visited_time = argsort(actions) (= position of each node, the list being a permutation by the first test);
   visited_time[:, 1 : L//2+1] < visited_time[:, L//2+1 :]  -- an elementwise comparison that BROADCASTS when one
   side has a single column and raises when the shapes are incompatible *)
Definition pdp_full (i : pdp_inst) (acts : list nat) : list nat := if pforce i then acts else 0%nat :: acts.

Definition mid (l : list nat) : list nat := removelast (tl l).     (* l[1:-1] *)

Fixpoint forallb2_lt (p d : list nat) : bool :=
  match p, d with
  | [], [] => true
  | x :: p', y :: d' => Nat.ltb x y && forallb2_lt p' d'
  | _, _ => false
  end.
Definition lt_broadcast (p d : list nat) : bool :=
  if Nat.eqb (length p) (length d) then forallb2_lt p d
  else match d with
       | [y] => forallb (fun x => Nat.ltb x y) p
       | _ => match p with
              | [x] => forallb (fun y => Nat.ltb x y) d
              | _ => false                                     (* shapes not broadcastable: RuntimeError *)
              end
       end.

Definition pdp_checker (i : pdp_inst) (acts : list nat) : bool :=
  let full := pdp_full i acts in
  let L := length full in
  let vtime := fun j => pos j full in
  Nat.eqb L (length (pdist i)) &&
  sorted_is_arange full &&
  forallb (fun a => negb (Nat.eqb a 0)) (mid full) &&
  lt_broadcast (map vtime (seq 1 (L / 2))) (map vtime (seq (L / 2 + 1) (L - L / 2 - 1))).
