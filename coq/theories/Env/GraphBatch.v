(* Env/GraphBatch.v -- the selection environments (FLP, MCP, DPP, MDPP) under C02 / C03 / C04: what Env/Selection.v,
   Env/FLP.v, Env/MCP.v, Env/DPP.v do not state.

   Part A  done is stable; a finished row has NO inert action (every offered item changes the selection); rows with
           equal quotas finish at the same step (what holds instead of "finished rows keep a padding action").
   Part B  FLPEnv._step / _get_reward on a batch, literally: `chosen.nonzero(as_tuple=True)[1].view(batch, -1)` --
           needs the same number of chosen locations in every row; proved equal to the row-wise reading under the
           invariant that really holds of lockstep batches (every row has selected exactly k distinct locations after
           k steps, BECAUSE there is no inert action), refuted otherwise. *)
From Coq Require Import ZArith List Bool Lia ZifyBool Arith Permutation.
From RL4CO Require Import Env.Selection Env.FLP Env.MCP Env.DPP.
Import ListNotations.
Open Scope Z_scope.

(* ================================================================ Part A *)
(* the closed form of done all four envs share (sel_done_iff) is monotone in the number of steps *)
Lemma done_formula_mono (q : Z) (n m : nat) : (n <= m)%nat ->
  negb (Nat.eqb n 0) && (q <=? Z.of_nat n) = true -> negb (Nat.eqb m 0) && (q <=? Z.of_nat m) = true.
Proof.
  intros Hle H. apply andb_prop in H as [H1 H2]. apply negb_true_iff in H1. apply Nat.eqb_neq in H1.
  apply Z.leb_le in H2. apply andb_true_intro. split; [apply negb_true_iff, Nat.eqb_neq; lia|apply Z.leb_le; lia].
Qed.

Section DoneStable.
  Variables (st : Type) (step : st -> nat -> option st) (mask : st -> list bool) (done : st -> bool) (q : Z) (s0 : st).
  Hypothesis done_iff : forall as_ s, run_adm step mask s0 as_ = Some s ->
    done s = negb (Nat.eqb (length as_) 0) && (q <=? Z.of_nat (length as_)).
  Lemma gen_done_stable as_ ext s s' :
    run_adm step mask s0 as_ = Some s -> done s = true -> run_adm step mask s0 (as_ ++ ext) = Some s' -> done s' = true.
  Proof.
    intros H1 Hd H2. rewrite (done_iff _ _ H2). rewrite (done_iff _ _ H1) in Hd.
    apply (done_formula_mono q (length as_)); [rewrite app_length; lia|exact Hd].
  Qed.
  (* two rows with the same quota (here: the same closed form) and the same number of steps agree on done *)
  Lemma gen_done_same_length as1 as2 s1 s2 : length as1 = length as2 ->
    run_adm step mask s0 as1 = Some s1 -> run_adm step mask s0 as2 = Some s2 -> done s1 = done s2.
  Proof. intros El H1 H2. rewrite (done_iff _ _ H1), (done_iff _ _ H2), El. reflexivity. Qed.
End DoneStable.

Theorem flp_done_stable I as_ ext s s' : flp_wf I ->
  flp_run I (flp_reset I) as_ = Some s -> f_done s = true -> flp_run I (flp_reset I) (as_ ++ ext) = Some s' -> f_done s' = true.
Proof. intros W. apply (gen_done_stable flp_st (flp_step I) f_mask f_done (f_q I) (flp_reset I)). intros a s0. apply flp_done_iff. exact W. Qed.
Theorem mcp_done_stable I as_ ext s s' : mcp_wf I ->
  mcp_run I (mcp_reset I) as_ = Some s -> m_done s = true -> mcp_run I (mcp_reset I) (as_ ++ ext) = Some s' -> m_done s' = true.
Proof. intros W. apply (gen_done_stable mcp_st (mcp_step I) m_mask m_done (m_q I) (mcp_reset I)). intros a s0. apply mcp_done_iff. exact W. Qed.
Theorem dpp_done_stable I as_ ext s s' : dpp_wf I ->
  dpp_run I (dpp_reset I) as_ = Some s -> d_done s = true -> dpp_run I (dpp_reset I) (as_ ++ ext) = Some s' -> d_done s' = true.
Proof. intros W. apply (gen_done_stable dpp_st (dpp_step I) d_mask d_done (d_q I) (dpp_reset I)). intros a s0. apply dpp_done_iff. exact W. Qed.
Theorem mdpp_done_stable I as_ ext s s' : mdpp_wf I ->
  mdpp_run I (mdpp_reset I) as_ = Some s -> d_done s = true -> mdpp_run I (mdpp_reset I) (as_ ++ ext) = Some s' -> d_done s' = true.
Proof. intros W. apply (gen_done_stable dpp_st (mdpp_step I) d_mask d_done (md_q I) (mdpp_reset I)). intros a s0. apply mdpp_done_iff. exact W. Qed.

(* equal quota + lockstep => equal done: all rows of such a batch finish at the same step *)
Theorem flp_equal_quota_finish_together I1 I2 as1 as2 s1 s2 : flp_wf I1 -> flp_wf I2 -> f_q I1 = f_q I2 -> length as1 = length as2 ->
  flp_run I1 (flp_reset I1) as1 = Some s1 -> flp_run I2 (flp_reset I2) as2 = Some s2 -> f_done s1 = f_done s2.
Proof. intros W1 W2 Eq El H1 H2. rewrite (flp_done_iff I1 as1 s1 W1 H1), (flp_done_iff I2 as2 s2 W2 H2), Eq, El. reflexivity. Qed.
Theorem mcp_equal_quota_finish_together I1 I2 as1 as2 s1 s2 : mcp_wf I1 -> mcp_wf I2 -> m_q I1 = m_q I2 -> length as1 = length as2 ->
  mcp_run I1 (mcp_reset I1) as1 = Some s1 -> mcp_run I2 (mcp_reset I2) as2 = Some s2 -> m_done s1 = m_done s2.
Proof. intros W1 W2 Eq El H1 H2. rewrite (mcp_done_iff I1 as1 s1 W1 H1), (mcp_done_iff I2 as2 s2 W2 H2), Eq, El. reflexivity. Qed.
(* DPP / MDPP: the quota is the env attribute max_decaps, one value for the whole batch *)
Theorem dpp_batch_finishes_together I1 I2 as1 as2 s1 s2 : dpp_wf I1 -> dpp_wf I2 -> d_q I1 = d_q I2 -> length as1 = length as2 ->
  dpp_run I1 (dpp_reset I1) as1 = Some s1 -> dpp_run I2 (dpp_reset I2) as2 = Some s2 -> d_done s1 = d_done s2.
Proof. intros W1 W2 Eq El H1 H2. rewrite (dpp_done_iff I1 as1 s1 W1 H1), (dpp_done_iff I2 as2 s2 W2 H2), Eq, El. reflexivity. Qed.
Theorem mdpp_batch_finishes_together I1 I2 as1 as2 s1 s2 : mdpp_wf I1 -> mdpp_wf I2 -> md_q I1 = md_q I2 -> length as1 = length as2 ->
  mdpp_run I1 (mdpp_reset I1) as1 = Some s1 -> mdpp_run I2 (mdpp_reset I2) as2 = Some s2 -> d_done s1 = d_done s2.
Proof. intros W1 W2 Eq El H1 H2. rewrite (mdpp_done_iff I1 as1 s1 W1 H1), (mdpp_done_iff I2 as2 s2 W2 H2), Eq, El. reflexivity. Qed.

(* no inert action: whatever a reachable row is offered (finished or not) was not selected yet, and taking it selects
   it, removes it from the mask and advances the counter *)
Theorem flp_no_inert_action I as_ s a : flp_wf I -> flp_run I (flp_reset I) as_ = Some s -> nth a (f_mask s) false = true ->
  exists s', flp_step I s a = Some s' /\ nth a (f_chosen s) false = false /\ nth a (f_chosen s') false = true /\
             nth a (f_mask s') false = false /\ f_i s' = f_i s + 1.
Proof.
  intros W Hr Hm.
  pose proof (sel_reach_inv flp_inst flp_st flp_wf flp_reset flp_step f_mask f_i f_done f_q flp_mask0 flp_inv
                flp_reset_ok flp_step_ok I as_ s W Hr) as Hinv.
  pose proof Hinv as [Hlen Hmask].
  destruct (flp_step_ok I s a W Hinv (nth_true_lt _ _ Hm)) as (s' & Hs & [Hlen' Hmask'] & Hmk & Hi & _).
  exists s'. split; [exact Hs|].
  assert (Ha : (a < length (f_chosen s))%nat) by (pose proof (nth_true_lt _ _ Hm) as H; rewrite Hmask, map_length in H; exact H).
  destruct (flp_step_shape I s a s' Hs) as (_ & Hch & _).
  split.
  - rewrite Hmask in Hm. rewrite nth_map_negb in Hm by exact Ha. apply negb_true_iff in Hm. exact Hm.
  - split; [rewrite Hch, nth_set_nth, Nat.eqb_refl; replace (Nat.ltb a (length (f_chosen s))) with true by (symmetry; apply Nat.ltb_lt; exact Ha); reflexivity|].
    split; [|exact Hi]. rewrite Hmk, nth_set_nth, Nat.eqb_refl.
    replace (Nat.ltb a (length (f_mask s))) with true by (symmetry; apply Nat.ltb_lt; exact (nth_true_lt _ _ Hm)). reflexivity.
Qed.

Theorem mcp_no_inert_action I as_ s a : mcp_wf I -> mcp_run I (mcp_reset I) as_ = Some s -> nth a (m_mask s) false = true ->
  exists s', mcp_step I s a = Some s' /\ nth a (m_chosen s) false = false /\ nth a (m_chosen s') false = true /\
             nth a (m_mask s') false = false /\ m_i s' = m_i s + 1.
Proof.
  intros W Hr Hm.
  pose proof (sel_reach_inv mcp_inst mcp_st mcp_wf mcp_reset mcp_step m_mask m_i m_done m_q mcp_mask0 mcp_inv
                mcp_reset_ok mcp_step_ok I as_ s W Hr) as Hinv.
  pose proof Hinv as [Hlen [Hmask _]].
  assert (Ha : (a < length (m_chosen s))%nat) by (pose proof (nth_true_lt _ _ Hm) as H; rewrite Hmask, map_length in H; exact H).
  exists (mcp_step_result I s a). split; [apply mcp_step_eq; assumption|].
  split.
  - rewrite Hmask in Hm. rewrite nth_map_negb in Hm by exact Ha. apply negb_true_iff in Hm. exact Hm.
  - unfold mcp_step_result. cbn [m_chosen m_mask m_i].
    assert (E : nth a (set_nth a true (m_chosen s)) false = true).
    { rewrite nth_set_nth, Nat.eqb_refl. replace (Nat.ltb a (length (m_chosen s))) with true by (symmetry; apply Nat.ltb_lt; exact Ha). reflexivity. }
    split; [exact E|]. split; [|reflexivity].
    rewrite nth_map_negb by (rewrite set_nth_length; exact Ha). rewrite E. reflexivity.
Qed.

Theorem eda_no_inert_action q s a : nth a (d_mask s) false = true ->
  exists s', eda_step q s a = Some s' /\ nth a (d_mask s') false = false /\ d_i s' = d_i s + 1.
Proof.
  intros Hm. pose proof (nth_true_lt _ _ Hm) as Ha. unfold eda_step.
  destruct (Nat.leb (length (d_mask s)) a) eqn:E; [apply Nat.leb_le in E; lia|].
  eexists. split; [reflexivity|]. cbn [d_mask d_i]. split; [|reflexivity].
  rewrite nth_set_nth, Nat.eqb_refl. replace (Nat.ltb a (length (d_mask s))) with true by (symmetry; apply Nat.ltb_lt; exact Ha). reflexivity.
Qed.

(* ================================================================ Part B: FLP on a batch *)
(* tensor.view(B, -1) of a flat tensor: B consecutive chunks of equal length; raises when the length is not a
   multiple of B *)
Fixpoint chunks {A} (k n : nat) (l : list A) : list (list A) :=
  match n with O => [] | S n' => firstn k l :: chunks k n' (skipn k l) end.
Definition view_rows {A} (B : nat) (flat : list A) : option (list (list A)) :=
  if Nat.eqb B 0 then Some []
  else if Nat.eqb (length flat mod B) 0 then Some (chunks (length flat / B) B flat) else None.
(* chosen.nonzero(as_tuple=True)[1]: the column indices of ALL true entries of the [B, n] tensor, row-major *)
Definition b_nonzero_cols (chosen : list (list bool)) : list nat := concat (map nonzero chosen).
Definition b_nonzero_view (chosen : list (list bool)) : option (list (list nat)) :=
  view_rows (length chosen) (b_nonzero_cols chosen).

Lemma chunks_concat {A} k (ls : list (list A)) : (forall l, In l ls -> length l = k) -> chunks k (length ls) (concat ls) = ls.
Proof.
  induction ls as [|l r IH]; intros H; cbn [length chunks concat]; [reflexivity|].
  assert (Hl : length l = k) by (apply H; left; reflexivity). subst k.
  rewrite firstn_app, Nat.sub_diag, firstn_all. cbn [firstn]. rewrite app_nil_r.
  rewrite skipn_app, Nat.sub_diag, skipn_all. cbn [skipn app].
  rewrite IH; [reflexivity|]. intros l' Hl'. apply H. right. exact Hl'.
Qed.
Lemma length_concat_const {A} k (ls : list (list A)) : (forall l, In l ls -> length l = k) -> length (concat ls) = (length ls * k)%nat.
Proof.
  induction ls as [|l r IH]; intros H; cbn [concat length]; [reflexivity|]. rewrite app_length, (H l (or_introl eq_refl)), IH; [lia|].
  intros l' Hl'. apply H. right. exact Hl'.
Qed.

(* (a) the same number k of chosen locations in every row: the view hands every row its own indices *)
Theorem b_nonzero_view_equal_counts chosen k :
  (forall c, In c chosen -> length (nonzero c) = k) -> b_nonzero_view chosen = Some (map nonzero chosen).
Proof.
  intros H. unfold b_nonzero_view, view_rows, b_nonzero_cols.
  destruct chosen as [|c0 r]; [reflexivity|].
  set (ch := c0 :: r) in *. assert (HB : length ch <> 0%nat) by (cbn; lia).
  replace (Nat.eqb (length ch) 0) with false by (symmetry; apply Nat.eqb_neq; exact HB).
  assert (Hl : forall l, In l (map nonzero ch) -> length l = k).
  { intros l Hin. apply in_map_iff in Hin as [c [<- Hc]]. apply H. exact Hc. }
  rewrite (length_concat_const k _ Hl), map_length.
  replace (length ch * k)%nat with (k * length ch)%nat by lia.
  rewrite Nat.mod_mul by exact HB. cbn [Nat.eqb]. rewrite Nat.div_mul by exact HB.
  f_equal. rewrite <- (map_length nonzero ch) at 1. apply chunks_concat. exact Hl.
Qed.

(* (b) different counts: the call raises (total not a multiple of B) or silently hands rows each other's indices *)
Theorem b_nonzero_view_unequal_counts_refuted :
  (exists chosen, b_nonzero_view chosen = None) /\
  (exists chosen v, b_nonzero_view chosen = Some v /\ v <> map nonzero chosen /\
                    nth 0 v [] = [0%nat; 0%nat] /\ nth 0 (map nonzero chosen) [] = [0%nat]).
Proof.
  split.
  - exists [[true; false; false]; [true; true; false]]. reflexivity.
  - exists [[true; false; false]; [true; true; true]]. eexists. split; [vm_compute; reflexivity|].
    split; [discriminate|]. split; reflexivity.
Qed.

(* cur_min_dist = gather_by_index(orig_distances, view).view(B, -1, n).min(dim=1).values  -- per row, given ITS row of
   the view: the minimum over the gathered rows of D; raises on an empty gather *)
Definition flp_min_over (I : flp_inst) (n : nat) (idx : list nat) : option (list Z) :=
  match idx with
  | [] => None
  | c0 :: cs => Some (map (fun p => minl (Dat I c0 p) (map (fun c => Dat I c p) cs)) (seq 0 n))
  end.
Lemma flp_curmin_min_over I chosen : flp_curmin I chosen = flp_min_over I (length chosen) (nonzero chosen).
Proof. unfold flp_curmin, flp_min_over. destruct (nonzero chosen); reflexivity. Qed.

Fixpoint all_some {A} (l : list (option A)) : option (list A) :=
  match l with
  | [] => Some []
  | None :: _ => None
  | Some x :: r => match all_some r with Some t => Some (x :: t) | None => None end
  end.
Fixpoint zipw {A B C} (f : A -> B -> C) (l1 : list A) (l2 : list B) : list C :=
  match l1, l2 with x :: r1, y :: r2 => f x y :: zipw f r1 r2 | _, _ => [] end.
Lemma zipw_map_r {A B C} (f : A -> B -> C) (g : A -> B) l : zipw f l (map g l) = map (fun x => f x (g x)) l.
Proof. induction l as [|x r IH]; cbn; [reflexivity|]. rewrite IH. reflexivity. Qed.

(* the distance update of FLPEnv._step and the reward of _get_reward on a whole batch (rows = instance + chosen) *)
Definition flp_b_curmin (rows : list (flp_inst * list bool)) : option (list (list Z)) :=
  match b_nonzero_view (map snd rows) with
  | None => None
  | Some v => all_some (zipw (fun r idx => flp_min_over (fst r) (length (snd r)) idx) rows v)
  end.
Definition flp_b_reward (rows : list (flp_inst * list bool)) : option (list Z) :=
  match flp_b_curmin rows with Some ds => Some (map (fun d => - sumZ d) ds) | None => None end.

Theorem flp_b_curmin_rowwise rows k :
  (forall r, In r rows -> length (nonzero (snd r)) = k) ->
  flp_b_curmin rows = all_some (map (fun r => flp_curmin (fst r) (snd r)) rows).
Proof.
  intros H. unfold flp_b_curmin. rewrite (b_nonzero_view_equal_counts (map snd rows) k).
  - rewrite map_map, zipw_map_r. apply f_equal. apply map_ext. intros r. symmetry. apply flp_curmin_min_over.
  - intros c Hc. apply in_map_iff in Hc as [r [<- Hr]]. apply H. exact Hr.
Qed.

(* the invariant that really holds: after k mask-confined steps a row has exactly k chosen locations *)
Lemma nonzero_NoDup l : NoDup (nonzero l).
Proof. unfold nonzero. apply NoDup_filter. apply seq_NoDup. Qed.

Theorem flp_chosen_count I as_ s : flp_wf I -> flp_run I (flp_reset I) as_ = Some s -> length (nonzero (f_chosen s)) = length as_.
Proof.
  intros W Hr. destruct (flp_distinct_in_range I as_ s W Hr) as (Hnd & Hrng & _ & _).
  pose proof (run_adm_run_all _ _ _ _ _ Hr) as Hall.
  destruct (flp_run_all_shape I as_ _ s Hall) as (Hch & _ & _).
  apply Permutation_length. apply NoDup_Permutation; [apply nonzero_NoDup|exact Hnd|].
  intros c. rewrite nonzero_In, Hch, nth_set_all. cbn [flp_reset f_chosen]. rewrite repeat_length.
  replace (nth c (repeat false (f_n I)) false) with false by (symmetry; apply nth_repeat). cbn [orb].
  rewrite andb_true_iff, memb_In, Nat.ltb_lt. split; [tauto|]. intros Hin. split; [exact Hin|].
  rewrite Forall_forall in Hrng. apply Hrng. exact Hin.
Qed.

(* C04 for the FLP distance bookkeeping and reward: a lockstep batch (every row k mask-confined steps from reset,
   any quotas, any sizes) computes for every row exactly what the row computes alone *)
Theorem flp_lockstep_batch_rowwise (rows : list (flp_inst * list nat * flp_st)) k :
  (forall r, In r rows -> flp_wf (fst (fst r)) /\ length (snd (fst r)) = k /\
                          flp_run (fst (fst r)) (flp_reset (fst (fst r))) (snd (fst r)) = Some (snd r)) ->
  let brows := map (fun r => (fst (fst r), f_chosen (snd r))) rows in
  flp_b_curmin brows = all_some (map (fun r => flp_curmin (fst (fst r)) (f_chosen (snd r))) rows) /\
  flp_b_reward brows = match all_some (map (fun r => flp_reward (fst (fst r)) (snd r)) rows) with
                       | Some l => Some l | None => None end.
Proof.
  intros H brows.
  assert (E : flp_b_curmin brows = all_some (map (fun r => flp_curmin (fst (fst r)) (f_chosen (snd r))) rows)).
  { unfold brows. rewrite (flp_b_curmin_rowwise _ k).
    - rewrite map_map. reflexivity.
    - intros r Hr. apply in_map_iff in Hr as [r0 [<- Hr0]]. cbn [snd]. destruct (H r0 Hr0) as (W & Hl & Hrun).
      rewrite (flp_chosen_count _ _ _ W Hrun). exact Hl. }
  split; [exact E|]. unfold flp_b_reward. rewrite E. clear. induction rows as [|r rows IH]; [reflexivity|].
  cbn [map all_some]. unfold flp_reward at 1. destruct (flp_curmin (fst (fst r)) (f_chosen (snd r))) as [d|]; [|reflexivity].
  destruct (all_some (map (fun r0 => flp_curmin (fst (fst r0)) (f_chosen (snd r0))) rows)) as [ds|];
    destruct (all_some (map (fun r0 => flp_reward (fst (fst r0)) (snd r0)) rows)) as [l|]; try discriminate; try reflexivity.
  inversion IH. reflexivity.
Qed.

(* mask-confined runs are runs the code accepts (so the bookkeeping / reward theorems stated over [run_all] apply) *)
Lemma flp_run_is_run_all (I : flp_inst) (s : flp_st) (as_ : list nat) (s' : flp_st) :
  flp_run I s as_ = Some s' -> flp_run_all I s as_ = Some s'.
Proof. apply run_adm_run_all. Qed.
Lemma mcp_run_is_run_all (I : mcp_inst) (s : mcp_st) (as_ : list nat) (s' : mcp_st) :
  mcp_run I s as_ = Some s' -> mcp_run_all I s as_ = Some s'.
Proof. apply run_adm_run_all. Qed.
