(* Env/FJSPProofs.v -- invariant of the FJSP/JSSP automaton of Env/FJSP.v and the C07 theorems:
   every mask-confined episode, of any length on any instance, never crashes, needs at most num_machines
   automatic time transits per step, and when done yields a valid schedule (Spec/Schedule.v) whose makespan
   is minus the reported reward. *)
From Coq Require Import ZArith List Bool Lia ZifyBool Arith.
From RL4CO Require Import Spec.Schedule Env.FJSP.
Import ListNotations.

(* ================================================================ list lemmas *)
Lemma upd_length {A} n (x : A) l : length (upd n x l) = length l.
Proof. revert n; induction l as [|h t IH]; intros [|n]; simpl; auto. Qed.

Lemma nth_upd {A} n m (x d : A) l :
  nth m (upd n x l) d = if (m =? n) && (n <? length l) then x else nth m l d.
Proof.
  revert n m; induction l as [|h t IH]; intros n m.
  - simpl. rewrite andb_false_r. destruct n; reflexivity.
  - destruct n as [|n], m as [|m]; simpl; auto. rewrite IH. reflexivity.
Qed.

Lemma nth_upd_same {A} n (x d : A) l : n < length l -> nth n (upd n x l) d = x.
Proof. intros H. rewrite nth_upd. rewrite Nat.eqb_refl. apply Nat.ltb_lt in H. rewrite H. reflexivity. Qed.

Lemma nth_upd_other {A} n m (x d : A) l : m <> n -> nth m (upd n x l) d = nth m l d.
Proof. intros H. rewrite nth_upd. apply Nat.eqb_neq in H. rewrite H. reflexivity. Qed.

Lemma nth_map_seq {A} (f : nat -> A) n j d : nth j (map f (seq 0 n)) d = if j <? n then f j else d.
Proof.
  destruct (j <? n) eqn:E.
  - apply Nat.ltb_lt in E. rewrite nth_indep with (d' := f 0) by (rewrite map_length, seq_length; exact E).
    rewrite map_nth. rewrite seq_nth by exact E. reflexivity.
  - apply Nat.ltb_ge in E. apply nth_overflow. rewrite map_length, seq_length. exact E.
Qed.

Lemma nth_repeat_lt {A} (x d : A) n k : k < n -> nth k (repeat x n) d = x.
Proof. revert k; induction n as [|n IH]; intros [|k] H; simpl; try lia; auto. apply IH. lia. Qed.

Lemma nth_repeat_any {A} (x : A) n k : nth k (repeat x n) x = x.
Proof. revert k; induction n as [|n IH]; intros [|k]; simpl; auto. Qed.

Lemma forallb_id_nth (l : list bool) : forallb (fun b => b) l = true <-> forall j, j < length l -> nth j l false = true.
Proof.
  induction l as [|h t IH]; simpl.
  - split; [intros _ j Hj; lia|reflexivity].
  - rewrite andb_true_iff, IH. split.
    + intros [Hh Ht] [|j] Hj; [exact Hh|apply Ht; lia].
    + intros H. split; [apply (H 0); lia|]. intros j Hj. apply (H (S j)). lia.
Qed.

Lemma existsb_id_nth (l : list bool) : existsb (fun b => b) l = true <-> exists j, j < length l /\ nth j l false = true.
Proof.
  rewrite existsb_exists. split.
  - intros [x [Hin Hx]]. subst x. destruct (In_nth _ _ false Hin) as [j [Hj Hn]]. exists j. split; assumption.
  - intros [j [Hj Hn]]. exists true. split; [|reflexivity]. rewrite <- Hn. apply nth_In. exact Hj.
Qed.

(* --- the minimum of a non-empty list *)
Lemma fold_min_le r : forall c, (fold_left Z.min r c <= c)%Z /\ (forall x, In x r -> fold_left Z.min r c <= x)%Z.
Proof.
  induction r as [|h t IH]; intros c; simpl.
  - split; [lia|intros x []].
  - destruct (IH (Z.min c h)) as [H1 H2]. split; [lia|]. intros x [<-|Hx]; [lia|auto].
Qed.
Lemma fold_min_in r : forall c, In (fold_left Z.min r c) (c :: r).
Proof.
  induction r as [|h t IH]; intros c; simpl; [left; reflexivity|].
  destruct (IH (Z.min c h)) as [H|H].
  - destruct (Z.min_spec c h) as [[_ E]|[_ E]]; [left|right; left]; rewrite <- H; symmetry; exact E.
  - right; right; exact H.
Qed.

(* --- the maximum of a non-empty list *)
Lemma fold_max_ge r : forall c, (c <= fold_left Z.max r c)%Z /\ (forall x, In x r -> x <= fold_left Z.max r c)%Z.
Proof.
  induction r as [|h t IH]; intros c; simpl.
  - split; [lia|intros x []].
  - destruct (IH (Z.max c h)) as [H1 H2]. split; [lia|]. intros x [<-|Hx]; [lia|auto].
Qed.
Lemma fold_max_in r : forall c, In (fold_left Z.max r c) (c :: r).
Proof.
  induction r as [|h t IH]; intros c; simpl; [left; reflexivity|].
  destruct (IH (Z.max c h)) as [H|H].
  - destruct (Z.max_spec c h) as [[_ E]|[_ E]]; [right; left|left]; rewrite <- H; symmetry; exact E.
  - right; right; exact H.
Qed.
Lemma zmax_opt_spec l mk : zmax_opt l = Some mk -> In mk l /\ forall x, In x l -> (x <= mk)%Z.
Proof.
  destruct l as [|c r]; cbn [zmax_opt]; [discriminate|]. intros H. inversion H; subst.
  destruct (fold_max_ge r c) as [H1 H2]. split.
  - apply fold_max_in.
  - intros x [<-|Hx]; [exact H1|apply H2; exact Hx].
Qed.
Lemma zmax_opt_some l : l <> [] -> exists mk, zmax_opt l = Some mk.
Proof. destruct l; [congruence|]. intros _. eexists. reflexivity. Qed.

(* --- strictly fewer machines are busy after moving to the earliest release *)
Lemma filter_gt_shrinks (l : list Z) (t t' : Z) :
  (t <= t')%Z -> In t' (filter (fun b => (t <? b)%Z) l) ->
  length (filter (fun b => (t' <? b)%Z) l) < length (filter (fun b => (t <? b)%Z) l).
Proof.
  intros Hle. induction l as [|h r IH]; simpl; [intros []|].
  assert (Hmono : length (filter (fun b => (t' <? b)%Z) r) <= length (filter (fun b => (t <? b)%Z) r)).
  { clear IH. induction r as [|x r IHr]; simpl; [lia|].
    destruct (t' <? x)%Z eqn:E1, (t <? x)%Z eqn:E2; simpl; lia. }
  destruct (t <? h)%Z eqn:E.
  - intros [->|Hin].
    + replace (t' <? t')%Z with false by lia. simpl. lia.
    + specialize (IH Hin). destruct (t' <? h)%Z; simpl; lia.
  - intros Hin. specialize (IH Hin). replace (t' <? h)%Z with false by lia. exact IH.
Qed.

(* ================================================================ well-formed instances (what wfb gives) *)
Record wf (i : inst) : Prop := {
  wf_J : 1 <= nJ i;
  wf_M : 1 <= nM i;
  wf_elen : length (end_op i) = nJ i;
  wf_rows : forall m, m < nM i -> length (nth m (proc i) []) = nN i;
  wf_se : forall j, j < nJ i -> sj i j <= ej i j;
  wf_s0 : sj i 0 = 0;
  wf_chain : forall j, S j < nJ i -> sj i (S j) = S (ej i j);
  wf_lt : forall j1 j2, j1 < j2 -> j2 < nJ i -> ej i j1 < sj i j2;
  wf_eT : forall j, j < nJ i -> ej i j < total_ops i;
  wf_TN : total_ops i <= nN i;
  wf_cover : forall o, o < total_ops i -> exists j, j < nJ i /\ sj i j <= o <= ej i j;
  wf_pad : forall o, o < nN i -> padv i o = (total_ops i <=? o);
  wf_nonneg : forall m o, (0 <= P i m o)%Z;
}.

Lemma wfb_wf i : wfb i = true -> wf i.
Proof.
  unfold wfb. rewrite !andb_true_iff.
  intros [[[[[[[[[HJ HM] Hel] Hrows] Hs0] Hse] Hch] HTN] Hpad] Hnn].
  apply Nat.leb_le in HJ, HM, HTN. apply Nat.eqb_eq in Hel, Hs0.
  rewrite forallb_forall in Hrows, Hse, Hch, Hpad, Hnn.
  assert (Hse' : forall j, j < nJ i -> sj i j <= ej i j).
  { intros j Hj. apply Nat.leb_le. apply Hse. apply in_seq. lia. }
  assert (Hch' : forall j, S j < nJ i -> sj i (S j) = S (ej i j)).
  { intros j Hj. apply Nat.eqb_eq. apply Hch. apply in_seq. lia. }
  assert (Hlt : forall d j1, j1 + 1 + d < nJ i -> ej i j1 < sj i (j1 + 1 + d)).
  { induction d as [|d IH]; intros j1 H.
    - replace (j1 + 1 + 0) with (S j1) by lia. rewrite Hch' by lia. lia.
    - replace (j1 + 1 + S d) with (S (j1 + 1 + d)) by lia. rewrite Hch' by lia.
      specialize (IH j1 ltac:(lia)). specialize (Hse' (j1 + 1 + d) ltac:(lia)). lia. }
  assert (Hlt' : forall j1 j2, j1 < j2 -> j2 < nJ i -> ej i j1 < sj i j2).
  { intros j1 j2 H1 H2. replace j2 with (j1 + 1 + (j2 - j1 - 1)) by lia. apply Hlt. lia. }
  constructor; try assumption.
  - intros m Hm. apply Nat.eqb_eq. apply Hrows. apply nth_In. exact Hm.
  - intros j Hj. unfold total_ops. destruct (Nat.eq_dec j (nJ i - 1)) as [->|Hne]; [lia|].
    specialize (Hlt' j (nJ i - 1) ltac:(lia) ltac:(lia)). specialize (Hse' (nJ i - 1) ltac:(lia)). lia.
  - assert (Hc : forall k, k < nJ i -> forall o, o <= ej i k -> exists j, j <= k /\ sj i j <= o <= ej i j).
    { induction k as [|k IH]; intros Hk o Ho.
      - exists 0. lia.
      - destruct (Nat.le_gt_cases (sj i (S k)) o) as [H|H].
        + exists (S k). lia.
        + rewrite Hch' in H by lia. destruct (IH ltac:(lia) o ltac:(lia)) as [j [Hj1 Hj2]]. exists j. lia. }
    intros o Ho. unfold total_ops in Ho. destruct (Hc (nJ i - 1) ltac:(lia) o ltac:(lia)) as [j [Hj1 Hj2]].
    exists j. split; [lia|exact Hj2].
  - intros o Ho. apply eqb_prop. apply Hpad. apply in_seq. lia.
  - intros m o. unfold P. destruct (Nat.lt_ge_cases m (nM i)) as [Hm|Hm].
    + assert (Hr : In (nth m (proc i) []) (proc i)) by (apply nth_In; exact Hm).
      specialize (Hnn _ Hr). rewrite forallb_forall in Hnn.
      destruct (Nat.lt_ge_cases o (length (nth m (proc i) []))) as [Ho|Ho].
      * specialize (Hnn (nth o (nth m (proc i) []) 0%Z) (nth_In _ _ Ho)). lia.
      * rewrite nth_overflow by exact Ho. lia.
    + rewrite (nth_overflow (proc i)) by exact Hm. destruct o; simpl; lia.
Qed.

(* ================================================================ tensor shapes *)
Record shape (i : inst) (s : st) : Prop := {
  sh_bu : length (busy_until s) = nM i;
  sh_nxt : length (next_op s) = nJ i;
  sh_inp : length (job_in_process s) = nJ i;
  sh_jd : length (job_done s) = nJ i;
  sh_sch : length (op_scheduled s) = nN i;
  sh_st : length (start_times s) = nN i;
  sh_fin : length (finish_times s) = nN i;
  sh_asg : length (ma_assignment s) = nM i;
  sh_asgr : forall m, m < nM i -> length (nth m (ma_assignment s) []) = nN i;
  sh_pc : length (proc_cur s) = nM i;
  sh_pcr : forall m, m < nM i -> length (nth m (proc_cur s) []) = nN i;
}.

Lemma asg_true_lt i s m o : shape i s -> asg s m o = true -> m < nM i /\ o < nN i.
Proof.
  intros Sh H. unfold asg in H.
  destruct (Nat.lt_ge_cases m (nM i)) as [Hm|Hm].
  - split; [exact Hm|]. destruct (Nat.lt_ge_cases o (nN i)) as [Ho|Ho]; [exact Ho|].
    rewrite nth_overflow in H; [discriminate|]. rewrite (sh_asgr _ _ Sh) by exact Hm. exact Ho.
  - rewrite (nth_overflow (ma_assignment s)) in H by (rewrite (sh_asg _ _ Sh); exact Hm).
    destruct o; discriminate.
Qed.

(* ================================================================ what _make_step does, pointwise *)
Record ms_view (i : inst) (s : st) (j m : nat) (s' : st) : Prop := {
  mv_j : j < nJ i;
  mv_m : m < nM i;
  mv_o : nxt s j < nN i;
  mv_idle : (bu s m <= time s)%Z;
  mv_shape : shape i s';
  mv_time : time s' = time s;
  mv_done : done s' = done s;
  mv_jdl : job_done s' = job_done s;
  mv_nxtl : next_op s' = next_op s;
  mv_inpl : job_in_process s' = upd j true (job_in_process s);
  mv_bu : forall m', bu s' m' = if m' =? m then (time s + pc s m (nxt s j))%Z else bu s m';
  mv_inp : forall j', inp s' j' = if j' =? j then true else inp s j';
  mv_sch : forall o', sched s' o' = if o' =? nxt s j then true else sched s o';
  mv_st : forall o', stt s' o' = if o' =? nxt s j then time s else stt s o';
  mv_fin : forall o', fin s' o' = if o' =? nxt s j then (time s + pc s m (nxt s j))%Z else fin s o';
  mv_asg : forall m' o', asg s' m' o' = if (m' =? m) && (o' =? nxt s j) then true else asg s m' o';
  mv_pc : forall m' o', pc s' m' o' = if o' =? nxt s j then 0%Z else pc s m' o';
}.

Lemma make_step_view i s j m s' : shape i s -> make_step i s j m = Some s' -> ms_view i s j m s'.
Proof.
  intros Sh H. unfold make_step in H.
  destruct (negb (j <? nJ i) || negb (m <? nM i) || negb (nxt s j <? nN i)) eqn:E1; [discriminate|].
  destruct (time s <? bu s m)%Z eqn:E2; [discriminate|].
  assert (Hj : j < nJ i) by lia. assert (Hm : m < nM i) by lia. assert (Ho : nxt s j < nN i) by lia.
  inversion H; subst s'; clear H.
  destruct Sh as [S1 S2 S3 S4 S5 S6 S7 S8 S9 S10 S11].
  constructor; try assumption; try reflexivity; try lia.
  - constructor; cbn [busy_until next_op job_in_process job_done op_scheduled start_times finish_times ma_assignment proc_cur];
      rewrite ?upd_length, ?map_length; try assumption.
    + unfold upd2. rewrite upd_length. exact S8.
    + intros m' Hm'. unfold upd2. rewrite nth_upd. rewrite S8.
      destruct ((m' =? m) && (m <? nM i)) eqn:E; [rewrite upd_length; apply S9; exact Hm|apply S9; exact Hm'].
    + intros m' Hm'. rewrite nth_indep with (d' := upd (nxt s j) 0%Z []) by (rewrite map_length; lia).
      rewrite map_nth. rewrite upd_length. apply S11. exact Hm'.
  - intros m'. unfold bu at 1. cbn [busy_until]. rewrite nth_upd. rewrite S1.
    replace (m <? nM i) with true by lia. rewrite andb_true_r. reflexivity.
  - intros j'. unfold inp at 1. cbn [job_in_process]. rewrite nth_upd. rewrite S3.
    replace (j <? nJ i) with true by lia. rewrite andb_true_r. reflexivity.
  - intros o'. unfold sched at 1. cbn [op_scheduled]. rewrite nth_upd. rewrite S5.
    replace (nxt s j <? nN i) with true by lia. rewrite andb_true_r. reflexivity.
  - intros o'. unfold stt at 1. cbn [start_times]. rewrite nth_upd. rewrite S6.
    replace (nxt s j <? nN i) with true by lia. rewrite andb_true_r. reflexivity.
  - intros o'. unfold fin at 1. cbn [finish_times]. rewrite nth_upd. rewrite S7.
    replace (nxt s j <? nN i) with true by lia. rewrite andb_true_r. reflexivity.
  - intros m' o'. unfold asg at 1. cbn [ma_assignment]. unfold upd2. rewrite nth_upd. rewrite S8.
    replace (m <? nM i) with true by lia. rewrite andb_true_r.
    destruct (m' =? m) eqn:Em.
    + apply Nat.eqb_eq in Em. subst m'. rewrite nth_upd. rewrite S9 by exact Hm.
      replace (nxt s j <? nN i) with true by lia. rewrite andb_true_r. reflexivity.
    + reflexivity.
  - intros m' o'. unfold pc at 1. cbn [proc_cur].
    change (@nil Z) with (upd (nxt s j) 0%Z []) at 1. rewrite map_nth.
    rewrite nth_upd. fold (pc s m' o').
    destruct (o' =? nxt s j) eqn:Eo; [|reflexivity]. apply Nat.eqb_eq in Eo. subst o'.
    destruct (nxt s j <? length (nth m' (proc_cur s) [])) eqn:El; [reflexivity|].
    cbn [andb]. unfold pc. rewrite nth_overflow; [reflexivity|lia].
Qed.

(* ================================================================ what _transit_to_next_time does, pointwise *)
Definition opf (s : st) (t' : Z) (j : nat) : bool := inp s j && (fin s (nxt s j) <=? t')%Z.
Definition jfin (i : inst) (s : st) (t' : Z) (j : nat) : bool := opf s t' j && (nxt s j =? ej i j).

Record tr_view (i : inst) (s s' : st) (t' : Z) : Prop := {
  tv_time : time s' = t';
  tv_bul : busy_until s' = busy_until s;
  tv_schl : op_scheduled s' = op_scheduled s;
  tv_stl : start_times s' = start_times s;
  tv_finl : finish_times s' = finish_times s;
  tv_asgl : ma_assignment s' = ma_assignment s;
  tv_pcl : proc_cur s' = proc_cur s;
  tv_nxt : forall j, j < nJ i -> nxt s' j = if opf s t' j && negb (jfin i s t' j) then S (nxt s j) else nxt s j;
  tv_inp : forall j, j < nJ i -> inp s' j = if opf s t' j then false else inp s j;
  tv_jd : forall j, j < nJ i -> jdone s' j = jdone s j || jfin i s t' j;
  tv_done : done s' = forallb (fun b => b) (job_done s');
  tv_len1 : length (next_op s') = nJ i;
  tv_len2 : length (job_in_process s') = nJ i;
  tv_len3 : length (job_done s') = nJ i;
}.

Lemma release_set_time_view i s t' : tr_view i s (release i (set_time s t')) t'.
Proof.
  constructor; try reflexivity;
    try (cbn [release next_op job_in_process job_done]; rewrite map_length, seq_length; reflexivity).
  - intros j Hj. unfold nxt at 1. cbn [release next_op]. rewrite nth_map_seq.
    replace (j <? nJ i) with true by lia. reflexivity.
  - intros j Hj. unfold inp at 1. cbn [release job_in_process]. rewrite nth_map_seq.
    replace (j <? nJ i) with true by lia. reflexivity.
  - intros j Hj. unfold jdone at 1. cbn [release job_done]. rewrite nth_map_seq.
    replace (j <? nJ i) with true by lia. reflexivity.
Qed.

Lemma tr_view_pt i s s' t' : tr_view i s s' t' ->
  (forall m, bu s' m = bu s m) /\ (forall o, sched s' o = sched s o) /\ (forall o, stt s' o = stt s o) /\
  (forall o, fin s' o = fin s o) /\ (forall m o, asg s' m o = asg s m o) /\ (forall m o, pc s' m o = pc s m o).
Proof.
  intros V. unfold bu, sched, stt, fin, asg, pc.
  rewrite (tv_bul _ _ _ _ V), (tv_schl _ _ _ _ V), (tv_stl _ _ _ _ V), (tv_finl _ _ _ _ V), (tv_asgl _ _ _ _ V), (tv_pcl _ _ _ _ V).
  repeat split.
Qed.

Lemma tr_view_shape i s s' t' : shape i s -> tr_view i s s' t' -> shape i s'.
Proof.
  intros [S1 S2 S3 S4 S5 S6 S7 S8 S9 S10 S11] V.
  constructor; rewrite ?(tv_bul _ _ _ _ V), ?(tv_schl _ _ _ _ V), ?(tv_stl _ _ _ _ V), ?(tv_finl _ _ _ _ V),
    ?(tv_asgl _ _ _ _ V), ?(tv_pcl _ _ _ _ V); try assumption.
  - exact (tv_len1 _ _ _ _ V). - exact (tv_len2 _ _ _ _ V). - exact (tv_len3 _ _ _ _ V).
Qed.

(* next_time: the earliest release strictly after [time] *)
Lemma next_time_spec s t' : next_time s = Some t' ->
  (time s < t')%Z /\ In t' (busy_until s) /\
  In t' (filter (fun b => (time s <? b)%Z) (busy_until s)) /\
  (forall b, In b (busy_until s) -> (time s < b)%Z -> (t' <= b)%Z).
Proof.
  unfold next_time. destruct (filter (fun b => (time s <? b)%Z) (busy_until s)) as [|c r] eqn:E; [discriminate|].
  intros H. inversion H; subst t'; clear H.
  pose proof (fold_min_in r c) as Hin. rewrite <- E in Hin.
  pose proof Hin as Hin'. apply filter_In in Hin' as [Hin1 Hin2].
  split; [lia|]. split; [exact Hin1|]. split; [rewrite E in Hin; exact Hin|].
  intros b Hb Hlt. assert (Hf : In b (c :: r)). { rewrite <- E. apply filter_In. split; [exact Hb|lia]. }
  destruct (fold_min_le r c) as [H1 H2]. destruct Hf as [<-|Hf]; [exact H1|apply H2; exact Hf].
Qed.
Lemma next_time_some s b : In b (busy_until s) -> (time s < b)%Z -> exists t', next_time s = Some t'.
Proof.
  intros Hb Hlt. unfold next_time.
  destruct (filter (fun b => (time s <? b)%Z) (busy_until s)) as [|c r] eqn:E; [|eexists; reflexivity].
  exfalso. assert (Hf : In b []). { rewrite <- E. apply filter_In. split; [exact Hb|lia]. } destruct Hf.
Qed.

(* ================================================================ the invariant *)
Record Inv (i : inst) (s : st) : Prop := {
  I_shape : shape i s;
  I_t0 : (0 <= time s)%Z;
  I_done : done s = forallb (fun b => b) (job_done s);
  (* next_op stays inside its job *)
  I_rng : forall j, j < nJ i -> sj i j <= nxt s j <= ej i j;
  (* operations before next_op: scheduled and finished; after: untouched *)
  I_past : forall j o, j < nJ i -> sj i j <= o < nxt s j -> sched s o = true /\ (fin s o <= time s)%Z;
  I_fut : forall j o, j < nJ i -> nxt s j < o <= ej i j -> sched s o = false;
  I_cur : forall j, j < nJ i -> sched s (nxt s j) = inp s j || jdone s j;
  (* a job is in process iff its current operation is scheduled and finishes after [time] *)
  I_inp : forall j, j < nJ i -> inp s j = true -> (time s < fin s (nxt s j))%Z;
  I_jd : forall j, j < nJ i -> jdone s j = true ->
           inp s j = false /\ nxt s j = ej i j /\ (fin s (nxt s j) <= time s)%Z;
  I_pad : forall o, total_ops i <= o -> sched s o = false;
  (* a scheduled operation: exactly one machine, eligible, exact duration, in the past of the machine's clock *)
  I_sch : forall o, sched s o = true -> exists m, m < nM i /\ asg s m o = true /\
            (forall m', asg s m' o = true -> m' = m) /\ (0 < P i m o)%Z /\
            fin s o = (stt s o + P i m o)%Z /\ (0 <= stt s o)%Z /\ (stt s o <= time s)%Z /\ (fin s o <= bu s m)%Z;
  I_uns : forall o, o < nN i -> sched s o = false -> (forall m, asg s m o = false) /\ (forall m, pc s m o = P i m o);
  I_prec : forall j o1 o2, j < nJ i -> sj i j <= o1 -> o1 < o2 -> o2 <= ej i j ->
             sched s o1 = true -> sched s o2 = true -> (fin s o1 <= stt s o2)%Z;
  I_excl : forall m o1 o2, o1 <> o2 -> asg s m o1 = true -> asg s m o2 = true ->
             (fin s o1 <= stt s o2)%Z \/ (fin s o2 <= stt s o1)%Z;
  (* a machine is busy only because of a job in process on it *)
  I_busy : forall m, m < nM i -> (time s < bu s m)%Z ->
             exists j, j < nJ i /\ inp s j = true /\ asg s m (nxt s j) = true /\ fin s (nxt s j) = bu s m;
}.

Lemma asg_sched i s m o : Inv i s -> asg s m o = true -> sched s o = true.
Proof.
  intros IV H. destruct (sched s o) eqn:E; [reflexivity|].
  destruct (asg_true_lt i s m o (I_shape _ _ IV) H) as [_ Ho].
  destruct (I_uns _ _ IV o Ho E) as [Hn _]. rewrite Hn in H. discriminate.
Qed.

Lemma nxt_lt_total i s j : wf i -> Inv i s -> j < nJ i -> nxt s j < total_ops i /\ nxt s j < nN i.
Proof.
  intros W IV Hj. pose proof (I_rng _ _ IV j Hj). pose proof (wf_eT _ W j Hj). pose proof (wf_TN _ W). lia.
Qed.

(* two different jobs never share an operation index *)
Lemma job_ranges_disjoint i j1 j2 o : wf i -> j1 < nJ i -> j2 < nJ i ->
  sj i j1 <= o <= ej i j1 -> sj i j2 <= o <= ej i j2 -> j1 = j2.
Proof.
  intros W H1 H2 R1 R2. destruct (Nat.lt_trichotomy j1 j2) as [H|[H|H]]; [|exact H|].
  - pose proof (wf_lt _ W j1 j2 H H2). lia.
  - pose proof (wf_lt _ W j2 j1 H H1). lia.
Qed.

Lemma forallb_repeat_false n : 1 <= n -> forallb (fun b : bool => b) (repeat false n) = false.
Proof. destruct n; [lia|reflexivity]. Qed.

Lemma reset_inv i : wf i -> Inv i (reset i).
Proof.
  intros W.
  assert (Hsched : forall o, sched (reset i) o = false) by (intros o; unfold sched; cbn [reset op_scheduled]; apply nth_repeat_any).
  assert (Hinp : forall j, inp (reset i) j = false) by (intros j; unfold inp; cbn [reset job_in_process]; apply nth_repeat_any).
  assert (Hjd : forall j, jdone (reset i) j = false) by (intros j; unfold jdone; cbn [reset job_done]; apply nth_repeat_any).
  assert (Hasg : forall m o, asg (reset i) m o = false).
  { intros m o. unfold asg. cbn [reset ma_assignment].
    destruct (Nat.lt_ge_cases m (nM i)) as [Hm|Hm].
    - rewrite nth_repeat_lt by exact Hm. apply nth_repeat_any.
    - rewrite (nth_overflow (repeat (repeat false (nN i)) (nM i))) by (rewrite repeat_length; exact Hm). destruct o; reflexivity. }
  assert (Hbu : forall m, bu (reset i) m = 0%Z) by (intros m; unfold bu; cbn [reset busy_until]; apply nth_repeat_any).
  constructor.
  - constructor; cbn [reset busy_until next_op job_in_process job_done op_scheduled start_times finish_times ma_assignment proc_cur];
      rewrite ?repeat_length; try reflexivity.
    + intros m Hm. rewrite nth_repeat_lt by exact Hm. apply repeat_length.
    + intros m Hm. apply (wf_rows _ W). exact Hm.
  - cbn. lia.
  - cbn [reset done job_done]. symmetry. apply forallb_repeat_false. apply (wf_J _ W).
  - intros j Hj. unfold nxt. cbn [reset next_op]. fold (sj i j). pose proof (wf_se _ W j Hj). lia.
  - intros j o Hj H. unfold nxt in H. cbn [reset next_op] in H. fold (sj i j) in H. lia.
  - intros. apply Hsched.
  - intros. rewrite Hsched, Hinp, Hjd. reflexivity.
  - intros j Hj H. rewrite Hinp in H. discriminate.
  - intros j Hj H. rewrite Hjd in H. discriminate.
  - intros. apply Hsched.
  - intros o H. rewrite Hsched in H. discriminate.
  - intros o Ho _. split; [intros m; apply Hasg|intros m; reflexivity].
  - intros j o1 o2 _ _ _ _ H. rewrite Hsched in H. discriminate.
  - intros m o1 o2 _ H. rewrite Hasg in H. discriminate.
  - intros m Hm H. rewrite Hbu in H. cbn in H. lia.
Qed.

Lemma nxt_inj i s j1 j2 : wf i -> Inv i s -> j1 < nJ i -> j2 < nJ i -> nxt s j1 = nxt s j2 -> j1 = j2.
Proof.
  intros W IV H1 H2 E. pose proof (I_rng _ _ IV j1 H1). pose proof (I_rng _ _ IV j2 H2).
  apply (job_ranges_disjoint i j1 j2 (nxt s j1) W H1 H2); lia.
Qed.

Lemma pair_ok_facts s j m : pair_ok s j m = true ->
  jdone s j = false /\ inp s j = false /\ (bu s m <= time s)%Z /\ pc s m (nxt s j) <> 0%Z.
Proof. unfold pair_ok. intros H. repeat split; lia. Qed.

(* ================================================================ _make_step preserves the invariant *)
Lemma make_step_inv i s j m s' :
  wf i -> Inv i s -> pair_ok s j m = true -> make_step i s j m = Some s' -> Inv i s'.
Proof.
  intros W IV Hok Hms.
  pose proof (make_step_view i s j m s' (I_shape _ _ IV) Hms) as V.
  destruct (pair_ok_facts s j m Hok) as (Hjd0 & Hinp0 & Hidle & Hpc0).
  pose proof (mv_j _ _ _ _ _ V) as Hj. pose proof (mv_m _ _ _ _ _ V) as Hm. pose proof (mv_o _ _ _ _ _ V) as Ho0.
  set (o0 := nxt s j) in *.
  assert (Hs0 : sched s o0 = false).
  { unfold o0. rewrite (I_cur _ _ IV j Hj), Hinp0, Hjd0. reflexivity. }
  assert (Hp : pc s m o0 = P i m o0) by (apply (I_uns _ _ IV o0 Ho0 Hs0)).
  assert (Hppos : (0 < P i m o0)%Z) by (pose proof (wf_nonneg _ W m o0); lia).
  assert (Hrng0 : sj i j <= o0 <= ej i j) by (apply (I_rng _ _ IV j Hj)).
  assert (Vnxt : forall j', nxt s' j' = nxt s j') by (intros; unfold nxt; rewrite (mv_nxtl _ _ _ _ _ V); reflexivity).
  assert (Vjd : forall j', jdone s' j' = jdone s j') by (intros; unfold jdone; rewrite (mv_jdl _ _ _ _ _ V); reflexivity).
  pose proof (mv_time _ _ _ _ _ V) as Vt. pose proof (mv_bu _ _ _ _ _ V) as Vbu. pose proof (mv_inp _ _ _ _ _ V) as Vinp.
  pose proof (mv_sch _ _ _ _ _ V) as Vsch. pose proof (mv_st _ _ _ _ _ V) as Vst. pose proof (mv_fin _ _ _ _ _ V) as Vfin.
  pose proof (mv_asg _ _ _ _ _ V) as Vasg. pose proof (mv_pc _ _ _ _ _ V) as Vpc.
  fold o0 in Vbu, Vsch, Vst, Vfin, Vasg, Vpc. rewrite Hp in Vbu, Vfin.
  assert (Hother : forall j', j' < nJ i -> j' <> j -> nxt s j' <> o0).
  { intros j' Hj' Hne E. apply Hne. apply (nxt_inj i s j' j W IV Hj' Hj). exact E. }
  constructor.
  - exact (mv_shape _ _ _ _ _ V).
  - rewrite Vt. exact (I_t0 _ _ IV).
  - rewrite (mv_done _ _ _ _ _ V), (mv_jdl _ _ _ _ _ V). exact (I_done _ _ IV).
  - intros j' Hj'. rewrite Vnxt. exact (I_rng _ _ IV j' Hj').
  - intros j' o Hj' Ho. rewrite Vnxt in Ho. destruct (I_past _ _ IV j' o Hj' Ho) as [H1 H2].
    rewrite Vsch, Vfin, Vt. destruct (Nat.eqb_spec o o0) as [->|Hne]; [congruence|]. split; assumption.
  - intros j' o Hj' Ho. rewrite Vnxt in Ho. rewrite Vsch. destruct (Nat.eqb_spec o o0) as [->|Hne].
    + exfalso. pose proof (I_rng _ _ IV j' Hj').
      assert (j' = j) by (apply (job_ranges_disjoint i j' j o0 W Hj' Hj); lia). subst j'. unfold o0 in Ho. lia.
    + exact (I_fut _ _ IV j' o Hj' Ho).
  - intros j' Hj'. rewrite Vnxt, Vsch, Vinp, Vjd. destruct (Nat.eqb_spec j' j) as [->|Hne].
    + fold o0. rewrite Nat.eqb_refl. reflexivity.
    + destruct (Nat.eqb_spec (nxt s j') o0) as [E|_]; [exfalso; exact (Hother j' Hj' Hne E)|].
      exact (I_cur _ _ IV j' Hj').
  - intros j' Hj'. rewrite Vnxt, Vinp, Vfin, Vt. destruct (Nat.eqb_spec j' j) as [->|Hne].
    + intros _. fold o0. rewrite Nat.eqb_refl. lia.
    + intros Hi. destruct (Nat.eqb_spec (nxt s j') o0) as [E|_]; [exfalso; exact (Hother j' Hj' Hne E)|].
      exact (I_inp _ _ IV j' Hj' Hi).
  - intros j' Hj'. rewrite Vjd, Vnxt, Vinp, Vfin, Vt. intros Hd.
    assert (Hne : j' <> j) by congruence.
    destruct (I_jd _ _ IV j' Hj' Hd) as (H1 & H2 & H3).
    destruct (Nat.eqb_spec j' j) as [E|_]; [contradiction|].
    destruct (Nat.eqb_spec (nxt s j') o0) as [E|_]; [exfalso; exact (Hother j' Hj' Hne E)|].
    repeat split; assumption.
  - intros o Ho. rewrite Vsch. pose proof (wf_eT _ W j Hj).
    destruct (Nat.eqb_spec o o0) as [->|_]; [lia|]. exact (I_pad _ _ IV o Ho).
  - intros o. rewrite Vsch. destruct (Nat.eqb_spec o o0) as [->|Hne].
    + intros _. exists m. split; [exact Hm|]. split; [|split; [|split; [exact Hppos|]]].
      * rewrite Vasg, !Nat.eqb_refl. reflexivity.
      * intros m'. rewrite Vasg. rewrite Nat.eqb_refl, andb_true_r. destruct (Nat.eqb_spec m' m) as [->|_]; [reflexivity|].
        intros H. destruct (I_uns _ _ IV o0 Ho0 Hs0) as [Hn _]. rewrite Hn in H. discriminate.
      * rewrite Vfin, Vst, Vbu, Vt, !Nat.eqb_refl. pose proof (I_t0 _ _ IV). lia.
    + intros Hs. destruct (I_sch _ _ IV o Hs) as (m1 & Hm1 & Ha & Hu & Hpp & Hf & Hs1 & Hs2 & Hb).
      exists m1. split; [exact Hm1|]. split; [|split; [|split; [exact Hpp|]]].
      * rewrite Vasg. replace (o =? o0) with false by lia. rewrite andb_false_r. exact Ha.
      * intros m'. rewrite Vasg. replace (o =? o0) with false by lia. rewrite andb_false_r. apply Hu.
      * rewrite Vfin, Vst, Vbu, Vt. replace (o =? o0) with false by lia.
        destruct (Nat.eqb_spec m1 m) as [->|_]; lia.
  - intros o Ho. rewrite Vsch. destruct (Nat.eqb_spec o o0) as [->|Hne]; [discriminate|]. intros Hs.
    destruct (I_uns _ _ IV o Ho Hs) as [H1 H2]. split.
    + intros m'. rewrite Vasg. replace (o =? o0) with false by lia. rewrite andb_false_r. apply H1.
    + intros m'. rewrite Vpc. replace (o =? o0) with false by lia. apply H2.
  - intros j' o1 o2 Hj' Hlo Hlt Hhi. rewrite !Vsch, Vfin, Vst.
    destruct (Nat.eqb_spec o2 o0) as [->|Hne2].
    + intros H1 _. assert (j' = j) by (apply (job_ranges_disjoint i j' j o0 W Hj' Hj); lia). subst j'.
      destruct (Nat.eqb_spec o1 o0) as [E|_]; [lia|].
      destruct (I_past _ _ IV j o1 Hj) as [_ H]; [fold o0; lia|]. lia.
    + destruct (Nat.eqb_spec o1 o0) as [->|Hne1].
      * intros _ H2. exfalso.
        assert (j' = j) by (apply (job_ranges_disjoint i j' j o0 W Hj' Hj); lia). subst j'.
        rewrite (I_fut _ _ IV j o2 Hj) in H2; [discriminate|fold o0; lia].
      * intros H1 H2. exact (I_prec _ _ IV j' o1 o2 Hj' Hlo Hlt Hhi H1 H2).
  - intros m' o1 o2 Hne. rewrite !Vasg, !Vfin, !Vst.
    assert (Hold : forall o, o <> o0 -> asg s m o = true -> (fin s o <= time s)%Z).
    { intros o Hno Ha. pose proof (asg_sched i s m o IV Ha) as Hs.
      destruct (I_sch _ _ IV o Hs) as (m1 & _ & _ & Hu & _ & _ & _ & _ & Hb). rewrite (Hu m Ha) in *. lia. }
    destruct (Nat.eqb_spec o1 o0) as [->|Hne1]; destruct (Nat.eqb_spec o2 o0) as [->|Hne2]; try contradiction.
    + rewrite andb_true_r, andb_false_r. destruct (Nat.eqb_spec m' m) as [->|_].
      * intros _ H2. right. apply Hold; assumption.
      * intros H. destruct (I_uns _ _ IV o0 Ho0 Hs0) as [Hn _]. rewrite Hn in H. discriminate.
    + rewrite andb_true_r, andb_false_r. destruct (Nat.eqb_spec m' m) as [->|_].
      * intros H1 _. left. apply Hold; assumption.
      * intros _ H. destruct (I_uns _ _ IV o0 Ho0 Hs0) as [Hn _]. rewrite Hn in H. discriminate.
    + rewrite !andb_false_r. apply (I_excl _ _ IV); assumption.
  - intros m' Hm'. rewrite Vt, Vbu. destruct (Nat.eqb_spec m' m) as [->|Hne].
    + intros _. exists j. split; [exact Hj|]. rewrite Vinp, Vnxt, Vasg, Vfin. fold o0. rewrite !Nat.eqb_refl.
      repeat split.
    + intros Hb. destruct (I_busy _ _ IV m' Hm' Hb) as (j1 & Hj1 & Hi1 & Ha1 & Hf1).
      exists j1. split; [exact Hj1|]. rewrite Vinp, Vnxt, Vasg, Vfin.
      assert (Hno : nxt s j1 <> o0).
      { intros E. rewrite <- E in Hs0. rewrite (I_cur _ _ IV j1 Hj1), Hi1 in Hs0. discriminate. }
      replace (nxt s j1 =? o0) with false by lia. rewrite andb_false_r.
      destruct (j1 =? j); repeat split; assumption.
Qed.

Lemma make_step_some i s j m :
  wf i -> Inv i s -> j < nJ i -> m < nM i -> pair_ok s j m = true -> exists s', make_step i s j m = Some s'.
Proof.
  intros W IV Hj Hm Hok. destruct (pair_ok_facts s j m Hok) as (_ & _ & Hidle & _).
  destruct (nxt_lt_total i s j W IV Hj) as [_ Ho]. unfold make_step.
  replace (negb (j <? nJ i) || negb (m <? nM i) || negb (nxt s j <? nN i)) with false by lia.
  replace (time s <? bu s m)%Z with false by lia. eexists. reflexivity.
Qed.

(* ================================================================ _transit_to_next_time preserves the invariant *)
Definition busy_count (s : st) : nat := length (filter (fun b => (time s <? b)%Z) (busy_until s)).

(* the three things that can happen to a job in the release phase *)
Lemma release_cases i s s' t' j : Inv i s -> tr_view i s s' t' -> j < nJ i ->
  (opf s t' j = false /\ nxt s' j = nxt s j /\ inp s' j = inp s j /\ jdone s' j = jdone s j /\
     (inp s j = true -> (t' < fin s (nxt s j))%Z))
  \/ (inp s j = true /\ jdone s j = false /\ (fin s (nxt s j) <= t')%Z /\ nxt s j = ej i j /\
      nxt s' j = nxt s j /\ inp s' j = false /\ jdone s' j = true)
  \/ (inp s j = true /\ jdone s j = false /\ (fin s (nxt s j) <= t')%Z /\ nxt s j < ej i j /\
      nxt s' j = S (nxt s j) /\ inp s' j = false /\ jdone s' j = false).
Proof.
  intros IV V Hj.
  pose proof (tv_nxt _ _ _ _ V j Hj) as H1. pose proof (tv_inp _ _ _ _ V j Hj) as H2. pose proof (tv_jd _ _ _ _ V j Hj) as H3.
  unfold jfin in H1, H3. pose proof (I_rng _ _ IV j Hj) as Hr.
  assert (Hd : inp s j = true -> jdone s j = false).
  { intros Hi. destruct (jdone s j) eqn:E; [|reflexivity]. destruct (I_jd _ _ IV j Hj E) as [H _]. congruence. }
  unfold opf in *. destruct (inp s j) eqn:Ei; cbn [andb] in *.
  - destruct (fin s (nxt s j) <=? t')%Z eqn:Ef; cbn [andb negb] in *.
    + destruct (Nat.eqb_spec (nxt s j) (ej i j)) as [Ee|Ee]; cbn [negb] in *.
      * right; left. rewrite H1, H2, H3, (Hd eq_refl). repeat split; try reflexivity; try lia.
      * right; right. rewrite H1, H2, H3, (Hd eq_refl). repeat split; try reflexivity; try lia.
    + left. rewrite H1, H2, H3, orb_false_r. repeat split; try reflexivity. intros _. lia.
  - left. rewrite H1, H2, H3, orb_false_r. repeat split; try reflexivity. intros H; discriminate.
Qed.

Lemma transit_inv i s s' : wf i -> Inv i s -> transit i s = Some s' ->
  Inv i s' /\ (time s < time s')%Z /\ busy_count s' < busy_count s.
Proof.
  intros W IV Htr. unfold transit in Htr. destruct (next_time s) as [t'|] eqn:Ent; [|discriminate].
  inversion Htr; subst s'; clear Htr.
  pose proof (release_set_time_view i s t') as V. set (s' := release i (set_time s t')) in *.
  destruct (next_time_spec s t' Ent) as (Hlt & Hin & Hinf & Hmin).
  destruct (tr_view_pt _ _ _ _ V) as (Vbu & Vsch & Vst & Vfin & Vasg & Vpc).
  pose proof (tv_time _ _ _ _ V) as Vt.
  pose proof (I_t0 _ _ IV) as Ht0.
  split; [|split].
  - constructor.
    + exact (tr_view_shape _ _ _ _ (I_shape _ _ IV) V).
    + lia.
    + exact (tv_done _ _ _ _ V).
    + intros j Hj. pose proof (I_rng _ _ IV j Hj).
      destruct (release_cases i s s' t' j IV V Hj) as [C|[C|C]]; lia.
    + intros j o Hj Ho. rewrite Vsch, Vfin, Vt.
      destruct (release_cases i s s' t' j IV V Hj) as [C|[C|C]].
      * destruct (I_past _ _ IV j o Hj) as [H1 H2]; [lia|]. split; [exact H1|lia].
      * destruct (I_past _ _ IV j o Hj) as [H1 H2]; [lia|]. split; [exact H1|lia].
      * destruct (Nat.eq_dec o (nxt s j)) as [->|Hne].
        -- split; [|lia]. rewrite (I_cur _ _ IV j Hj). destruct C as (-> & _). reflexivity.
        -- destruct (I_past _ _ IV j o Hj) as [H1 H2]; [lia|]. split; [exact H1|lia].
    + intros j o Hj Ho. rewrite Vsch.
      destruct (release_cases i s s' t' j IV V Hj) as [C|[C|C]]; apply (I_fut _ _ IV j o Hj); lia.
    + intros j Hj. rewrite Vsch.
      destruct (release_cases i s s' t' j IV V Hj) as [C|[C|C]].
      * destruct C as (_ & -> & -> & -> & _). exact (I_cur _ _ IV j Hj).
      * destruct C as (Hi & Hd & _ & _ & -> & -> & ->). rewrite (I_cur _ _ IV j Hj), Hi. reflexivity.
      * destruct C as (Hi & Hd & _ & Hlt' & -> & -> & ->). apply (I_fut _ _ IV j _ Hj). lia.
    + intros j Hj. rewrite Vfin, Vt.
      destruct (release_cases i s s' t' j IV V Hj) as [C|[C|C]].
      * destruct C as (_ & -> & -> & _ & H). exact H.
      * destruct C as (_ & _ & _ & _ & _ & -> & _). discriminate.
      * destruct C as (_ & _ & _ & _ & _ & -> & _). discriminate.
    + intros j Hj. rewrite Vfin, Vt.
      destruct (release_cases i s s' t' j IV V Hj) as [C|[C|C]].
      * destruct C as (_ & -> & -> & -> & _). intros Hd. destruct (I_jd _ _ IV j Hj Hd) as (H1 & H2 & H3).
        repeat split; try assumption. lia.
      * destruct C as (_ & _ & Hf & He & -> & -> & _). intros _. repeat split; assumption.
      * destruct C as (_ & _ & _ & _ & _ & _ & ->). discriminate.
    + intros o Ho. rewrite Vsch. exact (I_pad _ _ IV o Ho).
    + intros o. rewrite Vsch. intros Hs.
      destruct (I_sch _ _ IV o Hs) as (m1 & Hm1 & Ha & Hu & Hpp & Hf & Hs1 & Hs2 & Hb).
      exists m1. rewrite Vasg, Vfin, Vst, Vbu, Vt. repeat split; try assumption; try lia.
    + intros o Ho. rewrite Vsch. intros Hs. destruct (I_uns _ _ IV o Ho Hs) as [H1 H2]. split.
      * intros m. rewrite Vasg. apply H1. * intros m. rewrite Vpc. apply H2.
    + intros j o1 o2. rewrite !Vsch, Vfin, Vst. apply (I_prec _ _ IV).
    + intros m o1 o2. rewrite !Vasg, !Vfin, !Vst. apply (I_excl _ _ IV).
    + intros m Hm. rewrite Vt, Vbu. intros Hb.
      destruct (I_busy _ _ IV m Hm) as (j & Hj & Hi & Ha & Hf); [lia|].
      exists j. split; [exact Hj|]. rewrite Vasg, Vfin.
      destruct (release_cases i s s' t' j IV V Hj) as [C|[C|C]].
      * destruct C as (_ & -> & -> & _ & _). repeat split; assumption.
      * destruct C as (_ & _ & Hle & _). lia.
      * destruct C as (_ & _ & Hle & _). lia.
  - lia.
  - unfold busy_count. rewrite Vt, (tv_bul _ _ _ _ V). apply filter_gt_shrinks; [lia|exact Hinf].
Qed.

(* ================================================================ the mask as a list *)
Lemma mask_has cfg i s a : a < 1 + nJ i * nM i -> maskb cfg i s a = true -> existsb (fun b => b) (mask cfg i s) = true.
Proof.
  intros Ha Hm. apply existsb_exists. exists true. split; [|reflexivity].
  unfold mask. apply in_map_iff. exists a. split; [exact Hm|]. apply in_seq. lia.
Qed.
Lemma mask_nth cfg i s a : a < 1 + nJ i * nM i -> nth a (mask cfg i s) false = maskb cfg i s a.
Proof. intros Ha. unfold mask. rewrite nth_map_seq. replace (a <? 1 + nJ i * nM i) with true by lia. reflexivity. Qed.

Lemma decode_pair M j m : m < M -> (j * M + m) / M = j /\ (j * M + m) mod M = m.
Proof.
  intros Hm. split.
  - symmetry. apply (Nat.div_unique (j * M + m) M j m); lia.
  - symmetry. apply (Nat.mod_unique (j * M + m) M j m); lia.
Qed.
Lemma pair_index_lt J M j m : j < J -> m < M -> j * M + m < J * M.
Proof. intros. nia. Qed.

Lemma filter_len_le {A} (f : A -> bool) l : length (filter f l) <= length l.
Proof. induction l as [|h t IH]; simpl; [lia|]. destruct (f h); simpl; lia. Qed.
Lemma busy_count_le i s : shape i s -> busy_count s <= nM i.
Proof. intros Sh. unfold busy_count. rewrite <- (sh_bu _ _ Sh). apply filter_len_le. Qed.

(* ================================================================ no dead end / no failed assert *)
(* when nothing is schedulable (and the row is not done) some job is being processed *)
Lemma step_complete_in_process cfg i s :
  wf i -> solvableb i = true -> Inv i s -> step_complete cfg i s = true -> exists j, j < nJ i /\ inp s j = true.
Proof.
  intros W Sv IV Hsc. unfold step_complete in Hsc. apply andb_prop in Hsc as [Hm Hd].
  apply negb_true_iff in Hm, Hd.
  destruct (existsb (fun j => inp s j) (seq 0 (nJ i))) eqn:Ei.
  { apply existsb_exists in Ei as [j [Hj Hi]]. apply in_seq in Hj. exists j. split; [lia|exact Hi]. }
  exfalso.
  assert (Hnone : forall j, j < nJ i -> inp s j = false).
  { intros j Hj. destruct (inp s j) eqn:E; [|reflexivity].
    assert (existsb (fun j => inp s j) (seq 0 (nJ i)) = true) by (apply existsb_exists; exists j; split; [apply in_seq; lia|exact E]).
    congruence. }
  assert (Hidle : forall m, m < nM i -> (bu s m <= time s)%Z).
  { intros m Hm'. destruct (Z.le_gt_cases (bu s m) (time s)) as [H|H]; [exact H|].
    destruct (I_busy _ _ IV m Hm') as (j & Hj & Hi & _); [lia|]. rewrite (Hnone j Hj) in Hi. discriminate. }
  (* some job is not done *)
  rewrite (I_done _ _ IV) in Hd.
  destruct (existsb (fun j => negb (jdone s j)) (seq 0 (nJ i))) eqn:En.
  - apply existsb_exists in En as [j [Hj Hnd]]. apply in_seq in Hj. assert (Hj' : j < nJ i) by lia.
    apply negb_true_iff in Hnd.
    pose proof (I_cur _ _ IV j Hj') as Hc. rewrite (Hnone j Hj'), Hnd in Hc. cbn in Hc.
    destruct (nxt_lt_total i s j W IV Hj') as [HoT HoN].
    unfold solvableb in Sv. rewrite forallb_forall in Sv.
    specialize (Sv (nxt s j) ltac:(apply in_seq; lia)). apply existsb_exists in Sv as [m [Hm' Hp]].
    apply in_seq in Hm'. assert (Hm'' : m < nM i) by lia.
    destruct (I_uns _ _ IV (nxt s j) HoN Hc) as [_ Hpc].
    assert (Hok : pair_ok s j m = true).
    { unfold pair_ok. rewrite Hnd, (Hnone j Hj'), Hpc. specialize (Hidle m Hm''). lia. }
    assert (Hmask : existsb (fun b => b) (mask cfg i s) = true).
    { apply (mask_has cfg i s (S (j * nM i + m))).
      - pose proof (pair_index_lt (nJ i) (nM i) j m Hj' Hm''). lia.
      - cbn [maskb]. destruct (decode_pair (nM i) j m Hm'') as [-> ->].
        pose proof (pair_index_lt (nJ i) (nM i) j m Hj' Hm''). replace (j * nM i + m <? nJ i * nM i) with true by lia.
        exact Hok. }
    congruence.
  - assert (forallb (fun b => b) (job_done s) = true); [|congruence].
    apply forallb_id_nth. intros j Hj. rewrite (sh_jd _ _ (I_shape _ _ IV)) in Hj.
    destruct (jdone s j) eqn:E; [exact E|].
    assert (existsb (fun j => negb (jdone s j)) (seq 0 (nJ i)) = true); [|congruence].
    apply existsb_exists. exists j. split; [apply in_seq; lia|]. rewrite E. reflexivity.
Qed.

(* the assert in _transit_to_next_time cannot fail while a job is in process *)
Lemma transit_some i s j : Inv i s -> j < nJ i -> inp s j = true -> exists s', transit i s = Some s'.
Proof.
  intros IV Hj Hi.
  assert (Hs : sched s (nxt s j) = true) by (rewrite (I_cur _ _ IV j Hj), Hi; reflexivity).
  destruct (I_sch _ _ IV _ Hs) as (m & Hm & _ & _ & _ & _ & _ & _ & Hb).
  pose proof (I_inp _ _ IV j Hj Hi) as Hlt.
  destruct (next_time_some s (bu s m)) as [t' Ht'].
  - unfold bu. apply nth_In. rewrite (sh_bu _ _ (I_shape _ _ IV)). exact Hm.
  - lia.
  - unfold transit. rewrite Ht'. eexists. reflexivity.
Qed.

(* the while loop: at most [busy_count] transits; fuel = number of machines suffices *)
Lemma advance_ok cfg i : wf i -> solvableb i = true -> forall fuel s, Inv i s -> busy_count s <= fuel ->
  exists s', advance cfg i fuel s = Some s' /\ Inv i s' /\ step_complete cfg i s' = false /\ (time s <= time s')%Z.
Proof.
  intros W Sv. induction fuel as [|f IH]; intros s IV Hb.
  - cbn [advance]. destruct (step_complete cfg i s) eqn:E.
    + exfalso. destruct (step_complete_in_process cfg i s W Sv IV E) as (j & Hj & Hi).
      destruct (transit_some i s j IV Hj Hi) as [s1 H1].
      destruct (transit_inv i s s1 W IV H1) as (_ & _ & Hc). lia.
    + exists s. split; [reflexivity|]. split; [exact IV|]. split; [exact E|lia].
  - cbn [advance]. destruct (step_complete cfg i s) eqn:E.
    + destruct (step_complete_in_process cfg i s W Sv IV E) as (j & Hj & Hi).
      destruct (transit_some i s j IV Hj Hi) as [s1 H1]. rewrite H1.
      destruct (transit_inv i s s1 W IV H1) as (IV1 & Ht & Hc).
      destruct (IH s1 IV1 ltac:(lia)) as (s' & Ha & IV' & Hsc & Ht').
      exists s'. split; [exact Ha|]. split; [exact IV'|]. split; [exact Hsc|lia].
    + exists s. split; [reflexivity|]. split; [exact IV|]. split; [exact E|lia].
Qed.

(* ================================================================ one step *)
Lemma step_ok cfg i s a : wf i -> solvableb i = true -> Inv i s -> maskb cfg i s a = true ->
  exists s', step cfg i s a = Some s' /\ Inv i s' /\ step_complete cfg i s' = false /\ (time s <= time s')%Z.
Proof.
  intros W Sv IV Hm. unfold step. destruct (done s) eqn:Ed.
  - exists s. split; [reflexivity|]. split; [exact IV|]. split; [|lia]. unfold step_complete. rewrite Ed. apply andb_false_r.
  - destruct a as [|k].
    + cbn [maskb] in Hm. unfold noop_ok in Hm. rewrite Ed in Hm. destruct cfg; [discriminate|].
      rewrite orb_false_r, andb_true_r in Hm. apply existsb_id_nth in Hm as [j [Hj Hi]].
      rewrite (sh_inp _ _ (I_shape _ _ IV)) in Hj.
      destruct (transit_some i s j IV Hj Hi) as [s1 H1]. rewrite H1.
      destruct (transit_inv i s s1 W IV H1) as (IV1 & Ht & Hc).
      pose proof (busy_count_le i s (I_shape _ _ IV)).
      destruct (advance_ok false i W Sv (nM i) s1 IV1 ltac:(lia)) as (s' & Ha & IV' & Hsc & Ht').
      exists s'. split; [exact Ha|]. split; [exact IV'|]. split; [exact Hsc|lia].
    + cbn [maskb] in Hm. apply andb_prop in Hm as [Hk Hok]. apply Nat.ltb_lt in Hk.
      pose proof (wf_M _ W) as HM.
      assert (Hj : k / nM i < nJ i) by (apply Nat.div_lt_upper_bound; lia).
      assert (Hm' : k mod nM i < nM i) by (apply Nat.mod_upper_bound; lia).
      destruct (make_step_some i s _ _ W IV Hj Hm' Hok) as [s1 H1]. rewrite H1.
      pose proof (make_step_inv i s _ _ s1 W IV Hok H1) as IV1.
      pose proof (busy_count_le i s1 (I_shape _ _ IV1)).
      destruct (advance_ok cfg i W Sv (nM i) s1 IV1 ltac:(lia)) as (s' & Ha & IV' & Hsc & Ht').
      exists s'. split; [exact Ha|]. split; [exact IV'|]. split; [exact Hsc|].
      rewrite (mv_time _ _ _ _ _ (make_step_view i s _ _ s1 (I_shape _ _ IV) H1)) in Ht'. exact Ht'.
Qed.

(* ================================================================ whole episodes *)
Lemma run_ok cfg i : wf i -> solvableb i = true -> forall acts s, Inv i s -> admb cfg i s acts = true ->
  exists s', run cfg i s acts = Some s' /\ Inv i s' /\ (time s <= time s')%Z.
Proof.
  intros W Sv. induction acts as [|a r IH]; intros s IV Ha.
  - exists s. split; [reflexivity|]. split; [exact IV|lia].
  - cbn [admb] in Ha. apply andb_prop in Ha as [Hm Ha].
    destruct (step_ok cfg i s a W Sv IV Hm) as (s1 & H1 & IV1 & _ & Ht). cbn [run]. rewrite H1 in *.
    destruct (IH s1 IV1 Ha) as (s' & Hr & IV' & Ht'). exists s'. split; [exact Hr|]. split; [exact IV'|lia].
Qed.

(* ================================================================ the observable schedule as a list of intervals *)
Definition mk_e (stl finl : list Z) (m o : nat) : entry :=
  {| e_op := o; e_ma := m; e_start := nth o stl 0%Z; e_end := nth o finl 0%Z |}.

Lemma in_entries stl finl asgm e :
  In e (entries_of_arrays stl finl asgm) <->
  exists m o, nth o (nth m asgm []) false = true /\ e = mk_e stl finl m o.
Proof.
  unfold entries_of_arrays. rewrite in_flat_map. split.
  - intros [m [_ H]]. apply in_flat_map in H as [o [_ H]].
    destruct (nth o (nth m asgm []) false) eqn:E; [|destruct H].
    destruct H as [<-|[]]. exists m, o. split; [exact E|reflexivity].
  - intros (m & o & Ha & ->).
    assert (Hm : m < length asgm).
    { destruct (Nat.lt_ge_cases m (length asgm)) as [H|H]; [exact H|].
      rewrite (nth_overflow asgm) in Ha by exact H. destruct o; discriminate. }
    assert (Ho : o < length (nth m asgm [])).
    { destruct (Nat.lt_ge_cases o (length (nth m asgm []))) as [H|H]; [exact H|].
      rewrite nth_overflow in Ha by exact H. discriminate. }
    exists m. split; [apply in_seq; lia|]. apply in_flat_map. exists o. split; [apply in_seq; lia|].
    rewrite Ha. left. reflexivity.
Qed.

Lemma filter_flat_map {A B} (p : B -> bool) (f : A -> list B) l :
  filter p (flat_map f l) = flat_map (fun x => filter p (f x)) l.
Proof. induction l as [|h t IH]; simpl; [reflexivity|]. rewrite filter_app, IH. reflexivity. Qed.

Lemma filter_nil {A} (c : A -> bool) l : (forall x, In x l -> c x = false) -> filter c l = [].
Proof.
  induction l as [|h t IH]; intros H; simpl; [reflexivity|].
  rewrite (H h (or_introl eq_refl)). apply IH. intros x Hx. apply H. right. exact Hx.
Qed.

(* the intervals of operation o0 among those generated for one machine row *)
Lemma filter_row (g : nat -> list entry) o0 :
  (forall o e, In e (g o) -> e_op e = o) ->
  forall n a, filter (fun e => e_op e =? o0) (flat_map g (seq a n)) = if (a <=? o0) && (o0 <? a + n) then g o0 else [].
Proof.
  intros Hg. induction n as [|n IH]; intros a; cbn [seq flat_map].
  - replace ((a <=? o0) && (o0 <? a + 0)) with false by lia. reflexivity.
  - rewrite filter_app, IH. destruct (Nat.eq_dec a o0) as [->|Hne].
    + replace ((o0 <=? o0) && (o0 <? o0 + S n)) with true by lia.
      replace ((S o0 <=? o0) && (o0 <? S o0 + n)) with false by lia. rewrite app_nil_r.
      clear IH. induction (g o0) as [|e r IHr] eqn:Eg in Hg |- *; [reflexivity|].
      assert (He : forall x, In x (e :: r) -> e_op x = o0) by (intros x Hx; apply (Hg o0); rewrite Eg; exact Hx).
      clear Eg Hg. revert He. generalize (e :: r). intros l. induction l as [|x l IHl]; intros He; [reflexivity|].
      simpl. rewrite (He x (or_introl eq_refl)), Nat.eqb_refl. f_equal. apply IHl. intros y Hy. apply He. right. exact Hy.
    + rewrite filter_nil.
      * cbn [app]. replace ((a <=? o0) && (o0 <? a + S n)) with ((S a <=? o0) && (o0 <? S a + n)) by lia. reflexivity.
      * intros x Hx. rewrite (Hg a x Hx). lia.
Qed.

Lemma length_flat_map_if {B} (c : nat -> bool) (h : nat -> B) l :
  length (flat_map (fun m => if c m then [h m] else []) l) = length (filter c l).
Proof. induction l as [|x t IH]; simpl; [reflexivity|]. destruct (c x); simpl; rewrite IH; reflexivity. Qed.

Lemma occ_entries stl finl asgm o0 :
  occ (entries_of_arrays stl finl asgm) o0 =
  length (filter (fun m => nth o0 (nth m asgm []) false) (seq 0 (length asgm))).
Proof.
  unfold occ, entries_of_arrays. rewrite filter_flat_map.
  rewrite <- (length_flat_map_if (fun m => nth o0 (nth m asgm []) false) (fun m => mk_e stl finl m o0)).
  f_equal. apply flat_map_ext. intros m.
  rewrite (filter_row (fun o => if nth o (nth m asgm []) false then [mk_e stl finl m o] else []) o0).
  - cbn [Nat.leb Nat.add andb]. destruct (o0 <? length (nth m asgm [])) eqn:E; [reflexivity|].
    rewrite nth_overflow by lia. reflexivity.
  - intros o e. destruct (nth o (nth m asgm []) false); [|intros []]. intros [<-|[]]. reflexivity.
Qed.

Lemma filter_seq_unique (c : nat -> bool) n m0 :
  m0 < n -> c m0 = true -> (forall m, m < n -> c m = true -> m = m0) -> length (filter c (seq 0 n)) = 1.
Proof.
  intros Hlt Hc Hu. replace n with (m0 + S (n - m0 - 1)) by lia.
  rewrite seq_app. cbn [seq Nat.add]. rewrite filter_app. cbn [filter]. rewrite Hc.
  rewrite !filter_nil.
  - reflexivity.
  - intros x Hx. apply in_seq in Hx. destruct (c x) eqn:E; [|reflexivity]. specialize (Hu x ltac:(lia) E). lia.
  - intros x Hx. apply in_seq in Hx. destruct (c x) eqn:E; [|reflexivity]. specialize (Hu x ltac:(lia) E). lia.
Qed.

(* the real operations of the specification's view of the instance *)
Lemma real_ops_iff i o : wf i -> In o (real_ops (sinst_of i)) <-> o < total_ops i.
Proof.
  intros W. unfold real_ops, sinst_of. cbn [si_jobs]. rewrite in_concat. split.
  - intros [l [Hl Ho]]. apply in_map_iff in Hl as [j [<- Hj]]. apply in_seq in Hj. apply in_seq in Ho.
    pose proof (wf_eT _ W j ltac:(lia)). pose proof (wf_se _ W j ltac:(lia)). lia.
  - intros Ho. destruct (wf_cover _ W o Ho) as [j [Hj Hr]].
    exists (seq (sj i j) (S (ej i j) - sj i j)). split.
    + apply in_map_iff. exists j. split; [reflexivity|apply in_seq; lia].
    + apply in_seq. lia.
Qed.

(* ================================================================ done => valid schedule with the reported makespan *)
Lemma all_real_scheduled i s o : wf i -> Inv i s -> done s = true -> o < total_ops i -> sched s o = true.
Proof.
  intros W IV Hd Ho. rewrite (I_done _ _ IV) in Hd.
  destruct (wf_cover _ W o Ho) as [j [Hj Hr]].
  assert (Hjd : jdone s j = true).
  { apply (proj1 (forallb_id_nth (job_done s)) Hd). rewrite (sh_jd _ _ (I_shape _ _ IV)). exact Hj. }
  destruct (I_jd _ _ IV j Hj Hjd) as (_ & He & _).
  destruct (Nat.eq_dec o (nxt s j)) as [->|Hne].
  - rewrite (I_cur _ _ IV j Hj), Hjd. apply orb_true_r.
  - apply (I_past _ _ IV j o Hj). lia.
Qed.

Lemma sched_real i s o : Inv i s -> sched s o = true -> o < total_ops i.
Proof.
  intros IV Hs. destruct (Nat.lt_ge_cases o (total_ops i)) as [H|H]; [exact H|].
  rewrite (I_pad _ _ IV o H) in Hs. discriminate.
Qed.

Theorem done_valid i s : wf i -> Inv i s -> done s = true ->
  exists mk, reward i s = Some (- mk)%Z /\ valid_schedule (sinst_of i) (schedule_of s) mk.
Proof.
  intros W IV Hd.
  assert (Hent : forall e, In e (schedule_of s) <->
            exists m o, asg s m o = true /\ e = mk_e (start_times s) (finish_times s) m o) by (intros e; apply in_entries).
  (* the reward *)
  assert (H0 : 0 < total_ops i) by (unfold total_ops; lia).
  pose proof (wf_TN _ W) as HTN.
  assert (Hne : unpadded_finish i s <> []).
  { unfold unpadded_finish. intros E. apply map_eq_nil in E.
    assert (Hin : In 0 (filter (fun o => negb (padv i o)) (seq 0 (nN i)))).
    { apply filter_In. split; [apply in_seq; lia|]. rewrite (wf_pad _ W 0) by lia. replace (total_ops i <=? 0) with false by lia. reflexivity. }
    rewrite E in Hin. destruct Hin. }
  destruct (zmax_opt_some _ Hne) as [mk Hmk].
  exists mk. split; [unfold reward; rewrite Hmk; reflexivity|].
  destruct (zmax_opt_spec _ _ Hmk) as [Hmk_in Hmk_ge].
  assert (Hfin_in : forall o, o < total_ops i -> In (fin s o) (unpadded_finish i s)).
  { intros o Ho. unfold unpadded_finish. apply in_map. apply filter_In. split; [apply in_seq; lia|].
    rewrite (wf_pad _ W o) by lia. replace (total_ops i <=? o) with false by lia. reflexivity. }
  split; [|split; [|split; [|split]]].
  - (* exactly once *)
    intros o Ho. apply (real_ops_iff i o W) in Ho.
    pose proof (all_real_scheduled i s o W IV Hd Ho) as Hs.
    destruct (I_sch _ _ IV o Hs) as (m & Hm & Ha & Hu & _).
    unfold schedule_of. rewrite occ_entries. rewrite (sh_asg _ _ (I_shape _ _ IV)).
    apply (filter_seq_unique (fun m' => nth o (nth m' (ma_assignment s) []) false) (nM i) m Hm Ha).
    intros m' _ H. apply Hu. exact H.
  - (* every interval is a real operation on an eligible machine for its exact duration *)
    intros e He. apply Hent in He as (m & o & Ha & ->).
    pose proof (asg_sched i s m o IV Ha) as Hs.
    destruct (I_sch _ _ IV o Hs) as (m1 & Hm1 & _ & Hu & Hpp & Hf & Hs0 & _).
    rewrite (Hu m Ha) in *. unfold entry_ok, mk_e. cbn [e_op e_ma e_start e_end sinst_of si_nma si_proc].
    fold (stt s o) (fin s o). split; [apply (real_ops_iff i o W); exact (sched_real i s o IV Hs)|].
    repeat split; try assumption; lia.
  - (* job precedence *)
    intros l Hl a b Hab ea eb Hea Heb Ha Hb.
    unfold sinst_of in Hl. cbn [si_jobs] in Hl. apply in_map_iff in Hl as [j [<- Hj]]. apply in_seq in Hj.
    apply ordered_pairs_seq in Hab. pose proof (wf_se _ W j ltac:(lia)).
    apply Hent in Hea as (ma & oa & Haa & ->). apply Hent in Heb as (mb & ob & Hab' & ->).
    cbn [mk_e e_op e_start e_end] in *. subst oa ob. fold (fin s a) (stt s b).
    apply (I_prec _ _ IV j a b); try lia.
    + exact (asg_sched i s ma a IV Haa). + exact (asg_sched i s mb b IV Hab').
  - (* machine exclusivity *)
    intros e1 e2 H1 H2 Hm Ho.
    apply Hent in H1 as (m1 & o1 & Ha1 & ->). apply Hent in H2 as (m2 & o2 & Ha2 & ->).
    cbn [mk_e e_op e_ma e_start e_end] in *. subst m2. fold (fin s o1) (stt s o1) (fin s o2) (stt s o2).
    apply (I_excl _ _ IV m1 o1 o2); assumption.
  - (* makespan = latest completion *)
    split.
    + intros e He. apply Hent in He as (m & o & Ha & ->). cbn [mk_e e_end]. fold (fin s o).
      apply Hmk_ge. apply Hfin_in. apply (sched_real i s o IV). exact (asg_sched i s m o IV Ha).
    + unfold unpadded_finish in Hmk_in. apply in_map_iff in Hmk_in as [o [Ho Hin]].
      apply filter_In in Hin as [Hin Hp]. apply in_seq in Hin.
      rewrite (wf_pad _ W o) in Hp by lia.
      assert (HoT : o < total_ops i) by lia.
      pose proof (all_real_scheduled i s o W IV Hd HoT) as Hs.
      destruct (I_sch _ _ IV o Hs) as (m & _ & Ha & _).
      exists (mk_e (start_times s) (finish_times s) m o). split.
      * apply Hent. exists m, o. split; [exact Ha|reflexivity].
      * cbn [mk_e e_end]. exact Ho.
Qed.

(* ================================================================ reachable states *)
(* what holds of every state a mask-confined episode can be in: the invariant, and the while loop has run to its end *)
Definition Reach (cfg : bool) (i : inst) (s : st) : Prop := Inv i s /\ step_complete cfg i s = false.

Lemma reset_reach cfg i : wf i -> solvableb i = true -> Reach cfg i (reset i).
Proof.
  intros W Sv. split; [apply reset_inv; exact W|].
  destruct (step_complete cfg i (reset i)) eqn:E; [|reflexivity]. exfalso.
  destruct (step_complete_in_process cfg i (reset i) W Sv (reset_inv i W) E) as (j & Hj & Hi).
  unfold inp in Hi. cbn [reset job_in_process] in Hi. rewrite nth_repeat_any in Hi. discriminate.
Qed.

Lemma step_reach cfg i s a : wf i -> solvableb i = true -> Reach cfg i s -> maskb cfg i s a = true ->
  exists s', step cfg i s a = Some s' /\ Reach cfg i s' /\ (time s <= time s')%Z.
Proof.
  intros W Sv [IV _] Hm. destruct (step_ok cfg i s a W Sv IV Hm) as (s' & H1 & IV' & Hsc & Ht).
  exists s'. split; [exact H1|]. split; [split; assumption|exact Ht].
Qed.

Lemma run_reach cfg i : wf i -> solvableb i = true -> forall acts s, Reach cfg i s -> admb cfg i s acts = true ->
  exists s', run cfg i s acts = Some s' /\ Reach cfg i s' /\ (time s <= time s')%Z.
Proof.
  intros W Sv. induction acts as [|a r IH]; intros s R Ha.
  - exists s. split; [reflexivity|]. split; [exact R|lia].
  - cbn [admb] in Ha. apply andb_prop in Ha as [Hm Ha].
    destruct (step_reach cfg i s a W Sv R Hm) as (s1 & H1 & R1 & Ht). cbn [run]. rewrite H1 in *.
    destruct (IH s1 R1 Ha) as (s' & Hr & R' & Ht'). exists s'. split; [exact Hr|]. split; [exact R'|lia].
Qed.

Lemma run_app cfg i a b : forall s, run cfg i s (a ++ b) = match run cfg i s a with Some s1 => run cfg i s1 b | None => None end.
Proof. induction a as [|x a IH]; intros s; cbn [app run]; [reflexivity|]. destruct (step cfg i s x); [apply IH|reflexivity]. Qed.
Lemma admb_app cfg i a b : forall s s1, run cfg i s a = Some s1 ->
  admb cfg i s (a ++ b) = admb cfg i s a && admb cfg i s1 b.
Proof.
  induction a as [|x a IH]; intros s s1 H; cbn [app run admb] in *.
  - inversion H; subst. reflexivity.
  - destruct (step cfg i s x) as [s2|]; [|discriminate]. rewrite (IH s2 s1 H). apply andb_assoc.
Qed.

(* ================================================================ C07 theorems, FJSP *)
Theorem FJSP_valid cfg i acts :
  wfb i = true -> solvableb i = true -> admb cfg i (reset i) acts = true ->
  exists s, run cfg i (reset i) acts = Some s /\
    (done s = true -> exists mk, reward i s = Some (- mk)%Z /\ valid_schedule (sinst_of i) (schedule_of s) mk).
Proof.
  intros Hw Sv Ha. pose proof (wfb_wf i Hw) as W.
  destruct (run_reach cfg i W Sv acts (reset i) (reset_reach cfg i W Sv) Ha) as (s & Hr & [IV _] & _).
  exists s. split; [exact Hr|]. intros Hd. exact (done_valid i s W IV Hd).
Qed.

(* no failed assert, no index out of range, and num_machines transits of fuel are enough for the while loop *)
Theorem FJSP_no_crash cfg i acts :
  wfb i = true -> solvableb i = true -> admb cfg i (reset i) acts = true -> run cfg i (reset i) acts <> None.
Proof. intros Hw Sv Ha. destruct (FJSP_valid cfg i acts Hw Sv Ha) as (s & Hr & _). congruence. Qed.

(* C02: the mask of every reachable state (finished rows included) offers an action *)
Theorem FJSP_no_dead_end cfg i acts s :
  wfb i = true -> solvableb i = true -> admb cfg i (reset i) acts = true -> run cfg i (reset i) acts = Some s ->
  existsb (fun b => b) (mask cfg i s) = true.
Proof.
  intros Hw Sv Ha Hr. pose proof (wfb_wf i Hw) as W.
  destruct (run_reach cfg i W Sv acts (reset i) (reset_reach cfg i W Sv) Ha) as (s' & Hr' & [IV Hsc] & _).
  rewrite Hr in Hr'. inversion Hr'; subst s'. unfold step_complete in Hsc.
  destruct (existsb (fun b => b) (mask cfg i s)) eqn:E; [reflexivity|]. cbn [negb andb] in Hsc.
  apply negb_false_iff in Hsc.
  assert (Hm : maskb cfg i s 0 = true) by (cbn [maskb]; unfold noop_ok; rewrite Hsc; destruct cfg; [reflexivity|apply orb_true_r]).
  rewrite (mask_has cfg i s 0 ltac:(lia) Hm) in E. discriminate.
Qed.

(* finished stays finished and nothing changes any more (padding steps are inert) *)
Theorem FJSP_done_stable cfg i s a : done s = true -> step cfg i s a = Some s.
Proof. intros Hd. unfold step. rewrite Hd. reflexivity. Qed.

(* time never runs backwards along an episode *)
Theorem FJSP_time_monotone cfg i acts more s s' :
  wfb i = true -> solvableb i = true -> admb cfg i (reset i) (acts ++ more) = true ->
  run cfg i (reset i) acts = Some s -> run cfg i (reset i) (acts ++ more) = Some s' -> (0 <= time s <= time s')%Z.
Proof.
  intros Hw Sv Ha Hr Hr'. pose proof (wfb_wf i Hw) as W.
  rewrite (admb_app cfg i acts more (reset i) s Hr) in Ha. apply andb_prop in Ha as [Ha1 Ha2].
  destruct (run_reach cfg i W Sv acts (reset i) (reset_reach cfg i W Sv) Ha1) as (s1 & Hr1 & R1 & Ht1).
  rewrite Hr in Hr1. inversion Hr1; subst s1.
  rewrite run_app, Hr in Hr'.
  destruct (run_reach cfg i W Sv more s R1 Ha2) as (s2 & Hr2 & _ & Ht2). rewrite Hr' in Hr2. inversion Hr2; subst s2.
  cbn [reset time] in Ht1. lia.
Qed.

(* ================================================================ the invariants the statement names, as corollaries *)
(* a machine is idle in the model iff no scheduled operation covers [time] on it *)
Lemma machine_idle_iff i s m : Inv i s -> m < nM i ->
  ((bu s m <= time s)%Z <-> ~ exists o, asg s m o = true /\ (stt s o <= time s < fin s o)%Z).
Proof.
  intros IV Hm. split.
  - intros Hb (o & Ha & Hc). pose proof (asg_sched i s m o IV Ha) as Hs.
    destruct (I_sch _ _ IV o Hs) as (m1 & _ & _ & Hu & _ & _ & _ & _ & Hb1). rewrite (Hu m Ha) in *. lia.
  - intros Hn. destruct (Z.le_gt_cases (bu s m) (time s)) as [H|H]; [exact H|]. exfalso. apply Hn.
    destruct (I_busy _ _ IV m Hm) as (j & Hj & Hi & Ha & Hf); [lia|]. exists (nxt s j). split; [exact Ha|].
    pose proof (asg_sched i s m _ IV Ha) as Hs. destruct (I_sch _ _ IV _ Hs) as (m1 & _ & _ & _ & _ & _ & _ & Hst & _). lia.
Qed.
(* a job whose current operation is scheduled is released (not in process) iff that operation has finished *)
Lemma job_released_iff i s j : Inv i s -> j < nJ i -> sched s (nxt s j) = true ->
  (inp s j = false <-> (fin s (nxt s j) <= time s)%Z).
Proof.
  intros IV Hj Hs. rewrite (I_cur _ _ IV j Hj) in Hs. split.
  - intros Hi. rewrite Hi in Hs. cbn in Hs. apply (I_jd _ _ IV j Hj Hs).
  - intros Hf. destruct (inp s j) eqn:E; [|reflexivity]. pose proof (I_inp _ _ IV j Hj E). lia.
Qed.

(* the release phase of _transit_to_next_time is applied to ALL batch rows, also those whose time does not move;
   on reachable states it changes nothing (this is why the per-row model is the batched code) *)
Lemma map_nth_seq_id {A} (l : list A) d n : length l = n -> map (fun j => nth j l d) (seq 0 n) = l.
Proof.
  intros <-. apply (nth_ext _ _ d d).
  - rewrite map_length, seq_length. reflexivity.
  - intros k Hk. rewrite map_length, seq_length in Hk. rewrite nth_map_seq. replace (k <? length l) with true by lia. reflexivity.
Qed.
Theorem FJSP_release_inert i s : Inv i s -> release i s = s.
Proof.
  intros IV. pose proof (I_shape _ _ IV) as Sh.
  assert (Hopf : forall j, j < nJ i -> op_finished s j = false).
  { intros j Hj. unfold op_finished. destruct (inp s j) eqn:E; [|reflexivity]. pose proof (I_inp _ _ IV j Hj E). cbn. lia. }
  assert (Hjd : map (fun j => jdone s j || job_finished i s j) (seq 0 (nJ i)) = job_done s).
  { etransitivity; [|apply (map_nth_seq_id (job_done s) false (nJ i) (sh_jd _ _ Sh))]. apply map_ext_in.
    intros j Hj. apply in_seq in Hj. unfold job_finished. rewrite (Hopf j ltac:(lia)). cbn. apply orb_false_r. }
  unfold release. rewrite Hjd. rewrite <- (I_done _ _ IV).
  replace (map (fun j => if op_finished s j && negb (job_finished i s j) then S (nxt s j) else nxt s j) (seq 0 (nJ i))) with (next_op s).
  2:{ etransitivity; [symmetry; apply (map_nth_seq_id (next_op s) 0 (nJ i) (sh_nxt _ _ Sh))|]. apply map_ext_in.
      intros j Hj. apply in_seq in Hj. rewrite (Hopf j ltac:(lia)). reflexivity. }
  replace (map (fun j => if op_finished s j then false else inp s j) (seq 0 (nJ i))) with (job_in_process s).
  2:{ etransitivity; [symmetry; apply (map_nth_seq_id (job_in_process s) false (nJ i) (sh_inp _ _ Sh))|]. apply map_ext_in.
      intros j Hj. apply in_seq in Hj. rewrite (Hopf j ltac:(lia)). reflexivity. }
  destruct s; reflexivity.
Qed.

(* ================================================================ JSSPEnv: the subclass, via the instance embedding *)
Lemma jssp_wfb_solvable i : jssp_wfb i = true -> solvableb i = true.
Proof.
  unfold jssp_wfb, solvableb. rewrite !forallb_forall. intros H o Ho. specialize (H o Ho). apply Nat.eqb_eq in H.
  destruct (filter (fun m => (0 <? P i m o)%Z) (seq 0 (nM i))) as [|m r] eqn:E; [discriminate|].
  assert (Hin : In m (m :: r)) by (left; reflexivity). rewrite <- E in Hin. apply filter_In in Hin as [H1 H2].
  apply existsb_exists. exists m. split; assumption.
Qed.

(* an available (job, machine) pair names a machine with positive current processing time for the job's next op *)
Lemma pair_ok_pc_pos i s j m : wf i -> Inv i s -> j < nJ i -> pair_ok s j m = true -> (0 < pc s m (nxt s j))%Z.
Proof.
  intros W IV Hj Hok. destruct (pair_ok_facts s j m Hok) as (Hd & Hi & _ & Hne).
  assert (Hs : sched s (nxt s j) = false) by (rewrite (I_cur _ _ IV j Hj), Hi, Hd; reflexivity).
  destruct (nxt_lt_total i s j W IV Hj) as [_ HoN].
  destruct (I_uns _ _ IV _ HoN Hs) as [_ Hpc]. rewrite Hpc in *. pose proof (wf_nonneg _ W m (nxt s j)). lia.
Qed.

(* every mask-allowed JSSP step IS a mask-allowed FJSP step (action translation job -> 1 + job*M + its machine) *)
Lemma jssp_step_embed cfg i s a s' : wf i -> Inv i s ->
  jssp_maskb cfg i s a = true -> jssp_step cfg i s a = Some s' ->
  exists a', maskb cfg i s a' = true /\ step cfg i s a' = Some s'.
Proof.
  intros W IV Hm Hs. unfold jssp_step in Hs. destruct (done s) eqn:Ed.
  - inversion Hs; subst s'. exists 0. split.
    + cbn [maskb]. unfold noop_ok. rewrite Ed. destruct cfg; [reflexivity|apply orb_true_r].
    + unfold step. rewrite Ed. reflexivity.
  - destruct a as [|j].
    + exists 0. split; [exact Hm|exact Hs].
    + destruct (j <? nJ i) eqn:Ej; [|discriminate]. apply Nat.ltb_lt in Ej.
      unfold jssp_translate in Hs.
      destruct (filter (fun m => (0 <? pc s m (nxt s j))%Z) (seq 0 (nM i))) as [|m [|m2 r]] eqn:Ef; try discriminate.
      cbn [jssp_maskb] in Hm. apply andb_prop in Hm as [_ Hex]. apply existsb_exists in Hex as [m' [Hm' Hok]].
      assert (Hin : In m' [m]).
      { rewrite <- Ef. apply filter_In. split; [exact Hm'|]. pose proof (pair_ok_pc_pos i s j m' W IV Ej Hok). lia. }
      destruct Hin as [<-|[]]. apply in_seq in Hm'. assert (HmM : m < nM i) by lia.
      exists (S (j * nM i + m)). split; [|exact Hs].
      cbn [maskb]. destruct (decode_pair (nM i) j m HmM) as [-> ->].
      pose proof (pair_index_lt (nJ i) (nM i) j m Ej HmM). replace (j * nM i + m <? nJ i * nM i) with true by lia. exact Hok.
Qed.

(* on a JSSP instance the translation always finds its machine: no crash *)
Lemma jssp_step_reach cfg i s a : wf i -> jssp_wfb i = true -> Reach cfg i s -> jssp_maskb cfg i s a = true ->
  exists s', jssp_step cfg i s a = Some s' /\ Reach cfg i s' /\ (time s <= time s')%Z.
Proof.
  intros W Jw R Hm. pose proof (jssp_wfb_solvable i Jw) as Sv. pose proof (proj1 R) as IV.
  assert (Hex : exists s', jssp_step cfg i s a = Some s').
  { unfold jssp_step. destruct (done s) eqn:Ed; [eexists; reflexivity|]. destruct a as [|j].
    - assert (Hm0 : maskb cfg i s 0 = true) by exact Hm.
      destruct (step_reach cfg i s 0 W Sv R Hm0) as (s' & H & _). exists s'. exact H.
    - cbn [jssp_maskb] in Hm. apply andb_prop in Hm as [Ej Hex]. rewrite Ej. apply Nat.ltb_lt in Ej.
      apply existsb_exists in Hex as [m' [Hm' Hok]]. apply in_seq in Hm'.
      destruct (pair_ok_facts s j m' Hok) as (Hd & Hi & _ & _).
      assert (Hs : sched s (nxt s j) = false) by (rewrite (I_cur _ _ IV j Ej), Hi, Hd; reflexivity).
      destruct (nxt_lt_total i s j W IV Ej) as [HoT HoN].
      destruct (I_uns _ _ IV _ HoN Hs) as [_ Hpc].
      unfold jssp_translate.
      rewrite (filter_ext (fun m => (0 <? pc s m (nxt s j))%Z) (fun m => (0 <? P i m (nxt s j))%Z)) by (intros m; rewrite Hpc; reflexivity).
      unfold jssp_wfb in Jw. rewrite forallb_forall in Jw. specialize (Jw (nxt s j) ltac:(apply in_seq; lia)).
      apply Nat.eqb_eq in Jw.
      destruct (filter (fun m => (0 <? P i m (nxt s j))%Z) (seq 0 (nM i))) as [|m [|m2 r]] eqn:Ef; try discriminate.
      assert (Hin : In m' [m]).
      { rewrite <- Ef. apply filter_In. split; [apply in_seq; lia|]. pose proof (pair_ok_pc_pos i s j m' W IV Ej Hok). rewrite Hpc in *. lia. }
      destruct Hin as [<-|[]].
      assert (Hmk : maskb cfg i s (S (j * nM i + m)) = true).
      { cbn [maskb]. destruct (decode_pair (nM i) j m ltac:(lia)) as [-> ->].
        pose proof (pair_index_lt (nJ i) (nM i) j m Ej ltac:(lia)). replace (j * nM i + m <? nJ i * nM i) with true by lia. exact Hok. }
      destruct (step_reach cfg i s _ W Sv R Hmk) as (s' & H & _). exists s'. exact H. }
  destruct Hex as [s' Hs]. exists s'. split; [exact Hs|].
  destruct (jssp_step_embed cfg i s a s' W IV Hm Hs) as (a' & Hm' & Hs').
  destruct (step_reach cfg i s a' W Sv R Hm') as (s2 & H2 & R2 & Ht). rewrite Hs' in H2. inversion H2; subst s2.
  split; assumption.
Qed.

Lemma jssp_run_reach cfg i : wf i -> jssp_wfb i = true -> forall acts s, Reach cfg i s -> jssp_admb cfg i s acts = true ->
  exists s', jssp_run cfg i s acts = Some s' /\ Reach cfg i s' /\ (time s <= time s')%Z /\
    (* the same episode in FJSP actions *)
    exists acts', length acts' = length acts /\ admb cfg i s acts' = true /\ run cfg i s acts' = Some s'.
Proof.
  intros W Jw. induction acts as [|a r IH]; intros s R Ha.
  - exists s. split; [reflexivity|]. split; [exact R|]. split; [lia|]. exists []. repeat split.
  - cbn [jssp_admb] in Ha. apply andb_prop in Ha as [Hm Ha].
    destruct (jssp_step_reach cfg i s a W Jw R Hm) as (s1 & H1 & R1 & Ht). cbn [jssp_run]. rewrite H1 in *.
    destruct (jssp_step_embed cfg i s a s1 W (proj1 R) Hm H1) as (a' & Hm' & Hs').
    destruct (IH s1 R1 Ha) as (s' & Hr & R' & Ht' & acts' & Hl & Ha' & Hr').
    exists s'. split; [exact Hr|]. split; [exact R'|]. split; [lia|].
    exists (a' :: acts'). split; [cbn; lia|]. cbn [admb run]. rewrite Hm', Hs'. split; [exact Ha'|exact Hr'].
Qed.

Theorem JSSP_embedding cfg i acts :
  wfb i = true -> jssp_wfb i = true -> jssp_admb cfg i (reset i) acts = true ->
  exists s acts', jssp_run cfg i (reset i) acts = Some s /\ length acts' = length acts /\
    admb cfg i (reset i) acts' = true /\ run cfg i (reset i) acts' = Some s.
Proof.
  intros Hw Jw Ha. pose proof (wfb_wf i Hw) as W. pose proof (jssp_wfb_solvable i Jw) as Sv.
  destruct (jssp_run_reach cfg i W Jw acts (reset i) (reset_reach cfg i W Sv) Ha) as (s & Hr & _ & _ & acts' & Hl & Ha' & Hr').
  exists s, acts'. repeat split; assumption.
Qed.

Theorem JSSP_valid cfg i acts :
  wfb i = true -> jssp_wfb i = true -> jssp_admb cfg i (reset i) acts = true ->
  exists s, jssp_run cfg i (reset i) acts = Some s /\
    (done s = true -> exists mk, reward i s = Some (- mk)%Z /\ valid_schedule (sinst_of i) (schedule_of s) mk).
Proof.
  intros Hw Jw Ha. pose proof (wfb_wf i Hw) as W. pose proof (jssp_wfb_solvable i Jw) as Sv.
  destruct (jssp_run_reach cfg i W Jw acts (reset i) (reset_reach cfg i W Sv) Ha) as (s & Hr & [IV _] & _).
  exists s. split; [exact Hr|]. intros Hd. exact (done_valid i s W IV Hd).
Qed.

Theorem JSSP_no_dead_end cfg i acts s :
  wfb i = true -> jssp_wfb i = true -> jssp_admb cfg i (reset i) acts = true -> jssp_run cfg i (reset i) acts = Some s ->
  existsb (fun b => b) (jssp_mask cfg i s) = true.
Proof.
  intros Hw Jw Ha Hr. pose proof (wfb_wf i Hw) as W. pose proof (jssp_wfb_solvable i Jw) as Sv.
  destruct (jssp_run_reach cfg i W Jw acts (reset i) (reset_reach cfg i W Sv) Ha) as (s' & Hr' & [IV Hsc] & _).
  rewrite Hr in Hr'. inversion Hr'; subst s'.
  assert (Hhas : forall a, a < 1 + nJ i -> jssp_maskb cfg i s a = true -> existsb (fun b => b) (jssp_mask cfg i s) = true).
  { intros a Hlt Hm. apply existsb_exists. exists true. split; [|reflexivity]. unfold jssp_mask.
    apply in_map_iff. exists a. split; [exact Hm|apply in_seq; lia]. }
  unfold step_complete in Hsc. destruct (existsb (fun b => b) (mask cfg i s)) eqn:E.
  - apply existsb_exists in E as [b [Hin Hb]]. subst b. unfold mask in Hin. apply in_map_iff in Hin as [a [Hm Hin]].
    apply in_seq in Hin. destruct a as [|k]; [apply (Hhas 0); [lia|exact Hm]|].
    cbn [maskb] in Hm. apply andb_prop in Hm as [Hk Hok]. apply Nat.ltb_lt in Hk. pose proof (wf_M _ W).
    assert (Hj : k / nM i < nJ i) by (apply Nat.div_lt_upper_bound; lia).
    apply (Hhas (S (k / nM i))); [lia|]. cbn [jssp_maskb]. replace (k / nM i <? nJ i) with true by lia.
    apply existsb_exists. exists (k mod nM i). split; [|exact Hok]. apply in_seq.
    pose proof (Nat.mod_upper_bound k (nM i) ltac:(lia)). lia.
  - cbn [negb andb] in Hsc. apply negb_false_iff in Hsc. apply (Hhas 0); [lia|].
    cbn [jssp_maskb]. unfold noop_ok. rewrite Hsc. destruct cfg; [reflexivity|apply orb_true_r].
Qed.

(* ================================================================ statements about reachable states, without [Inv] *)
Lemma reachable_inv cfg i acts s :
  wfb i = true -> solvableb i = true -> admb cfg i (reset i) acts = true -> run cfg i (reset i) acts = Some s -> Inv i s.
Proof.
  intros Hw Sv Ha Hr. pose proof (wfb_wf i Hw) as W.
  destruct (run_reach cfg i W Sv acts (reset i) (reset_reach cfg i W Sv) Ha) as (s' & Hr' & [IV _] & _).
  rewrite Hr in Hr'. inversion Hr'; subst s'. exact IV.
Qed.

Theorem FJSP_release_inert_reachable cfg i acts s :
  wfb i = true -> solvableb i = true -> admb cfg i (reset i) acts = true -> run cfg i (reset i) acts = Some s ->
  release i s = s.
Proof. intros Hw Sv Ha Hr. apply FJSP_release_inert. exact (reachable_inv cfg i acts s Hw Sv Ha Hr). Qed.

Theorem FJSP_machine_idle_iff cfg i acts s m :
  wfb i = true -> solvableb i = true -> admb cfg i (reset i) acts = true -> run cfg i (reset i) acts = Some s ->
  m < nM i ->
  ((bu s m <= time s)%Z <-> ~ exists o, asg s m o = true /\ (stt s o <= time s < fin s o)%Z).
Proof. intros Hw Sv Ha Hr. apply machine_idle_iff. exact (reachable_inv cfg i acts s Hw Sv Ha Hr). Qed.

Theorem FJSP_job_released_iff cfg i acts s j :
  wfb i = true -> solvableb i = true -> admb cfg i (reset i) acts = true -> run cfg i (reset i) acts = Some s ->
  j < nJ i -> sched s (nxt s j) = true ->
  (inp s j = false <-> (fin s (nxt s j) <= time s)%Z).
Proof. intros Hw Sv Ha Hr. apply job_released_iff. exact (reachable_inv cfg i acts s Hw Sv Ha Hr). Qed.

(* padded operations are never touched; an operation is scheduled only after its job predecessor has finished *)
Theorem FJSP_partial_schedule_sound cfg i acts s :
  wfb i = true -> solvableb i = true -> admb cfg i (reset i) acts = true -> run cfg i (reset i) acts = Some s ->
  (forall o, total_ops i <= o -> sched s o = false /\ forall m, asg s m o = false) /\
  (forall j o, j < nJ i -> sj i j <= o -> S o <= ej i j -> sched s (S o) = true ->
     sched s o = true /\ (fin s o <= stt s (S o))%Z).
Proof.
  intros Hw Sv Ha Hr. pose proof (reachable_inv cfg i acts s Hw Sv Ha Hr) as IV. pose proof (wfb_wf i Hw) as W. split.
  - intros o Ho. split; [exact (I_pad _ _ IV o Ho)|]. intros m. destruct (asg s m o) eqn:E; [|reflexivity].
    pose proof (asg_sched i s m o IV E) as Hs. rewrite (I_pad _ _ IV o Ho) in Hs. discriminate.
  - intros j o Hj Hlo Hhi Hs.
    assert (Hso : sched s o = true).
    { destruct (Nat.lt_ge_cases o (nxt s j)) as [H|H]; [apply (I_past _ _ IV j o Hj); lia|].
      destruct (Nat.eq_dec o (nxt s j)) as [->|Hne].
      - rewrite (I_fut _ _ IV j (S (nxt s j)) Hj) in Hs; [discriminate|lia].
      - rewrite (I_fut _ _ IV j (S o) Hj) in Hs; [discriminate|lia]. }
    split; [exact Hso|]. apply (I_prec _ _ IV j o (S o)); try assumption; lia.
Qed.

(* [solvableb] is needed: an operation without eligible machine is a dead end at reset *)
Definition ex_unsolvable : inst := {| start_op := [0]; end_op := [0]; proc := [[0%Z]]; pad_mask := [false] |}.
Example FJSP_dead_end_without_solvable :
  wfb ex_unsolvable = true /\ solvableb ex_unsolvable = false /\
  existsb (fun b => b) (mask true ex_unsolvable (reset ex_unsolvable)) = false /\
  existsb (fun b => b) (mask false ex_unsolvable (reset ex_unsolvable)) = false.
Proof. vm_compute. repeat split. Qed.

(* ================================================================ episode length (serves C02) *)
(* steps taken in a not-yet-finished state (everything after is inert padding, FJSP_done_stable) *)
Fixpoint active_steps (cfg : bool) (i : inst) (s : st) (acts : list nat) : nat :=
  match acts with
  | [] => 0
  | a :: r => (if done s then 0 else 1) +
              match step cfg i s a with Some s' => active_steps cfg i s' r | None => 0 end
  end.
Definition step_bound (cfg : bool) (i : inst) : nat := if cfg then total_ops i else total_ops i + total_ops i.

Fixpoint sumn (l : list nat) : nat := match l with [] => 0 | x :: r => x + sumn r end.
Lemma sumn_app a b : sumn (a ++ b) = sumn a + sumn b.
Proof. induction a as [|x a IH]; simpl; [reflexivity|]. rewrite IH. lia. Qed.
Lemma sumn_map_le {A} (f g : A -> nat) l : (forall x, In x l -> f x <= g x) -> sumn (map f l) <= sumn (map g l).
Proof.
  induction l as [|x l IH]; intros H; simpl; [lia|].
  pose proof (H x (or_introl eq_refl)). assert (sumn (map f l) <= sumn (map g l)) by (apply IH; intros y Hy; apply H; right; exact Hy). lia.
Qed.
Lemma sumn_map_lt {A} (f g : A -> nat) l x0 :
  (forall x, In x l -> f x <= g x) -> In x0 l -> f x0 < g x0 -> sumn (map f l) < sumn (map g l).
Proof.
  induction l as [|x l IH]; intros H Hin Hlt; [destruct Hin|]. simpl.
  pose proof (H x (or_introl eq_refl)).
  assert (Hle : sumn (map f l) <= sumn (map g l)) by (apply sumn_map_le; intros y Hy; apply H; right; exact Hy).
  destruct Hin as [->|Hin]; [lia|].
  assert (sumn (map f l) < sumn (map g l)) by (apply IH; [intros y Hy; apply H; right; exact Hy|exact Hin|exact Hlt]). lia.
Qed.

Definition countb (l : list bool) : nat := length (filter (fun b => b) l).
Lemma countb_upd_true l : forall o, o < length l -> nth o l false = false -> countb (upd o true l) = S (countb l).
Proof.
  unfold countb. induction l as [|h t IH]; intros o Ho Hn; [simpl in Ho; lia|].
  destruct o as [|o]; simpl in *.
  - subst h. reflexivity.
  - destruct h; simpl; rewrite (IH o) by (lia || assumption); reflexivity.
Qed.
Lemma countb_le_prefix l : forall T, (forall o, T <= o -> nth o l false = false) -> countb l <= T.
Proof.
  unfold countb. induction l as [|h t IH]; intros T H; [simpl; lia|]. simpl.
  destruct T as [|T].
  - rewrite (H 0 ltac:(lia) : h = false). apply (IH 0). intros o _. apply (H (S o)). lia.
  - assert (length (filter (fun b => b) t) <= T) by (apply IH; intros o Ho; apply (H (S o)); lia).
    destruct h; simpl; lia.
Qed.

Definition nsched (s : st) : nat := countb (op_scheduled s).
(* operations already released: those before next_op, plus the last one of a finished job *)
Definition relj (i : inst) (s : st) (j : nat) : nat := (nxt s j - sj i j) + (if jdone s j then 1 else 0).
Definition nrel (i : inst) (s : st) : nat := sumn (map (relj i s) (seq 0 (nJ i))).
Definition progress (cfg : bool) (i : inst) (s : st) : nat := nsched s + (if cfg then 0 else nrel i s).

Lemma job_sizes_sum i : wf i -> forall k, k < nJ i ->
  sumn (map (fun j => S (ej i j) - sj i j) (seq 0 (S k))) = S (ej i k).
Proof.
  intros W. induction k as [|k IH]; intros Hk.
  - simpl. rewrite (wf_s0 _ W). lia.
  - rewrite seq_S, map_app, sumn_app, IH by lia. cbn [map sumn Nat.add].
    rewrite (wf_chain _ W k Hk). pose proof (wf_se _ W (S k) Hk). rewrite (wf_chain _ W k Hk) in H. lia.
Qed.

Lemma nsched_le i s : Inv i s -> nsched s <= total_ops i.
Proof. intros IV. apply countb_le_prefix. intros o Ho. exact (I_pad _ _ IV o Ho). Qed.

Lemma nrel_le i s : wf i -> Inv i s -> nrel i s <= total_ops i.
Proof.
  intros W IV. unfold nrel, total_ops. pose proof (wf_J _ W).
  rewrite <- (job_sizes_sum i W (nJ i - 1)) by lia. replace (S (nJ i - 1)) with (nJ i) by lia.
  apply sumn_map_le. intros j Hj. apply in_seq in Hj. unfold relj.
  pose proof (I_rng _ _ IV j ltac:(lia)). destruct (jdone s j) eqn:E; [|lia].
  destruct (I_jd _ _ IV j ltac:(lia) E) as (_ & He & _). lia.
Qed.

Lemma progress_le cfg i s : wf i -> Inv i s -> progress cfg i s <= step_bound cfg i.
Proof.
  intros W IV. unfold progress, step_bound. pose proof (nsched_le i s IV). pose proof (nrel_le i s W IV).
  destruct cfg; lia.
Qed.

(* --- how the two counters move *)
Lemma make_step_lists i s j m s' : make_step i s j m = Some s' ->
  op_scheduled s' = upd (nxt s j) true (op_scheduled s) /\ next_op s' = next_op s /\ job_done s' = job_done s.
Proof.
  unfold make_step. destruct (negb (j <? nJ i) || negb (m <? nM i) || negb (nxt s j <? nN i)); [discriminate|].
  destruct (time s <? bu s m)%Z; [discriminate|]. intros H. inversion H; subst s'. repeat split.
Qed.

Lemma make_step_progress cfg i s j m s' : wf i -> Inv i s -> pair_ok s j m = true -> make_step i s j m = Some s' ->
  progress cfg i s' = S (progress cfg i s).
Proof.
  intros W IV Hok Hms. destruct (make_step_lists i s j m s' Hms) as (H1 & H2 & H3).
  pose proof (make_step_view i s j m s' (I_shape _ _ IV) Hms) as V.
  destruct (pair_ok_facts s j m Hok) as (Hd & Hi & _ & _).
  assert (Hs0 : sched s (nxt s j) = false) by (rewrite (I_cur _ _ IV j (mv_j _ _ _ _ _ V)), Hi, Hd; reflexivity).
  unfold progress, nsched, nrel, relj, nxt, jdone. rewrite H1, H2, H3.
  rewrite countb_upd_true; [reflexivity| |exact Hs0]. rewrite (sh_sch _ _ (I_shape _ _ IV)). exact (mv_o _ _ _ _ _ V).
Qed.

Lemma transit_progress cfg i s s' : wf i -> Inv i s -> transit i s = Some s' ->
  nsched s' = nsched s /\ nrel i s < nrel i s' /\ progress cfg i s <= progress cfg i s'.
Proof.
  intros W IV Htr. unfold transit in Htr. destruct (next_time s) as [t'|] eqn:Ent; [|discriminate].
  inversion Htr; subst s'; clear Htr.
  pose proof (release_set_time_view i s t') as V. set (s' := release i (set_time s t')) in *.
  destruct (next_time_spec s t' Ent) as (Hlt & Hin & _ & _).
  assert (Hns : nsched s' = nsched s) by reflexivity.
  assert (Hrel : forall j, j < nJ i -> relj i s j <= relj i s' j /\ (opf s t' j = true -> relj i s j < relj i s' j)).
  { intros j Hj. unfold relj. pose proof (I_rng _ _ IV j Hj) as Hr.
    destruct (release_cases i s s' t' j IV V Hj) as [C|[C|C]].
    - destruct C as (Ho & -> & _ & -> & _). split; [lia|]. rewrite Ho. discriminate.
    - destruct C as (_ & Hd & _ & _ & -> & _ & ->). rewrite Hd. cbv iota. split; lia.
    - destruct C as (_ & Hd & _ & _ & -> & _ & ->). rewrite Hd. cbv iota. split; lia. }
  (* the machine whose release time was chosen carries a job that is released now *)
  destruct (In_nth _ _ 0%Z Hin) as [m [Hm Hbm]]. rewrite (sh_bu _ _ (I_shape _ _ IV)) in Hm. fold (bu s m) in Hbm.
  destruct (I_busy _ _ IV m Hm) as (j0 & Hj0 & Hi0 & _ & Hf0); [lia|].
  assert (Hopf : opf s t' j0 = true) by (unfold opf; rewrite Hi0; cbn; lia).
  assert (Hnr : nrel i s < nrel i s').
  { unfold nrel. apply (sumn_map_lt _ _ _ j0).
    - intros j Hj. apply in_seq in Hj. apply Hrel. lia.
    - apply in_seq. lia.
    - apply Hrel; assumption. }
  split; [exact Hns|]. split; [exact Hnr|]. unfold progress. rewrite Hns. destruct cfg; lia.
Qed.

Lemma advance_progress cfg i : wf i -> forall fuel s s', Inv i s -> advance cfg i fuel s = Some s' ->
  progress cfg i s <= progress cfg i s'.
Proof.
  intros W. induction fuel as [|f IH]; intros s s' IV Ha; cbn [advance] in Ha.
  - destruct (step_complete cfg i s); [discriminate|]. inversion Ha; subst. lia.
  - destruct (step_complete cfg i s); [|inversion Ha; subst; lia].
    destruct (transit i s) as [s1|] eqn:Et; [|discriminate].
    destruct (transit_inv i s s1 W IV Et) as (IV1 & _ & _).
    destruct (transit_progress cfg i s s1 W IV Et) as (_ & _ & Hp). specialize (IH s1 s' IV1 Ha). lia.
Qed.

(* every step taken in an unfinished state makes progress *)
Lemma step_progress cfg i s a s' : wf i -> Inv i s -> done s = false -> maskb cfg i s a = true ->
  step cfg i s a = Some s' -> S (progress cfg i s) <= progress cfg i s'.
Proof.
  intros W IV Hd Hm Hs. unfold step in Hs. rewrite Hd in Hs. destruct a as [|k].
  - cbn [maskb] in Hm. unfold noop_ok in Hm. rewrite Hd in Hm. destruct cfg; [discriminate|].
    destruct (transit i s) as [s1|] eqn:Et; [|discriminate].
    destruct (transit_inv i s s1 W IV Et) as (IV1 & _ & _).
    destruct (transit_progress false i s s1 W IV Et) as (Hns & Hnr & _).
    pose proof (advance_progress false i W _ _ _ IV1 Hs). unfold progress in *. lia.
  - cbn [maskb] in Hm. apply andb_prop in Hm as [_ Hok].
    destruct (make_step i s (k / nM i) (k mod nM i)) as [s1|] eqn:Em; [|discriminate].
    pose proof (make_step_inv i s _ _ s1 W IV Hok Em) as IV1.
    pose proof (make_step_progress cfg i s _ _ s1 W IV Hok Em).
    pose proof (advance_progress cfg i W _ _ _ IV1 Hs). lia.
Qed.

Lemma active_steps_progress cfg i : wf i -> solvableb i = true -> forall acts s, Reach cfg i s ->
  admb cfg i s acts = true -> active_steps cfg i s acts + progress cfg i s <= step_bound cfg i.
Proof.
  intros W Sv. induction acts as [|a r IH]; intros s R Ha.
  - cbn [active_steps]. pose proof (progress_le cfg i s W (proj1 R)). lia.
  - cbn [admb] in Ha. apply andb_prop in Ha as [Hm Ha]. cbn [active_steps].
    destruct (step_reach cfg i s a W Sv R Hm) as (s1 & H1 & R1 & _). rewrite H1 in *.
    specialize (IH s1 R1 Ha). destruct (done s) eqn:Ed.
    + unfold step in H1. rewrite Ed in H1. inversion H1; subst s1. lia.
    + pose proof (step_progress cfg i s a s1 W (proj1 R) Ed Hm H1). lia.
Qed.

(* C02 for FJSP: at most ops steps with mask_no_ops, at most ops + ops (schedulings + waits) without *)
Theorem FJSP_bound cfg i acts :
  wfb i = true -> solvableb i = true -> admb cfg i (reset i) acts = true ->
  active_steps cfg i (reset i) acts <= step_bound cfg i.
Proof.
  intros Hw Sv Ha. pose proof (wfb_wf i Hw) as W.
  pose proof (active_steps_progress cfg i W Sv acts (reset i) (reset_reach cfg i W Sv) Ha). lia.
Qed.

(* the C02 reading: if no proper prefix of the episode is finished, its length is within the bound *)
Lemma active_steps_all cfg i : forall acts s,
  (forall p q sp, acts = p ++ q -> q <> [] -> run cfg i s p = Some sp -> done sp = false) ->
  (exists s', run cfg i s acts = Some s') -> active_steps cfg i s acts = length acts.
Proof.
  induction acts as [|a r IH]; intros s Hp [s' Hr]; [reflexivity|]. cbn [active_steps length run] in *.
  rewrite (Hp [] (a :: r) s eq_refl ltac:(discriminate) eq_refl).
  destruct (step cfg i s a) as [s1|] eqn:E; [|discriminate]. rewrite (IH s1); [reflexivity| |exists s'; exact Hr].
  intros p q sp Hpq Hq Hrun. apply (Hp (a :: p) q sp); [rewrite Hpq; reflexivity|exact Hq|]. cbn [run]. rewrite E. exact Hrun.
Qed.
Theorem FJSP_bound_prefix cfg i acts :
  wfb i = true -> solvableb i = true -> admb cfg i (reset i) acts = true ->
  (forall p q sp, acts = p ++ q -> q <> [] -> run cfg i (reset i) p = Some sp -> done sp = false) ->
  length acts <= step_bound cfg i.
Proof.
  intros Hw Sv Ha Hp. rewrite <- (active_steps_all cfg i acts (reset i) Hp).
  - apply FJSP_bound; assumption.
  - destruct (FJSP_valid cfg i acts Hw Sv Ha) as (s & Hr & _). exists s. exact Hr.
Qed.
