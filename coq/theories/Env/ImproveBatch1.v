(* C09 -- the batch dimension (shape / memory-layout level models of two tensor statements; the per-row models of
   Improve*.v do not see the batch dimension).  Both statements raised at batch size 1 before the repairs
   a3d4cc5 / fe089c4 in /repo (recorded as fixed in known_findings.json); the models below follow the REPAIRED
   code and the theorems are the full-strength statements "fine for every batch size B >= 1".  The models of the old
   statements are kept next to them ([squeeze], [shift_raises false]) with the lemmas showing what went wrong.

   1. TSPkoptEnv._random_action (k_max > 2):
          stopped = (action == next_of_last_action).squeeze(-1)        # [B,1] -> [B]   (was: .squeeze())
          k_action_left[stopped, i] = ...                               # k_action_left : [B, k_max + 1]
      .squeeze(-1) drops the last dimension only (when it has size 1); a bare .squeeze() drops EVERY dimension of
      size 1, so at B = 1 the mask became 0-dimensional.  Indexing t[m, i] with a boolean m of shape [B] consumes
      dimension 0 of t and i indexes dimension 1; with a 0-dimensional boolean m a new leading dimension is
      inserted and i indexes dimension 0 of t (size B).

   2. PDPRuinRepairEnv._step:   action_record[:, :-1] = action_record[:, 1:].clone()     # action_record : [B, L, h]
      torch's copy_ raises ("... refer to a single memory location") when source and destination share storage,
      partially overlap AND both views are non-overlapping-and-dense (otherwise the test is skipped as too hard).
      Through .clone() the source has its own storage.  Without it (old code) the two slices are dense exactly when
      B = 1 and their address ranges [0, (L-1)h) and [h, Lh) intersect exactly when L >= 3. *)
From Coq Require Import ZArith List Bool Lia ZifyBool Arith.
Import ListNotations.

(* ---- 1. shapes *)
Definition squeeze (s : list nat) : list nat := filter (fun d => negb (Nat.eqb d 1)) s.          (* .squeeze()   *)
Definition squeeze_last (s : list nat) : list nat :=                                             (* .squeeze(-1) *)
  match rev s with 1 :: r => rev r | _ => s end.

(* does t[m, i] (t of shape [ts], boolean m of shape [ms], integer i) index inside t ? *)
Definition bool_int_index_ok (ts ms : list nat) (i : nat) : bool :=
  match ms with
  | [] => Nat.ltb i (nth 0 ts 0)                                          (* 0-dim mask: i hits dimension 0 *)
  | [b] => Nat.eqb b (nth 0 ts 0) && Nat.ltb i (nth 1 ts 0)               (* [B] mask: i hits dimension 1 *)
  | _ => false
  end.

(* the statements k_action_left[stopped, i] of iterations i = 1 .. k-1 (stopped comes from the squeeze of a
   [B,1] comparison in iteration i-1; at i = 0 it is still the torch.ones(bs) of shape [B]); [sq] = which squeeze *)
Definition sampler_indexing_ok (sq : list nat -> list nat) (B k : nat) : bool :=
  bool_int_index_ok [B; k + 1] [B] 0 &&
  forallb (fun i => bool_int_index_ok [B; k + 1] (sq [B; 1]) i) (seq 1 (k - 1)).

(* the code as it is now *)
Definition kopt_sampler_indexing_ok (B k : nat) : bool := sampler_indexing_ok squeeze_last B k.

Theorem kopt_sampler_ok_all : forall B k, 1 <= B -> kopt_sampler_indexing_ok B k = true.
Proof.
  intros B k HB. unfold kopt_sampler_indexing_ok, sampler_indexing_ok.
  change (squeeze_last [B; 1]) with [B].
  apply andb_true_intro. split.
  - cbn. rewrite Nat.eqb_refl. destruct k; reflexivity.
  - apply forallb_forall. intros i Hi. apply in_seq in Hi. cbn [bool_int_index_ok nth].
    rewrite Nat.eqb_refl. cbn [andb]. apply Nat.ltb_lt. lia.
Qed.

(* the old statement (bare squeeze): fine from two instances on, out of range with one *)
Lemma old_sampler_ok_from_two : forall B k, 2 <= B -> sampler_indexing_ok squeeze B k = true.
Proof.
  intros B k HB. unfold sampler_indexing_ok.
  assert (Hs : squeeze [B; 1] = [B]).
  { unfold squeeze. cbn [filter Nat.eqb negb]. destruct (Nat.eqb B 1) eqn:E; [apply Nat.eqb_eq in E; lia|reflexivity]. }
  rewrite Hs. apply andb_true_intro. split.
  - cbn. rewrite Nat.eqb_refl. destruct k; reflexivity.
  - apply forallb_forall. intros i Hi. apply in_seq in Hi. cbn [bool_int_index_ok nth].
    rewrite Nat.eqb_refl. cbn [andb]. apply Nat.ltb_lt. lia.
Qed.

Lemma old_sampler_batch1_out_of_range : forall k, 2 <= k -> sampler_indexing_ok squeeze 1 k = false.
Proof.
  intros k Hk. unfold sampler_indexing_ok. apply andb_false_intro2.
  destruct k as [|[|k]]; [lia|lia|]. reflexivity.
Qed.

(* ---- 2. memory layout of the two slices of a contiguous [B, L, h] tensor *)
(* non-overlapping-and-dense for a slice [B, L-1, h] with strides (L*h, h, 1): dimensions of size 1 are ignored *)
Definition slice_dense (B L h : nat) : bool :=
  Nat.eqb B 1 || Nat.eqb ((L - 1) * h) (L * h) || Nat.eqb ((L - 1) * h) 0.

(* address ranges (in elements) of dst = a[:, :-1] and src = a[:, 1:] within batch row 0 *)
Definition ranges_intersect (L h : nat) : bool :=
  Nat.ltb 0 ((L - 1) * h) && Nat.ltb h ((L - 1) * h).

(* copy_(dst, src): [cloned] = the source went through .clone() (own storage: no overlap by construction) *)
Definition shift_raises (cloned : bool) (B L h : nat) : bool :=
  negb cloned && slice_dense B L h && ranges_intersect L h.

(* the code as it is now *)
Theorem shift_ok_all : forall B L h, shift_raises true B L h = false.
Proof. reflexivity. Qed.

(* the old statement (no clone) *)
Lemma old_shift_ok_from_two : forall B L h, 2 <= B -> 1 <= h -> 2 <= L -> shift_raises false B L h = false.
Proof.
  intros B L h HB Hh HL. unfold shift_raises, slice_dense.
  assert (E1 : Nat.eqb B 1 = false) by (apply Nat.eqb_neq; lia).
  assert (E2 : Nat.eqb ((L - 1) * h) (L * h) = false) by (apply Nat.eqb_neq; nia).
  assert (E3 : Nat.eqb ((L - 1) * h) 0 = false) by (apply Nat.eqb_neq; nia).
  rewrite E1, E2, E3. reflexivity.
Qed.

Lemma old_shift_batch1_raises : forall L h, 3 <= L -> 1 <= h -> shift_raises false 1 L h = true.
Proof.
  intros L h HL Hh. unfold shift_raises, slice_dense, ranges_intersect. cbn [negb Nat.eqb orb andb].
  apply andb_true_intro. split; apply Nat.ltb_lt; nia.
Qed.

Example batch1_ex :
  kopt_sampler_indexing_ok 1 3 = true /\ kopt_sampler_indexing_ok 2 3 = true /\ kopt_sampler_indexing_ok 1 5 = true /\
  sampler_indexing_ok squeeze 1 3 = false /\
  shift_raises true 1 7 3 = false /\ shift_raises true 2 7 3 = false /\ shift_raises false 1 7 3 = true.
Proof. vm_compute. repeat split; reflexivity. Qed.
