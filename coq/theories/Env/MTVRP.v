(* MTVRPEnv (rl4co/envs/routing/mtvrp/env.py), one batch row, bookkeeping variable by variable.
   Node 0 is the depot, customers are 1..n; every per-node vector has the depot entry first (as in the
   TensorDict).  All quantities are scaled integers; [A : arith] is the rounding applied where the code
   performs a float32 operation.  Distances are instance data: [dist] is get_distance on td["locs"] and
   [tt] is that matrix divided by td["speed"] by the code's own float division (equal to [dist] for the
   generator's speed 1.0).  An infinite time-window end / distance limit (the generator's "feature absent"
   value) is represented by an integer above every finite float32 on the grid, so that the comparisons it
   takes part in (always as the right-hand side) come out as with infinity.

   [R] switches the two time-window comparisons of get_action_mask between [<=] (R = true: the code as it is since
   /repo 9b8ead8) and the strict [<] it had before (R = false: kept for the recorded C05 finding, so that the old
   behaviour is recognised if it returns). *)
From Coq Require Import ZArith List Bool Lia ZifyBool Arith.
From RL4CO Require Import Base.Num Base.EnvSig Base.SortNat.
Import ListNotations.
Open Scope Z_scope.

Record mtvrp_inst := {
  dl : list Z;             (* td["demand_linehaul"], depot entry first *)
  db : list Z;             (* td["demand_backhaul"] *)
  cap : Z;                 (* td["vehicle_capacity"] *)
  lim : Z;                 (* td["distance_limit"] *)
  opn : bool;              (* td["open_route"] *)
  tlo : list Z;            (* td["time_windows"][..., 0] *)
  thi : list Z;            (* td["time_windows"][..., 1] *)
  svc : list Z;            (* td["service_time"] *)
  dist : list (list Z);    (* get_distance(locs[a], locs[b]) *)
  tt : list (list Z);      (* dist / td["speed"] *)
}.
Definition nn (i : mtvrp_inst) : nat := length (dl i).          (* number of nodes, depot included *)
Definition n_of (i : mtvrp_inst) : nat := (nn i - 1)%nat.       (* number of customers *)
Definition dlf (i : mtvrp_inst) (j : nat) : Z := nth j (dl i) 0.
Definition dbf (i : mtvrp_inst) (j : nat) : Z := nth j (db i) 0.
Definition lo (i : mtvrp_inst) (j : nat) : Z := nth j (tlo i) 0.
Definition hi (i : mtvrp_inst) (j : nat) : Z := nth j (thi i) 0.
Definition sv (i : mtvrp_inst) (j : nat) : Z := nth j (svc i) 0.
Definition dfun (i : mtvrp_inst) (a b : nat) : Z := mget (dist i) a b.
Definition tfun (i : mtvrp_inst) (a b : nat) : Z := mget (tt i) a b.

Record mtvrp_st := {
  cur : nat;               (* current_node *)
  rlen : Z;                (* current_route_length *)
  tim : Z;                 (* current_time *)
  usedl : Z;               (* used_capacity_linehaul *)
  usedb : Z;               (* used_capacity_backhaul *)
  vis : list bool;         (* visited, depot included *)
}.

Section Model.
  Variable A : arith.
  Variable R : bool.

  Definition mtvrp_reset (i : mtvrp_inst) : mtvrp_st :=
    {| cur := 0; rlen := 0; tim := 0; usedl := 0; usedb := 0; vis := repeat false (nn i) |}.

  (* _step: every accumulator is multiplied by (action != 0) *)
  Definition mtvrp_step (i : mtvrp_inst) (s : mtvrp_st) (a : nat) : mtvrp_st :=
    let z := Nat.eqb a 0 in
    {| cur := a;
       rlen := if z then 0 else rnd A (rlen s + dfun i (cur s) a);
       tim := if z then 0 else rnd A (Z.max (rnd A (tim s + tfun i (cur s) a)) (lo i a) + sv i a);
       usedl := if z then 0 else rnd A (usedl s + dlf i a);
       usedb := if z then 0 else rnd A (usedb s + dbf i a);
       vis := set_nth a true (vis s) |}.

  (* gather / scatter indices must be inside the tensors *)
  Definition mtvrp_stepok (i : mtvrp_inst) (s : mtvrp_st) (a : nat) : bool := Nat.ltb a (nn i).

  (* done = visited.sum(-1) == visited.size(-1): all nodes, the depot included *)
  Definition mtvrp_done (i : mtvrp_inst) (s : mtvrp_st) : bool := allb (vis s).

  (* the strict / repaired time comparison *)
  Definition tcmp (x y : Z) : bool := if R then x <=? y else x <? y.

  (* ---- the terms of get_action_mask, per candidate node j *)
  Definition arrival (i : mtvrp_inst) (s : mtvrp_st) (j : nat) : Z := rnd A (tim s + tfun i (cur s) j).
  Definition can_reach_customer (i : mtvrp_inst) (s : mtvrp_st) (j : nat) : bool := tcmp (arrival i s j) (hi i j).
  Definition back_time (i : mtvrp_inst) (s : mtvrp_st) (j : nat) : Z :=
    rnd A (rnd A (Z.max (arrival i s j) (lo i j) + sv i j) + tfun i j 0).
  Definition can_reach_depot (i : mtvrp_inst) (s : mtvrp_st) (j : nat) : bool :=
    tcmp (if opn i then 0 else back_time i s j) (hi i 0%nat).
  Definition exceeds_dist_limit (i : mtvrp_inst) (s : mtvrp_st) (j : nat) : bool :=
    lim i <? rnd A (rnd A (rlen s + dfun i (cur s) j) + (if opn i then 0 else dfun i j 0)).
  (* (demand_linehaul * ~visited).sum(-1) > 0 -- the float sum of non-negative terms is positive iff the exact one is *)
  Definition linehauls_missing (i : mtvrp_inst) (s : mtvrp_st) : bool :=
    0 <? sumZ (map (fun j => if nth j (vis s) false then 0 else dlf i j) (seq 0 (nn i))).
  Definition is_carrying_backhaul (i : mtvrp_inst) (s : mtvrp_st) : bool := 0 <? dbf i (cur s).
  Definition exceeds_cap_linehaul (i : mtvrp_inst) (s : mtvrp_st) (j : nat) : bool := cap i <? rnd A (dlf i j + usedl s).
  Definition exceeds_cap_backhaul (i : mtvrp_inst) (s : mtvrp_st) (j : nat) : bool := cap i <? rnd A (dbf i j + usedb s).
  Definition meets_demand_constraint (i : mtvrp_inst) (s : mtvrp_st) (j : nat) : bool :=
    (linehauls_missing i s && negb (exceeds_cap_linehaul i s j) && negb (is_carrying_backhaul i s) && (0 <? dlf i j))
    || (negb (exceeds_cap_backhaul i s j) && (0 <? dbf i j)).
  Definition can_visit (i : mtvrp_inst) (s : mtvrp_st) (j : nat) : bool :=
    can_reach_customer i s j && can_reach_depot i s j && meets_demand_constraint i s j
    && negb (exceeds_dist_limit i s j) && negb (nth j (vis s) false).

  Definition locs (i : mtvrp_inst) : list nat := seq 1 (n_of i).
  (* can_visit[:, 0] = ~((curr_node == 0) & (can_visit[:, 1:].sum(-1) > 0)) *)
  Definition mask_depot (i : mtvrp_inst) (s : mtvrp_st) : bool :=
    Nat.eqb (cur s) 0 && existsb (can_visit i s) (locs i).
  Definition mtvrp_mask (i : mtvrp_inst) (s : mtvrp_st) : list bool :=
    negb (mask_depot i s) :: map (can_visit i s) (locs i).

  Definition MTVRP : Env := {|
    inst := mtvrp_inst; st := mtvrp_st;
    reset := mtvrp_reset; step := mtvrp_step; stepok := mtvrp_stepok; mask := mtvrp_mask; done := mtvrp_done |}.

  (* ---------------------------------------------------------------- check_solution_validity *)
  (* sorted actions = zeros ++ [1..n] *)
  Definition sorted_ok (i : mtvrp_inst) (acts : list nat) : bool :=
    let n := n_of i in
    let s := sort_nat acts in
    Nat.leb n (length acts) &&
    forallb (Nat.eqb 0) (firstn (length acts - n) s) &&
    (if list_eq_dec Nat.eq_dec (skipn (length acts - n) s) (seq 1 n) then true else false).

  (* the instance-level asserts: limit >= 0, windows and service times >= 0, lo < hi for every node,
     lo j + d(j,0) / speed + service j <= hi 0 for every node (also when the route is open; travel time since
     /repo 004c254) *)
  Definition data_ok (i : mtvrp_inst) : bool :=
    (0 <=? lim i) &&
    forallb (fun x => 0 <=? x) (tlo i) && forallb (fun x => 0 <=? x) (thi i) &&
    forallb (fun x => 0 <=? x) (svc i) &&
    forallb (fun j => lo i j <? hi i j) (seq 0 (nn i)) &&
    forallb (fun j => rnd A (rnd A (lo i j + tfun i j 0) + sv i j) <=? hi i 0%nat) (seq 0 (nn i)).

  (* the loop over the actions: running route length (distance) and clock (distance / speed, as in the mask, since
     /repo ea27328); NOTE the return leg of an open route is not added to the length but is added to the clock, whose
     value is then tested against the depot's window end *)
  Fixpoint walk_ok (i : mtvrp_inst) (node : nat) (len t : Z) (acts : list nat) : bool :=
    match acts with
    | [] => true
    | a :: r =>
        let d := dfun i node a in
        let len1 := rnd A (len + (if opn i && Nat.eqb a 0 then 0 else d)) in
        let t1 := Z.max (rnd A (t + tfun i node a)) (lo i a) in
        let t2 := rnd A (t1 + sv i a) in
        (len1 <=? lim i) && (t1 <=? hi i a) &&
        walk_ok i a (if Nat.eqb a 0 then 0 else len1) (if Nat.eqb a 0 then 0 else t2) r
    end.

  (* _check_c1: used_cap * (action != 0), += demand[action], <= capacity *)
  Fixpoint cap_ok (i : mtvrp_inst) (dem : nat -> Z) (u : Z) (acts : list nat) : bool :=
    match acts with
    | [] => true
    | a :: r =>
        let u1 := rnd A ((if Nat.eqb a 0 then 0 else u) + dem a) in
        (u1 <=? cap i) && cap_ok i dem u1 r
    end.

  Definition mtvrp_checker (i : mtvrp_inst) (acts : list nat) : bool :=
    sorted_ok i acts && data_ok i && walk_ok i 0%nat 0 0 acts && cap_ok i (dlf i) 0 acts && cap_ok i (dbf i) 0 acts.
End Model.

(* _get_reward: along depot :: actions, cyclically, the distance of every leg except, for an open route, the
   legs that end in the depot (exact sum; the implementation's float sum is compared with a tolerance) *)
Definition cost_fun (i : mtvrp_inst) (a b : nat) : Z := if opn i && Nat.eqb b 0 then 0 else dfun i a b.
