(* C08 -- selection environments (FLP, MCP, DPP, MDPP): the part of the bookkeeping that all four share.

   Every one of these envs keeps, per batch row, an action mask, a step counter [i] and a [done] flag and
   updates them the same way in [_step]:
       mask'  = mask with the chosen position cleared     (FLP/MCP: ~chosen; DPP/MDPP: scatter 0)
       i'     = i + 1
       done'  = (i >= quota - 1)            -- evaluated on the counter *before* the increment
   The four env models (Env/FLP.v, Env/MCP.v, Env/DPP.v) are written variable by variable after their
   own source; each proves the two simulation facts [reset_ok]/[step_ok] below about its *own* step
   function, and the quota theorems are then proved once, here, by induction over the admitted action
   list (unbounded: any number of items, any quota, any initial mask, any admitted order).

   Nothing here is specification-shaped: [run_adm] just iterates the env's own [step] under the env's own
   mask.  The specification side is plain list vocabulary: [length], [NoDup], [Forall allowed]. *)
From Coq Require Import ZArith List Bool Lia ZifyBool Arith.
Import ListNotations.
Open Scope Z_scope.

(* ------------------------------------------------------------------ list helpers *)
Fixpoint set_nth {A} (n : nat) (x : A) (l : list A) : list A :=
  match l, n with
  | [], _ => []
  | _ :: t, O => x :: t
  | h :: t, S k => h :: set_nth k x t
  end.

Lemma set_nth_length {A} n (x : A) l : length (set_nth n x l) = length l.
Proof. revert n; induction l as [|h t IH]; intros [|n]; simpl; auto. Qed.

Lemma nth_set_nth {A} n m (x d : A) l :
  nth m (set_nth n x l) d = if (Nat.eqb m n && Nat.ltb n (length l))%bool then x else nth m l d.
Proof.
  revert n m; induction l as [|h t IH]; intros n m.
  - simpl. rewrite andb_false_r. destruct n; reflexivity.
  - destruct n as [|n], m as [|m]; simpl; auto. rewrite IH. reflexivity.
Qed.

Lemma map_set_nth {A B} (f : A -> B) n x l : map f (set_nth n x l) = set_nth n (f x) (map f l).
Proof. revert n; induction l as [|h t IH]; intros [|n]; simpl; auto. rewrite IH. reflexivity. Qed.

Lemma nth_true_lt (l : list bool) a : nth a l false = true -> (a < length l)%nat.
Proof.
  intros H. destruct (Nat.ltb a (length l)) eqn:E.
  - apply Nat.ltb_lt in E. exact E.
  - apply Nat.ltb_ge in E. rewrite nth_overflow in H by exact E. discriminate.
Qed.

Lemma nth_map_seq {A} (f : nat -> A) n j d : (j < n)%nat -> nth j (map f (seq 0 n)) d = f j.
Proof.
  intros H. rewrite (nth_indep _ d (f 0%nat)) by (rewrite map_length, seq_length; exact H).
  rewrite (map_nth f (seq 0 n) 0%nat j). rewrite seq_nth by exact H. reflexivity.
Qed.

Lemma nth_repeat_lt {A} (x d : A) n j : (j < n)%nat -> nth j (repeat x n) d = x.
Proof. intros H. rewrite (nth_indep _ d x) by (rewrite repeat_length; exact H). apply nth_repeat. Qed.

Lemma map_seq_ext {A} (f g : nat -> A) n :
  (forall j, (j < n)%nat -> f j = g j) -> map f (seq 0 n) = map g (seq 0 n).
Proof. intros H. apply map_ext_in. intros j Hj. apply in_seq in Hj. apply H. lia. Qed.

Lemma list_eq_nth {A} (d : A) (l1 l2 : list A) :
  length l1 = length l2 -> (forall j, (j < length l1)%nat -> nth j l1 d = nth j l2 d) -> l1 = l2.
Proof.
  revert l2; induction l1 as [|h t IH]; intros [|h2 t2] Hl Hn; simpl in *; try discriminate; auto.
  f_equal.
  - apply (Hn 0%nat). lia.
  - apply IH; [lia|]. intros j Hj. apply (Hn (S j)). lia.
Qed.

Fixpoint sumZ (l : list Z) : Z := match l with [] => 0 | x :: r => x + sumZ r end.

Definition memb (c : nat) (l : list nat) : bool := existsb (Nat.eqb c) l.
Lemma memb_In c l : memb c l = true <-> In c l.
Proof.
  unfold memb. rewrite existsb_exists. split.
  - intros [x [Hx E]]. apply Nat.eqb_eq in E. subst. exact Hx.
  - intros H. exists c. split; [exact H | apply Nat.eqb_refl].
Qed.
Lemma memb_app c l1 l2 : memb c (l1 ++ l2) = memb c l1 || memb c l2.
Proof. unfold memb. apply existsb_app. Qed.

(* number of [true] entries: "how many items are still allowed" *)
Definition count_true (l : list bool) : nat := length (filter (fun b => b) l).

Lemma count_true_set_false l a :
  nth a l false = true -> S (count_true (set_nth a false l)) = count_true l.
Proof.
  unfold count_true. revert a; induction l as [|h t IH]; intros [|a] H; simpl in *; try discriminate.
  - subst h. reflexivity.
  - destruct h; simpl; rewrite (IH a H); reflexivity.
Qed.

Lemma count_true_pos l : (0 < count_true l)%nat -> exists a, nth a l false = true.
Proof.
  unfold count_true. induction l as [|h t IH]; simpl; [lia|]. destruct h.
  - intros _. exists 0%nat. reflexivity.
  - intros H. destruct (IH H) as [a Ha]. exists (S a). exact Ha.
Qed.

Lemma count_true_le_length l : (count_true l <= length l)%nat.
Proof. unfold count_true. induction l as [|[|] t IH]; simpl; lia. Qed.

Lemma count_true_repeat_true n : count_true (repeat true n) = n.
Proof. unfold count_true. induction n; simpl; auto. Qed.

(* the mask after clearing the positions of an action list *)
Definition clear_all (m0 : list bool) (as_ : list nat) : list bool :=
  fold_left (fun m a => set_nth a false m) as_ m0.

Lemma clear_all_length m0 as_ : length (clear_all m0 as_) = length m0.
Proof.
  unfold clear_all. revert m0; induction as_ as [|a r IH]; intros m0; simpl; auto.
  rewrite IH. apply set_nth_length.
Qed.

Lemma nth_clear_all m0 as_ c : nth c (clear_all m0 as_) false = nth c m0 false && negb (memb c as_).
Proof.
  unfold clear_all. revert m0; induction as_ as [|a r IH]; intros m0.
  - simpl. rewrite andb_true_r. reflexivity.
  - cbn [fold_left]. rewrite IH. rewrite nth_set_nth. unfold memb. cbn [existsb]. fold (memb c r).
    destruct (Nat.eqb c a) eqn:E; cbn [andb orb negb].
    + apply Nat.eqb_eq in E. subst c.
      destruct (Nat.ltb a (length m0)) eqn:L.
      * rewrite andb_false_r. reflexivity.
      * apply Nat.ltb_ge in L. rewrite nth_overflow by exact L. reflexivity.
    + reflexivity.
Qed.

(* the set of positions after setting an action list (FLP/MCP [chosen]) *)
Definition set_all (c0 : list bool) (as_ : list nat) : list bool :=
  fold_left (fun c a => set_nth a true c) as_ c0.

Lemma set_all_length c0 as_ : length (set_all c0 as_) = length c0.
Proof.
  unfold set_all. revert c0; induction as_ as [|a r IH]; intros c0; simpl; auto.
  rewrite IH. apply set_nth_length.
Qed.

Lemma nth_set_all c0 as_ c :
  nth c (set_all c0 as_) false = nth c c0 false || (memb c as_ && Nat.ltb c (length c0)).
Proof.
  unfold set_all. revert c0; induction as_ as [|a r IH]; intros c0.
  - simpl. rewrite orb_false_r. reflexivity.
  - cbn [fold_left]. rewrite IH. rewrite set_nth_length. rewrite nth_set_nth. unfold memb. cbn [existsb].
    fold (memb c r).
    destruct (Nat.eqb c a) eqn:E; cbn [andb orb negb].
    + apply Nat.eqb_eq in E. subst c.
      destruct (Nat.ltb a (length c0)) eqn:L; cbn [andb orb].
      * rewrite orb_true_r. reflexivity.
      * rewrite andb_false_r. reflexivity.
    + reflexivity.
Qed.

Lemma set_all_app c0 p r : set_all c0 (p ++ r) = set_all (set_all c0 p) r.
Proof. unfold set_all. apply fold_left_app. Qed.

(* ------------------------------------------------------------------ running an env model *)
(* [run_adm step mask s as_] : iterate the env's [step] from [s]; every action must lie inside the mask of
   the state it is taken in ("mask-confined"), and [None] as soon as the step raises.
   [run_all step s as_] : the same without looking at the mask (any actions the code does not reject). *)
Fixpoint run_adm {st} (step : st -> nat -> option st) (mask : st -> list bool) (s : st) (as_ : list nat)
  : option st :=
  match as_ with
  | [] => Some s
  | a :: r => if nth a (mask s) false
              then match step s a with Some s' => run_adm step mask s' r | None => None end
              else None
  end.

Fixpoint run_all {st} (step : st -> nat -> option st) (s : st) (as_ : list nat) : option st :=
  match as_ with
  | [] => Some s
  | a :: r => match step s a with Some s' => run_all step s' r | None => None end
  end.

(* every action inside the mask of its state; a raising step does *not* count as a refusal of the mask
   (crash freedom is the separate theorem [sel_progress]) *)
Fixpoint mask_confined {st} (step : st -> nat -> option st) (mask : st -> list bool) (s : st) (as_ : list nat)
  : bool :=
  match as_ with
  | [] => true
  | a :: r => nth a (mask s) false &&
              match step s a with Some s' => mask_confined step mask s' r | None => true end
  end.

Lemma run_adm_run_all {st} (step : st -> nat -> option st) mask s as_ s' :
  run_adm step mask s as_ = Some s' -> run_all step s as_ = Some s'.
Proof.
  revert s; induction as_ as [|a r IH]; intros s H; simpl in *; [exact H|].
  destruct (nth a (mask s) false); [|discriminate].
  destruct (step s a) as [s1|]; [|discriminate]. apply IH. exact H.
Qed.

Lemma run_adm_app {st} (step : st -> nat -> option st) mask s p r :
  run_adm step mask s (p ++ r) =
  match run_adm step mask s p with Some s' => run_adm step mask s' r | None => None end.
Proof.
  revert s; induction p as [|a p IH]; intros s; simpl; [reflexivity|].
  destruct (nth a (mask s) false); [|reflexivity].
  destruct (step s a) as [s1|]; [|reflexivity]. apply IH.
Qed.

Lemma run_all_app {st} (step : st -> nat -> option st) s p r :
  run_all step s (p ++ r) =
  match run_all step s p with Some s' => run_all step s' r | None => None end.
Proof.
  revert s; induction p as [|a p IH]; intros s; simpl; [reflexivity|].
  destruct (step s a) as [s1|]; [|reflexivity]. apply IH.
Qed.

(* prefix closure: the run over a prefix of an admitted list exists *)
Lemma run_adm_firstn {st} (step : st -> nat -> option st) mask s as_ s' k :
  run_adm step mask s as_ = Some s' -> exists s1, run_adm step mask s (firstn k as_) = Some s1.
Proof.
  intros H. rewrite <- (firstn_skipn k as_) in H. rewrite run_adm_app in H.
  destruct (run_adm step mask s (firstn k as_)) as [s1|]; [|discriminate]. exists s1. reflexivity.
Qed.

(* ------------------------------------------------------------------ the shared quota theorems *)
Section SelCore.
  Variables (inst st : Type).
  Variable wf : inst -> Prop.                     (* documented input format (boolean in each env) *)
  Variable reset : inst -> st.
  Variable step : inst -> st -> nat -> option st. (* None = the real code raises *)
  Variable mask : st -> list bool.
  Variable cnt : st -> Z.                         (* td["i"] *)
  Variable done : st -> bool.
  Variable quota : inst -> Z.
  Variable mask0 : inst -> list bool.             (* which items are allowed at all *)
  Variable inv : inst -> st -> Prop.              (* env-specific shape invariant needed for crash freedom *)

  Hypothesis wf_quota : forall I, wf I -> 1 <= quota I.
  Hypothesis reset_ok : forall I, wf I ->
    inv I (reset I) /\ mask (reset I) = mask0 I /\ cnt (reset I) = 0 /\ done (reset I) = false.
  Hypothesis step_ok : forall I s a, wf I -> inv I s -> (a < length (mask s))%nat ->
    exists s', step I s a = Some s' /\ inv I s' /\ mask s' = set_nth a false (mask s) /\
               cnt s' = cnt s + 1 /\ done s' = (quota I - 1 <=? cnt s).

  Let run I := run_adm (step I) mask.

  (* state after an admitted list, from any state satisfying the invariant *)
  Lemma run_char_from I : wf I -> forall as_ s0 s,
    inv I s0 -> run I s0 as_ = Some s ->
    inv I s /\ mask s = clear_all (mask s0) as_ /\ cnt s = cnt s0 + Z.of_nat (length as_) /\
    done s = match as_ with [] => done s0 | _ => quota I <=? cnt s0 + Z.of_nat (length as_) end /\
    NoDup as_ /\ Forall (fun a => nth a (mask s0) false = true) as_ /\
    (count_true (mask s) + length as_ = count_true (mask s0))%nat.
  Proof.
    intros Hwf as_. induction as_ as [|a r IH]; intros s0 s Hinv Hrun.
    - simpl in Hrun. injection Hrun as <-. simpl. repeat split; auto; try lia; constructor.
    - unfold run in Hrun. simpl in Hrun.
      destruct (nth a (mask s0) false) eqn:Hm; [|discriminate].
      pose proof (nth_true_lt _ _ Hm) as Hlt.
      destruct (step_ok I s0 a Hwf Hinv Hlt) as [s1 [Hs [Hinv1 [Hmask1 [Hcnt1 Hdone1]]]]].
      rewrite Hs in Hrun.
      destruct (IH s1 s Hinv1 Hrun) as [Hi [Hmk [Hc [Hd [Hnd [Hfa Hct]]]]]].
      assert (Hr : forall x, In x r -> nth x (mask s0) false = true /\ x <> a).
      { intros x Hx. rewrite Forall_forall in Hfa. specialize (Hfa x Hx).
        rewrite Hmask1, nth_set_nth in Hfa.
        destruct (Nat.eqb x a) eqn:E; simpl in Hfa.
        - destruct (Nat.ltb a (length (mask s0))) eqn:L; [discriminate|].
          apply Nat.ltb_ge in L. lia.
        - apply Nat.eqb_neq in E. split; [exact Hfa | exact E]. }
      split; [exact Hi|]. split; [rewrite Hmk, Hmask1; reflexivity|].
      split; [rewrite Hc, Hcnt1; simpl length; lia|].
      split.
      { rewrite Hd. destruct r as [|b r'].
        - rewrite Hdone1. simpl length. apply Bool.eq_iff_eq_true. rewrite !Z.leb_le. lia.
        - rewrite Hcnt1. simpl length. apply Bool.eq_iff_eq_true. rewrite !Z.leb_le. lia. }
      split.
      { constructor; [|exact Hnd]. intros Hin. destruct (Hr a Hin) as [_ Hne]. congruence. }
      split.
      { constructor; [exact Hm|]. rewrite Forall_forall. intros x Hx. apply (Hr x Hx). }
      rewrite Hmask1 in Hct. pose proof (count_true_set_false _ _ Hm) as Hcs. simpl length. lia.
  Qed.

  (* -- the env-specific shape invariant holds in every reachable state *)
  Theorem sel_reach_inv I as_ s : wf I -> run I (reset I) as_ = Some s -> inv I s.
  Proof.
    intros Hwf Hrun. destruct (reset_ok I Hwf) as [Hinv _].
    destruct (run_char_from I Hwf as_ _ _ Hinv Hrun) as [Hi _]. exact Hi.
  Qed.

  (* -- done is false before the quota is reached and true from then on (done_stable) *)
  Theorem sel_done_iff I as_ s : wf I -> run I (reset I) as_ = Some s ->
    done s = negb (Nat.eqb (length as_) 0) && (quota I <=? Z.of_nat (length as_)).
  Proof.
    intros Hwf Hrun. destruct (reset_ok I Hwf) as [Hinv [Hm [Hc Hd]]].
    destruct (run_char_from I Hwf as_ _ _ Hinv Hrun) as [_ [_ [_ [Hdone _]]]].
    rewrite Hdone. destruct as_ as [|a r]; simpl length.
    - rewrite Hd. reflexivity.
    - rewrite Hc. simpl. reflexivity.
  Qed.

  (* -- the selection made by any mask-confined run: distinct, allowed; mask = allowed minus selected *)
  Theorem sel_distinct_allowed I as_ s : wf I -> run I (reset I) as_ = Some s ->
    NoDup as_ /\ Forall (fun a => nth a (mask0 I) false = true) as_ /\
    mask s = clear_all (mask0 I) as_ /\ cnt s = Z.of_nat (length as_).
  Proof.
    intros Hwf Hrun. destruct (reset_ok I Hwf) as [Hinv [Hm [Hc Hd]]].
    destruct (run_char_from I Hwf as_ _ _ Hinv Hrun) as [_ [Hmk [Hcn [_ [Hnd [Hfa _]]]]]].
    rewrite Hm in *. rewrite Hc in Hcn. repeat split; auto.
  Qed.

  (* -- quota: a mask-confined episode that stops at the first [done] has exactly [quota] items *)
  Theorem sel_quota I as_ s : wf I ->
    run I (reset I) as_ = Some s -> done s = true ->
    (forall k s', (0 < k < length as_)%nat -> run I (reset I) (firstn k as_) = Some s' -> done s' = false) ->
    Z.of_nat (length as_) = quota I /\ NoDup as_ /\ Forall (fun a => nth a (mask0 I) false = true) as_.
  Proof.
    intros Hwf Hrun Hdone Hfirst.
    destruct (sel_distinct_allowed I as_ s Hwf Hrun) as [Hnd [Hfa _]].
    split; [|split; assumption].
    pose proof (sel_done_iff I as_ s Hwf Hrun) as Hd. rewrite Hdone in Hd.
    symmetry in Hd. apply andb_prop in Hd as [Hne Hq]. apply Z.leb_le in Hq.
    pose proof (wf_quota I Hwf) as Hq1.
    destruct (Z.eq_dec (Z.of_nat (length as_)) (quota I)) as [E|E]; [exact E|exfalso].
    set (k := Z.to_nat (quota I)).
    assert (Hk : (0 < k < length as_)%nat) by (unfold k; lia).
    destruct (run_adm_firstn (step I) mask (reset I) as_ s k Hrun) as [s1 Hs1].
    pose proof (Hfirst k s1 Hk Hs1) as Hf.
    pose proof (sel_done_iff I _ s1 Hwf Hs1) as Hd1. rewrite firstn_length in Hd1.
    rewrite Hf in Hd1. symmetry in Hd1. apply andb_false_iff in Hd1 as [H|H].
    - apply negb_false_iff in H. apply Nat.eqb_eq in H. lia.
    - apply Z.leb_gt in H. unfold k in *. lia.
  Qed.

  (* -- crash freedom: an action offered by the mask of a reachable state never makes [step] raise *)
  Theorem sel_progress I as_ s a : wf I -> run I (reset I) as_ = Some s ->
    nth a (mask s) false = true -> exists s', step I s a = Some s'.
  Proof.
    intros Hwf Hrun Hm. destruct (reset_ok I Hwf) as [Hinv _].
    destruct (run_char_from I Hwf as_ _ _ Hinv Hrun) as [Hi _].
    destruct (step_ok I s a Hwf Hi (nth_true_lt _ _ Hm)) as [s' [Hs _]]. exists s'. exact Hs.
  Qed.

  (* hence "mask-confined" and "admitted run exists" are the same thing *)
  Theorem sel_confined_runs I : wf I -> forall as_,
    mask_confined (step I) mask (reset I) as_ = true -> exists s, run I (reset I) as_ = Some s.
  Proof.
    intros Hwf. destruct (reset_ok I Hwf) as [Hinv0 _]. revert Hinv0. generalize (reset I) as s0.
    intros s0 Hinv0 as_. revert s0 Hinv0. induction as_ as [|a r IH]; intros s0 Hinv0 H.
    - exists s0. reflexivity.
    - simpl in H. apply andb_prop in H as [Hm Hr]. unfold run. simpl. rewrite Hm.
      destruct (step_ok I s0 a Hwf Hinv0 (nth_true_lt _ _ Hm)) as [s1 [Hs [Hinv1 _]]].
      rewrite Hs in *. apply IH; assumption.
  Qed.

  (* -- no dead end: before the quota is reached, if the quota does not exceed the number of allowed
        items, the mask still offers something *)
  Theorem sel_no_dead_end I as_ s : wf I -> run I (reset I) as_ = Some s ->
    Z.of_nat (length as_) < quota I -> quota I <= Z.of_nat (count_true (mask0 I)) ->
    exists a, nth a (mask s) false = true.
  Proof.
    intros Hwf Hrun Hlt Hq. destruct (reset_ok I Hwf) as [Hinv [Hm _]].
    destruct (run_char_from I Hwf as_ _ _ Hinv Hrun) as [_ [_ [_ [_ [_ [_ Hct]]]]]].
    rewrite Hm in Hct. apply count_true_pos. lia.
  Qed.

  (* -- and therefore a complete episode exists from every reachable not-yet-finished state *)
  Theorem sel_episode_completes I : wf I -> quota I <= Z.of_nat (count_true (mask0 I)) ->
    forall (fuel : nat) as_ s, run I (reset I) as_ = Some s ->
      quota I - Z.of_nat (length as_) = Z.of_nat fuel ->
      exists ext s', run I (reset I) (as_ ++ ext) = Some s' /\ Z.of_nat (length (as_ ++ ext)) = quota I.
  Proof.
    intros Hwf Hq fuel. induction fuel as [|f IH]; intros as_ s Hrun Hf.
    - exists [], s. rewrite app_nil_r. split; [exact Hrun | lia].
    - destruct (sel_no_dead_end I as_ s Hwf Hrun) as [a Ha]; [lia | exact Hq |].
      destruct (sel_progress I as_ s a Hwf Hrun Ha) as [s1 Hs1].
      assert (Hrun1 : run I (reset I) (as_ ++ [a]) = Some s1).
      { unfold run in *. rewrite run_adm_app. rewrite Hrun. cbn [run_adm]. rewrite Ha, Hs1. reflexivity. }
      destruct (IH (as_ ++ [a]) s1 Hrun1) as [ext [s' [Hr Hl]]].
      { rewrite app_length. simpl length. lia. }
      exists (a :: ext), s'. rewrite <- app_assoc in Hr, Hl. simpl in Hr, Hl. split; assumption.
  Qed.
End SelCore.

(* ------------------------------------------------------------------ the batched [done] of FLP and MCP *)
(* FLP/MCP compute  done = td["i"] >= (quota - 1)  with td["i"] of shape [B] and (MCP always; FLP with the
   documented shape) quota of shape [B,1].  Torch broadcasting makes this a B x B matrix:
        done[r][c] = (quota[r] - 1 <= i[c]).
   A per-row model cannot express this, so it is modelled here on whole batches. *)
Definition done_bxb (is_ qs : list Z) : list (list bool) :=
  map (fun q => map (fun i => q - 1 <=? i) is_) qs.
(* what each row would compute on its own (and what FLP computes with the generator's [B]-shaped quota) *)
Definition done_rowwise (is_ qs : list Z) : list bool :=
  map (fun iq => snd iq - 1 <=? fst iq) (combine is_ qs).
(* td["done"].all() -- the only way rl4co's rollout loops consume [done] *)
Definition all_done (m : list (list bool)) : bool := forallb (forallb (fun b => b)) m.

(* (a) with one common quota in the batch every row of the matrix is the row-wise done vector *)
Theorem done_bxb_equal_quota is_ qs q : length is_ = length qs -> (forall q', In q' qs -> q' = q) ->
  forall r, (r < length qs)%nat -> nth r (done_bxb is_ qs) [] = done_rowwise is_ qs.
Proof.
  intros Hl Hq r Hr. unfold done_bxb, done_rowwise.
  rewrite (nth_indep _ [] ((fun q0 => map (fun i => q0 - 1 <=? i) is_) 0)) by (rewrite map_length; exact Hr).
  rewrite (map_nth (fun q0 => map (fun i => q0 - 1 <=? i) is_) qs 0 r).
  rewrite (Hq (nth r qs 0)) by (apply nth_In; exact Hr).
  clear r Hr. revert qs Hl Hq. induction is_ as [|i t IH]; intros [|q0 qt] Hl Hq; simpl in *; try discriminate; auto.
  rewrite (Hq q0) by (left; reflexivity). f_equal. apply IH; [lia|]. intros q' H. apply Hq. right. exact H.
Qed.

(* (a') rows stepped in lockstep (all counters equal, as in every rl4co rollout): the matrix entry [r][c] is
   row r's own done, so td["done"].all() is "every row has reached its own quota" whatever the quotas *)
Lemma forallb_const_row (is_ : list Z) i q : (forall i', In i' is_ -> i' = i) -> is_ <> [] ->
  forallb (fun b => b) (map (fun i0 => q - 1 <=? i0) is_) = (q - 1 <=? i).
Proof.
  induction is_ as [|x t IH]; intros Hi Hne; [congruence|]. simpl. rewrite (Hi x) by (left; reflexivity).
  destruct t as [|y t'].
  - simpl. apply andb_true_r.
  - rewrite IH; [apply andb_diag | intros; apply Hi; right; auto | discriminate].
Qed.

Theorem done_bxb_lockstep is_ qs i : (forall i', In i' is_ -> i' = i) -> is_ <> [] -> length is_ = length qs ->
  all_done (done_bxb is_ qs) = forallb (fun b => b) (done_rowwise is_ qs) /\
  forall r c, (r < length qs)%nat -> (c < length is_)%nat ->
    nth c (nth r (done_bxb is_ qs) []) false = nth r (done_rowwise is_ qs) false.
Proof.
  intros Hi Hne Hl. split.
  - transitivity (forallb (fun q => q - 1 <=? i) qs).
    + unfold all_done, done_bxb. clear Hl. induction qs as [|q qt IH]; simpl; [reflexivity|].
      rewrite (forallb_const_row is_ i q Hi Hne). f_equal. exact IH.
    + unfold done_rowwise. clear Hne. revert qs Hl. induction is_ as [|x t IH]; intros [|q qt] Hl; simpl in *; try discriminate; auto.
      rewrite (Hi x) by (left; reflexivity). f_equal. apply IH; [|lia]. intros i' H. apply Hi. right. exact H.
  - intros r c Hr Hc. unfold done_bxb, done_rowwise.
    rewrite (nth_indep _ [] ((fun q0 => map (fun i0 => q0 - 1 <=? i0) is_) 0)) by (rewrite map_length; exact Hr).
    rewrite (map_nth (fun q0 => map (fun i0 => q0 - 1 <=? i0) is_) qs 0 r).
    rewrite (nth_indep _ false ((fun i0 => nth r qs 0 - 1 <=? i0) 0)) by (rewrite map_length; exact Hc).
    rewrite (map_nth (fun i0 => nth r qs 0 - 1 <=? i0) is_ 0 c).
    rewrite (nth_indep _ false ((fun iq : Z * Z => snd iq - 1 <=? fst iq) (0, 0)))
      by (rewrite map_length, combine_length; lia).
    rewrite (map_nth (fun iq : Z * Z => snd iq - 1 <=? fst iq) (combine is_ qs) (0, 0) r).
    rewrite combine_nth by exact Hl. simpl.
    rewrite (Hi (nth c is_ 0)) by (apply nth_In; exact Hc).
    rewrite (Hi (nth r is_ 0)) by (apply nth_In; lia). reflexivity.
Qed.

(* (b) with per-row quotas the matrix is not the row-wise vector: rows 0/1 with quotas 1/3 after the first
   step (counters 0 before the increment): row 0 of the matrix says "both done", row 1 "none done" *)
Theorem done_bxb_refuted : exists is_ qs, length is_ = length qs /\
  exists r, (r < length qs)%nat /\ nth r (done_bxb is_ qs) [] <> done_rowwise is_ qs.
Proof. exists [0; 0], [1; 3]. split; [reflexivity|]. exists 0%nat. split; [simpl; lia|]. vm_compute. discriminate. Qed.

Example done_bxb_equal_quota_ex :
  done_bxb [1; 1; 1] [2; 2; 2] = [[true; true; true]; [true; true; true]; [true; true; true]] /\
  done_rowwise [1; 1; 1] [2; 2; 2] = [true; true; true] /\
  done_bxb [0; 0] [1; 3] = [[true; true]; [false; false]] /\ done_rowwise [0; 0] [1; 3] = [true; false].
Proof. vm_compute. repeat split; reflexivity. Qed.

(* ------------------------------------------------------------------ lockstep batches (rl4co's rollout loop) *)
(* `while not td["done"].all(): td = env.step(td)["next"]` on a batch: every row receives one action per
   iteration, finished or not; the env offers no inert action to a finished row (its mask stays ~chosen).
   [brun] runs rows in lockstep exactly as long as the B x B matrix is not all-true. *)
Section Batch.
  Variables (inst st : Type).
  Variable step : inst -> st -> nat -> option st.
  Variable mask : st -> list bool.
  Variable cnt : st -> Z.
  Variable quota : inst -> Z.

  Fixpoint bstep (Is : list inst) (ss : list st) (acts : list nat) : option (list st) :=
    match Is, ss, acts with
    | [], [], [] => Some []
    | i0 :: Ir, s :: sr, a :: ar =>
        if nth a (mask s) false then
          match step i0 s a, bstep Ir sr ar with
          | Some s', Some sr' => Some (s' :: sr')
          | _, _ => None
          end
        else None
    | _, _, _ => None
    end.

  (* [m] = the done matrix currently in the tensordict; the loop body runs only while it is not all-true *)
  Fixpoint brun (Is : list inst) (ss : list st) (m : list (list bool)) (steps : list (list nat))
    : option (list st * list (list bool)) :=
    match steps with
    | [] => Some (ss, m)
    | acts :: r =>
        if all_done m then None
        else match bstep Is ss acts with
             | Some ss' => brun Is ss' (done_bxb (map cnt ss) (map quota Is)) r
             | None => None
             end
    end.
End Batch.
