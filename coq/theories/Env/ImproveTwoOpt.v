(* C09 -- TSPkoptEnv._local_operator, branch two_opt_mode (k_max = 2), TSPkoptEnv.get_mask (2-opt),
   and the proof that every move of the mask maps a tour to a tour, for every n. *)
From Coq Require Import ZArith List Bool Lia ZifyBool Arith Permutation.
From RL4CO Require Import Env.Improve.
Import ListNotations.

(* one iteration of the "reverse loop":
     cur_next = solution.gather(1, cur)
     rec.scatter_(1, cur_next, where(cur != second, cur, rec.gather(1, cur_next)))
     cur = where(cur != second, cur_next, cur)                                         *)
Definition two_opt_body (sol : list nat) (second : nat) (st : list nat * nat) : list nat * nat :=
  let rec := fst st in
  let cur := snd st in
  let cur_next := nxt sol cur in
  (set_nth cur_next (if Nat.eqb cur second then nxt rec cur_next else cur) rec,
   if Nat.eqb cur second then cur else cur_next).

Definition two_opt (sol : list nat) (first second : nat) : list nat :=
  let n := length sol in
  let argsort := argsort sol in
  (* fix connection for first node *)
  let pre_first := nth first argsort 0 in
  let pre_first := if Nat.eqb pre_first second then first else pre_first in
  let rec := set_nth pre_first second sol in
  (* fix connection for second node *)
  let post_second := nxt sol second in
  let post_second := if Nat.eqb post_second first then second else post_second in
  let rec := set_nth first post_second rec in
  (* reverse loop, num_loc iterations *)
  fst (iterate (two_opt_body sol second) n (rec, first)).

(* TSPkoptEnv.get_mask in two_opt_mode: ~eye(gs) *)
Definition two_opt_mask (n first second : nat) : bool :=
  Nat.ltb first n && Nat.ltb second n && negb (Nat.eqb first second).

(* ------------------------------------------------------------------ proof *)

Lemma hd_rev_last (a : nat) A d : hd d (rev (a :: A)) = last A a.
Proof.
  destruct (list_last_cases A) as [->|[A0 [z ->]]]; [reflexivity|].
  simpl. rewrite rev_app_distr. simpl. rewrite last_last. reflexivity.
Qed.

Lemma iterate_two_opt_stop sol second rec k :
  iterate (two_opt_body sol second) k (rec, second) = (rec, second).
Proof.
  induction k as [|k IH]; [reflexivity|]. cbn [iterate].
  unfold two_opt_body at 2. cbn [fst snd]. rewrite Nat.eqb_refl. unfold nxt at 2. rewrite set_nth_same. exact IH.
Qed.

(* the reverse loop started at [a] with segment a :: A = a_0 .. a_m (= second) of the old tour:
   it links a_{i+1} -> a_i and leaves every other entry alone *)
Lemma two_opt_loop sol second : forall A a k rec0,
  chain sol (a :: A) -> NoDup (a :: A) -> last A a = second -> length A <= k ->
  (forall x, In x A -> x < length rec0) ->
  let res := fst (iterate (two_opt_body sol second) k (rec0, a)) in
  length res = length rec0 /\ chain res (rev (a :: A)) /\ (forall v, ~ In v A -> nxt res v = nxt rec0 v).
Proof.
  induction A as [|b A IH]; intros a k rec0 Hc Hnd Hl Hk Hr.
  - simpl in Hl. subst a. rewrite iterate_two_opt_stop. cbn [fst]. repeat split; auto.
  - destruct k as [|k]; [simpl in Hk; lia|].
    apply chain_cons2 in Hc as [Eb Hc].
    rewrite last_cons_default in Hl.
    assert (Hne : a <> second).
    { intros Heq. apply NoDup_cons_iff in Hnd as [Hh _]. apply Hh. rewrite Heq, <- Hl. apply last_in_cons. }
    assert (Hstep : two_opt_body sol second (rec0, a) = (set_nth b a rec0, b)).
    { unfold two_opt_body. cbn [fst snd].
      destruct (Nat.eqb a second) eqn:Ea; [apply Nat.eqb_eq in Ea; contradiction|]. rewrite Eb. reflexivity. }
    cbn [iterate]. rewrite Hstep.
    apply NoDup_cons_iff in Hnd as [Hh Hnd'].
    assert (Hk' : length A <= k) by (simpl in Hk; lia).
    assert (Hr' : forall x, In x A -> x < length (set_nth b a rec0)).
    { intros x Hx. rewrite set_nth_length. apply Hr. right. exact Hx. }
    destruct (IH b k (set_nth b a rec0) Hc Hnd' Hl Hk' Hr') as [Hlen [Hch Hun]].
    pose proof (proj1 (proj1 (NoDup_cons_iff b A) Hnd')) as Hb.
    split; [rewrite Hlen, set_nth_length; reflexivity|]. split.
    + change (rev (a :: b :: A)) with ((rev A ++ [b]) ++ [a]).
      rewrite <- app_assoc. cbn [app]. apply chain_app. split; [exact Hch|].
      apply chain_cons2. split; [|exact I].
      rewrite Hun by exact Hb. unfold nxt at 1. apply nth_set_nth_eq. apply Hr. left. reflexivity.
    + intros v Hv. rewrite Hun by (intros Hi; apply Hv; right; exact Hi).
      unfold nxt at 1. rewrite nth_set_nth_neq; [reflexivity|]. intros ->. apply Hv. left. reflexivity.
Qed.

(* SPEC-level description of the move: the visiting order seen from [first], first :: A ++ B with the
   segment first :: A ending at [second], becomes rev (first :: A) ++ B *)
Lemma two_opt_cyc sol first A B :
  is_tour sol -> cyc sol (first :: A ++ B) -> full (length sol) (first :: A ++ B) ->
  length (two_opt sol first (last A first)) = length sol /\
  cyc (two_opt sol first (last A first)) (rev (first :: A) ++ B).
Proof.
  set (second := last A first). set (n := length sol).
  intros Ht Hc Hf.
  pose proof Hc as [Hnd Hch]. change (hd 0 (first :: A ++ B)) with first in Hch.
  assert (Hfirst : first < n) by (apply Hf; left; reflexivity).
  assert (Hsec_in : In second (first :: A)) by apply last_in_cons.
  assert (HrA : forall x, In x A -> x < n) by (intros x Hx; apply Hf; right; apply in_or_app; left; exact Hx).
  assert (Hpre : nth first (argsort sol) 0 = last (A ++ B) first).
  { rewrite <- (cyc_last_edge _ _ _ Hc) at 1.
    assert (Hlt : last (A ++ B) first < n) by (apply Hf; apply last_in_cons).
    apply argsort_pred; [exact Hlt|rewrite (cyc_last_edge _ _ _ Hc); exact Hfirst|].
    intros j Hj E. apply (is_tour_nxt_inj _ Ht); assumption. }
  change (first :: A ++ B) with ((first :: A) ++ B) in Hnd.
  apply NoDup_app_iff in Hnd as [HndA [HndB Hdisj]].
  assert (Hch' : chain sol ((first :: A) ++ B ++ [first])) by (rewrite app_assoc; exact Hch).
  assert (HchA : chain sol (first :: A)) by (apply chain_app_l in Hch'; exact Hch').
  assert (HfirstA : ~ In first A) by (inversion HndA; assumption).
  assert (Hlen_l : S (length A + length B) = n).
  { rewrite <- (full_NoDup_length _ _ (proj1 Hc) Hf). simpl. rewrite app_length. reflexivity. }
  unfold two_opt. fold n. rewrite Hpre.
  destruct B as [|b B].
  - (* the segment is the whole cycle: complete reversal *)
    rewrite app_nil_r in *. fold second. rewrite Nat.eqb_refl.
    assert (Eps : nxt sol second = first) by (apply (cyc_last_edge _ _ _ Hc)).
    rewrite Eps, Nat.eqb_refl.
    set (rec0 := set_nth first second (set_nth first second sol)).
    assert (Hl0 : length rec0 = n) by (unfold rec0; rewrite !set_nth_length; reflexivity).
    assert (Hk : length A <= n) by (simpl in Hlen_l; lia).
    assert (Hr0 : forall x, In x A -> x < length rec0) by (intros x Hx; rewrite Hl0; apply HrA; exact Hx).
    destruct (two_opt_loop sol second A first n rec0 HchA HndA eq_refl Hk Hr0) as [Hlen [Hrev Hun]].
    split; [rewrite Hlen; exact Hl0|]. rewrite app_nil_r. split.
    + apply NoDup_rev. exact HndA.
    + rewrite hd_rev_last. fold second.
      change (rev (first :: A)) with (rev A ++ [first]). rewrite <- app_assoc. cbn [app].
      apply chain_app. split; [exact Hrev|]. apply chain_cons2. split; [|exact I].
      rewrite Hun by exact HfirstA. unfold nxt, rec0. apply nth_set_nth_eq. rewrite set_nth_length. exact Hfirst.
  - (* proper segment; e = predecessor of first lies outside the segment *)
    destruct (list_last_cases (b :: B)) as [E|[B1 [e EB]]]; [discriminate|].
    assert (Ee : last (A ++ b :: B) first = e) by (rewrite EB, app_assoc; apply last_last).
    rewrite Ee.
    assert (HeB : In e (b :: B)) by (rewrite EB; apply in_or_app; right; left; reflexivity).
    assert (He_notA : ~ In e (first :: A)) by (intros Hi; exact (Hdisj e Hi HeB)).
    assert (He_n : e < n) by (apply Hf; right; apply in_or_app; right; exact HeB).
    assert (Hes : e <> second) by (intros ->; exact (He_notA Hsec_in)).
    assert (Hef : e <> first) by (intros ->; apply He_notA; left; reflexivity).
    destruct (Nat.eqb e second) eqn:Ees; [apply Nat.eqb_eq in Ees; contradiction|].
    assert (Eps : nxt sol second = b).
    { apply chain_last_edge.
      change ((b :: B) ++ [first]) with (b :: (B ++ [first])) in Hch'.
      apply chain_app in Hch' as [Hch' _]. exact Hch'. }
    fold second. rewrite Eps.
    assert (Hbf : b <> first) by (intros ->; apply (Hdisj first); left; reflexivity).
    destruct (Nat.eqb b first) eqn:Ebf; [apply Nat.eqb_eq in Ebf; contradiction|].
    set (rec0 := set_nth first b (set_nth e second sol)).
    assert (Hl0 : length rec0 = n) by (unfold rec0; rewrite !set_nth_length; reflexivity).
    assert (Hk : length A <= n) by lia.
    assert (Hr0 : forall x, In x A -> x < length rec0) by (intros x Hx; rewrite Hl0; apply HrA; exact Hx).
    destruct (two_opt_loop sol second A first n rec0 HchA HndA eq_refl Hk Hr0) as [Hlen [Hrev Hun]].
    set (res := fst (iterate (two_opt_body sol second) n (rec0, first))) in *.
    split; [rewrite Hlen; exact Hl0|]. split.
    + eapply Permutation_NoDup; [|exact (proj1 Hc)].
      change (first :: A ++ b :: B) with ((first :: A) ++ b :: B).
      apply Permutation_app_tail. apply Permutation_rev.
    + assert (Ehd : hd 0 (rev (first :: A) ++ b :: B) = second).
      { pose proof (hd_rev_last first A 0) as Hh. fold second in Hh.
        destruct (rev (first :: A)) as [|s R] eqn:ER.
        - apply (f_equal (@length nat)) in ER. rewrite rev_length in ER. simpl in ER. lia.
        - simpl in Hh. simpl. exact Hh. }
      rewrite Ehd.
      change (rev (first :: A)) with (rev A ++ [first]). rewrite <- !app_assoc. cbn [app].
      apply chain_app. split; [exact Hrev|].
      apply chain_cons2. split.
      * rewrite Hun by exact HfirstA. unfold nxt, rec0. apply nth_set_nth_eq. rewrite set_nth_length. exact Hfirst.
      * change (b :: B ++ [second]) with ((b :: B) ++ [second]). rewrite EB. rewrite <- app_assoc. cbn [app].
        apply chain_app. split.
        -- (* links inside b :: B are those of the old tour *)
           rewrite <- EB.
           assert (HchB : chain sol (b :: B)).
           { apply chain_app_r in Hch'. apply chain_app_l in Hch'. exact Hch'. }
           eapply chain_ext; [|exact HchB]. intros v Hv. rewrite EB, removelast_last in Hv.
           assert (HvB : In v (b :: B)) by (rewrite EB; apply in_or_app; left; exact Hv).
           rewrite Hun by (intros Hi; apply (Hdisj v); [right; exact Hi|exact HvB]).
           unfold nxt, rec0. rewrite nth_set_nth_neq.
           ++ rewrite nth_set_nth_neq; [reflexivity|]. intros ->.
              rewrite EB in HndB. apply NoDup_app_iff in HndB as [_ [_ Hd]]. apply (Hd e Hv). left. reflexivity.
           ++ intros ->. apply (Hdisj first); [left; reflexivity|exact HvB].
        -- apply chain_cons2. split; [|exact I].
           rewrite Hun by (intros Hi; apply He_notA; right; exact Hi).
           unfold nxt, rec0. rewrite nth_set_nth_neq by exact Hef. apply nth_set_nth_eq. exact He_n.
Qed.

(* THEOREM (all n): every move of the 2-opt mask maps a tour to a tour *)
Theorem two_opt_valid sol first second :
  is_tour sol -> two_opt_mask (length sol) first second = true -> is_tour (two_opt sol first second).
Proof.
  intros Ht Hm. unfold two_opt_mask in Hm.
  apply andb_prop in Hm as [Hm _]. apply andb_prop in Hm as [H1 H2].
  apply Nat.ltb_lt in H1, H2.
  destruct (is_tour_cyc_from sol first Ht H1) as [t [Hc Hf]].
  assert (Hs : In second (first :: t)) by (apply Hf; exact H2).
  assert (Hsplit : exists A B, t = A ++ B /\ last A first = second).
  { destruct Hs as [<-|Hs]; [exists [], t; split; reflexivity|].
    apply in_split in Hs as [t1 [t2 ->]]. exists (t1 ++ [second]), t2. split.
    - rewrite <- app_assoc. reflexivity.
    - apply last_last. }
  destruct Hsplit as [A [B [-> <-]]].
  destruct (two_opt_cyc sol first A B Ht Hc Hf) as [Hlen Hcyc].
  apply (cyc_full_is_tour _ _ Hcyc). rewrite Hlen.
  eapply full_perm; [|exact Hf].
  change (first :: A ++ B) with ((first :: A) ++ B). apply Permutation_app_tail. apply Permutation_rev.
Qed.

(* the hypothesis first <> second of the mask is not needed for validity (the operator is then the identity
   on the order), only the range conditions are *)
Theorem two_opt_valid_in_range sol first second :
  is_tour sol -> first < length sol -> second < length sol -> is_tour (two_opt sol first second).
Proof.
  intros Ht H1 H2.
  destruct (is_tour_cyc_from sol first Ht H1) as [t [Hc Hf]].
  assert (Hs : In second (first :: t)) by (apply Hf; exact H2).
  assert (Hsplit : exists A B, t = A ++ B /\ last A first = second).
  { destruct Hs as [<-|Hs]; [exists [], t; split; reflexivity|].
    apply in_split in Hs as [t1 [t2 ->]]. exists (t1 ++ [second]), t2. split.
    - rewrite <- app_assoc. reflexivity.
    - apply last_last. }
  destruct Hsplit as [A [B [-> <-]]].
  destruct (two_opt_cyc sol first A B Ht Hc Hf) as [Hlen Hcyc].
  apply (cyc_full_is_tour _ _ Hcyc). rewrite Hlen.
  eapply full_perm; [|exact Hf].
  change (first :: A ++ B) with ((first :: A) ++ B). apply Permutation_app_tail. apply Permutation_rev.
Qed.

(* non-vacuity: a 6-node tour 0 -> 3 -> 1 -> 5 -> 2 -> 4 -> 0 and the move (first, second) = (1, 2) *)
Example two_opt_ex :
  is_tourb [3; 5; 4; 1; 0; 2] = true /\ two_opt_mask 6 1 2 = true /\
  two_opt [3; 5; 4; 1; 0; 2] 1 2 = [3; 4; 5; 2; 0; 1] /\ is_tourb [3; 4; 5; 2; 0; 1] = true.
Proof. vm_compute. repeat split; reflexivity. Qed.
