(* PCTSPEnv / SPCTSPEnv (rl4co/envs/routing/pctsp/env.py, spctsp/env.py), one batch row, bookkeeping variable by
   variable.  Node 0 is the depot, customers are 1..n.  SPCTSPEnv is PCTSPEnv with [_stochastic = True]: the only
   difference is which prize vector [_reset] copies into td["real_prize"]; the flag is the field [stoch].
   All quantities are scaled integers; [A : arith] is the rounding applied where the code performs a float32
   operation.  td["cur_total_penalty"] is accumulated by [_step] but read by nothing observable; it is not modelled. *)
From Coq Require Import ZArith List Bool Lia ZifyBool Arith.
From RL4CO Require Import Base.Num Base.EnvSig Base.SortNat Spec.Routes.
Import ListNotations.
Open Scope Z_scope.

Record pctsp_inst := {
  dprize : list Z;         (* td["deterministic_prize"], customers only *)
  sprize : list Z;         (* td["stochastic_prize"], customers only *)
  stoch : bool;            (* env.stochastic: false for PCTSPEnv, true for SPCTSPEnv *)
  pen : list Z;            (* td["penalty"], customers only *)
  pdist : list (list Z);   (* pairwise distances of depot :: locs, used by the reward only *)
  preq : Z;                (* the literal 1.0 of get_action_mask, scaled *)
  pthr : Z;                (* the literal 1 - 1e-5 of check_solution_validity, as the float32 it is compared in, scaled *)
}.

(* _reset: real_prize = stochastic_prize if self.stochastic else deterministic_prize *)
Definition real_prize (i : pctsp_inst) : list Z := if stoch i then sprize i else dprize i.
Definition pn_of (i : pctsp_inst) : nat := length (pen i).                  (* generator.num_loc *)
Definition prize_wd (i : pctsp_inst) : list Z := 0 :: real_prize i.         (* real_prize_with_depot *)
Definition pen_wd (i : pctsp_inst) : list Z := 0 :: pen i.                  (* penalty_with_depot *)
Definition prize (i : pctsp_inst) (a : nat) : Z := nth a (prize_wd i) 0.
Definition penalty (i : pctsp_inst) (a : nat) : Z := nth a (pen_wd i) 0.

Record pctsp_st := {
  pcur : nat;          (* current_node *)
  tprize : Z;          (* cur_total_prize *)
  pvis : list bool;    (* visited, n+1 entries *)
  pstep : nat;         (* i *)
  pdn : bool;          (* done *)
}.

Section Model.
  Variable A : arith.

  Definition pctsp_reset (i : pctsp_inst) : pctsp_st :=
    {| pcur := 0; tprize := 0; pvis := repeat false (S (pn_of i)); pstep := 0; pdn := false |}.

  Definition pctsp_step (i : pctsp_inst) (s : pctsp_st) (a : nat) : pctsp_st :=
    {| pcur := a;
       tprize := rnd A (tprize s + prize i a);
       pvis := set_nth a true (pvis s);
       pstep := S (pstep s);
       pdn := Nat.ltb 0 (pstep s) && Nat.eqb a 0 |}.

  (* gather on real_prize / penalty and scatter on visited must stay inside the tensors *)
  Definition pctsp_stepok (i : pctsp_inst) (s : pctsp_st) (a : nat) : bool :=
    Nat.leb a (pn_of i) && Nat.leb a (length (real_prize i)).

  Definition pctsp_done (i : pctsp_inst) (s : pctsp_st) : bool := pdn s.

  (* visited[..., 1:].int().sum(-1) *)
  Definition nvis (s : pctsp_st) : nat := countb (tl (pvis s)).
  (* mask[..., 0] (True = masked out): prize not yet reached and some customer unvisited *)
  Definition pmask_depot (i : pctsp_inst) (s : pctsp_st) : bool :=
    (tprize s <? preq i) && Nat.ltb (nvis s) (length (tl (pvis s))).
  (* mask[..., j] for j >= 1: visited[j] | visited[0] *)
  Definition pmask_loc (i : pctsp_inst) (s : pctsp_st) (j : nat) : bool :=
    nth j (pvis s) false || nth 0 (pvis s) false.
  Definition plocs (i : pctsp_inst) : list nat := seq 1 (pn_of i).
  Definition pctsp_mask (i : pctsp_inst) (s : pctsp_st) : list bool :=
    negb (pmask_depot i s) :: map (fun j => negb (pmask_loc i s j)) (plocs i).

  Definition PCTSP : Env := {|
    inst := pctsp_inst; st := pctsp_st;
    reset := pctsp_reset; step := pctsp_step; stepok := pctsp_stepok; mask := pctsp_mask; done := pctsp_done |}.

  (* check_solution_validity.
     sorted actions: every entry after the first is 0 or strictly above its predecessor *)
  Fixpoint nodup_sorted (s : list nat) : bool :=
    match s with
    | x :: ((y :: _) as r) => (Nat.eqb y 0 || Nat.ltb x y) && nodup_sorted r
    | _ => true
    end.
  (* p.sum(-1): the prizes gathered at the actions *)
  Definition psum (i : pctsp_inst) (acts : list nat) : Z :=
    fold_left (fun acc a => rnd A (acc + prize i a)) acts 0.
  Definition nzeros (acts : list nat) : nat := length (filter (Nat.eqb 0) acts).
  Definition pctsp_checker (i : pctsp_inst) (acts : list nat) : bool :=
    forallb (fun a => Nat.leb a (pn_of i)) acts &&          (* gather index in range, else torch raises *)
    nodup_sorted (sort_nat acts) &&
    ((pthr i <=? psum i acts) || Nat.eqb (length acts - nzeros acts) (pn_of i)).
End Model.

Definition pdfun (i : pctsp_inst) (a b : nat) : Z := mget (pdist i) a b.

(* _get_reward: saved_penalty.sum(-1) - (length + penalty[1:].sum(-1)), length = get_tour_length(depot :: locs[actions])
   (the cyclic gather + roll sum [cyclic_len] of Spec/Routes.v).  A one-column action tensor returns 0 (after
   asserting that it is all zeros); exact sums -- the implementation's float32 sums are compared with a tolerance. *)
Definition pctsp_reward (i : pctsp_inst) (acts : list nat) : Z :=
  match acts with
  | [_] => 0
  | _ => sumZ (map (penalty i) acts) - (cyclic_len (pdfun i) acts + sumZ (pen i))
  end.
