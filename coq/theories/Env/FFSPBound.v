(* Env/FFSPBound.v -- an instance-level step bound for FFSPEnv (C02): however the policy uses the wait action, a
   mask-confined episode reaches done after at most  (J*S*(Dmax+2) + 2) * S*M  steps, Dmax = the largest duration.

   Why waiting cannot go on for ever.  Every step moves the clock (time_idx, sub_time_idx) forward (SchedBatch2).  Time
   itself is bounded: with  wmax = the largest job wait counter  and  A = the number of real-job steps so far,
        Phi = time_idx + wmax + (J*S - A) * (Dmax + 2)
   does not grow while some operation is in process (a time step lowers wmax), drops by at least 2 at every real-job step,
   and grows by one only in an "idle sweep" (a full pass over the stage x machine table with nothing in process).  At most
   one idle sweep fits into one run of _move_to_next_machine, and it ends at the first machine of the least advanced job's
   stage with nothing in process -- where the mask does NOT offer the wait action, so the next step is a real-job step that
   pays for it. *)
From Coq Require Import ZArith List Bool Lia ZifyBool Arith Wf_nat.
From RL4CO Require Import Base.FFSPLists Spec.FlowShop Env.FFSP Env.FFSPProofs Env.SchedBatch2.
Import ListNotations.
Import FFSP FFSPProofs.
Open Scope Z_scope.

(* ================================================================ the largest job wait counter, the largest duration *)
Definition wmax (i : inst) (s : st) : Z := maxl (0 :: map (jw s) (seq 0 (nJ i))).
Definition Dall (i : inst) : Z := maxl (0 :: concat (rt i)).

Lemma maxl0_nonneg l : 0 <= maxl (0 :: l).
Proof. apply maxl_ge. left. reflexivity. Qed.
Lemma maxl0_le l b : 0 <= b -> (forall y, In y l -> y <= b) -> maxl (0 :: l) <= b.
Proof.
  intros Hb H. assert (Hin : In (maxl (0 :: l)) (0 :: l)) by (apply maxl_in; discriminate).
  destruct Hin as [<-|Hin]; [exact Hb|apply H; exact Hin].
Qed.
Lemma wmax_ge i s j : (j < nJ i)%nat -> jw s j <= wmax i s.
Proof. intros Hj. apply maxl_ge. right. apply in_map. apply in_seq. lia. Qed.
Lemma wmax_nonneg i s : 0 <= wmax i s.
Proof. apply maxl0_nonneg. Qed.
Lemma wmax_le i s b : 0 <= b -> (forall j, (j < nJ i)%nat -> jw s j <= b) -> wmax i s <= b.
Proof.
  intros Hb H. apply maxl0_le; [exact Hb|]. intros y Hy. apply in_map_iff in Hy as [j [<- Hj]]. apply in_seq in Hj. apply H. lia.
Qed.
Lemma wmax_attained i s : wmax i s = 0 \/ exists j, (j < nJ i)%nat /\ wmax i s = jw s j.
Proof.
  assert (Hin : In (wmax i s) (0 :: map (jw s) (seq 0 (nJ i)))) by (apply maxl_in; discriminate).
  destruct Hin as [E|Hin]; [left; symmetry; exact E|]. right. apply in_map_iff in Hin as [j [E Hj]]. apply in_seq in Hj.
  exists j. split; [lia|symmetry; exact E].
Qed.
Lemma pt_le_Dall i j m : WF i -> (j < nJ i)%nat -> pt i j m <= Dall i.
Proof.
  intros W Hj. unfold pt, Dall. destruct (Nat.ltb m (length (nth j (rt i) []))) eqn:E.
  - apply Nat.ltb_lt in E. apply maxl_ge. right. apply in_concat. exists (nth j (rt i) []). split.
    + apply nth_In. rewrite (wf_rt i W). exact Hj.
    + apply nth_In. exact E.
  - apply Nat.ltb_ge in E. rewrite nth_overflow by exact E. apply maxl0_nonneg.
Qed.

(* machine wait counters never exceed the largest job wait counter *)
Definition MwInv (i : inst) (s : st) : Prop := forall m, (m < nT i)%nat -> mw s m <= wmax i s.

(* ================================================================ where _move_to_next_machine stops *)
Lemma move_first i : forall f s s', move i f s = Some s' ->
  exists n, s' = iter_tick i (S n) s /\ forall k, (k < n)%nat -> readyb i (iter_tick i (S k) s) = false.
Proof.
  induction f as [|f IH]; intros s s' H; cbn [move] in H; [discriminate|].
  destruct (readyb i (tick i s)) eqn:R.
  - inversion H; subst. exists 0%nat. split; [reflexivity|]. intros k Hk. lia.
  - destruct (IH _ _ H) as (n & E & Hn). exists (S n). split; [exact E|].
    intros [|k] Hk; [exact R|]. cbn [iter_tick]. apply (Hn k). lia.
Qed.

(* the least job_location among the real jobs of an unfinished row *)
Lemma min_loc i s : Inv i s -> done s = false ->
  exists g j0, (g < nS i)%nat /\ (j0 < nJ i)%nat /\ loc s j0 = g /\ forall j, (j < nJ i)%nat -> (g <= loc s j)%nat.
Proof.
  intros I Hnd. destruct (unfinished_job i s I Hnd) as (j1 & Hj1 & Hl1).
  set (P := fun g : nat => exists j, (j < nJ i)%nat /\ loc s j = g).
  assert (Hdec : forall g, P g \/ ~ P g).
  { intros g. destruct (existsb (fun j => Nat.eqb (loc s j) g) (seq 0 (nJ i))) eqn:E.
    - left. apply existsb_seq_true in E as (j & Hj & E). apply Nat.eqb_eq in E. exists j. auto.
    - right. intros (j & Hj & E'). assert (existsb (fun j => Nat.eqb (loc s j) g) (seq 0 (nJ i)) = true); [|congruence].
      apply existsb_seq_true. exists j. split; [exact Hj|apply Nat.eqb_eq; exact E']. }
  destruct (dec_inh_nat_subset_has_unique_least_element P Hdec) as (g & [[(j0 & Hj0 & E0) Hmin] _]).
  { exists (loc s j1). exists j1. auto. }
  exists g, j0. split; [|split; [exact Hj0|split; [exact E0|]]].
  - assert (g <= loc s j1)%nat by (apply Hmin; exists j1; auto). lia.
  - intros j Hj. apply Hmin. exists j. auto.
Qed.

(* one run of the loop: the elapsed time w is at most wmax + 1 (at most ONE idle sweep), the counters have their
   closed forms, and after an idle sweep the row stands where waiting is not offered *)
Lemma move_idle i f x s2 :
  WF i -> Inv i x -> MwInv i x -> done x = false -> move i f x = Some s2 ->
  let w := time s2 - time x in
  0 <= w <= wmax i x + 1 /\
  (forall j, jw s2 j = Z.max 0 (jw x j - w)) /\ (forall j, loc s2 j = loc x j) /\
  (forall m, mw s2 m = Z.max 0 (mw x m - w)) /\
  (w = wmax i x + 1 -> nth (nJ i) (mask_of i s2) false = false).
Proof.
  intros W I Mw Hnd Hmv. cbv zeta.
  destruct (move_inv i W f x s2 I Hmv) as [I2 R2].
  destruct (move_first i f x s2 Hmv) as (n & E2 & Hfirst).
  pose proof (i_shape i x I) as Sh. pose proof (sh_sub i x Sh) as Hsub.
  pose proof (wf_M i W) as HM. pose proof (wf_S i W) as HS.
  assert (HT : (0 < nT i)%nat) by (apply nT_pos; exact W).
  destruct (iter_tick_closed i (S n) x Hsub (i_mw i x I) (i_jw i x I)) as (A1 & A2 & A3 & A4 & A5 & A6 & _).
  rewrite <- E2 in A1, A2, A3, A4, A5, A6.
  destruct (min_loc i x I Hnd) as (g & j0 & Hg & Hj0 & El0 & Hmin).
  set (W0 := wmax i x). assert (HW0 : 0 <= W0) by apply wmax_nonneg.
  set (T := nT i) in *.
  set (p := (g * nM i)%nat).
  assert (Hp : (p < T)%nat) by (unfold p, T, nT; nia).
  assert (Hps : stage_of i p = g) by (unfold stage_of, p; apply Nat.div_mul; lia).
  (* the tick count that reaches (time x + W0 + 1, sub = p) *)
  set (k0 := ((Z.to_nat W0 + 1) * T + p - sub x)%nat).
  assert (Hk0 : (1 <= k0)%nat) by (unfold k0; nia).
  destruct (iter_tick_closed i k0 x Hsub (i_mw i x I) (i_jw i x I)) as (B1 & B2 & B3 & B4 & B5 & B6 & B7).
  set (y := iter_tick i k0 x) in *. fold T in B1, B3.
  assert (Ey : time y = time x + W0 + 1 /\ Z.of_nat (sub y) = Z.of_nat p).
  { apply (euclid_unique (Z.of_nat T)); [lia|lia|]. rewrite B3. unfold k0. nia. }
  destruct Ey as [Ety Esy]. assert (Esy' : sub y = p) by lia.
  assert (Ry : readyb i y = true).
  { unfold readyb. apply andb_true_intro. split.
    - rewrite B4. assert (Hm : (mach y < T)%nat).
      { rewrite (B7 ltac:(lia)). apply (wf_mtab i W). rewrite Esy'. exact Hp. }
      pose proof (Mw (mach y) Hm). fold W0 in H. lia.
    - apply existsb_seq_true. exists j0. split; [exact Hj0|]. rewrite B6, B5, Esy', Hps, El0, Nat.eqb_refl. cbn [andb].
      pose proof (wmax_ge i x j0 Hj0). fold W0 in H. lia. }
  (* the loop stops no later than y *)
  assert (Hle : (S n <= k0)%nat).
  { destruct (Nat.le_gt_cases (S n) k0) as [H|H]; [exact H|]. exfalso.
    destruct k0 as [|k]; [lia|]. assert (Hk : (k < n)%nat) by lia. pose proof (Hfirst k Hk) as Hf. fold y in Hf. congruence. }
  (* clock order = tick order *)
  assert (Hpos : time s2 * Z.of_nat T + Z.of_nat (sub s2) <= time y * Z.of_nat T + Z.of_nat (sub y)) by (rewrite A3, B3; lia).
  assert (Htle : time s2 <= time y) by nia.
  split; [lia|]. split; [exact A5|]. split; [exact A6|]. split; [exact A4|].
  intros Ew.
  assert (Et2 : time s2 = time y) by lia.
  assert (Hsub2 : (sub s2 <= p)%nat) by nia.
  assert (Hjw0 : forall j, (j < nJ i)%nat -> jw s2 j = 0).
  { intros j Hj. rewrite A5. pose proof (wmax_ge i x j Hj). fold W0 in H. lia. }
  (* the stage where the row stands is the least job_location *)
  unfold readyb in R2. apply andb_prop in R2 as [_ R2]. apply existsb_seq_true in R2 as (j1 & Hj1 & R2).
  apply andb_prop in R2 as [R2 _]. apply Nat.eqb_eq in R2. rewrite A6 in R2.
  assert (Hst : stage_of i (sub s2) = g).
  { assert (stage_of i (sub s2) <= g)%nat.
    { unfold stage_of. apply Nat.div_le_upper_bound; [lia|]. unfold p in Hsub2. nia. }
    pose proof (Hmin j1 Hj1). lia. }
  rewrite mask_of_wait.
  assert (E1 : existsb (fun j => (loc s2 j <? stage_of i (sub s2))%nat) (seq 0 (nJ i)) = false).
  { destruct (existsb (fun j => (loc s2 j <? stage_of i (sub s2))%nat) (seq 0 (nJ i))) eqn:E; [|reflexivity].
    apply existsb_seq_true in E as (j & Hj & E). apply Nat.ltb_lt in E. rewrite A6, Hst in E. pose proof (Hmin j Hj). lia. }
  assert (E2' : existsb (fun j => (loc s2 j =? stage_of i (sub s2))%nat && (0 <? jw s2 j)) (seq 0 (nJ i)) = false).
  { destruct (existsb (fun j => (loc s2 j =? stage_of i (sub s2))%nat && (0 <? jw s2 j)) (seq 0 (nJ i))) eqn:E; [|reflexivity].
    apply existsb_seq_true in E as (j & Hj & E). apply andb_prop in E as [_ E]. rewrite (Hjw0 j Hj) in E. discriminate. }
  assert (Ed : done s2 = false).
  { destruct (move_pos i f x s2 Hsub Hmv) as [_ Hd]. rewrite Hd. exact Hnd. }
  rewrite E1, E2', Ed. reflexivity.
Qed.

(* ================================================================ the potential *)
Definition Rem (i : inst) (s : st) : Z := (Z.of_nat (nJ i * nS i) - Z.of_nat (loc_sum i s)) * (Dall i + 2).
Definition Phi (i : inst) (s : st) : Z := time s + wmax i s + Rem i s.
Definition Phi0 (i : inst) : Z := Z.of_nat (nJ i * nS i) * (Dall i + 2).
(* Phi is within Phi0, or one above it in a state that does not offer the wait action *)
Definition PhiInv (i : inst) (s : st) : Prop :=
  Phi i s <= Phi0 i \/ (Phi i s <= Phi0 i + 1 /\ nth (nJ i) (mask_of i s) false = false).

Lemma Dall_nonneg i : 0 <= Dall i.
Proof. apply maxl0_nonneg. Qed.
Lemma loc_sum_le i s : Inv i s -> (loc_sum i s <= nJ i * nS i)%nat.
Proof. intros I. unfold loc_sum. apply sumn_le. intros j Hj. apply (i_loc i s I). lia. Qed.
Lemma Rem_nonneg i s : Inv i s -> 0 <= Rem i s.
Proof. intros I. unfold Rem. pose proof (loc_sum_le i s I). pose proof (Dall_nonneg i). nia. Qed.
Lemma time_le_Phi i s : Inv i s -> time s <= Phi i s.
Proof. intros I. unfold Phi. pose proof (wmax_nonneg i s). pose proof (Rem_nonneg i s I). lia. Qed.

Lemma loc_sum_ext i s s' : (forall j, loc s' j = loc s j) -> loc_sum i s' = loc_sum i s.
Proof. intros H. unfold loc_sum. apply sumn_ext. intros j _. apply H. Qed.
Lemma wmax_ext_le i s s' b : 0 <= b -> (forall j, (j < nJ i)%nat -> jw s' j <= jw s j + b) -> wmax i s' <= wmax i s + b.
Proof.
  intros Hb H. apply wmax_le; [pose proof (wmax_nonneg i s); lia|]. intros j Hj. pose proof (H j Hj). pose proof (wmax_ge i s j Hj). lia.
Qed.

(* the first half of a step *)
Lemma act_phi i s a : WF i -> Inv i s -> Dec i s -> MwInv i s -> nth a (mask s) false = true ->
  let x := act i s a in
  time x = time s /\ MwInv i x /\
  (if (a <? nJ i)%nat then Phi i x <= Phi i s - 2 else Phi i x = Phi i s).
Proof.
  intros W I D Mw Hm. cbv zeta. pose proof (i_shape i s I) as Sh.
  assert (Hle : (a <= nJ i)%nat) by (unfold mask in Hm; rewrite (d_mask i s D) in Hm; exact (mask_of_range i s a Hm)).
  pose proof (act_jw i s a Sh Hle) as Ejw. pose proof (act_mw i s a W Sh Hle) as Emw. pose proof (act_loc i s a Sh Hle) as Eloc.
  pose proof (mach_lt i s W Sh) as Hmach.
  split; [reflexivity|].
  destruct (a <? nJ i)%nat eqn:Ea.
  - apply Nat.ltb_lt in Ea.
    assert (Hjw0 : jw s a = 0).
    { unfold mask in Hm. rewrite (d_mask i s D), mask_of_job in Hm by exact Ea. apply andb_prop in Hm as [_ H]. lia. }
    set (d := jdur i a (mach s)) in *.
    assert (Hd : 0 <= d <= Dall i).
    { unfold d. rewrite jdur_job by (try exact W; exact Ea). split; [apply (wf_dur i W); assumption|apply pt_le_Dall; assumption]. }
    assert (Hge : forall j, (j < nJ i)%nat -> jw s j <= jw (act i s a) j).
    { intros j Hj. rewrite Ejw. destruct (Nat.eqb_spec j a) as [->|]; [rewrite Hjw0; lia|lia]. }
    split.
    + intros m Hm'. rewrite Emw. destruct (Nat.eqb m (mach s)).
      * fold d. pose proof (wmax_ge i (act i s a) a Ea) as H. rewrite Ejw, Nat.eqb_refl in H. exact H.
      * pose proof (Mw m Hm'). assert (wmax i s <= wmax i (act i s a)); [|lia].
        apply wmax_le; [apply wmax_nonneg|]. intros j Hj. pose proof (Hge j Hj). pose proof (wmax_ge i (act i s a) j Hj). lia.
    + unfold Phi, Rem.
      assert (Hls : loc_sum i (act i s a) = S (loc_sum i s)).
      { unfold loc_sum. apply (sumn_bump (loc s) (loc (act i s a)) a); [lia| |].
        - rewrite Eloc, Nat.eqb_refl. reflexivity.
        - intros j Hj. rewrite Eloc. replace (Nat.eqb j a) with false by (symmetry; apply Nat.eqb_neq; exact Hj). reflexivity. }
      rewrite Hls.
      assert (Hw : wmax i (act i s a) <= wmax i s + d).
      { apply wmax_ext_le; [lia|]. intros j Hj. rewrite Ejw. destruct (Nat.eqb_spec j a) as [->|]; [fold d; rewrite Hjw0; lia|lia]. }
      cbn [act time]. pose proof (loc_sum_le i (act i s a) (proj1 (conj (act_inv_job i s a W I D Ea Hm) I))) as Hb.
      rewrite Hls in Hb. nia.
  - apply Nat.ltb_ge in Ea. assert (a = nJ i) by lia. subst a.
    assert (Esame : forall j, (j < nJ i)%nat -> jw (act i s (nJ i)) j = jw s j).
    { intros j Hj. rewrite Ejw. replace (Nat.eqb j (nJ i)) with false by (symmetry; apply Nat.eqb_neq; lia). reflexivity. }
    assert (Ew : wmax i (act i s (nJ i)) = wmax i s).
    { apply Z.le_antisymm; apply wmax_le; try apply wmax_nonneg; intros j Hj.
      - rewrite (Esame j Hj). apply wmax_ge. exact Hj.
      - rewrite <- (Esame j Hj). apply wmax_ge. exact Hj. }
    split.
    + intros m Hm'. rewrite Emw, Ew. destruct (Nat.eqb m (mach s)); [rewrite jdur_dummy by exact W; apply wmax_nonneg|apply Mw; exact Hm'].
    + unfold Phi, Rem. rewrite Ew.
      assert (Hls : loc_sum i (act i s (nJ i)) = loc_sum i s).
      { unfold loc_sum. apply sumn_ext. intros j Hj. rewrite Eloc. replace (Nat.eqb j (nJ i)) with false by (symmetry; apply Nat.eqb_neq; lia). reflexivity. }
      rewrite Hls. reflexivity.
Qed.

(* the second half: the loop adds the number of idle sweeps (0 or 1) *)
Lemma move_phi i f x s2 : WF i -> Inv i x -> MwInv i x -> done x = false -> move i f x = Some s2 ->
  MwInv i s2 /\
  (Phi i s2 <= Phi i x \/ (Phi i s2 <= Phi i x + 1 /\ nth (nJ i) (mask_of i s2) false = false)).
Proof.
  intros W I Mw Hnd Hmv. destruct (move_idle i f x s2 W I Mw Hnd Hmv) as ([Hw0 Hw1] & Hjw & Hloc & Hmw & Hidle).
  set (w := time s2 - time x) in *.
  assert (Hwm : wmax i s2 <= Z.max 0 (wmax i x - w)).
  { apply wmax_le; [lia|]. intros j Hj. rewrite Hjw. pose proof (wmax_ge i x j Hj). lia. }
  split.
  - intros m Hm. rewrite Hmw. pose proof (Mw m Hm) as H.
    destruct (wmax_attained i x) as [E|(j & Hj & E)].
    + pose proof (wmax_nonneg i s2). lia.
    + pose proof (wmax_ge i s2 j Hj) as H2. rewrite Hjw in H2. lia.
  - assert (ER : Rem i s2 = Rem i x) by (unfold Rem; rewrite (loc_sum_ext i x s2 Hloc); reflexivity).
    unfold Phi. rewrite ER. destruct (Z.le_gt_cases w (wmax i x)) as [Hc|Hc].
    + left. lia.
    + right. assert (Ew : w = wmax i x + 1) by lia. split; [lia|apply Hidle; exact Ew].
Qed.

Lemma upd_same i s : time (upd i s) = time s /\ Phi i (upd i s) = Phi i s /\ mask_of i (upd i s) = mask_of i s /\
  (MwInv i s -> MwInv i (upd i s)).
Proof. repeat split. intros H. exact H. Qed.

(* ================================================================ along an episode *)
Record Good (i : inst) (s : st) : Prop := {
  g_inv : Inv i s; g_dec : Dec i s; g_mw : MwInv i s;
  g_time : time s <= Phi0 i + 1;
  g_phi : done s = false -> PhiInv i s;
}.

Lemma reset_good i : WF i -> Good i (reset i).
Proof.
  intros W. constructor.
  - apply reset_inv; exact W.
  - apply reset_dec; exact W.
  - intros m Hm. rewrite mw_reset. apply wmax_nonneg.
  - cbn [reset time]. unfold Phi0. pose proof (Dall_nonneg i). nia.
  - intros _. left. unfold Phi, Rem, Phi0. cbn [reset time].
    assert (E0 : loc_sum i (reset i) = 0%nat).
    { unfold loc_sum. rewrite (sumn_eq_const _ 0%nat); [lia|]. intros j _. apply loc_reset. }
    assert (Ew : wmax i (reset i) = 0).
    { apply Z.le_antisymm; [|apply wmax_nonneg]. apply wmax_le; [lia|]. intros j _. rewrite jw_reset. lia. }
    rewrite E0, Ew. lia.
Qed.

Lemma step_good i s a s' : WF i -> Good i s -> nth a (mask s) false = true -> step i s a = Some s' -> Good i s'.
Proof.
  intros W [I D Mw Ht Hphi] Hm Hs.
  destruct (step_inv i s a W I D Hm) as (s1 & Hs1 & I' & D' & Hfr). rewrite Hs in Hs1. inversion Hs1; subst s1. clear Hs1.
  destruct (act_phi i s a W I D Mw Hm) as (Etx & Mwx & Hax).
  assert (Hle : (a <= nJ i)%nat) by (unfold mask in Hm; rewrite (d_mask i s D) in Hm; exact (mask_of_range i s a Hm)).
  unfold step in Hs.
  replace ((a <=? nJ i)%nat && (mach s <? nT i)%nat) with true in Hs
    by (symmetry; apply andb_true_intro; split; [apply Nat.leb_le; exact Hle|apply Nat.ltb_lt; apply mach_lt; [exact W|exact (i_shape i s I)]]).
  destruct (done (act i s a)) eqn:Edx.
  - (* no loop: the clock stands still *)
    inversion Hs; subst s'. constructor.
    + exact I'.
    + exact D'.
    + exact Mwx.
    + cbn [upd time]. rewrite Etx. exact Ht.
    + cbn [upd done]. intros E. congruence.
  - destruct (move i (fuel_of i (act i s a)) (act i s a)) as [s2|] eqn:Emv; [|discriminate]. inversion Hs; subst s'.
    assert (Hds : done s = false).
    { destruct (done s) eqn:E; [|reflexivity]. destruct (Hfr eq_refl) as [Hd' _]. cbn [upd done] in Hd'.
      destruct (move_pos i _ (act i s a) s2 (sh_sub i s (i_shape i s I)) Emv) as [_ Hd2]. congruence. }
    assert (Ix : Inv i (act i s a)).
    { destruct (Nat.eq_dec a (nJ i)) as [->|Hne]; [exact (proj1 (act_inv_wait i s W I D))|].
      apply act_inv_job; try assumption. lia. }
    destruct (move_phi i _ (act i s a) s2 W Ix Mwx Edx Emv) as [Mw2 Hph2].
    assert (HP : PhiInv i (upd i s2)).
    { specialize (Hphi Hds). unfold PhiInv. change (Phi i (upd i s2)) with (Phi i s2). change (mask_of i (upd i s2)) with (mask_of i s2).
      destruct (a <? nJ i)%nat eqn:Ea.
      - (* real-job step: Phi drops by 2, the loop gives back at most 1 *)
        left. destruct Hphi as [Hp|[Hp _]]; destruct Hph2 as [H2|[H2 _]]; lia.
      - (* wait: it was offered, so Phi was within Phi0 *)
        apply Nat.ltb_ge in Ea. assert (a = nJ i) by lia. subst a.
        destruct Hphi as [Hp|[_ Hno]].
        + destruct Hph2 as [H2|[H2 Hno2]]; [left; lia|right; split; [lia|exact Hno2]].
        + exfalso. unfold mask in Hm. rewrite (d_mask i s D) in Hm. congruence. }
    constructor.
    + exact I'.
    + exact D'.
    + exact Mw2.
    + pose proof (time_le_Phi i (upd i s2) I') as Htp. destruct HP as [HP1|[HP1 _]]; lia.
    + intros _. exact HP.
Qed.

Lemma run_good i : WF i -> forall acts s s', Good i s -> adm i s acts = true -> run i s acts = Some s' -> Good i s'.
Proof.
  intros W. induction acts as [|a r IH]; intros s s' G Ha Hr; cbn [adm run] in *.
  - inversion Hr; subst. exact G.
  - apply andb_prop in Ha as [Hm Ha]. destruct (step i s a) as [s1|] eqn:Hs; [|discriminate].
    apply (IH s1 s' (step_good i s a s1 W G Hm Hs) Ha Hr).
Qed.

(* ================================================================ the theorems *)
(* the clock of every reachable state is bounded by the instance alone *)
Theorem ffsp_time_bound i acts s :
  wfb i = true -> adm i (reset i) acts = true -> run i (reset i) acts = Some s ->
  0 <= time s <= Z.of_nat (nJ i * nS i) * (Dall i + 2) + 1.
Proof.
  intros Hwf Ha Hr. pose proof (wfb_WF i Hwf) as W.
  pose proof (run_good i W acts _ s (reset_good i W) Ha Hr) as G. split; [exact (i_time i s (g_inv i s G))|exact (g_time i s G)].
Qed.

(* hence the step bound: an episode whose proper prefixes are unfinished has at most (J*S*(Dmax+2) + 2) * S*M steps *)
Theorem ffsp_step_bound i acts s :
  wfb i = true -> adm i (reset i) acts = true -> run i (reset i) acts = Some s ->
  (forall p q sp, acts = p ++ q -> q <> [] -> run i (reset i) p = Some sp -> done sp = false) ->
  Z.of_nat (length acts) <= (Z.of_nat (nJ i * nS i) * (Dall i + 2) + 2) * Z.of_nat (nS i * nM i).
Proof.
  intros Hwf Ha Hr Hp. pose proof (wfb_WF i Hwf) as W.
  pose proof (ffsp_length_le_clock i acts s Hwf Ha Hr Hp) as Hc.
  destruct (ffsp_time_bound i acts s Hwf Ha Hr) as [H0 Ht].
  pose proof (run_good i W acts _ s (reset_good i W) Ha Hr) as G.
  pose proof (sh_sub i s (i_shape i s (g_inv i s G))) as Hsub. unfold nT in Hsub.
  unfold pos, nT in Hc. destruct (done s); nia.
Qed.

(* the bound is not far off in its dependence on the durations: the 13-step episode of wait_i (J*S = 4, Dmax = 9, S*M = 2) *)
Example ffsp_step_bound_example :
  Dall wait_i = 9 /\ (Z.of_nat (length wait_acts) <= (Z.of_nat (nJ wait_i * nS wait_i) * (Dall wait_i + 2) + 2) * Z.of_nat (nS wait_i * nM wait_i)).
Proof. vm_compute. split; [reflexivity|discriminate]. Qed.
