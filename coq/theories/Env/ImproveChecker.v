(* C06/C09 -- check_solution_validity of TSPkoptEnv and PDPRuinRepairEnv (they inspect td["rec_best"]).
   Completeness (every valid tour is accepted) is proved; soundness is REFUTED for both: a permutation made of
   several sub-cycles is accepted. *)
From Coq Require Import ZArith List Bool Lia ZifyBool Arith Permutation Sorted.
From RL4CO Require Import Env.Improve Env.ImprovePDP.
Import ListNotations.

(* ------------------------------------------------------------------ sort, as a function *)
Fixpoint insert (x : nat) (l : list nat) : list nat :=
  match l with [] => [x] | h :: t => if Nat.leb x h then x :: l else h :: insert x t end.
Fixpoint isort (l : list nat) : list nat := match l with [] => [] | x :: t => insert x (isort t) end.

Fixpoint list_eqb (a b : list nat) : bool :=
  match a, b with
  | [], [] => true
  | x :: a', y :: b' => Nat.eqb x y && list_eqb a' b'
  | _, _ => false
  end.

Lemma list_eqb_eq a b : list_eqb a b = true <-> a = b.
Proof.
  revert b; induction a as [|x a IH]; intros [|y b]; simpl; try (split; [discriminate|discriminate]); [tauto|].
  rewrite andb_true_iff, Nat.eqb_eq, IH. split; [intros [-> ->]; reflexivity|intros H; inversion H; auto].
Qed.

Lemma insert_perm x l : Permutation (insert x l) (x :: l).
Proof.
  induction l as [|h t IH]; simpl; [apply Permutation_refl|].
  destruct (Nat.leb x h); [apply Permutation_refl|].
  eapply Permutation_trans; [apply perm_skip; exact IH|apply perm_swap].
Qed.

Lemma isort_perm l : Permutation (isort l) l.
Proof.
  induction l as [|x t IH]; simpl; [constructor|].
  eapply Permutation_trans; [apply insert_perm|apply perm_skip; exact IH].
Qed.

Lemma insert_sorted x l : StronglySorted le l -> StronglySorted le (insert x l).
Proof.
  induction l as [|h t IH]; intros Hs; simpl; [constructor; constructor|].
  inversion Hs as [|? ? Ht Hh]; subst.
  destruct (Nat.leb x h) eqn:E.
  - apply Nat.leb_le in E. constructor; [exact Hs|]. constructor; [exact E|].
    eapply Forall_impl; [|exact Hh]. intros a Ha. lia.
  - apply Nat.leb_gt in E. constructor; [apply IH; exact Ht|].
    eapply Permutation_Forall; [apply Permutation_sym, insert_perm|]. constructor; [lia|exact Hh].
Qed.

Lemma isort_sorted l : StronglySorted le (isort l).
Proof. induction l as [|x t IH]; simpl; [constructor|apply insert_sorted; exact IH]. Qed.

Lemma sorted_perm_unique : forall l l', StronglySorted le l -> StronglySorted le l' -> Permutation l l' -> l = l'.
Proof.
  induction l as [|a l IH]; intros l' Hs Hs' P.
  - apply Permutation_nil in P. subst. reflexivity.
  - destruct l' as [|a' l']; [apply Permutation_sym, Permutation_nil in P; discriminate|].
    inversion Hs as [|? ? Hl Ha]; subst. inversion Hs' as [|? ? Hl' Ha']; subst.
    assert (Haa : a = a').
    { assert (H1 : In a (a' :: l')) by (eapply Permutation_in; [exact P|left; reflexivity]).
      assert (H2 : In a' (a :: l)) by (eapply Permutation_in; [apply Permutation_sym; exact P|left; reflexivity]).
      destruct H1 as [H1|H1]; [auto|]. destruct H2 as [H2|H2]; [auto|].
      rewrite Forall_forall in Ha, Ha'. specialize (Ha a' H2). specialize (Ha' a H1). lia. }
    subst a'. f_equal. apply IH; [exact Hl|exact Hl'|]. apply Permutation_cons_inv in P. exact P.
Qed.

Lemma seq_sorted s n : StronglySorted le (seq s n).
Proof.
  revert s; induction n as [|n IH]; intros s; simpl; [constructor|].
  constructor; [apply IH|]. apply Forall_forall. intros x Hx. apply in_seq in Hx. lia.
Qed.

(* ------------------------------------------------------------------ TSPkoptEnv.check_solution_validity *)
(* assert (arange(n) == rec_best.sort()[0]).all() *)
Definition tspk_checker (rec : list nat) : bool := list_eqb (seq 0 (length rec)) (isort rec).

Lemma tspk_checker_perm rec : tspk_checker rec = true <-> Permutation rec (seq 0 (length rec)).
Proof.
  unfold tspk_checker. rewrite list_eqb_eq. split.
  - intros H. rewrite H. apply Permutation_sym, isort_perm.
  - intros P. apply sorted_perm_unique; [apply seq_sorted|apply isort_sorted|].
    eapply Permutation_trans; [apply Permutation_sym; exact P|apply Permutation_sym, isort_perm].
Qed.

Lemma map_nth_seq (l : list nat) : map (fun i => nth i l 0) (seq 0 (length l)) = l.
Proof.
  induction l as [|x l IH]; [reflexivity|]. simpl. f_equal. rewrite <- seq_shift, map_map. exact IH.
Qed.

Lemma is_tour_perm rec : is_tour rec -> Permutation rec (seq 0 (length rec)).
Proof.
  intros Ht. destruct (is_tour_cyc _ Ht) as [[Hnd Hc] Hf].
  set (n := length rec) in *. set (l0 := walk rec 0 n) in *.
  assert (P0 : Permutation (seq 0 n) l0).
  { apply NoDup_Permutation; [apply seq_NoDup|exact Hnd|]. intros x. rewrite in_seq. rewrite (Hf x). lia. }
  rewrite <- (map_nth_seq rec) at 1. fold n. change (fun i => nth i rec 0) with (nxt rec).
  eapply Permutation_trans; [apply Permutation_map; exact P0|].
  rewrite (chain_map_nxt _ _ _ Hc).
  eapply Permutation_trans; [|apply Permutation_sym; exact P0].
  destruct l0 as [|a l]; [apply Permutation_refl|]. simpl. apply Permutation_sym, Permutation_cons_append.
Qed.

(* complete: every tour is accepted (all n) *)
Theorem tspk_checker_complete rec : is_tour rec -> tspk_checker rec = true.
Proof. intros Ht. apply tspk_checker_perm. apply is_tour_perm. exact Ht. Qed.

(* full-strength soundness statement, kept visible; it is FALSE *)
Definition tspk_checker_sound_statement : Prop := forall rec, tspk_checker rec = true -> is_tour rec.

Theorem tspk_checker_sound_refuted :
  exists rec, tspk_checker rec = true /\ is_tourb rec = false.
Proof. exists [1; 0; 3; 2]. vm_compute. split; reflexivity. Qed.

Theorem tspk_checker_sound_statement_false : ~ tspk_checker_sound_statement.
Proof.
  intros H. specialize (H [1; 0; 3; 2] eq_refl). apply is_tourb_spec in H. vm_compute in H. discriminate.
Qed.

(* ------------------------------------------------------------------ PDPRuinRepairEnv.check_solution_validity *)
(* permutation test as above; visited_time by the same loop as _step; then
   assert (visited_time[1 : gs//2 + 1] < visited_time[gs//2 + 1 :]).all() *)
Definition pdp_checker (rec : list nat) : bool :=
  let gs := length rec in
  let half := gs / 2 in
  let vt := visited_time rec in
  tspk_checker rec && forallb (fun j => Nat.ltb (nth j vt 0) (nth (j + half) vt 0)) (seq 1 half).

(* complete: every valid PDP tour (odd number of nodes) is accepted *)
Theorem pdp_checker_complete rec h : length rec = 2 * h + 1 -> pdp_valid rec -> pdp_checker rec = true.
Proof.
  intros Hn [Ht Hp]. unfold pdp_checker.
  assert (Hdiv : length rec / 2 = h) by (rewrite Hn; apply half_odd).
  rewrite Hdiv in *. apply andb_true_iff. split; [apply tspk_checker_complete; exact Ht|].
  apply forallb_forall. intros j Hj. apply in_seq in Hj. apply Nat.ltb_lt.
  rewrite (visited_time_tour rec j Ht) by lia. rewrite (visited_time_tour rec (j + h) Ht) by lia.
  destruct (Nat.eqb j 0) eqn:E1; [apply Nat.eqb_eq in E1; lia|].
  destruct (Nat.eqb (j + h) 0) eqn:E2; [apply Nat.eqb_eq in E2; lia|].
  apply Hp. lia.
Qed.

(* sound on single cycles: if rec is a tour and the checker accepts, precedence holds *)
Theorem pdp_checker_sound_on_tours rec h :
  length rec = 2 * h + 1 -> is_tour rec -> pdp_checker rec = true -> pdp_valid rec.
Proof.
  intros Hn Ht Hc. split; [exact Ht|]. unfold pdp_checker in Hc.
  assert (Hdiv : length rec / 2 = h) by (rewrite Hn; apply half_odd).
  rewrite Hdiv in *. apply andb_prop in Hc as [_ Hc]. rewrite forallb_forall in Hc.
  intros j Hj. assert (Hin : In j (seq 1 h)) by (apply in_seq; lia).
  specialize (Hc j Hin). apply Nat.ltb_lt in Hc.
  rewrite (visited_time_tour rec j Ht) in Hc by lia. rewrite (visited_time_tour rec (j + h) Ht) in Hc by lia.
  destruct (Nat.eqb j 0) eqn:E1; [apply Nat.eqb_eq in E1; lia|].
  destruct (Nat.eqb (j + h) 0) eqn:E2; [apply Nat.eqb_eq in E2; lia|].
  exact Hc.
Qed.

Definition pdp_checker_sound_statement : Prop :=
  forall rec h, length rec = 2 * h + 1 -> pdp_checker rec = true -> pdp_valid rec.

(* cycles (0 3 4)(1 2): the pickups 1 and 2 are never reached from the depot, their visited_time stays 0 *)
Theorem pdp_checker_sound_refuted :
  exists rec, length rec = 2 * 2 + 1 /\ pdp_checker rec = true /\ is_tourb rec = false.
Proof. exists [3; 2; 1; 4; 0]. vm_compute. repeat split; reflexivity. Qed.

Theorem pdp_checker_sound_statement_false : ~ pdp_checker_sound_statement.
Proof.
  intros H. specialize (H [3; 2; 1; 4; 0] 2 eq_refl eq_refl). destruct H as [H _].
  apply is_tourb_spec in H. vm_compute in H. discriminate.
Qed.

(* non-vacuity of the completeness theorems *)
Example tspk_checker_ex : is_tourb [3; 5; 4; 1; 0; 2] = true /\ tspk_checker [3; 5; 4; 1; 0; 2] = true.
Proof. vm_compute. split; reflexivity. Qed.
Example pdp_checker_ex : pdp_validb [2; 5; 1; 6; 3; 4; 0] = true /\ pdp_checker [2; 5; 1; 6; 3; 4; 0] = true
  /\ is_tourb [4; 2; 5; 6; 1; 3; 0] = true /\ pdp_checker [4; 2; 5; 6; 1; 3; 0] = false.
Proof. vm_compute. repeat split; reflexivity. Qed.
