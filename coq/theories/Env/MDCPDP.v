(* MDCPDPEnv (rl4co/envs/routing/mdcpdp/env.py), one batch row, bookkeeping variable by variable, AS THE CODE IS.
   Nodes: depots first (rows of td["depot"]), then td["locs"] (first half pickups, second half deliveries).

   The code has four defects (DESIGN section 8 and the report of this unit); each one is a switch of [mdfix] so
   that the same definitions give the faithful model ([as_is], used by the correspondence) and the models of the
   code after each proposed repair ([repaired] = all four):
     fx_nd     _step/_get_reward take the number of depots from current_length.shape[-1] (= generator.num_depot)
               instead of capacity.shape[-1], and a one-column capacity is broadcast to every depot;
     fx_switch current_depot follows every visit of a depot (as is: it only changes when back_flag holds, and then
               the visited depot IS the current one, so it never changes);
     fx_leg    the step length stays a [B] vector ([..., None] before torch.where), so a row adds its own leg (as is:
               torch.where([B,1], 0, [B]) is a BxB matrix whose column 0 scatter_add_ uses: ROW 0's leg);
     fx_ret    _get_reward adds the leg from the current node to the current depot (as is: the return of the last
               vehicle is only ever added if the finished row is stepped once more);
     fx_sq     reward_mode "lateness_square" is computed (lateness with squared terms; as is: its branch sat under
               == "lateness" and the mode raised NotImplementedError).
   All five were applied to /repo on 2026-10-01 (commits 443a2ba, ca045f5, ad2c92d, 4acebdc, 3428867): the running code
   is [repaired]; [as_is] is kept as the record of the old behaviour (Env/MDCPDPRefuted.v). *)
From Coq Require Import ZArith List Bool Lia ZifyBool Arith.
From RL4CO Require Import Base.Num Base.EnvSig.
Import ListNotations.
Open Scope Z_scope.

Record mdfix := { fx_nd : bool; fx_switch : bool; fx_leg : bool; fx_ret : bool; fx_sq : bool }.
Definition as_is : mdfix := {| fx_nd := false; fx_switch := false; fx_leg := false; fx_ret := false; fx_sq := false |}.
Definition repaired : mdfix := {| fx_nd := true; fx_switch := true; fx_leg := true; fx_ret := true; fx_sq := true |}.

Record md_inst := {
  ndep : nat;              (* generator.num_depot = rows of td["depot"] *)
  nloc : nat;              (* generator.num_loc = rows of td["locs"] (even) *)
  caps : list Z;           (* the row of td["capacity"]; its LENGTH is what the code takes for the number of depots *)
  dist : list (list Z);    (* env.get_distance between all pairs of nodes (depots first) *)
  start : nat;             (* td["current_depot"] after reset (0 with start_mode="order") *)
  opn : bool;              (* problem_mode = "open" *)
  mode : nat;              (* reward_mode: 0 minsum, 1 minmax, 2 lateness, 3 lateness_square *)
  one : Z;                 (* the scaled 1.0 *)
  lw : Z;                  (* td["lateness_weight"], scaled *)
  solo : bool;             (* the row is stepped alone, or is row 0 of its batch *)
  legs0 : list Z;          (* otherwise: the raw step lengths of batch row 0, one per step *)
}.

Record md_st := {
  node : nat;              (* current_node *)
  depot : nat;             (* current_depot *)
  carry : Z;               (* current_carry (int64; can become negative) *)
  avail : list bool;       (* available *)
  todel : list bool;       (* to_deliver *)
  lens : list Z;           (* current_length, one entry per generator depot *)
  arr : list Z;            (* arrivetime_record *)
  stepi : nat;             (* i *)
  backf : bool;            (* back_flag of the last step (the mask is computed inside _step from it) *)
  fresh : bool;            (* no step taken yet: the mask is the one written by _reset *)
}.

Section Model.
  Variable A : arith.
  Variable F : mdfix.

  Definition nn (i : md_inst) : nat := ndep i + nloc i.                       (* locs.shape[-2] after _reset *)
  Definition nd (i : md_inst) : nat := if fx_nd F then ndep i else length (caps i).   (* num_depot of _step *)
  Definition half (i : md_inst) : nat := (nn i - nd i) / 2.                    (* num_loc // 2 of _step *)
  Definition split (i : md_inst) : nat := half i + nd i.                       (* pd_split_idx *)
  Definition capcol (i : md_inst) (d : nat) : nat :=
    if fx_nd F && Nat.eqb (length (caps i)) 1 then 0%nat else d.
  Definition cap_at (i : md_inst) (d : nat) : Z := nth (capcol i d) (caps i) 0.    (* capacity.gather(-1, current_depot) *)

  Definition md_reset (i : md_inst) : md_st :=
    {| node := 0; depot := start i; carry := 0;
       avail := repeat true (nn i);
       todel := repeat true (nloc i / 2 + ndep i) ++ repeat false (nloc i / 2);
       lens := repeat 0 (ndep i); arr := repeat 0 (nn i); stepi := 0; backf := false; fresh := true |}.

  Definition is_back (i : md_inst) (s : md_st) (a : nat) : bool := Nat.ltb a (nd i) && negb (nth a (avail s) false).

  Definition raw_leg (i : md_inst) (s : md_st) (a : nat) : Z :=
    if solo i || fx_leg F then mget (dist i) (node s) a else nth (stepi s) (legs0 i) 0.
  Definition leg (i : md_inst) (s : md_st) (a : nat) : Z :=
    if Nat.ltb a (nd i) && Nat.ltb (node s) (nd i) then 0                      (* way between two depots *)
    else if opn i && Nat.ltb a (nd i) && negb (Nat.ltb (node s) (nd i)) then 0   (* open problem: way home not counted *)
    else raw_leg i s a.

  Definition next_depot (i : md_inst) (s : md_st) (a : nat) : nat :=
    if fx_switch F then (if Nat.ltb a (nd i) then a else depot s)
    else (if is_back i s a then a else depot s).

  Definition md_step (i : md_inst) (s : md_st) (a : nat) : md_st :=
    let d' := next_depot i s a in
    let l' := rnd A (nth d' (lens s) 0 + leg i s a) in
    {| node := a; depot := d';
       carry := carry s + (if Nat.leb (nd i) a && Nat.ltb a (split i) then 1 else 0)
                        - (if Nat.leb (split i) a then 1 else 0);
       avail := set_nth a false (avail s);
       todel := set_nth ((a + half i) mod nn i) true (todel s);
       lens := set_nth d' l' (lens s);
       arr := set_nth a l' (arr s);
       stepi := S (stepi s); backf := is_back i s a; fresh := false |}.

  (* every gather / scatter index of _step inside its tensor *)
  Definition md_stepok (i : md_inst) (s : md_st) (a : nat) : bool :=
    let d' := next_depot i s a in
    Nat.ltb a (nn i) && Nat.ltb a (length (avail s)) &&
    Nat.ltb ((a + half i) mod nn i) (length (todel s)) &&
    Nat.ltb d' (nd i) && Nat.ltb d' (length (lens s)) && Nat.ltb (capcol i d') (length (caps i)) &&
    Nat.ltb (node s) (nn i) &&
    (solo i || fx_leg F || Nat.ltb (stepi s) (length (legs0 i))).

  Definition md_done (i : md_inst) (s : md_st) : bool := negb (anyb (avail s)).   (* count_nonzero(available) == 0 *)

  Definition mask_at (i : md_inst) (s : md_st) (j : nat) : bool :=
    let base := nth j (avail s) false && nth j (todel s) false in
    let capflag := cap_at i (depot s) <=? carry s in
    let lastf := negb (anyb (firstn (nd i) (avail s))) in
    let carryf := 0 <? carry s in
    if Nat.ltb j (nd i) then
      let b1 := if Nat.eqb j (depot s) then negb (backf s) else base && backf s in
      let b2 := b1 && negb lastf && negb carryf in
      if Nat.eqb j (depot s) then b2 || md_done i s else b2
    else
      base && (if Nat.ltb j (split i) then negb capflag else true) && negb (backf s).

  Definition md_mask (i : md_inst) (s : md_st) : list bool :=
    if fresh s then true :: repeat false (nn i - 1) else map (mask_at i s) (seq 0 (nn i)).

  Definition MDCPDP : Env := {|
    inst := md_inst; st := md_st;
    reset := md_reset; step := md_step; stepok := md_stepok; mask := md_mask; done := md_done |}.

  (* _get_reward on the final state, in units of [one] (mode 3: [one]^2, see Spec/MultiDepotPD.v); None = raises NotImplementedError *)
  Definition final_lens (i : md_inst) (s : md_st) : list Z :=
    if fx_ret F && negb (opn i) && negb (Nat.ltb (node s) (nd i))
    then set_nth (depot s) (rnd A (nth (depot s) (lens s) 0 + mget (dist i) (node s) (depot s))) (lens s)
    else lens s.
  Definition maxl (l : list Z) : Z := match l with [] => 0 | x :: r => fold_left Z.max r x end.
  Definition md_reward (i : md_inst) (s : md_st) : option Z :=
    let ls := final_lens i s in
    match mode i with
    | O => Some (- (one i * sumZ ls))
    | S O => Some (- (one i * maxl ls))
    | S (S O) => Some (- ((one i - lw i) * sumZ ls + lw i * sumZ (skipn (split i) (arr s))))
    | S (S (S O)) =>
        if fx_sq F
        then Some (- (one i * (one i - lw i) * sumZ ls + lw i * sumZ (map (fun t => t * t) (skipn (split i) (arr s)))))
        else None
    | _ => None
    end.
End Model.
