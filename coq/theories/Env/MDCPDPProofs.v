(* MDCPDP: invariant and theorems for C01-C04, in exact arithmetic, for the model under ANY combination F of the
   repairs, with the hypothesis [md_good F i] that excludes the defects where the statement needs it
   (the faithful model [as_is] is good exactly on single-depot instances; [repaired] is good on every instance).
   The refutations of the full-strength statements for the code as it is are in Env/MDCPDPRefuted.v. *)
From Coq Require Import ZArith List Bool Lia ZifyBool Arith.
From RL4CO Require Import Base.Num Base.EnvSig Spec.MultiDepotPD Env.MDCPDP Env.MDCPDPDefs.
Import ListNotations.
Open Scope Z_scope.

Ltac Zify.zify_post_hook ::= Z.to_euclidean_division_equations.

(* ================================================================ general list facts *)
Lemma remove_length_NoDup (x : nat) l : NoDup l -> In x l -> S (length (remove Nat.eq_dec x l)) = length l.
Proof.
  induction l as [|y l IH]; intros Hnd Hin; [destruct Hin|].
  inversion Hnd as [|? ? Hy Hnd']; subst. cbn [remove]. destruct (Nat.eq_dec x y) as [->|Hne].
  - rewrite notin_remove by exact Hy. reflexivity.
  - cbn [length]. destruct Hin as [->|Hin]; [congruence|]. rewrite IH by assumption. reflexivity.
Qed.
Lemma remove_NoDup (x : nat) l : NoDup l -> NoDup (remove Nat.eq_dec x l).
Proof.
  induction l as [|y l IH]; intros Hnd; [constructor|]. inversion Hnd as [|? ? Hy Hnd']; subst. cbn [remove].
  destruct (Nat.eq_dec x y); [apply IH; exact Hnd'|]. constructor; [|apply IH; exact Hnd'].
  intros Hc. apply in_remove in Hc. tauto.
Qed.
Lemma existsb_eqb_In x l : existsb (Nat.eqb x) l = true <-> In x l.
Proof.
  rewrite existsb_exists. split; [intros (y & Hy & E); apply Nat.eqb_eq in E; subst; exact Hy|].
  intros H. exists x. split; [exact H | apply Nat.eqb_refl].
Qed.
Lemma nth_repeat_lt {A} (x d : A) n j : (j < n)%nat -> nth j (repeat x n) d = x.
Proof. revert j; induction n as [|n IH]; intros [|j] H; simpl; try lia; auto. apply IH. lia. Qed.
Lemma anyb_false_nth l : anyb l = false -> forall j, nth j l false = false.
Proof.
  intros H j. destruct (nth j l false) eqn:E; [|reflexivity]. exfalso.
  assert (anyb l = true); [|congruence]. apply anyb_exists. exists j. split; [|exact E].
  destruct (Nat.ltb j (length l)) eqn:El; [apply Nat.ltb_lt in El; exact El|].
  apply Nat.ltb_ge in El. rewrite nth_overflow in E by exact El. discriminate.
Qed.
Lemma nth_firstn {A} (l : list A) n j d : (j < n)%nat -> nth j (firstn n l) d = nth j l d.
Proof.
  revert n j; induction l as [|x l IH]; intros n j H; [rewrite firstn_nil; reflexivity|].
  destruct n as [|n]; [lia|]. destruct j as [|j]; cbn [firstn nth]; [reflexivity|]. apply IH. lia.
Qed.

(* ================================================================ facts about the specification's walk *)
Definition netload (nd_ h : nat) (l : list nat) : Z := sumZ (map (delta nd_ h) l).
Lemma netload_app nd_ h a b : netload nd_ h (a ++ b) = netload nd_ h a + netload nd_ h b.
Proof. unfold netload. rewrite map_app, sumZ_app. reflexivity. Qed.

Lemma walk_snoc nd_ h cap l : forall seen k a,
  route_walkb nd_ h cap seen k (l ++ [a]) =
  route_walkb nd_ h cap seen k l &&
  ((k + netload nd_ h l + delta nd_ h a <=? cap) &&
   (if is_del nd_ h a then existsb (Nat.eqb (a - h)) (rev l ++ seen) else true)).
Proof.
  induction l as [|x l IH]; intros seen k a; cbn [app route_walkb rev].
  - unfold netload. cbn. rewrite andb_true_r. replace (k + 0 + delta nd_ h a) with (k + delta nd_ h a) by lia. reflexivity.
  - rewrite IH. unfold netload. cbn [map sumZ]. fold (netload nd_ h l).
    replace (k + delta nd_ h x + netload nd_ h l + delta nd_ h a) with (k + (delta nd_ h x + netload nd_ h l) + delta nd_ h a) by lia.
    rewrite <- app_assoc. cbn [app]. rewrite !andb_assoc. reflexivity.
Qed.

(* on a route accepted by the walk every delivery has its pickup earlier on the same route *)
Lemma walk_del_has_pick nd_ h cap l : forall seen k,
  route_walkb nd_ h cap seen k l = true ->
  forall a, In a l -> is_del nd_ h a = true -> In (a - h)%nat (l ++ seen).
Proof.
  induction l as [|x l IH]; intros seen k Hw a Ha Hd; [destruct Ha|].
  cbn [route_walkb] in Hw. apply andb_prop in Hw as [Hw1 Hw3]. apply andb_prop in Hw1 as [_ Hw2].
  destruct Ha as [->|Ha].
  - rewrite Hd in Hw2. apply existsb_eqb_In in Hw2. cbn [app]. right. apply in_app_iff. right. exact Hw2.
  - specialize (IH _ _ Hw3 a Ha Hd). cbn [app]. apply in_app_iff in IH as [H|[H|H]].
    + right. apply in_app_iff. left. exact H.
    + left. exact H.
    + right. apply in_app_iff. right. exact H.
Qed.

(* ================================================================ the setting *)
Section WF.
  Variable i : md_inst.
  Hypothesis Hwf : md_wfb i = true.
  Notation h := (hh i).
  Notation ndp := (ndep i).

  Lemma wf_even : (nloc i = 2 * h)%nat.
  Proof.
    unfold md_wfb in Hwf. repeat (apply andb_prop in Hwf as [Hwf ?]). apply Nat.even_spec in Hwf as [k Hk].
    unfold hh. rewrite Hk. rewrite Nat.mul_comm, Nat.div_mul by lia. lia.
  Qed.
  Lemma wf_ndp : (0 < ndp)%nat.
  Proof. unfold md_wfb in Hwf. repeat (apply andb_prop in Hwf as [Hwf ?]). apply Nat.ltb_lt. assumption. Qed.
  Lemma wf_start : (start i < ndp)%nat.
  Proof. unfold md_wfb in Hwf. repeat (apply andb_prop in Hwf as [Hwf ?]). apply Nat.ltb_lt. assumption. Qed.
  Lemma nn_eq : nn i = (ndp + 2 * h)%nat.
  Proof. unfold nn. rewrite wf_even. reflexivity. Qed.
  Lemma nnpos : (0 < nn i)%nat.
  Proof. rewrite nn_eq. pose proof wf_ndp. lia. Qed.
  Lemma wf_caps_len : length (caps i) = 1%nat \/ length (caps i) = ndp.
  Proof.
    unfold md_wfb in Hwf. repeat (apply andb_prop in Hwf as [Hwf ?]).
    match goal with H : (_ || _)%bool = true |- _ => apply orb_prop in H as [H|H]; apply Nat.eqb_eq in H; auto end.
  Qed.
  Lemma wf_caps_nonneg c : In c (caps i) -> 0 <= c.
  Proof.
    unfold md_wfb in Hwf. repeat (apply andb_prop in Hwf as [Hwf ?]).
    match goal with H : forallb (fun c => 0 <=? c) _ = true |- _ => rewrite forallb_forall in H; intros Hc; specialize (H c Hc); lia end.
  Qed.
  Lemma wf_dist_diag j : (j < nn i)%nat -> dfun i j j = 0.
  Proof.
    unfold md_wfb in Hwf. repeat (apply andb_prop in Hwf as [Hwf ?]).
    match goal with H : forallb (fun j => mget (dist i) j j =? 0) _ = true |- _ => rewrite forallb_forall in H; intros Hj; specialize (H j); unfold dfun end.
    assert (In j (seq 0 (ndp + nloc i))) as Hin by (apply in_seq; unfold nn in Hj; lia). match goal with H : In j _ -> _ |- _ => specialize (H Hin); lia end.
  Qed.
End WF.

Section Good.
  Variable F : mdfix.
  Variable i : md_inst.
  Hypothesis Hwf : md_wfb i = true.
  Hypothesis Hgood : md_good F i = true.
  Notation h := (hh i).
  Notation ndp := (ndep i).

  Lemma nd_eq : nd F i = ndp.
  Proof. unfold md_good in Hgood. apply andb_prop in Hgood as [H _]. apply andb_prop in H as [H _]. apply Nat.eqb_eq in H. exact H. Qed.
  Lemma half_eq : half F i = h.
  Proof. unfold half. rewrite nd_eq, (nn_eq i Hwf). replace (ndp + 2 * h - ndp)%nat with (h * 2)%nat by lia. apply Nat.div_mul. lia. Qed.
  Lemma split_eq : split F i = (ndp + h)%nat.
  Proof. unfold split. rewrite half_eq, nd_eq. lia. Qed.
  Lemma good_switch : fx_switch F = true \/ (ndp = 1%nat /\ start i = 0%nat).
  Proof.
    unfold md_good in Hgood. apply andb_prop in Hgood as [H1 H3]. apply andb_prop in H1 as [_ H2].
    destruct (fx_switch F); [left; reflexivity|]. right. cbn in H2, H3. apply Nat.eqb_eq in H2, H3. auto.
  Qed.

  (* the capacity the code looks up for a depot is the capacity of that depot's vehicle *)
  Lemma cap_at_vcap e : (e < ndp)%nat -> cap_at F i e = vcap i e /\ (capcol F i e < length (caps i))%nat.
  Proof.
    intros He. unfold cap_at, capcol, vcap.
    destruct (Nat.eqb (length (caps i)) 1) eqn:E1.
    - apply Nat.eqb_eq in E1. destruct (fx_nd F) eqn:Ef; cbn [andb].
      + split; [reflexivity | lia].
      + pose proof nd_eq as Hn. unfold nd in Hn. rewrite Ef in Hn. assert (e = 0)%nat by lia. subst e. split; [reflexivity | lia].
    - rewrite andb_false_r. apply Nat.eqb_neq in E1. destruct (wf_caps_len i Hwf) as [H|H]; [lia|]. split; [reflexivity | lia].
  Qed.
  Lemma vcap_nonneg e : (e < ndp)%nat -> 0 <= vcap i e.
  Proof.
    intros He. destruct (cap_at_vcap e He) as [<- Hl]. unfold cap_at. apply (wf_caps_nonneg i Hwf). apply nth_In. exact Hl.
  Qed.
End Good.

(* ================================================================ the invariant along admitted runs *)
Section Run.
  Variable F : mdfix.
  Variable i : md_inst.
  Hypothesis Hwf : md_wfb i = true.
  Hypothesis Hgood : md_good F i = true.

  Notation E := (MDCPDP exact F).
  Notation h := (hh i).
  Notation ndp := (ndep i).
  Notation pickb := (is_pick (ndep i) (hh i)).
  Notation delb := (is_del (ndep i) (hh i)).

  Lemma offered_fresh s a : fresh s = true -> offered (E:=E) i s a = Nat.eqb a 0.
  Proof.
    intros Hf. unfold offered. cbn [mask MDCPDP]. unfold md_mask. rewrite Hf.
    destruct a as [|a]; [reflexivity|]. cbn [nth Nat.eqb].
    destruct (Nat.ltb a (nn i - 1)) eqn:El.
    - apply Nat.ltb_lt in El. apply nth_repeat_lt. exact El.
    - apply Nat.ltb_ge in El. apply nth_overflow. rewrite repeat_length. exact El.
  Qed.
  Lemma offered_nonfresh s a : fresh s = false -> offered (E:=E) i s a = Nat.ltb a (nn i) && mask_at F i s a.
  Proof.
    intros Hf. unfold offered. cbn [mask MDCPDP]. unfold md_mask. rewrite Hf.
    destruct (Nat.ltb a (nn i)) eqn:El.
    - apply Nat.ltb_lt in El. rewrite nth_map_seq by exact El. reflexivity.
    - apply Nat.ltb_ge in El. apply nth_overflow. rewrite map_length, seq_length. exact El.
  Qed.

  Let nnpos := nnpos i Hwf.

  (* ---------------------------------------------------------------- field-wise effect of a step *)
  Lemma avail_step avl p a : length avl = nn i ->
    (forall j, (j < nn i)%nat -> (nth j avl false = false <-> In j p)) -> (a < nn i)%nat ->
    forall j, (j < nn i)%nat -> (nth j (set_nth a false avl) false = false <-> In j (p ++ [a])).
  Proof.
    intros Hl H Ha j Hj. rewrite nth_set_nth, Hl, in_app_iff. cbn [In].
    replace (Nat.ltb a (nn i)) with true by (symmetry; apply Nat.ltb_lt; exact Ha). rewrite andb_true_r.
    destruct (Nat.eqb j a) eqn:Ej.
    - apply Nat.eqb_eq in Ej. subst. tauto.
    - apply Nat.eqb_neq in Ej. rewrite (H j Hj). split; [tauto|]. intros [Hp|[Hp|[]]]; [exact Hp | congruence].
  Qed.

  Lemma todel_step td p a : length td = nn i ->
    (forall j, (j < nn i)%nat -> (nth j td false = true <-> (j < ndp + h)%nat \/ In (j - h)%nat p)) -> (a < nn i)%nat ->
    forall j, (j < nn i)%nat ->
      (nth j (set_nth ((a + half F i) mod nn i) true td) false = true <-> (j < ndp + h)%nat \/ In (j - h)%nat (p ++ [a])).
  Proof.
    intros Hl H Ha j Hj. rewrite (half_eq F i Hwf Hgood). pose proof (nn_eq i Hwf) as Hnn. pose proof nnpos as Hpos.
    set (t := ((a + h) mod nn i)%nat).
    assert (Ht : (t = a + h /\ a + h < nn i)%nat \/ (nn i <= a + h /\ t = a + h - nn i)%nat).
    { unfold t. destruct (Nat.ltb (a + h) (nn i)) eqn:El.
      - apply Nat.ltb_lt in El. left. split; [apply Nat.mod_small; exact El | exact El].
      - apply Nat.ltb_ge in El. right. split; [exact El|].
        replace (a + h)%nat with ((a + h - nn i) + 1 * nn i)%nat at 1 by lia. rewrite Nat.mod_add by lia. apply Nat.mod_small. lia. }
    assert (Htl : (t < nn i)%nat) by lia.
    rewrite nth_set_nth, Hl. replace (Nat.ltb t (nn i)) with true by (symmetry; apply Nat.ltb_lt; exact Htl). rewrite andb_true_r.
    rewrite in_app_iff. cbn [In].
    destruct (Nat.eqb j t) eqn:Ej.
    - apply Nat.eqb_eq in Ej. split; [intros _|reflexivity].
      destruct Ht as [[Ht1 Ht2]|[Ht1 Ht2]]; [right; right; left; lia | left; lia].
    - apply Nat.eqb_neq in Ej. rewrite (H j Hj). split; [tauto|].
      intros [H1|[H1|[H1|[]]]]; [left; exact H1 | right; exact H1|].
      destruct (Nat.ltb j (ndp + h)) eqn:Ejl; [apply Nat.ltb_lt in Ejl; left; exact Ejl|].
      apply Nat.ltb_ge in Ejl. exfalso. apply Ej. lia.
  Qed.

  Lemma once_step p a : (forall c, (ndp <= c)%nat -> (occ c p <= 1)%nat) -> ((ndp <= a)%nat -> ~ In a p) ->
    forall c, (ndp <= c)%nat -> (occ c (p ++ [a]) <= 1)%nat.
  Proof.
    intros H Ha c Hc. rewrite occ_app, occ_cons, occ_nil. specialize (H c Hc).
    destruct (Nat.eqb a c) eqn:E; [|lia]. apply Nat.eqb_eq in E. subst c.
    apply Ha in Hc. apply occ_not_In in Hc. lia.
  Qed.

  (* ---------------------------------------------------------------- the invariant *)
  (* state s reached by the action list p; ps = how the specification reads p; pend = pickups on board *)
  Record Inv (p : list nat) (ps : pstate) (pend : list nat) (s : md_st) : Prop := {
    inv_fresh : fresh s = true <-> p = [];
    inv_la : length (avail s) = nn i;
    inv_lt : length (todel s) = nn i;
    inv_ll : length (lens s) = ndp;
    inv_node : (node s < nn i)%nat;
    inv_avail : forall j, (j < nn i)%nat -> (nth j (avail s) false = false <-> In j p);
    inv_todel : forall j, (j < nn i)%nat -> (nth j (todel s) false = true <-> (j < ndp + h)%nat \/ In (j - h)%nat p);
    inv_parse : parse ndp p = Some ps;
    inv_rng : forall a, In a p -> (a < nn i)%nat;
    inv_once : forall c, (ndp <= c)%nat -> (occ c p <= 1)%nat;
    inv_cust : forall c, (ndp <= c)%nat -> In c p -> exists r, In r (all_routes ps) /\ In c (rcus r);
    inv_cust' : forall r c, In r (all_routes ps) -> In c (rcus r) -> (ndp <= c)%nat /\ In c p;
    inv_dep : forall e, (e < ndp)%nat -> (In e p <-> In e (map rdep (all_routes ps)));
    inv_depnd : NoDup (map rdep (all_routes ps));
    inv_deplt : forall r, In r (all_routes ps) -> (rdep r < ndp)%nat;
    inv_closed : forall r, In r (closed ps) -> route_okb ndp h (vcap i (rdep r)) r = true /\
                   (forall q, In q (rcus r) -> pickb q = true -> In (q + h)%nat (rcus r));
    inv_disj : forall r0 c, In r0 (closed ps) -> In c (rcus r0) ->
                 match openr ps with Some r => ~ In c (rcus r) | None => True end;
    inv_depot : (depot s < ndp)%nat;
    inv_depin : fresh s = false -> In (depot s) p;
    inv_depstart : fresh s = true -> depot s = start i;
    inv_open : match openr ps with
               | Some r => depot s = rdep r /\ route_okb ndp h (vcap i (rdep r)) r = true /\
                           carry s = netload ndp h (rcus r) /\ carry s = Z.of_nat (length pend) /\
                           carry s <= vcap i (rdep r) /\ NoDup pend /\
                           (forall q, In q pend <-> (In q (rcus r) /\ pickb q = true /\ ~ In (q + h)%nat p)) /\
                           backf s = false /\ fresh s = false
               | None => pend = [] /\ carry s = 0 /\
                         (fresh s = false -> backf s = true /\ exists j, (j < ndp)%nat /\ nth j (avail s) false = true)
               end;
  }.

  Lemma reset_inv : Inv [] pstart [] (md_reset i).
  Proof.
    pose proof nnpos as Hpos. pose proof (nn_eq i Hwf) as Hnn. pose proof (wf_even i Hwf) as Hev.
    constructor; cbn [md_reset fresh avail todel lens node depot carry backf pstart all_routes closed openr app map].
    - tauto.
    - apply repeat_length.
    - rewrite app_length, !repeat_length. unfold hh in *. lia.
    - apply repeat_length.
    - exact Hpos.
    - intros j Hj. rewrite nth_repeat_lt by exact Hj. split; [discriminate | intros []].
    - intros j Hj. split; [|intros [H|[]]].
      + intros H. destruct (Nat.ltb j (ndp + h)) eqn:E; [apply Nat.ltb_lt in E; left; exact E|].
        apply Nat.ltb_ge in E. exfalso. rewrite app_nth2 in H by (rewrite repeat_length; unfold hh in *; lia).
        rewrite nth_repeat_lt in H; [discriminate|]. rewrite repeat_length. unfold hh in *. lia.
      + rewrite app_nth1 by (rewrite repeat_length; unfold hh in *; lia). apply nth_repeat_lt. unfold hh in *. lia.
    - reflexivity.
    - intros a [].
    - intros c _. cbn. lia.
    - intros c _ [].
    - intros r c [].
    - intros e _. tauto.
    - constructor.
    - intros r [].
    - intros r [].
    - intros r0 c [].
    - apply (wf_start i Hwf).
    - discriminate.
    - reflexivity.
    - split; [reflexivity|]. split; [reflexivity|]. discriminate.
  Qed.

  Lemma NoDup_snoc (l : list nat) x : NoDup l -> ~ In x l -> NoDup (l ++ [x]).
  Proof.
    intros Hn Hx. induction l as [|y l IH]; cbn [app]; [constructor; [intros []|constructor]|].
    inversion Hn as [|? ? Hy Hn']; subst. constructor.
    - intros Hc. apply in_app_iff in Hc as [Hc|[Hc|[]]]; [tauto|]. subst. apply Hx. left. reflexivity.
    - apply IH; [exact Hn'|]. intros Hc. apply Hx. right. exact Hc.
  Qed.

  (* carry update in terms of the specification's delta *)
  Lemma carry_delta a : (a < nn i)%nat ->
    (if Nat.leb (nd F i) a && Nat.ltb a (split F i) then 1 else 0) - (if Nat.leb (split F i) a then 1 else 0)
    = delta ndp h a.
  Proof.
    intros Ha. rewrite (nd_eq F i Hgood), (split_eq F i Hwf Hgood). pose proof (nn_eq i Hwf) as Hnn.
    unfold delta, is_pick, is_del.
    destruct (Nat.leb ndp a) eqn:E1, (Nat.ltb a (ndp + h)) eqn:E2, (Nat.leb (ndp + h) a) eqn:E3, (Nat.ltb a (ndp + 2 * h)) eqn:E4; cbn [andb]; lia.
  Qed.

  (* ---------------------------------------------------------------- a vehicle leaves a (new) depot *)
  Lemma open_new_inv p ps s a :
    Inv p ps [] s -> openr ps = None -> (a < ndp)%nat -> ~ In a p -> next_depot F i s a = a ->
    Inv (p ++ [a]) {| closed := closed ps; openr := Some {| rdep := a; rcus := [] |} |} [] (md_step exact F i s a).
  Proof.
    intros HI Ho Ha Hnp Hnd.
    pose proof (nn_eq i Hwf) as Hnn. pose proof (nd_eq F i Hgood) as Hndq.
    assert (Han : (a < nn i)%nat) by lia.
    assert (Har : all_routes ps = closed ps) by (unfold all_routes; rewrite Ho; apply app_nil_r).
    assert (Hback : is_back F i s a = false).
    { unfold is_back. destruct (nth a (avail s) false) eqn:Ea; [rewrite andb_false_r; reflexivity|].
      exfalso. apply Hnp. apply (inv_avail _ _ _ _ HI a Han). exact Ea. }
    destruct HI as [Hfr Hla Hlt Hll Hno Hav Htd Hpa Hrng Honce Hcu Hcu' Hdep Hdnd Hdlt Hcl Hdisj Hdp Hdpin Hdps Hop].
    rewrite Ho in Hop. destruct Hop as (_ & Hcar & _).
    constructor; unfold all_routes; cbn [md_step fresh avail todel lens node depot carry backf closed openr]; rewrite ?Hnd.
    - split; [discriminate | intros H; apply app_eq_nil in H as [_ H]; discriminate].
    - rewrite set_nth_length. exact Hla.
    - rewrite set_nth_length. exact Hlt.
    - rewrite set_nth_length. exact Hll.
    - exact Han.
    - apply avail_step; assumption.
    - apply todel_step; assumption.
    - rewrite parse_snoc, Hpa. unfold parse_step. replace (Nat.ltb a ndp) with true by (symmetry; apply Nat.ltb_lt; exact Ha).
      rewrite Ho. reflexivity.
    - intros b Hb. apply in_app_iff in Hb as [Hb|[<-|[]]]; auto.
    - apply once_step; [exact Honce | lia].
    - intros c Hc Hin. apply in_app_iff in Hin as [Hin|[Hin|[]]]; [|lia].
      destruct (Hcu c Hc Hin) as (r & Hr & Hcr). exists r. split; [|exact Hcr]. rewrite Har in Hr. apply in_app_iff. left. exact Hr.
    - intros r c Hr Hcr. apply in_app_iff in Hr as [Hr|[<-|[]]]; [|destruct Hcr].
      rewrite <- Har in Hr. destruct (Hcu' r c Hr Hcr) as [H1 H2]. split; [exact H1 | apply in_app_iff; left; exact H2].
    - intros e He. rewrite map_app, !in_app_iff, <- Har, (Hdep e He). cbn [map In rdep]. intuition.
    - rewrite map_app. cbn [map rdep]. rewrite <- Har. apply NoDup_snoc; [exact Hdnd|]. intros Hc. apply Hnp. apply (Hdep a Ha). exact Hc.
    - intros r Hr. apply in_app_iff in Hr as [Hr|[<-|[]]]; [apply Hdlt; rewrite Har; exact Hr | exact Ha].
    - exact Hcl.
    - intros r0 c _ _. cbn [rcus]. intros [].
    - exact Ha.
    - intros _. apply in_app_iff. right. left. reflexivity.
    - discriminate.
    - cbn [rdep rcus]. split; [reflexivity|]. split; [reflexivity|].
      assert (Hc0 : carry s + (if Nat.leb (nd F i) a && Nat.ltb a (split F i) then 1 else 0) - (if Nat.leb (split F i) a then 1 else 0) = 0).
      { pose proof (carry_delta a Han) as Hd. unfold delta, is_pick, is_del in Hd.
        replace (Nat.leb ndp a) with false in Hd by (symmetry; apply Nat.leb_gt; exact Ha).
        replace (Nat.leb (ndp + h) a) with false in Hd by (symmetry; apply Nat.leb_gt; lia). cbn [andb] in Hd. lia. }
      rewrite Hc0. unfold netload. cbn [map sumZ length In].
      split; [reflexivity|]. split; [reflexivity|]. split; [apply (vcap_nonneg F i Hwf Hgood); exact Ha|].
      split; [constructor|]. split; [intros q; split; [intros [] | intros [[] _]]|]. split; [exact Hback | reflexivity].
  Qed.

  (* ---------------------------------------------------------------- a vehicle comes home *)
  Lemma back_inv p ps s r :
    Inv p ps [] s -> openr ps = Some r ->
    (exists j, (j < ndp)%nat /\ nth j (avail s) false = true) ->
    Inv (p ++ [rdep r]) {| closed := closed ps ++ [r]; openr := None |} [] (md_step exact F i s (rdep r)).
  Proof.
    intros HI Ho Hex. set (a := rdep r).
    pose proof (nn_eq i Hwf) as Hnn. pose proof (nd_eq F i Hgood) as Hndq.
    assert (Har : all_routes ps = closed ps ++ [r]) by (unfold all_routes; rewrite Ho; reflexivity).
    destruct HI as [Hfr Hla Hlt Hll Hno Hav Htd Hpa Hrng Honce Hcu Hcu' Hdep Hdnd Hdlt Hcl Hdisj Hdp Hdpin Hdps Hop].
    rewrite Ho in Hop. destruct Hop as (Hd & Hok & Hc1 & Hc2 & Hc3 & Hpnd & Hpend & Hbf & Hfs).
    assert (Ha : (a < ndp)%nat) by (unfold a; rewrite <- Hd; exact Hdp).
    assert (Han : (a < nn i)%nat) by lia.
    assert (Hap : In a p) by (unfold a; rewrite <- Hd; apply Hdpin; exact Hfs).
    assert (Hback : is_back F i s a = true).
    { unfold is_back. rewrite Hndq. replace (Nat.ltb a ndp) with true by (symmetry; apply Nat.ltb_lt; exact Ha).
      apply (Hav a Han) in Hap. rewrite Hap. reflexivity. }
    assert (Hnd : next_depot F i s a = a).
    { unfold next_depot. rewrite Hback, Hndq. replace (Nat.ltb a ndp) with true by (symmetry; apply Nat.ltb_lt; exact Ha).
      destruct (fx_switch F); reflexivity. }
    assert (Hcar : carry s = 0) by (rewrite Hc2; reflexivity).
    constructor; unfold all_routes; cbn [md_step fresh avail todel lens node depot carry backf closed openr]; fold a; rewrite ?Hnd, ?app_nil_r.
    - split; [discriminate | intros H; apply app_eq_nil in H as [_ H]; discriminate].
    - rewrite set_nth_length. exact Hla.
    - rewrite set_nth_length. exact Hlt.
    - rewrite set_nth_length. exact Hll.
    - exact Han.
    - apply avail_step; assumption.
    - apply todel_step; assumption.
    - rewrite parse_snoc, Hpa. unfold parse_step. replace (Nat.ltb a ndp) with true by (symmetry; apply Nat.ltb_lt; exact Ha).
      rewrite Ho. unfold a. rewrite Nat.eqb_refl. reflexivity.
    - intros b Hb. apply in_app_iff in Hb as [Hb|[<-|[]]]; auto.
    - apply once_step; [exact Honce | lia].
    - intros c Hc Hin. apply in_app_iff in Hin as [Hin|[Hin|[]]]; [|lia].
      rewrite <- Har. apply Hcu; assumption.
    - intros r0 c Hr Hcr. rewrite <- Har in Hr. destruct (Hcu' r0 c Hr Hcr) as [H1 H2]. split; [exact H1 | apply in_app_iff; left; exact H2].
    - intros e He. rewrite <- Har, <- (Hdep e He), in_app_iff. cbn [In]. split; [intros [H|[H|[]]]; [exact H | subst; exact Hap] | tauto].
    - rewrite <- Har. exact Hdnd.
    - intros r0 Hr. apply Hdlt. rewrite Har. exact Hr.
    - intros r0 Hr. apply in_app_iff in Hr as [Hr|[<-|[]]]; [apply Hcl; exact Hr|]. split; [exact Hok|].
      intros q Hq Hpq.
      destruct (in_dec Nat.eq_dec (q + h)%nat p) as [Hin|Hnin].
      + (* the delivery was made: on which route? *)
        assert (Hqh : (ndp <= q + h)%nat) by (unfold is_pick in Hpq; apply andb_prop in Hpq as [Hp1 _]; apply Nat.leb_le in Hp1; lia).
        destruct (Hcu _ Hqh Hin) as (r1 & Hr1 & Hc1'). rewrite Har in Hr1. apply in_app_iff in Hr1 as [Hr1|[<-|[]]]; [|exact Hc1'].
        exfalso. destruct (Hcl r1 Hr1) as [Hok1 _]. unfold route_okb in Hok1.
        assert (Hdq : is_del ndp h (q + h) = true).
        { unfold is_pick in Hpq. unfold is_del. apply andb_prop in Hpq as [Hp1 Hp2]. apply Nat.leb_le in Hp1. apply Nat.ltb_lt in Hp2.
          apply andb_true_intro. split; [apply Nat.leb_le; lia | apply Nat.ltb_lt; lia]. }
        pose proof (walk_del_has_pick _ _ _ _ _ _ Hok1 _ Hc1' Hdq) as Hq1. rewrite app_nil_r in Hq1.
        replace (q + h - h)%nat with q in Hq1 by lia.
        specialize (Hdisj r1 q Hr1 Hq1). rewrite Ho in Hdisj. exact (Hdisj Hq).
      + exfalso. assert (In q []) as [] . apply Hpend. auto.
    - intros r0 c _ _. exact I.
    - exact Ha.
    - intros _. apply in_app_iff. right. left. reflexivity.
    - discriminate.
    - split; [reflexivity|]. split.
      + pose proof (carry_delta a Han) as Hdl. unfold delta, is_pick, is_del in Hdl.
        replace (Nat.leb ndp a) with false in Hdl by (symmetry; apply Nat.leb_gt; exact Ha).
        replace (Nat.leb (ndp + h) a) with false in Hdl by (symmetry; apply Nat.leb_gt; lia). cbn [andb] in Hdl. lia.
      + intros _. split; [exact Hback|]. destruct Hex as (j & Hj & Hjt). exists j. split; [exact Hj|].
        rewrite nth_set_nth_neq; [exact Hjt|]. intros ->. apply (Hav a Han) in Hap. congruence.
  Qed.

  (* ---------------------------------------------------------------- a customer is served *)
  Lemma pick_or_del a : (ndp <= a < nn i)%nat ->
    (pickb a = true /\ delb a = false /\ (a < ndp + h)%nat /\ delta ndp h a = 1) \/
    (pickb a = false /\ delb a = true /\ (ndp + h <= a)%nat /\ delta ndp h a = -1).
  Proof.
    intros Ha. rewrite (nn_eq i Hwf) in Ha. unfold delta, is_pick, is_del.
    destruct (Nat.ltb a (ndp + h)) eqn:E.
    - apply Nat.ltb_lt in E. left. replace (Nat.leb ndp a) with true by (symmetry; apply Nat.leb_le; lia).
      replace (Nat.leb (ndp + h) a) with false by (symmetry; apply Nat.leb_gt; lia). cbn [andb]. auto.
    - apply Nat.ltb_ge in E. right. replace (Nat.leb (ndp + h) a) with true by (symmetry; apply Nat.leb_le; lia).
      replace (Nat.ltb a (ndp + 2 * h)) with true by (symmetry; apply Nat.ltb_lt; lia). rewrite andb_false_r. cbn [andb]. auto.
  Qed.

  Lemma cust_inv p ps pend s r a :
    Inv p ps pend s -> openr ps = Some r -> (ndp <= a < nn i)%nat -> ~ In a p ->
    ((a < ndp + h)%nat \/ In (a - h)%nat p) ->
    ((a < ndp + h)%nat -> carry s < vcap i (rdep r)) ->
    Inv (p ++ [a]) {| closed := closed ps; openr := Some {| rdep := rdep r; rcus := rcus r ++ [a] |} |}
        (if pickb a then a :: pend else remove Nat.eq_dec (a - h)%nat pend) (md_step exact F i s a).
  Proof.
    intros HI Ho Ha Hnp Htda Hcapa.
    pose proof (nn_eq i Hwf) as Hnn. pose proof (nd_eq F i Hgood) as Hndq.
    assert (Han : (a < nn i)%nat) by lia.
    assert (Har : all_routes ps = closed ps ++ [r]) by (unfold all_routes; rewrite Ho; reflexivity).
    destruct HI as [Hfr Hla Hlt Hll Hno Hav Htd Hpa Hrng Honce Hcu Hcu' Hdep Hdnd Hdlt Hcl Hdisj Hdp Hdpin Hdps Hop].
    rewrite Ho in Hop. destruct Hop as (Hd & Hok & Hc1 & Hc2 & Hc3 & Hpnd & Hpend & Hbf & Hfs).
    assert (Hnotdep : Nat.ltb a (nd F i) = false) by (rewrite Hndq; apply Nat.ltb_ge; lia).
    assert (Hback : is_back F i s a = false) by (unfold is_back; rewrite Hnotdep; reflexivity).
    assert (Hnd : next_depot F i s a = depot s).
    { unfold next_depot. rewrite Hback, Hnotdep. destruct (fx_switch F); reflexivity. }
    assert (Hanr : ~ In a (rcus r)).
    { intros Hc. apply Hnp. apply (Hcu' r a); [rewrite Har; apply in_app_iff; right; left; reflexivity | exact Hc]. }
    (* a delivery's pickup is on the open route *)
    assert (Hpk : delb a = true -> In (a - h)%nat (rcus r)).
    { intros Hda. destruct (pick_or_del a Ha) as [(_ & Hx & _)|(_ & _ & Hge & _)]; [congruence|].
      destruct Htda as [Hlt'|Hin]; [lia|].
      destruct (Hcu (a - h)%nat ltac:(lia) Hin) as (r1 & Hr1 & Hc1'). rewrite Har in Hr1.
      apply in_app_iff in Hr1 as [Hr1|[<-|[]]]; [|exact Hc1']. exfalso.
      destruct (Hcl r1 Hr1) as [_ Hbal].
      assert (Hp1 : pickb (a - h) = true).
      { unfold is_pick. apply andb_true_intro. split; [apply Nat.leb_le; lia | apply Nat.ltb_lt; lia]. }
      specialize (Hbal _ Hc1' Hp1). replace (a - h + h)%nat with a in Hbal by lia.
      apply Hnp. apply (Hcu' r1 a); [rewrite Har; apply in_app_iff; left; exact Hr1 | exact Hbal]. }
    (* the delivery of a new pickup has not been made *)
    assert (Hnodel : pickb a = true -> ~ In (a + h)%nat p).
    { intros Hpa' Hin. destruct (pick_or_del a Ha) as [(_ & _ & Hlt' & _)|(Hx & _)]; [|congruence].
      destruct (Hcu (a + h)%nat ltac:(lia) Hin) as (r1 & Hr1 & Hc1').
      assert (Hok1 : route_okb ndp h (vcap i (rdep r1)) r1 = true).
      { rewrite Har in Hr1. apply in_app_iff in Hr1 as [Hr1|[<-|[]]]; [apply Hcl; exact Hr1 | exact Hok]. }
      assert (Hdq : delb (a + h) = true).
      { unfold is_del. apply andb_true_intro. split; [apply Nat.leb_le; lia | apply Nat.ltb_lt; lia]. }
      unfold route_okb in Hok1. pose proof (walk_del_has_pick _ _ _ _ _ _ Hok1 _ Hc1' Hdq) as Hq1. rewrite app_nil_r in Hq1.
      replace (a + h - h)%nat with a in Hq1 by lia. apply Hnp. apply (Hcu' r1 a Hr1 Hq1). }
    constructor; unfold all_routes; cbn [md_step fresh avail todel lens node depot carry backf closed openr]; rewrite ?Hnd.
    - split; [discriminate | intros H; apply app_eq_nil in H as [_ H]; discriminate].
    - rewrite set_nth_length. exact Hla.
    - rewrite set_nth_length. exact Hlt.
    - rewrite set_nth_length. exact Hll.
    - exact Han.
    - apply avail_step; assumption.
    - apply todel_step; assumption.
    - rewrite parse_snoc, Hpa. unfold parse_step. replace (Nat.ltb a ndp) with false by (symmetry; apply Nat.ltb_ge; lia).
      rewrite Ho. reflexivity.
    - intros b Hb. apply in_app_iff in Hb as [Hb|[<-|[]]]; auto.
    - apply once_step; [exact Honce | intros _; exact Hnp].
    - intros c Hc Hin. apply in_app_iff in Hin as [Hin|[Hin|[]]].
      + destruct (Hcu c Hc Hin) as (r1 & Hr1 & Hc1'). rewrite Har in Hr1. apply in_app_iff in Hr1 as [Hr1|[<-|[]]].
        * exists r1. split; [apply in_app_iff; left; exact Hr1 | exact Hc1'].
        * eexists. split; [apply in_app_iff; right; left; reflexivity|]. cbn [rcus]. apply in_app_iff. left. exact Hc1'.
      + subst c. eexists. split; [apply in_app_iff; right; left; reflexivity|]. cbn [rcus]. apply in_app_iff. right. left. reflexivity.
    - intros r1 c Hr1 Hc1'. apply in_app_iff in Hr1 as [Hr1|[<-|[]]].
      + destruct (Hcu' r1 c) as [H1 H2]; [rewrite Har; apply in_app_iff; left; exact Hr1 | exact Hc1' |].
        split; [exact H1 | apply in_app_iff; left; exact H2].
      + cbn [rcus] in Hc1'. apply in_app_iff in Hc1' as [Hc1'|[<-|[]]].
        * destruct (Hcu' r c) as [H1 H2]; [rewrite Har; apply in_app_iff; right; left; reflexivity | exact Hc1' |].
          split; [exact H1 | apply in_app_iff; left; exact H2].
        * split; [lia | apply in_app_iff; right; left; reflexivity].
    - intros e He. rewrite map_app. cbn [map rdep]. replace (map rdep (closed ps) ++ [rdep r]) with (map rdep (all_routes ps)) by (rewrite Har, map_app; reflexivity).
      rewrite <- (Hdep e He), in_app_iff. cbn [In]. split; [intros [H|[H|[]]]; [exact H | lia] | tauto].
    - rewrite map_app. cbn [map rdep]. replace (map rdep (closed ps) ++ [rdep r]) with (map rdep (all_routes ps)) by (rewrite Har, map_app; reflexivity). exact Hdnd.
    - intros r1 Hr1. apply in_app_iff in Hr1 as [Hr1|[<-|[]]]; [apply Hdlt; rewrite Har; apply in_app_iff; left; exact Hr1|].
      cbn [rdep]. apply Hdlt. rewrite Har. apply in_app_iff. right. left. reflexivity.
    - exact Hcl.
    - intros r0 c Hr0 Hc0. cbn [rcus]. intros Hc. apply in_app_iff in Hc as [Hc|[Hc|[]]].
      + specialize (Hdisj r0 c Hr0 Hc0). rewrite Ho in Hdisj. exact (Hdisj Hc).
      + subst c. apply Hnp. apply (Hcu' r0 a); [rewrite Har; apply in_app_iff; left; exact Hr0 | exact Hc0].
    - exact Hdp.
    - intros _. apply in_app_iff. left. apply Hdpin. exact Hfs.
    - discriminate.
    - cbn [rdep rcus]. split; [exact Hd|].
      assert (Hcar : carry s + (if Nat.leb (nd F i) a && Nat.ltb a (split F i) then 1 else 0) - (if Nat.leb (split F i) a then 1 else 0)
                     = carry s + delta ndp h a) by (pose proof (carry_delta a Han); lia).
      rewrite Hcar.
      destruct (pick_or_del a Ha) as [(Hpa' & Hda & Hlt' & Hdl)|(Hpa' & Hda & Hge & Hdl)]; rewrite Hpa', Hdl.
      + (* pickup *)
        specialize (Hcapa Hlt'). specialize (Hnodel Hpa').
        split.
        { unfold route_okb. cbn [rcus]. rewrite walk_snoc. unfold route_okb in Hok. rewrite Hok, Hda, Hdl. cbn [andb].
          rewrite andb_true_r. rewrite <- Hc1. lia. }
        split; [rewrite netload_app; unfold netload at 2; cbn [map sumZ]; rewrite Hdl; lia|].
        split; [cbn [length]; lia|]. split; [lia|].
        split; [constructor; [intros Hc; apply Hpend in Hc; tauto | exact Hpnd]|].
        split; [|split; [exact Hback | reflexivity]].
        intros q. cbn [In]. rewrite Hpend, !in_app_iff. cbn [In]. split.
        * intros [<-|(H1 & H2 & H3)].
          -- split; [right; left; reflexivity|]. split; [exact Hpa'|]. intros [Hc|[Hc|[]]]; [exact (Hnodel Hc) | lia].
          -- split; [left; exact H1|]. split; [exact H2|]. intros [Hc|[Hc|[]]]; [exact (H3 Hc)|].
             unfold is_pick in H2. apply andb_prop in H2 as [H2 _]. apply Nat.leb_le in H2. lia.
        * intros ([H1|[H1|[]]] & H2 & H3); [right | left; exact H1].
          split; [exact H1|]. split; [exact H2|]. intros Hc. apply H3. left. exact Hc.
      + (* delivery *)
        specialize (Hpk Hda).
        assert (Hinp : In (a - h)%nat pend).
        { apply Hpend. split; [exact Hpk|]. split.
          - unfold is_pick. apply andb_true_intro. split; [apply Nat.leb_le; lia | apply Nat.ltb_lt; lia].
          - replace (a - h + h)%nat with a by lia. exact Hnp. }
        pose proof (remove_length_NoDup _ _ Hpnd Hinp) as Hlen.
        split.
        { unfold route_okb. cbn [rcus]. rewrite walk_snoc. unfold route_okb in Hok. rewrite Hok, Hda, Hdl. cbn [andb].
          rewrite app_nil_r. apply andb_true_intro. split; [rewrite <- Hc1; lia|]. apply existsb_eqb_In. apply in_rev in Hpk. exact Hpk. }
        split; [rewrite netload_app; unfold netload at 2; cbn [map sumZ]; rewrite Hdl; lia|].
        split; [lia|]. split; [lia|].
        split; [apply remove_NoDup; exact Hpnd|].
        split; [|split; [exact Hback | reflexivity]].
        intros q. split.
        * intros Hq. apply in_remove in Hq as [Hq Hne]. apply Hpend in Hq as (H1 & H2 & H3).
          split; [apply in_app_iff; left; exact H1|]. split; [exact H2|]. intros Hc. apply in_app_iff in Hc as [Hc|[Hc|[]]]; [exact (H3 Hc) | lia].
        * intros (H1 & H2 & H3). apply in_app_iff in H1 as [H1|[H1|[]]]; [|subst q; congruence].
          apply in_in_remove; [intros ->; apply H3; apply in_app_iff; right; left; lia|].
          apply Hpend. split; [exact H1|]. split; [exact H2|]. intros Hc. apply H3. apply in_app_iff. left. exact Hc.
  Qed.

  (* ---------------------------------------------------------------- every offered step of an unfinished row *)
  (* an offered action of an unfinished row is one of: a vehicle leaves a depot not used so far (and the code's
     current depot becomes that depot); the vehicle on the road, empty, comes home while another depot is still
     unused; the vehicle on the road serves an unvisited customer whose precedence and load conditions hold *)
  Definition step_case (p : list nat) (ps : pstate) (pend : list nat) (s : md_st) (a : nat) : Prop :=
    (openr ps = None /\ pend = [] /\ (a < ndp)%nat /\ ~ In a p /\ next_depot F i s a = a) \/
    (exists r, openr ps = Some r /\ pend = [] /\ a = rdep r /\ exists j, (j < ndp)%nat /\ nth j (avail s) false = true) \/
    (exists r, openr ps = Some r /\ (ndp <= a < nn i)%nat /\ ~ In a p /\ ((a < ndp + h)%nat \/ In (a - h)%nat p) /\
               ((a < ndp + h)%nat -> carry s < vcap i (rdep r))).

  Lemma step_cases p ps pend s a :
    Inv p ps pend s -> md_done i s = false -> offered (E:=E) i s a = true -> step_case p ps pend s a.
  Proof.
    intros HI Hnd Hoff. pose proof (nd_eq F i Hgood) as Hndq. pose proof (nn_eq i Hwf) as Hnn.
    destruct (fresh s) eqn:Hf.
    - (* first step: only node 0 *)
      rewrite offered_fresh in Hoff by exact Hf. apply Nat.eqb_eq in Hoff. subst a.
      assert (Hp : p = []) by (apply (inv_fresh _ _ _ _ HI); exact Hf). subst p.
      assert (Hps : ps = pstart) by (pose proof (inv_parse _ _ _ _ HI) as H; unfold parse in H; cbn in H; congruence). subst ps.
      assert (Hpe : pend = []) by (pose proof (inv_open _ _ _ _ HI) as H; cbn in H; tauto). subst pend.
      left. split; [reflexivity|]. split; [reflexivity|]. split; [apply (wf_ndp i Hwf)|]. split; [intros []|].
      assert (Hav0 : nth 0 (avail s) false = true).
      { destruct (nth 0 (avail s) false) eqn:E0; [reflexivity|]. exfalso. apply (inv_avail _ _ _ _ HI 0%nat nnpos) in E0. destruct E0. }
      unfold next_depot, is_back. rewrite Hav0, andb_false_r, Hndq.
      replace (Nat.ltb 0 ndp) with true by (symmetry; apply Nat.ltb_lt; apply (wf_ndp i Hwf)).
      destruct (good_switch F i Hgood) as [Hs|[_ Hs]]; [rewrite Hs; reflexivity|].
      destruct (fx_switch F); [reflexivity|]. rewrite (inv_depstart _ _ _ _ HI Hf). exact Hs.
    - rewrite offered_nonfresh in Hoff by exact Hf. apply andb_prop in Hoff as [Han Hm]. apply Nat.ltb_lt in Han.
      unfold mask_at in Hm. rewrite Hndq, (split_eq F i Hwf Hgood), Hnd in Hm.
      destruct (Nat.ltb a ndp) eqn:Ea.
      + apply Nat.ltb_lt in Ea. destruct (Nat.eqb a (depot s)) eqn:Ead.
        * (* the current depot: coming home *)
          apply Nat.eqb_eq in Ead. rewrite orb_false_r in Hm.
          apply andb_prop in Hm as [Hm Hcf]. apply andb_prop in Hm as [Hb Hl].
          apply negb_true_iff in Hb, Hl, Hcf.
          pose proof (inv_open _ _ _ _ HI) as Hop. destruct (openr ps) as [r|] eqn:Ho.
          -- destruct Hop as (Hd & _ & _ & Hc2 & _ & _ & _ & _ & _).
             assert (Hpe : pend = []) by (destruct pend; [reflexivity | cbn [length] in Hc2; lia]).
             right. left. exists r. split; [exact Ho|]. split; [exact Hpe|]. split; [congruence|].
             apply negb_false_iff in Hl. apply anyb_exists in Hl as (j & Hj & Hjt). rewrite firstn_length in Hj.
             exists j. split; [lia|]. rewrite nth_firstn in Hjt by lia. exact Hjt.
          -- destruct Hop as (_ & _ & Hbk). destruct (Hbk Hf) as [Hbk' _]. congruence.
        * (* another depot: a new vehicle *)
          apply Nat.eqb_neq in Ead.
          apply andb_prop in Hm as [Hm Hcf]. apply andb_prop in Hm as [Hm Hl]. apply andb_prop in Hm as [Hbase Hb].
          apply andb_prop in Hbase as [Hava _].
          assert (Hnp : ~ In a p) by (intros Hc; apply (inv_avail _ _ _ _ HI a Han) in Hc; congruence).
          pose proof (inv_open _ _ _ _ HI) as Hop. destruct (openr ps) as [r|] eqn:Ho.
          -- destruct Hop as (_ & _ & _ & _ & _ & _ & _ & Hbf & _). congruence.
          -- destruct Hop as (Hpe & _ & _).
             left. split; [exact Ho|]. split; [exact Hpe|]. split; [exact Ea|]. split; [exact Hnp|].
             unfold next_depot, is_back. rewrite Hava, andb_false_r, Hndq.
             replace (Nat.ltb a ndp) with true by (symmetry; apply Nat.ltb_lt; exact Ea).
             destruct (good_switch F i Hgood) as [Hs|[Hs _]]; [rewrite Hs; reflexivity|].
             exfalso. pose proof (inv_depot _ _ _ _ HI). lia.
      + (* a customer *)
        apply Nat.ltb_ge in Ea.
        apply andb_prop in Hm as [Hm Hb]. apply andb_prop in Hm as [Hbase Hcp]. apply andb_prop in Hbase as [Hava Htda].
        apply negb_true_iff in Hb.
        assert (Hnp : ~ In a p) by (intros Hc; apply (inv_avail _ _ _ _ HI a Han) in Hc; congruence).
        apply (inv_todel _ _ _ _ HI a Han) in Htda.
        pose proof (inv_open _ _ _ _ HI) as Hop. destruct (openr ps) as [r|] eqn:Ho.
        * right. right. exists r. split; [exact Ho|]. split; [lia|]. split; [exact Hnp|]. split; [exact Htda|].
          intros Hlt'. replace (Nat.ltb a (ndp + h)) with true in Hcp by (symmetry; apply Nat.ltb_lt; exact Hlt').
          apply negb_true_iff in Hcp. destruct Hop as (Hd & _).
          destruct (cap_at_vcap F i Hwf Hgood (depot s) (inv_depot _ _ _ _ HI)) as [Hcv _]. rewrite Hd in Hcv at 2. lia.
        * destruct Hop as (_ & _ & Hbk). destruct (Hbk Hf) as [Hbk' _]. congruence.
  Qed.

  (* how the specification reads the extended action list, and which pickups are then on board *)
  Definition next_ps (ps : pstate) (a : nat) : pstate :=
    match openr ps with
    | None => {| closed := closed ps; openr := Some {| rdep := a; rcus := [] |} |}
    | Some r => if Nat.ltb a ndp then {| closed := closed ps ++ [r]; openr := None |}
                else {| closed := closed ps; openr := Some {| rdep := rdep r; rcus := rcus r ++ [a] |} |}
    end.
  Definition next_pend (ps : pstate) (pend : list nat) (a : nat) : list nat :=
    match openr ps with
    | None => []
    | Some r => if Nat.ltb a ndp then [] else if pickb a then a :: pend else remove Nat.eq_dec (a - h)%nat pend
    end.

  Lemma step_inv p ps pend s a :
    Inv p ps pend s -> md_done i s = false -> offered (E:=E) i s a = true ->
    Inv (p ++ [a]) (next_ps ps a) (next_pend ps pend a) (md_step exact F i s a).
  Proof.
    intros HI Hnd Hoff. unfold next_ps, next_pend.
    destruct (step_cases p ps pend s a HI Hnd Hoff) as [(Ho & Hpe & Ha & Hnp & Hd)|[(r & Ho & Hpe & Ha & Hex)|(r & Ho & Ha & Hnp & Htd & Hcp)]]; rewrite Ho.
    - subst pend. apply open_new_inv; assumption.
    - subst pend a. pose proof (inv_deplt _ _ _ _ HI r) as Hlt. unfold all_routes in Hlt. rewrite Ho in Hlt.
      specialize (Hlt ltac:(apply in_app_iff; right; left; reflexivity)).
      replace (Nat.ltb (rdep r) ndp) with true by (symmetry; apply Nat.ltb_lt; exact Hlt). apply back_inv; assumption.
    - replace (Nat.ltb a ndp) with false by (symmetry; apply Nat.ltb_ge; lia). apply cust_inv; assumption.
  Qed.

  Lemma stepok_from_inv p ps pend ps' pend' s a :
    solo i || fx_leg F = true ->
    Inv p ps pend s -> Inv (p ++ [a]) ps' pend' (md_step exact F i s a) -> md_stepok F i s a = true.
  Proof.
    intros Hsolo HI HI'. pose proof (nd_eq F i Hgood) as Hndq.
    assert (Han : (a < nn i)%nat) by (apply (inv_rng _ _ _ _ HI'); apply in_app_iff; right; left; reflexivity).
    pose proof (inv_depot _ _ _ _ HI') as Hd. cbn [md_step depot] in Hd.
    unfold md_stepok. rewrite (inv_la _ _ _ _ HI), (inv_lt _ _ _ _ HI), (inv_ll _ _ _ _ HI), Hndq.
    destruct (cap_at_vcap F i Hwf Hgood _ Hd) as [_ Hcc].
    repeat (apply andb_true_intro; split); try (apply Nat.ltb_lt); try assumption.
    - apply Nat.mod_upper_bound. pose proof nnpos. lia.
    - apply (inv_node _ _ _ _ HI).
    - rewrite Hsolo. reflexivity.
  Qed.

  (* ---------------------------------------------------------------- along admitted runs *)
  (* every proper prefix of the action list leaves the row unfinished *)
  Definition live (acts : list nat) : Prop :=
    forall p q, acts = p ++ q -> q <> [] -> done E i (run (E:=E) i p) = false.
  Lemma live_prefix a b : live (a ++ b) -> live a.
  Proof. intros H p q Hq Hne. apply (H p (q ++ b)); [rewrite Hq, app_assoc; reflexivity | intros Hc; apply app_eq_nil in Hc as [Hc _]; exact (Hne Hc)]. Qed.

  Lemma adm_inv acts : adm (E:=E) i acts = true -> live acts -> exists ps pend, Inv acts ps pend (run (E:=E) i acts).
  Proof.
    induction acts as [|a acts IH] using rev_ind; intros Hadm Hlive.
    - exists pstart, []. apply reset_inv.
    - rewrite adm_snoc in Hadm. apply andb_prop in Hadm as [Hadm Hoff].
      destruct (IH Hadm (live_prefix _ _ Hlive)) as (ps & pend & HI).
      rewrite run_snoc. cbn [step MDCPDP]. eexists. eexists. apply (step_inv acts ps pend _ a HI); [|exact Hoff].
      apply (Hlive acts [a] eq_refl). discriminate.
  Qed.

  (* ================================================================ C01 *)
  Theorem md_mask_sound acts :
    adm (E:=E) i acts = true -> live acts -> done E i (run (E:=E) i acts) = true -> spec_feasibleb i acts = true.
  Proof.
    intros Hadm Hlive Hdone. destruct (adm_inv acts Hadm Hlive) as (ps & pend & HI).
    pose proof (nn_eq i Hwf) as Hnn.
    assert (Hall : forall j, (j < nn i)%nat -> In j acts).
    { intros j Hj. apply (inv_avail _ _ _ _ HI j Hj). cbn [done MDCPDP] in Hdone. unfold md_done in Hdone.
      apply negb_true_iff in Hdone. apply anyb_false_nth. exact Hdone. }
    unfold spec_feasibleb, md_feasibleb. rewrite (inv_parse _ _ _ _ HI).
    repeat (apply andb_true_intro; split); apply forallb_forall.
    - intros e He. apply in_seq in He. apply Nat.eqb_eq.
      assert (Hin : In e (map rdep (all_routes ps))) by (apply (inv_dep _ _ _ _ HI); [lia | apply Hall; lia]).
      pose proof (proj1 (NoDup_count_occ Nat.eq_dec _) (inv_depnd _ _ _ _ HI) e) as Hle.
      apply (count_occ_In Nat.eq_dec) in Hin. unfold occ. lia.
    - intros c Hc. apply in_seq in Hc. apply Nat.eqb_eq.
      pose proof (inv_once _ _ _ _ HI c ltac:(lia)) as Hle.
      assert (Hin : In c acts) by (apply Hall; lia). apply occ_In in Hin. lia.
    - intros a Ha. apply Nat.ltb_lt. rewrite <- Hnn. apply (inv_rng _ _ _ _ HI). exact Ha.
    - intros r Hr. unfold all_routes in Hr. apply in_app_iff in Hr as [Hr|Hr].
      + apply (inv_closed _ _ _ _ HI). exact Hr.
      + pose proof (inv_open _ _ _ _ HI) as Hop. destruct (openr ps) as [r0|]; [|destruct Hr].
        destruct Hr as [<-|[]]. tauto.
  Qed.
End Run.


(* ================================================================ C02 *)
Lemma anyb_set_false l a : anyb (set_nth a false l) = true -> anyb l = true.
Proof.
  revert a; induction l as [|x l IH]; intros a H; [destruct a; exact H|].
  destruct a as [|a]; cbn [set_nth] in H; unfold anyb in *; cbn [existsb] in *.
  - cbn in H. rewrite H. apply orb_true_r.
  - apply orb_prop in H as [H|H]; [rewrite H; reflexivity|]. rewrite (IH _ H). apply orb_true_r.
Qed.

(* finished stays finished: no hypothesis at all *)
Theorem md_done_stable A F i s a : md_done i s = true -> md_done i (md_step A F i s a) = true.
Proof.
  unfold md_done. cbn [md_step avail]. intros H. apply negb_true_iff in H. apply negb_true_iff.
  destruct (anyb (set_nth a false (avail s))) eqn:E; [|reflexivity]. apply anyb_set_false in E. congruence.
Qed.

Section C02.
  Variable F : mdfix.
  Variable i : md_inst.
  Hypothesis Hwf : md_wfb i = true.
  Hypothesis Hgood : md_good F i = true.

  Notation E := (MDCPDP exact F).
  Notation h := (hh i).
  Notation ndp := (ndep i).
  Notation pickb := (is_pick (ndep i) (hh i)).
  Notation delb := (is_del (ndep i) (hh i)).

  Lemma mask_has s j : fresh s = false -> (j < nn i)%nat -> mask_at F i s j = true -> anyb (md_mask F i s) = true.
  Proof.
    intros Hf Hj Hm. apply anyb_exists. unfold md_mask. rewrite Hf. exists j. rewrite map_length, seq_length.
    split; [exact Hj|]. rewrite nth_map_seq by exact Hj. exact Hm.
  Qed.

  Lemma solv_cap e : md_solvableb i = true -> (e < ndp)%nat -> 1 <= cap_at F i e.
  Proof.
    intros Hs He. destruct (cap_at_vcap F i Hwf Hgood e He) as [_ Hl]. unfold cap_at.
    unfold md_solvableb in Hs. rewrite forallb_forall in Hs. specialize (Hs _ (nth_In _ 0 Hl)). lia.
  Qed.

  Lemma no_dead_end_inv p ps pend s : md_solvableb i = true -> Inv i p ps pend s -> anyb (md_mask F i s) = true.
  Proof.
    intros Hsol HI. pose proof (nd_eq F i Hgood) as Hndq. pose proof (nn_eq i Hwf) as Hnn. pose proof (split_eq F i Hwf Hgood) as Hsp.
    pose proof (inv_depot _ _ _ _ _ HI) as Hdp.
    destruct (fresh s) eqn:Hf; [unfold md_mask; rewrite Hf; reflexivity|].
    destruct (md_done i s) eqn:Hdn.
    - apply (mask_has s (depot s) Hf); [lia|]. unfold mask_at. rewrite Hndq.
      replace (Nat.ltb (depot s) ndp) with true by (symmetry; apply Nat.ltb_lt; exact Hdp).
      rewrite Nat.eqb_refl, Hdn. apply orb_true_r.
    - pose proof (inv_open _ _ _ _ _ HI) as Hop. destruct (openr ps) as [r|] eqn:Ho.
      + destruct Hop as (Hd & Hok & Hc1 & Hc2 & Hc3 & Hpnd & Hpend & Hbf & _).
        destruct pend as [|q pend].
        * (* nothing on board *)
          cbn [length] in Hc2.
          destruct (existsb (fun c => nth c (avail s) false) (seq ndp h)) eqn:Hex.
          -- (* an unvisited pickup *)
             apply existsb_exists in Hex as (c & Hc & Hca). apply in_seq in Hc.
             apply (mask_has s c Hf); [lia|]. unfold mask_at. rewrite Hndq, Hsp.
             replace (Nat.ltb c ndp) with false by (symmetry; apply Nat.ltb_ge; lia).
             replace (Nat.ltb c (ndp + h)) with true by (symmetry; apply Nat.ltb_lt; lia).
             rewrite Hca, Hbf. replace (nth c (todel s) false) with true by (symmetry; apply (inv_todel _ _ _ _ _ HI); [lia | left; lia]).
             pose proof (solv_cap (depot s) Hsol Hdp). cbn [andb negb]. rewrite andb_true_r. apply negb_true_iff. lia.
          -- (* every pickup visited, hence every delivery too: an unvisited depot remains and the vehicle may go home *)
             assert (Hpv : forall c, (ndp <= c < ndp + h)%nat -> In c p).
             { intros c Hc. apply (inv_avail _ _ _ _ _ HI c ltac:(lia)).
               destruct (nth c (avail s) false) eqn:Eca; [|reflexivity]. exfalso.
               assert (existsb (fun c => nth c (avail s) false) (seq ndp h) = true); [|congruence].
               apply existsb_exists. exists c. split; [apply in_seq; lia | exact Eca]. }
             assert (Hdv : forall c, (ndp + h <= c < nn i)%nat -> In c p).
             { intros c Hc. destruct (in_dec Nat.eq_dec c p) as [Hin|Hnin]; [exact Hin|]. exfalso.
               assert (Hq : In (c - h)%nat p) by (apply Hpv; lia).
               assert (Hpq : pickb (c - h) = true) by (unfold is_pick; apply andb_true_intro; split; [apply Nat.leb_le | apply Nat.ltb_lt]; lia).
               destruct (inv_cust _ _ _ _ _ HI (c - h)%nat ltac:(lia) Hq) as (r1 & Hr1 & Hc1').
               unfold all_routes in Hr1. rewrite Ho in Hr1. apply in_app_iff in Hr1 as [Hr1|[<-|[]]].
               - destruct (inv_closed _ _ _ _ _ HI r1 Hr1) as [_ Hbal]. specialize (Hbal _ Hc1' Hpq).
                 replace (c - h + h)%nat with c in Hbal by lia. apply Hnin.
                 apply (inv_cust' _ _ _ _ _ HI r1 c); [unfold all_routes; apply in_app_iff; left; exact Hr1 | exact Hbal].
               - assert (In (c - h)%nat []) as []. apply Hpend. split; [exact Hc1'|]. split; [exact Hpq|].
                 replace (c - h + h)%nat with c by lia. exact Hnin. }
             unfold md_done in Hdn. apply negb_false_iff in Hdn. apply anyb_exists in Hdn as (j & Hj & Hjt).
             rewrite (inv_la _ _ _ _ _ HI) in Hj.
             assert (Hjd : (j < ndp)%nat).
             { destruct (Nat.ltb j ndp) eqn:Ej; [apply Nat.ltb_lt in Ej; exact Ej|]. apply Nat.ltb_ge in Ej. exfalso.
               assert (In j p) as Hin by (destruct (Nat.ltb j (ndp + h)) eqn:Ej2; [apply Nat.ltb_lt in Ej2; apply Hpv; lia | apply Nat.ltb_ge in Ej2; apply Hdv; lia]).
               apply (inv_avail _ _ _ _ _ HI j Hj) in Hin. congruence. }
             apply (mask_has s (depot s) Hf); [lia|]. unfold mask_at. rewrite Hndq.
             replace (Nat.ltb (depot s) ndp) with true by (symmetry; apply Nat.ltb_lt; exact Hdp).
             rewrite Nat.eqb_refl, Hbf.
             assert (Hany : anyb (firstn ndp (avail s)) = true).
             { apply anyb_exists. exists j. rewrite firstn_length, (inv_la _ _ _ _ _ HI). split; [lia|]. rewrite nth_firstn by exact Hjd. exact Hjt. }
             rewrite Hany. replace (0 <? carry s) with false by lia. reflexivity.
        * (* a parcel on board: its delivery is offered *)
          assert (Hq : In q (q :: pend)) by (left; reflexivity). apply Hpend in Hq as (Hq1 & Hq2 & Hq3).
          assert (Hqr : (ndp <= q < ndp + h)%nat) by (unfold is_pick in Hq2; apply andb_prop in Hq2 as [Ha Hb]; apply Nat.leb_le in Ha; apply Nat.ltb_lt in Hb; lia).
          apply (mask_has s (q + h)%nat Hf); [lia|]. unfold mask_at. rewrite Hndq, Hsp.
          replace (Nat.ltb (q + h) ndp) with false by (symmetry; apply Nat.ltb_ge; lia).
          replace (Nat.ltb (q + h) (ndp + h)) with false by (symmetry; apply Nat.ltb_ge; lia).
          rewrite Hbf.
          replace (nth (q + h) (avail s) false) with true.
          2:{ destruct (nth (q + h) (avail s) false) eqn:Eqa; [reflexivity|]. exfalso. apply Hq3. apply (inv_avail _ _ _ _ _ HI); [lia | exact Eqa]. }
          replace (nth (q + h) (todel s) false) with true; [reflexivity|].
          symmetry. apply (inv_todel _ _ _ _ _ HI); [lia|]. right. replace (q + h - h)%nat with q by lia.
          apply (inv_cust' _ _ _ _ _ HI r q); [unfold all_routes; rewrite Ho; apply in_app_iff; right; left; reflexivity | exact Hq1].
      + (* just came home: an unvisited depot is offered *)
        destruct Hop as (_ & Hc0 & Hbk). destruct (Hbk Hf) as (Hbf & j & Hj & Hjt).
        assert (Hjd : j <> depot s).
        { intros ->. pose proof (inv_depin _ _ _ _ _ HI Hf) as Hin. apply (inv_avail _ _ _ _ _ HI) in Hin; [congruence | lia]. }
        apply (mask_has s j Hf); [lia|]. unfold mask_at. rewrite Hndq.
        replace (Nat.ltb j ndp) with true by (symmetry; apply Nat.ltb_lt; exact Hj).
        replace (Nat.eqb j (depot s)) with false by (symmetry; apply Nat.eqb_neq; exact Hjd).
        rewrite Hjt, Hbf. replace (nth j (todel s) false) with true by (symmetry; apply (inv_todel _ _ _ _ _ HI); [lia | left; lia]).
        assert (Hany : anyb (firstn ndp (avail s)) = true).
        { apply anyb_exists. exists j. rewrite firstn_length, (inv_la _ _ _ _ _ HI). split; [lia|]. rewrite nth_firstn by exact Hj. exact Hjt. }
        rewrite Hany. replace (0 <? carry s) with false by lia. reflexivity.
  Qed.

  Theorem md_no_dead_end acts :
    md_solvableb i = true -> adm (E:=E) i acts = true -> live F i acts -> anyb (mask E i (run (E:=E) i acts)) = true.
  Proof.
    intros Hsol Hadm Hlive. destruct (adm_inv F i Hwf Hgood acts Hadm Hlive) as (ps & pend & HI).
    exact (no_dead_end_inv _ _ _ _ Hsol HI).
  Qed.

  (* no crash: every index of the step is inside its tensor *)
  Theorem md_step_ok acts a :
    solo i || fx_leg F = true ->
    adm (E:=E) i (acts ++ [a]) = true -> live F i (acts ++ [a]) -> stepok E i (run (E:=E) i acts) a = true.
  Proof.
    intros Hsolo Hadm Hlive.
    destruct (adm_inv F i Hwf Hgood _ Hadm Hlive) as (ps' & pend' & HI').
    rewrite adm_snoc in Hadm. apply andb_prop in Hadm as [Hadm _].
    destruct (adm_inv F i Hwf Hgood _ Hadm (live_prefix F i _ _ Hlive)) as (ps & pend & HI).
    rewrite run_snoc in HI'. exact (stepok_from_inv F i Hwf Hgood _ _ _ _ _ _ _ Hsolo HI HI').
  Qed.
End C02.


(* ---------------------------------------------------------------- how long an action list is, read as routes *)
Definition custs_of (ps : pstate) : list nat := concat (map rcus (all_routes ps)).

Lemma parse_shape nd_ p : forall ps, parse nd_ p = Some ps ->
  length p = (length (all_routes ps) + length (custs_of ps) + length (closed ps))%nat /\
  custs_of ps = filter (fun a => negb (Nat.ltb a nd_)) p.
Proof.
  induction p as [|a p IH] using rev_ind; intros ps Hp.
  - unfold parse in Hp. cbn in Hp. injection Hp as <-. split; reflexivity.
  - rewrite parse_snoc in Hp. destruct (parse nd_ p) as [ps0|] eqn:Hp0; [|discriminate].
    destruct (IH ps0 eq_refl) as [IH1 IH2]. rewrite app_length, filter_app. cbn [length filter].
    unfold parse_step in Hp. unfold custs_of, all_routes in *.
    destruct (Nat.ltb a nd_) eqn:Ea; cbn [negb]; destruct (openr ps0) as [r|] eqn:Ho.
    + destruct (Nat.eqb a (rdep r)); [|discriminate]. injection Hp as <-. cbn [closed openr].
      rewrite !app_nil_r. rewrite <- IH2. rewrite !app_length in *. cbn [length] in *. split; [lia | reflexivity].
    + injection Hp as <-. cbn [closed openr]. rewrite !app_nil_r in IH1, IH2. rewrite map_app, concat_app. cbn [map concat rcus].
      rewrite !app_nil_r. rewrite <- IH2. rewrite !app_length. cbn [length]. split; [lia | reflexivity].
    + injection Hp as <-. cbn [closed openr]. rewrite !map_app, !concat_app in *. cbn [map concat rcus] in *. rewrite !app_nil_r in *.
      rewrite app_assoc, <- IH2. rewrite !app_length in *. cbn [length] in *. split; [lia | reflexivity].
    + discriminate.
Qed.

Lemma nodup_filter_occ (f : nat -> bool) (p : list nat) :
  (forall c, f c = true -> (occ c p <= 1)%nat) -> NoDup (filter f p).
Proof.
  intros H. apply (NoDup_count_occ Nat.eq_dec). intros x.
  destruct (f x) eqn:Ef.
  - specialize (H x Ef). unfold occ in H.
    assert (count_occ Nat.eq_dec (filter f p) x <= count_occ Nat.eq_dec p x)%nat; [|lia].
    clear. induction p as [|y p IH]; simpl; [lia|]. destruct (f y); simpl; destruct (Nat.eq_dec y x); lia.
  - assert (~ In x (filter f p)) as Hn by (intros Hc; apply filter_In in Hc as [_ Hc]; congruence).
    apply (count_occ_not_In Nat.eq_dec) in Hn. lia.
Qed.

Section Bound.
  Variable F : mdfix.
  Variable i : md_inst.
  Hypothesis Hwf : md_wfb i = true.
  Hypothesis Hgood : md_good F i = true.
  Notation E := (MDCPDP exact F).
  Notation h := (hh i).
  Notation ndp := (ndep i).

  (* the step bound: nodes + depots - 1 = customers + 2 * depots - 1 *)
  Definition md_bound (i : md_inst) : nat := (nn i + ndep i - 1)%nat.

  Lemma bound_inv p ps pend s : Inv i p ps pend s -> (length p <= md_bound i)%nat.
  Proof.
    intros HI. pose proof (nn_eq i Hwf) as Hnn. pose proof (wf_ndp i Hwf) as Hnd0.
    destruct (parse_shape ndp p ps (inv_parse _ _ _ _ _ HI)) as [Hlen Hcu].
    (* customers: distinct and inside [ndp, nn) *)
    assert (Hc : (length (custs_of ps) <= 2 * h)%nat).
    { rewrite Hcu.
      assert (Hnd : NoDup (filter (fun a => negb (Nat.ltb a ndp)) p)).
      { apply nodup_filter_occ. intros c Hcc. apply negb_true_iff, Nat.ltb_ge in Hcc. apply (inv_once _ _ _ _ _ HI). exact Hcc. }
      assert (Hincl : incl (filter (fun a => negb (Nat.ltb a ndp)) p) (seq ndp (2 * h))).
      { intros x Hx. apply filter_In in Hx as [Hx Hf]. apply negb_true_iff, Nat.ltb_ge in Hf. apply in_seq.
        pose proof (inv_rng _ _ _ _ _ HI x Hx). lia. }
      pose proof (NoDup_incl_length Hnd Hincl) as H. rewrite seq_length in H. exact H. }
    (* routes: distinct depots *)
    assert (Hincl : incl (map rdep (all_routes ps)) (seq 0 ndp)).
    { intros e He. apply in_map_iff in He as (r & <- & Hr). apply in_seq. pose proof (inv_deplt _ _ _ _ _ HI r Hr). lia. }
    pose proof (NoDup_incl_length (inv_depnd _ _ _ _ _ HI) Hincl) as Hr. rewrite seq_length, map_length in Hr.
    unfold md_bound. pose proof (inv_open _ _ _ _ _ HI) as Hop. destruct (openr ps) as [r|] eqn:Ho.
    - assert (length (all_routes ps) = S (length (closed ps))) by (unfold all_routes; rewrite Ho, app_length; cbn; lia). lia.
    - assert (Hrc : length (all_routes ps) = length (closed ps)) by (unfold all_routes; rewrite Ho, app_nil_r; reflexivity).
      destruct (fresh s) eqn:Hf.
      + apply (inv_fresh _ _ _ _ _ HI) in Hf. subst p. cbn [length]. lia.
      + destruct Hop as (_ & _ & Hbk). destruct (Hbk eq_refl) as (_ & j & Hj & Hjt).
        (* depot j has no route yet *)
        assert (Hnj : ~ In j (map rdep (all_routes ps))).
        { intros Hcj. apply (inv_dep _ _ _ _ _ HI j Hj) in Hcj. apply (inv_avail _ _ _ _ _ HI) in Hcj; [congruence | lia]. }
        assert (Hnd2 : NoDup (j :: map rdep (all_routes ps))) by (constructor; [exact Hnj | exact (inv_depnd _ _ _ _ _ HI)]).
        assert (Hincl2 : incl (j :: map rdep (all_routes ps)) (seq 0 ndp)).
        { intros e [<-|He]; [apply in_seq; lia | apply Hincl; exact He]. }
        pose proof (NoDup_incl_length Hnd2 Hincl2) as Hr2. rewrite seq_length in Hr2. cbn [length] in Hr2. rewrite map_length in Hr2. lia.
  Qed.

  Theorem md_bound_ok acts :
    adm (E:=E) i acts = true -> live F i acts -> (length acts <= md_bound i)%nat.
  Proof.
    intros Hadm Hlive. destruct (adm_inv F i Hwf Hgood acts Hadm Hlive) as (ps & pend & HI). exact (bound_inv _ _ _ _ HI).
  Qed.
End Bound.


(* ================================================================ C03: the accumulators *)
Lemma walk_acc_snoc nd_ h d l : forall from t a,
  walk_acc nd_ h d from t (l ++ [a]) =
  match walk_acc nd_ h d from t l with
  | (tot, late, lst) => (tot + d lst a, late + (if is_del nd_ h a then tot + d lst a else 0), a)
  end.
Proof.
  induction l as [|x l IH]; intros from t a; cbn [app walk_acc].
  - f_equal. f_equal. lia.
  - rewrite IH. destruct (walk_acc nd_ h d x (t + d from x) l) as [[tot late] lst]. f_equal. f_equal. lia.
Qed.
Lemma walk_acc_lst nd_ h d l : forall from t, let '(_, _, lst) := walk_acc nd_ h d from t l in lst = from /\ l = [] \/ In lst l.
Proof.
  induction l as [|x l IH]; intros from t; cbn [walk_acc]; [left; auto|].
  specialize (IH x (t + d from x)). destruct (walk_acc nd_ h d x (t + d from x) l) as [[tot late] lst].
  right. destruct IH as [[-> _]|H]; [left; reflexivity | right; exact H].
Qed.

Lemma sumZ_set_nth n x l : (n < length l)%nat -> sumZ (set_nth n x l) = sumZ l - nth n l 0 + x.
Proof.
  revert n; induction l as [|y l IH]; intros [|n] H; cbn [length] in H; try lia; cbn [set_nth sumZ nth]; [lia|].
  rewrite IH by lia. lia.
Qed.
Lemma skipn_set_nth {A} k n (x : A) l :
  skipn k (set_nth n x l) = if Nat.ltb n k then skipn k l else set_nth (n - k) x (skipn k l).
Proof.
  revert n l; induction k as [|k IH]; intros n l.
  - cbn [skipn]. replace (Nat.ltb n 0) with false by (symmetry; apply Nat.ltb_ge; lia). rewrite Nat.sub_0_r. reflexivity.
  - destruct l as [|y l]; [replace (set_nth n x (@nil A)) with (@nil A) by (destruct n; reflexivity); cbn [skipn]; destruct (Nat.ltb n (S k)); [reflexivity | destruct (n - S k)%nat; reflexivity]|].
    destruct n as [|n]; cbn [set_nth skipn]; [reflexivity|]. rewrite IH.
    change (Nat.ltb (S n) (S k)) with (Nat.ltb n k). reflexivity.
Qed.
Lemma nth_skipn' {A} k n (l : list A) d : nth n (skipn k l) d = nth (k + n) l d.
Proof. revert l; induction k as [|k IH]; intros l; [reflexivity|]. destruct l as [|y l]; [destruct n; reflexivity|]. cbn [skipn Nat.add nth]. apply IH. Qed.
Lemma sumZ_skipn_set_nth k n x l : (n < length l)%nat ->
  sumZ (skipn k (set_nth n x l)) = sumZ (skipn k l) + (if Nat.ltb n k then 0 else x - nth n l 0).
Proof.
  intros H. rewrite skipn_set_nth. destruct (Nat.ltb n k) eqn:E; [lia|]. apply Nat.ltb_ge in E.
  rewrite sumZ_set_nth by (rewrite skipn_length; lia). rewrite nth_skipn'. replace (k + (n - k))%nat with n by lia. lia.
Qed.
Lemma walk_sq_snoc nd_ h d l : forall from t a,
  walk_sq nd_ h d from t (l ++ [a]) =
  walk_sq nd_ h d from t l +
  match walk_acc nd_ h d from t l with
  | (tot, _, lst) => if is_del nd_ h a then (tot + d lst a) * (tot + d lst a) else 0
  end.
Proof.
  induction l as [|x l IH]; intros from t a; cbn [app walk_sq walk_acc].
  - lia.
  - rewrite IH. destruct (walk_acc nd_ h d x (t + d from x) l) as [[tot late] lst]. lia.
Qed.
Definition sqs (l : list Z) : Z := sumZ (map (fun t => t * t) l).
Lemma set_nth_map {A B} (f : A -> B) n x l : map f (set_nth n x l) = set_nth n (f x) (map f l).
Proof. revert n; induction l as [|y l IH]; intros [|n]; cbn [set_nth map]; try reflexivity. rewrite IH. reflexivity. Qed.
Lemma sqs_skipn_set_nth k n x l : (n < length l)%nat ->
  sqs (skipn k (set_nth n x l)) = sqs (skipn k l) + (if Nat.ltb n k then 0 else x * x - nth n l 0 * nth n l 0).
Proof.
  intros H. unfold sqs. rewrite <- !skipn_map, set_nth_map. rewrite sumZ_skipn_set_nth by (rewrite map_length; exact H).
  change 0 with ((fun t => t * t) 0) at 2. rewrite map_nth. reflexivity.
Qed.
Lemma set_nth_same {A} n (d : A) l : set_nth n (nth n l d) l = l.
Proof. revert n; induction l as [|y l IH]; intros [|n]; cbn [set_nth nth]; try reflexivity. rewrite IH. reflexivity. Qed.

Lemma sumZ_repeat0 n : sumZ (repeat 0 n) = 0.
Proof. induction n as [|n IH]; [reflexivity | cbn [repeat sumZ]; lia]. Qed.
Lemma sumZ_skipn_repeat0 k n : sumZ (skipn k (repeat 0 n)) = 0.
Proof. revert k; induction n as [|n IH]; intros [|k]; cbn [repeat skipn sumZ]; try reflexivity; [rewrite sumZ_repeat0; reflexivity | apply IH]. Qed.

Lemma sqs_skipn_repeat0 k n : sqs (skipn k (repeat 0 n)) = 0.
Proof. unfold sqs. rewrite <- skipn_map. replace (map (fun t => t * t) (repeat 0 n)) with (repeat 0 n) by (induction n as [|n IH]; cbn [repeat map]; [reflexivity | rewrite <- IH; reflexivity]). apply sumZ_skipn_repeat0. Qed.

Section Acc.
  Variable F : mdfix.
  Variable i : md_inst.
  Hypothesis Hwf : md_wfb i = true.
  Hypothesis Hgood : md_good F i = true.
  Hypothesis Hsolo : solo i || fx_leg F = true.

  Notation E := (MDCPDP exact F).
  Notation h := (hh i).
  Notation ndp := (ndep i).
  Notation D := (dfun i).

  Definition rtot (r : mroute) : Z := fst (fst (walk_acc ndp h D (rdep r) 0 (rcus r))).
  Definition rlst (r : mroute) : nat := snd (walk_acc ndp h D (rdep r) 0 (rcus r)).
  Definition rlen (r : mroute) : Z := route_length ndp h D (opn i) r.
  Definition rlate (r : mroute) : Z := route_late ndp h D r.
  Definition acc_len (ps : pstate) : Z :=
    sumZ (map rlen (closed ps)) + match openr ps with Some r => rtot r | None => 0 end.
  Definition acc_late (ps : pstate) : Z := sumZ (map rlate (all_routes ps)).
  Definition rlate2 (r : mroute) : Z := route_late_sq ndp h D r.
  Definition acc_late2 (ps : pstate) : Z := sumZ (map rlate2 (all_routes ps)).

  Lemma rlen_eq r : rlen r = if opn i then rtot r else rtot r + D (rlst r) (rdep r).
  Proof. unfold rlen, route_length, rtot, rlst. destruct (walk_acc ndp h D (rdep r) 0 (rcus r)) as [[tot late] lst]. reflexivity. Qed.

  Lemma snoc_route r a : let r' := {| rdep := rdep r; rcus := rcus r ++ [a] |} in
    rtot r' = rtot r + D (rlst r) a /\ rlst r' = a /\
    rlate r' = rlate r + (if is_del ndp h a then rtot r + D (rlst r) a else 0) /\
    rlate2 r' = rlate2 r + (if is_del ndp h a then (rtot r + D (rlst r) a) * (rtot r + D (rlst r) a) else 0).
  Proof.
    cbv zeta. unfold rtot, rlst, rlate, route_late, rlate2, route_late_sq. cbn [rdep rcus]. rewrite walk_acc_snoc, walk_sq_snoc.
    destruct (walk_acc ndp h D (rdep r) 0 (rcus r)) as [[tot late] lst]. cbn [fst snd]. auto.
  Qed.

  Record Inv3 (p : list nat) (ps : pstate) (s : md_st) : Prop := {
    i3_la : length (arr s) = nn i;
    i3_node : match openr ps with Some r => node s = rlst r | None => (node s < ndp)%nat end;
    i3_closed : forall r, In r (closed ps) -> nth (rdep r) (lens s) 0 = rlen r;
    i3_open : forall r, openr ps = Some r -> nth (rdep r) (lens s) 0 = rtot r;
    i3_unrouted : forall e, (e < ndp)%nat -> ~ In e (map rdep (all_routes ps)) -> nth e (lens s) 0 = 0;
    i3_sum : sumZ (lens s) = acc_len ps;
    i3_late : sumZ (skipn (ndp + h) (arr s)) = acc_late ps;
    i3_arr0 : forall j, (ndp + h <= j < nn i)%nat -> ~ In j p -> nth j (arr s) 0 = 0;
    i3_late2 : sqs (skipn (ndp + h) (arr s)) = acc_late2 ps;
  }.

  Lemma reset_inv3 : Inv3 [] pstart (md_reset i).
  Proof.
    pose proof (nn_eq i Hwf) as Hnn.
    constructor; cbn [md_reset arr node lens pstart closed openr all_routes app map].
    - apply repeat_length.
    - apply (wf_ndp i Hwf).
    - intros r [].
    - discriminate.
    - intros e He _. apply nth_repeat_lt. exact He.
    - unfold acc_len. cbn [closed openr pstart map sumZ]. rewrite sumZ_repeat0. reflexivity.
    - unfold acc_late. cbn [map sumZ]. apply sumZ_skipn_repeat0.
    - intros j Hj _. apply nth_repeat_lt. lia.
    - unfold acc_late2. cbn [map sumZ]. apply sqs_skipn_repeat0.
  Qed.

  (* distinct routes have distinct depots *)
  Lemma closed_open_depots p ps pend s r r0 :
    Inv i p ps pend s -> openr ps = Some r -> In r0 (closed ps) -> rdep r0 <> rdep r.
  Proof.
    intros HI Ho Hr0 Heq. pose proof (inv_depnd _ _ _ _ _ HI) as Hnd. unfold all_routes in Hnd. rewrite Ho, map_app in Hnd. cbn [map] in Hnd.
    apply (NoDup_app_disj _ _ (rdep r) Hnd); [rewrite <- Heq; apply in_map; exact Hr0 | left; reflexivity].
  Qed.

  (* the vehicle on the road goes to its depot (as an offered step, or as the padding step of a finished row) *)
  Lemma back_inv3 p ps pend s r :
    Inv i p ps pend s -> Inv3 p ps s -> openr ps = Some r ->
    Inv3 (p ++ [rdep r]) {| closed := closed ps ++ [r]; openr := None |} (md_step exact F i s (rdep r)) /\
    next_depot F i s (rdep r) = rdep r.
  Proof.
    intros HI H3 Ho. pose proof (nd_eq F i Hgood) as Hndq. pose proof (nn_eq i Hwf) as Hnn.
    destruct H3 as [Hla Hnode Hcl Hop Hun Hsum Hlate Harr0 Hlate2].
    pose proof (inv_ll _ _ _ _ _ HI) as Hll. rewrite Ho in *.
    pose proof (inv_open _ _ _ _ _ HI) as Hio. rewrite Ho in Hio. destruct Hio as (Hdr & _).
    assert (Hlt : (rdep r < ndp)%nat) by (rewrite <- Hdr; apply (inv_depot _ _ _ _ _ HI)).
    assert (Hnxt : next_depot F i s (rdep r) = rdep r).
    { unfold next_depot, is_back. rewrite Hndq. replace (Nat.ltb (rdep r) ndp) with true by (symmetry; apply Nat.ltb_lt; exact Hlt).
      assert (Hin : In (rdep r) p) by (apply (inv_dep _ _ _ _ _ HI _ Hlt); unfold all_routes; rewrite Ho, map_app; apply in_app_iff; right; left; reflexivity).
      apply (inv_avail _ _ _ _ _ HI) in Hin; [|lia]. rewrite Hin. cbn. destruct (fx_switch F); reflexivity. }
    assert (Hleg : nth (rdep r) (lens s) 0 + leg F i s (rdep r) = rlen r).
    { rewrite (Hop r eq_refl), rlen_eq. unfold leg. rewrite Hndq, Hnode.
      replace (Nat.ltb (rdep r) ndp) with true by (symmetry; apply Nat.ltb_lt; exact Hlt). cbn [andb].
      pose proof (walk_acc_lst ndp h D (rcus r) (rdep r) 0) as Hl. unfold rlst.
      destruct (walk_acc ndp h D (rdep r) 0 (rcus r)) as [[tot late] lst] eqn:Ew. cbn [snd].
      destruct Hl as [[-> Hnil]|Hin].
      - replace (Nat.ltb (rdep r) ndp) with true by (symmetry; apply Nat.ltb_lt; exact Hlt).
        rewrite (wf_dist_diag i Hwf) by lia. destruct (opn i); lia.
      - assert (Hge : (ndp <= lst)%nat).
        { apply (inv_cust' _ _ _ _ _ HI r lst); [unfold all_routes; rewrite Ho; apply in_app_iff; right; left; reflexivity | exact Hin]. }
        replace (Nat.ltb lst ndp) with false by (symmetry; apply Nat.ltb_ge; exact Hge). cbn [negb andb].
        destruct (opn i); cbn [andb]; [lia|]. unfold raw_leg. rewrite Hsolo, Hnode. unfold rlst. rewrite Ew. cbn [snd]. unfold dfun. reflexivity. }
    split; [|exact Hnxt]. constructor; unfold all_routes; cbn [md_step arr node lens closed openr]; rewrite ?Hnxt, ?rnd_exact, ?Hleg, ?app_nil_r.
    + rewrite set_nth_length. exact Hla.
    + exact Hlt.
    + intros r0 Hr0. apply in_app_iff in Hr0 as [Hr0|[<-|[]]].
      * rewrite nth_set_nth_neq; [apply Hcl; exact Hr0|]. apply (closed_open_depots _ _ _ _ _ _ HI Ho Hr0).
      * rewrite nth_set_nth_eq by lia. reflexivity.
    + discriminate.
    + intros e He Hne. assert (Hne' : ~ In e (map rdep (all_routes ps))) by (unfold all_routes; rewrite Ho; exact Hne).
      rewrite nth_set_nth_neq; [apply Hun; assumption|]. intros ->. apply Hne'. unfold all_routes. rewrite Ho, map_app. apply in_app_iff. right. left. reflexivity.
    + rewrite sumZ_set_nth by lia. rewrite Hsum. unfold acc_len. cbn [closed openr]. rewrite Ho, map_app, sumZ_app. cbn [map sumZ].
      rewrite (Hop r eq_refl). lia.
    + rewrite sumZ_skipn_set_nth by lia. replace (Nat.ltb (rdep r) (ndp + h)) with true by (symmetry; apply Nat.ltb_lt; lia).
      rewrite Hlate. unfold acc_late, all_routes. cbn [closed openr]. rewrite Ho, app_nil_r. lia.
    + intros j Hj Hnj. rewrite nth_set_nth_neq by lia. apply Harr0; [exact Hj|]. intros Hc. apply Hnj. apply in_app_iff. left. exact Hc.
    + rewrite sqs_skipn_set_nth by lia. replace (Nat.ltb (rdep r) (ndp + h)) with true by (symmetry; apply Nat.ltb_lt; lia).
      rewrite Hlate2. unfold acc_late2, all_routes. cbn [closed openr]. rewrite Ho, app_nil_r. lia.
  Qed.

  Lemma step_inv3 p ps pend s a :
    Inv i p ps pend s -> Inv3 p ps s -> step_case F i p ps pend s a ->
    Inv3 (p ++ [a]) (next_ps i ps a) (md_step exact F i s a).
  Proof.
    intros HI H3 Hcase. pose proof (nd_eq F i Hgood) as Hndq. pose proof (nn_eq i Hwf) as Hnn. pose proof H3 as H3'.
    destruct H3 as [Hla Hnode Hcl Hop Hun Hsum Hlate Harr0 Hlate2].
    pose proof (inv_ll _ _ _ _ _ HI) as Hll.
    unfold next_ps.
    destruct Hcase as [(Ho & Hpe & Ha & Hnp & Hd)|[(r & Ho & Hpe & Ha & Hex)|(r & Ho & Ha & Hnp & Htd & Hcp)]]; rewrite Ho in *.
    - (* a vehicle leaves a new depot: nothing is added *)
      assert (Hunr : ~ In a (map rdep (all_routes ps))) by (intros Hc; apply Hnp; apply (inv_dep _ _ _ _ _ HI a Ha); exact Hc).
      assert (Hleg : leg F i s a = 0).
      { unfold leg. rewrite Hndq. replace (Nat.ltb a ndp) with true by (symmetry; apply Nat.ltb_lt; exact Ha).
        replace (Nat.ltb (node s) ndp) with true by (symmetry; apply Nat.ltb_lt; exact Hnode). reflexivity. }
      assert (Hl0 : nth a (lens s) 0 = 0) by (apply Hun; assumption).
      assert (Har : all_routes ps = closed ps) by (unfold all_routes; rewrite Ho; apply app_nil_r).
      constructor; unfold all_routes; cbn [md_step arr node lens closed openr]; rewrite ?Hd, ?Hleg, ?rnd_exact, ?Hl0; cbn [Z.add].
      + rewrite set_nth_length. exact Hla.
      + unfold rlst. cbn. reflexivity.
      + intros r0 Hr0. rewrite nth_set_nth_neq; [apply Hcl; exact Hr0|]. intros Heq. apply Hunr. rewrite Har, <- Heq. apply in_map. exact Hr0.
      + intros r0 Hr0. injection Hr0 as <-. cbn [rdep]. rewrite nth_set_nth_eq by lia. unfold rtot. reflexivity.
      + intros e He Hne. rewrite map_app, in_app_iff in Hne. cbn [map rdep In] in Hne.
        rewrite nth_set_nth_neq by (intros ->; apply Hne; right; left; reflexivity). apply Hun; [exact He|]. rewrite Har. tauto.
      + rewrite sumZ_set_nth by lia. rewrite Hl0, Hsum. unfold acc_len. cbn [closed openr]. rewrite Ho. unfold rtot. cbn. lia.
      + rewrite sumZ_skipn_set_nth by lia. replace (Nat.ltb a (ndp + h)) with true by (symmetry; apply Nat.ltb_lt; lia).
        rewrite Hlate. unfold acc_late, all_routes. cbn [closed openr]. rewrite Ho, app_nil_r, map_app, sumZ_app. cbn. lia.
      + intros j Hj Hnj. rewrite nth_set_nth_neq by lia. apply Harr0; [exact Hj|]. intros Hc. apply Hnj. apply in_app_iff. left. exact Hc.
      + rewrite sqs_skipn_set_nth by lia. replace (Nat.ltb a (ndp + h)) with true by (symmetry; apply Nat.ltb_lt; lia).
        rewrite Hlate2. unfold acc_late2, all_routes. cbn [closed openr]. rewrite Ho, app_nil_r, map_app, sumZ_app. cbn. lia.
    - (* the vehicle comes home: the way home is added (closed problem) *)
      subst a. pose proof (inv_deplt _ _ _ _ _ HI r) as Hlt. unfold all_routes in Hlt. rewrite Ho in Hlt.
      specialize (Hlt ltac:(apply in_app_iff; right; left; reflexivity)).
      replace (Nat.ltb (rdep r) ndp) with true by (symmetry; apply Nat.ltb_lt; exact Hlt).
      apply (proj1 (back_inv3 p ps pend s r HI H3' Ho)).
    - (* a customer: the leg from the last node of the route *)
      replace (Nat.ltb a ndp) with false by (symmetry; apply Nat.ltb_ge; lia).
      pose proof (inv_open _ _ _ _ _ HI) as Hio. rewrite Ho in Hio. destruct Hio as (Hdr & _).
      assert (Hlt : (rdep r < ndp)%nat) by (rewrite <- Hdr; apply (inv_depot _ _ _ _ _ HI)).
      assert (Hnxt : next_depot F i s a = rdep r).
      { unfold next_depot, is_back. rewrite Hndq. replace (Nat.ltb a ndp) with false by (symmetry; apply Nat.ltb_ge; lia).
        cbn. destruct (fx_switch F); exact Hdr. }
      assert (Hleg : leg F i s a = D (rlst r) a).
      { unfold leg. rewrite Hndq. replace (Nat.ltb a ndp) with false by (symmetry; apply Nat.ltb_ge; lia).
        rewrite andb_false_r. cbn [andb]. unfold raw_leg. rewrite Hsolo, Hnode. reflexivity. }
      destruct (snoc_route r a) as (Ht' & Hl' & Hlt' & Hlt2').
      constructor; unfold all_routes; cbn [md_step arr node lens closed openr]; rewrite ?Hnxt, ?rnd_exact, ?Hleg, ?(Hop r eq_refl).
      + rewrite set_nth_length. exact Hla.
      + rewrite Hl'. reflexivity.
      + intros r0 Hr0. rewrite nth_set_nth_neq; [apply Hcl; exact Hr0|]. apply (closed_open_depots _ _ _ _ _ _ HI Ho Hr0).
      + intros r0 Hr0. injection Hr0 as <-. cbn [rdep]. rewrite nth_set_nth_eq by lia. rewrite Ht'. reflexivity.
      + intros e He Hne. rewrite map_app in Hne. cbn [map rdep] in Hne.
        assert (Hne' : ~ In e (map rdep (all_routes ps))) by (unfold all_routes; rewrite Ho, map_app; exact Hne).
        rewrite nth_set_nth_neq; [apply Hun; assumption|]. intros ->. apply Hne'. unfold all_routes. rewrite Ho, map_app. apply in_app_iff. right. left. reflexivity.
      + rewrite sumZ_set_nth by lia. rewrite Hsum. unfold acc_len. cbn [closed openr]. rewrite Ho, Ht', (Hop r eq_refl). lia.
      + rewrite sumZ_skipn_set_nth by lia. rewrite Hlate. unfold acc_late, all_routes. cbn [closed openr]. rewrite Ho, !map_app, !sumZ_app. cbn [map sumZ].
        rewrite Hlt'. unfold is_del.
        destruct (Nat.ltb a (ndp + h)) eqn:Eal.
        * apply Nat.ltb_lt in Eal. replace (Nat.leb (ndp + h) a) with false by (symmetry; apply Nat.leb_gt; exact Eal). cbn [andb]. lia.
        * apply Nat.ltb_ge in Eal. replace (Nat.leb (ndp + h) a) with true by (symmetry; apply Nat.leb_le; exact Eal).
          replace (Nat.ltb a (ndp + 2 * h)) with true by (symmetry; apply Nat.ltb_lt; lia). cbn [andb].
          rewrite (Harr0 a) by (try lia; exact Hnp). lia.
      + intros j Hj Hnj. rewrite nth_set_nth_neq; [apply Harr0; [exact Hj|]; intros Hc; apply Hnj; apply in_app_iff; left; exact Hc|].
        intros ->. apply Hnj. apply in_app_iff. right. left. reflexivity.
      + rewrite sqs_skipn_set_nth by lia. rewrite Hlate2. unfold acc_late2, all_routes. cbn [closed openr]. rewrite Ho, !map_app, !sumZ_app. cbn [map sumZ].
        rewrite Hlt2'. unfold is_del.
        destruct (Nat.ltb a (ndp + h)) eqn:Eal.
        * apply Nat.ltb_lt in Eal. replace (Nat.leb (ndp + h) a) with false by (symmetry; apply Nat.leb_gt; exact Eal). cbn [andb]. lia.
        * apply Nat.ltb_ge in Eal. replace (Nat.leb (ndp + h) a) with true by (symmetry; apply Nat.leb_le; exact Eal).
          replace (Nat.ltb a (ndp + 2 * h)) with true by (symmetry; apply Nat.ltb_lt; lia). cbn [andb].
          rewrite (Harr0 a) by (try lia; exact Hnp). lia.
  Qed.

  Lemma adm_inv_both acts : adm (E:=E) i acts = true -> live F i acts ->
    exists ps pend, Inv i acts ps pend (run (E:=E) i acts) /\ Inv3 acts ps (run (E:=E) i acts).
  Proof.
    induction acts as [|a acts IH] using rev_ind; intros Hadm Hlive.
    - exists pstart, []. split; [apply (reset_inv F i Hwf) | apply reset_inv3].
    - rewrite adm_snoc in Hadm. apply andb_prop in Hadm as [Hadm Hoff].
      destruct (IH Hadm (live_prefix F i _ _ Hlive)) as (ps & pend & HI & H3).
      assert (Hnd : md_done i (run (E:=E) i acts) = false) by (apply (Hlive acts [a] eq_refl); discriminate).
      rewrite run_snoc. cbn [step MDCPDP]. eexists. eexists. split.
      + apply (step_inv F i Hwf Hgood acts ps pend _ a HI Hnd Hoff).
      + apply (step_inv3 acts ps pend _ a HI H3). apply (step_cases F i Hwf Hgood acts ps pend _ a HI Hnd Hoff).
  Qed.

  (* ---------------------------------------------------------------- maximum of a list *)
  Lemma fold_max_ge l : forall x, x <= fold_left Z.max l x /\ (forall y, In y l -> y <= fold_left Z.max l x).
  Proof.
    induction l as [|z l IH]; intros x; cbn [fold_left]; [split; [lia | intros y []]|].
    destruct (IH (Z.max x z)) as [H1 H2]. split; [lia|]. intros y [<-|Hy]; [lia | apply H2; exact Hy].
  Qed.
  Lemma fold_max_in l : forall x, fold_left Z.max l x = x \/ In (fold_left Z.max l x) l.
  Proof.
    induction l as [|z l IH]; intros x; cbn [fold_left]; [left; reflexivity|].
    destruct (IH (Z.max x z)) as [H|H]; [|right; right; exact H].
    rewrite H. destruct (Z.max_spec x z) as [[_ ->]|[_ ->]]; [right; left; reflexivity | left; reflexivity].
  Qed.
  Lemma maxl_char l m : l <> [] -> In m l -> (forall y, In y l -> y <= m) -> maxl l = m.
  Proof.
    intros Hne Hin Hub. destruct l as [|x l]; [congruence|]. unfold maxl.
    destruct (fold_max_ge l x) as [H1 H2]. destruct (fold_max_in l x) as [H3|H3].
    - rewrite H3 in *. destruct Hin as [<-|Hin]; [reflexivity|]. specialize (H2 _ Hin). specialize (Hub x (or_introl eq_refl)). lia.
    - specialize (Hub _ (or_intror H3)). destruct Hin as [<-|Hin]; [lia|]. specialize (H2 _ Hin). lia.
  Qed.
  Lemma maxl_spec l : l <> [] -> In (maxl l) l /\ (forall y, In y l -> y <= maxl l).
  Proof.
    intros Hne. destruct l as [|x l]; [congruence|]. unfold maxl.
    destruct (fold_max_ge l x) as [H1 H2]. split.
    - destruct (fold_max_in l x) as [->|H]; [left; reflexivity | right; exact H].
    - intros y [<-|Hy]; [exact H1 | apply H2; exact Hy].
  Qed.
  Lemma maxl_same_elements l1 l2 : l1 <> [] -> (forall x, In x l1 <-> In x l2) -> maxl l1 = maxl l2.
  Proof.
    intros Hne Hiff. assert (Hne2 : l2 <> []) by (destruct l1 as [|x l1]; [congruence|]; intros ->; apply (Hiff x); left; reflexivity).
    destruct (maxl_spec l2 Hne2) as [Hin Hub]. apply maxl_char; [exact Hne | apply Hiff; exact Hin | intros y Hy; apply Hub; apply Hiff; exact Hy].
  Qed.

  (* ---------------------------------------------------------------- the reward of a finished row *)
  (* per-depot lengths and lateness once every route is complete: [ls] = the lengths the reward is computed from *)
  Lemma reward_from_lens ps s ls :
    length ls = ndp -> (0 < ndp)%nat ->
    NoDup (map rdep (all_routes ps)) -> (forall r, In r (all_routes ps) -> (rdep r < ndp)%nat) ->
    (forall e, (e < ndp)%nat -> In e (map rdep (all_routes ps))) ->
    (forall r, In r (all_routes ps) -> nth (rdep r) ls 0 = rlen r) ->
    sumZ ls = sumZ (map rlen (all_routes ps)) ->
    sumZ (skipn (ndp + h) (arr s)) = acc_late ps ->
    sqs (skipn (ndp + h) (arr s)) = acc_late2 ps ->
    md_mode_ok F i = true ->
    match mode i with
    | O => Some (- (one i * sumZ ls))
    | S O => Some (- (one i * maxl ls))
    | S (S O) => Some (- ((one i - lw i) * sumZ ls + lw i * sumZ (skipn (ndp + h) (arr s))))
    | S (S (S O)) =>
        if fx_sq F
        then Some (- (one i * (one i - lw i) * sumZ ls + lw i * sumZ (map (fun t => t * t) (skipn (ndp + h) (arr s)))))
        else None
    | _ => None
    end = Some (- md_cost ndp h D (opn i) (mode i) (one i) (lw i) (all_routes ps)).
  Proof.
    intros Hlen Hpos Hnd Hlt Hall Hpt Hsum Hlate Hlate2 Hmode. unfold md_cost.
    change (map (route_length ndp h D (opn i)) (all_routes ps)) with (map rlen (all_routes ps)).
    change (map (route_late ndp h D) (all_routes ps)) with (map rlate (all_routes ps)).
    change (map (route_late_sq ndp h D) (all_routes ps)) with (map rlate2 (all_routes ps)).
    unfold md_mode_ok in Hmode.
    destruct (mode i) as [|[|[|[|m]]]]; cbn in Hmode; try discriminate.
    - rewrite Hsum. reflexivity.
    - f_equal. f_equal. f_equal. change maxZ with maxl. apply maxl_same_elements.
      + destruct ls; [cbn in Hlen; lia | discriminate].
      + intros x. split.
        * intros Hx. apply (In_nth _ _ 0) in Hx as (e & He & <-). rewrite Hlen in He.
          specialize (Hall e He). apply in_map_iff in Hall as (r & <- & Hr). rewrite (Hpt r Hr). apply in_map. exact Hr.
        * intros Hx. apply in_map_iff in Hx as (r & <- & Hr). rewrite <- (Hpt r Hr). apply nth_In. rewrite Hlen. apply Hlt. exact Hr.
    - rewrite Hsum, Hlate. unfold acc_late. reflexivity.
    - rewrite Hmode. fold (sqs (skipn (ndp + h) (arr s))). rewrite Hsum, Hlate2. unfold acc_late2. reflexivity.
  Qed.

  (* a finished row has a vehicle on the road (the return of the last vehicle is not part of the episode) *)
  Lemma done_open p ps pend s : Inv i p ps pend s -> md_done i s = true -> exists r, openr ps = Some r.
  Proof.
    intros HI Hd. pose proof (inv_open _ _ _ _ _ HI) as Hop. destruct (openr ps) as [r|]; [exists r; reflexivity|]. exfalso.
    destruct Hop as (_ & _ & Hbk). unfold md_done in Hd. apply negb_true_iff in Hd.
    destruct (fresh s) eqn:Hf.
    - apply (inv_fresh _ _ _ _ _ HI) in Hf. subst p.
      pose proof (anyb_false_nth _ Hd 0%nat) as H0. apply (inv_avail _ _ _ _ _ HI 0%nat (nnpos i Hwf)) in H0. destruct H0.
    - destruct (Hbk eq_refl) as (_ & j & Hj & Hjt). rewrite (anyb_false_nth _ Hd j) in Hjt. discriminate.
  Qed.

  Lemma done_all_routed p ps pend s : Inv i p ps pend s -> md_done i s = true ->
    forall e, (e < ndp)%nat -> In e (map rdep (all_routes ps)).
  Proof.
    intros HI Hd e He. apply (inv_dep _ _ _ _ _ HI e He). apply (inv_avail _ _ _ _ _ HI); [rewrite (nn_eq i Hwf); lia|].
    unfold md_done in Hd. apply negb_true_iff in Hd. apply anyb_false_nth. exact Hd.
  Qed.

  (* ================================================================ C03 *)
  Theorem md_reward_is_objective acts :
    adm (E:=E) i acts = true -> live F i acts -> done E i (run (E:=E) i acts) = true ->
    fx_ret F = true \/ opn i = true -> md_mode_ok F i = true ->
    md_reward exact F i (run (E:=E) i acts) = spec_objective i acts.
  Proof.
    intros Hadm Hlive Hdone Hret Hmode.
    destruct (adm_inv_both acts Hadm Hlive) as (ps & pend & HI & H3). set (s := run (E:=E) i acts) in *.
    cbn [done MDCPDP] in Hdone. destruct (done_open _ _ _ _ HI Hdone) as (r & Ho).
    unfold spec_objective, md_objective. rewrite (inv_parse _ _ _ _ _ HI).
    unfold md_reward. rewrite (split_eq F i Hwf Hgood).
    pose proof (inv_open _ _ _ _ _ HI) as Hop. rewrite Ho in Hop. destruct Hop as (Hdr & _).
    pose proof (inv_ll _ _ _ _ _ HI) as Hll. pose proof (inv_depot _ _ _ _ _ HI) as Hdp.
    assert (Har : all_routes ps = closed ps ++ [r]) by (unfold all_routes; rewrite Ho; reflexivity).
    (* the length booked for the last vehicle is its route length *)
    assert (Hlast : nth (rdep r) (final_lens exact F i s) 0 = rlen r /\
                    sumZ (final_lens exact F i s) = sumZ (lens s) - rtot r + rlen r /\
                    length (final_lens exact F i s) = ndp /\
                    (forall e, e <> rdep r -> nth e (final_lens exact F i s) 0 = nth e (lens s) 0)).
    { unfold final_lens. rewrite (nd_eq F i Hgood), Hdr, rnd_exact, (i3_open _ _ _ H3 r Ho), rlen_eq.
      pose proof (i3_node _ _ _ H3) as Hn. rewrite Ho in Hn. rewrite Hn.
      pose proof (walk_acc_lst ndp h D (rcus r) (rdep r) 0) as Hl. unfold rlst in *.
      destruct (walk_acc ndp h D (rdep r) 0 (rcus r)) as [[tot late] lst] eqn:Ew. cbn [snd] in *.
      assert (Hrd : (rdep r < ndp)%nat) by (rewrite <- Hdr; exact Hdp).
      destruct (opn i) eqn:Eo.
      - rewrite andb_false_r. cbn [andb]. rewrite (i3_open _ _ _ H3 r Ho). unfold rtot. rewrite Ew. cbn [fst]. repeat split; try lia; auto.
      - destruct Hret as [Hr|Hr]; [|congruence]. rewrite Hr. cbn [negb andb].
        destruct Hl as [[-> Hnil]|Hin].
        + replace (Nat.ltb (rdep r) ndp) with true by (symmetry; apply Nat.ltb_lt; exact Hrd). cbn [negb].
          rewrite (wf_dist_diag i Hwf) by (rewrite (nn_eq i Hwf); lia). rewrite (i3_open _ _ _ H3 r Ho). unfold rtot. rewrite Ew. cbn [fst].
          repeat split; try lia; auto.
        + assert (Hge : (ndp <= lst)%nat).
          { apply (inv_cust' _ _ _ _ _ HI r lst); [rewrite Har; apply in_app_iff; right; left; reflexivity | exact Hin]. }
          replace (Nat.ltb lst ndp) with false by (symmetry; apply Nat.ltb_ge; exact Hge). cbn [negb].
          unfold rtot. rewrite Ew. cbn [fst]. unfold dfun.
          split; [apply nth_set_nth_eq; lia|]. split; [rewrite sumZ_set_nth by lia; rewrite (i3_open _ _ _ H3 r Ho); unfold rtot; rewrite Ew; cbn [fst]; lia|].
          split; [rewrite set_nth_length; exact Hll|]. intros e He. apply nth_set_nth_neq. exact He. }
    destruct Hlast as (Hl1 & Hl2 & Hl3 & Hl4).
    apply reward_from_lens; try assumption.
    - apply (wf_ndp i Hwf).
    - apply (inv_depnd _ _ _ _ _ HI).
    - apply (inv_deplt _ _ _ _ _ HI).
    - apply (done_all_routed _ _ _ _ HI Hdone).
    - intros r0 Hr0. rewrite Har in Hr0. apply in_app_iff in Hr0 as [Hr0|[<-|[]]]; [|exact Hl1].
      rewrite Hl4 by (apply (closed_open_depots _ _ _ _ _ _ HI Ho Hr0)). apply (i3_closed _ _ _ H3). exact Hr0.
    - rewrite Hl2, (i3_sum _ _ _ H3), Har, map_app, sumZ_app. unfold acc_len. rewrite Ho. cbn [map sumZ]. lia.
    - apply (i3_late _ _ _ H3).
    - apply (i3_late2 _ _ _ H3).
  Qed.

  (* ================================================================ C04: steps after the row has finished *)
  (* a finished row whose current depot is e *)
  Definition padst (e : nat) (s : md_st) : Prop :=
    md_done i s = true /\ fresh s = false /\ depot s = e /\ (e < ndp)%nat /\ length (avail s) = nn i /\
    length (lens s) = ndp /\ length (arr s) = nn i.

  Definition only (e : nat) : list bool := map (fun j => Nat.eqb j e) (seq 0 (nn i)).

  Lemma pad_mask e s : padst e s -> md_mask F i s = only e.
  Proof.
    intros (Hd & Hf & He & Hlt & Hla & _). unfold md_mask, only. rewrite Hf. apply map_ext_in. intros j Hj. apply in_seq in Hj.
    pose proof Hd as Hd'. unfold md_done in Hd'. apply negb_true_iff in Hd'.
    unfold mask_at. rewrite (anyb_false_nth _ Hd' j), (nd_eq F i Hgood), He, Hd. cbn [andb].
    destruct (Nat.ltb j ndp) eqn:Ej.
    - destruct (Nat.eqb j e); [apply orb_true_r | reflexivity].
    - apply Nat.ltb_ge in Ej. symmetry. apply Nat.eqb_neq. lia.
  Qed.

  Lemma pad_offered e s a : padst e s -> offered (E:=E) i s a = Nat.eqb a e.
  Proof.
    intros Hp. unfold offered. cbn [mask MDCPDP]. rewrite (pad_mask e s Hp). unfold only.
    destruct Hp as (_ & _ & _ & Hlt & _). pose proof (nn_eq i Hwf).
    destruct (Nat.ltb a (nn i)) eqn:Ea.
    - apply Nat.ltb_lt in Ea. rewrite nth_map_seq by exact Ea. reflexivity.
    - apply Nat.ltb_ge in Ea. rewrite nth_overflow by (rewrite map_length, seq_length; exact Ea). symmetry. apply Nat.eqb_neq. lia.
  Qed.

  Lemma pad_step e s : padst e s -> padst e (md_step exact F i s e) /\ node (md_step exact F i s e) = e.
  Proof.
    intros (Hd & Hf & He & Hlt & Hla & Hll & Hlr).
    assert (Hnx : next_depot F i s e = e).
    { unfold next_depot, is_back. rewrite (nd_eq F i Hgood). replace (Nat.ltb e ndp) with true by (symmetry; apply Nat.ltb_lt; exact Hlt).
      unfold md_done in Hd. apply negb_true_iff in Hd. rewrite (anyb_false_nth _ Hd e). cbn. destruct (fx_switch F); reflexivity. }
    split; [|reflexivity]. unfold padst. cbn [md_step fresh depot avail lens arr]. rewrite Hnx, !set_nth_length.
    split; [apply md_done_stable; exact Hd|]. repeat split; auto.
  Qed.

  (* once the row sits on its depot, further padding steps change nothing the reward looks at *)
  Lemma pad_reward_const e s : padst e s -> node s = e ->
    md_reward exact F i (md_step exact F i s e) = md_reward exact F i s.
  Proof.
    intros (Hd & Hf & He & Hlt & Hla & Hll & Hlr) Hn.
    assert (Hnx : next_depot F i s e = e).
    { unfold next_depot, is_back. rewrite (nd_eq F i Hgood). replace (Nat.ltb e ndp) with true by (symmetry; apply Nat.ltb_lt; exact Hlt).
      unfold md_done in Hd. apply negb_true_iff in Hd. rewrite (anyb_false_nth _ Hd e). cbn. destruct (fx_switch F); reflexivity. }
    assert (Hleg : leg F i s e = 0).
    { unfold leg. rewrite (nd_eq F i Hgood), Hn. replace (Nat.ltb e ndp) with true by (symmetry; apply Nat.ltb_lt; exact Hlt). reflexivity. }
    assert (Hlens : lens (md_step exact F i s e) = lens s).
    { cbn [md_step lens]. rewrite Hnx, Hleg, rnd_exact, Z.add_0_r. apply set_nth_same. }
    unfold md_reward, final_lens. rewrite Hlens. cbn [md_step node depot arr]. rewrite Hnx, Hn, He, (split_eq F i Hwf Hgood).
    rewrite skipn_set_nth. replace (Nat.ltb e (ndp + h)) with true by (symmetry; apply Nat.ltb_lt; lia). reflexivity.
  Qed.

  Theorem md_padding acts k :
    adm (E:=E) i acts = true -> live F i acts -> done E i (run (E:=E) i acts) = true ->
    let e := depot (run (E:=E) i acts) in
    let pad := repeat e k in
    adm (E:=E) i (acts ++ pad) = true /\
    done E i (run (E:=E) i (acts ++ pad)) = true /\
    mask E i (run (E:=E) i (acts ++ pad)) = only e /\
    ((1 <= k)%nat -> md_mode_ok F i = true -> md_reward exact F i (run (E:=E) i (acts ++ pad)) = spec_objective i acts).
  Proof.
    intros Hadm Hlive Hdone. cbv zeta.
    destruct (adm_inv_both acts Hadm Hlive) as (ps & pend & HI & H3). set (s := run (E:=E) i acts) in *. set (e := depot s).
    cbn [done MDCPDP] in Hdone. destruct (done_open _ _ _ _ HI Hdone) as (r & Ho).
    pose proof (inv_open _ _ _ _ _ HI) as Hop. rewrite Ho in Hop. destruct Hop as (Hdr & _ & _ & _ & _ & _ & _ & _ & Hfs).
    assert (Hp0 : padst e s).
    { unfold padst. split; [exact Hdone|]. split; [exact Hfs|]. split; [reflexivity|]. split; [apply (inv_depot _ _ _ _ _ HI)|].
      split; [apply (inv_la _ _ _ _ _ HI)|]. split; [apply (inv_ll _ _ _ _ _ HI) | apply (i3_la _ _ _ H3)]. }
    (* the state after the first padding step: every route closed *)
    assert (H1 : forall s1, s1 = md_step exact F i s e -> md_mode_ok F i = true -> md_reward exact F i s1 = spec_objective i acts).
    { intros s1 -> Hmode. unfold e. rewrite Hdr.
      destruct (back_inv3 acts ps pend s r HI H3 Ho) as [H3' Hnx]. set (s1 := md_step exact F i s (rdep r)) in *.
      unfold spec_objective, md_objective. rewrite (inv_parse _ _ _ _ _ HI).
      assert (Har : all_routes ps = closed ps ++ [r]) by (unfold all_routes; rewrite Ho; reflexivity).
      assert (Hrd : (rdep r < ndp)%nat) by (rewrite <- Hdr; apply (inv_depot _ _ _ _ _ HI)).
      assert (Hfl : final_lens exact F i s1 = lens s1).
      { unfold final_lens. unfold s1 at 1. cbn [md_step node]. rewrite (nd_eq F i Hgood).
        replace (Nat.ltb (rdep r) ndp) with true by (symmetry; apply Nat.ltb_lt; exact Hrd). rewrite !andb_false_r. reflexivity. }
      unfold md_reward. rewrite Hfl, (split_eq F i Hwf Hgood).
      replace (all_routes ps) with (all_routes {| closed := closed ps ++ [r]; openr := None |}) by (unfold all_routes; cbn [closed openr]; rewrite app_nil_r; symmetry; exact Har).
      apply reward_from_lens; try assumption.
      - unfold s1. cbn [md_step lens]. rewrite set_nth_length. apply (inv_ll _ _ _ _ _ HI).
      - apply (wf_ndp i Hwf).
      - unfold all_routes. cbn [closed openr]. rewrite app_nil_r, <- Har. apply (inv_depnd _ _ _ _ _ HI).
      - unfold all_routes. cbn [closed openr]. rewrite app_nil_r, <- Har. apply (inv_deplt _ _ _ _ _ HI).
      - unfold all_routes. cbn [closed openr]. rewrite app_nil_r, <- Har. apply (done_all_routed _ _ _ _ HI Hdone).
      - unfold all_routes. cbn [closed openr]. rewrite app_nil_r. apply (i3_closed _ _ _ H3').
      - rewrite (i3_sum _ _ _ H3'). unfold acc_len, all_routes. cbn [closed openr]. rewrite app_nil_r. lia.
      - apply (i3_late _ _ _ H3').
      - apply (i3_late2 _ _ _ H3'). }
    (* induction on the number of padding steps *)
    assert (G : forall k, adm (E:=E) i (acts ++ repeat e k) = true /\ padst e (run (E:=E) i (acts ++ repeat e k)) /\
                          ((1 <= k)%nat -> node (run (E:=E) i (acts ++ repeat e k)) = e /\
                                           (md_mode_ok F i = true -> md_reward exact F i (run (E:=E) i (acts ++ repeat e k)) = spec_objective i acts))).
    { intros k'. induction k' as [|k' IH].
      - cbn [repeat]. rewrite app_nil_r. split; [exact Hadm|]. split; [exact Hp0 | lia].
      - destruct IH as (IH1 & IH2 & IH3).
        replace (repeat e (S k')) with (repeat e k' ++ [e]) by (symmetry; apply (repeat_cons k' e)).
        rewrite app_assoc, adm_snoc, run_snoc, IH1. cbn [step MDCPDP].
        rewrite (pad_offered e _ e IH2), Nat.eqb_refl. split; [reflexivity|].
        destruct (pad_step e _ IH2) as [Hp' Hn']. split; [exact Hp'|]. intros _. split; [exact Hn'|]. intros Hmode.
        destruct k' as [|k'].
        + cbn [repeat]. rewrite app_nil_r. apply H1; [reflexivity | exact Hmode].
        + destruct (IH3 ltac:(lia)) as [Hn Hr]. rewrite (pad_reward_const e _ IH2 Hn). apply Hr. exact Hmode. }
    destruct (G k) as (G1 & G2 & G3). split; [exact G1|]. split; [apply G2|]. split; [apply (pad_mask e _ G2)|].
    intros Hk Hmode. apply (G3 Hk). exact Hmode.
  Qed.
End Acc.

(* ================================================================ C04: independence of the batch *)
(* with the repair fx_leg (and in any case for a row stepped alone or sitting in row 0) the step of a row does not
   look at anything outside the row: the model's only window on the batch, [solo]/[legs0], is not read *)
Definition with_batch (i : md_inst) (so : bool) (l0 : list Z) : md_inst :=
  {| ndep := ndep i; nloc := nloc i; caps := caps i; dist := dist i; start := start i; opn := opn i; mode := mode i;
     one := one i; lw := lw i; solo := so; legs0 := l0 |}.

Theorem md_row_independent A F i so l0 s a :
  fx_leg F = true -> md_step A F (with_batch i so l0) s a = md_step A F i s a.
Proof.
  intros Hf. unfold md_step, next_depot, is_back, leg, raw_leg, nd, split, half, nn. cbn [with_batch ndep nloc caps dist opn solo legs0].
  rewrite Hf, !orb_true_r. reflexivity.
Qed.
Theorem md_mask_row_independent F i so l0 s : md_mask F (with_batch i so l0) s = md_mask F i s.
Proof. reflexivity. Qed.

Lemma md_run_row_independent F i so l0 acts :
  fx_leg F = true ->
  run (E:=MDCPDP exact F) (with_batch i so l0) acts = run (E:=MDCPDP exact F) i acts /\
  adm (E:=MDCPDP exact F) (with_batch i so l0) acts = adm (E:=MDCPDP exact F) i acts.
Proof.
  intros Hf. unfold run, adm. cbn [reset MDCPDP]. change (md_reset (with_batch i so l0)) with (md_reset i).
  generalize (md_reset i). induction acts as [|a acts IH]; intros s; cbn [run_from adm_from]; [auto|].
  cbn [step MDCPDP]. rewrite (md_row_independent exact F i so l0 s a Hf). destruct (IH (md_step exact F i s a)) as [-> ->].
  split; [reflexivity|]. unfold offered. cbn [mask MDCPDP]. rewrite md_mask_row_independent. reflexivity.
Qed.

(* ================================================================ executable twin of [live]; when is the code good *)
Definition liveb (F : mdfix) (i : md_inst) (acts : list nat) : bool :=
  forallb (fun k => negb (md_done i (run (E:=MDCPDP exact F) i (firstn k acts)))) (seq 0 (length acts)).
Lemma liveb_live F i acts : liveb F i acts = true -> live F i acts.
Proof.
  intros H p q Hq Hne. unfold liveb in H. rewrite forallb_forall in H.
  assert (Hk : In (length p) (seq 0 (length acts))).
  { apply in_seq. subst acts. rewrite app_length. destruct q; [congruence | cbn [length]; lia]. }
  specialize (H _ Hk). apply negb_true_iff in H. subst acts. rewrite firstn_app, Nat.sub_diag, firstn_all in H. cbn [firstn] in H.
  rewrite app_nil_r in H. exact H.
Qed.

Lemma repaired_good i : md_good repaired i = true.
Proof. unfold md_good, nd. cbn [repaired fx_nd fx_switch]. rewrite Nat.eqb_refl. reflexivity. Qed.
Lemma as_is_good i : md_good as_is i = true <-> (length (caps i) = 1 /\ ndep i = 1 /\ start i = 0)%nat.
Proof.
  unfold md_good, nd. cbn [as_is fx_nd fx_switch orb]. rewrite !andb_true_iff, !Nat.eqb_eq. split; [intros [[H1 H2] H3] | intros (H1 & H2 & H3)]; repeat split; lia.
Qed.

(* ================================================================ C05 *)

(* ---------------------------------------------------------------- how a reading of a prefix evolves into the reading of the whole list *)
Definition ext (r rF : mroute) : Prop := rdep rF = rdep r /\ exists l', rcus rF = rcus r ++ l'.

Lemma parse_from_evolve nd_ q : forall ps psF, parse_from nd_ ps q = Some psF ->
  (forall r, In r (closed ps) -> In r (closed psF)) /\
  (forall r, openr ps = Some r -> exists rF, In rF (all_routes psF) /\ ext r rF) /\
  (exists X, map rdep (all_routes psF) = map rdep (all_routes ps) ++ X).
Proof.
  induction q as [|a q IH]; intros ps psF Hp; cbn [parse_from] in Hp.
  - injection Hp as <-. split; [auto|]. split.
    + intros r Ho. exists r. split; [unfold all_routes; rewrite Ho; apply in_app_iff; right; left; reflexivity|].
      split; [reflexivity | exists []; rewrite app_nil_r; reflexivity].
    + exists []. rewrite app_nil_r. reflexivity.
  - destruct (parse_step nd_ ps a) as [ps1|] eqn:Hs; [|discriminate]. destruct (IH ps1 psF Hp) as (I1 & I2 & X & I3).
    unfold parse_step in Hs. destruct (Nat.ltb a nd_); destruct (openr ps) as [r|] eqn:Ho.
    + destruct (Nat.eqb a (rdep r)); [|discriminate]. injection Hs as <-. cbn [closed openr] in *. split; [|split].
      * intros r0 Hr0. apply I1. apply in_app_iff. left. exact Hr0.
      * intros r0 Hr0. injection Hr0 as <-. exists r. split.
        -- unfold all_routes. apply in_app_iff. left. apply I1. apply in_app_iff. right. left. reflexivity.
        -- split; [reflexivity | exists []; rewrite app_nil_r; reflexivity].
      * exists X. rewrite I3. unfold all_routes. cbn [closed openr]. rewrite Ho, app_nil_r. reflexivity.
    + injection Hs as <-. cbn [closed openr] in *. split; [exact I1|]. split; [discriminate|].
      exists (a :: X). rewrite I3. unfold all_routes. cbn [closed openr]. rewrite Ho, app_nil_r, map_app, <- app_assoc. reflexivity.
    + injection Hs as <-. cbn [closed openr] in *. split; [exact I1|]. split.
      * intros r0 Hr0. injection Hr0 as <-. destruct (I2 _ eq_refl) as (rF & HrF & Hd & l' & Hl'). cbn [rdep rcus] in *.
        exists rF. split; [exact HrF|]. split; [exact Hd|]. exists (a :: l'). rewrite Hl', <- app_assoc. reflexivity.
      * exists X. rewrite I3. unfold all_routes. cbn [closed openr]. rewrite Ho, !map_app. reflexivity.
    + discriminate.
Qed.

Lemma parse_from_deps_lt nd_ q : forall ps psF, parse_from nd_ ps q = Some psF ->
  (forall r, In r (all_routes ps) -> (rdep r < nd_)%nat) -> forall r, In r (all_routes psF) -> (rdep r < nd_)%nat.
Proof.
  induction q as [|a q IH]; intros ps psF Hp Hlt; cbn [parse_from] in Hp; [injection Hp as <-; exact Hlt|].
  destruct (parse_step nd_ ps a) as [ps1|] eqn:Hs; [|discriminate]. apply (IH ps1 psF Hp).
  unfold parse_step in Hs. destruct (Nat.ltb a nd_) eqn:Ea; destruct (openr ps) as [r|] eqn:Ho.
  - destruct (Nat.eqb a (rdep r)); [|discriminate]. injection Hs as <-. intros r0 Hr0. apply Hlt. unfold all_routes in *. cbn [closed openr] in Hr0.
    rewrite Ho. rewrite app_nil_r in Hr0. exact Hr0.
  - injection Hs as <-. intros r0 Hr0. unfold all_routes in *. cbn [closed openr] in Hr0. rewrite Ho, app_nil_r in Hlt.
    apply in_app_iff in Hr0 as [Hr0|[<-|[]]]; [apply Hlt; exact Hr0 | apply Nat.ltb_lt; exact Ea].
  - injection Hs as <-. intros r0 Hr0. unfold all_routes in *. cbn [closed openr] in Hr0. rewrite Ho in Hlt.
    apply in_app_iff in Hr0 as [Hr0|[<-|[]]]; [apply Hlt; apply in_app_iff; left; exact Hr0|].
    cbn [rdep]. apply Hlt. apply in_app_iff. right. left. reflexivity.
  - discriminate.
Qed.

Lemma walk_prefix nd_ h cap l1 l2 : forall seen k,
  route_walkb nd_ h cap seen k (l1 ++ l2) = true -> route_walkb nd_ h cap seen k l1 = true.
Proof.
  induction l1 as [|x l1 IH]; intros seen k H; [reflexivity|]. cbn [app route_walkb] in *.
  apply andb_prop in H as [H1 H2]. rewrite H1. cbn [andb]. apply (IH _ _ H2).
Qed.

Lemma concat_nodup_same (ls : list (list nat)) l1 l2 x :
  NoDup (concat ls) -> In l1 ls -> In l2 ls -> In x l1 -> In x l2 -> l1 = l2.
Proof.
  induction ls as [|l ls IH]; intros Hnd H1 H2 Hx1 Hx2; [destruct H1|]. cbn [concat] in Hnd.
  destruct H1 as [<-|H1], H2 as [<-|H2].
  - reflexivity.
  - exfalso. apply (NoDup_app_disj _ _ x Hnd Hx1). apply in_concat. exists l2. split; assumption.
  - exfalso. apply (NoDup_app_disj _ _ x Hnd Hx2). apply in_concat. exists l1. split; assumption.
  - apply IH; try assumption. apply NoDup_app_r in Hnd. exact Hnd.
Qed.

(* ================================================================ C05: the mask hides no solution *)
Section Complete.
  Variable F : mdfix.
  Variable i : md_inst.
  Hypothesis Hwf : md_wfb i = true.
  Hypothesis Hgood : md_good F i = true.

  Notation E := (MDCPDP exact F).
  Notation h := (hh i).
  Notation ndp := (ndep i).
  Notation pickb := (is_pick (ndep i) (hh i)).
  Notation delb := (is_del (ndep i) (hh i)).

  (* the converse of [step_cases]: in each of the three situations the action is offered *)
  Lemma offered_new p ps pend s a :
    Inv i p ps pend s -> openr ps = None -> (a < ndp)%nat -> ~ In a p -> (p = [] -> a = 0%nat) ->
    offered (E:=E) i s a = true.
  Proof.
    intros HI Ho Ha Hnp H0. pose proof (nd_eq F i Hgood) as Hndq. pose proof (nn_eq i Hwf) as Hnn.
    destruct (fresh s) eqn:Hf.
    - rewrite (offered_fresh F i) by exact Hf. apply Nat.eqb_eq. apply H0. apply (inv_fresh _ _ _ _ _ HI). exact Hf.
    - rewrite (offered_nonfresh F i) by exact Hf. apply andb_true_intro. split; [apply Nat.ltb_lt; lia|].
      pose proof (inv_open _ _ _ _ _ HI) as Hop. rewrite Ho in Hop. destruct Hop as (_ & Hc0 & Hbk). destruct (Hbk Hf) as (Hbf & _).
      assert (Hav : nth a (avail s) false = true).
      { destruct (nth a (avail s) false) eqn:Ea; [reflexivity|]. exfalso. apply Hnp. apply (inv_avail _ _ _ _ _ HI); [lia | exact Ea]. }
      assert (Hne : a <> depot s).
      { intros ->. apply Hnp. apply (inv_depin _ _ _ _ _ HI Hf). }
      unfold mask_at. rewrite Hndq. replace (Nat.ltb a ndp) with true by (symmetry; apply Nat.ltb_lt; exact Ha).
      replace (Nat.eqb a (depot s)) with false by (symmetry; apply Nat.eqb_neq; exact Hne).
      rewrite Hav, Hbf. replace (nth a (todel s) false) with true by (symmetry; apply (inv_todel _ _ _ _ _ HI); [lia | left; lia]).
      assert (Hany : anyb (firstn ndp (avail s)) = true).
      { apply anyb_exists. exists a. rewrite firstn_length, (inv_la _ _ _ _ _ HI). split; [lia|]. rewrite nth_firstn by exact Ha. exact Hav. }
      rewrite Hany. replace (0 <? carry s) with false by lia. reflexivity.
  Qed.

  Lemma offered_back p ps s r :
    Inv i p ps [] s -> openr ps = Some r -> (exists j, (j < ndp)%nat /\ ~ In j p) ->
    offered (E:=E) i s (rdep r) = true.
  Proof.
    intros HI Ho (j & Hj & Hjp). pose proof (nd_eq F i Hgood) as Hndq. pose proof (nn_eq i Hwf) as Hnn.
    pose proof (inv_open _ _ _ _ _ HI) as Hop. rewrite Ho in Hop. destruct Hop as (Hd & _ & _ & Hc2 & _ & _ & _ & Hbf & Hf).
    pose proof (inv_depot _ _ _ _ _ HI) as Hdp. rewrite <- Hd.
    rewrite (offered_nonfresh F i) by exact Hf. apply andb_true_intro. split; [apply Nat.ltb_lt; lia|].
    unfold mask_at. rewrite Hndq. replace (Nat.ltb (depot s) ndp) with true by (symmetry; apply Nat.ltb_lt; exact Hdp).
    rewrite Nat.eqb_refl, Hbf.
    assert (Hav : nth j (avail s) false = true).
    { destruct (nth j (avail s) false) eqn:Ea; [reflexivity|]. exfalso. apply Hjp. apply (inv_avail _ _ _ _ _ HI); [lia | exact Ea]. }
    assert (Hany : anyb (firstn ndp (avail s)) = true).
    { apply anyb_exists. exists j. rewrite firstn_length, (inv_la _ _ _ _ _ HI). split; [lia|]. rewrite nth_firstn by exact Hj. exact Hav. }
    rewrite Hany. cbn [length] in Hc2. replace (0 <? carry s) with false by lia. reflexivity.
  Qed.

  Lemma offered_cust p ps pend s r a :
    Inv i p ps pend s -> openr ps = Some r -> (ndp <= a < nn i)%nat -> ~ In a p ->
    ((a < ndp + h)%nat \/ In (a - h)%nat p) -> ((a < ndp + h)%nat -> carry s < vcap i (rdep r)) ->
    offered (E:=E) i s a = true.
  Proof.
    intros HI Ho Ha Hnp Htd Hcp. pose proof (nd_eq F i Hgood) as Hndq. pose proof (nn_eq i Hwf) as Hnn.
    pose proof (inv_open _ _ _ _ _ HI) as Hop. rewrite Ho in Hop. destruct Hop as (Hd & _ & _ & _ & _ & _ & _ & Hbf & Hf).
    rewrite (offered_nonfresh F i) by exact Hf. apply andb_true_intro. split; [apply Nat.ltb_lt; lia|].
    unfold mask_at. rewrite Hndq, (split_eq F i Hwf Hgood). replace (Nat.ltb a ndp) with false by (symmetry; apply Nat.ltb_ge; lia).
    rewrite Hbf.
    replace (nth a (avail s) false) with true.
    2:{ destruct (nth a (avail s) false) eqn:Ea; [reflexivity|]. exfalso. apply Hnp. apply (inv_avail _ _ _ _ _ HI); [lia | exact Ea]. }
    replace (nth a (todel s) false) with true by (symmetry; apply (inv_todel _ _ _ _ _ HI); [lia | exact Htd]).
    cbn [andb negb]. rewrite andb_true_r.
    destruct (Nat.ltb a (ndp + h)) eqn:El; [|reflexivity]. apply Nat.ltb_lt in El. specialize (Hcp El).
    destruct (cap_at_vcap F i Hwf Hgood (depot s) (inv_depot _ _ _ _ _ HI)) as [Hcv _]. rewrite Hd in Hcv at 2.
    apply negb_true_iff. lia.
  Qed.

  (* ---------------------------------------------------------------- a solution, read from the problem definition *)
  (* canonical = the documented conventions of the encoding: the first vehicle is depot 0's, and the return of the
     last vehicle is not written *)
  Definition canonical (acts : list nat) : Prop :=
    spec_feasibleb i acts = true /\ hd_error acts = Some 0%nat /\
    exists psF r, parse ndp acts = Some psF /\ openr psF = Some r.

  Record Glob (acts : list nat) (psF : pstate) : Prop := {
    g_parse : parse ndp acts = Some psF;
    g_open : exists r, openr psF = Some r;
    g_hd : hd_error acts = Some 0%nat;
    g_depnd : NoDup (map rdep (all_routes psF));
    g_occ : forall c, (ndp <= c < nn i)%nat -> occ c acts = 1%nat;
    g_rng : forall a, In a acts -> (a < nn i)%nat;
    g_ok : forall r, In r (all_routes psF) -> route_okb ndp h (vcap i (rdep r)) r = true;
    g_cnd : NoDup (concat (map rcus (all_routes psF)));
    g_cin : forall c, (ndp <= c)%nat -> In c acts -> exists r, In r (all_routes psF) /\ In c (rcus r);
  }.

  Lemma canonical_glob acts : canonical acts -> exists psF, Glob acts psF.
  Proof.
    intros (Hf & Hhd & psF & r & Hp & Ho). exists psF. pose proof (nn_eq i Hwf) as Hnn.
    unfold spec_feasibleb, md_feasibleb in Hf. rewrite Hp in Hf.
    apply andb_prop in Hf as [Hf H4]. apply andb_prop in Hf as [Hf H3]. apply andb_prop in Hf as [H1 H2].
    rewrite forallb_forall in H1, H2, H3, H4.
    assert (Hlt : forall r0, In r0 (all_routes psF) -> (rdep r0 < ndp)%nat).
    { apply (parse_from_deps_lt ndp acts pstart psF Hp). intros r0 []. }
    assert (Hrng : forall a, In a acts -> (a < nn i)%nat) by (intros a Ha; specialize (H3 a Ha); apply Nat.ltb_lt in H3; lia).
    assert (Hocc : forall c, (ndp <= c < nn i)%nat -> occ c acts = 1%nat).
    { intros c Hc. apply Nat.eqb_eq. apply H2. apply in_seq. lia. }
    destruct (parse_shape ndp acts psF Hp) as [_ Hcu]. unfold custs_of in Hcu.
    constructor; try assumption.
    - exists r. exact Ho.
    - apply (NoDup_count_occ Nat.eq_dec). intros e. destruct (Nat.ltb e ndp) eqn:Ee.
      + apply Nat.ltb_lt in Ee. assert (In e (seq 0 ndp)) as Hin by (apply in_seq; lia). specialize (H1 e Hin). apply Nat.eqb_eq in H1. unfold occ in H1. lia.
      + apply Nat.ltb_ge in Ee. assert (~ In e (map rdep (all_routes psF))) as Hn.
        { intros Hc. apply in_map_iff in Hc as (r0 & <- & Hr0). specialize (Hlt r0 Hr0). lia. }
        apply (count_occ_not_In Nat.eq_dec) in Hn. lia.
    - rewrite Hcu. apply nodup_filter_occ. intros c Hc. apply negb_true_iff, Nat.ltb_ge in Hc.
      destruct (Nat.ltb c (nn i)) eqn:Ec.
      + apply Nat.ltb_lt in Ec. rewrite Hocc by lia. lia.
      + apply Nat.ltb_ge in Ec. assert (~ In c acts) as Hn by (intros Hin; specialize (Hrng c Hin); lia). apply occ_not_In in Hn. lia.
    - intros c Hc Hin. assert (In c (concat (map rcus (all_routes psF)))) as Hcc.
      { rewrite Hcu. apply filter_In. split; [exact Hin | apply negb_true_iff, Nat.ltb_ge; exact Hc]. }
      apply in_concat in Hcc as (l & Hl & Hcl). apply in_map_iff in Hl as (r0 & <- & Hr0). exists r0. split; assumption.
  Qed.

  (* the next action of a solution is offered, and the row is not finished before it *)
  Lemma next_ok acts psF p a q ps pend :
    Glob acts psF -> acts = p ++ a :: q -> Inv i p ps pend (run (E:=E) i p) ->
    offered (E:=E) i (run (E:=E) i p) a = true /\ md_done i (run (E:=E) i p) = false.
  Proof.
    intros G Hacts HI. set (s := run (E:=E) i p) in *. pose proof (nn_eq i Hwf) as Hnn.
    destruct G as [Gp Go Ghd Gdn Gocc Grng Gok Gcnd Gcin].
    (* reading the rest of the list from the reading of the prefix *)
    assert (Hp : parse_from ndp ps (a :: q) = Some psF).
    { unfold parse in Gp. rewrite Hacts, parse_from_app in Gp. pose proof (inv_parse _ _ _ _ _ HI) as Hpp. unfold parse in Hpp. rewrite Hpp in Gp. exact Gp. }
    cbn [parse_from] in Hp. destruct (parse_step ndp ps a) as [ps1|] eqn:Hs; [|discriminate].
    destruct (parse_from_evolve ndp q ps1 psF Hp) as (E1 & E2 & X & E3).
    assert (Han : (a < nn i)%nat) by (apply Grng; rewrite Hacts; apply in_app_iff; right; left; reflexivity).
    assert (Hnd_of : forall j, (j < nn i)%nat -> ~ In j p -> md_done i s = false).
    { intros j Hj Hjp. unfold md_done. apply negb_false_iff. apply anyb_exists. exists j. rewrite (inv_la _ _ _ _ _ HI). split; [exact Hj|].
      destruct (nth j (avail s) false) eqn:Ea; [reflexivity|]. exfalso. apply Hjp. apply (inv_avail _ _ _ _ _ HI); assumption. }
    unfold parse_step in Hs. destruct (Nat.ltb a ndp) eqn:Ea; destruct (openr ps) as [r|] eqn:Ho.
    - (* coming home *)
      destruct (Nat.eqb a (rdep r)) eqn:Ear; [|discriminate]. apply Nat.eqb_eq in Ear. subst a. injection Hs as <-.
      (* the list goes on with a depot not used so far *)
      destruct q as [|a' q'].
      { exfalso. cbn [parse_from] in Hp. injection Hp as <-. destruct Go as (r0 & Hr0). discriminate. }
      cbn [parse_from] in Hp. destruct (parse_step ndp {| closed := closed ps ++ [r]; openr := None |} a') as [ps2|] eqn:Hs2; [|discriminate].
      unfold parse_step in Hs2. cbn [openr closed] in Hs2. destruct (Nat.ltb a' ndp) eqn:Ea'; [|discriminate]. apply Nat.ltb_lt in Ea'. injection Hs2 as <-.
      destruct (parse_from_evolve ndp q' _ psF Hp) as (_ & _ & X2 & E32).
      assert (Ha'p : ~ In a' p).
      { intros Hc. apply (inv_dep _ _ _ _ _ HI a' Ea') in Hc.
        rewrite E32 in Gdn. unfold all_routes in Gdn at 1. cbn [closed openr] in Gdn. rewrite !map_app in Gdn. cbn [map rdep] in Gdn.
        unfold all_routes in Hc. rewrite Ho, map_app in Hc. cbn [map] in Hc.
        rewrite <- app_assoc in Gdn. apply (NoDup_app_disj _ _ a' Gdn Hc). left. reflexivity. }
      (* nothing is on board: every delivery of this route is on this route *)
      assert (Hpe : pend = []).
      { destruct pend as [|x pend]; [reflexivity|]. exfalso.
        pose proof (inv_open _ _ _ _ _ HI) as Hop. rewrite Ho in Hop. destruct Hop as (_ & _ & _ & _ & _ & _ & Hpend & _).
        destruct (proj1 (Hpend x) (or_introl eq_refl)) as (Hx1 & Hx2 & Hx3).
        assert (Hxr : (ndp <= x < ndp + h)%nat) by (unfold is_pick in Hx2; apply andb_prop in Hx2 as [Hxa Hxb]; apply Nat.leb_le in Hxa; apply Nat.ltb_lt in Hxb; lia).
        assert (Hin : In (x + h)%nat acts) by (apply occ_In; rewrite Gocc by lia; lia).
        destruct (Gcin (x + h)%nat ltac:(lia) Hin) as (r' & Hr' & Hxr').
        assert (Hdx : delb (x + h) = true) by (unfold is_del; apply andb_true_intro; split; [apply Nat.leb_le | apply Nat.ltb_lt]; lia).
        pose proof (Gok r' Hr') as Hok'. unfold route_okb in Hok'.
        pose proof (walk_del_has_pick _ _ _ _ _ _ Hok' _ Hxr' Hdx) as Hx'. rewrite app_nil_r in Hx'. replace (x + h - h)%nat with x in Hx' by lia.
        assert (HrF : In r (all_routes psF)) by (unfold all_routes; apply in_app_iff; left; apply E1; cbn [closed]; apply in_app_iff; right; left; reflexivity).
        assert (Heq : rcus r = rcus r') by (apply (concat_nodup_same _ _ _ x Gcnd); [apply in_map; exact HrF | apply in_map; exact Hr' | exact Hx1 | exact Hx']).
        apply Hx3. apply (inv_cust' _ _ _ _ _ HI r); [unfold all_routes; rewrite Ho; apply in_app_iff; right; left; reflexivity | rewrite Heq; exact Hxr']. }
      subst pend. split.
      + apply (offered_back p ps s r HI Ho). exists a'. split; assumption.
      + apply (Hnd_of a'); [lia | exact Ha'p].
    - (* a new vehicle *)
      injection Hs as <-. apply Nat.ltb_lt in Ea.
      assert (Hap : ~ In a p).
      { intros Hc. apply (inv_dep _ _ _ _ _ HI a Ea) in Hc.
        rewrite E3 in Gdn. unfold all_routes in Gdn at 1. cbn [closed openr] in Gdn. rewrite !map_app in Gdn. cbn [map rdep] in Gdn.
        unfold all_routes in Hc. rewrite Ho, app_nil_r in Hc. rewrite <- app_assoc in Gdn. apply (NoDup_app_disj _ _ a Gdn Hc). left. reflexivity. }
      split.
      + apply (offered_new p ps pend s a HI Ho Ea Hap). intros ->. rewrite Hacts in Ghd. cbn in Ghd. congruence.
      + apply (Hnd_of a); assumption.
    - (* a customer on the vehicle's route *)
      injection Hs as <-. apply Nat.ltb_ge in Ea.
      assert (Hap : ~ In a p).
      { intros Hc. apply occ_In in Hc. pose proof (Gocc a ltac:(lia)) as H1. rewrite Hacts, occ_app, occ_cons, Nat.eqb_refl in H1. lia. }
      destruct (E2 _ eq_refl) as (rF & HrF & Hd & l' & Hl'). cbn [rdep rcus] in Hd, Hl'.
      pose proof (Gok rF HrF) as HokF. unfold route_okb in HokF. rewrite Hl' in HokF. apply walk_prefix in HokF.
      rewrite walk_snoc in HokF. apply andb_prop in HokF as [_ HokF]. apply andb_prop in HokF as [Hload Hprec]. rewrite app_nil_r in Hprec.
      pose proof (inv_open _ _ _ _ _ HI) as Hop. rewrite Ho in Hop. destruct Hop as (_ & _ & Hc1 & _).
      split.
      + apply (offered_cust p ps pend s r a HI Ho); [lia | exact Hap | |].
        * destruct (pick_or_del F i Hwf a ltac:(lia)) as [(_ & _ & Hlt & _)|(_ & Hda & _ & _)]; [left; exact Hlt|].
          right. rewrite Hda in Hprec. apply existsb_eqb_In in Hprec. apply in_rev in Hprec.
          apply (inv_cust' _ _ _ _ _ HI r); [unfold all_routes; rewrite Ho; apply in_app_iff; right; left; reflexivity | exact Hprec].
        * intros Hlt. destruct (pick_or_del F i Hwf a ltac:(lia)) as [(_ & _ & _ & Hdl)|(_ & _ & Hge & _)]; [|lia].
          rewrite Hdl, Hd in Hload. lia.
      + apply (Hnd_of a); assumption.
    - discriminate.
  Qed.

  Lemma complete_prefix acts psF : Glob acts psF -> forall p q, acts = p ++ q ->
    adm (E:=E) i p = true /\ (exists ps pend, Inv i p ps pend (run (E:=E) i p)) /\ (q <> [] -> md_done i (run (E:=E) i p) = false).
  Proof.
    intros G p. induction p as [|a p IH] using rev_ind; intros q Hq.
    - split; [reflexivity|]. split; [exists pstart, []; apply (reset_inv F i Hwf)|].
      intros Hne. destruct q as [|a q]; [congruence|]. apply (next_ok acts psF [] a q pstart [] G Hq (reset_inv F i Hwf)).
    - rewrite <- app_assoc in Hq. cbn [app] in Hq. destruct (IH _ Hq) as (Hadm & (ps & pend & HI) & Hnd).
      destruct (next_ok acts psF p a q ps pend G Hq HI) as [Hoff Hdn].
      assert (HI' : Inv i (p ++ [a]) (next_ps i ps a) (next_pend i ps pend a) (run (E:=E) i (p ++ [a]))).
      { rewrite run_snoc. apply (step_inv F i Hwf Hgood p ps pend _ a HI Hdn Hoff). }
      split; [rewrite adm_snoc, Hadm, Hoff; reflexivity|]. split; [eexists; eexists; exact HI'|].
      intros Hne. destruct q as [|a' q']; [congruence|].
      assert (Hq' : acts = (p ++ [a]) ++ a' :: q') by (rewrite <- app_assoc; exact Hq).
      apply (next_ok acts psF (p ++ [a]) a' q' _ _ G Hq' HI').
  Qed.

  (* ================================================================ C05 *)
  Theorem md_mask_complete acts :
    canonical acts ->
    adm (E:=E) i acts = true /\ live F i acts /\ done E i (run (E:=E) i acts) = true.
  Proof.
    intros Hc. destruct (canonical_glob acts Hc) as (psF & G). pose proof (nn_eq i Hwf) as Hnn.
    destruct (complete_prefix acts psF G acts [] (eq_sym (app_nil_r acts))) as (Hadm & (ps & pend & HI) & _).
    split; [exact Hadm|]. split.
    - intros p q Hq Hne. destruct (complete_prefix acts psF G p q Hq) as (_ & _ & H). apply H. exact Hne.
    - (* every node occurs in a solution *)
      cbn [done MDCPDP]. unfold md_done. apply negb_true_iff. destruct (anyb (avail (run (E:=E) i acts))) eqn:Ea; [|reflexivity]. exfalso.
      apply anyb_exists in Ea as (j & Hj & Hjt). rewrite (inv_la _ _ _ _ _ HI) in Hj.
      assert (Hin : In j acts); [|apply (inv_avail _ _ _ _ _ HI j Hj) in Hin; congruence].
      destruct Hc as (Hf & _ & _). unfold spec_feasibleb, md_feasibleb in Hf. rewrite (g_parse _ _ G) in Hf.
      apply andb_prop in Hf as [Hf _]. apply andb_prop in Hf as [Hf _]. apply andb_prop in Hf as [H1 H2].
      rewrite forallb_forall in H1, H2.
      destruct (Nat.ltb j ndp) eqn:Ej.
      + apply Nat.ltb_lt in Ej. assert (In j (seq 0 ndp)) as Hs by (apply in_seq; lia). specialize (H1 j Hs). apply Nat.eqb_eq in H1.
        assert (Hjr : In j (map rdep (all_routes psF))) by (apply occ_In; lia).
        assert (Hps : ps = psF) by (pose proof (inv_parse _ _ _ _ _ HI) as Hp; rewrite (g_parse _ _ G) in Hp; congruence). subst ps.
        apply (inv_dep _ _ _ _ _ HI j Ej). exact Hjr.
      + apply Nat.ltb_ge in Ej. assert (In j (seq ndp (2 * h))) as Hs by (apply in_seq; lia). specialize (H2 j Hs). apply Nat.eqb_eq in H2.
        apply occ_In. lia.
  Qed.
End Complete.

(* every canonical solution is produced by some admitted episode, whose reward is the solution's objective *)
Theorem md_optimum_reachable F i acts :
  md_wfb i = true -> md_good F i = true -> solo i || fx_leg F = true -> fx_ret F = true \/ opn i = true -> md_mode_ok F i = true ->
  canonical i acts ->
  adm (E:=MDCPDP exact F) i acts = true /\ done (MDCPDP exact F) i (run (E:=MDCPDP exact F) i acts) = true /\
  md_reward exact F i (run (E:=MDCPDP exact F) i acts) = spec_objective i acts.
Proof.
  intros Hwf Hg Hs Hr Hm Hc. destruct (md_mask_complete F i Hwf Hg acts Hc) as (Ha & Hl & Hd).
  split; [exact Ha|]. split; [exact Hd|]. apply (md_reward_is_objective F i Hwf Hg Hs acts Ha Hl Hd Hr Hm).
Qed.

(* ================================================================ start_mode = "random" *)
(* with the repair fx_switch the random start depot (td["current_depot"] after reset) is overwritten by the forced first
   action 0: from the first step on, the row is in exactly the state it would be in with start_mode = "order"; masks,
   admissibility, done and reward do not depend on the draw *)
Definition with_start (i : md_inst) (k : nat) : md_inst :=
  {| ndep := ndep i; nloc := nloc i; caps := caps i; dist := dist i; start := k; opn := opn i; mode := mode i;
     one := one i; lw := lw i; solo := solo i; legs0 := legs0 i |}.

Theorem md_random_start_irrelevant A F i acts :
  fx_switch F = true -> (0 < nd F i)%nat ->
  adm (E:=MDCPDP A F) i acts = adm (E:=MDCPDP A F) (with_start i 0) acts /\
  (acts <> [] -> adm (E:=MDCPDP A F) i acts = true ->
   run (E:=MDCPDP A F) i acts = run (E:=MDCPDP A F) (with_start i 0) acts).
Proof.
  intros Hsw Hnd.
  assert (Hstep : forall s a, md_step A F (with_start i 0) s a = md_step A F i s a) by reflexivity.
  assert (Hmask : forall s, md_mask F (with_start i 0) s = md_mask F i s) by reflexivity.
  assert (Hrun : forall s l, run_from (E:=MDCPDP A F) (with_start i 0) s l = run_from (E:=MDCPDP A F) i s l).
  { intros s l. revert s. induction l as [|a l IH]; intros s; cbn [run_from]; [reflexivity|]. cbn [step MDCPDP]. rewrite Hstep. apply IH. }
  assert (Hadm : forall s l, adm_from (E:=MDCPDP A F) (with_start i 0) s l = adm_from (E:=MDCPDP A F) i s l).
  { intros s l. revert s. induction l as [|a l IH]; intros s; cbn [adm_from]; [reflexivity|]. cbn [step MDCPDP]. rewrite Hstep, IH.
    unfold offered. cbn [mask MDCPDP]. rewrite Hmask. reflexivity. }
  (* the first step from the two reset states *)
  assert (H0 : md_step A F i (md_reset i) 0 = md_step A F i (md_reset (with_start i 0)) 0).
  { unfold md_step, next_depot, is_back, leg, raw_leg. rewrite Hsw. cbn [md_reset with_start node depot carry avail todel lens arr stepi ndep nloc start].
    replace (Nat.ltb 0 (nd F i)) with true by (symmetry; apply Nat.ltb_lt; exact Hnd). reflexivity. }
  destruct acts as [|a acts]; [split; [reflexivity | congruence]|].
  unfold adm, run. cbn [reset MDCPDP adm_from run_from step].
  assert (Hoff : offered (E:=MDCPDP A F) i (md_reset i) a = offered (E:=MDCPDP A F) (with_start i 0) (md_reset (with_start i 0)) a) by reflexivity.
  rewrite <- Hoff.
  assert (Ha : offered (E:=MDCPDP A F) i (md_reset i) a = true -> a = 0%nat).
  { unfold offered. cbn [mask MDCPDP]. unfold md_mask. cbn [md_reset fresh]. destruct a as [|a]; [reflexivity|]. cbn [nth]. intros H. exfalso.
    destruct (Nat.ltb a (nn i - 1)) eqn:El; [apply Nat.ltb_lt in El; rewrite nth_repeat_lt in H by exact El; discriminate|].
    apply Nat.ltb_ge in El. rewrite nth_overflow in H by (rewrite repeat_length; exact El). discriminate. }
  destruct (offered (E:=MDCPDP A F) i (md_reset i) a) eqn:Eo; cbn [andb].
  - specialize (Ha eq_refl). subst a. rewrite Hstep, <- H0, Hadm. split; [reflexivity|]. intros _ _. rewrite Hrun. reflexivity.
  - split; [reflexivity | discriminate].
Qed.

Lemma repaired_mode_ok i : (mode i <= 3)%nat -> md_mode_ok repaired i = true.
Proof.
  intros H. unfold md_mode_ok. cbn [repaired fx_sq]. destruct (Nat.ltb (mode i) 3) eqn:E; [reflexivity|].
  apply Nat.ltb_ge in E. replace (mode i) with 3%nat by lia. reflexivity.
Qed.
Lemma repaired_solo i : solo i || fx_leg repaired = true.
Proof. cbn. apply orb_true_r. Qed.
