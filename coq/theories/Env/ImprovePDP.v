(* C09 -- PDPRuinRepairEnv._local_operator (remove the pair, re-insert pickup after [first] and delivery after
   [second]), PDPRuinRepairEnv.get_mask, and the proof that every move permitted by the mask maps a valid PDP
   tour (single cycle, every pickup before its delivery in the order from the depot) to a valid one, all n. *)
From Coq Require Import ZArith List Bool Lia ZifyBool Arith Permutation.
From RL4CO Require Import Env.Improve.
Import ListNotations.

(* _local_operator(solution, action), action = (a0, first, second), one row; gs = len(rec), half = gs // 2 *)
Definition pdp_op (sol : list nat) (a0 first second : nat) : list nat :=
  let gs := length sol in
  let half := gs / 2 in
  let pair_index := a0 + 1 in
  let rec := sol in
  (* fix connection for pairing node *)
  let argsort1 := argsort rec in
  let pre_pairfirst := nth pair_index argsort1 0 in
  let post_pairfirst := nxt rec pair_index in
  let rec := set_nth pre_pairfirst post_pairfirst rec in
  let rec := set_nth pair_index pair_index rec in
  let argsort2 := argsort rec in
  let pre_pairsecond := nth (pair_index + half) argsort2 0 in
  let post_pairsecond := nxt rec (pair_index + half) in
  let rec := set_nth pre_pairsecond post_pairsecond rec in
  (* fix connection for pairing node *)
  let post_second := nxt rec second in
  let rec := set_nth second (pair_index + half) rec in
  let rec := set_nth (pair_index + half) post_second rec in
  let post_first := nxt rec first in
  let rec := set_nth first pair_index rec in
  let rec := set_nth pair_index post_first rec in
  rec.

(* get_mask(selected_node = p, td)[first][second] (True = allowed):
     vt = visited_time % gs; mask = vt[i] > vt[j]; rows/columns p and p + gs//2 forced True; return ~mask *)
Definition pdp_mask (vt : list nat) (p first second : nat) : bool :=
  let gs := length vt in
  let half := gs / 2 in
  negb (Nat.ltb (nth second vt 0 mod gs) (nth first vt 0 mod gs))
  && negb (Nat.eqb first p) && negb (Nat.eqb first (p + half))
  && negb (Nat.eqb second p) && negb (Nat.eqb second (p + half)).

(* the moves the environment admits in state [rec] (N2S removal head: a0 < half; then get_mask(a0 + 1)) *)
Definition pdp_admissible (rec : list nat) (a0 first second : nat) : bool :=
  Nat.ltb a0 (length rec / 2) && Nat.ltb first (length rec) && Nat.ltb second (length rec)
  && pdp_mask (visited_time rec) (a0 + 1) first second.

(* SPEC *)
Definition pos (rec : list nat) (v : nat) : nat := index_of v (walk rec 0 (length rec)).
Definition pdp_valid (rec : list nat) : Prop :=
  is_tour rec /\ forall j, 1 <= j <= length rec / 2 -> pos rec j < pos rec (j + length rec / 2).
Definition pdp_validb (rec : list nat) : bool :=
  is_tourb rec && forallb (fun j => Nat.ltb (pos rec j) (pos rec (j + length rec / 2))) (seq 1 (length rec / 2)).

Lemma pdp_validb_spec rec : pdp_validb rec = true <-> pdp_valid rec.
Proof.
  unfold pdp_validb, pdp_valid. rewrite andb_true_iff, is_tourb_spec, forallb_forall.
  split; intros [H1 H2]; (split; [exact H1|]).
  - intros j Hj. apply Nat.ltb_lt. apply H2. apply in_seq. lia.
  - intros j Hj. apply Nat.ltb_lt. apply H2. apply in_seq in Hj. lia.
Qed.

(* ------------------------------------------------------------------ "x occurs, and y occurs later" *)

Fixpoint beforeb (x y : nat) (l : list nat) : bool :=
  match l with [] => false | h :: t => if Nat.eqb h x then mem y t else beforeb x y t end.

Lemma beforeb_in_r x y l : beforeb x y l = true -> In y l.
Proof.
  induction l as [|h t IH]; simpl; [discriminate|].
  destruct (Nat.eqb h x); intros H; right; [apply mem_In; exact H|apply IH; exact H].
Qed.

(* deleting / inserting a third node does not change the relative order of two nodes *)
Lemma beforeb_del x y v X Y : v <> x -> v <> y -> beforeb x y (X ++ v :: Y) = beforeb x y (X ++ Y).
Proof.
  intros Hx Hy. induction X as [|h X IH]; simpl.
  - destruct (Nat.eqb v x) eqn:E; [apply Nat.eqb_eq in E; contradiction|reflexivity].
  - destruct (Nat.eqb h x); [|exact IH].
    rewrite !mem_app. cbn [mem existsb]. fold (mem y Y).
    destruct (Nat.eqb y v) eqn:E; [apply Nat.eqb_eq in E; congruence|reflexivity].
Qed.

Lemma beforeb_at x y A B : ~ In x A -> beforeb x y (A ++ x :: B) = mem y B.
Proof.
  intros H. induction A as [|h A IH]; simpl.
  - rewrite Nat.eqb_refl. reflexivity.
  - destruct (Nat.eqb h x) eqn:E; [apply Nat.eqb_eq in E; subst; exfalso; apply H; left; reflexivity|].
    apply IH. intros Hi. apply H. right. exact Hi.
Qed.

Lemma beforeb_left_of f s X Y :
  NoDup (X ++ s :: Y) -> f <> s -> beforeb f s (X ++ s :: Y) = true -> In f X.
Proof.
  intros Hnd Hfs. induction X as [|h X IH]; simpl; intros H.
  - destruct (Nat.eqb s f) eqn:E; [apply Nat.eqb_eq in E; congruence|].
    apply beforeb_in_r in H. apply NoDup_cons_iff in Hnd as [Hn _]. contradiction.
  - destruct (Nat.eqb h f) eqn:E; [apply Nat.eqb_eq in E; left; exact E|].
    right. apply IH; [|exact H]. simpl in Hnd. apply NoDup_cons_iff in Hnd as [_ Hnd]. exact Hnd.
Qed.

Lemma beforeb_of_index x y l : In x l -> In y l -> index_of x l < index_of y l -> beforeb x y l = true.
Proof.
  induction l as [|h t IH]; simpl; [tauto|]. intros Hx Hy Hlt.
  destruct (Nat.eqb h x) eqn:Ex.
  - destruct (Nat.eqb h y) eqn:Ey; [lia|]. apply Nat.eqb_neq in Ey.
    destruct Hy as [Hy|Hy]; [congruence|]. apply mem_In. exact Hy.
  - apply Nat.eqb_neq in Ex. destruct (Nat.eqb h y) eqn:Ey; [lia|]. apply Nat.eqb_neq in Ey.
    apply IH; [destruct Hx; [congruence|assumption]|destruct Hy; [congruence|assumption]|lia].
Qed.

Lemma index_of_beforeb x y l : NoDup l -> beforeb x y l = true -> index_of x l < index_of y l.
Proof.
  induction l as [|h t IH]; simpl; [discriminate|]. intros Hnd H.
  apply NoDup_cons_iff in Hnd as [Hh Hnd].
  destruct (Nat.eqb h x) eqn:Ex.
  - apply mem_In in H. destruct (Nat.eqb h y) eqn:Ey; [apply Nat.eqb_eq in Ey; subst; contradiction|lia].
  - destruct (Nat.eqb h y) eqn:Ey.
    + apply Nat.eqb_eq in Ey. subst. apply beforeb_in_r in H. contradiction.
    + specialize (IH Hnd H). lia.
Qed.

(* ------------------------------------------------------------------ removing / inserting a node of a cycle *)

Lemma hd_insert (d : nat) X x v Y : hd d (X ++ x :: v :: Y) = hd d (X ++ x :: Y).
Proof. destruct X; reflexivity. Qed.

Lemma app_cons_nonempty {A} (Y : list A) (h : A) : exists y0 T, Y ++ [h] = y0 :: T.
Proof. destruct Y as [|y Y]; simpl; eauto. Qed.

(* node v (not the head) is unlinked by redirecting its predecessor to its successor *)
Lemma cyc_remove rec x0 X v Y :
  cyc rec ((x0 :: X) ++ v :: Y) -> last X x0 < length rec ->
  cyc (set_nth (last X x0) (nxt rec v) rec) ((x0 :: X) ++ Y).
Proof.
  intros [Hnd Hc] Hlt. change (hd 0 ((x0 :: X) ++ v :: Y)) with x0 in Hc.
  unfold cyc. change (hd 0 ((x0 :: X) ++ Y)) with x0.
  split; [apply NoDup_remove_1 in Hnd; exact Hnd|].
  set (pre := last X x0) in *.
  rewrite <- app_assoc in Hc. change ((v :: Y) ++ [x0]) with (v :: (Y ++ [x0])) in Hc.
  apply chain_app in Hc as [Hc1 Hc2].
  destruct (app_cons_nonempty Y x0) as [y0 [T EY]].
  rewrite <- app_assoc. rewrite EY in *.
  apply chain_cons2 in Hc2 as [Epost Hc2]. rewrite Epost.
  destruct (list_last_cases (x0 :: X)) as [E|[X1 [z EX]]]; [discriminate|].
  assert (Ez : z = pre).
  { unfold pre. change (last X x0) with (last X x0). rewrite <- (last_cons_default x0 0 X). rewrite EX. rewrite last_last. reflexivity. }
  subst z.
  assert (HndX : NoDup (X1 ++ [pre]) /\ ~ In pre Y /\ ~ In pre X1).
  { rewrite EX in Hnd. apply NoDup_app_iff in Hnd as [H1 [H2 H3]].
    split; [exact H1|]. split.
    - intros Hi. apply (H3 pre); [apply in_or_app; right; left; reflexivity|right; exact Hi].
    - apply NoDup_app_iff in H1 as [_ [_ H4]]. intros Hi. apply (H4 pre Hi). left. reflexivity. }
  destruct HndX as [_ [HpY HpX1]].
  rewrite EX in *. rewrite <- app_assoc. cbn [app].
  apply chain_app. split.
  - apply chain_set_nth; [|rewrite removelast_last; exact HpX1].
    rewrite <- app_assoc in Hc1. cbn [app] in Hc1. apply chain_app in Hc1 as [Hc1 _]. exact Hc1.
  - apply chain_cons2. split.
    + unfold nxt. apply nth_set_nth_eq. exact Hlt.
    + apply chain_set_nth; [exact Hc2|]. rewrite <- EY, removelast_last. exact HpY.
Qed.

(* node v (not on the cycle) is linked in right after x *)
Lemma cyc_insert rec X x Y v :
  cyc rec (X ++ x :: Y) -> ~ In v (X ++ x :: Y) -> x < length rec -> v < length rec ->
  cyc (set_nth v (nxt rec x) (set_nth x v rec)) (X ++ x :: v :: Y).
Proof.
  intros [Hnd Hc] Hv Hx Hvl.
  assert (Hxv : x <> v) by (intros ->; apply Hv; apply in_or_app; right; left; reflexivity).
  split.
  - replace (X ++ x :: v :: Y) with ((X ++ [x]) ++ v :: Y) by (rewrite <- app_assoc; reflexivity).
    eapply Permutation_NoDup; [apply Permutation_middle|].
    constructor; rewrite <- app_assoc; cbn [app]; assumption.
  - rewrite hd_insert. set (h := hd 0 (X ++ x :: Y)) in *.
    rewrite <- app_assoc in Hc |- *. cbn [app] in Hc |- *.
    apply chain_app in Hc as [Hc1 Hc2].
    destruct (app_cons_nonempty Y h) as [y0 [T EY]]. rewrite EY in *.
    apply chain_cons2 in Hc2 as [Epost Hc2].
    assert (HxX : ~ In x X).
    { apply NoDup_app_iff in Hnd as [_ [_ H3]]. intros Hi. apply (H3 x Hi). left. reflexivity. }
    assert (HxY : ~ In x Y).
    { apply NoDup_app_iff in Hnd as [_ [H2 _]]. apply NoDup_cons_iff in H2 as [H2 _]. exact H2. }
    assert (HvX : ~ In v X) by (intros Hi; apply Hv; apply in_or_app; left; exact Hi).
    assert (HvY : ~ In v Y) by (intros Hi; apply Hv; apply in_or_app; right; right; exact Hi).
    apply chain_app. split.
    + apply chain_set_nth; [apply chain_set_nth; [exact Hc1|]|]; rewrite removelast_last; assumption.
    + apply chain_cons2. split.
      * unfold nxt. rewrite nth_set_nth_neq by exact Hxv. apply nth_set_nth_eq. exact Hx.
      * apply chain_cons2. split.
        -- unfold nxt at 1. rewrite nth_set_nth_eq by (rewrite set_nth_length; exact Hvl). exact Epost.
        -- apply chain_set_nth; [apply chain_set_nth; [exact Hc2|]|]; rewrite <- EY, removelast_last; assumption.
Qed.

(* a node outside the cycle can be overwritten freely *)
Lemma cyc_set_outside rec l v x : cyc rec l -> ~ In v l -> cyc (set_nth v x rec) l.
Proof.
  intros [Hnd Hc] Hv. split; [exact Hnd|]. apply chain_set_nth; [exact Hc|]. rewrite removelast_last. exact Hv.
Qed.

(* ------------------------------------------------------------------ the operator on visiting orders *)

Lemma in_remove_mid {A} (x v : A) X Y : In x (X ++ v :: Y) -> x <> v -> In x (X ++ Y).
Proof.
  intros H Hne. apply in_app_or in H as [H|[H|H]]; [apply in_or_app; left; exact H|congruence|
    apply in_or_app; right; exact H].
Qed.

Lemma in_add_mid {A} (x v : A) X Y : In x (X ++ Y) -> In x (X ++ v :: Y).
Proof.
  intros H. apply in_app_or in H as [H|H]; apply in_or_app; [left; exact H|right; right; exact H].
Qed.

Lemma perm_insert {A} (v : A) X x Y : Permutation (X ++ x :: v :: Y) (v :: X ++ x :: Y).
Proof.
  replace (X ++ x :: v :: Y) with ((X ++ [x]) ++ v :: Y) by (rewrite <- app_assoc; reflexivity).
  eapply Permutation_trans; [apply Permutation_sym, Permutation_middle|]. rewrite <- app_assoc. apply Permutation_refl.
Qed.

Lemma half_odd h : (2 * h + 1) / 2 = h.
Proof. symmetry. apply (Nat.div_unique (2 * h + 1) 2 h 1); lia. Qed.

(* the four list surgeries performed by the operator, on any decomposition of the orders *)
Lemma pdp_op_lists sol h a0 first second X1 Y1 X2 Y2 X3 Y3 X4 Y4 :
  length sol = 2 * h + 1 -> a0 < h -> first < length sol -> is_tour sol ->
  walk sol 0 (length sol) = (0 :: X1) ++ (a0 + 1) :: Y1 ->
  (0 :: X1) ++ Y1 = (0 :: X2) ++ (a0 + 1 + h) :: Y2 ->
  (0 :: X2) ++ Y2 = X3 ++ second :: Y3 ->
  X3 ++ second :: (a0 + 1 + h) :: Y3 = X4 ++ first :: Y4 ->
  length (pdp_op sol a0 first second) = length sol /\
  cyc (pdp_op sol a0 first second) (X4 ++ first :: (a0 + 1) :: Y4).
Proof.
  intros Hn Ha0 Hfirst Ht E1 E2 E3 E4.
  set (p := a0 + 1) in *. set (d := p + h) in *.
  destruct (is_tour_cyc _ Ht) as [Hc0 Hf0]. rewrite E1 in Hc0, Hf0.
  set (n := length sol) in *.
  assert (Hpd : p <> d) by (unfold p, d; lia).
  (* ranges *)
  assert (Hp : p < n) by (apply Hf0; apply in_or_app; right; left; reflexivity).
  assert (Hin1 : forall x, In x ((0 :: X1) ++ Y1) -> x < n) by (intros x Hx; apply Hf0; apply in_add_mid; exact Hx).
  assert (Hd : d < n) by (apply Hin1; rewrite E2; apply in_or_app; right; left; reflexivity).
  assert (Hin2 : forall x, In x ((0 :: X2) ++ Y2) -> x < n).
  { intros x Hx. apply Hin1. rewrite E2. apply in_add_mid. exact Hx. }
  assert (Hsecond : second < n) by (apply Hin2; rewrite E3; apply in_or_app; right; left; reflexivity).
  assert (Hp1 : ~ In p ((0 :: X1) ++ Y1)) by (apply NoDup_remove_2; exact (proj1 Hc0)).
  (* step 1: unlink the pickup *)
  set (pre1 := last X1 0).
  assert (Hpre1_in : In pre1 (0 :: X1)) by apply last_in_cons.
  assert (Hpre1 : pre1 < n) by (apply Hf0; apply in_or_app; left; exact Hpre1_in).
  assert (Hch0 : chain sol ((0 :: X1) ++ [p])).
  { destruct Hc0 as [_ Hc]. rewrite <- app_assoc in Hc. change ((p :: Y1) ++ [hd 0 ((0 :: X1) ++ p :: Y1)]) with
      (p :: (Y1 ++ [0])) in Hc. apply chain_app in Hc as [Hc _]. exact Hc. }
  assert (Hn1 : nxt sol pre1 = p) by (apply chain_last_edge; exact Hch0).
  assert (Hargs1 : nth p (argsort sol) 0 = pre1).
  { rewrite <- Hn1 at 1. apply argsort_pred; [exact Hpre1|rewrite Hn1; exact Hp|].
    intros j Hj E. apply (is_tour_nxt_inj _ Ht); assumption. }
  pose proof (cyc_remove sol 0 X1 p Y1 Hc0 Hpre1) as Hc1a. fold pre1 in Hc1a.
  pose proof (cyc_set_outside _ _ p p Hc1a Hp1) as Hc1.
  set (rec1 := set_nth p p (set_nth pre1 (nxt sol p) sol)) in *.
  assert (Hl1 : length rec1 = n) by (unfold rec1; rewrite !set_nth_length; reflexivity).
  assert (Hpp : nxt rec1 p = p) by (unfold nxt, rec1; apply nth_set_nth_eq; rewrite set_nth_length; exact Hp).
  (* step 2: unlink the delivery *)
  rewrite E2 in Hc1.
  set (pre2 := last X2 0).
  assert (Hpre2_in : In pre2 (0 :: X2)) by apply last_in_cons.
  assert (Hpre2_l1 : In pre2 ((0 :: X2) ++ d :: Y2)) by (apply in_or_app; left; exact Hpre2_in).
  assert (Hpre2 : pre2 < n) by (apply Hin1; rewrite E2; exact Hpre2_l1).
  assert (Hch1 : chain rec1 ((0 :: X2) ++ [d])).
  { destruct Hc1 as [_ Hc]. rewrite <- app_assoc in Hc. change ((d :: Y2) ++ [hd 0 ((0 :: X2) ++ d :: Y2)]) with
      (d :: (Y2 ++ [0])) in Hc. apply chain_app in Hc as [Hc _]. exact Hc. }
  assert (Hn2 : nxt rec1 pre2 = d) by (apply chain_last_edge; exact Hch1).
  assert (Hargs2 : nth d (argsort rec1) 0 = pre2).
  { rewrite <- Hn2 at 1. apply argsort_pred; [rewrite Hl1; exact Hpre2|rewrite Hn2, Hl1; exact Hd|].
    intros j Hj E. rewrite Hl1 in Hj.
    assert (Hj0 : In j ((0 :: X1) ++ p :: Y1)) by (apply Hf0; exact Hj).
    destruct (Nat.eq_dec j p) as [->|Hjp]; [rewrite Hpp, Hn2 in E; contradiction|].
    apply (in_remove_mid _ _ _ _ Hj0) in Hjp. rewrite E2 in Hjp.
    apply (cyc_nxt_inj _ _ _ _ Hc1); assumption. }
  assert (Hd2 : ~ In d ((0 :: X2) ++ Y2)) by (apply NoDup_remove_2; exact (proj1 Hc1)).
  assert (Hpre2' : pre2 < length rec1) by (rewrite Hl1; exact Hpre2).
  pose proof (cyc_remove rec1 0 X2 d Y2 Hc1 Hpre2') as Hc2. fold pre2 in Hc2.
  set (rec2 := set_nth pre2 (nxt rec1 d) rec1) in *.
  assert (Hl2 : length rec2 = n) by (unfold rec2; rewrite set_nth_length; exact Hl1).
  (* step 3: link the delivery in after [second] *)
  rewrite E3 in Hc2, Hd2.
  assert (Hs2 : second < length rec2) by (rewrite Hl2; exact Hsecond).
  assert (Hd2' : d < length rec2) by (rewrite Hl2; exact Hd).
  pose proof (cyc_insert rec2 X3 second Y3 d Hc2 Hd2 Hs2 Hd2') as Hc3.
  set (rec3 := set_nth d (nxt rec2 second) (set_nth second d rec2)) in *.
  assert (Hl3 : length rec3 = n) by (unfold rec3; rewrite !set_nth_length; exact Hl2).
  (* step 4: link the pickup in after [first] *)
  assert (Hp3 : ~ In p (X3 ++ second :: d :: Y3)).
  { intros Hi. replace (X3 ++ second :: d :: Y3) with ((X3 ++ [second]) ++ d :: Y3) in Hi
      by (rewrite <- app_assoc; reflexivity).
    apply in_remove_mid in Hi; [|exact Hpd]. rewrite <- app_assoc in Hi. cbn [app] in Hi.
    rewrite <- E3 in Hi. apply Hp1. rewrite E2. apply in_add_mid. exact Hi. }
  rewrite E4 in Hc3, Hp3.
  assert (Hf3 : first < length rec3) by (rewrite Hl3; exact Hfirst).
  assert (Hp3' : p < length rec3) by (rewrite Hl3; exact Hp).
  pose proof (cyc_insert rec3 X4 first Y4 p Hc3 Hp3 Hf3 Hp3') as Hc4.
  (* the code computes exactly these arrays *)
  assert (Hdiv : length sol / 2 = h) by (fold n; rewrite Hn; apply half_odd).
  assert (Hop : pdp_op sol a0 first second = set_nth p (nxt rec3 first) (set_nth first p rec3)).
  { unfold pdp_op. rewrite Hdiv. fold p. fold d. rewrite Hargs1. fold rec1. rewrite Hargs2. fold rec2. fold rec3.
    reflexivity. }
  rewrite Hop. split; [rewrite !set_nth_length; exact Hl3|exact Hc4].
Qed.

(* what the mask tells about the visiting order of a tour *)
Lemma pdp_mask_order rec p first second :
  is_tour rec -> first < length rec -> second < length rec ->
  pdp_mask (visited_time rec) p first second = true ->
  first <> p /\ first <> p + length rec / 2 /\ second <> p /\ second <> p + length rec / 2 /\
  (first = second \/ beforeb first second (walk rec 0 (length rec)) = true).
Proof.
  intros Ht Hf Hs Hm. unfold pdp_mask in Hm. rewrite visited_time_length in Hm.
  repeat (apply andb_prop in Hm as [Hm ?]).
  repeat match goal with H : negb (Nat.eqb _ _) = true |- _ => apply negb_true_iff, Nat.eqb_neq in H end.
  repeat (split; [assumption|]).
  apply negb_true_iff, Nat.ltb_ge in Hm.
  destruct (is_tour_cyc _ Ht) as [[Hnd _] Hfull].
  set (n := length rec) in *. set (l0 := walk rec 0 n) in *.
  assert (Hvt : forall v, v < n -> nth v (visited_time rec) 0 mod n = index_of v l0).
  { intros v Hv. rewrite (visited_time_tour rec v Ht Hv). fold n. fold l0.
    destruct (Nat.eqb v 0) eqn:E.
    - apply Nat.eqb_eq in E. subst v. rewrite Nat.mod_same by lia.
      unfold l0. destruct n; [lia|]. simpl. reflexivity.
    - apply Nat.mod_small. rewrite <- (walk_length rec 0 n). apply index_of_lt. apply Hfull. exact Hv. }
  rewrite (Hvt first Hf), (Hvt second Hs) in Hm.
  destruct (Nat.eq_dec first second) as [E|Hne]; [left; exact E|right].
  apply beforeb_of_index; [apply Hfull; exact Hf|apply Hfull; exact Hs|].
  assert (index_of first l0 <> index_of second l0); [|lia].
  intros E. apply Hne.
  rewrite <- (nth_index_of first l0 0) by (apply Hfull; exact Hf).
  rewrite <- (nth_index_of second l0 0) by (apply Hfull; exact Hs). rewrite E. reflexivity.
Qed.

(* THEOREM (all n = 2h+1): a move permitted by get_mask maps a valid PDP tour to a valid PDP tour *)
Theorem pdp_rr_valid sol h a0 first second :
  length sol = 2 * h + 1 -> pdp_valid sol -> pdp_admissible sol a0 first second = true ->
  pdp_valid (pdp_op sol a0 first second).
Proof.
  intros Hn [Ht Hprec] Hadm.
  assert (Hdiv : length sol / 2 = h) by (rewrite Hn; apply half_odd).
  unfold pdp_admissible in Hadm. rewrite Hdiv in Hadm.
  repeat (apply andb_prop in Hadm as [Hadm ?]).
  apply Nat.ltb_lt in Hadm.
  repeat match goal with H : Nat.ltb _ _ = true |- _ => apply Nat.ltb_lt in H end.
  rename H into Hmask, H0 into Hsecond, H1 into Hfirst.
  destruct (pdp_mask_order sol (a0 + 1) first second Ht Hfirst Hsecond Hmask) as [Hfp [Hfd [Hsp [Hsd Hord]]]].
  rewrite Hdiv in Hfd, Hsd, Hprec.
  destruct (is_tour_cyc _ Ht) as [Hc0 Hf0].
  set (n := length sol) in *. set (p := a0 + 1) in *. set (d := p + h) in *.
  assert (Hpd : p <> d) by (unfold d, p; lia).
  (* decompose the old order *)
  assert (El0 : exists t, walk sol 0 n = 0 :: t) by (destruct n; [lia|]; simpl; eauto).
  destruct El0 as [t El0]. rewrite El0 in Hc0, Hf0, Hord.
  assert (Hpin : In p t).
  { assert (H : In p (0 :: t)) by (apply Hf0; unfold p; lia). destruct H as [H|H]; [unfold p in H; lia|exact H]. }
  apply in_split in Hpin as [X1 [Y1 ->]].
  assert (Hdin : In d (X1 ++ Y1)).
  { assert (H : In d (0 :: X1 ++ p :: Y1)) by (apply Hf0; unfold d, p; lia).
    destruct H as [H|H]; [unfold d, p in H; lia|]. apply (in_remove_mid _ _ _ _ H). auto. }
  apply in_split in Hdin as [X2 [Y2 E2]].
  assert (E2' : (0 :: X1) ++ Y1 = (0 :: X2) ++ d :: Y2) by (simpl; rewrite E2; reflexivity).
  assert (Hsin : In second ((0 :: X2) ++ Y2)).
  { assert (H : In second ((0 :: X1) ++ p :: Y1)) by (apply Hf0; exact Hsecond).
    apply in_remove_mid in H; [|exact Hsp]. rewrite E2' in H. apply in_remove_mid in H; [exact H|exact Hsd]. }
  apply in_split in Hsin as [X3 [Y3 E3]].
  change (0 :: X1 ++ p :: Y1) with ((0 :: X1) ++ p :: Y1) in *.
  (* relative order of first and second survives the two removals *)
  assert (Hord2 : first = second \/ beforeb first second (X3 ++ second :: Y3) = true).
  { destruct Hord as [E|Hb]; [left; exact E|right].
    rewrite <- E3. rewrite <- (beforeb_del first second d) by auto. rewrite <- E2'.
    rewrite <- (beforeb_del first second p) by auto. exact Hb. }
  pose proof (proj1 Hc0) as Hnd0.
  assert (Hnd1 : NoDup ((0 :: X1) ++ Y1)) by (apply NoDup_remove_1 in Hnd0; exact Hnd0).
  assert (Hnd2 : NoDup (X3 ++ second :: Y3)).
  { rewrite <- E3. rewrite E2' in Hnd1. apply NoDup_remove_1 in Hnd1. exact Hnd1. }
  (* choose the decomposition at [first] so that the delivery lies behind it *)
  assert (Hsplit4 : exists X4 Y4, X3 ++ second :: d :: Y3 = X4 ++ first :: Y4 /\ In d Y4).
  { destruct (Nat.eq_dec first second) as [E|Hne].
    - subst second. exists X3, (d :: Y3). split; [reflexivity|left; reflexivity].
    - destruct Hord2 as [E|Hb]; [contradiction|].
      apply beforeb_left_of in Hb; [|exact Hnd2|exact Hne].
      apply in_split in Hb as [U [W ->]]. exists U, (W ++ second :: d :: Y3). split.
      + rewrite <- app_assoc. reflexivity.
      + apply in_or_app. right. right. left. reflexivity. }
  destruct Hsplit4 as [X4 [Y4 [E4 HdY4]]].
  assert (Ha0 : a0 < h) by exact Hadm.
  destruct (pdp_op_lists sol h a0 first second X1 Y1 X2 Y2 X3 Y3 X4 Y4 Hn Ha0 Hfirst Ht El0 E2' E3 E4)
    as [Hlen Hc4].
  fold p in Hc4. set (res := pdp_op sol a0 first second) in *.
  set (l4 := X4 ++ first :: p :: Y4) in *.
  (* same node set *)
  assert (P4 : Permutation l4 (p :: d :: (0 :: X2) ++ Y2)).
  { unfold l4. eapply Permutation_trans; [apply perm_insert|]. apply perm_skip. rewrite <- E4.
    eapply Permutation_trans; [apply perm_insert|]. apply perm_skip. rewrite <- E3. apply Permutation_refl. }
  assert (P0 : Permutation ((0 :: X1) ++ p :: Y1) (p :: d :: (0 :: X2) ++ Y2)).
  { eapply Permutation_trans; [apply Permutation_sym, Permutation_middle|]. apply perm_skip.
    rewrite E2'. apply Permutation_sym, Permutation_middle. }
  assert (Hperm : Permutation ((0 :: X1) ++ p :: Y1) l4).
  { eapply Permutation_trans; [exact P0|apply Permutation_sym; exact P4]. }
  assert (Hf4 : full (length res) l4) by (rewrite Hlen; eapply full_perm; [exact Hperm|exact Hf0]).
  assert (Htour : is_tour res) by (apply (cyc_full_is_tour _ _ Hc4 Hf4)).
  split; [exact Htour|].
  (* the new order from the depot is l4 *)
  assert (Hhd : hd 0 l4 = 0).
  { unfold l4. rewrite hd_insert. rewrite <- E4. rewrite hd_insert. rewrite <- E3. reflexivity. }
  pose proof (proj1 Hc4) as Hnd4.
  assert (Hw : walk res 0 (length res) = l4).
  { pose proof (full_NoDup_length _ _ Hnd4 Hf4) as Hl.
    destruct l4 as [|x t4] eqn:El4; [unfold l4 in El4; destruct X4; discriminate|].
    simpl in Hhd. subst x.
    destruct (cyc_from_head _ _ _ Hc4) as [Hw _].
    simpl in Hl. rewrite Hw. rewrite Hl. reflexivity. }
  intros j Hj. unfold pos. rewrite Hw. rewrite Hlen in Hj |- *. fold n in Hj |- *. rewrite Hdiv in Hj |- *.
  apply index_of_beforeb; [exact Hnd4|].
  assert (El4 : l4 = (X4 ++ [first]) ++ p :: Y4) by (unfold l4; rewrite <- app_assoc; reflexivity).
  destruct (Nat.eq_dec j p) as [->|Hjp].
  - (* the re-inserted pair *)
    fold d. rewrite El4. rewrite beforeb_at; [apply mem_In; exact HdY4|].
    rewrite El4 in Hnd4. apply NoDup_remove_2 in Hnd4.
    intros Hi. apply Hnd4. apply in_or_app. left. exact Hi.
  - (* every other pair keeps its relative order through the four surgeries *)
    assert (Hj1 : p <> j /\ p <> j + h /\ d <> j /\ d <> j + h) by (unfold d, p in *; lia).
    destruct Hj1 as [N1 [N2 [N3 N4]]].
    rewrite El4. rewrite beforeb_del by assumption. rewrite <- app_assoc. cbn [app]. rewrite <- E4.
    replace (X3 ++ second :: d :: Y3) with ((X3 ++ [second]) ++ d :: Y3) by (rewrite <- app_assoc; reflexivity).
    rewrite beforeb_del by assumption. rewrite <- app_assoc. cbn [app]. rewrite <- E3.
    rewrite <- (beforeb_del j (j + h) d (0 :: X2) Y2) by assumption. rewrite <- E2'.
    rewrite <- (beforeb_del j (j + h) p (0 :: X1) Y1) by assumption.
    specialize (Hprec j Hj). unfold pos in Hprec. fold n in Hprec. rewrite El0 in Hprec.
    apply beforeb_of_index; [apply Hf0; lia|apply Hf0; lia|exact Hprec].
Qed.

(* non-vacuity: n = 7 (h = 3): order 0 2 1 5 4 3 6; remove pair (1, 4), pickup after 2 (first), delivery after 5 *)
Example pdp_ex :
  pdp_validb [2; 5; 1; 6; 3; 4; 0] = true /\ pdp_admissible [2; 5; 1; 6; 3; 4; 0] 0 2 5 = true /\
  pdp_op [2; 5; 1; 6; 3; 4; 0] 0 2 5 = [2; 5; 1; 6; 3; 4; 0] /\
  pdp_admissible [2; 5; 1; 6; 3; 4; 0] 0 0 3 = true /\
  pdp_validb (pdp_op [2; 5; 1; 6; 3; 4; 0] 0 0 3) = true /\
  pdp_admissible [2; 5; 1; 6; 3; 4; 0] 0 5 2 = false.
Proof. vm_compute. repeat split; reflexivity. Qed.
