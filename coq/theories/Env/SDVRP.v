(* SDVRPEnv (rl4co/envs/routing/sdvrp/env.py), one batch row, bookkeeping variable by variable.
   SDVRPEnv subclasses CVRPEnv: the instance data (demand, vehicle_capacity, locs) and _get_reward are CVRP's, so
   the instance record [cvrp_inst], [n_of], [demand], [dfun] of Env/CVRP.v are re-used as they are.  _reset, _step,
   get_action_mask and check_solution_validity are SDVRP's own and are modelled here.
   Node 0 is the depot, customers are 1..n.  Quantities are scaled integers; [A : arith] is the rounding applied
   where the code performs a float32 operation. *)
From Coq Require Import ZArith List Bool Lia ZifyBool Arith.
From RL4CO Require Import Base.Num Base.EnvSig Env.CVRP.
Import ListNotations.
Open Scope Z_scope.

(* current_node, used_capacity, demand_with_depot (index 0 = depot), done *)
Record sd_st := { scur : nat; sused : Z; sdwd : list Z; sdn : bool }.

Section Model.
  Variable A : arith.

  Definition sd_reset (i : cvrp_inst) : sd_st :=
    {| scur := 0; sused := 0; sdwd := 0 :: dem i; sdn := false |}.

  (* delivered_demand = min(demand_with_depot[a], vehicle_capacity - used_capacity) *)
  Definition sd_delivered (i : cvrp_inst) (s : sd_st) (a : nat) : Z :=
    Z.min (nth a (sdwd s) 0) (rnd A (cap i - sused s)).

  Definition sd_step (i : cvrp_inst) (s : sd_st) (a : nat) : sd_st :=
    let del := sd_delivered i s a in
    let dwd' := set_nth a (rnd A (nth a (sdwd s) 0 - del)) (sdwd s) in     (* scatter_add(-1, a, -delivered) *)
    {| scur := a;
       sused := if Nat.eqb a 0 then 0 else rnd A (sused s + del);           (* (used + delivered) * (a != 0) *)
       sdwd := dwd';
       sdn := negb (existsb (fun d => 0 <? d) dwd') |}.                     (* ~(demand_with_depot > 0).any(-1) *)

  (* gather / scatter indices must be inside the tensors *)
  Definition sd_stepok (i : cvrp_inst) (s : sd_st) (a : nat) : bool := Nat.leb a (n_of i).

  Definition sd_done (i : cvrp_inst) (s : sd_st) : bool := sdn s.

  (* True = masked out, as in the code before the final negation *)
  Definition sd_mask_loc (i : cvrp_inst) (s : sd_st) (j : nat) : bool :=
    (nth j (sdwd s) 0 =? 0) || (cap i <=? sused s).
  Definition sd_locs (i : cvrp_inst) : list nat := seq 1 (n_of i).
  Definition sd_mask_depot (i : cvrp_inst) (s : sd_st) : bool :=
    Nat.eqb (scur s) 0 && existsb (fun j => negb (sd_mask_loc i s j)) (sd_locs i).
  Definition sd_mask (i : cvrp_inst) (s : sd_st) : list bool :=
    negb (sd_mask_depot i s) :: map (fun j => negb (sd_mask_loc i s j)) (sd_locs i).

  Definition SDVRP : Env := {|
    inst := cvrp_inst; st := sd_st;
    reset := sd_reset; step := sd_step; stepok := sd_stepok; mask := sd_mask; done := sd_done |}.

  (* ---------------------------------------------------------------- check_solution_validity
     demands = cat(-vehicle_capacity, demand); for every action a: if the previous action and a are both the depot,
     ALL entries of demands (column 0 included) must be zero; d = min(demands[a], capacity - used);
     demands[a] -= d; used += d; used = 0 at the depot.  Finally all CUSTOMER entries of demands must be zero
     (`demands[:, 1:]`; before the repair 56d7d8e the depot column, which holds -capacity until a depot visit, was
     tested as well: recorded as fixed in known_findings.json). *)
  Definition all_zero (l : list Z) : bool := forallb (fun d => d =? 0) l.
  Fixpoint sd_check_loop (i : cvrp_inst) (dm : list Z) (u : Z) (prev : option nat) (acts : list nat) : bool :=
    match acts with
    | [] => all_zero (tl dm)
    | a :: r =>
        (match prev with Some O => if Nat.eqb a 0 then all_zero dm else true | _ => true end) &&
        Nat.leb a (n_of i) &&
        (let d := Z.min (nth a dm 0) (rnd A (cap i - u)) in
         let dm' := set_nth a (rnd A (nth a dm 0 - d)) dm in
         let u' := if Nat.eqb a 0 then 0 else rnd A (u + d) in
         sd_check_loop i dm' u' (Some a) r)
    end.
  Definition sd_checker (i : cvrp_inst) (acts : list nat) : bool :=
    sd_check_loop i ((- cap i) :: dem i) 0 None acts.
End Model.
