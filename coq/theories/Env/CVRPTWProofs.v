(* CVRPTW: independent specification and the theorems for C01-C06.  All in exact arithmetic ([exact]).
   CVRPTW = CVRP + time: the CVRP component of every admitted CVRPTW run is an admitted CVRP run, so the CVRP
   theorems of Env/CVRPProofs.v are re-used; what is new is the clock. *)
From Coq Require Import ZArith List Bool Lia ZifyBool Arith.
From RL4CO Require Import Base.Num Base.EnvSig Spec.Routes Spec.TimeWindows Env.CVRP Env.CVRPProofs Env.CVRPTW.
Import ListNotations.
Open Scope Z_scope.

Notation T := (CVRPTW exact).
Notation C := (CVRP exact).

(* ---------------------------------------------------------------- specification *)
(* route-wise time feasibility of the problem definition, instantiated with the instance data; [sl] = slack *)
Definition tw_route_ok (i : cvrptw_inst) (sl : Z) (r : list nat) : Prop :=
  route_tw_ok (dd i) (lo i) (hi i) (du i) sl r.

(* CVRP feasibility (every customer exactly once, nodes in range, route loads within capacity) and every route
   (maximal depot-free segment, each driven from time 0) meets all customer deadlines and is back at the depot by
   the depot's deadline -- the LAST route too, whether or not the action list ends with a depot visit: the class
   docstring says the tour ends at the depot, the generator docstring says max_time is the "maximum time for the
   vehicle to complete the tour" and that the depot's window is [0, max_time]. *)
Definition cvrptw_feasible (i : cvrptw_inst) (acts : list nat) : Prop :=
  cvrp_feasible (base i) acts /\ Forall (tw_route_ok i 0) (routes acts).

(* documented input format: the CVRP format; per-node vectors of length n+1; square distance table with zero
   diagonal at the depot and non-negative entries; windows ordered and non-negative; the depot window opens at 0;
   durations non-negative, zero at the depot; a positive time unit *)
Definition cvrptw_wfb (i : cvrptw_inst) : bool :=
  cvrp_wfb (base i) &&
  Nat.eqb (length (twlo i)) (S (tn_of i)) && Nat.eqb (length (twhi i)) (S (tn_of i)) && Nat.eqb (length (durs i)) (S (tn_of i)) &&
  forallb (fun j => (0 <=? lo i j) && (lo i j <=? hi i j) && (0 <=? du i j)) (nodes i) &&
  forallb (fun a => forallb (fun b => 0 <=? dd i a b) (nodes i)) (nodes i) &&
  (dd i 0 0 =? 0) && (lo i 0 =? 0) && (du i 0 =? 0) && (0 <? tu i).

(* the generator docstring's bound "the end time of each node is bounded by the service duration and the distance
   back to the depot": a vehicle that starts service at the deadline can still return in time *)
Definition cvrptw_returnb (i : cvrptw_inst) : bool :=
  forallb (fun j => hi i j + du i j + dd i j 0 <=? hi i 0) (nodes i).

(* C02: every customer fits into an empty vehicle, can be reached from the depot before its deadline, and the
   vehicle can return from it *)
Definition cvrptw_solvableb (i : cvrptw_inst) : bool :=
  cvrp_solvableb (base i) && forallb (fun j => dd i 0 j <=? hi i j) (nodes i) && cvrptw_returnb i.

(* what the checker's instance assertions additionally demand (generator: min_times < max_times) and what ties
   its outward distances to the return legs *)
Definition cvrptw_strictb (i : cvrptw_inst) : bool :=
  forallb (fun j => lo i j <? hi i j) (nodes i) && forallb (fun j => dd i 0 j =? dd i j 0) (nodes i).

Record cvrptw_wf (i : cvrptw_inst) : Prop := {
  wf_base : cvrp_wf (base i);
  wf_llo : length (twlo i) = S (tn_of i);
  wf_lhi : length (twhi i) = S (tn_of i);
  wf_ldu : length (durs i) = S (tn_of i);
  wf_lo : forall j, 0 <= lo i j;
  wf_lohi : forall j, lo i j <= hi i j;
  wf_du : forall j, 0 <= du i j;
  wf_dd : forall a b, (a <= tn_of i)%nat -> (b <= tn_of i)%nat -> 0 <= dd i a b;
  wf_d00 : dd i 0 0 = 0;
  wf_lo0 : lo i 0 = 0;
  wf_du0 : du i 0 = 0;
  wf_tu : 0 < tu i;
}.

Lemma nodes_in i j : In j (nodes i) <-> (j <= tn_of i)%nat.
Proof. unfold nodes. rewrite in_seq. lia. Qed.

Lemma nth_beyond (l : list Z) j : (length l <= j)%nat -> nth j l 0 = 0.
Proof. intros H. apply nth_overflow. exact H. Qed.

Lemma cvrptw_wfb_ok i : cvrptw_wfb i = true -> cvrptw_wf i.
Proof.
  unfold cvrptw_wfb. rewrite !andb_true_iff.
  intros [[[[[[[[[Hb Hl1] Hl2] Hl3] Hn] Hd] H00] Hl0] Hd0] Htu].
  apply Nat.eqb_eq in Hl1, Hl2, Hl3. rewrite forallb_forall in Hn, Hd.
  assert (N : forall j, (j <= tn_of i)%nat -> 0 <= lo i j /\ lo i j <= hi i j /\ 0 <= du i j).
  { intros j Hj. apply nodes_in in Hj. specialize (Hn j Hj). lia. }
  assert (B : forall j, (tn_of i < j)%nat -> lo i j = 0 /\ hi i j = 0 /\ du i j = 0).
  { intros j Hj. unfold lo, hi, du. rewrite !nth_beyond by lia. auto. }
  constructor; try assumption; try lia.
  - apply cvrp_wfb_ok. exact Hb.
  - intros j. destruct (le_lt_dec j (tn_of i)) as [Hj|Hj]; [apply N; exact Hj | destruct (B j Hj) as [-> _]; lia].
  - intros j. destruct (le_lt_dec j (tn_of i)) as [Hj|Hj]; [apply N; exact Hj | destruct (B j Hj) as (-> & -> & _); lia].
  - intros j. destruct (le_lt_dec j (tn_of i)) as [Hj|Hj]; [apply N; exact Hj | destruct (B j Hj) as (_ & _ & ->); lia].
  - intros a b Ha Hb'. apply nodes_in in Ha, Hb'. specialize (Hd a Ha). rewrite forallb_forall in Hd. specialize (Hd b Hb'). lia.
Qed.

Definition cvrptw_return (i : cvrptw_inst) : Prop := forall j, (j <= tn_of i)%nat -> hi i j + du i j + dd i j 0 <= hi i 0.
Lemma cvrptw_returnb_ok i : cvrptw_returnb i = true <-> cvrptw_return i.
Proof.
  unfold cvrptw_returnb, cvrptw_return. rewrite forallb_forall. split.
  - intros H j Hj. apply nodes_in in Hj. specialize (H j Hj). lia.
  - intros H j Hj. apply nodes_in in Hj. specialize (H j Hj). lia.
Qed.

Record cvrptw_solvable (i : cvrptw_inst) : Prop := {
  sv_base : cvrp_solvable (base i);
  sv_reach : forall j, (j <= tn_of i)%nat -> dd i 0 j <= hi i j;
  sv_return : cvrptw_return i;
}.
Lemma cvrptw_solvableb_ok i : cvrptw_solvableb i = true -> cvrptw_solvable i.
Proof.
  unfold cvrptw_solvableb. rewrite !andb_true_iff. intros [[Hb Hr] Hret]. constructor.
  - apply cvrp_solvableb_ok. exact Hb.
  - rewrite forallb_forall in Hr. intros j Hj. apply nodes_in in Hj. specialize (Hr j Hj). lia.
  - apply cvrptw_returnb_ok. exact Hret.
Qed.

(* ---------------------------------------------------------------- executable twin of the specification *)
(* [csl] relaxes the capacity constraint, [sl] the deadlines (0, 0 = the specification itself) *)
Definition cvrptw_feasibleb (i : cvrptw_inst) (csl sl : Z) (acts : list nat) : bool :=
  cvrp_feasibleb (base i) csl acts &&
  forallb (route_times_okb (dd i) (lo i) (hi i) (du i) sl 0%nat 0) (routes acts).

Lemma cvrptw_feasibleb_ok i acts : cvrptw_feasibleb i 0 0 acts = true <-> cvrptw_feasible i acts.
Proof.
  unfold cvrptw_feasibleb, cvrptw_feasible. rewrite andb_true_iff, cvrp_feasibleb_ok, forallb_forall, Forall_forall.
  split; intros [H1 H2]; (split; [exact H1|]); intros r Hr; specialize (H2 r Hr);
    unfold tw_route_ok, route_tw_ok in *; apply route_times_okb_ok; exact H2.
Qed.

(* ---------------------------------------------------------------- CVRPTW runs project onto CVRP runs *)
Definition sok (i : cvrptw_inst) (sl : Z) := starts_ok (dd i) (lo i) (hi i) (du i) sl.
Definition dep (i : cvrptw_inst) := depart (dd i) (lo i) (du i).

Lemma reach_exact i s j : reach exact i s j = (time s + dd i (cur (cst s)) j <=? hi i j).
Proof. reflexivity. Qed.

Lemma offered_tw i s a : offered (E:=T) i s a = (offered (E:=C) (base i) (cst s) a && reach exact i s a)%bool.
Proof.
  unfold offered. cbn [mask CVRPTW CVRP]. unfold tw_mask, cvrp_mask. destruct a as [|a]; [reflexivity|]. cbn [nth].
  unfold locs. destruct (Nat.ltb a (n_of (base i))) eqn:El.
  - apply Nat.ltb_lt in El. rewrite !nth_map_seq by exact El. reflexivity.
  - apply Nat.ltb_ge in El. rewrite !nth_overflow by (rewrite map_length, seq_length; exact El). reflexivity.
Qed.

Fixpoint reach_from (i : cvrptw_inst) (s : cvrptw_st) (acts : list nat) : bool :=
  match acts with [] => true | a :: r => reach exact i s a && reach_from i (tw_step exact i s a) r end.

Lemma cst_run_from i acts : forall s, cst (run_from (E:=T) i s acts) = run_from (E:=C) (base i) (cst s) acts.
Proof. induction acts as [|a r IH]; intros s; [reflexivity|]. cbn [run_from]. rewrite IH. reflexivity. Qed.
Lemma cst_run i acts : cst (run (E:=T) i acts) = run (E:=C) (base i) acts.
Proof. apply cst_run_from. Qed.

Lemma adm_from_tw i acts : forall s,
  adm_from (E:=T) i s acts = (adm_from (E:=C) (base i) (cst s) acts && reach_from i s acts)%bool.
Proof.
  induction acts as [|a r IH]; intros s; [reflexivity|]. cbn [adm_from reach_from]. rewrite IH, offered_tw.
  cbn [step CVRPTW CVRP tw_step cst].
  destruct (offered (E:=C) (base i) (cst s) a), (reach exact i s a),
    (adm_from (E:=C) (base i) (cvrp_step exact (base i) (cst s) a) r), (reach_from i (tw_step exact i s a) r); reflexivity.
Qed.
Lemma adm_tw i acts : adm (E:=T) i acts = (adm (E:=C) (base i) acts && reach_from i (tw_reset i) acts)%bool.
Proof. apply adm_from_tw. Qed.
Lemma adm_tw_cvrp i acts : adm (E:=T) i acts = true -> adm (E:=C) (base i) acts = true.
Proof. rewrite adm_tw. intros H. apply andb_prop in H. tauto. Qed.
Lemma done_tw i acts : done T i (run (E:=T) i acts) = done C (base i) (run (E:=C) (base i) acts).
Proof. cbn [done CVRPTW CVRP]. unfold tw_done. rewrite cst_run. reflexivity. Qed.

(* ---------------------------------------------------------------- the clock invariant *)
(* state s whose open route (since the last depot visit) is c, in reverse *)
Record TWI (i : cvrptw_inst) (c : list nat) (s : cvrptw_st) : Prop := {
  twi_cur : cur (cst s) = hd 0%nat c;
  twi_rng : forall x, In x c -> (1 <= x <= tn_of i)%nat;
  twi_time : time s = dep i 0%nat 0 (rev c);
  twi_ok : sok i 0 0%nat 0 (rev c);
}.

Lemma hd_last (c : list nat) : last (rev c) 0%nat = hd 0%nat c.
Proof. destruct c as [|x c]; [reflexivity|]. cbn [rev hd]. apply last_last. Qed.

Lemma reset_twi i : TWI i [] (tw_reset i).
Proof. constructor; cbn; auto. intros x []. Qed.

Lemma tw_step_inv i c s a :
  cvrptw_wf i -> TWI i c s -> reach exact i s a = true -> (a = 0%nat \/ (1 <= a <= tn_of i)%nat) ->
  TWI i (if Nat.eqb a 0 then [] else a :: c) (tw_step exact i s a).
Proof.
  intros Hwf [Hcur Hrng Htime Hok] Hr Ha. destruct (Nat.eqb a 0) eqn:Ea.
  - apply Nat.eqb_eq in Ea. subst a. constructor; cbn; auto. intros x [].
  - apply Nat.eqb_neq in Ea. destruct Ha as [Ha|Ha]; [congruence|].
    rewrite reach_exact in Hr. apply Z.leb_le in Hr.
    constructor; cbn [tw_step cst time cvrp_step cur hd rev]; rewrite ?rnd_exact.
    + reflexivity.
    + intros x [<-|Hx]; [exact Ha | apply Hrng; exact Hx].
    + apply Nat.eqb_neq in Ea. rewrite Ea. unfold dep. rewrite depart_snoc, hd_last, <- Hcur. fold (dep i). rewrite <- Htime. reflexivity.
    + unfold sok. apply starts_ok_snoc. split; [exact Hok|]. rewrite hd_last, <- Hcur. fold (dep i). rewrite <- Htime.
      pose proof (wf_lohi i Hwf a). lia.
Qed.

Lemma offered_tw_range i s a : offered (E:=T) i s a = true -> a = 0%nat \/ (1 <= a <= tn_of i)%nat.
Proof.
  rewrite offered_tw. intros H. apply andb_prop in H as [H _]. destruct a as [|a]; [left; reflexivity|right].
  rewrite offered_loc in H by lia. apply andb_prop in H as [H _]. apply Nat.leb_le in H. unfold tn_of. lia.
Qed.

(* the vehicle of the open route can always go home when every deadline leaves time for the return *)
Lemma reach_depot i c s : cvrptw_wf i -> cvrptw_return i -> TWI i c s -> reach exact i s 0 = true.
Proof.
  intros Hwf Hret [Hcur Hrng Htime Hok]. rewrite reach_exact. apply Z.leb_le. rewrite Hcur, Htime.
  destruct c as [|x c]; cbn [hd rev].
  - cbn. rewrite (wf_d00 i Hwf). pose proof (wf_lohi i Hwf 0%nat). rewrite (wf_lo0 i Hwf) in H. lia.
  - cbn [rev] in Hok. pose proof (depart_le _ _ _ _ _ _ _ _ _ Hok) as Hd. fold (dep i) in Hd.
    assert (Hx : (x <= tn_of i)%nat) by (specialize (Hrng x (or_introl eq_refl)); lia).
    specialize (Hret x Hx). lia.
Qed.

Lemma route_ok_of_twi i c s : TWI i c s -> reach exact i s 0 = true -> tw_route_ok i 0 (rev c).
Proof.
  intros [Hcur Hrng Htime Hok] Hr. rewrite reach_exact in Hr. apply Z.leb_le in Hr.
  unfold tw_route_ok, route_tw_ok. apply route_times_ok_split. split; [exact Hok|].
  rewrite hd_last, <- Hcur. fold (dep i). rewrite <- Htime. lia.
Qed.

(* along an admitted run: every route closed by a depot visit is time-feasible including its return; of the open
   last route [Q] holds, where [Q] is anything the invariant gives *)
Lemma tw_run_sound i (Q : list nat -> Prop) : cvrptw_wf i ->
  (forall c s, TWI i c s -> Q (rev c)) ->
  forall acts c s, TWI i c s -> adm_from (E:=T) i s acts = true ->
  sat_last (tw_route_ok i 0) Q (routes_aux acts c) /\ exists c', TWI i c' (run_from (E:=T) i s acts).
Proof.
  intros Hwf HQ acts. induction acts as [|a r IH]; intros c s HI Hadm; cbn [adm_from run_from routes_aux] in *.
  - split; [cbn; eapply HQ; exact HI | exists c; exact HI].
  - apply andb_prop in Hadm as [Ho Hadm].
    pose proof (offered_tw_range i s a Ho) as Hrng.
    pose proof Ho as Ho'. rewrite offered_tw in Ho'. apply andb_prop in Ho' as [_ Hr].
    pose proof (tw_step_inv i c s a Hwf HI Hr Hrng) as HI'.
    destruct (IH _ _ HI' Hadm) as [HF Hex]. split; [|exact Hex].
    destruct (Nat.eqb a 0) eqn:Ea.
    + apply Nat.eqb_eq in Ea. subst a. apply sat_last_cons; [apply routes_aux_nonempty|].
      split; [eapply route_ok_of_twi; eassumption | exact HF].
    + exact HF.
Qed.

(* ================================================================ C01 *)
Theorem cvrptw_mask_sound i acts :
  cvrptw_wf i -> cvrptw_return i -> adm (E:=T) i acts = true -> done T i (run (E:=T) i acts) = true ->
  cvrptw_feasible i acts.
Proof.
  intros Hwf Hret Hadm Hdone. split.
  - apply cvrp_mask_sound; [exact (wf_base i Hwf) | apply adm_tw_cvrp; exact Hadm | rewrite <- done_tw; exact Hdone].
  - apply sat_last_same. unfold routes.
    apply (tw_run_sound i (tw_route_ok i 0) Hwf) with (s := tw_reset i); [|apply reset_twi | exact Hadm].
    intros c s HI. eapply route_ok_of_twi; [exact HI | eapply reach_depot; eassumption].
Qed.

(* without the format bound "a vehicle can return from every deadline": everything except the return leg of the last
   route (the mask never looks at the return leg before the vehicle is at the customer) *)
Theorem cvrptw_mask_sound_core i acts :
  cvrptw_wf i -> adm (E:=T) i acts = true -> done T i (run (E:=T) i acts) = true ->
  cvrp_feasible (base i) acts /\ sat_last (tw_route_ok i 0) (sok i 0 0%nat 0) (routes acts).
Proof.
  intros Hwf Hadm Hdone. split.
  - apply cvrp_mask_sound; [exact (wf_base i Hwf) | apply adm_tw_cvrp; exact Hadm | rewrite <- done_tw; exact Hdone].
  - unfold routes. apply (tw_run_sound i (sok i 0 0%nat 0) Hwf) with (s := tw_reset i); [|apply reset_twi | exact Hadm].
    intros c s HI. exact (twi_ok _ _ _ HI).
Qed.

Lemma adm_twi i acts : cvrptw_wf i -> adm (E:=T) i acts = true -> exists c, TWI i c (run (E:=T) i acts).
Proof.
  intros Hwf Hadm. destruct (tw_run_sound i (fun _ => True) Hwf (fun _ _ _ => I) acts [] _ (reset_twi i) Hadm) as [_ H]. exact H.
Qed.

(* ================================================================ C02 *)
Theorem cvrptw_step_ok i acts a :
  (0 < tn_of i)%nat -> cvrptw_wf i -> adm (E:=T) i acts = true -> offered (E:=T) i (run (E:=T) i acts) a = true ->
  stepok T i (run (E:=T) i acts) a = true.
Proof.
  intros Hn Hwf Hadm Ho. pose proof (offered_tw_range i _ a Ho) as Hr.
  cbn [stepok CVRPTW]. unfold tw_stepok, cvrp_stepok. rewrite (wf_llo i Hwf), (wf_lhi i Hwf), (wf_ldu i Hwf).
  unfold tn_of in *. rewrite !andb_true_iff, !Nat.ltb_lt, Nat.leb_le. lia.
Qed.

Theorem cvrptw_no_dead_end i acts :
  cvrptw_wf i -> cvrptw_solvable i -> adm (E:=T) i acts = true -> anyb (mask T i (run (E:=T) i acts)) = true.
Proof.
  intros Hwf Hsol Hadm. destruct (adm_twi i acts Hwf Hadm) as [c HI].
  set (s := run (E:=T) i acts) in *.
  pose proof (reach_depot i c s Hwf (sv_return i Hsol) HI) as Hr0.
  cbn [mask CVRPTW]. unfold tw_mask, anyb. cbn [existsb]. rewrite Hr0, andb_true_r.
  destruct (mask_depot exact (base i) (cst s)) eqn:Ed; [|reflexivity]. cbn [negb orb].
  (* the depot is masked by the CVRP rule: we are at the depot (so the clock is 0) and some customer is still servable *)
  unfold mask_depot in Ed. apply andb_prop in Ed as [Hc0 Hex]. apply Nat.eqb_eq in Hc0.
  apply existsb_exists in Hex as (j & Hj & Hjm). apply existsb_exists.
  exists true. split; [|reflexivity]. apply in_map_iff. exists j. split; [|exact Hj].
  rewrite Hjm. cbn [andb]. rewrite reach_exact. apply Z.leb_le.
  destruct HI as [Hcur Hrng Htime _].
  assert (Hc : c = []).
  { destruct c as [|x c]; [reflexivity|]. cbn [hd] in Hcur. specialize (Hrng x (or_introl eq_refl)). lia. }
  subst c. rewrite Htime, Hc0. cbn. unfold locs in Hj. apply in_seq in Hj.
  apply (sv_reach i Hsol). unfold tn_of. lia.
Qed.

Theorem cvrptw_done_stable i acts a :
  cvrptw_wf i -> adm (E:=T) i (acts ++ [a]) = true -> done T i (run (E:=T) i acts) = true ->
  done T i (run (E:=T) i (acts ++ [a])) = true.
Proof.
  intros Hwf Hadm Hd. rewrite done_tw in *. apply cvrp_done_stable; [exact (wf_base i Hwf) | apply adm_tw_cvrp; exact Hadm | exact Hd].
Qed.

Theorem cvrptw_bound i acts :
  cvrptw_wf i -> cvrptw_solvable i -> adm (E:=T) i acts = true ->
  (forall p q, acts = p ++ q -> q <> [] -> done T i (run (E:=T) i p) = false) ->
  (length acts <= 2 * tn_of i + 1)%nat.
Proof.
  intros Hwf Hsol Hadm Hnd. unfold tn_of.
  apply cvrp_bound; [exact (wf_base i Hwf) | exact (sv_base i Hsol) | apply adm_tw_cvrp; exact Hadm |].
  intros p q Hpq Hq. rewrite <- done_tw. exact (Hnd p q Hpq Hq).
Qed.

(* ================================================================ C03 *)
(* _get_reward is inherited from CVRPEnv *)
Definition cvrptw_reward (i : cvrptw_inst) (acts : list nat) : Z := cvrp_reward (base i) acts.
Definition cvrptw_objective (i : cvrptw_inst) (acts : list nat) : Z := cvrp_objective (base i) acts.
Theorem cvrptw_reward_is_objective i acts : dd i 0%nat 0%nat = 0 -> cvrptw_reward i acts = cvrptw_objective i acts.
Proof. intros H. apply cvrp_reward_is_objective. exact H. Qed.

(* ================================================================ C04 *)
Lemma map_and_false (f g : nat -> bool) l :
  map f l = repeat false (length l) -> map (fun j => f j && g j) l = repeat false (length l).
Proof.
  induction l as [|x l IH]; [reflexivity|]. cbn [map length repeat]. intros H.
  assert (H1 : f x = false) by congruence. assert (H2 : map f l = repeat false (length l)) by congruence.
  rewrite H1. cbn [andb]. f_equal. apply IH. exact H2.
Qed.

Lemma reach_from_zeros i k : cvrptw_wf i -> cvrptw_return i -> forall c s, TWI i c s ->
  reach_from i s (repeat 0%nat k) = true.
Proof.
  intros Hwf Hret. induction k as [|k IH]; intros c s HI; [reflexivity|]. cbn [repeat reach_from].
  pose proof (reach_depot i c s Hwf Hret HI) as Hr. rewrite Hr. cbn [andb].
  apply (IH []). apply (tw_step_inv i c s 0%nat Hwf HI Hr). left. reflexivity.
Qed.

Theorem cvrptw_padding_inert i acts k :
  cvrptw_wf i -> cvrptw_return i -> adm (E:=T) i acts = true -> done T i (run (E:=T) i acts) = true ->
  let pad := repeat 0%nat k in
  adm (E:=T) i (acts ++ pad) = true /\
  done T i (run (E:=T) i (acts ++ pad)) = true /\
  mask T i (run (E:=T) i (acts ++ pad)) = true :: repeat false (tn_of i) /\
  (dd i 0%nat 0%nat = 0 -> cvrptw_reward i (acts ++ pad) = cvrptw_reward i acts).
Proof.
  intros Hwf Hret Hadm Hd. cbv zeta.
  pose proof (adm_tw_cvrp i acts Hadm) as HadmC. rewrite done_tw in Hd.
  destruct (cvrp_padding_inert (base i) acts k (wf_base i Hwf) HadmC Hd) as (P1 & P2 & P3 & P4).
  destruct (adm_twi i acts Hwf Hadm) as [c HI].
  assert (A1 : adm (E:=T) i (acts ++ repeat 0%nat k) = true).
  { rewrite adm_app, Hadm. cbn [andb]. rewrite adm_from_tw. rewrite cst_run. rewrite adm_app in P1. apply andb_prop in P1 as [_ P1].
    rewrite P1. cbn [andb]. eapply reach_from_zeros; eassumption. }
  split; [exact A1|]. split; [rewrite done_tw; exact P2|]. split; [|exact P4].
  destruct (adm_twi i _ Hwf A1) as [c' HI'].
  pose proof (reach_depot i c' _ Hwf Hret HI') as Hr.
  cbn [mask CVRPTW]. unfold tw_mask. rewrite cst_run. cbn [mask CVRP] in P3. unfold cvrp_mask in P3.
  inversion P3 as [[Q1 Q2]]. rewrite Q1, Hr. cbn [andb]. f_equal. unfold tn_of.
  assert (L : length (locs (base i)) = n_of (base i)) by (unfold locs; apply seq_length).
  rewrite <- L in Q2 |- *.
  exact (map_and_false (fun j => negb (mask_loc exact (base i) (run (E:=C) (base i) (acts ++ repeat 0%nat k)) j))
                       (fun j => reach exact i (run (E:=T) i (acts ++ repeat 0%nat k)) j) _ Q2).
Qed.

(* ================================================================ C05 *)
Lemma hd_rev (r : list nat) : hd 0%nat (rev r) = last r 0%nat.
Proof. rewrite <- hd_last, rev_involutive. reflexivity. Qed.

(* driving a vehicle along a route whose services all start in time: every customer is reachable in time *)
Lemma reach_route i : cvrptw_wf i -> forall r c s,
  TWI i c s -> sok i 0 0%nat 0 (rev c ++ r) -> (forall x, In x r -> (1 <= x <= tn_of i)%nat) ->
  reach_from i s r = true /\ TWI i (rev r ++ c) (run_from (E:=T) i s r).
Proof.
  intros Hwf r. induction r as [|x r IH]; intros c s HI Hok Hrng.
  - split; [reflexivity | exact HI].
  - cbn [reach_from run_from].
    assert (Hr : reach exact i s x = true).
    { replace (rev c ++ x :: r) with ((rev c ++ [x]) ++ r) in Hok by (rewrite <- app_assoc; reflexivity).
      apply starts_ok_app_l in Hok. apply starts_ok_snoc in Hok as [_ Hx].
      rewrite reach_exact. apply Z.leb_le. rewrite (twi_cur _ _ _ HI), (twi_time _ _ _ HI), <- hd_last. unfold dep. lia. }
    pose proof (tw_step_inv i c s x Hwf HI Hr (or_intror (Hrng x (or_introl eq_refl)))) as HI'.
    replace (Nat.eqb x 0) with false in HI' by (symmetry; apply Nat.eqb_neq; specialize (Hrng x (or_introl eq_refl)); lia).
    destruct (IH (x :: c) _ HI') as [Ha HI''].
    + cbn [rev]. rewrite <- app_assoc. exact Hok.
    + intros y Hy. apply Hrng. right. exact Hy.
    + cbn [step CVRPTW]. rewrite Hr, Ha. split; [reflexivity|]. cbn [rev]. rewrite <- app_assoc. exact HI''.
Qed.

Lemma reach_routes i : cvrptw_wf i -> forall rs s,
  TWI i [] s -> Forall (tw_route_ok i 0) rs -> (forall x, In x (concat rs) -> (1 <= x <= tn_of i)%nat) ->
  reach_from i s (encode_routes rs) = true.
Proof.
  intros Hwf rs. induction rs as [|r rs IH]; intros s HI Hok Hrng; [reflexivity|].
  unfold encode_routes. cbn [map concat]. fold (encode_routes rs).
  inversion Hok as [|? ? Hr Hok']; subst. unfold tw_route_ok, route_tw_ok in Hr. apply route_times_ok_split in Hr as [Hs Hret].
  destruct (reach_route i Hwf r [] s HI) as [Ha HI1]; [exact Hs | intros x Hx; apply Hrng; cbn [concat]; apply in_app_iff; left; exact Hx |].
  rewrite app_nil_r in HI1.
  assert (G : forall a b s0, reach_from i s0 (a ++ b) = (reach_from i s0 a && reach_from i (run_from (E:=T) i s0 a) b)%bool).
  { induction a as [|y a IHa]; intros b s0; [reflexivity|]. cbn [app reach_from run_from]. rewrite IHa, andb_assoc. reflexivity. }
  rewrite <- app_assoc, G, Ha. cbn [andb app reach_from].
  set (s1 := run_from (E:=T) i s r) in *.
  assert (Hr0 : reach exact i s1 0 = true).
  { rewrite reach_exact. apply Z.leb_le. rewrite (twi_cur _ _ _ HI1), (twi_time _ _ _ HI1), hd_rev, rev_involutive. unfold dep. lia. }
  rewrite Hr0. cbn [andb]. apply IH; [|exact Hok'|].
  - apply (tw_step_inv i _ s1 0%nat Hwf HI1 Hr0). left. reflexivity.
  - intros x Hx. apply Hrng. cbn [concat]. apply in_app_iff. right. exact Hx.
Qed.

(* every solution of the problem -- non-empty routes partitioning the customers, each within capacity and
   time-feasible (deadlines met with equality allowed, return by the depot deadline) -- is admitted in its canonical
   encoding *)
Theorem cvrptw_mask_complete i rs :
  cvrptw_wf i -> cvrp_feasible_routes (base i) rs -> Forall (tw_route_ok i 0) rs ->
  adm (E:=T) i (encode_routes rs) = true /\
  done T i (run (E:=T) i (encode_routes rs)) = true /\
  routes (encode_routes rs) = rs ++ [[]].
Proof.
  intros Hwf Hf Htw. destruct (cvrp_mask_complete (base i) rs (wf_base i Hwf) Hf) as (A1 & A2 & A3).
  split; [|split; [rewrite done_tw; exact A2 | exact A3]].
  rewrite adm_tw, A1. cbn [andb]. apply reach_routes; [exact Hwf | apply reset_twi | exact Htw|].
  destruct Hf as (_ & _ & _ & Hin & _). intros x Hx. apply Hin in Hx. unfold tn_of. exact Hx.
Qed.

Lemma cvrptw_mask_complete_unfolded :
  forall (i : cvrptw_inst) (rs : list (list nat)),
    cvrptw_wf i ->
    rs <> [] -> Forall (fun r => r <> []) rs -> NoDup (concat rs) ->
    (forall x, In x (concat rs) <-> (1 <= x <= tn_of i)%nat) ->
    Forall (fun r => sumZ (map (demand (base i)) r) <= cap (base i)) rs ->
    Forall (fun r => route_times_ok (dd i) (lo i) (hi i) (du i) 0 0%nat 0 r) rs ->
    adm (E:=T) i (encode_routes rs) = true /\
    done T i (run (E:=T) i (encode_routes rs)) = true /\
    routes (encode_routes rs) = rs ++ [[]].
Proof.
  intros i rs Hwf H1 H2 H3 H4 H5 H6. apply cvrptw_mask_complete; [exact Hwf | | exact H6].
  unfold cvrp_feasible_routes. split; [exact H1|]. split; [exact H2|]. split; [exact H3|]. split; [exact H4 | exact H5].
Qed.

(* ================================================================ C06 *)
Definition tr_id (fx : bool) (i : cvrptw_inst) : Prop := forall x, trunc fx i x = x.
Lemma tr_id_fixed i : tr_id true i.
Proof. intros x. reflexivity. Qed.
Lemma tr_id_integral i : tu i = 1 -> tr_id false i.
Proof. intros H x. unfold trunc. rewrite H, Z.div_1_r. lia. Qed.
Lemma trunc_le fx i x : 0 < tu i -> trunc fx i x <= x.
Proof. intros H. unfold trunc. destruct fx; [lia|]. rewrite Z.mul_comm. apply Z.mul_div_le. exact H. Qed.

Definition cvrptw_strict (i : cvrptw_inst) : Prop :=
  (forall j, (j <= tn_of i)%nat -> lo i j < hi i j) /\ (forall j, (j <= tn_of i)%nat -> dd i 0 j = dd i j 0).
Lemma cvrptw_strictb_ok i : cvrptw_strictb i = true -> cvrptw_strict i.
Proof.
  unfold cvrptw_strictb. rewrite andb_true_iff, !forallb_forall. intros [H1 H2].
  split; intros j Hj; apply nodes_in in Hj; [specialize (H1 j Hj) | specialize (H2 j Hj)]; lia.
Qed.

Notation wtw i sl := (walk_tw_ok (dd i) (lo i) (hi i) (du i) sl).

(* the checker's clock never runs ahead of the true clock (truncation only loses time) *)
Lemma time_ok_complete fx i : cvrptw_wf i -> forall acts from c t,
  c <= t -> wtw i 0 from t acts -> time_ok exact fx i from c acts = true.
Proof.
  intros Hwf acts. induction acts as [|a r IH]; intros from c t Hct Hw; [reflexivity|].
  cbn [time_ok walk_tw_ok] in *. rewrite !rnd_exact.
  pose proof (trunc_le fx i (c + dd i from a) (wf_tu i Hwf)) as Htr.
  destruct (Nat.eqb a 0) eqn:Ea.
  - apply Nat.eqb_eq in Ea. subst a. destruct Hw as [H1 H2]. apply andb_true_intro. split.
    + pose proof (wf_lohi i Hwf 0%nat). lia.
    + apply (IH 0%nat 0 0); [lia | exact H2].
  - destruct Hw as [H1 H2]. apply andb_true_intro. split; [lia|].
    eapply IH; [|exact H2]. lia.
Qed.

Lemma inst_checks_complete fx i :
  cvrptw_wf i -> cvrptw_strict i -> cvrptw_return i -> horizon_used fx i = hi i 0 -> inst_checks exact fx i = true.
Proof.
  intros Hwf [Hst Hsym] Hret Hhz. unfold inst_checks. rewrite !andb_true_iff, !forallb_forall.
  repeat split; intros j Hj; apply nodes_in in Hj; rewrite ?rnd_exact.
  - pose proof (wf_dd i Hwf 0%nat j ltac:(lia) Hj). lia.
  - pose proof (wf_lo i Hwf j). pose proof (wf_lohi i Hwf j). lia.
  - rewrite Hhz. specialize (Hret j Hj). specialize (Hsym j Hj). pose proof (wf_lohi i Hwf j). lia.
  - pose proof (wf_du i Hwf j). lia.
  - specialize (Hst j Hj). lia.
Qed.

(* completeness holds for the checker as coded ([fx = false], with the horizon of row 0 equal to the row's own)
   and for the repaired one *)
Theorem cvrptw_checker_complete fx i acts :
  cvrptw_wf i -> cvrptw_strict i -> cvrptw_return i -> horizon_used fx i = hi i 0 -> 0 <= tol (base i) ->
  cvrptw_feasible i acts -> (tn_of i <= length acts)%nat ->
  cvrptw_checker exact fx i acts = true.
Proof.
  intros Hwf Hst Hret Hhz Htol [Hc Ht] Hlen. unfold cvrptw_checker. rewrite !andb_true_iff. repeat split.
  - apply cvrp_checker_complete; [exact (wf_base i Hwf) | exact Htol | exact Hc | exact Hlen].
  - apply inst_checks_complete; assumption.
  - apply (time_ok_complete fx i Hwf acts 0%nat 0 0); [lia|]. apply walk_tw_ok_routes0. exact Ht.
Qed.

(* soundness of the time simulation when arrival times are NOT truncated: the repaired checker, or integral data *)
Lemma time_ok_sound fx i : tr_id fx i -> cvrptw_wf i -> cvrptw_return i -> forall acts from t,
  (from <= tn_of i)%nat -> t <= hi i from + du i from -> Forall (fun a => (a <= tn_of i)%nat) acts ->
  time_ok exact fx i from t acts = true -> wtw i 0 from t acts.
Proof.
  intros Htr Hwf Hret acts. induction acts as [|a r IH]; intros from t Hfrom Ht Hrng Hok; cbn [time_ok walk_tw_ok] in *.
  - specialize (Hret from Hfrom). lia.
  - rewrite !rnd_exact, Htr in Hok. apply andb_prop in Hok as [H1 H2]. inversion Hrng as [|? ? Ha Hrng']; subst.
    destruct (Nat.eqb a 0) eqn:Ea.
    + apply Nat.eqb_eq in Ea. subst a. split; [lia|].
      apply IH; [lia | | exact Hrng' | exact H2].
      rewrite (wf_du0 i Hwf). pose proof (wf_lohi i Hwf 0%nat). rewrite (wf_lo0 i Hwf) in *. lia.
    + split; [lia|]. apply IH; [exact Ha | lia | exact Hrng' | exact H2].
Qed.

Theorem cvrptw_checker_sound_untruncated fx i acts :
  tr_id fx i -> cvrptw_wf i -> cvrptw_return i -> 0 <= tol (base i) ->
  cvrptw_checker exact fx i acts = true ->
  (forall j, (1 <= j <= tn_of i)%nat -> occ j acts = 1%nat) /\
  (forall a, In a acts -> (a <= tn_of i)%nat) /\
  Forall (fun r => route_load (base i) r <= cap (base i) + tol (base i)) (routes acts) /\
  Forall (tw_route_ok i 0) (routes acts).
Proof.
  intros Htr Hwf Hret Htol Hc. unfold cvrptw_checker in Hc. apply andb_prop in Hc as [Hc Ht]. apply andb_prop in Hc as [Hc _].
  destruct (cvrp_checker_sound (base i) acts (wf_base i Hwf) Htol Hc) as (S1 & S2 & S3).
  repeat split; try assumption.
  apply walk_tw_ok_routes0. apply (time_ok_sound fx i Htr Hwf Hret acts 0%nat 0); [lia | | | exact Ht].
  - rewrite (wf_du0 i Hwf). pose proof (wf_lohi i Hwf 0%nat). rewrite (wf_lo0 i Hwf) in *. lia.
  - apply Forall_forall. exact S2.
Qed.

(* the repaired checker: sound, with tolerance only on the load (the constant 1e-5 it uses there) *)
Corollary cvrptw_checker_fixed_sound i acts :
  cvrptw_wf i -> cvrptw_return i -> 0 <= tol (base i) -> cvrptw_checker exact true i acts = true ->
  (forall j, (1 <= j <= tn_of i)%nat -> occ j acts = 1%nat) /\
  (forall a, In a acts -> (a <= tn_of i)%nat) /\
  Forall (fun r => route_load (base i) r <= cap (base i) + tol (base i)) (routes acts) /\
  Forall (tw_route_ok i 0) (routes acts).
Proof. apply cvrptw_checker_sound_untruncated. apply tr_id_fixed. Qed.

(* the checker as coded is sound on integral data (time unit = grid unit: .int() is the identity) *)
Corollary cvrptw_checker_sound_integral i acts :
  tu i = 1 -> cvrptw_wf i -> cvrptw_return i -> 0 <= tol (base i) -> cvrptw_checker exact false i acts = true ->
  (forall j, (1 <= j <= tn_of i)%nat -> occ j acts = 1%nat) /\
  (forall a, In a acts -> (a <= tn_of i)%nat) /\
  Forall (fun r => route_load (base i) r <= cap (base i) + tol (base i)) (routes acts) /\
  Forall (tw_route_ok i 0) (routes acts).
Proof. intros H. apply cvrptw_checker_sound_untruncated. apply tr_id_integral. exact H. Qed.

(* what remains true of the checker as coded on arbitrary data: the CVRP part *)
Theorem cvrptw_checker_sound_cvrp_part fx i acts :
  cvrptw_wf i -> 0 <= tol (base i) -> cvrptw_checker exact fx i acts = true ->
  (forall j, (1 <= j <= tn_of i)%nat -> occ j acts = 1%nat) /\
  (forall a, In a acts -> (a <= tn_of i)%nat) /\
  Forall (fun r => route_load (base i) r <= cap (base i) + tol (base i)) (routes acts).
Proof.
  intros Hwf Htol Hc. unfold cvrptw_checker in Hc. apply andb_prop in Hc as [Hc _]. apply andb_prop in Hc as [Hc _].
  exact (cvrp_checker_sound (base i) acts (wf_base i Hwf) Htol Hc).
Qed.

(* fault kinds *)
Corollary cvrptw_checker_rejects_missing fx i acts j :
  (1 <= j <= tn_of i)%nat -> ~ In j acts -> cvrptw_checker exact fx i acts = false.
Proof. intros Hj Hn. unfold cvrptw_checker. rewrite (cvrp_checker_rejects_missing (base i) acts j Hj Hn). reflexivity. Qed.
Corollary cvrptw_checker_rejects_duplicate fx i acts j :
  (1 <= j <= tn_of i)%nat -> (2 <= occ j acts)%nat -> cvrptw_checker exact fx i acts = false.
Proof. intros Hj Hn. unfold cvrptw_checker. rewrite (cvrp_checker_rejects_duplicate (base i) acts j Hj Hn). reflexivity. Qed.
Corollary cvrptw_checker_rejects_overload fx i acts r :
  cvrptw_wf i -> 0 <= tol (base i) -> In r (routes acts) -> cap (base i) + tol (base i) < route_load (base i) r ->
  cvrptw_checker exact fx i acts = false.
Proof.
  intros Hwf Htol Hr Hl. unfold cvrptw_checker. rewrite (cvrp_checker_rejects_overload (base i) acts r (wf_base i Hwf) Htol Hr Hl). reflexivity.
Qed.
Corollary cvrptw_checker_rejects_missed_window fx i acts r :
  tr_id fx i -> cvrptw_wf i -> cvrptw_return i -> 0 <= tol (base i) -> In r (routes acts) -> ~ tw_route_ok i 0 r ->
  cvrptw_checker exact fx i acts = false.
Proof.
  intros Htr Hwf Hret Htol Hr Hn. apply not_true_iff_false. intros Hc.
  destruct (cvrptw_checker_sound_untruncated fx i acts Htr Hwf Hret Htol Hc) as (_ & _ & _ & HF).
  rewrite Forall_forall in HF. exact (Hn (HF r Hr)).
Qed.

(* ---------------------------------------------------------------- the checker AS CODED is not sound *)
Definition cvrptw_checker_sound_as_coded : Prop :=
  forall i acts, cvrptw_wf i -> cvrptw_return i -> hz0 i = hi i 0 -> 0 <= tol (base i) ->
    cvrptw_checker exact false i acts = true ->
    (forall j, (1 <= j <= tn_of i)%nat -> occ j acts = 1%nat) /\
    (forall a, In a acts -> (a <= tn_of i)%nat) /\
    Forall (fun r => route_load (base i) r <= cap (base i) + tol (base i)) (routes acts) /\
    Forall (tw_route_ok i 0) (routes acts).

(* DESIGN section 8: depot (0,0), customer at distance 5.408, window [0,5]; one time unit = 1000 grid units.
   The arrival time 5.408 is truncated to 5 <= 5. *)
Definition witness_trunc : cvrptw_inst :=
  {| base := {| dem := [500]; cap := 1000; dist := [[0; 5408]; [5408; 0]]; tol := 0 |};
     twlo := [0; 0]; twhi := [100000; 5000]; durs := [0; 0]; tu := 1000; hz0 := 100000; tsl := 0 |}.

Theorem cvrptw_checker_sound_refuted : ~ cvrptw_checker_sound_as_coded.
Proof.
  intros H. specialize (H witness_trunc [1; 0]%nat).
  destruct H as (_ & _ & _ & HF).
  - apply cvrptw_wfb_ok. vm_compute. reflexivity.
  - apply cvrptw_returnb_ok. vm_compute. reflexivity.
  - reflexivity.
  - cbn. lia.
  - vm_compute. reflexivity.
  - inversion HF as [|? ? H1 _]; subst. unfold tw_route_ok, route_tw_ok in H1. cbn in H1. lia.
Qed.

(* the late service is not a rounding matter: it is late by 0.408 time units, and the mask (rightly) refuses it *)
Example witness_trunc_facts :
  cvrptw_wfb witness_trunc = true /\ cvrptw_returnb witness_trunc = true /\ cvrptw_strictb witness_trunc = true /\
  cvrptw_checker exact false witness_trunc [1; 0]%nat = true /\
  cvrptw_checker exact true witness_trunc [1; 0]%nat = false /\
  cvrptw_feasibleb witness_trunc 0 400 [1; 0]%nat = false /\
  mask T witness_trunc (tw_reset witness_trunc) = [false; false].
Proof. vm_compute. repeat split; reflexivity. Qed.

(* the checker as coded reads the horizon of batch row 0 for every row: a feasible solution of a row with a later
   horizon is rejected next to a row 0 with an earlier one (the repaired checker accepts it) *)
Definition witness_row0 : cvrptw_inst :=
  {| base := {| dem := [500]; cap := 1000; dist := [[0; 3000]; [3000; 0]]; tol := 0 |};
     twlo := [0; 5000]; twhi := [20000; 9000]; durs := [0; 0]; tu := 1000; hz0 := 7000; tsl := 0 |}.
Theorem cvrptw_checker_row0_horizon_refuted :
  exists i acts, cvrptw_wfb i = true /\ cvrptw_returnb i = true /\ cvrptw_strictb i = true /\
    cvrptw_feasibleb i 0 0 acts = true /\ hz0 i <> hi i 0 /\
    cvrptw_checker exact false i acts = false /\ cvrptw_checker exact true i acts = true.
Proof. exists witness_row0, [1; 0]%nat. vm_compute. repeat split; try reflexivity. discriminate. Qed.

(* ---------------------------------------------------------------- why the hypotheses are there *)
(* C02 without "reachable from the depot": the CVRP rule masks the depot (a customer still fits), the clock masks the
   customer: dead end at reset *)
Example cvrptw_dead_end_without_solvable :
  cvrptw_wfb witness_trunc = true /\ cvrptw_solvableb witness_trunc = false /\
  anyb (mask T witness_trunc (run (E:=T) witness_trunc [])) = false.
Proof. vm_compute. repeat split; reflexivity. Qed.

(* C01/C02/C04 without "a vehicle can return from every deadline": the episode ends at customer 2, the return leg is
   late, and the finished row is offered nothing *)
Definition witness_noreturn : cvrptw_inst :=
  {| base := {| dem := [500; 500]; cap := 1000; dist := [[0; 1000; 3000]; [1000; 0; 3000]; [3000; 3000; 0]]; tol := 0 |};
     twlo := [0; 0; 0]; twhi := [5000; 3000; 4000]; durs := [0; 0; 0]; tu := 1000; hz0 := 5000; tsl := 0 |}.
Example cvrptw_late_final_return_without_returnable :
  cvrptw_wfb witness_noreturn = true /\ cvrptw_returnb witness_noreturn = false /\
  adm (E:=T) witness_noreturn [1; 0; 2]%nat = true /\ done T witness_noreturn (run (E:=T) witness_noreturn [1; 0; 2]%nat) = true /\
  cvrptw_feasibleb witness_noreturn 0 0 [1; 0; 2]%nat = false /\
  anyb (mask T witness_noreturn (run (E:=T) witness_noreturn [1; 0; 2]%nat)) = false.
Proof. vm_compute. repeat split; reflexivity. Qed.
