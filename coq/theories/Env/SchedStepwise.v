(* Env/SchedStepwise.v -- FJSPEnv / JSSPEnv constructed with stepwise_reward = True.

   rl4co/envs/scheduling/fjsp/env.py, _step (the only place the flag is read besides _get_reward):
       lbs = calc_lower_bound(td)
       td["reward"] = -(lbs.max(1).values - td["lbs"].max(1).values)       # td["lbs"]: the bounds of the previous state
       td["lbs"] = lbs
   and _reset stores td["lbs"] = calc_lower_bound(td_reset).  The step reward is the DECREASE of a per-state potential
   (the largest lower bound on an operation's finish time).  calc_lower_bound (fjsp/utils.py: float means of the
   processing times over the eligible machines, waiting offsets against busy_until, the 9999 marker of unscheduled
   operations, a cumulative sum over first differences of finish times) is not modelled here; C03's statement for this
   mode does not depend on what the bound is in the middle of an episode, only on
       (a) the step reward being minus the change of the potential, and
       (b) the potential of the final state being the makespan  (calc_lower_bound's own assert: LB = finish time for
           every scheduled operation, and in a finished row every real operation is scheduled).
   So the theorem is proved for ANY potential  LB : st -> Z : along every mask-confined episode of the row model
       LB(reset) - sum of the step rewards = LB(final state),
   hence = the makespan of the (valid) induced schedule whenever LB(final) is that makespan.  (a) and (b) for the real
   calc_lower_bound are tied on every run by the correspondence (Harness/HC07_fjsp.v check_stepwise). *)
From Coq Require Import ZArith List Bool Lia Arith.
From RL4CO Require Import Spec.Schedule Env.FJSP Env.FJSPProofs.
Import ListNotations.
Local Open Scope Z_scope.

Fixpoint zsum (l : list Z) : Z := match l with [] => 0 | x :: r => x + zsum r end.

Lemma last_cons {A} (l : list A) : forall (x d : A), last (x :: l) d = last l x.
Proof.
  induction l as [|y l IH]; intros x d; [reflexivity|].
  change (last (x :: y :: l) d) with (last (y :: l) d). rewrite (IH y d), (IH y x). reflexivity.
Qed.

(* ---------------------------------------------------------------- any potential, any state space *)
Section Potential.
  Variable State : Type.
  Variable LB : State -> Z.
  (* td["reward"] after the step that leads from s to s' *)
  Definition sw_reward (s s' : State) : Z := - (LB s' - LB s).
  (* the rewards along the trajectory s -> tr_1 -> tr_2 -> ... *)
  Fixpoint sw_rewards (s : State) (tr : list State) : list Z :=
    match tr with [] => [] | s' :: r => sw_reward s s' :: sw_rewards s' r end.

  Theorem sw_telescope : forall (tr : list State) (s : State), LB s - zsum (sw_rewards s tr) = LB (last tr s).
  Proof.
    induction tr as [|s' r IH]; intros s.
    - cbn. lia.
    - rewrite last_cons. cbn [sw_rewards zsum]. specialize (IH s'). unfold sw_reward. lia.
  Qed.

  Lemma sw_rewards_length : forall tr s, length (sw_rewards s tr) = length tr.
  Proof. induction tr as [|s' r IH]; intros s; cbn [sw_rewards length]; [reflexivity|]. rewrite IH. reflexivity. Qed.
End Potential.

(* ---------------------------------------------------------------- the states an episode goes through *)
Section Trace.
  Variable State : Type.
  Variable stp : State -> nat -> option State.
  Fixpoint g_run (s : State) (acts : list nat) : option State :=
    match acts with [] => Some s | a :: r => match stp s a with Some s' => g_run s' r | None => None end end.
  Fixpoint g_trace (s : State) (acts : list nat) : option (list State) :=
    match acts with
    | [] => Some []
    | a :: r => match stp s a with
                | Some s' => match g_trace s' r with Some t => Some (s' :: t) | None => None end
                | None => None
                end
    end.
  Lemma g_trace_run : forall acts s s', g_run s acts = Some s' ->
    exists tr, g_trace s acts = Some tr /\ length tr = length acts /\ last tr s = s'.
  Proof.
    induction acts as [|a r IH]; intros s s' H; cbn [g_run g_trace] in *.
    - inversion H; subst. exists []. repeat split.
    - destruct (stp s a) as [s1|]; [|discriminate]. destruct (IH s1 s' H) as (t & Ht & Hl & Hs).
      exists (s1 :: t). rewrite Ht. repeat split; [cbn; lia|]. rewrite last_cons. exact Hs.
  Qed.
End Trace.

(* the states after each step of an episode of the row model: FJSPEnv, JSSPEnv *)
Definition trace (cfg : bool) (i : inst) := g_trace st (step cfg i).
Definition jssp_trace (cfg : bool) (i : inst) := g_trace st (jssp_step cfg i).
Lemma run_g cfg i : forall acts s, run cfg i s acts = g_run st (step cfg i) s acts.
Proof. induction acts as [|a r IH]; intros s; cbn [run g_run]; [reflexivity|]. destruct (step cfg i s a); [apply IH|reflexivity]. Qed.
Lemma jssp_run_g cfg i : forall acts s, jssp_run cfg i s acts = g_run st (jssp_step cfg i) s acts.
Proof. induction acts as [|a r IH]; intros s; cbn [jssp_run g_run]; [reflexivity|]. destruct (jssp_step cfg i s a); [apply IH|reflexivity]. Qed.

(* ---------------------------------------------------------------- C03 for stepwise_reward = True *)
Theorem fjsp_stepwise_telescopes (LB : st -> Z) cfg i acts :
  wfb i = true -> solvableb i = true -> admb cfg i (reset i) acts = true ->
  exists (tr : list st) (s : st),
    trace cfg i (reset i) acts = Some tr /\ length tr = length acts /\ last tr (reset i) = s /\
    run cfg i (reset i) acts = Some s /\
    LB (reset i) - zsum (sw_rewards st LB (reset i) tr) = LB s /\
    (done s = true ->
     exists mk, reward i s = Some (- mk) /\ valid_schedule (sinst_of i) (schedule_of s) mk /\
       (LB s = mk -> LB (reset i) - zsum (sw_rewards st LB (reset i) tr) = mk)).
Proof.
  intros Hw Sv Ha. destruct (FJSP_valid cfg i acts Hw Sv Ha) as (s & Hr & Hd).
  pose proof Hr as Hg. rewrite run_g in Hg. destruct (g_trace_run st (step cfg i) acts (reset i) s Hg) as (tr & Ht & Hl & Hs).
  exists tr, s. do 4 (split; [assumption|]). split.
  - rewrite sw_telescope, Hs. reflexivity.
  - intros D. destruct (Hd D) as (mk & Hm & Hv). exists mk. split; [exact Hm|]. split; [exact Hv|].
    intros E. rewrite sw_telescope, Hs. exact E.
Qed.

Theorem jssp_stepwise_telescopes (LB : st -> Z) cfg i acts :
  wfb i = true -> jssp_wfb i = true -> jssp_admb cfg i (reset i) acts = true ->
  exists (tr : list st) (s : st),
    jssp_trace cfg i (reset i) acts = Some tr /\ length tr = length acts /\ last tr (reset i) = s /\
    jssp_run cfg i (reset i) acts = Some s /\
    LB (reset i) - zsum (sw_rewards st LB (reset i) tr) = LB s /\
    (done s = true ->
     exists mk, reward i s = Some (- mk) /\ valid_schedule (sinst_of i) (schedule_of s) mk /\
       (LB s = mk -> LB (reset i) - zsum (sw_rewards st LB (reset i) tr) = mk)).
Proof.
  intros Hw Jw Ha. destruct (JSSP_valid cfg i acts Hw Jw Ha) as (s & Hr & Hd).
  pose proof Hr as Hg. rewrite jssp_run_g in Hg. destruct (g_trace_run st (jssp_step cfg i) acts (reset i) s Hg) as (tr & Ht & Hl & Hs).
  exists tr, s. do 4 (split; [assumption|]). split.
  - rewrite sw_telescope, Hs. reflexivity.
  - intros D. destruct (Hd D) as (mk & Hm & Hv). exists mk. split; [exact Hm|]. split; [exact Hv|].
    intros E. rewrite sw_telescope, Hs. exact E.
Qed.

(* post-finish padding steps leave a finished row where it is, so their step rewards are 0 whatever the potential *)
Theorem fjsp_stepwise_padding_reward_zero (LB : st -> Z) cfg i s a :
  done s = true -> exists s', step cfg i s a = Some s' /\ sw_reward st LB s s' = 0.
Proof. intros D. exists s. split; [apply FJSP_done_stable; exact D|]. unfold sw_reward. lia. Qed.

(* ---------------------------------------------------------------- a concrete potential with LB(final) = makespan, for the
   example: per operation its finish time once scheduled, before that its cheapest processing time over the eligible
   machines; the maximum over the real operations (a lower bound on the makespan; in a finished row the makespan). *)
Definition ex_LB (i : inst) (s : st) : Z :=
  fold_left Z.max (map (fun o => if sched s o then fin s o else
                                   fold_left Z.min (filter (fun p => 0 <? p) (map (fun m => P i m o) (seq 0 (nM i)))) 1000000)
                       (seq 0 (total_ops i))) 0.
Example stepwise_example :
  wfb ex_i = true /\ solvableb ex_i = true /\ admb true ex_i (reset ex_i) [1; 4; 2; 0]%nat = true /\
  match trace true ex_i (reset ex_i) [1; 4; 2; 0]%nat with
  | Some tr => map (ex_LB ex_i) (reset ex_i :: tr) = [3; 3; 3; 5; 5] /\
               sw_rewards st (ex_LB ex_i) (reset ex_i) tr = [0; 0; -2; 0] /\
               ex_LB ex_i (reset ex_i) - zsum (sw_rewards st (ex_LB ex_i) (reset ex_i) tr) = 5 /\
               reward ex_i (last tr (reset ex_i)) = Some (-5)
  | None => False
  end.
Proof. vm_compute. repeat split; reflexivity. Qed.
