(* Env/SchedBatch2.v -- FFSP and SMTWTP under C02 / C03 / C04: what Env/FFSPProofs.v and Env/SMTWTP.v do not state.

   FFSP   Part A  padding: any number of post-finish steps (all of them are the wait action) keep done, schedule, reward
          Part B  FFSPEnv._step on a batch, literally: `if td["done"].all(): pass else: move; update` and the reward
                  written under `if td["done"].all()`; IndexTables.get_machine_index(idx, .) = table[idx // bs]
          Part C  episode length: real-job actions = J*S exactly at the end; every step of an unfinished row moves the
                  clock (time_idx, sub_time_idx) strictly forward; J*S*(1+M) is NOT a bound (witness)
   SMTWTP Part D  no dead end before done, exactly n steps, all rows of a batch finish together, no padding possible *)
From Coq Require Import ZArith List Bool Lia ZifyBool Arith Permutation.
From RL4CO Require Import Base.FFSPLists Spec.FlowShop Env.FFSP Env.FFSPProofs Env.SMTWTP.
Import ListNotations.
Import FFSP FFSPProofs.
Open Scope Z_scope.

(* ================================================================ generic *)
Fixpoint all_some {A} (l : list (option A)) : option (list A) :=
  match l with
  | [] => Some []
  | None :: _ => None
  | Some x :: r => match all_some r with Some t => Some (x :: t) | None => None end
  end.
Lemma all_some_map {A B} (f : A -> option B) (g : A -> B) l :
  (forall x, In x l -> f x = Some (g x)) -> all_some (map f l) = Some (map g l).
Proof.
  induction l as [|x r IH]; intros H; cbn; [reflexivity|].
  rewrite (H x (or_introl eq_refl)). rewrite IH; [reflexivity|]. intros y Hy. apply H. right. exact Hy.
Qed.

(* ================================================================ Part A: padding *)
Lemma ffsp_run_app i a b : forall s, run i s (a ++ b) = match run i s a with Some s1 => run i s1 b | None => None end.
Proof. induction a as [|x a IH]; intros s; cbn [app run]; [reflexivity|]. destruct (step i s x); [apply IH|reflexivity]. Qed.
Lemma ffsp_adm_app i a b : forall s, adm i s (a ++ b) = true ->
  adm i s a = true /\ exists s1, run i s a = Some s1 /\ adm i s1 b = true.
Proof.
  induction a as [|x a IH]; intros s H; cbn [app adm run] in *.
  - split; [reflexivity|]. exists s. split; [reflexivity|exact H].
  - apply andb_prop in H as [H1 H2]. rewrite H1. destruct (step i s x) as [s1|]; [|discriminate].
    cbn [andb]. apply IH. exact H2.
Qed.
Lemma ffsp_adm_app_r i a b : forall s s1, adm i s a = true -> run i s a = Some s1 -> adm i s1 b = true -> adm i s (a ++ b) = true.
Proof.
  induction a as [|x a IH]; intros s s1 Ha Hr Hb; cbn [app adm run] in *.
  - inversion Hr; subst. exact Hb.
  - apply andb_prop in Ha as [H1 H2]. rewrite H1. destruct (step i s x) as [s2|]; [|discriminate]. cbn [andb].
    apply (IH s2 s1); assumption.
Qed.

Theorem ffsp_padding_frozen i : wfb i = true -> forall pad acts s,
  adm i (reset i) (acts ++ pad) = true -> run i (reset i) acts = Some s -> done s = true ->
  pad = repeat (nJ i) (length pad) /\
  exists s', run i (reset i) (acts ++ pad) = Some s' /\ done s' = true /\
    schedule_of i s' = schedule_of i s /\ reward_of i s' = reward_of i s.
Proof.
  intros Hwf. induction pad as [|a r IH]; intros acts s Hadm Hr Hd.
  - split; [reflexivity|]. exists s. rewrite app_nil_r. auto.
  - replace (acts ++ a :: r) with ((acts ++ [a]) ++ r) in * by (rewrite <- app_assoc; reflexivity).
    destruct (ffsp_adm_app i (acts ++ [a]) r _ Hadm) as [Ha1 _].
    destruct (done_frozen i acts a Hwf Ha1 s Hr Hd) as (Ea & s1 & Hs1 & Hd1 & Hsch1 & Hrw1).
    assert (Hr1 : run i (reset i) (acts ++ [a]) = Some s1) by (rewrite ffsp_run_app, Hr; cbn [run]; rewrite Hs1; reflexivity).
    destruct (IH (acts ++ [a]) s1 Hadm Hr1 Hd1) as (Epad & s' & Hr' & Hd' & Hsch' & Hrw').
    split; [cbn [length repeat]; rewrite Ea at 1; f_equal; exact Epad|].
    exists s'. split; [exact Hr'|]. split; [exact Hd'|]. split; congruence.
Qed.

(* and the padding a finished row can receive is always available: the wait action is offered *)
Theorem ffsp_padding_admitted i : wfb i = true -> forall k acts s,
  adm i (reset i) acts = true -> run i (reset i) acts = Some s -> done s = true ->
  adm i (reset i) (acts ++ repeat (nJ i) k) = true.
Proof.
  intros Hwf. induction k as [|k IH]; intros acts s Hadm Hr Hd; [rewrite app_nil_r; exact Hadm|].
  cbn [repeat]. replace (acts ++ nJ i :: repeat (nJ i) k) with ((acts ++ [nJ i]) ++ repeat (nJ i) k) by (rewrite <- app_assoc; reflexivity).
  destruct (FFSP_no_dead_end i acts Hwf Hadm) as (s0 & Hr0 & _ & Hdn). rewrite Hr in Hr0. inversion Hr0; subst s0.
  destruct (Hdn Hd) as [Hw _].
  destruct (FFSP_step_total i acts (nJ i) Hwf Hadm) as (s0 & Hr0' & Hst). rewrite Hr in Hr0'. inversion Hr0'; subst s0.
  destruct (Hst Hw) as [s1 Hs1].
  assert (Ha1 : adm i (reset i) (acts ++ [nJ i]) = true).
  { apply (ffsp_adm_app_r i acts [nJ i] _ s Hadm Hr). cbn [adm]. rewrite Hw, Hs1. reflexivity. }
  destruct (done_frozen i acts (nJ i) Hwf Ha1 s Hr Hd) as (_ & s1' & Hs1' & Hd1 & _). rewrite Hs1 in Hs1'. inversion Hs1'; subst s1'.
  apply (IH (acts ++ [nJ i]) s1 Ha1); [|exact Hd1]. rewrite ffsp_run_app, Hr. cbn [run]. rewrite Hs1. reflexivity.
Qed.

(* ================================================================ Part B: FFSPEnv._step on a batch *)
Record frow := { fr_i : inst; fr_s : st; fr_a : nat }.
Definition f_reachable (i : inst) (s : st) : Prop := exists acts, adm i (reset i) acts = true /\ run i (reset i) acts = Some s.
Definition frow_ok (r : frow) : Prop :=
  wfb (fr_i r) = true /\ f_reachable (fr_i r) (fr_s r) /\ nth (fr_a r) (mask (fr_s r)) false = true.

(* first half of _step (per row; None = an index out of range) *)
Definition frow_act (r : frow) : option (inst * st) :=
  if (fr_a r <=? nJ (fr_i r))%nat && (mach (fr_s r) <? nT (fr_i r))%nat then Some (fr_i r, act (fr_i r) (fr_s r) (fr_a r)) else None.
(* second half:
     if td["done"].all(): pass
     else: td = _move_to_next_machine(td)      -- only rows with ~done are touched (idx = idx[~ready], ready = done)
           td = _update_step_state(td)         -- every row *)
Definition ffsp_b_step (rows : list frow) : option (list st) :=
  match all_some (map frow_act rows) with
  | None => None
  | Some acted =>
      if forallb (fun r => done (snd r)) acted then Some (map snd acted)
      else all_some (map (fun r : inst * st =>
                            let (i, s1) := r in
                            if done s1 then Some (upd i s1)
                            else match move i (fuel_of i s1) s1 with Some s2 => Some (upd i s2) | None => None end) acted)
  end.
(* the reward tensor: written for every row by the step that makes td["done"].all() true, left alone otherwise *)
Definition ffsp_b_reward (insts : list inst) (after : list st) (old : list (option Z)) : list (option Z) :=
  if forallb done after then map (fun r => Some (reward_of (fst r) (snd r))) (combine insts after) else old.

Lemma f_reachable_inv i s : wfb i = true -> f_reachable i s -> Inv i s /\ Dec i s.
Proof.
  intros Hwf (acts & Ha & Hr). pose proof (wfb_WF i Hwf) as W.
  destruct (run_inv i W acts _ (reset_inv i W) (reset_dec i W) Ha) as [s' [Hr' [I D]]].
  rewrite Hr in Hr'. inversion Hr'; subst. split; assumption.
Qed.

(* the three fields _update_step_state writes are the only difference between a row's state after the step that
   finishes the whole batch and what the row would have had next to an unfinished batch-mate *)
Definition same_but_stale (s s' : st) : Prop :=
  time s = time s' /\ sub s = sub s' /\ mach s = mach s' /\ mws s = mws s' /\ jws s = jws s' /\ jloc s = jloc s' /\
  sched s = sched s' /\ done s = done s'.

Lemma forallb_map' {A B} (f : B -> bool) (g : A -> B) l : forallb f (map g l) = forallb (fun x => f (g x)) l.
Proof. induction l as [|x r IH]; cbn; [reflexivity|]. rewrite IH. reflexivity. Qed.

Theorem ffsp_bstep_rowwise rows :
  Forall frow_ok rows ->
  exists outs, ffsp_b_step rows = Some outs /\ length outs = length rows /\
    forall k r o, nth_error rows k = Some r -> nth_error outs k = Some o ->
      exists o', step (fr_i r) (fr_s r) (fr_a r) = Some o' /\
        (forallb done outs = false -> o = o') /\          (* some row still runs: exactly the row-wise step *)
        same_but_stale o o' /\                            (* in any case: equal up to action_mask / stage_idx / stage_machine_idx *)
        reward_of (fr_i r) o = reward_of (fr_i r) o' /\ schedule_of (fr_i r) o = schedule_of (fr_i r) o'.
Proof.
  intros HF.
  set (actf := fun r : frow => act (fr_i r) (fr_s r) (fr_a r)).
  assert (HR : forall r, In r rows -> exists o', step (fr_i r) (fr_s r) (fr_a r) = Some o' /\
              frow_act r = Some (fr_i r, actf r) /\
              (if done (actf r) then o' = upd (fr_i r) (actf r)
               else exists s2, move (fr_i r) (fuel_of (fr_i r) (actf r)) (actf r) = Some s2 /\ o' = upd (fr_i r) s2)).
  { intros r Hr. rewrite Forall_forall in HF. destruct (HF r Hr) as (Hwf & Hre & Hm).
    destruct (f_reachable_inv _ _ Hwf Hre) as [I D]. pose proof (wfb_WF _ Hwf) as W.
    destruct (step_inv _ _ _ W I D Hm) as (o' & Hs & _). exists o'. split; [exact Hs|].
    unfold step in Hs. unfold frow_act, actf.
    destruct ((fr_a r <=? nJ (fr_i r))%nat && (mach (fr_s r) <? nT (fr_i r))%nat); [|discriminate].
    split; [reflexivity|]. destruct (done (act (fr_i r) (fr_s r) (fr_a r))).
    - inversion Hs. reflexivity.
    - destruct (move (fr_i r) (fuel_of (fr_i r) (act (fr_i r) (fr_s r) (fr_a r))) (act (fr_i r) (fr_s r) (fr_a r))) as [s2|]; [|discriminate].
      exists s2. split; [reflexivity|]. inversion Hs. reflexivity. }
  set (stepf := fun r : frow => match step (fr_i r) (fr_s r) (fr_a r) with Some o' => o' | None => fr_s r end).
  unfold ffsp_b_step.
  rewrite (all_some_map frow_act (fun r => (fr_i r, actf r))) by (intros r Hr; destruct (HR r Hr) as (_ & _ & H & _); exact H).
  rewrite forallb_map'. cbn [snd].
  destruct (forallb (fun r => done (actf r)) rows) eqn:Eall.
  - (* the step that finishes the whole batch: nothing happens after the first half *)
    exists (map actf rows). rewrite map_map. cbn [snd]. split; [reflexivity|]. split; [apply map_length|].
    intros k r o Hk Ho. rewrite nth_error_map, Hk in Ho. cbn [option_map] in Ho. inversion Ho; subst o.
    pose proof (nth_error_In _ _ Hk) as Hin. destruct (HR r Hin) as (o' & Hs & _ & Hc).
    rewrite forallb_forall in Eall. rewrite (Eall r Hin) in Hc. subst o'.
    exists (upd (fr_i r) (actf r)). split; [exact Hs|]. split.
    + intros Hno. exfalso. rewrite forallb_map' in Hno.
      assert (forallb (fun x => done (actf x)) rows = true) by (apply forallb_forall; exact Eall). congruence.
    + split; [repeat split|]. split; reflexivity.
  - (* some row still runs *)
    exists (map stepf rows). split.
    + rewrite map_map. apply all_some_map. intros r Hr. destruct (HR r Hr) as (o' & Hs & _ & Hc). unfold stepf. rewrite Hs.
      destruct (done (actf r)); [rewrite Hc; reflexivity|]. destruct Hc as (s2 & Hmv & ->). rewrite Hmv. reflexivity.
    + split; [apply map_length|]. intros k r o Hk Ho. rewrite nth_error_map, Hk in Ho. cbn [option_map] in Ho. inversion Ho; subst o.
      pose proof (nth_error_In _ _ Hk) as Hin. destruct (HR r Hin) as (o' & Hs & _). exists o'. unfold stepf. rewrite Hs.
      split; [reflexivity|]. split; [reflexivity|]. split; [repeat split|]. split; reflexivity.
Qed.

(* IndexTables: row idx of the TensorDict reads permutation idx // bs of the machine table, bs = the batch size given
   to _reset.  Plain batches (no batchify): every position reads permutation 0; after batchify(td, P) the row at
   position p*bs + b is start p of instance b and reads permutation p -- by design the multi-start index. *)
Definition pomo_idx (bs idx : nat) : nat := (idx / bs)%nat.
Lemma pomo_idx_plain bs idx : (idx < bs)%nat -> pomo_idx bs idx = 0%nat.
Proof. intros H. unfold pomo_idx. apply Nat.div_small. exact H. Qed.
Lemma pomo_idx_batchified bs p b : (b < bs)%nat -> pomo_idx bs (p * bs + b) = p.
Proof. intros H. unfold pomo_idx. rewrite Nat.div_add_l by lia. rewrite Nat.div_small by exact H. lia. Qed.

(* ================================================================ Part C: episode length *)
Definition pos (i : inst) (s : st) : Z := time s * Z.of_nat (nT i) + Z.of_nat (sub s).

Lemma tick_pos i s : (sub s < nT i)%nat -> pos i (tick i s) = pos i s + 1 /\ (sub (tick i s) < nT i)%nat.
Proof.
  intros H. unfold pos. rewrite tick_time, tick_sub. unfold wraps.
  destruct (Nat.eqb_spec (S (sub s)) (nT i)) as [E|E]; split; try lia.
Qed.
Lemma move_pos i : forall f s s', (sub s < nT i)%nat -> move i f s = Some s' -> pos i s + 1 <= pos i s' /\ done s' = done s.
Proof.
  induction f as [|f IH]; intros s s' Hs H; cbn [move] in H; [discriminate|].
  destruct (tick_pos i s Hs) as [Hp Hs1].
  destruct (readyb i (tick i s)).
  - inversion H; subst. split; [lia|reflexivity].
  - destruct (IH _ _ Hs1 H) as [H1 H2]. split; [lia|rewrite H2; reflexivity].
Qed.
Lemma step_pos i s a s' : (sub s < nT i)%nat -> step i s a = Some s' ->
  pos i s <= pos i s' /\ (done s' = false -> pos i s + 1 <= pos i s').
Proof.
  intros Hs H. unfold step in H. destruct ((a <=? nJ i)%nat && (mach s <? nT i)%nat); [|discriminate].
  destruct (done (act i s a)) eqn:Ed.
  - inversion H; subst. cbn [upd done]. split; [unfold pos; cbn [upd act time sub]; lia|]. intros E. unfold upd in E. cbn [done] in E. congruence.
  - destruct (move i (fuel_of i (act i s a)) (act i s a)) as [s2|] eqn:Em; [|discriminate]. inversion H; subst.
    destruct (move_pos i _ (act i s a) s2 Hs Em) as [Hp _]. unfold pos in *. cbn [upd act time sub] in *. split; [lia|intros _; lia].
Qed.

(* every step taken while the row is unfinished moves the clock (time_idx, sub_time_idx) strictly forward: an
   episode whose proper prefixes are unfinished is no longer than the clock reading of its last state, plus one *)
Theorem ffsp_length_le_clock i acts s' :
  wfb i = true -> adm i (reset i) acts = true -> run i (reset i) acts = Some s' ->
  (forall p q sp, acts = p ++ q -> q <> [] -> run i (reset i) p = Some sp -> done sp = false) ->
  Z.of_nat (length acts) <= pos i s' + (if done s' then 1 else 0).
Proof.
  intros Hwf Hadm Hr Hp. pose proof (wfb_WF i Hwf) as W.
  assert (G : forall acts s s', Inv i s -> Dec i s -> adm i s acts = true -> run i s acts = Some s' ->
              (forall p q sp, acts = p ++ q -> q <> [] -> run i s p = Some sp -> done sp = false) ->
              Z.of_nat (length acts) <= pos i s' - pos i s + (if done s' then 1 else 0)).
  { clear acts s' Hadm Hr Hp. induction acts as [|a r IH]; intros s s' I D Ha Hr Hp.
    - cbn in Hr. inversion Hr; subst. cbn [length]. destruct (done s'); lia.
    - cbn [adm run] in Ha, Hr. apply andb_prop in Ha as [Hm Ha].
      destruct (step_inv i s a W I D Hm) as (s1 & Hs & I1 & D1 & _). rewrite Hs in Ha, Hr.
      pose proof (sh_sub i s (i_shape i s I)) as Hsub.
      destruct (step_pos i s a s1 Hsub Hs) as [P1 P2].
      destruct r as [|b r'].
      + cbn in Hr. inversion Hr; subst s'. cbn [length]. destruct (done s1) eqn:Ed; [lia|specialize (P2 eq_refl); lia].
      + assert (Hd1 : done s1 = false).
        { apply (Hp [a] (b :: r') s1); [reflexivity|discriminate|]. cbn [run]. rewrite Hs. reflexivity. }
        specialize (P2 Hd1).
        assert (IHr := IH s1 s' I1 D1 Ha Hr).
        assert (Hp' : forall p q sp, b :: r' = p ++ q -> q <> [] -> run i s1 p = Some sp -> done sp = false).
        { intros p q sp E Hq Hrun. apply (Hp (a :: p) q sp); [rewrite E; reflexivity|exact Hq|]. cbn [run]. rewrite Hs. exact Hrun. }
        specialize (IHr Hp'). cbn [length] in *. lia. }
  specialize (G acts (reset i) s' (reset_inv i W) (reset_dec i W) Hadm Hr Hp).
  unfold pos in G at 2. cbn [reset time sub] in G. lia.
Qed.

(* number of real-job actions = sum of job_location over the real jobs <= J*S, = J*S exactly when done *)
Fixpoint sumn (l : list nat) : nat := match l with [] => 0%nat | x :: r => (x + sumn r)%nat end.
Definition loc_sum (i : inst) (s : st) : nat := sumn (map (loc s) (seq 0 (nJ i))).
Definition job_actions (i : inst) (acts : list nat) : nat := length (filter (fun a => (a <? nJ i)%nat) acts).

Lemma sumn_ext (f g : nat -> nat) n k : (forall j, (k <= j < k + n)%nat -> f j = g j) -> sumn (map f (seq k n)) = sumn (map g (seq k n)).
Proof. revert k; induction n as [|n IH]; intros k H; cbn; [reflexivity|]. rewrite (H k) by lia. rewrite (IH (S k)); [reflexivity|]. intros j Hj. apply H. lia. Qed.
Lemma sumn_bump (f g : nat -> nat) a : forall n k, (k <= a < k + n)%nat -> g a = S (f a) -> (forall j, j <> a -> g j = f j) ->
  sumn (map g (seq k n)) = S (sumn (map f (seq k n))).
Proof.
  induction n as [|n IH]; intros k Ha Ea Hne; [lia|]. cbn [seq map sumn].
  destruct (Nat.eq_dec k a) as [->|Hk].
  - rewrite Ea. rewrite (sumn_ext g f n (S a)); [reflexivity|]. intros j Hj. apply Hne. lia.
  - rewrite (Hne k Hk). rewrite (IH (S k)); [lia|lia|exact Ea|exact Hne].
Qed.
Lemma sumn_le (f : nat -> nat) b n k : (forall j, (k <= j < k + n)%nat -> (f j <= b)%nat) -> (sumn (map f (seq k n)) <= n * b)%nat.
Proof. revert k; induction n as [|n IH]; intros k H; cbn; [lia|]. specialize (IH (S k)). pose proof (H k). assert (forall j, (S k <= j < S k + n)%nat -> (f j <= b)%nat) by (intros; apply H; lia). specialize (IH H1). lia. Qed.
Lemma sumn_eq_const (f : nat -> nat) b n k : (forall j, (k <= j < k + n)%nat -> f j = b) -> sumn (map f (seq k n)) = (n * b)%nat.
Proof. revert k; induction n as [|n IH]; intros k H; cbn; [lia|]. rewrite (H k) by lia. rewrite (IH (S k)); [lia|]. intros; apply H; lia. Qed.

Lemma move_loc i : forall f s s' j, move i f s = Some s' -> loc s' j = loc s j.
Proof.
  induction f as [|f IH]; intros s s' j H; cbn [move] in H; [discriminate|].
  destruct (readyb i (tick i s)); [inversion H; subst; apply tick_loc|]. rewrite (IH _ _ j H). apply tick_loc.
Qed.

Lemma step_loc_sum i s a s' : WF i -> Inv i s -> (a <= nJ i)%nat -> step i s a = Some s' ->
  loc_sum i s' = (loc_sum i s + (if (a <? nJ i)%nat then 1 else 0))%nat.
Proof.
  intros W I Ha H. pose proof (i_shape i s I) as Sh.
  assert (E : forall j, loc s' j = loc (act i s a) j).
  { intros j. unfold step in H. destruct ((a <=? nJ i)%nat && (mach s <? nT i)%nat); [|discriminate].
    destruct (done (act i s a)); [inversion H; reflexivity|].
    destruct (move i (fuel_of i (act i s a)) (act i s a)) as [s2|] eqn:Em; [|discriminate]. inversion H; subst.
    change (loc (upd i s2) j) with (loc s2 j). apply (move_loc i _ _ _ j Em). }
  unfold loc_sum. rewrite (sumn_ext (loc s') (loc (act i s a))) by (intros; apply E).
  destruct (a <? nJ i)%nat eqn:Elt.
  - apply Nat.ltb_lt in Elt. rewrite (sumn_bump (loc s) (loc (act i s a)) a); [lia|lia| |].
    + rewrite (act_loc i s a Sh Ha). rewrite Nat.eqb_refl. reflexivity.
    + intros j Hj. rewrite (act_loc i s a Sh Ha). replace (Nat.eqb j a) with false by (symmetry; apply Nat.eqb_neq; exact Hj). reflexivity.
  - apply Nat.ltb_ge in Elt. rewrite Nat.add_0_r. apply sumn_ext. intros j Hj. rewrite (act_loc i s a Sh Ha).
    replace (Nat.eqb j a) with false by (symmetry; apply Nat.eqb_neq; lia). reflexivity.
Qed.

Theorem ffsp_job_actions i acts s :
  wfb i = true -> adm i (reset i) acts = true -> run i (reset i) acts = Some s ->
  (job_actions i acts <= nJ i * nS i)%nat /\ (done s = true -> job_actions i acts = (nJ i * nS i)%nat) /\
  length acts = (job_actions i acts + (length acts - job_actions i acts))%nat.
Proof.
  intros Hwf Hadm Hr. pose proof (wfb_WF i Hwf) as W.
  assert (G : forall acts s0 s, Inv i s0 -> Dec i s0 -> adm i s0 acts = true -> run i s0 acts = Some s ->
                Inv i s /\ loc_sum i s = (loc_sum i s0 + job_actions i acts)%nat).
  { clear acts s Hadm Hr. induction acts as [|a r IH]; intros s0 s I D Ha Hr.
    - cbn in Hr. inversion Hr; subst. split; [exact I|]. unfold job_actions. cbn. lia.
    - cbn [adm run] in Ha, Hr. apply andb_prop in Ha as [Hm Ha].
      destruct (step_inv i s0 a W I D Hm) as (s1 & Hs & I1 & D1 & _). rewrite Hs in Ha, Hr.
      destruct (IH s1 s I1 D1 Ha Hr) as [Is E]. split; [exact Is|]. rewrite E.
      assert (Hle : (a <= nJ i)%nat) by (unfold mask in Hm; rewrite (d_mask i s0 D) in Hm; exact (mask_of_range i s0 a Hm)).
      rewrite (step_loc_sum i s0 a s1 W I Hle Hs). unfold job_actions. cbn [filter]. destruct (a <? nJ i)%nat; cbn [length]; lia. }
  destruct (G acts (reset i) s (reset_inv i W) (reset_dec i W) Hadm Hr) as [I E].
  assert (E0 : loc_sum i (reset i) = 0%nat).
  { unfold loc_sum. rewrite (sumn_eq_const _ 0%nat); [lia|]. intros j _. apply loc_reset. }
  rewrite E0 in E. cbn [plus] in E. rewrite <- E. split; [|split].
  - unfold loc_sum. apply sumn_le. intros j Hj. apply (i_loc i s I). lia.
  - intros Hd. unfold loc_sum. apply sumn_eq_const. intros j Hj. apply (proj1 (i_done i s I) Hd). lia.
  - assert (job_actions i acts <= length acts)%nat.
    { unfold job_actions. clear. induction acts as [|a r IH]; cbn [filter length]; [lia|]. destruct (a <? nJ i)%nat; cbn [length]; lia. }
    lia.
Qed.

(* J*S*(1+M) steps ("every operation plus one wait per machine") is NOT a bound: a policy may wait once per time unit
   while an operation of the stage is in process; 2 jobs, 2 stages, 1 machine per stage, one long operation *)
Definition wait_i : inst := {| nJ := 2; nS := 2; nM := 1; rt := [[1; 1]; [9; 1]]; mtab := [0; 1]%nat; flat := true |}.
Definition wait_acts : list nat := [0; 1; 2; 2; 2; 2; 2; 2; 2; 2; 2; 0; 1]%nat.
Theorem ffsp_ops_times_machines_bound_refuted :
  wfb wait_i = true /\ adm wait_i (reset wait_i) wait_acts = true /\
  (exists s, run wait_i (reset wait_i) wait_acts = Some s /\ done s = true) /\
  (forall p q sp, wait_acts = p ++ q -> q <> [] -> run wait_i (reset wait_i) p = Some sp -> done sp = false) /\
  (nJ wait_i * nS wait_i * (1 + nM wait_i) < length wait_acts)%nat.
Proof.
  split; [vm_compute; reflexivity|]. split; [vm_compute; reflexivity|]. split; [eexists; split; vm_compute; reflexivity|].
  split; [|vm_compute; lia].
  intros p q sp E Hq Hr.
  assert (Hk : p = firstn (length p) wait_acts) by (rewrite E, firstn_app, Nat.sub_diag, firstn_all; cbn; rewrite app_nil_r; reflexivity).
  assert (Hl : (length p < length wait_acts)%nat).
  { rewrite E, app_length. destruct q; [congruence|cbn; lia]. }
  rewrite Hk in Hr. cbn [wait_acts length] in Hl. clear Hk E. revert Hr Hl. generalize (length p) as k. intros k Hr Hl.
  do 13 (destruct k as [|k]; [vm_compute in Hr; inversion Hr; reflexivity|]). lia.
Qed.

(* ================================================================ Part D: SMTWTP *)
(* SMTWTPEnv has no inert action: once a row is done its mask is empty.  What holds instead: the episode length is
   exactly n_job whatever the order, every earlier state offers a job, and since all rows of a batch share the tensor
   width n_job+1 they all finish at the same step -- no row is ever done while another still runs. *)
Theorem smtwtp_no_dead_end_before_done i acts :
  SMTWTP.wfb i = true -> SMTWTP.adm i (SMTWTP.reset i) acts = true ->
  exists s, SMTWTP.run i (SMTWTP.reset i) acts = Some s /\
    (length acts <= SMTWTP.n_job i)%nat /\
    (SMTWTP.done s = true <-> length acts = SMTWTP.n_job i) /\
    (SMTWTP.done s = false -> exists a, nth a (SMTWTP.mask s) false = true) /\
    (forall a, nth a (SMTWTP.mask s) false = true -> exists s', SMTWTP.step i s a = Some s').
Proof.
  intros Hwf Hadm.
  destruct (SMTWTP.run_inv i Hwf acts [] (SMTWTP.reset i) (SMTWTP.reset_inv i Hwf) Hadm) as [s [Hr HI]].
  cbn [app] in HI. exists s. split; [exact Hr|].
  pose proof (SMTWTP.inv_cnt i acts s HI) as Hc. pose proof (SMTWTP.inv_done i acts s HI) as Hd.
  split; [lia|]. split; [rewrite Hd; apply Nat.eqb_eq|]. split.
  - intros Hnd. rewrite Hd in Hnd. apply Nat.eqb_neq in Hnd.
    assert (Hpos : (0 < count_true (SMTWTP.avail s))%nat) by lia. unfold SMTWTP.mask.
    clear -Hpos. induction (SMTWTP.avail s) as [|b l IH]; cbn [count_true] in Hpos; [lia|]. destruct b.
    + exists 0%nat. reflexivity.
    + destruct (IH Hpos) as [a Ha]. exists (S a). exact Ha.
  - intros a Ha. destruct (SMTWTP.step_inv i acts s a Hwf HI Ha) as [s' [Hs _]]. exists s'. exact Hs.
Qed.

(* rows of one batch (same n_job) stepped in lockstep finish at the same step *)
Theorem smtwtp_batch_finishes_together i1 i2 acts1 acts2 s1 s2 :
  SMTWTP.wfb i1 = true -> SMTWTP.wfb i2 = true -> SMTWTP.n_job i1 = SMTWTP.n_job i2 -> length acts1 = length acts2 ->
  SMTWTP.adm i1 (SMTWTP.reset i1) acts1 = true -> SMTWTP.adm i2 (SMTWTP.reset i2) acts2 = true ->
  SMTWTP.run i1 (SMTWTP.reset i1) acts1 = Some s1 -> SMTWTP.run i2 (SMTWTP.reset i2) acts2 = Some s2 ->
  SMTWTP.done s1 = SMTWTP.done s2.
Proof.
  intros W1 W2 En El A1 A2 R1 R2.
  destruct (SMTWTP.run_inv i1 W1 acts1 [] _ (SMTWTP.reset_inv i1 W1) A1) as [s1' [R1' H1]]. rewrite R1 in R1'. inversion R1'; subst s1'.
  destruct (SMTWTP.run_inv i2 W2 acts2 [] _ (SMTWTP.reset_inv i2 W2) A2) as [s2' [R2' H2]]. rewrite R2 in R2'. inversion R2'; subst s2'.
  cbn [app] in H1, H2. rewrite (SMTWTP.inv_done _ _ _ H1), (SMTWTP.inv_done _ _ _ H2), En, El. reflexivity.
Qed.

(* no padding step can be taken on a finished row (so no padding step can change anything) *)
Theorem smtwtp_no_padding_possible i acts a s :
  SMTWTP.wfb i = true -> SMTWTP.adm i (SMTWTP.reset i) acts = true -> SMTWTP.run i (SMTWTP.reset i) acts = Some s ->
  SMTWTP.done s = true -> SMTWTP.adm i (SMTWTP.reset i) (acts ++ [a]) = false.
Proof.
  intros Hwf Hadm Hr Hd. destruct (SMTWTP.adm i (SMTWTP.reset i) (acts ++ [a])) eqn:E; [|reflexivity]. exfalso.
  destruct (smtwtp_no_dead_end_before_done i acts Hwf Hadm) as (s0 & Hr0 & _ & Hiff & _). rewrite Hr in Hr0. inversion Hr0; subst s0.
  destruct (smtwtp_no_dead_end_before_done i (acts ++ [a]) Hwf E) as (s1 & _ & Hle & _).
  rewrite app_length in Hle. cbn [length] in Hle. apply Hiff in Hd. lia.
Qed.

(* a concrete FFSP batch: one row at reset, one finished row taking the wait action *)
Example ffsp_b_step_example :
  match run ex_i (reset ex_i) ex_acts with
  | Some sd =>
      done sd = true /\ nth 3 (mask sd) false = true /\
      ffsp_b_step [ {| fr_i := ex_i; fr_s := reset ex_i; fr_a := 1 |}; {| fr_i := ex_i; fr_s := sd; fr_a := 3 |} ]
      = Some [ match step ex_i (reset ex_i) 1 with Some x => x | None => sd end;
               match step ex_i sd 3 with Some x => x | None => sd end ]
  | None => False
  end.
Proof. vm_compute. repeat split; reflexivity. Qed.
