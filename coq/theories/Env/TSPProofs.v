(* TSP: independent specification and the theorems for C01 (mask soundness), C02 (no dead end, bound, done exactly
   at step n, all rows of a batch finish together), C03 (reward = closed tour length), C04 (batched step = row-wise
   step under the shared-counter invariant; no padding action exists), C05 (every permutation reachable),
   C06 (checker). *)
From Coq Require Import ZArith List Bool Lia ZifyBool Arith Permutation.
From RL4CO Require Import Base.Num Base.EnvSig Base.SortNat Spec.Tours Env.TourCore Env.TSP.
Import ListNotations.
Open Scope Z_scope.

Notation E := TSP.

(* ---------------------------------------------------------------- specification *)
(* a solution is a visiting order of the n cities: every city exactly once *)
Definition tsp_feasible (i : tsp_inst) (acts : list nat) : Prop := visits_each_once (tsp_n i) acts.
Definition tsp_feasibleb (i : tsp_inst) (acts : list nat) : bool := visits_each_onceb (tsp_n i) acts.
Lemma tsp_feasibleb_ok i acts : tsp_feasibleb i acts = true <-> tsp_feasible i acts.
Proof. apply visits_each_onceb_ok. Qed.

(* objective: minus the length of the closed tour *)
Definition tsp_objective (i : tsp_inst) (acts : list nat) : Z := - closed_len (tsp_d i) acts.

(* documented input format: at least one city; the distance data is a square symmetric matrix *)
Definition tsp_wf (i : tsp_inst) : Prop :=
  (1 <= tsp_n i)%nat /\ (forall a b, tsp_d i a b = tsp_d i b a).
Definition tsp_wfb (i : tsp_inst) : bool :=
  Nat.leb 1 (tsp_n i) &&
  forallb (fun r => Nat.eqb (length r) (tsp_n i)) (tdist i) &&
  forallb (fun a => forallb (fun b => tsp_d i a b =? tsp_d i b a) (seq 0 (tsp_n i))) (seq 0 (tsp_n i)).

Lemma tsp_wfb_ok i : tsp_wfb i = true -> tsp_wf i.
Proof.
  unfold tsp_wfb, tsp_wf. rewrite !andb_true_iff. intros [[H1 H2] H3]. split; [apply Nat.leb_le; exact H1|].
  rewrite forallb_forall in H2, H3.
  assert (In_range : forall a b, (a < tsp_n i)%nat -> (b < tsp_n i)%nat -> tsp_d i a b = tsp_d i b a).
  { intros a b Ha Hb. specialize (H3 a ltac:(apply in_seq; lia)). rewrite forallb_forall in H3.
    specialize (H3 b ltac:(apply in_seq; lia)). lia. }
  assert (Out : forall a b, (tsp_n i <= a)%nat \/ (tsp_n i <= b)%nat -> tsp_d i a b = 0).
  { intros a b Hab. unfold tsp_d, mget. destruct (Nat.ltb a (tsp_n i)) eqn:Ea.
    - apply Nat.ltb_lt in Ea. destruct Hab as [Hab|Hab]; [lia|].
      assert (In (nth a (tdist i) []) (tdist i)) as Hin by (apply nth_In; exact Ea).
      specialize (H2 _ Hin). apply Nat.eqb_eq in H2. apply nth_overflow. lia.
    - apply Nat.ltb_ge in Ea. rewrite (nth_overflow (tdist i)) by exact Ea. destruct b; reflexivity. }
  intros a b. destruct (lt_dec a (tsp_n i)) as [Ea|Ea], (lt_dec b (tsp_n i)) as [Eb|Eb].
  - apply In_range; assumption.
  - rewrite (Out a b), (Out b a) by lia. reflexivity.
  - rewrite (Out a b), (Out b a) by lia. reflexivity.
  - rewrite (Out a b), (Out b a) by lia. reflexivity.
Qed.

(* ---------------------------------------------------------------- the run in terms of the bit-vector automaton *)
Lemma tsp_avail_run_from i s acts : tavail (run_from (E:=E) i s acts) = avail_after (tavail s) acts.
Proof. revert s; induction acts as [|a r IH]; intros s; [reflexivity|]. cbn [run_from avail_after]. rewrite IH. reflexivity. Qed.

Lemma tsp_adm_from i s acts : adm_from (E:=E) i s acts = avail_adm (tavail s) acts.
Proof. revert s; induction acts as [|a r IH]; intros s; [reflexivity|]. cbn [adm_from avail_adm]. rewrite IH. reflexivity. Qed.

Lemma tsp_avail_run i acts : tavail (run (E:=E) i acts) = avail_after (repeat true (tsp_n i)) acts.
Proof. apply tsp_avail_run_from. Qed.

Lemma tsp_adm_iff i acts :
  adm (E:=E) i acts = true <-> NoDup acts /\ (forall a, In a acts -> (a < tsp_n i)%nat).
Proof. unfold adm. rewrite tsp_adm_from. apply avail_adm_fresh. Qed.

Lemma tsp_cnt_run_from i s acts : tcnt (run_from (E:=E) i s acts) = (tcnt s + length acts)%nat.
Proof. revert s; induction acts as [|a r IH]; intros s; cbn [run_from length]; [lia|]. rewrite IH. cbn. lia. Qed.

Lemma tsp_cnt_run i acts : tcnt (run (E:=E) i acts) = length acts.
Proof. unfold run. rewrite tsp_cnt_run_from. reflexivity. Qed.

(* the done flag: False at reset, afterwards "nothing left in the mask" *)
Lemma tsp_dn_run i acts : acts <> [] -> tdn (run (E:=E) i acts) = negb (anyb (tavail (run (E:=E) i acts))).
Proof.
  intros Hne. destruct acts as [|a acts] using rev_ind; [congruence|]. rewrite run_snoc.
  cbn [step TSP]. unfold tsp_step, tsp_step_g. cbn [tdn tavail]. apply countb_anyb.
Qed.

(* done exactly when n actions have been taken (n >= 1) *)
Lemma tsp_done_iff i acts : (1 <= tsp_n i)%nat -> adm (E:=E) i acts = true ->
  (done E i (run (E:=E) i acts) = true <-> length acts = tsp_n i).
Proof.
  intros Hn Hadm. apply tsp_adm_iff in Hadm as [Hnd Hr]. cbn [done TSP]. unfold tsp_done.
  destruct acts as [|a acts].
  - cbn. split; [discriminate | lia].
  - rewrite tsp_dn_run by discriminate. rewrite negb_true_iff, tsp_avail_run. apply nothing_left_iff; assumption.
Qed.

(* ================================================================ C01 *)
Theorem tsp_mask_sound i acts :
  tsp_wf i -> adm (E:=E) i acts = true -> done E i (run (E:=E) i acts) = true -> tsp_feasible i acts.
Proof.
  intros [Hn _] Hadm Hd. apply (tsp_done_iff i acts Hn Hadm) in Hd. apply tsp_adm_iff in Hadm as [Hnd Hr].
  apply visits_each_once_nodup. auto.
Qed.

(* ================================================================ C02 *)
Lemma tsp_offered i s a : offered (E:=E) i s a = nth a (tavail s) false.
Proof. reflexivity. Qed.

Theorem tsp_step_ok i acts a :
  adm (E:=E) i acts = true -> offered (E:=E) i (run (E:=E) i acts) a = true -> stepok E i (run (E:=E) i acts) a = true.
Proof.
  intros _ Ho. rewrite tsp_offered in Ho. cbn [stepok TSP]. unfold tsp_stepok. apply Nat.ltb_lt.
  destruct (lt_dec a (length (tavail (run (E:=E) i acts)))) as [H|H]; [exact H|].
  rewrite nth_overflow in Ho by lia. discriminate.
Qed.

Theorem tsp_bound i acts : adm (E:=E) i acts = true -> (length acts <= tsp_n i)%nat.
Proof. intros Hadm. apply tsp_adm_iff in Hadm as [Hnd Hr]. apply distinct_in_range_le; assumption. Qed.

Theorem tsp_no_dead_end i acts :
  tsp_wf i -> adm (E:=E) i acts = true -> done E i (run (E:=E) i acts) = false ->
  anyb (mask E i (run (E:=E) i acts)) = true.
Proof.
  intros [Hn _] Hadm Hd. pose proof (tsp_done_iff i acts Hn Hadm) as Hiff.
  apply tsp_adm_iff in Hadm as [Hnd Hr]. cbn [mask TSP]. unfold tsp_mask. rewrite tsp_avail_run.
  destruct (anyb (avail_after (repeat true (tsp_n i)) acts)) eqn:Ea; [reflexivity|].
  apply (nothing_left_iff (tsp_n i) acts Hnd Hr) in Ea. apply Hiff in Ea. congruence.
Qed.

(* once done the mask is empty: there is no action to pad with *)
Theorem tsp_done_mask_empty i acts a :
  tsp_wf i -> adm (E:=E) i acts = true -> done E i (run (E:=E) i acts) = true ->
  offered (E:=E) i (run (E:=E) i acts) a = false.
Proof.
  intros [Hn _] Hadm Hd. apply (tsp_done_iff i acts Hn Hadm) in Hd.
  apply tsp_adm_iff in Hadm as [Hnd Hr]. rewrite tsp_offered, tsp_avail_run.
  apply (nothing_left_iff (tsp_n i) acts Hnd Hr) in Hd. rewrite anyb_false in Hd. apply Hd.
Qed.

(* (vacuously) a finished row stays finished: no action is admitted after done *)
Theorem tsp_done_stable i acts a :
  tsp_wf i -> adm (E:=E) i (acts ++ [a]) = true -> done E i (run (E:=E) i acts) = true ->
  done E i (run (E:=E) i (acts ++ [a])) = true.
Proof.
  intros Hwf Hadm Hd. rewrite adm_snoc in Hadm. apply andb_prop in Hadm as [Ha Ho].
  rewrite (tsp_done_mask_empty i acts a Hwf Ha Hd) in Ho. discriminate.
Qed.

(* batch level: rows of one batch have the same number of cities and have taken the same number t of (admitted)
   steps; then t <= n, for t < n every row is unfinished and has a non-empty mask, for t = n every row is finished *)
Theorem tsp_batch_lockstep (n t : nat) (rows : list (tsp_inst * list nat)) :
  (forall r, In r rows -> tsp_wf (fst r) /\ tsp_n (fst r) = n /\ length (snd r) = t /\ adm (E:=E) (fst r) (snd r) = true) ->
  rows <> [] ->
  (t <= n)%nat /\
  ((t < n)%nat -> forall r, In r rows -> done E (fst r) (run (E:=E) (fst r) (snd r)) = false /\
                                         anyb (mask E (fst r) (run (E:=E) (fst r) (snd r))) = true) /\
  (t = n -> forall r, In r rows -> done E (fst r) (run (E:=E) (fst r) (snd r)) = true).
Proof.
  intros H Hne. split; [|split].
  - destruct rows as [|r rows]; [congruence|]. destruct (H r (or_introl eq_refl)) as (_ & Hn & Ht & Ha).
    apply tsp_bound in Ha. lia.
  - intros Hlt r Hr. destruct (H r Hr) as (Hwf & Hn & Ht & Ha).
    assert (Hd : done E (fst r) (run (E:=E) (fst r) (snd r)) = false).
    { destruct (done E (fst r) (run (E:=E) (fst r) (snd r))) eqn:Ed; [|reflexivity].
      apply (tsp_done_iff _ _ (proj1 Hwf) Ha) in Ed. lia. }
    split; [exact Hd | apply tsp_no_dead_end; assumption].
  - intros Heq r Hr. destruct (H r Hr) as (Hwf & Hn & Ht & Ha). apply (tsp_done_iff _ _ (proj1 Hwf) Ha). lia.
Qed.

(* ================================================================ C03 *)
Theorem tsp_reward_is_objective i acts :
  (forall a b, tsp_d i a b = tsp_d i b a) -> tsp_reward i acts = tsp_objective i acts.
Proof. intros S. unfold tsp_reward, tsp_objective. rewrite roll_sum_flip_sym by exact S. reflexivity. Qed.

(* on a tour (of any size, a single city included) the gather of _get_reward stays inside locs *)
Lemma tsp_feasible_rewardok i acts : tsp_feasible i acts -> tsp_rewardok i acts = true.
Proof. intros [_ Hr]. unfold tsp_rewardok. apply forallb_forall. intros a Ha. apply Nat.ltb_lt. apply Hr. exact Ha. Qed.
(* the single-city tour (before the fix aa30e65 its reward was not computed per row; known_findings.json: fixed) *)
Example tsp_single_city_reward :
  let i := {| tdist := [[0]] |} in
  tsp_wfb i = true /\ tsp_feasibleb i [0%nat] = true /\ tsp_rewardok i [0%nat] = true /\ tsp_reward i [0%nat] = 0.
Proof. vm_compute. auto. Qed.

(* ================================================================ C04 *)
(* the batch-global first-step test equals the row-wise one when all rows share the step counter *)
Lemma tsp_first_test_shared rows c s : (forall s', In s' rows -> tcnt s' = c) -> In s rows ->
  tsp_first_test rows = Nat.eqb (tcnt s) 0.
Proof.
  intros Hc Hs. unfold tsp_first_test. rewrite (Hc s Hs). destruct (Nat.eqb c 0) eqn:E.
  - apply negb_true_iff. apply not_true_iff_false. intros Hf. rewrite forallb_forall in Hf. specialize (Hf s Hs).
    rewrite (Hc s Hs), E in Hf. discriminate.
  - apply negb_false_iff. apply forallb_forall. intros s' Hs'. rewrite (Hc s' Hs'), E. reflexivity.
Qed.

Theorem tsp_bstep_rowwise i rows acts c : (forall s, In s rows -> tcnt s = c) ->
  tsp_bstep rows acts = map (fun sa => tsp_step i (fst sa) (snd sa)) (combine rows acts).
Proof.
  intros Hc. unfold tsp_bstep. apply map_ext_in. intros [s a] Hin. cbn [fst snd]. unfold tsp_step.
  apply in_combine_l in Hin. rewrite (tsp_first_test_shared rows c s Hc Hin). reflexivity.
Qed.

Theorem tsp_bstep_keeps_counter rows acts c : (forall s, In s rows -> tcnt s = c) ->
  forall s', In s' (tsp_bstep rows acts) -> tcnt s' = S c.
Proof.
  intros Hc s' Hin. unfold tsp_bstep in Hin. apply in_map_iff in Hin as ([s a] & <- & Hin).
  apply in_combine_l in Hin. cbn. f_equal. apply Hc. exact Hin.
Qed.

Lemma tsp_reset_counter (insts : list tsp_inst) : forall s, In s (map tsp_reset insts) -> tcnt s = 0%nat.
Proof. intros s Hin. apply in_map_iff in Hin as (i & <- & _). reflexivity. Qed.

(* whole batched episodes: [steps] is the list of per-step action vectors (one action per row); row r of the batched
   run is the row-wise run of row r on its own column of actions *)
Fixpoint tsp_brun (rows : list tsp_st) (steps : list (list nat)) : list tsp_st :=
  match steps with [] => rows | av :: rest => tsp_brun (tsp_bstep rows av) rest end.

Theorem tsp_brun_rowwise (insts : list tsp_inst) (steps : list (list nat)) :
  Forall (fun av => length av = length insts) steps ->
  forall r dflt_i, (r < length insts)%nat ->
    nth r (tsp_brun (map tsp_reset insts) steps) (tsp_reset dflt_i)
    = run (E:=E) (nth r insts dflt_i) (map (fun av => nth r av 0%nat) steps).
Proof.
  intros Hlen r di Hr.
  assert (G : forall steps rows c, Forall (fun av => length av = length rows) steps ->
                (forall s, In s rows -> tcnt s = c) -> (r < length rows)%nat ->
                forall ds, nth r (tsp_brun rows steps) ds
                           = run_from (E:=E) (nth r insts di) (nth r rows ds) (map (fun av => nth r av 0%nat) steps)).
  { clear. induction steps as [|av rest IH]; intros rows c Hl Hc Hr ds; [reflexivity|].
    inversion Hl as [|? ? Hav Hrest]; subst. cbn [tsp_brun map run_from].
    assert (Hlen' : length (tsp_bstep rows av) = length rows).
    { unfold tsp_bstep. rewrite map_length, combine_length. lia. }
    rewrite (IH (tsp_bstep rows av) (S c)).
    - f_equal. rewrite (tsp_bstep_rowwise (nth r insts di) rows av c Hc).
      rewrite (nth_indep _ ds (tsp_step (nth r insts di) (fst (ds, 0%nat)) (snd (ds, 0%nat))))
        by (rewrite map_length, combine_length; lia).
      rewrite (map_nth (fun sa => tsp_step (nth r insts di) (fst sa) (snd sa))). rewrite combine_nth by lia. reflexivity.
    - rewrite Hlen'. exact Hrest.
    - apply tsp_bstep_keeps_counter. exact Hc.
    - lia. }
  unfold run. rewrite (G steps (map tsp_reset insts) 0%nat).
  - f_equal. rewrite (map_nth tsp_reset). reflexivity.
  - rewrite map_length. exact Hlen.
  - apply tsp_reset_counter.
  - rewrite map_length. exact Hr.
Qed.

(* there is no padding: nothing can be admitted after the row is done *)
Theorem tsp_no_padding i acts pad :
  tsp_wf i -> adm (E:=E) i (acts ++ pad) = true -> done E i (run (E:=E) i acts) = true -> pad = [].
Proof.
  intros Hwf Hadm Hd. destruct pad as [|a pad]; [reflexivity|]. exfalso.
  replace (acts ++ a :: pad) with ((acts ++ [a]) ++ pad) in Hadm by (rewrite <- app_assoc; reflexivity).
  apply adm_prefix in Hadm. rewrite adm_snoc in Hadm. apply andb_prop in Hadm as [Ha Ho].
  rewrite (tsp_done_mask_empty i acts a Hwf Ha Hd) in Ho. discriminate.
Qed.

(* ================================================================ C05 *)
(* every visiting order of the n cities is admitted by the masks and ends the episode *)
Theorem tsp_mask_complete i acts :
  tsp_wf i -> tsp_feasible i acts -> adm (E:=E) i acts = true /\ done E i (run (E:=E) i acts) = true.
Proof.
  intros [Hn _] Hf. apply visits_each_once_nodup in Hf as (Hl & Hnd & Hr).
  assert (Hadm : adm (E:=E) i acts = true) by (apply tsp_adm_iff; auto).
  split; [exact Hadm|]. apply (tsp_done_iff i acts Hn Hadm). exact Hl.
Qed.

(* ================================================================ C06 *)
Lemma tsp_checker_iff i acts : tsp_checker i acts = true <-> tsp_feasible i acts.
Proof.
  unfold tsp_checker, tsp_feasible. rewrite andb_true_iff, Nat.eqb_eq, sorted_is_arange_iff. split.
  - intros [Hl Hv]. rewrite Hl in Hv. exact Hv.
  - intros Hv. pose proof (proj1 (visits_each_once_nodup _ _) Hv) as (Hl & _). split; [exact Hl | rewrite Hl; exact Hv].
Qed.

Theorem tsp_checker_complete i acts : tsp_feasible i acts -> tsp_checker i acts = true.
Proof. apply tsp_checker_iff. Qed.

(* accepted => every city exactly once; no hypothesis on the length of the action list: the checker establishes it *)
Theorem tsp_checker_sound i acts : tsp_checker i acts = true -> tsp_feasible i acts.
Proof. apply tsp_checker_iff. Qed.

Corollary tsp_checker_rejects_wrong_length i acts : length acts <> tsp_n i -> tsp_checker i acts = false.
Proof.
  intros Hl. apply not_true_iff_false. intros Hc. apply tsp_checker_sound, visits_each_once_nodup in Hc as (H & _). contradiction.
Qed.

Corollary tsp_checker_rejects_missing i acts j : (j < tsp_n i)%nat -> ~ In j acts -> tsp_checker i acts = false.
Proof.
  intros Hj Hn. apply not_true_iff_false. intros Hc. destruct (tsp_checker_sound i acts Hc) as [Ho _].
  specialize (Ho j Hj). apply occ_not_In in Hn. lia.
Qed.

Corollary tsp_checker_rejects_duplicate i acts j : (2 <= occ j acts)%nat -> tsp_checker i acts = false.
Proof.
  intros Hd. apply not_true_iff_false. intros Hc. apply tsp_checker_sound in Hc.
  apply visits_each_once_nodup in Hc as (_ & Hnd & _). apply NoDup_occ_le1 with (x := j) in Hnd. lia.
Qed.

Corollary tsp_checker_rejects_out_of_range i acts a : In a acts -> (tsp_n i <= a)%nat -> tsp_checker i acts = false.
Proof.
  intros Ha Hge. apply not_true_iff_false. intros Hc. destruct (tsp_checker_sound i acts Hc) as [_ Hr].
  specialize (Hr a Ha). lia.
Qed.

(* the witness of the repaired defect (fix 5d5f57a; known_findings.json: fixed): 3 cities, actions [1; 0] -- a
   permutation of 0..len-1 that never visits city 2 -- used to be accepted and is now rejected *)
Example tsp_checker_truncated_now_rejected :
  let i := {| tdist := [[0; 3; 4]; [3; 0; 5]; [4; 5; 0]] |} in
  tsp_wfb i = true /\ sorted_is_arange [1; 0]%nat = true /\ tsp_checker i [1; 0]%nat = false /\ tsp_checker i [1; 0; 2]%nat = true.
Proof. vm_compute. auto. Qed.

(* unfolded forms used by the Properties files *)
Lemma tsp_mask_complete_unfolded :
  forall (i : tsp_inst) (acts : list nat),
    tsp_wf i ->
    (forall j, (j < tsp_n i)%nat -> occ j acts = 1%nat) -> (forall a, In a acts -> (a < tsp_n i)%nat) ->
    adm (E:=E) i acts = true /\ done E i (run (E:=E) i acts) = true.
Proof. intros i acts Hwf H1 H2. apply tsp_mask_complete; [exact Hwf | split; assumption]. Qed.

Lemma tsp_checker_complete_unfolded :
  forall (i : tsp_inst) (acts : list nat),
    (forall j, (j < tsp_n i)%nat -> occ j acts = 1%nat) -> (forall a, In a acts -> (a < tsp_n i)%nat) ->
    tsp_checker i acts = true.
Proof. intros i acts H1 H2. apply (tsp_checker_complete i). split; assumption. Qed.

(* ================================================================ C02, batch corollary: the decoding loop *)
From RL4CO Require Import Env.FixedLenLoop.

Theorem tsp_rollout_terminates (choose : nat -> tsp_inst * tsp_st -> nat) :
  (forall t i s, anyb (mask E i s) = true -> offered (E:=E) i s (choose t (i, s)) = true) ->
  forall (insts : list tsp_inst) (B extra : nat),
    insts <> [] -> (forall i, In i insts -> tsp_wf i /\ tsp_n i = B) ->
    loop E choose (B + extra) (map (fun i => (i, reset E i)) insts) 0 = Some B.
Proof.
  intros Hch insts B extra Hne Hall.
  apply (loop_terminates E tsp_wf tsp_n); try assumption.
  - intros i p [Hn _] Ha. apply tsp_done_iff; assumption.
  - intros i p Hwf Ha Hd. apply tsp_no_dead_end; assumption.
Qed.
