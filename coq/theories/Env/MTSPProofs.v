(* mTSP: theorems for C01 (mask soundness), C02 (no dead end, done stable, step bound with an explicit measure),
   C03 (accumulator invariant; reward = objective), C04 (padding; batched step = row-wise step), C05 (mask
   completeness up to the canonical form).  All in exact arithmetic ([exact]).  Specification: Spec/MultiTour.v. *)
From Coq Require Import ZArith List Bool Lia ZifyBool Arith.
From RL4CO Require Import Base.Num Base.EnvSig Spec.Routes Spec.MultiTour Env.MTSP.
Import ListNotations.
Open Scope Z_scope.

(* ---------------------------------------------------------------- documented input format / solvability *)
(* locs [num_loc, 2] with the depot first (num_loc >= 1), num_agents >= 1; the distance matrix of any point set is
   square, non-negative, with zero diagonal *)
Definition mtsp_wfb (i : mtsp_inst) : bool :=
  Nat.ltb 0 (nnodes i) &&
  forallb (fun row => Nat.eqb (length row) (nnodes i) && forallb (fun x => 0 <=? x) row) (dist i) &&
  forallb (fun k => mget (dist i) k k =? 0) (seq 0 (nnodes i)) &&
  (1 <=? nag i).
(* C02 needs one city at least (with num_loc = 1 the mask is empty at reset) *)
Definition mtsp_solvableb (i : mtsp_inst) : bool := Nat.ltb 1 (nnodes i).

Definition mtsp_wf (i : mtsp_inst) : Prop :=
  (0 < nnodes i)%nat /\ (forall a b, 0 <= dfun i a b) /\ dfun i 0%nat 0%nat = 0 /\ 1 <= nag i.
Definition mtsp_solvable (i : mtsp_inst) : Prop := (1 <= n_of i)%nat.

Lemma mtsp_wfb_ok i : mtsp_wfb i = true -> mtsp_wf i.
Proof.
  unfold mtsp_wfb, mtsp_wf. rewrite !andb_true_iff. intros [[[H0 Hrows] Hdiag] Hm].
  apply Nat.ltb_lt in H0. rewrite forallb_forall in Hrows, Hdiag. repeat split; try lia.
  - intros a b. unfold dfun, mget.
    destruct (Nat.ltb a (length (dist i))) eqn:Ea.
    + apply Nat.ltb_lt in Ea. pose proof (Hrows _ (nth_In (dist i) [] Ea)) as Hr. apply andb_prop in Hr as [_ Hr].
      rewrite forallb_forall in Hr.
      destruct (Nat.ltb b (length (nth a (dist i) []))) eqn:Eb.
      * apply Nat.ltb_lt in Eb. specialize (Hr _ (nth_In _ 0 Eb)). lia.
      * apply Nat.ltb_ge in Eb. rewrite nth_overflow by exact Eb. lia.
    + apply Nat.ltb_ge in Ea. rewrite (nth_overflow (dist i)) by exact Ea. destruct b; cbn; lia.
  - specialize (Hdiag 0%nat). unfold dfun. assert (In 0%nat (seq 0 (nnodes i))) as Hin by (apply in_seq; lia).
    specialize (Hdiag Hin). lia.
Qed.
Lemma mtsp_solvableb_ok i : mtsp_solvableb i = true <-> mtsp_solvable i.
Proof. unfold mtsp_solvableb, mtsp_solvable, n_of. rewrite Nat.ltb_lt. lia. Qed.

(* ---------------------------------------------------------------- list facts *)
Lemma tl_set_nth_0 {A} (x : A) l : tl (set_nth 0 x l) = tl l.
Proof. destruct l; reflexivity. Qed.
Lemma tl_set_nth_S {A} k (x : A) l : tl (set_nth (S k) x l) = set_nth k x (tl l).
Proof. destruct l; [destruct k; reflexivity | reflexivity]. Qed.
Lemma nth_tl {A} k (l : list A) d : nth k (tl l) d = nth (S k) l d.
Proof. destruct l; [destruct k; reflexivity | reflexivity]. Qed.
Lemma length_tl {A} (l : list A) : length (tl l) = (length l - 1)%nat.
Proof. destruct l; cbn; lia. Qed.

Lemma anyb_false_nth l j : anyb l = false -> nth j l false = false.
Proof.
  intros H. destruct (nth j l false) eqn:E; [|reflexivity]. exfalso.
  assert (anyb l = true) as H1.
  { apply anyb_exists. exists j. split; [|exact E]. destruct (Nat.ltb j (length l)) eqn:El; [apply Nat.ltb_lt; exact El|].
    apply Nat.ltb_ge in El. rewrite nth_overflow in E by exact El. discriminate. }
  congruence.
Qed.
Lemma anyb_false_intro l : (forall j, (j < length l)%nat -> nth j l false = false) -> anyb l = false.
Proof.
  intros H. apply not_true_iff_false. intros Ha. apply anyb_exists in Ha as (j & Hj & Hn). rewrite H in Hn by exact Hj. discriminate.
Qed.
Lemma anyb_nth_true l j : nth j l false = true -> anyb l = true.
Proof. intros H. destruct (anyb l) eqn:E; [reflexivity|]. rewrite (anyb_false_nth l j E) in H. discriminate. Qed.

Lemma countb_set_false l : forall a, nth a l false = true -> (countb (set_nth a false l) + 1 = countb l)%nat.
Proof.
  unfold countb. induction l as [|h t IH]; intros [|a] H; cbn in *; try discriminate.
  - subst h. cbn. lia.
  - specialize (IH a H). destruct h; cbn; lia.
Qed.
Lemma countb_pos_anyb l : anyb l = true -> (1 <= countb l)%nat.
Proof. unfold anyb, countb. induction l as [|h t IH]; cbn; [discriminate|]. destruct h; cbn; [lia|]. exact IH. Qed.
Lemma countb_repeat_true k : countb (repeat true k) = k.
Proof. unfold countb. induction k; cbn; [reflexivity | rewrite IHk; reflexivity]. Qed.

Lemma depot_only_mask l n : length l = S n -> nth 0 l false = true ->
  (forall j, (1 <= j <= n)%nat -> nth j l false = false) -> l = true :: repeat false n.
Proof.
  intros Hl H0 Hj. destruct l as [|h t]; [discriminate|]. cbn in H0. subst h. f_equal.
  cbn in Hl. injection Hl as Hl.
  apply (nth_ext _ _ false false); [rewrite repeat_length; exact Hl|].
  intros k Hk. rewrite nth_repeat. apply (Hj (S k)). lia.
Qed.

Lemma last_rev_hd (c : list nat) d : last (rev c) d = hd d c.
Proof. destruct c as [|x c]; [reflexivity|]. cbn [rev hd]. apply last_last. Qed.

Lemma plen_snoc d l : forall f x, plen d f (l ++ [x]) = plen d f l + d (last l f) x.
Proof.
  induction l as [|y l IH]; intros f x; [cbn; lia|].
  cbn [app plen]. rewrite IH. destruct l as [|z l]; [cbn; lia|].
  rewrite (last_default_irrel l z y f). change (last (y :: z :: l) f) with (last (z :: l) f). lia.
Qed.
Lemma path_len_plen d l : forall f, path_len d f l = plen d f l + d (last l f) 0%nat.
Proof.
  induction l as [|y l IH]; intros f; [cbn; lia|].
  cbn [path_len plen]. rewrite IH. destruct l as [|z l]; [cbn; lia|].
  rewrite (last_default_irrel l z y f). change (last (y :: z :: l) f) with (last (z :: l) f). lia.
Qed.
Lemma plen_nonneg d l : (forall a b, 0 <= d a b) -> forall f, 0 <= plen d f l.
Proof. intros H. induction l as [|y l IH]; intros f; cbn; [lia|]. specialize (IH y). specialize (H f y). lia. Qed.
Lemma walk_len_plen d l : forall f, walk_len d f l = plen d f l + d (last l f) 0%nat.
Proof.
  induction l as [|y l IH]; intros f; [cbn; lia|].
  cbn [walk_len plen]. rewrite IH. destruct l as [|z l]; [cbn; lia|].
  rewrite (last_default_irrel l z y f). change (last (y :: z :: l) f) with (last (z :: l) f). lia.
Qed.

(* number of actions = cities + depot visits; depot visits = sub-tours - 1 *)
Lemma length_routes_aux acts : forall c,
  (length acts + length c + 1 = length (concat (routes_aux acts c)) + length (routes_aux acts c))%nat.
Proof.
  induction acts as [|a r IH]; intros c; cbn [routes_aux].
  - cbn. rewrite app_nil_r, rev_length. lia.
  - destruct (Nat.eqb a 0).
    + cbn [concat length]. rewrite app_length, rev_length. specialize (IH []). cbn [length] in *. lia.
    + specialize (IH (a :: c)). cbn [length] in *. lia.
Qed.
Lemma length_routes acts : (length acts + 1 = length (customers acts) + length (routes acts))%nat.
Proof. pose proof (length_routes_aux acts []) as H. unfold routes. rewrite <- routes_concat. unfold routes. cbn [length] in H. lia. Qed.
Lemma length_concat_nonempty (rs : list (list nat)) : Forall (fun r => r <> []) rs -> (length rs <= length (concat rs))%nat.
Proof. induction 1 as [|r rs Hr _ IH]; cbn; [lia|]. rewrite app_length. destruct r; [congruence|]. cbn. lia. Qed.
Lemma customers_snoc p a : customers (p ++ [a]) = customers p ++ (if Nat.eqb a 0 then [] else [a]).
Proof. unfold customers. rewrite filter_app. cbn. destruct (Nat.eqb a 0); reflexivity. Qed.

Lemma nth_repeat_lt {A} (x d : A) k j : (j < k)%nat -> nth j (repeat x k) d = x.
Proof. revert j; induction k as [|k IH]; intros [|j] H; cbn; try lia; auto. apply IH. lia. Qed.
Lemma nth_true_lt l j : nth j l false = true -> (j < length l)%nat.
Proof. intros H. destruct (Nat.ltb j (length l)) eqn:E; [apply Nat.ltb_lt; exact E|]. apply Nat.ltb_ge in E. rewrite nth_overflow in H by exact E. discriminate. Qed.
Lemma filter_nonempty_le (rs : list (list nat)) : (length (filter nonemptyb rs) <= length rs)%nat.
Proof. induction rs as [|r rs IH]; cbn; [lia|]. destruct (nonemptyb r); cbn; lia. Qed.
Lemma filter_nonempty_all (rs : list (list nat)) : Forall (fun r => r <> []) rs -> filter nonemptyb rs = rs.
Proof. induction 1 as [|r rs Hr _ IH]; cbn; [reflexivity|]. destruct r; [congruence|]. cbn. rewrite IH. reflexivity. Qed.

Section Proofs.
  (* everything below holds for the code as it is and for the repaired code alike unless it says otherwise *)
  Variable C : mtsp_cfg.
  Notation E := (MTSP exact C).

  (* ---------------------------------------------------------------- the step, field by field *)
  Lemma step_dn i s a : dn (mtsp_step exact C i s a) = negb (anyb (tl (set_nth a false (avail s)))).
  Proof. unfold mtsp_step, mtsp_step_g. cbn [dn]. rewrite tl_set_nth_0. reflexivity. Qed.
  Lemma step_avail_tl i s a : tl (avail (mtsp_step exact C i s a)) = tl (set_nth a false (avail s)).
  Proof. unfold mtsp_step, mtsp_step_g. cbn [avail]. rewrite !tl_set_nth_0. reflexivity. Qed.
  Lemma step_avail_len i s a : length (avail (mtsp_step exact C i s a)) = length (avail s).
  Proof. unfold mtsp_step, mtsp_step_g. cbn [avail]. rewrite !set_nth_length. reflexivity. Qed.
  Lemma step_avail_0 i s a : (0 < length (avail s))%nat ->
    nth 0 (avail (mtsp_step exact C i s a)) false =
    dn (mtsp_step exact C i s a) || (negb (Nat.eqb a 0) && (agent s <? nag i - 1)).
  Proof.
    intros H. rewrite step_dn. unfold mtsp_step, mtsp_step_g. cbn [avail].
    rewrite nth_set_nth_eq by (rewrite !set_nth_length; exact H). rewrite tl_set_nth_0. reflexivity.
  Qed.
  Lemma step_avail_S i s a j : nth (S j) (avail (mtsp_step exact C i s a)) false = nth (S j) (set_nth a false (avail s)) false.
  Proof. rewrite <- !nth_tl, step_avail_tl. reflexivity. Qed.
  Lemma step_cur i s a : cur (mtsp_step exact C i s a) = a.
  Proof. reflexivity. Qed.
  Lemma step_agent i s a : agent (mtsp_step exact C i s a) = agent s + (if Nat.eqb a 0 then 1 else 0).
  Proof. reflexivity. Qed.

  Lemma offered_avail i s a : offered (E:=E) i s a = nth a (avail s) false.
  Proof. reflexivity. Qed.

  (* ---------------------------------------------------------------- the invariant (mask / done logic) *)
  (* state s reached after prefix p; cl = the sub-tours closed so far, c = the open sub-tour in reverse *)
  Record Inv (i : mtsp_inst) (p : list nat) (cl : list (list nat)) (c : list nat) (s : mtsp_st) : Prop := {
    inv_len : length (avail s) = nnodes i;
    inv_av : forall j, (1 <= j <= n_of i)%nat -> (nth j (avail s) false = true <-> ~ In j p);
    inv_cnt : forall j, (1 <= j <= n_of i)%nat -> (occ j p <= 1)%nat;
    inv_rng : forall a, In a p -> (a <= n_of i)%nat;
    inv_curc : cur s = hd 0%nat c;
    inv_cnz : Forall (fun x => x <> 0%nat) c;
    inv_dn0 : p = [] -> dn s = false;
    inv_dn1 : p <> [] -> dn s = negb (anyb (tl (avail s)));
    inv_dep : nth 0 (avail s) false = dn s || (negb (Nat.eqb (cur s) 0) && (agent s <? nag i - 1));
    inv_routes : routes p = cl ++ [rev c];
    inv_used : Z.of_nat (used_tours p) <= nag i;
    inv_rem : (countb (tl (avail s)) + length (customers p) = n_of i)%nat;
    inv_open : dn s = false -> agent s = Z.of_nat (length cl) /\ agent s <= nag i - 1 /\ Forall (fun r => r <> []) cl;
  }.

  Lemma reset_inv i : mtsp_wf i -> Inv i [] [] [] (mtsp_reset i).
  Proof.
    intros (HN & _ & _ & Hm). unfold n_of.
    constructor; cbn [mtsp_reset avail cur agent dn hd]; try (intros; reflexivity); try congruence.
    - rewrite set_nth_length, repeat_length. reflexivity.
    - intros j Hj. unfold n_of in Hj. rewrite nth_set_nth_neq by lia. rewrite nth_repeat_lt by lia. split; [intros _ []|reflexivity].
    - intros j Hj. cbn. lia.
    - intros a [].
    - constructor.
    - rewrite nth_set_nth_eq by (rewrite repeat_length; exact HN). reflexivity.
    - cbn. lia.
    - rewrite tl_set_nth_0. unfold n_of. destruct (nnodes i) as [|k]; [lia|]. cbn [repeat tl customers filter length].
      rewrite countb_repeat_true. lia.
    - intros _. cbn [length]. repeat split; try lia. constructor.
  Qed.

  (* a city is offered only while the row is unfinished *)
  Lemma city_offered_not_done i p cl c s a : Inv i p cl c s -> (1 <= a)%nat -> nth a (avail s) false = true -> dn s = false.
  Proof.
    intros HI Ha Ho. destruct p as [|x p]; [apply (inv_dn0 _ _ _ _ _ HI); reflexivity|].
    rewrite (inv_dn1 _ _ _ _ _ HI) by discriminate. apply negb_false_iff.
    apply (anyb_nth_true _ (a - 1)%nat). rewrite nth_tl. replace (S (a - 1)) with a by lia. exact Ho.
  Qed.

  Lemma used_tours_split p cl c : routes p = cl ++ [rev c] ->
    used_tours p = (length (filter nonemptyb cl) + (if c then 0 else 1))%nat.
  Proof.
    intros H. unfold used_tours. rewrite H, filter_app, app_length. f_equal. cbn [filter].
    destruct c as [|x c]; [reflexivity|]. cbn [rev]. destruct (rev c ++ [x]) eqn:E; [destruct (rev c); discriminate | reflexivity].
  Qed.

  Lemma step_inv i p cl c s a :
    mtsp_wf i -> Inv i p cl c s -> offered (E:=E) i s a = true ->
    Inv i (p ++ [a]) (if Nat.eqb a 0 then cl ++ [rev c] else cl) (if Nat.eqb a 0 then [] else a :: c) (mtsp_step exact C i s a).
  Proof.
    intros Hwf HI Ho. rewrite offered_avail in Ho. destruct Hwf as (HN & _ & _ & Hm).
    pose proof (nth_true_lt _ _ Ho) as HaN. rewrite (inv_len _ _ _ _ _ HI) in HaN.
    assert (Hne : p ++ [a] <> []) by (destruct p; discriminate).
    assert (Hdn' : dn (mtsp_step exact C i s a) = negb (anyb (tl (avail (mtsp_step exact C i s a)))))
      by (rewrite step_dn, step_avail_tl; reflexivity).
    pose proof (inv_routes _ _ _ _ _ HI) as HR.
    constructor.
    - rewrite step_avail_len. exact (inv_len _ _ _ _ _ HI).
    - intros j Hj. destruct j as [|j]; [lia|]. rewrite step_avail_S, nth_set_nth, (inv_len _ _ _ _ _ HI).
      replace (Nat.ltb a (nnodes i)) with true by (symmetry; apply Nat.ltb_lt; exact HaN). rewrite andb_true_r.
      rewrite in_app_iff. cbn [In]. destruct (Nat.eqb (S j) a) eqn:Ej.
      + apply Nat.eqb_eq in Ej. split; [discriminate|]. intros H. exfalso. apply H. right. left. symmetry. exact Ej.
      + apply Nat.eqb_neq in Ej. rewrite (inv_av _ _ _ _ _ HI) by exact Hj. split; [intros H [H1|[H1|[]]]; [tauto | congruence] | tauto].
    - intros j Hj. rewrite occ_app, occ_cons, occ_nil. destruct (Nat.eqb a j) eqn:Ej.
      + apply Nat.eqb_eq in Ej. subst j. assert (~ In a p) as Hn by (apply (inv_av _ _ _ _ _ HI); assumption).
        apply occ_not_In in Hn. lia.
      + pose proof (inv_cnt _ _ _ _ _ HI j Hj). lia.
    - intros b Hb. apply in_app_iff in Hb as [Hb|[<-|[]]]; [exact (inv_rng _ _ _ _ _ HI b Hb) | unfold n_of; lia].
    - rewrite step_cur. destruct (Nat.eqb a 0) eqn:Ea; [apply Nat.eqb_eq in Ea; subst; reflexivity | reflexivity].
    - destruct (Nat.eqb a 0) eqn:Ea; [constructor|]. apply Nat.eqb_neq in Ea. constructor; [exact Ea | exact (inv_cnz _ _ _ _ _ HI)].
    - intros H. congruence.
    - intros _. exact Hdn'.
    - rewrite step_avail_0 by (rewrite (inv_len _ _ _ _ _ HI); exact HN). rewrite step_cur, step_agent.
      destruct (Nat.eqb a 0); cbn [negb andb]; [reflexivity|]. rewrite Z.add_0_r. reflexivity.
    - rewrite (routes_snoc _ _ _ a HR). destruct (Nat.eqb a 0); [rewrite <- app_assoc; reflexivity | reflexivity].
    - pose proof (inv_used _ _ _ _ _ HI) as HU. rewrite (used_tours_split _ _ _ HR) in HU.
      assert (HR' : routes (p ++ [a]) = (if Nat.eqb a 0 then cl ++ [rev c] else cl) ++ [rev (if Nat.eqb a 0 then [] else a :: c)]).
      { rewrite (routes_snoc _ _ _ a HR). destruct (Nat.eqb a 0); [rewrite <- app_assoc; reflexivity | reflexivity]. }
      rewrite (used_tours_split _ _ _ HR'). destruct (Nat.eqb a 0) eqn:Ea.
      + rewrite filter_app, app_length. cbn [filter]. destruct c as [|x c]; [cbn [rev nonemptyb length]; lia|].
        cbn [rev]. destruct (rev c ++ [x]) eqn:E; [destruct (rev c); discriminate|]. cbn [nonemptyb length]. lia.
      + destruct c as [|x c]; [|lia]. apply Nat.eqb_neq in Ea.
        pose proof (city_offered_not_done i p cl [] s a HI ltac:(lia) Ho) as Hnd.
        destruct (inv_open _ _ _ _ _ HI Hnd) as (Hag & Hle & _). pose proof (filter_nonempty_le cl). lia.
    - rewrite step_avail_tl. destruct a as [|a].
      + rewrite tl_set_nth_0, customers_snoc. cbn [Nat.eqb]. rewrite app_nil_r. exact (inv_rem _ _ _ _ _ HI).
      + rewrite tl_set_nth_S, customers_snoc. cbn [Nat.eqb]. rewrite app_length. cbn [length].
        pose proof (countb_set_false (tl (avail s)) a) as Hc. rewrite nth_tl in Hc. specialize (Hc Ho).
        pose proof (inv_rem _ _ _ _ _ HI). lia.
    - intros Hd'. rewrite step_agent. destruct (Nat.eqb a 0) eqn:Ea.
      + apply Nat.eqb_eq in Ea. subst a.
        assert (Hd : dn s = false).
        { destruct p as [|x p]; [apply (inv_dn0 _ _ _ _ _ HI); reflexivity|].
          rewrite (inv_dn1 _ _ _ _ _ HI) by discriminate. rewrite step_dn, tl_set_nth_0 in Hd'. exact Hd'. }
        destruct (inv_open _ _ _ _ _ HI Hd) as (Hag & Hle & Hcl).
        pose proof (inv_dep _ _ _ _ _ HI) as Hdep. rewrite Ho, Hd in Hdep. cbn [orb] in Hdep. symmetry in Hdep.
        apply andb_prop in Hdep as [Hc0 Hlt]. apply negb_true_iff, Nat.eqb_neq in Hc0.
        rewrite app_length. cbn [length]. repeat split; try lia.
        apply Forall_app. split; [exact Hcl|]. constructor; [|constructor].
        destruct c as [|x c]; [rewrite (inv_curc _ _ _ _ _ HI) in Hc0; cbn in Hc0; congruence|].
        cbn [rev]. destruct (rev c); discriminate.
      + apply Nat.eqb_neq in Ea.
        pose proof (city_offered_not_done i p cl c s a HI ltac:(lia) Ho) as Hnd.
        destruct (inv_open _ _ _ _ _ HI Hnd) as (Hag & Hle & Hcl). repeat split; try lia. exact Hcl.
  Qed.

  Lemma done_only_depot i p cl c s a : Inv i p cl c s -> dn s = true -> nth a (avail s) false = true -> a = 0%nat.
  Proof.
    intros HI Hd Ho. destruct a as [|a]; [reflexivity|]. exfalso.
    rewrite (city_offered_not_done i p cl c s (S a) HI ltac:(lia) Ho) in Hd. discriminate.
  Qed.

  Lemma open_tour_of_nil i cl c s : Inv i [] cl c s -> c = [].
  Proof.
    intros HI. pose proof (inv_routes _ _ _ _ _ HI) as H. cbn in H. destruct cl as [|h cl].
    - cbn in H. injection H as H. destruct c as [|x c]; [reflexivity|]. cbn in H. destruct (rev c); discriminate.
    - cbn in H. injection H as _ H. destruct cl; discriminate.
  Qed.

  (* an unfinished row that is offered an action has a city left in its mask: the repair's "was_done" test is false *)
  Lemma not_done_city_left i p cl c s a : Inv i p cl c s -> dn s = false -> nth a (avail s) false = true ->
    anyb (tl (avail s)) = true.
  Proof.
    intros HI Hd Ho. destruct a as [|a].
    - destruct p as [|x p].
      + exfalso. pose proof (open_tour_of_nil i cl c s HI) as Hc. subst c.
        pose proof (inv_dep _ _ _ _ _ HI) as Hdep. rewrite Ho, Hd, (inv_curc _ _ _ _ _ HI) in Hdep. cbn in Hdep. discriminate.
      + rewrite (inv_dn1 _ _ _ _ _ HI) in Hd by discriminate. apply negb_false_iff in Hd. exact Hd.
    - apply (anyb_nth_true _ a). rewrite nth_tl. exact Ho.
  Qed.

  (* the depot chosen by an unfinished row leaves it unfinished *)
  Lemma depot_keeps_not_done i p cl c s : Inv i p cl c s -> dn s = false -> nth 0 (avail s) false = true ->
    dn (mtsp_step exact C i s 0) = false.
  Proof.
    intros HI Hd Ho. rewrite step_dn, tl_set_nth_0. rewrite (not_done_city_left i p cl c s 0 HI Hd Ho). reflexivity.
  Qed.

  (* ---------------------------------------------------------------- the accumulators *)
  Definition leg_of (i : mtsp_inst) (s : mtsp_st) (a : nat) : Z :=
    if freeze_done C && negb (anyb (tl (avail s))) then 0 else dfun i (cur s) a.
  Definition cl2_of (i : mtsp_inst) (s : mtsp_st) (a : nat) : Z :=
    if dn (mtsp_step exact C i s a) then curlen s + leg_of i s a + dfun i a 0%nat else curlen s + leg_of i s a.
  Lemma step_maxsub i s a : maxsub (mtsp_step exact C i s a) = Z.max (maxsub s) (cl2_of i s a).
  Proof.
    unfold cl2_of, leg_of, mtsp_step, mtsp_step_g. cbn [maxsub dn rnd exact].
    match goal with |- (if ?b then _ else _) = _ => destruct b eqn:Eb end; lia.
  Qed.
  Lemma step_curlen i s a : curlen (mtsp_step exact C i s a) = if Nat.eqb a 0 then 0 else cl2_of i s a.
  Proof. unfold cl2_of, leg_of, mtsp_step, mtsp_step_g. cbn [curlen dn rnd exact]. reflexivity. Qed.

  (* current_length = length of the open sub-tour so far (without the leg home); max_subtour_length = the longest of
     the closed sub-tours and the open one; once the row is finished (repaired code) max_subtour_length = objective *)
  Record Acc (i : mtsp_inst) (p : list nat) (cl : list (list nat)) (c : list nat) (s : mtsp_st) : Prop := {
    acc_rng : 0 <= curlen s <= maxsub s;
    acc_open : dn s = false ->
               curlen s = plen (dfun i) 0%nat (rev c) /\
               maxsub s = Z.max (maxl (map (route_len (dfun i)) cl)) (curlen s);
    acc_done : freeze_done C = true -> dn s = true -> maxsub s = minmax_len (dfun i) p;
  }.

  Lemma reset_acc i : Acc i [] [] [] (mtsp_reset i).
  Proof. constructor; cbn [mtsp_reset curlen maxsub dn]; [lia | intros _; split; reflexivity | intros _ H; discriminate]. Qed.

  Lemma route_len_open i c : route_len (dfun i) (rev c) = plen (dfun i) 0%nat (rev c) + dfun i (hd 0%nat c) 0%nat.
  Proof. unfold route_len. rewrite path_len_plen, last_rev_hd. reflexivity. Qed.

  (* the step that finishes the row (any configuration): max_subtour_length becomes the minmax objective *)
  Lemma finishing_step_minmax i p cl c s a :
    mtsp_wf i -> Inv i p cl c s -> Acc i p cl c s -> offered (E:=E) i s a = true ->
    dn s = false -> dn (mtsp_step exact C i s a) = true ->
    (1 <= a)%nat /\
    cl2_of i s a = route_len (dfun i) (rev (a :: c)) /\
    maxsub (mtsp_step exact C i s a) = minmax_len (dfun i) (p ++ [a]).
  Proof.
    intros Hwf HI HA Ho Hd Hd'. rewrite offered_avail in Ho. pose proof Hwf as (HN & Hnn & H00 & Hm).
    assert (Ha : (1 <= a)%nat).
    { destruct a as [|a]; [|lia]. rewrite (depot_keeps_not_done i p cl c s HI Hd Ho) in Hd'. discriminate. }
    destruct (acc_open _ _ _ _ _ HA Hd) as (Hcl & Hmx). pose proof (acc_rng _ _ _ _ _ HA) as Hr.
    assert (Hc2 : cl2_of i s a = route_len (dfun i) (rev (a :: c))).
    { unfold cl2_of, leg_of. rewrite Hd', (not_done_city_left i p cl c s a HI Hd Ho). cbn [negb]. rewrite andb_false_r.
      rewrite route_len_open. cbn [rev hd]. rewrite plen_snoc, last_rev_hd, <- (inv_curc _ _ _ _ _ HI), Hcl. lia. }
    split; [exact Ha|]. split; [exact Hc2|].
    rewrite step_maxsub, Hc2. unfold minmax_len.
    rewrite (routes_snoc _ _ _ a (inv_routes _ _ _ _ _ HI)). replace (Nat.eqb a 0) with false by (symmetry; apply Nat.eqb_neq; lia).
    rewrite map_app, maxl_app. cbn [map maxl fold_right rev].
    pose proof (maxl_nonneg (map (route_len (dfun i)) cl)).
    assert (curlen s <= route_len (dfun i) (rev c ++ [a])).
    { change (rev c ++ [a]) with (rev (a :: c)). rewrite <- Hc2. unfold cl2_of, leg_of. rewrite Hd', (not_done_city_left i p cl c s a HI Hd Ho).
      cbn [negb]. rewrite andb_false_r. pose proof (Hnn (cur s) a). pose proof (Hnn a 0%nat). lia. }
    cbn [rev] in *. lia.
  Qed.

  Lemma step_acc i p cl c s a :
    mtsp_wf i -> Inv i p cl c s -> Acc i p cl c s -> offered (E:=E) i s a = true ->
    Acc i (p ++ [a]) (if Nat.eqb a 0 then cl ++ [rev c] else cl) (if Nat.eqb a 0 then [] else a :: c) (mtsp_step exact C i s a).
  Proof.
    intros Hwf HI HA Ho. pose proof Ho as Ho'. rewrite offered_avail in Ho. pose proof Hwf as (HN & Hnn & H00 & Hm).
    pose proof (acc_rng _ _ _ _ _ HA) as Hr.
    destruct (dn s) eqn:Hd.
    - (* padding step of a finished row *)
      pose proof (done_only_depot i p cl c s a HI Hd Ho) as ->. cbn [Nat.eqb].
      assert (Hp : p <> []) by (intros ->; rewrite (inv_dn0 _ _ _ _ _ HI eq_refl) in Hd; discriminate).
      assert (Hany : anyb (tl (avail s)) = false).
      { rewrite (inv_dn1 _ _ _ _ _ HI Hp) in Hd. apply negb_true_iff in Hd. exact Hd. }
      assert (Hd' : dn (mtsp_step exact C i s 0) = true) by (rewrite step_dn, tl_set_nth_0, Hany; reflexivity).
      assert (Hc2 : 0 <= cl2_of i s 0).
      { unfold cl2_of, leg_of. rewrite Hd', Hany. cbn [negb]. destruct (freeze_done C); cbn [andb]; [lia|].
        pose proof (Hnn (cur s) 0%nat). lia. }
      constructor.
      + rewrite step_curlen, step_maxsub. cbn [Nat.eqb]. lia.
      + rewrite Hd'. discriminate.
      + intros Hf _. rewrite step_maxsub.
        assert (E2 : cl2_of i s 0 = curlen s).
        { unfold cl2_of, leg_of. rewrite Hd', Hany, Hf. cbn [negb andb]. lia. }
        rewrite E2. pose proof (acc_done _ _ _ _ _ HA Hf Hd) as HM.
        change [0%nat] with (repeat 0%nat 1). rewrite minmax_len_pad by exact H00. lia.
    - destruct (acc_open _ _ _ _ _ HA Hd) as (Hcl & Hmx).
      pose proof (not_done_city_left i p cl c s a HI Hd Ho) as Hany.
      destruct (dn (mtsp_step exact C i s a)) eqn:Hd'.
      + (* the finishing step *)
        destruct (finishing_step_minmax i p cl c s a Hwf HI HA Ho' Hd Hd') as (Ha & Hc2 & Hmm).
        replace (Nat.eqb a 0) with false by (symmetry; apply Nat.eqb_neq; lia).
        assert (0 <= cl2_of i s a).
        { unfold cl2_of, leg_of. rewrite Hd', Hany. cbn [negb]. rewrite andb_false_r. pose proof (Hnn (cur s) a). pose proof (Hnn a 0%nat). lia. }
        constructor.
        * rewrite step_curlen, step_maxsub. replace (Nat.eqb a 0) with false by (symmetry; apply Nat.eqb_neq; lia). lia.
        * rewrite Hd'. discriminate.
        * intros _ _. exact Hmm.
      + assert (Hc2 : cl2_of i s a = curlen s + dfun i (cur s) a).
        { unfold cl2_of, leg_of. rewrite Hd', Hany. cbn [negb]. rewrite andb_false_r. reflexivity. }
        pose proof (Hnn (cur s) a) as Hleg.
        constructor.
        * rewrite step_curlen, step_maxsub, Hc2. destruct (Nat.eqb a 0); lia.
        * intros _. rewrite step_curlen, step_maxsub, Hc2. destruct (Nat.eqb a 0) eqn:Ea.
          -- apply Nat.eqb_eq in Ea. subst a. split; [reflexivity|].
             rewrite map_app, maxl_app. cbn [map maxl fold_right]. rewrite route_len_open, <- (inv_curc _ _ _ _ _ HI), <- Hcl.
             pose proof (maxl_nonneg (map (route_len (dfun i)) cl)). lia.
          -- split; [cbn [rev]; rewrite plen_snoc, last_rev_hd, <- (inv_curc _ _ _ _ _ HI), Hcl; reflexivity | lia].
        * intros _ H. rewrite Hd' in H. discriminate.
  Qed.

  (* both invariants along an admitted action list *)
  Lemma adm_invs i acts : mtsp_wf i -> adm (E:=E) i acts = true ->
    exists cl c, Inv i acts cl c (run (E:=E) i acts) /\ Acc i acts cl c (run (E:=E) i acts).
  Proof.
    intros Hwf. apply (adm_invariant E i (fun p s => exists cl c, Inv i p cl c s /\ Acc i p cl c s)).
    - exists [], []. split; [apply reset_inv; exact Hwf | apply reset_acc].
    - intros p s a (cl & c & HI & HA) Ho. eexists _, _. split; [eapply step_inv | eapply step_acc]; eassumption.
  Qed.

  Lemma adm_inv i acts : mtsp_wf i -> adm (E:=E) i acts = true -> exists cl c, Inv i acts cl c (run (E:=E) i acts).
  Proof. intros Hwf Ha. destruct (adm_invs i acts Hwf Ha) as (cl & c & HI & _). exists cl, c. exact HI. Qed.

  Lemma done_all_visited i p cl c s j : Inv i p cl c s -> dn s = true -> (1 <= j <= n_of i)%nat -> In j p.
  Proof.
    intros HI Hd Hj. assert (Hp : p <> []) by (intros ->; rewrite (inv_dn0 _ _ _ _ _ HI eq_refl) in Hd; discriminate).
    rewrite (inv_dn1 _ _ _ _ _ HI Hp) in Hd. apply negb_true_iff in Hd.
    pose proof (anyb_false_nth _ (j - 1)%nat Hd) as Hn. rewrite nth_tl in Hn. replace (S (j - 1)) with j in Hn by lia.
    destruct (in_dec Nat.eq_dec j p) as [H|H]; [exact H|]. apply (inv_av _ _ _ _ _ HI j Hj) in H. congruence.
  Qed.

  (* ================================================================ C01 *)
  Theorem mtsp_mask_sound i acts :
    mtsp_wf i -> adm (E:=E) i acts = true -> done E i (run (E:=E) i acts) = true ->
    mtsp_feasible (n_of i) (nag i) acts.
  Proof.
    intros Hwf Hadm Hd. destruct (adm_inv i acts Hwf Hadm) as (cl & c & HI). cbn [done MTSP mtsp_done] in Hd.
    split; [|split].
    - intros j Hj. pose proof (inv_cnt _ _ _ _ _ HI j Hj). pose proof (done_all_visited i acts cl c _ j HI Hd Hj) as Hin.
      apply occ_In in Hin. lia.
    - exact (inv_rng _ _ _ _ _ HI).
    - exact (inv_used _ _ _ _ _ HI).
  Qed.

  (* ================================================================ C02 *)
  Theorem mtsp_step_ok i acts a :
    mtsp_wf i -> adm (E:=E) i acts = true -> offered (E:=E) i (run (E:=E) i acts) a = true ->
    stepok E i (run (E:=E) i acts) a = true.
  Proof.
    intros Hwf Hadm Ho. destruct (adm_inv i acts Hwf Hadm) as (cl & c & HI). rewrite offered_avail in Ho.
    cbn [stepok MTSP]. unfold mtsp_stepok. apply Nat.ltb_lt. rewrite <- (inv_len _ _ _ _ _ HI). apply nth_true_lt. exact Ho.
  Qed.

  Lemma anyb_tl l : anyb (tl l) = true -> anyb l = true.
  Proof. destruct l as [|h t]; [discriminate|]. cbn [tl]. unfold anyb. cbn [existsb]. intros ->. apply orb_true_r. Qed.

  Theorem mtsp_no_dead_end i acts :
    mtsp_wf i -> mtsp_solvable i -> adm (E:=E) i acts = true -> anyb (mask E i (run (E:=E) i acts)) = true.
  Proof.
    intros Hwf Hsol Hadm. destruct (adm_inv i acts Hwf Hadm) as (cl & c & HI). cbn [mask MTSP]. unfold mtsp_mask.
    set (s := run (E:=E) i acts) in *. destruct (dn s) eqn:Hd.
    - apply (anyb_nth_true _ 0). rewrite (inv_dep _ _ _ _ _ HI), Hd. reflexivity.
    - apply anyb_tl. destruct acts as [|x acts].
      + apply (anyb_nth_true _ 0). rewrite nth_tl. apply (inv_av _ _ _ _ _ HI); [unfold mtsp_solvable in Hsol; lia | intros []].
      + rewrite (inv_dn1 _ _ _ _ _ HI) in Hd by discriminate. apply negb_false_iff in Hd. exact Hd.
  Qed.

  Theorem mtsp_done_stable i acts a :
    mtsp_wf i -> adm (E:=E) i (acts ++ [a]) = true -> done E i (run (E:=E) i acts) = true ->
    done E i (run (E:=E) i (acts ++ [a])) = true.
  Proof.
    intros Hwf Hadm Hd. rewrite adm_snoc in Hadm. apply andb_prop in Hadm as [Hadm Ho].
    destruct (adm_inv i acts Hwf Hadm) as (cl & c & HI). rewrite run_snoc.
    set (s := run (E:=E) i acts) in *. change (dn s = true) in Hd. change (dn (mtsp_step exact C i s a) = true).
    rewrite offered_avail in Ho. pose proof (done_only_depot i acts cl c _ a HI Hd Ho) as ->.
    assert (Hp : acts <> []) by (intros Hnil; rewrite (inv_dn0 _ _ _ _ _ HI Hnil) in Hd; discriminate).
    rewrite step_dn, tl_set_nth_0. rewrite (inv_dn1 _ _ _ _ _ HI Hp) in Hd. exact Hd.
  Qed.

  (* the explicit measure: cities still available + agents still unused *)
  Definition mu (i : mtsp_inst) (s : mtsp_st) : Z := Z.of_nat (countb (tl (avail s))) + (nag i - 1 - agent s).

  Lemma mu_reset i : mtsp_wf i -> mu i (mtsp_reset i) = Z.of_nat (n_of i) + nag i - 1.
  Proof.
    intros Hwf. pose proof (inv_rem _ _ _ _ _ (reset_inv i Hwf)) as H. cbn [customers filter length] in H.
    unfold mu. cbn [agent mtsp_reset] in *. lia.
  Qed.

  (* every step of an unfinished row decreases the measure by exactly one, and the measure is positive before it *)
  Lemma mu_step i p cl c s a :
    mtsp_wf i -> Inv i p cl c s -> dn s = false -> offered (E:=E) i s a = true ->
    mu i (mtsp_step exact C i s a) = mu i s - 1 /\ 1 <= mu i s.
  Proof.
    intros Hwf HI Hd Ho. rewrite offered_avail in Ho. unfold mu. rewrite step_avail_tl, step_agent.
    destruct (inv_open _ _ _ _ _ HI Hd) as (Hag & Hle & _).
    destruct a as [|a].
    - rewrite tl_set_nth_0. cbn [Nat.eqb].
      pose proof (inv_dep _ _ _ _ _ HI) as Hdep. rewrite Ho, Hd in Hdep. cbn [orb] in Hdep. symmetry in Hdep.
      apply andb_prop in Hdep as [_ Hlt]. lia.
    - rewrite tl_set_nth_S. cbn [Nat.eqb].
      pose proof (countb_set_false (tl (avail s)) a) as Hc. rewrite nth_tl in Hc. specialize (Hc Ho). lia.
  Qed.

  Theorem mtsp_bound_measure i acts :
    mtsp_wf i -> adm (E:=E) i acts = true ->
    (forall p q, acts = p ++ q -> q <> [] -> done E i (run (E:=E) i p) = false) ->
    Z.of_nat (length acts) + mu i (run (E:=E) i acts) = Z.of_nat (n_of i) + nag i - 1 /\
    0 <= mu i (run (E:=E) i acts) /\
    Z.of_nat (length acts) <= Z.of_nat (n_of i) + nag i - 1.
  Proof.
    intros Hwf Hadm Hnd.
    assert (G : forall p q, acts = p ++ q ->
              Z.of_nat (length p) + mu i (run (E:=E) i p) = Z.of_nat (n_of i) + nag i - 1 /\ 0 <= mu i (run (E:=E) i p)).
    { intros p. induction p as [|a p IH] using rev_ind; intros q Hq.
      - unfold run. cbn [run_from reset MTSP length]. rewrite mu_reset by exact Hwf. destruct Hwf as (_ & _ & _ & Hm). lia.
      - rewrite <- app_assoc in Hq. destruct (IH _ Hq) as [He _].
        assert (Hadm' : adm (E:=E) i (p ++ [a]) = true).
        { rewrite Hq in Hadm. rewrite app_assoc in Hadm. apply adm_prefix in Hadm. exact Hadm. }
        rewrite adm_snoc in Hadm'. apply andb_prop in Hadm' as [Hap Hoa].
        destruct (adm_inv i p Hwf Hap) as (cl & c & HI).
        pose proof (Hnd p ([a] ++ q) Hq ltac:(discriminate)) as Hd. cbn [done MTSP mtsp_done] in Hd.
        destruct (mu_step i p cl c _ a Hwf HI Hd Hoa) as [Hs Hpos].
        rewrite run_snoc, app_length. cbn [length step MTSP]. lia. }
    destruct (G acts [] (eq_sym (app_nil_r acts))) as [H1 H2]. repeat split; lia.
  Qed.

  (* the sharp bound: n cities plus at most min(m - 1, n - 1) depot returns *)
  Theorem mtsp_bound i acts :
    mtsp_wf i -> adm (E:=E) i acts = true ->
    (forall p q, acts = p ++ q -> q <> [] -> done E i (run (E:=E) i p) = false) ->
    (length acts <= n_of i + Nat.min (Z.to_nat (nag i - 1)) (n_of i - 1))%nat.
  Proof.
    intros Hwf Hadm Hnd. destruct acts as [|a p] using rev_ind; [cbn; lia|]. clear IHp.
    pose proof Hadm as Hadm'. rewrite adm_snoc in Hadm'. apply andb_prop in Hadm' as [Hap Hoa].
    destruct (adm_inv i p Hwf Hap) as (cl & c & HI).
    pose proof (Hnd p [a] eq_refl ltac:(discriminate)) as Hd. cbn [done MTSP mtsp_done] in Hd.
    rewrite offered_avail in Hoa.
    pose proof (countb_pos_anyb _ (not_done_city_left i p cl c _ a HI Hd Hoa)) as Hcb.
    pose proof (inv_rem _ _ _ _ _ HI) as Hrem.
    destruct (inv_open _ _ _ _ _ HI Hd) as (Hag & Hle & Hcl).
    pose proof (length_concat_nonempty cl Hcl) as Hcc.
    pose proof (length_routes p) as Hlr. rewrite (inv_routes _ _ _ _ _ HI), app_length in Hlr. cbn [length] in Hlr.
    assert (Hcu : length (customers p) = (length (concat cl) + length c)%nat).
    { rewrite <- routes_concat, (inv_routes _ _ _ _ _ HI), concat_app, app_length. cbn [concat]. rewrite app_nil_r, rev_length. reflexivity. }
    rewrite app_length. cbn [length]. lia.
  Qed.

  (* ================================================================ C03 *)
  (* accumulator invariant, as a statement about the specification's sub-tours *)
  Theorem mtsp_accumulators i acts :
    mtsp_wf i -> adm (E:=E) i acts = true -> done E i (run (E:=E) i acts) = false ->
    exists cl o, routes acts = cl ++ [o] /\
      curlen (run (E:=E) i acts) = plen (dfun i) 0%nat o /\
      maxsub (run (E:=E) i acts) = Z.max (maxl (map (route_len (dfun i)) cl)) (curlen (run (E:=E) i acts)).
  Proof.
    intros Hwf Hadm Hd. destruct (adm_invs i acts Hwf Hadm) as (cl & c & HI & HA).
    destruct (acc_open _ _ _ _ _ HA Hd) as [H1 H2]. exists cl, (rev c). split; [exact (inv_routes _ _ _ _ _ HI)|]. split; assumption.
  Qed.

  (* minmax, code as it is or repaired: at the step that finishes the row the reward is minus the longest closed sub-tour *)
  Theorem mtsp_minmax_reward_episode i p a :
    mtsp_wf i -> adm (E:=E) i (p ++ [a]) = true ->
    done E i (run (E:=E) i p) = false -> done E i (run (E:=E) i (p ++ [a])) = true ->
    mtsp_reward_minmax (run (E:=E) i (p ++ [a])) = - minmax_len (dfun i) (p ++ [a]).
  Proof.
    intros Hwf Hadm Hd Hd'. rewrite adm_snoc in Hadm. apply andb_prop in Hadm as [Hap Hoa].
    destruct (adm_invs i p Hwf Hap) as (cl & c & HI & HA). rewrite run_snoc in *. cbn [done MTSP mtsp_done step] in *.
    destruct (finishing_step_minmax i p cl c _ a Hwf HI HA Hoa Hd Hd') as (_ & _ & H). unfold mtsp_reward_minmax. rewrite H. reflexivity.
  Qed.

  (* minmax, repaired code: for EVERY admitted action list of a finished row, padding included *)
  Theorem mtsp_minmax_reward_repaired i acts :
    freeze_done C = true ->
    mtsp_wf i -> adm (E:=E) i acts = true -> done E i (run (E:=E) i acts) = true ->
    mtsp_reward_minmax (run (E:=E) i acts) = - minmax_len (dfun i) acts.
  Proof.
    intros Hf Hwf Hadm Hd. destruct (adm_invs i acts Hwf Hadm) as (cl & c & HI & HA).
    unfold mtsp_reward_minmax. rewrite (acc_done _ _ _ _ _ HA Hf Hd). reflexivity.
  Qed.

  (* sum, repaired code: any action list *)
  Theorem mtsp_sum_reward_repaired i acts :
    sum_anchored C = true -> dfun i 0%nat 0%nat = 0 ->
    mtsp_reward_sum C i acts = Some (- sum_len (dfun i) acts).
  Proof.
    intros Hs H00. unfold mtsp_reward_sum, sum_len. rewrite Hs. rewrite <- cyclic_len_is_total_len by exact H00.
    unfold cyclic_len. rewrite walk_len_plen. reflexivity.
  Qed.

  (* sum, code as it is: correct only with exactly num_loc actions the last of which is the depot *)
  Theorem mtsp_sum_reward_partial i b :
    sum_anchored C = false -> dfun i 0%nat 0%nat = 0 -> length (b ++ [0%nat]) = nnodes i ->
    mtsp_reward_sum C i (b ++ [0%nat]) = Some (- sum_len (dfun i) (b ++ [0%nat])).
  Proof.
    intros Hs H00 Hl. unfold mtsp_reward_sum, sum_len. rewrite Hs, Hl, Nat.eqb_refl. f_equal. f_equal.
    rewrite <- cyclic_len_is_total_len by exact H00. unfold cyclic_len, tsp_cycle.
    destruct b as [|a0 b]; [cbn; lia|]. cbn [app walk_len]. rewrite walk_len_plen, !last_last. lia.
  Qed.

  (* ================================================================ C04 (padding) *)
  Lemma done_mask i p cl c s : mtsp_wf i -> Inv i p cl c s -> dn s = true -> avail s = true :: repeat false (n_of i).
  Proof.
    intros (HN & _) HI Hd. apply depot_only_mask.
    - rewrite (inv_len _ _ _ _ _ HI). unfold n_of. lia.
    - rewrite (inv_dep _ _ _ _ _ HI), Hd. reflexivity.
    - intros j Hj. destruct (nth j (avail s) false) eqn:Ev; [|reflexivity]. exfalso.
      apply (inv_av _ _ _ _ _ HI j Hj) in Ev. apply Ev. eapply done_all_visited; eassumption.
  Qed.

  (* once finished: the depot is offered and only the depot, the row stays finished, the mask does not change;
     under the repairs neither reward changes *)
  Theorem mtsp_padding i acts k :
    mtsp_wf i -> adm (E:=E) i acts = true -> done E i (run (E:=E) i acts) = true ->
    let pad := repeat 0%nat k in
    adm (E:=E) i (acts ++ pad) = true /\
    done E i (run (E:=E) i (acts ++ pad)) = true /\
    mask E i (run (E:=E) i (acts ++ pad)) = true :: repeat false (n_of i) /\
    (freeze_done C = true -> mtsp_reward_minmax (run (E:=E) i (acts ++ pad)) = mtsp_reward_minmax (run (E:=E) i acts)) /\
    (sum_anchored C = true -> mtsp_reward_sum C i (acts ++ pad) = mtsp_reward_sum C i acts).
  Proof.
    intros Hwf Hadm Hd. cbv zeta. pose proof Hwf as (_ & _ & H00 & _).
    assert (G : adm (E:=E) i (acts ++ repeat 0%nat k) = true /\ done E i (run (E:=E) i (acts ++ repeat 0%nat k)) = true).
    { induction k as [|k IH]; [cbn [repeat]; rewrite app_nil_r; split; assumption|].
      destruct IH as [IH1 IH2].
      replace (repeat 0%nat (S k)) with (repeat 0%nat k ++ [0%nat]) by (symmetry; apply (repeat_cons k 0%nat)).
      rewrite app_assoc. destruct (adm_inv i _ Hwf IH1) as (cl & c & HI).
      assert (Ho : offered (E:=E) i (run (E:=E) i (acts ++ repeat 0%nat k)) 0 = true).
      { rewrite offered_avail, (done_mask i _ cl c _ Hwf HI IH2). reflexivity. }
      assert (Ha : adm (E:=E) i ((acts ++ repeat 0%nat k) ++ [0%nat]) = true) by (rewrite adm_snoc, IH1, Ho; reflexivity).
      split; [exact Ha | apply mtsp_done_stable; assumption]. }
    destruct G as [G1 G2]. destruct (adm_inv i _ Hwf G1) as (cl & c & HI).
    repeat split; auto.
    - cbn [mask MTSP]. unfold mtsp_mask. exact (done_mask i _ cl c _ Hwf HI G2).
    - intros Hf. rewrite !mtsp_minmax_reward_repaired by assumption. rewrite minmax_len_pad by exact H00. reflexivity.
    - intros Hs. rewrite !mtsp_sum_reward_repaired by assumption. rewrite sum_len_pad by exact H00. reflexivity.
  Qed.

  (* ================================================================ C05 *)
  Lemma adm_cities i : mtsp_wf i -> forall r p cl c s,
    Inv i p cl c s -> NoDup r -> (forall x, In x r -> (1 <= x <= n_of i)%nat /\ ~ In x p) ->
    adm_from (E:=E) i s r = true /\ Inv i (p ++ r) cl (rev r ++ c) (run_from (E:=E) i s r).
  Proof.
    intros Hwf r. induction r as [|x r IH]; intros p cl c s HI Hnd Hin.
    - cbn. rewrite app_nil_r. split; [reflexivity | exact HI].
    - cbn [adm_from run_from]. destruct (Hin x (or_introl eq_refl)) as [Hx Hxp].
      assert (Ho : offered (E:=E) i s x = true) by (rewrite offered_avail; apply (inv_av _ _ _ _ _ HI x Hx); exact Hxp).
      pose proof (step_inv i p cl c s x Hwf HI Ho) as HI'.
      replace (Nat.eqb x 0) with false in HI' by (symmetry; apply Nat.eqb_neq; lia).
      inversion Hnd as [|? ? Hxr Hnd']; subst.
      destruct (IH (p ++ [x]) cl (x :: c) _ HI' Hnd') as [Ha HI''].
      + intros y Hy. destruct (Hin y (or_intror Hy)) as [Hy1 Hy2]. split; [exact Hy1|].
        intros Hc. apply in_app_iff in Hc as [Hc|[Hc|[]]]; [tauto | subst; tauto].
      + cbn [step MTSP] in *. rewrite Ho, Ha. split; [reflexivity|]. cbn [rev]. rewrite <- !app_assoc in *. exact HI''.
  Qed.

  Lemma adm_tours i : mtsp_wf i -> forall rs p cl s,
    Inv i p cl [] s -> rs <> [] ->
    Forall (fun r => r <> []) rs -> NoDup (concat rs) ->
    (forall x, In x (concat rs) -> (1 <= x <= n_of i)%nat /\ ~ In x p) ->
    Z.of_nat (length cl) + Z.of_nat (length rs) <= nag i ->
    adm_from (E:=E) i s (join0 rs) = true /\
    exists cl' c', Inv i (p ++ join0 rs) cl' c' (run_from (E:=E) i s (join0 rs)).
  Proof.
    intros Hwf rs. induction rs as [|r rs IH]; intros p cl s HI Hne Hnn Hnd Hin Hm; [congruence|].
    inversion Hnn as [|? ? Hr Hnn']; subst. cbn [concat] in Hnd, Hin.
    pose proof (NoDup_app_l _ _ Hnd) as Hndr.
    destruct (adm_cities i Hwf r p cl [] s HI Hndr) as [Ha1 HI1].
    { intros x Hx. apply Hin. apply in_app_iff. left. exact Hx. }
    rewrite app_nil_r in HI1.
    cbn [join0]. destruct rs as [|r2 rest].
    - split; [exact Ha1|]. exists cl, (rev r). exact HI1.
    - set (s1 := run_from (E:=E) i s r) in *.
      (* a city of the next sub-tour is still available: the row is unfinished *)
      inversion Hnn' as [|? ? Hr2 _]; subst. destruct r2 as [|y r2]; [congruence|].
      assert (Hy : (1 <= y <= n_of i)%nat /\ ~ In y (p ++ r)).
      { destruct (Hin y) as [Hy1 Hy2]; [apply in_app_iff; right; cbn; left; reflexivity|]. split; [exact Hy1|].
        intros Hc. apply in_app_iff in Hc as [Hc|Hc]; [tauto|].
        apply (NoDup_app_disj _ _ y Hnd Hc). cbn. left. reflexivity. }
      assert (Hav : nth y (avail s1) false = true) by (apply (inv_av _ _ _ _ _ HI1 y (proj1 Hy)); exact (proj2 Hy)).
      pose proof (city_offered_not_done i _ _ _ s1 y HI1 ltac:(lia) Hav) as Hd1.
      destruct (inv_open _ _ _ _ _ HI1 Hd1) as (Hag & _ & _).
      assert (Hc1 : cur s1 <> 0%nat).
      { rewrite (inv_curc _ _ _ _ _ HI1). pose proof (inv_cnz _ _ _ _ _ HI1) as Hz.
        destruct (rev r) as [|z t] eqn:Er; [apply (f_equal (@length nat)) in Er; rewrite rev_length in Er; destruct r; [congruence | discriminate]|].
        inversion Hz; subst. cbn. assumption. }
      assert (Ho : offered (E:=E) i s1 0 = true).
      { rewrite offered_avail, (inv_dep _ _ _ _ _ HI1), Hd1. apply Nat.eqb_neq in Hc1. rewrite Hc1. cbn [negb orb andb length] in *. lia. }
      pose proof (step_inv i _ _ _ s1 0%nat Hwf HI1 Ho) as HI2. cbn [Nat.eqb] in HI2.
      destruct (IH ((p ++ r) ++ [0%nat]) (cl ++ [rev (rev r)]) _ HI2 ltac:(discriminate) Hnn') as [Ha3 (cl' & c' & HI3)].
      + apply NoDup_app_r in Hnd. exact Hnd.
      + intros x Hx. destruct (Hin x) as [Hx1 Hx2]; [apply in_app_iff; right; exact Hx|]. split; [exact Hx1|].
        intros Hc. apply in_app_iff in Hc as [Hc|[Hc|[]]]; [|lia].
        apply in_app_iff in Hc as [Hc|Hc]; [tauto|]. exact (NoDup_app_disj _ _ x Hnd Hc Hx).
      + rewrite app_length. cbn [length] in *. lia.
      + split.
        * rewrite adm_from_app, Ha1. cbn [andb]. fold s1. cbn [adm_from]. rewrite Ho. cbn [andb]. exact Ha3.
        * exists cl', c'. rewrite run_from_app. fold s1. cbn [run_from]. rewrite <- !app_assoc in HI3. cbn [app] in HI3. exact HI3.
  Qed.

  Lemma in_concat_join0 rs x : In x (concat rs) -> In x (join0 rs).
  Proof.
    induction rs as [|r rs IH]; [intros []|]. cbn [concat join0]. intros H. apply in_app_iff in H as [H|H].
    - destruct rs; [exact H | apply in_app_iff; left; exact H].
    - destruct rs as [|r2 rs]; [destruct H|]. apply in_app_iff. right. right. apply IH. exact H.
  Qed.

  (* EVERY canonical solution (non-empty sub-tours, at most m of them, partitioning the cities, any orders) is
     reachable through the mask, finishes the row, and decodes back to the same sub-tours *)
  Theorem mtsp_mask_complete i rs :
    mtsp_wf i -> rs <> [] -> Forall (fun r => r <> []) rs -> Z.of_nat (length rs) <= nag i ->
    NoDup (concat rs) -> (forall x, In x (concat rs) <-> (1 <= x <= n_of i)%nat) ->
    adm (E:=E) i (join0 rs) = true /\
    done E i (run (E:=E) i (join0 rs)) = true /\
    routes (join0 rs) = rs.
  Proof.
    intros Hwf Hne Hnn Hm Hnd Hin.
    destruct (adm_tours i Hwf rs [] [] _ (reset_inv i Hwf) Hne Hnn Hnd) as [Ha (cl & c & HI)].
    { intros x Hx. split; [apply Hin; exact Hx | intros []]. }
    { cbn [length]. lia. }
    split; [exact Ha|]. cbn [app] in HI. split.
    - unfold run in *. cbn [reset MTSP] in *.
      set (s := run_from (E:=E) i (mtsp_reset i) (join0 rs)) in *. change (dn s = true).
      assert (Hp : join0 rs <> []).
      { destruct rs as [|r rs]; [congruence|]. inversion Hnn; subst. cbn [join0]. destruct rs; [assumption|]. destruct r; [congruence | discriminate]. }
      rewrite (inv_dn1 _ _ _ _ _ HI Hp). apply negb_true_iff. apply anyb_false_intro. intros j Hj.
      rewrite length_tl, (inv_len _ _ _ _ _ HI) in Hj. rewrite nth_tl.
      destruct (nth (S j) (avail s) false) eqn:Ev; [|reflexivity]. exfalso.
      assert (Hj' : (1 <= S j <= n_of i)%nat) by (unfold n_of; lia).
      apply (inv_av _ _ _ _ _ HI (S j) Hj') in Ev. apply Ev. apply in_concat_join0. apply Hin. exact Hj'.
    - apply routes_join0; [exact Hne|]. apply Forall_forall. intros r Hr. apply Forall_forall. intros x Hx.
      assert (In x (concat rs)) as Hc by (apply in_concat; exists r; split; assumption). apply Hin in Hc. lia.
  Qed.

  (* any solution of the problem, empty sub-tours allowed: its canonical form is reachable and costs the same *)
  Corollary mtsp_optimum_reachable i rs :
    mtsp_wf i -> mtsp_solvable i -> mtsp_solution (n_of i) (nag i) rs ->
    let acts := join0 (canon rs) in
    adm (E:=E) i acts = true /\ done E i (run (E:=E) i acts) = true /\
    minmax_len (dfun i) acts = tours_minmax (dfun i) rs /\
    sum_len (dfun i) acts = tours_sum (dfun i) rs.
  Proof.
    intros Hwf Hsol Hs. cbv zeta. pose proof Hwf as (_ & _ & H00 & _).
    destruct (canon_solution _ _ _ Hs) as (Hm & Hnd & Hin).
    assert (Hne : canon rs <> []).
    { intros Hc. rewrite Hc in Hin. cbn in Hin. apply (proj2 (Hin 1%nat)). unfold mtsp_solvable in Hsol. lia. }
    destruct (mtsp_mask_complete i (canon rs) Hwf Hne (canon_nonempty rs) Hm Hnd Hin) as (Ha & Hd & Hr).
    repeat split; auto.
    - unfold minmax_len. rewrite Hr. apply canon_minmax. exact H00.
    - unfold sum_len, total_len. rewrite Hr. apply canon_sum. exact H00.
  Qed.
End Proofs.

(* ================================================================ C04 (batch-global first-step test) *)
(* the batched step, which reads td["i"] of row 0 for every row, is the row-wise step whenever all rows share the
   step counter; the shared counter is preserved *)
Theorem mtsp_bstep_rowwise (A : arith) (C : mtsp_cfg) rows acts k :
  Forall (fun r => cnt (snd r) = k) rows ->
  mtsp_bstep A C rows acts = mtsp_rowwise A C rows acts /\
  Forall (fun s => cnt s = S k) (mtsp_bstep A C rows acts).
Proof.
  intros H. destruct rows as [|[i0 s0] rows]; [split; [reflexivity | constructor]|].
  assert (H0 : cnt s0 = k) by (inversion H as [|? ? Hh _]; exact Hh).
  unfold mtsp_bstep, mtsp_rowwise. split.
  - apply map_ext_in. intros [[i s] a] Hin. cbn [fst snd]. unfold mtsp_step.
    apply in_combine_l in Hin. rewrite Forall_forall in H. specialize (H _ Hin). cbn [snd] in H. rewrite H, H0. reflexivity.
  - apply Forall_forall. intros s Hs. apply in_map_iff in Hs as ([[i s1] a] & <- & Hin). cbn [fst snd mtsp_step_g cnt].
    apply in_combine_l in Hin. rewrite Forall_forall in H. specialize (H _ Hin). cbn [snd] in H. rewrite H. reflexivity.
Qed.

(* ================================================================ the same theorems, hypotheses as booleans *)
Notation EF := (MTSP exact cfg_faithful).
Notation ER := (MTSP exact cfg_repaired).

Lemma mtsp_mask_sound_b C i acts :
  mtsp_wfb i = true -> adm (E:=MTSP exact C) i acts = true -> done (MTSP exact C) i (run (E:=MTSP exact C) i acts) = true ->
  (forall j, (1 <= j <= n_of i)%nat -> occ j acts = 1%nat) /\
  (forall a, In a acts -> (a <= n_of i)%nat) /\
  Z.of_nat (length (filter nonemptyb (routes acts))) <= nag i.
Proof. intros H. apply mtsp_mask_sound. apply mtsp_wfb_ok. exact H. Qed.

Lemma mtsp_no_dead_end_b C i acts :
  mtsp_wfb i = true -> mtsp_solvableb i = true -> adm (E:=MTSP exact C) i acts = true ->
  anyb (mask (MTSP exact C) i (run (E:=MTSP exact C) i acts)) = true.
Proof. intros H1 H2. apply mtsp_no_dead_end; [apply mtsp_wfb_ok; exact H1 | apply mtsp_solvableb_ok; exact H2]. Qed.

Lemma mtsp_done_stable_b C i acts a :
  mtsp_wfb i = true -> adm (E:=MTSP exact C) i (acts ++ [a]) = true ->
  done (MTSP exact C) i (run (E:=MTSP exact C) i acts) = true ->
  done (MTSP exact C) i (run (E:=MTSP exact C) i (acts ++ [a])) = true.
Proof. intros H. apply mtsp_done_stable. apply mtsp_wfb_ok. exact H. Qed.

Lemma mtsp_step_ok_b C i acts a :
  mtsp_wfb i = true -> adm (E:=MTSP exact C) i acts = true ->
  offered (E:=MTSP exact C) i (run (E:=MTSP exact C) i acts) a = true ->
  stepok (MTSP exact C) i (run (E:=MTSP exact C) i acts) a = true.
Proof. intros H. apply mtsp_step_ok. apply mtsp_wfb_ok. exact H. Qed.

Lemma mtsp_bound_b C i acts :
  mtsp_wfb i = true -> adm (E:=MTSP exact C) i acts = true ->
  (forall p q, acts = p ++ q -> q <> [] -> done (MTSP exact C) i (run (E:=MTSP exact C) i p) = false) ->
  (length acts <= n_of i + Nat.min (Z.to_nat (nag i - 1)) (n_of i - 1))%nat.
Proof. intros H. apply mtsp_bound. apply mtsp_wfb_ok. exact H. Qed.

(* the measure, spelled out: (number of cities still offered) + (num_agents - 1 - agent_idx) *)
Lemma mtsp_bound_measure_b C i acts :
  mtsp_wfb i = true -> adm (E:=MTSP exact C) i acts = true ->
  (forall p q, acts = p ++ q -> q <> [] -> done (MTSP exact C) i (run (E:=MTSP exact C) i p) = false) ->
  let s := run (E:=MTSP exact C) i acts in
  let measure := Z.of_nat (countb (tl (avail s))) + (nag i - 1 - agent s) in
  Z.of_nat (length acts) + measure = Z.of_nat (n_of i) + nag i - 1 /\
  0 <= measure /\
  Z.of_nat (length acts) <= Z.of_nat (n_of i) + nag i - 1.
Proof. intros H. apply mtsp_bound_measure. apply mtsp_wfb_ok. exact H. Qed.

Lemma mtsp_accumulators_b C i acts :
  mtsp_wfb i = true -> adm (E:=MTSP exact C) i acts = true -> done (MTSP exact C) i (run (E:=MTSP exact C) i acts) = false ->
  exists cl o, routes acts = cl ++ [o] /\
    curlen (run (E:=MTSP exact C) i acts) = plen (dfun i) 0%nat o /\
    maxsub (run (E:=MTSP exact C) i acts) =
      Z.max (maxl (map (route_len (dfun i)) cl)) (curlen (run (E:=MTSP exact C) i acts)).
Proof. intros H. apply mtsp_accumulators. apply mtsp_wfb_ok. exact H. Qed.

Lemma mtsp_minmax_reward_episode_b C i p a :
  mtsp_wfb i = true -> adm (E:=MTSP exact C) i (p ++ [a]) = true ->
  done (MTSP exact C) i (run (E:=MTSP exact C) i p) = false ->
  done (MTSP exact C) i (run (E:=MTSP exact C) i (p ++ [a])) = true ->
  - maxsub (run (E:=MTSP exact C) i (p ++ [a])) = - maxl (map (route_len (dfun i)) (routes (p ++ [a]))).
Proof. intros H. apply mtsp_minmax_reward_episode. apply mtsp_wfb_ok. exact H. Qed.

Lemma mtsp_minmax_reward_repaired_b i acts :
  mtsp_wfb i = true -> adm (E:=ER) i acts = true -> done ER i (run (E:=ER) i acts) = true ->
  - maxsub (run (E:=ER) i acts) = - maxl (map (route_len (dfun i)) (routes acts)).
Proof. intros H. apply (mtsp_minmax_reward_repaired cfg_repaired); [reflexivity | apply mtsp_wfb_ok; exact H]. Qed.

Lemma mtsp_sum_reward_repaired_b i acts :
  mget (dist i) 0 0 = 0 ->
  mtsp_reward_sum cfg_repaired i acts = Some (- sumZ (map (route_len (dfun i)) (routes acts))).
Proof. intros H. apply (mtsp_sum_reward_repaired cfg_repaired); [reflexivity | exact H]. Qed.

Lemma mtsp_sum_reward_partial_b i b :
  mget (dist i) 0 0 = 0 -> length (b ++ [0%nat]) = nnodes i ->
  mtsp_reward_sum cfg_faithful i (b ++ [0%nat]) = Some (- sumZ (map (route_len (dfun i)) (routes (b ++ [0%nat])))).
Proof. intros H. apply (mtsp_sum_reward_partial cfg_faithful); [reflexivity | exact H]. Qed.

Lemma mtsp_padding_mask_done_b C i acts k :
  mtsp_wfb i = true -> adm (E:=MTSP exact C) i acts = true -> done (MTSP exact C) i (run (E:=MTSP exact C) i acts) = true ->
  adm (E:=MTSP exact C) i (acts ++ repeat 0%nat k) = true /\
  done (MTSP exact C) i (run (E:=MTSP exact C) i (acts ++ repeat 0%nat k)) = true /\
  mask (MTSP exact C) i (run (E:=MTSP exact C) i (acts ++ repeat 0%nat k)) = true :: repeat false (n_of i).
Proof.
  intros H Ha Hd. destruct (mtsp_padding C i acts k (mtsp_wfb_ok i H) Ha Hd) as (H1 & H2 & H3 & _). auto.
Qed.

Lemma mtsp_padding_inert_repaired_b i acts k :
  mtsp_wfb i = true -> adm (E:=ER) i acts = true -> done ER i (run (E:=ER) i acts) = true ->
  adm (E:=ER) i (acts ++ repeat 0%nat k) = true /\
  done ER i (run (E:=ER) i (acts ++ repeat 0%nat k)) = true /\
  mask ER i (run (E:=ER) i (acts ++ repeat 0%nat k)) = true :: repeat false (n_of i) /\
  - maxsub (run (E:=ER) i (acts ++ repeat 0%nat k)) = - maxsub (run (E:=ER) i acts) /\
  mtsp_reward_sum cfg_repaired i (acts ++ repeat 0%nat k) = mtsp_reward_sum cfg_repaired i acts.
Proof.
  intros H Ha Hd. destruct (mtsp_padding cfg_repaired i acts k (mtsp_wfb_ok i H) Ha Hd) as (H1 & H2 & H3 & H4 & H5).
  split; [exact H1|]. split; [exact H2|]. split; [exact H3|]. split; [apply H4; reflexivity | apply H5; reflexivity].
Qed.

Lemma mtsp_mask_complete_b C i rs :
  mtsp_wfb i = true -> rs <> [] -> Forall (fun r => r <> []) rs -> Z.of_nat (length rs) <= nag i ->
  NoDup (concat rs) -> (forall x, In x (concat rs) <-> (1 <= x <= n_of i)%nat) ->
  adm (E:=MTSP exact C) i (join0 rs) = true /\
  done (MTSP exact C) i (run (E:=MTSP exact C) i (join0 rs)) = true /\
  routes (join0 rs) = rs.
Proof. intros H. apply mtsp_mask_complete. apply mtsp_wfb_ok. exact H. Qed.

Lemma mtsp_optimum_reachable_b C i rs :
  mtsp_wfb i = true -> mtsp_solvableb i = true ->
  Z.of_nat (length rs) <= nag i -> NoDup (concat rs) -> (forall x, In x (concat rs) <-> (1 <= x <= n_of i)%nat) ->
  let acts := join0 (filter nonemptyb rs) in
  adm (E:=MTSP exact C) i acts = true /\ done (MTSP exact C) i (run (E:=MTSP exact C) i acts) = true /\
  maxl (map (route_len (dfun i)) (routes acts)) = maxl (map (route_len (dfun i)) rs) /\
  sumZ (map (route_len (dfun i)) (routes acts)) = sumZ (map (route_len (dfun i)) rs).
Proof.
  intros H1 H2 H3 H4 H5. apply (mtsp_optimum_reachable C i rs (mtsp_wfb_ok i H1) (proj1 (mtsp_solvableb_ok i) H2)).
  split; [exact H3 | split; [exact H4 | exact H5]].
Qed.

(* ================================================================ witnesses: the code as it is *)
(* depot and one city at distance 3: finishing gives max_subtour_length 6 (out and back); ONE padding step re-adds the
   leg home: 9.  Same instance, same actions, the reward depends on whether a slower batch-mate forces a padding step *)
Definition wit1 : mtsp_inst := {| nag := 2; dist := [[0; 3]; [3; 0]] |}.
Theorem mtsp_padding_changes_reward_refuted :
  exists i acts,
    mtsp_wfb i = true /\ adm (E:=EF) i acts = true /\ done EF i (run (E:=EF) i acts) = true /\
    adm (E:=EF) i (acts ++ [0%nat]) = true /\
    mtsp_reward_minmax (run (E:=EF) i acts) = -6 /\
    mtsp_reward_minmax (run (E:=EF) i (acts ++ [0%nat])) = -9 /\
    - minmax_len (dfun i) (acts ++ [0%nat]) = -6.
Proof. exists wit1, [1%nat]. vm_compute. repeat split; reflexivity. Qed.

(* depot and two cities, d01 = 3, d02 = 4, d12 = 5 *)
Definition wit2 (m : Z) : mtsp_inst := {| nag := m; dist := [[0; 3; 4]; [3; 0; 5]; [4; 5; 0]] |}.
(* "sum": one tour over both cities has 2 actions, not num_loc = 3: the gather raises *)
Theorem mtsp_sum_reward_raises_refuted :
  exists i acts,
    mtsp_wfb i = true /\ adm (E:=EF) i acts = true /\ done EF i (run (E:=EF) i acts) = true /\
    mtsp_reward_sum cfg_faithful i acts = None.
Proof. exists (wit2 1), [1%nat; 2%nat]. vm_compute. repeat split; reflexivity. Qed.
(* "sum": two tours [1] and [2] have 3 = num_loc actions; the reward is the triangle 1-0-2-1 = 12, the objective 6 + 8 = 14 *)
Theorem mtsp_sum_reward_unanchored_refuted :
  exists i acts,
    mtsp_wfb i = true /\ adm (E:=EF) i acts = true /\ done EF i (run (E:=EF) i acts) = true /\
    mtsp_reward_sum cfg_faithful i acts = Some (-12) /\ - sum_len (dfun i) acts = -14.
Proof. exists (wit2 2), [1%nat; 0%nat; 2%nat]. vm_compute. repeat split; reflexivity. Qed.
(* "sum" under padding: raises, then correct with one padding step, then raises again *)
Theorem mtsp_sum_padding_changes_reward_refuted :
  exists i acts,
    mtsp_wfb i = true /\ adm (E:=EF) i acts = true /\ done EF i (run (E:=EF) i acts) = true /\
    mtsp_reward_sum cfg_faithful i acts = None /\
    mtsp_reward_sum cfg_faithful i (acts ++ [0%nat]) = Some (-12) /\
    mtsp_reward_sum cfg_faithful i (acts ++ [0%nat; 0%nat]) = None.
Proof. exists (wit2 1), [1%nat; 2%nat]. vm_compute. repeat split; reflexivity. Qed.

(* "sum", one city: the single action is broadcast, the reward is 0 where the objective is -6 *)
Theorem mtsp_sum_reward_single_action_refuted :
  exists i acts,
    mtsp_wfb i = true /\ adm (E:=EF) i acts = true /\ done EF i (run (E:=EF) i acts) = true /\
    mtsp_reward_sum cfg_faithful i acts = Some 0 /\ - sum_len (dfun i) acts = -6.
Proof. exists wit1, [1%nat]. vm_compute. repeat split; reflexivity. Qed.

(* hypotheses are needed *)
Example mtsp_dead_end_without_city :
  let i := {| nag := 1; dist := [[0]] |} in
  mtsp_wfb i = true /\ mtsp_solvableb i = false /\ anyb (mask EF i (run (E:=EF) i [])) = false.
Proof. vm_compute. auto. Qed.
Example mtsp_zero_agents_infeasible :
  let i := {| nag := 0; dist := [[0; 3]; [3; 0]] |} in
  mtsp_wfb i = false /\ adm (E:=EF) i [1%nat] = true /\ done EF i (run (E:=EF) i [1%nat]) = true /\
  mtsp_feasibleb (n_of i) (nag i) [1%nat] = false.
Proof. vm_compute. auto. Qed.
(* the bound is attained: n = 3, m = 2 gives 3 + min(1, 2) = 4; n = 2, m = 5 gives 2 + min(4, 1) = 3 *)
Example mtsp_bound_tight :
  let i := {| nag := 2; dist := [[0;1;1;1];[1;0;1;1];[1;1;0;1];[1;1;1;0]] |} in
  adm (E:=EF) i [1;0;2;3]%nat = true /\ done EF i (run (E:=EF) i [1;0;2;3]%nat) = true /\
  done EF i (run (E:=EF) i [1;0;2]%nat) = false /\
  adm (E:=EF) (wit2 5) [1;0;2]%nat = true /\ done EF (wit2 5) (run (E:=EF) (wit2 5) [1;0;2]%nat) = true /\
  offered (E:=EF) (wit2 5) (run (E:=EF) (wit2 5) [1;0]%nat) 0 = false.
Proof. vm_compute. auto 10. Qed.
(* without a shared step counter the batched first-step test differs from the row-wise one (first_node only) *)
Example mtsp_bstep_needs_shared_counter :
  let s0 := mtsp_reset wit1 in
  let s1 := mtsp_step exact cfg_faithful wit1 s0 1 in
  mtsp_bstep exact cfg_faithful [(wit1, s0); (wit1, s1)] [1%nat; 0%nat]
  <> mtsp_rowwise exact cfg_faithful [(wit1, s0); (wit1, s1)] [1%nat; 0%nat].
Proof. vm_compute. discriminate. Qed.
