(* CVRPEnv (rl4co/envs/routing/cvrp/env.py), one batch row, bookkeeping variable by variable.
   Node 0 is the depot, customers are 1..n.  All quantities are scaled integers; [A : arith] is the rounding
   applied where the code performs a float32 operation. *)
From Coq Require Import ZArith List Bool Lia ZifyBool Arith.
From RL4CO Require Import Base.Num Base.EnvSig Base.SortNat.
Import ListNotations.
Open Scope Z_scope.

Record cvrp_inst := {
  dem : list Z;            (* td["demand"], customers only *)
  cap : Z;                 (* td["vehicle_capacity"] *)
  dist : list (list Z);    (* pairwise distances of td["locs"] (depot first), used by the reward only *)
  tol : Z;                 (* the constant 1e-5 of check_solution_validity, scaled *)
}.
Definition n_of (i : cvrp_inst) : nat := length (dem i).
Definition demand (i : cvrp_inst) (j : nat) : Z := nth (j - 1) (dem i) 0.   (* demand of customer j >= 1 *)

Record cvrp_st := { cur : nat; used : Z; vis : list bool }.

Section Model.
  Variable A : arith.

  Definition cvrp_reset (i : cvrp_inst) : cvrp_st :=
    {| cur := 0; used := 0; vis := repeat false (S (n_of i)) |}.

  (* gather_by_index(demand, clamp(a - 1, 0, n - 1)) *)
  Definition clampidx (i : cvrp_inst) (a : nat) : nat := Nat.min (a - 1) (n_of i - 1).

  Definition cvrp_step (i : cvrp_inst) (s : cvrp_st) (a : nat) : cvrp_st :=
    {| cur := a;
       used := if Nat.eqb a 0 then 0 else rnd A (used s + nth (clampidx i a) (dem i) 0);
       vis := set_nth a true (vis s) |}.

  (* scatter / gather indices must be inside the tensors *)
  Definition cvrp_stepok (i : cvrp_inst) (s : cvrp_st) (a : nat) : bool := Nat.leb a (n_of i) && Nat.ltb 0 (n_of i).

  Definition cvrp_done (i : cvrp_inst) (s : cvrp_st) : bool := allb (vis s).

  (* True = masked out, as in the code, before the final negation *)
  Definition exceeds (i : cvrp_inst) (s : cvrp_st) (j : nat) : bool := cap i <? rnd A (demand i j + used s).
  Definition mask_loc (i : cvrp_inst) (s : cvrp_st) (j : nat) : bool := nth j (vis s) false || exceeds i s j.
  Definition locs (i : cvrp_inst) : list nat := seq 1 (n_of i).
  Definition mask_depot (i : cvrp_inst) (s : cvrp_st) : bool :=
    Nat.eqb (cur s) 0 && existsb (fun j => negb (mask_loc i s j)) (locs i).
  Definition cvrp_mask (i : cvrp_inst) (s : cvrp_st) : list bool :=
    negb (mask_depot i s) :: map (fun j => negb (mask_loc i s j)) (locs i).

  Definition CVRP : Env := {|
    inst := cvrp_inst; st := cvrp_st;
    reset := cvrp_reset; step := cvrp_step; stepok := cvrp_stepok; mask := cvrp_mask; done := cvrp_done |}.

  (* check_solution_validity: sorted actions = zeros ++ [1..n]; running load with reset at the depot *)
  Definition sorted_ok (i : cvrp_inst) (acts : list nat) : bool :=
    let n := n_of i in
    let s := sort_nat acts in
    Nat.leb n (length acts) &&
    forallb (Nat.eqb 0) (firstn (length acts - n) s) &&
    (if list_eq_dec Nat.eq_dec (skipn (length acts - n) s) (seq 1 n) then true else false).
  Fixpoint load_ok (i : cvrp_inst) (u : Z) (acts : list nat) : bool :=
    match acts with
    | [] => true
    | a :: r =>
        let d := if Nat.eqb a 0 then - cap i else demand i a in
        let u1 := rnd A (u + d) in
        let u2 := if u1 <? 0 then 0 else u1 in
        (u2 <=? rnd A (cap i + tol i)) && load_ok i u2 r
    end.
  Definition cvrp_checker (i : cvrp_inst) (acts : list nat) : bool := sorted_ok i acts && load_ok i 0 acts.
End Model.

(* _get_reward: minus the cyclic length of depot :: actions (exact sum; the implementation's float sum is
   compared with a tolerance) *)
Definition dfun (i : cvrp_inst) (a b : nat) : Z := mget (dist i) a b.
