(* Env/SchedGuards.v -- the misuse guards of the scheduling environments that are BATCH-global asserts, written on whole
   batches, and what they let through.

   FFSPEnv.pre_step(td)   (rl4co/envs/scheduling/ffsp/env.py)
       td["machine_idx"] = tables.get_machine_index(batch_idx, sub_time_idx)
       td = self._update_step_state(td)        # action_mask, stage_idx, stage_machine_idx; its own assert:
                                               #   (job_mask[:, :-1].sum(1) > 0  |  done).all()
       assert (td["stage_idx"] == 0).all(), "call pre_step only at beginning of env"
       assert torch.all(td["stage_machine_idx"] == td["machine_idx"])
   is the call MatNet's multi-start flow makes right after reset / batchify.  [pre_row] is what it writes into one row,
   [pre_row_ok] the row's conjunct of the three `.all()` asserts, [b_pre_step] the call on a batch (None = AssertionError).
   Theorems: right after reset the call is the identity and does not raise (any batch of well-formed instances); as soon as
   ONE row of the batch is at a machine of a later stage the call raises for the whole batch; if it returns, every row is
   at stage 0.   (The corresponding guard of FJSPEnv._get_reward, `assert td["done"].all()`, is Env/SchedBatch.v b_reward /
   fjsp_breward_needs_all_done.) *)
From Coq Require Import ZArith List Bool Lia ZifyBool Arith.
From RL4CO Require Import Base.FFSPLists Spec.FlowShop Env.FFSP Env.FFSPProofs.
Import ListNotations.
Import FFSP.
Import FFSPProofs.
Local Open Scope Z_scope.

(* td["machine_idx"] = machine_table[row][sub_time_idx] *)
Definition set_mach (i : inst) (s : st) : st :=
  {| time := time s; sub := sub s; mach := nth (sub s) (mtab i) 0%nat; mws := mws s; jws := jws s; jloc := jloc s;
     sched := sched s; done := done s; amask := amask s; stage_idx := stage_idx s; sm_idx := sm_idx s |}.
Definition pre_row (i : inst) (s : st) : st := upd i (set_mach i s).
(* the row's part of the asserts, evaluated on the row pre_step has just rewritten *)
Definition pre_row_ok (i : inst) (s' : st) : bool :=
  (existsb (fun b => b) (firstn (nJ i) (amask s')) || done s')      (* _update_step_state: some real job offered, or done *)
  && (stage_idx s' =? 0)%nat                                          (* "call pre_step only at beginning of env" *)
  && (sm_idx s' =? mach s')%nat.                                      (* stage_machine_idx == machine_idx *)
Definition b_pre_step (rows : list (inst * st)) : option (list st) :=
  let outs := map (fun r => pre_row (fst r) (snd r)) rows in
  if forallb (fun r => pre_row_ok (fst r) (pre_row (fst r) (snd r))) rows then Some outs else None.

(* ---------------------------------------------------------------- right after reset: identity, no assert fires *)
Lemma pre_row_reset i : WF i -> pre_row i (reset i) = reset i.
Proof.
  intros W. unfold pre_row, upd, set_mach. cbn [time sub mach mws jws jloc sched done reset].
  pose proof (reset_dec i W) as D. pose proof (d_mask i _ D) as E. cbn [reset amask sub] in E.
  unfold mask_of in *. cbn [sub jloc jws done time mach mws sched amask stage_idx sm_idx reset] in *.
  unfold reset. f_equal. symmetry. exact E.
Qed.

Lemma pre_row_ok_reset i : WF i -> pre_row_ok i (reset i) = true.
Proof.
  intros W. pose proof (wf_J i W) as HJ. unfold pre_row_ok. cbn [reset amask done stage_idx sm_idx mach].
  rewrite (stage_zero i W). cbn [Nat.eqb andb].
  replace (sm_of i 0 =? nth 0 (mtab i) 0)%nat with true.
  - rewrite andb_true_r, orb_false_r. destruct (nJ i) as [|n]; [lia|]. reflexivity.
  - symmetry. apply Nat.eqb_eq. unfold sm_of. rewrite (stage_zero i W). destruct (flat i); lia.
Qed.

Theorem ffsp_pre_step_after_reset (insts : list inst) :
  Forall (fun i => wfb i = true) insts ->
  b_pre_step (map (fun i => (i, reset i)) insts) = Some (map reset insts).
Proof.
  intros HF. unfold b_pre_step. rewrite !map_map. cbn [fst snd].
  assert (E : forallb (fun r : inst * st => pre_row_ok (fst r) (pre_row (fst r) (snd r))) (map (fun i => (i, reset i)) insts) = true).
  { apply forallb_forall. intros r Hr. apply in_map_iff in Hr as [i [<- Hi]]. cbn [fst snd].
    rewrite Forall_forall in HF. pose proof (wfb_WF i (HF i Hi)) as W. rewrite (pre_row_reset i W). apply pre_row_ok_reset. exact W. }
  rewrite E. f_equal. apply map_ext_in. intros i Hi. rewrite Forall_forall in HF. apply pre_row_reset. apply wfb_WF. apply HF. exact Hi.
Qed.

(* ---------------------------------------------------------------- the guard is batch-global: one row past stage 0 is enough *)
Lemma pre_row_stage i s : stage_idx (pre_row i s) = stage_of i (sub s).
Proof. reflexivity. Qed.

Theorem ffsp_pre_step_refuses_running_batch (rows : list (inst * st)) :
  (exists r, In r rows /\ stage_of (fst r) (sub (snd r)) <> 0%nat) -> b_pre_step rows = None.
Proof.
  intros (r & Hr & Hs). unfold b_pre_step.
  destruct (forallb _ rows) eqn:E; [|reflexivity]. exfalso.
  rewrite forallb_forall in E. specialize (E r Hr). unfold pre_row_ok in E.
  apply andb_prop in E as [E _]. apply andb_prop in E as [_ E]. rewrite pre_row_stage in E.
  apply Nat.eqb_eq in E. contradiction.
Qed.

Theorem ffsp_pre_step_rowwise (rows : list (inst * st)) (outs : list st) :
  b_pre_step rows = Some outs ->
  outs = map (fun r => pre_row (fst r) (snd r)) rows /\
  forall r, In r rows -> stage_of (fst r) (sub (snd r)) = 0%nat.
Proof.
  unfold b_pre_step. destruct (forallb _ rows) eqn:E; [|discriminate]. intros H. inversion H; subst. split; [reflexivity|].
  intros r Hr. rewrite forallb_forall in E. specialize (E r Hr). unfold pre_row_ok in E.
  apply andb_prop in E as [E _]. apply andb_prop in E as [_ E]. rewrite pre_row_stage in E. apply Nat.eqb_eq in E. exact E.
Qed.

(* ---------------------------------------------------------------- non-vacuity: a reset row next to a row two steps into its episode *)
Example ffsp_pre_step_examples :
  wfb ex_i = true /\
  b_pre_step [(ex_i, reset ex_i); (ex_i, reset ex_i)] = Some [reset ex_i; reset ex_i] /\
  match run ex_i (reset ex_i) [1; 0; 2]%nat with
  | Some s => stage_of ex_i (sub s) = 1%nat /\ b_pre_step [(ex_i, reset ex_i); (ex_i, s)] = None /\ b_pre_step [(ex_i, s)] = None
  | None => False
  end.
Proof. vm_compute. repeat split; reflexivity. Qed.
