(* C09 -- TSPkoptEnv._local_operator, branch k_max > 2: UNBOUNDED validity of the relinking loop.
   For every n >= 3, every k and every action in "S-move form" (the form produced by the sequential builder:
   the old order seen from a0 is a0 :: S1 ++ ... ++ Sm ++ R, the scattered links are a0 -> last S1,
   hd S1 -> last S2, ..., hd Sm -> first node after Sm), the operator returns the single cycle
   a0 :: rev S1 ++ ... ++ rev Sm ++ R.  The builder side is in ImproveKoptBuilder.v. *)
From Coq Require Import ZArith List Bool Lia ZifyBool Arith Permutation.
From RL4CO Require Import Env.Improve Env.ImproveKopt.
Import ListNotations.

(* ------------------------------------------------------------------ scatter, as a fold over (index, value) pairs *)

Definition scat_ps (ps : list (nat * nat)) (rec : list nat) : list nat :=
  fold_left (fun r iv => set_nth (fst iv) (snd iv) r) ps rec.

Lemma scatter_scat_ps rec idx vals : scatter rec idx vals = scat_ps (combine idx vals) rec.
Proof. reflexivity. Qed.

Lemma scat_ps_length ps : forall rec, length (scat_ps ps rec) = length rec.
Proof.
  induction ps as [|p ps IH]; intros rec; [reflexivity|]. unfold scat_ps in *. cbn [fold_left].
  rewrite IH. apply set_nth_length.
Qed.

Lemma scat_ps_notin ps : forall rec v, ~ In v (map fst ps) -> nxt (scat_ps ps rec) v = nxt rec v.
Proof.
  induction ps as [|p ps IH]; intros rec v Hn; [reflexivity|].
  unfold scat_ps in *. cbn [fold_left]. rewrite IH by (intros Hi; apply Hn; right; exact Hi).
  unfold nxt. apply nth_set_nth_neq. intros ->. apply Hn. left. reflexivity.
Qed.

(* no index is written with two different values *)
Definition functional (ps : list (nat * nat)) : Prop :=
  forall i x y, In (i, x) ps -> In (i, y) ps -> x = y.

Lemma scat_ps_in ps : forall rec i x, functional ps -> In (i, x) ps -> i < length rec ->
  nxt (scat_ps ps rec) i = x.
Proof.
  induction ps as [|p ps IH]; intros rec i x Hf Hin Hi; [destruct Hin|].
  assert (Hf' : functional ps).
  { intros j a b Ha Hb. apply (Hf j); right; assumption. }
  unfold scat_ps in *. cbn [fold_left].
  destruct (in_dec Nat.eq_dec i (map fst ps)) as [Hd|Hd].
  - apply in_map_iff in Hd as [[j y] [Ej Hy]]. cbn [fst] in Ej. subst j.
    assert (E : y = x) by (apply (Hf i); [right; exact Hy|exact Hin]). subst y.
    apply IH; [exact Hf'|exact Hy|rewrite set_nth_length; exact Hi].
  - destruct Hin as [->|Hin].
    + fold (scat_ps ps (set_nth (fst (i, x)) (snd (i, x)) rec)). rewrite scat_ps_notin by exact Hd.
      cbn [fst snd]. unfold nxt. apply nth_set_nth_eq. exact Hi.
    + exfalso. apply Hd. apply in_map_iff. exists (i, x). split; [reflexivity|exact Hin].
Qed.

Lemma NoDup_fst_functional ps : NoDup (map fst ps) -> functional ps.
Proof.
  induction ps as [|[j v] ps IH]; intros Hnd i x y Hx Hy; [destruct Hx|].
  cbn [map fst] in Hnd. apply NoDup_cons_iff in Hnd as [Hh Hnd].
  destruct Hx as [Ex|Hx], Hy as [Ey|Hy].
  - congruence.
  - inversion Ex; subst. exfalso. apply Hh. apply in_map_iff. exists (i, y). split; [reflexivity|exact Hy].
  - inversion Ey; subst. exfalso. apply Hh. apply in_map_iff. exists (i, x). split; [reflexivity|exact Hx].
  - apply (IH Hnd i); assumption.
Qed.

(* the executable duplicate check of ImproveKopt.v follows from functionality *)
Lemma functional_scatter_consistent : forall idx vals,
  functional (combine idx vals) -> scatter_consistent idx vals = true.
Proof.
  induction idx as [|i idx IH]; intros vals Hf; [reflexivity|].
  destruct vals as [|v vals]; [reflexivity|]. cbn [scatter_consistent]. apply andb_true_intro. split.
  - apply forallb_forall. intros [j w] Hin. cbn [fst snd].
    destruct (Nat.eqb j i) eqn:E; [|reflexivity]. apply Nat.eqb_eq in E. subst j. cbn [negb orb].
    apply Nat.eqb_eq. apply (Hf i); [right; exact Hin|left; reflexivity].
  - apply IH. intros j a b Ha Hb. apply (Hf j); right; assumption.
Qed.

(* ------------------------------------------------------------------ the relinking loop, locally *)

Definition kcond (ags rn : list nat) (u v : nat) : bool :=
  negb (Nat.eqb u (nth v ags 0)) && negb (mem v rn).

(* Processing the nodes L = t_1 .. t_j that follow c = t_0 in the TARGET successor array tg: provided the
   value the loop body writes at each t_i is the target one, the loop installs tg on L and touches nothing else. *)
Lemma kopt_loop ags rn tg : forall L c rec0,
  NoDup (c :: L) -> chain tg (c :: L) -> nxt rec0 c = nxt tg c ->
  (forall v, In v L -> v < length rec0) ->
  (forall u v, In u (c :: L) -> In v L -> nxt tg u = v ->
     (if kcond ags rn u v then nth v ags 0 else nxt rec0 v) = nxt tg v) ->
  let res := fst (iterate (k_opt_body ags rn) (length L) (rec0, c)) in
  length res = length rec0 /\ (forall v, In v L -> nxt res v = nxt tg v) /\
  (forall v, ~ In v L -> nxt res v = nxt rec0 v).
Proof.
  induction L as [|v L IH]; intros c rec0 Hnd Hch Hc Hr Hw.
  - cbn. repeat split; auto. intros v [].
  - apply chain_cons2 in Hch as [Ecv Hch].
    apply NoDup_cons_iff in Hnd as [Hcn Hnd].
    pose proof Hnd as Hnd'. apply NoDup_cons_iff in Hnd' as [HvL _].
    assert (Hstep : k_opt_body ags rn (rec0, c) = (set_nth v (nxt tg v) rec0, v)).
    { unfold k_opt_body. cbn [fst snd]. rewrite Hc, Ecv. f_equal. f_equal.
      apply (Hw c v); [left; reflexivity|left; reflexivity|exact Ecv]. }
    cbn [length iterate]. rewrite Hstep.
    set (rec1 := set_nth v (nxt tg v) rec0).
    assert (Hl1 : length rec1 = length rec0) by apply set_nth_length.
    assert (Hv : v < length rec0) by (apply Hr; left; reflexivity).
    destruct (IH v rec1 Hnd Hch) as [Hlen [Hin Hout]].
    + unfold rec1, nxt at 1. apply nth_set_nth_eq. exact Hv.
    + intros x Hx. rewrite Hl1. apply Hr. right. exact Hx.
    + intros u w Hu Hw' E.
      assert (Hne : w <> v) by (intros ->; exact (HvL Hw')).
      unfold rec1, nxt at 1. rewrite nth_set_nth_neq by exact Hne.
      apply Hw; [right; exact Hu|right; exact Hw'|exact E].
    + split; [rewrite Hlen; exact Hl1|]. split.
      * intros x [<-|Hx]; [|apply Hin; exact Hx].
        rewrite Hout by exact HvL. unfold rec1, nxt at 1. apply nth_set_nth_eq. exact Hv.
      * intros x Hx. rewrite Hout by (intros Hi; apply Hx; right; exact Hi).
        unfold rec1, nxt at 1. apply nth_set_nth_neq. intros ->. apply Hx. left. reflexivity.
Qed.

(* ------------------------------------------------------------------ list vocabulary for Sg-moves *)

(* the scattered links of an Sg-move: x -> last S1, hd S1 -> last S2, ..., hd Sm -> z *)
Fixpoint pairs (x : nat) (Ss : list (list nat)) (z : nat) : list (nat * nat) :=
  match Ss with [] => [(x, z)] | Sg :: Ss' => (x, last Sg 0) :: pairs (hd 0 Sg) Ss' z end.

Definition heads (Ss : list (list nat)) : list nat := map (hd 0) Ss.
(* the nodes whose link is reversed by the loop: everything in a segment but its head *)
Definition RV (Ss : list (list nat)) : list nat := concat (map (@tl nat) Ss).

Lemma pairs_fst Ss : forall x z, map fst (pairs x Ss z) = x :: heads Ss.
Proof. induction Ss as [|Sg Ss IH]; intros x z; [reflexivity|]. cbn [pairs map fst heads]. f_equal. apply IH. Qed.

Lemma concat_heads_perm Ss : Forall (fun Sg => Sg <> []) Ss -> Permutation (concat Ss) (heads Ss ++ RV Ss).
Proof.
  induction 1 as [|Sg Ss HS _ IH]; [constructor|].
  destruct Sg as [|h t]; [congruence|]. unfold heads, RV in *. cbn [concat map hd tl app].
  constructor. rewrite IH. apply Permutation_app_swap_app.
Qed.

Lemma concat_rev_perm (Ss : list (list nat)) : Permutation (concat (map (@rev nat) Ss)) (concat Ss).
Proof.
  induction Ss as [|Sg Ss IH]; [constructor|]. cbn [map concat].
  apply Permutation_app; [apply Permutation_sym, Permutation_rev|exact IH].
Qed.

Lemma in_RV Ss Sg v : In Sg Ss -> In v (tl Sg) -> In v (RV Ss).
Proof. intros HS Hv. unfold RV. apply in_concat. exists (tl Sg). split; [apply in_map; exact HS|exact Hv]. Qed.

Lemma in_heads Ss Sg : In Sg Ss -> In (hd 0 Sg) (heads Ss).
Proof. intros HS. unfold heads. apply in_map. exact HS. Qed.

Lemma chain_concat_in r (Ss : list (list nat)) Sg : chain r (concat Ss) -> In Sg Ss -> chain r Sg.
Proof.
  induction Ss as [|Sg' Ss IH]; intros Hc Hin; [destruct Hin|]. cbn [concat] in Hc. destruct Hin as [->|Hin].
  - apply chain_app_l in Hc. exact Hc.
  - apply IH; [apply chain_app_r in Hc; exact Hc|exact Hin].
Qed.

Lemma chain_pred r l h v : chain r (l ++ [h]) -> In v (tl (l ++ [h])) -> exists p, In p l /\ nxt r p = v.
Proof.
  intros Hc Hv. rewrite <- (chain_map_nxt _ _ _ Hc) in Hv. apply in_map_iff in Hv as [p [E Hp]].
  exists p. split; [exact Hp|exact E].
Qed.

(* reversing a chain of [sol] gives a chain of any [tg] that sends each node to its [sol]-predecessor *)
Lemma chain_rev_gen sol tg : forall Sg, chain sol Sg ->
  (forall u v, In u Sg -> In v (tl Sg) -> nxt sol u = v -> nxt tg v = u) -> chain tg (rev Sg).
Proof.
  induction Sg as [|a Sg IH]; intros Hc H; [exact I|].
  destruct Sg as [|b t]; [exact I|].
  apply chain_cons2 in Hc as [E Hc].
  change (rev (a :: b :: t)) with ((rev t ++ [b]) ++ [a]). rewrite <- app_assoc. cbn [app].
  apply chain_app. split.
  - change (rev t ++ [b]) with (rev (b :: t)). apply IH; [exact Hc|].
    intros u v Hu Hv Euv. apply H; [right; exact Hu|right; exact Hv|exact Euv].
  - apply chain_cons2. split; [|exact I]. apply H; [left; reflexivity|left; reflexivity|exact E].
Qed.

Fixpoint seg_links (r : list nat) (x : nat) (Ss : list (list nat)) (z : nat) : Prop :=
  match Ss with
  | [] => nxt r x = z
  | Sg :: Ss' => nxt r x = last Sg 0 /\ chain r (rev Sg) /\ seg_links r (hd 0 Sg) Ss' z
  end.

Lemma seg_links_intro r : forall Ss x z,
  (forall i v, In (i, v) (pairs x Ss z) -> nxt r i = v) -> (forall Sg, In Sg Ss -> chain r (rev Sg)) ->
  seg_links r x Ss z.
Proof.
  induction Ss as [|Sg Ss IH]; intros x z Hp Hc; cbn [seg_links pairs] in *.
  - apply Hp. left. reflexivity.
  - split; [apply Hp; left; reflexivity|]. split; [apply Hc; left; reflexivity|].
    apply IH; [intros i v Hi; apply Hp; right; exact Hi|intros Sg' HS'; apply Hc; right; exact HS'].
Qed.

Lemma hd_rev_last0 (Sg : list nat) : Sg <> [] -> exists Y, rev Sg = last Sg 0 :: Y.
Proof.
  intros Hne. destruct (list_last_cases Sg) as [->|[S0 [y ->]]]; [congruence|].
  rewrite rev_app_distr, last_last. cbn. eexists. reflexivity.
Qed.

Lemma seg_links_chain r : forall Ss x z Tl, Forall (fun Sg => Sg <> []) Ss ->
  seg_links r x Ss z -> chain r (z :: Tl) -> chain r (x :: concat (map (@rev nat) Ss) ++ z :: Tl).
Proof.
  induction Ss as [|Sg Ss IH]; intros x z Tl Hne Hs Hz; cbn [seg_links map concat app] in *.
  - apply chain_cons2. split; assumption.
  - inversion Hne as [|? ? HS Hne']; subst. destruct Hs as [E [Hr Hs]].
    destruct (hd_rev_last0 Sg HS) as [Y EY].
    destruct Sg as [|h t]; [congruence|]. cbn [hd] in Hs.
    rewrite <- app_assoc.
    assert (Hx : chain r (x :: rev (h :: t))).
    { rewrite EY. apply chain_cons2. split; [exact E|rewrite <- EY; exact Hr]. }
    change (rev (h :: t)) with (rev t ++ [h]) in *. rewrite <- app_assoc. cbn [app].
    change (x :: rev t ++ h :: concat (map (@rev nat) Ss) ++ z :: Tl)
      with ((x :: rev t) ++ h :: concat (map (@rev nat) Ss) ++ z :: Tl).
    apply chain_app. split; [exact Hx|]. apply IH; assumption.
Qed.

Lemma last_concat_rev : forall (Ss : list (list nat)) R L e, Forall (fun Sg => Sg <> []) Ss ->
  concat (map (@rev nat) Ss) ++ R = L ++ [e] -> In e R \/ In e (heads Ss).
Proof.
  intros Ss R L e Hne E.
  destruct (list_last_cases R) as [->|[R0 [y ->]]].
  - right. rewrite app_nil_r in E.
    destruct (list_last_cases Ss) as [->|[Ss0 [Sm ->]]]; [destruct L; discriminate|].
    apply Forall_app in Hne as [_ Hm]. inversion Hm as [|? ? HS _]; subst.
    destruct Sm as [|h t]; [congruence|].
    rewrite map_app, concat_app in E. cbn [map concat] in E. rewrite app_nil_r in E.
    change (rev (h :: t)) with (rev t ++ [h]) in E. rewrite app_assoc in E.
    apply app_inj_tail in E as [_ <-]. unfold heads. rewrite map_app. apply in_or_app. right. left. reflexivity.
  - left. rewrite app_assoc in E. apply app_inj_tail in E as [_ <-]. apply in_or_app. right. left. reflexivity.
Qed.

Lemma cyc_no_2cycle r l v : cyc r l -> 3 <= length l -> In v l -> nxt r (nxt r v) <> v.
Proof.
  intros Hc Hl Hv. apply in_split in Hv as [A [B ->]]. apply cyc_rot in Hc.
  assert (Hl' : 2 <= length (B ++ A)) by (rewrite app_length in *; simpl in Hl; lia).
  cbn [app] in Hc. destruct (B ++ A) as [|y [|w t]]; [simpl in Hl'; lia|simpl in Hl'; lia|].
  destruct Hc as [Hnd Hch]. cbn [app hd] in Hch.
  apply chain_cons2 in Hch as [E1 Hch]. apply chain_cons2 in Hch as [E2 _].
  rewrite E1, E2. intros ->. inversion Hnd as [|? ? Hh _]; subst. apply Hh. right. left. reflexivity.
Qed.

Lemma argsort_of_link sol u v : is_tour sol -> u < length sol -> nxt sol u = v -> nth v (argsort sol) 0 = u.
Proof.
  intros Ht Hu <-. apply argsort_pred; [exact Hu|apply (is_tour_in_range _ Ht); exact Hu|].
  intros j Hj E. apply (is_tour_nxt_inj _ Ht); assumption.
Qed.

(* the target successor array: reversed nodes point to their old predecessor, the others keep the scattered value *)
Definition tgv (ags scat rv : list nat) (v : nat) : nat := if mem v rv then nth v ags 0 else nxt scat v.
Definition TGa (n : nat) (ags scat rv : list nat) : list nat := map (tgv ags scat rv) (seq 0 n).

Lemma nxt_TGa n ags scat rv v : v < n -> nxt (TGa n ags scat rv) v = tgv ags scat rv v.
Proof.
  intros H. unfold nxt, TGa.
  rewrite (nth_indep _ 0 (tgv ags scat rv 0)) by (rewrite map_length, seq_length; exact H).
  rewrite map_nth, seq_nth by exact H. reflexivity.
Qed.

Lemma in_tl_in {A} (v : A) l : In v (tl l) -> In v l.
Proof. destruct l; simpl; auto. Qed.

(* ------------------------------------------------------------------ the S-move theorem *)

Section SMove.
  Variables (sol : list nat) (a0 : nat) (Ss : list (list nat)) (R : list nat) (ps : list (nat * nat)) (rn : list nat).
  Let n := length sol.
  Let z := hd a0 R.
  Let old := a0 :: concat Ss ++ R.
  Let new := a0 :: concat (map (@rev nat) Ss) ++ R.
  Let ags := argsort sol.
  Let scat := scat_ps ps sol.
  Let TG := TGa n ags scat (RV Ss).

  Hypothesis Hne : Forall (fun Sg => Sg <> []) Ss.
  Hypothesis Hcyc : cyc sol old.
  Hypothesis Hfull : full n old.
  Hypothesis Hn : 3 <= n.
  Hypothesis Hps : forall p, In p ps <-> In p (pairs a0 Ss z).
  Hypothesis Hrn1 : forall v, In v rn -> ~ In v (RV Ss).
  Hypothesis Hrn2 : forall v, In v (heads Ss) -> In v rn.
  Hypothesis Hrn3 : In z rn.

  Lemma sm_tour : is_tour sol.
  Proof. exact (cyc_full_is_tour _ _ Hcyc Hfull). Qed.

  Lemma sm_disj :
    NoDup (a0 :: heads Ss) /\ ~ In a0 (RV Ss) /\ ~ In a0 R /\
    (forall v, In v (RV Ss) -> In v (heads Ss) -> False) /\
    (forall v, In v (RV Ss) -> In v R -> False) /\
    (forall v, In v (heads Ss) -> In v R -> False).
  Proof.
    assert (Hnd : NoDup (a0 :: (heads Ss ++ RV Ss) ++ R)).
    { eapply Permutation_NoDup; [|exact (proj1 Hcyc)]. unfold old. apply perm_skip.
      apply Permutation_app_tail. apply concat_heads_perm. exact Hne. }
    apply NoDup_cons_iff in Hnd as [Ha Hnd].
    apply NoDup_app_iff in Hnd as [Hhr [_ Hd1]]. apply NoDup_app_iff in Hhr as [Hh [_ Hd2]].
    split; [constructor; [intros Hi; apply Ha; apply in_or_app; left; apply in_or_app; left; exact Hi|exact Hh]|].
    split; [intros Hi; apply Ha; apply in_or_app; left; apply in_or_app; right; exact Hi|].
    split; [intros Hi; apply Ha; apply in_or_app; right; exact Hi|].
    split; [intros v H1 H2; exact (Hd2 v H2 H1)|].
    split; intros v H1 H2; apply (Hd1 v); [apply in_or_app; right; exact H1|exact H2|apply in_or_app; left; exact H1|exact H2].
  Qed.

  Lemma sm_in_old v : In v old <-> v = a0 \/ In v (heads Ss) \/ In v (RV Ss) \/ In v R.
  Proof.
    unfold old. cbn [In]. rewrite in_app_iff.
    assert (H : In v (concat Ss) <-> In v (heads Ss) \/ In v (RV Ss)).
    { rewrite <- in_app_iff. split; apply Permutation_in;
        [apply concat_heads_perm; exact Hne|apply Permutation_sym, concat_heads_perm; exact Hne]. }
    rewrite H. split; [intros [<-|[[H1|H1]|H1]]; auto|intros [->|[H1|[H1|H1]]]; auto].
  Qed.

  Lemma sm_perm : Permutation old new.
  Proof. unfold old, new. apply perm_skip. apply Permutation_app_tail. apply Permutation_sym, concat_rev_perm. Qed.

  Lemma sm_in_new v : In v new <-> In v old.
  Proof. split; apply Permutation_in; [apply Permutation_sym|]; exact sm_perm. Qed.

  Lemma sm_range v : In v old -> v < n.
  Proof. apply Hfull. Qed.

  Lemma sm_functional : functional ps.
  Proof.
    intros i x y Hx Hy. apply Hps in Hx, Hy.
    apply (NoDup_fst_functional (pairs a0 Ss z)) with (i := i); [rewrite pairs_fst; exact (proj1 sm_disj)|exact Hx|exact Hy].
  Qed.

  Lemma sm_scat_in i x : In (i, x) (pairs a0 Ss z) -> nxt scat i = x.
  Proof.
    intros Hin. unfold scat. apply scat_ps_in; [exact sm_functional|apply Hps; exact Hin|].
    apply sm_range. apply sm_in_old.
    assert (Hi : In i (map fst (pairs a0 Ss z))) by (apply in_map_iff; exists (i, x); split; [reflexivity|exact Hin]).
    rewrite pairs_fst in Hi. destruct Hi as [<-|Hi]; auto.
  Qed.

  Lemma sm_scat_out v : ~ In v (a0 :: heads Ss) -> nxt scat v = nxt sol v.
  Proof.
    intros Hn'. unfold scat. apply scat_ps_notin. intros Hi. apply Hn'.
    apply in_map_iff in Hi as [p [E Hp]]. apply Hps in Hp. rewrite <- (pairs_fst Ss a0 z), <- E.
    apply in_map. exact Hp.
  Qed.

  Lemma sm_TG_rv v : v < n -> In v (RV Ss) -> nxt TG v = nth v ags 0.
  Proof. intros Hv Hi. unfold TG. rewrite nxt_TGa by exact Hv. unfold tgv. apply mem_In in Hi. rewrite Hi. reflexivity. Qed.

  Lemma sm_TG_nrv v : v < n -> ~ In v (RV Ss) -> nxt TG v = nxt scat v.
  Proof.
    intros Hv Hi. unfold TG. rewrite nxt_TGa by exact Hv. unfold tgv.
    destruct (mem v (RV Ss)) eqn:E; [apply mem_In in E; contradiction|reflexivity].
  Qed.

  Lemma sm_TG_R v : In v R -> nxt TG v = nxt sol v.
  Proof.
    intros Hv. destruct sm_disj as [_ [_ [HaR [_ [HrR HhR]]]]].
    rewrite sm_TG_nrv; [|apply sm_range, sm_in_old; auto|intros Hi; exact (HrR v Hi Hv)].
    apply sm_scat_out. intros [<-|Hi]; [exact (HaR Hv)|exact (HhR v Hi Hv)].
  Qed.

  Lemma sm_chain_sol : chain sol (concat Ss) /\ chain sol (R ++ [a0]).
  Proof.
    destruct Hcyc as [_ Hch]. unfold old in Hch. cbn [hd app] in Hch. apply chain_tail in Hch.
    rewrite <- app_assoc in Hch. split; [apply chain_app_l in Hch|apply chain_app_r in Hch]; exact Hch.
  Qed.

  Lemma sm_TG_rev Sg : In Sg Ss -> chain TG (rev Sg).
  Proof.
    intros HS. apply (chain_rev_gen sol); [apply (chain_concat_in _ Ss); [exact (proj1 sm_chain_sol)|exact HS]|].
    intros u v Hu Hv E.
    assert (Hin : forall x, In x Sg -> x < n).
    { intros x Hx. apply sm_range. unfold old. right. apply in_or_app. left. apply in_concat. exists Sg. split; assumption. }
    rewrite sm_TG_rv; [|apply Hin, in_tl_in; exact Hv|apply (in_RV Ss Sg); assumption].
    apply argsort_of_link; [exact sm_tour|apply Hin; exact Hu|exact E].
  Qed.

  Lemma sm_z_Tl : z :: tl (R ++ [a0]) = R ++ [a0].
  Proof. unfold z. destruct R; reflexivity. Qed.

  Lemma sm_TG_chain : chain TG (new ++ [a0]).
  Proof.
    unfold new. cbn [app]. rewrite <- app_assoc, <- sm_z_Tl.
    destruct sm_disj as [_ [HaRV _]].
    apply seg_links_chain; [exact Hne| |].
    - apply seg_links_intro; [|exact sm_TG_rev].
      intros i v Hin. rewrite <- (sm_scat_in i v Hin).
      assert (Hi : In i (a0 :: heads Ss)).
      { rewrite <- (pairs_fst Ss a0 z). apply in_map_iff. exists (i, v). split; [reflexivity|exact Hin]. }
      apply sm_TG_nrv.
      + apply sm_range, sm_in_old. destruct Hi as [<-|Hi]; auto.
      + destruct Hi as [<-|Hi]; [exact HaRV|]. intros Hr. exact (proj1 (proj2 (proj2 (proj2 sm_disj))) i Hr Hi).
    - rewrite sm_z_Tl. eapply chain_ext; [|exact (proj2 sm_chain_sol)].
      intros v Hv. rewrite removelast_last in Hv. apply sm_TG_R. exact Hv.
  Qed.

  Lemma sm_TG_cyc : cyc TG new.
  Proof.
    split; [eapply Permutation_NoDup; [exact sm_perm|exact (proj1 Hcyc)]|exact sm_TG_chain].
  Qed.

  Lemma sm_new_length : length new = n.
  Proof. apply full_NoDup_length; [exact (proj1 sm_TG_cyc)|]. eapply full_perm; [exact sm_perm|exact Hfull]. Qed.

  (* the value the loop body writes at v, coming from its new predecessor u, is the target value *)
  Lemma sm_write u v : In u new -> In v new -> nxt TG u = v ->
    (if kcond ags rn u v then nth v ags 0 else nxt scat v) = nxt TG v.
  Proof.
    intros Hu Hv E.
    assert (Hvn : v < n) by (apply sm_range, sm_in_new; exact Hv).
    destruct (in_dec Nat.eq_dec v (RV Ss)) as [Hr|Hr].
    - rewrite sm_TG_rv by assumption.
      assert (Hk : kcond ags rn u v = true).
      { unfold kcond. apply andb_true_intro. split.
        - apply negb_true_iff. apply Nat.eqb_neq. intros Eu.
          apply (cyc_no_2cycle TG new v sm_TG_cyc); [rewrite sm_new_length; exact Hn|exact Hv|].
          rewrite (sm_TG_rv v Hvn Hr), <- Eu. exact E.
        - apply negb_true_iff. destruct (mem v rn) eqn:Em; [|reflexivity].
          apply mem_In in Em. exfalso. exact (Hrn1 v Em Hr). }
      rewrite Hk. reflexivity.
    - rewrite sm_TG_nrv by assumption.
      assert (Hk : kcond ags rn u v = false).
      { unfold kcond. destruct (mem v rn) eqn:Em; [apply andb_false_r|]. rewrite andb_true_r.
        apply negb_false_iff. apply Nat.eqb_eq.
        assert (Hnr : ~ In v rn) by (intros Hi; apply mem_In in Hi; congruence).
        assert (Htl : In v (tl (R ++ [a0]))).
        { apply sm_in_new, sm_in_old in Hv. unfold z in Hrn3.
          destruct Hv as [->|[Hh|[Hh|Hh]]]; [|exfalso; exact (Hnr (Hrn2 v Hh))|contradiction|].
          - destruct R as [|r R']; [exfalso; exact (Hnr Hrn3)|]. cbn [app tl]. apply in_or_app. right. left. reflexivity.
          - destruct R as [|r R']; [destruct Hh|]. cbn [hd] in Hrn3. cbn [app tl].
            destruct Hh as [<-|Hh]; [exfalso; exact (Hnr Hrn3)|apply in_or_app; left; exact Hh]. }
        destruct (chain_pred sol R a0 v (proj2 sm_chain_sol) Htl) as [p [Hp Ep]].
        assert (Hpn : p < n) by (apply sm_range, sm_in_old; auto).
        unfold ags. rewrite (argsort_of_link sol p v sm_tour Hpn Ep).
        apply (cyc_nxt_inj TG new u p sm_TG_cyc); [exact Hu|apply sm_in_new, sm_in_old; auto|].
        rewrite E, sm_TG_R by exact Hp. symmetry. exact Ep. }
      rewrite Hk. reflexivity.
  Qed.

  (* THEOREM (any n >= 3, any number and sizes of segments): the relinking loop applied to the scattered array
     yields exactly the cycle a0 :: rev S1 ++ ... ++ rev Sm ++ R *)
  Theorem smove_result :
    let res := fst (iterate (k_opt_body ags rn) (n - 2) (scat, a0)) in
    length res = n /\ cyc res new.
  Proof.
    intros res.
    pose proof sm_new_length as Hlen. pose proof sm_TG_cyc as [Hnd Hch].
    set (T' := concat (map (@rev nat) Ss) ++ R) in *.
    assert (HT : new = a0 :: T') by reflexivity.
    assert (HlT : length T' = n - 1) by (rewrite HT in Hlen; simpl in Hlen; lia).
    destruct (list_last_cases T') as [E|[L [e E]]]; [rewrite E in HlT; simpl in HlT; lia|].
    assert (HlL : length L = n - 2) by (rewrite E, app_length in HlT; simpl in HlT; lia).
    assert (He : In e R \/ In e (heads Ss)) by (apply (last_concat_rev Ss R L e Hne); exact E).
    destruct sm_disj as [_ [HaRV [_ [HrH [HrR _]]]]].
    assert (HeRV : ~ In e (RV Ss)) by (intros Hi; destruct He as [He|He]; [exact (HrR e Hi He)|exact (HrH e Hi He)]).
    rewrite HT, E in Hnd. pose proof Hch as Hch0. rewrite HT, E in Hch.
    assert (HinL : forall v, In v (a0 :: L) -> In v new).
    { intros v Hv. rewrite HT, E. destruct Hv as [<-|Hv]; [left; reflexivity|right; apply in_or_app; left; exact Hv]. }
    assert (Hscat_len : length scat = n) by (unfold scat; apply scat_ps_length).
    destruct (kopt_loop ags rn TG L a0 scat) as [Hl [Hin Hout]].
    - change (a0 :: L ++ [e]) with ((a0 :: L) ++ [e]) in Hnd. apply NoDup_app_iff in Hnd. apply Hnd.
    - apply chain_app_l in Hch. change (a0 :: L ++ [e]) with ((a0 :: L) ++ [e]) in Hch. apply chain_app_l in Hch. exact Hch.
    - symmetry. apply sm_TG_nrv; [apply sm_range; left; reflexivity|exact HaRV].
    - intros v Hv. rewrite Hscat_len. apply sm_range, sm_in_new, HinL. right. exact Hv.
    - intros u v Hu Hv Euv. apply sm_write; [apply HinL; exact Hu|apply HinL; right; exact Hv|exact Euv].
    - rewrite HlL in Hl, Hin, Hout. fold res in Hl, Hin, Hout.
      split; [rewrite Hl; exact Hscat_len|]. split; [exact (proj1 sm_TG_cyc)|].
      change (hd 0 new) with a0. eapply chain_ext; [|exact Hch0].
      intros v Hv. rewrite removelast_last in Hv.
      destruct (in_dec Nat.eq_dec v L) as [HvL|HvL]; [apply Hin; exact HvL|].
      rewrite Hout by exact HvL. symmetry. apply sm_TG_nrv; [apply sm_range, sm_in_new; exact Hv|].
      rewrite HT, E in Hv. destruct Hv as [<-|Hv]; [exact HaRV|].
      apply in_app_or in Hv as [Hv|[<-|[]]]; [contradiction|exact HeRV].
  Qed.
End SMove.

(* ------------------------------------------------------------------ the operator on actions in S-move form *)

(* [action] = selected_index (k) ++ left (k) ++ right (k) is an S-move of the tour [sol] described by (a0, Ss, R):
   seen from a0 the tour is a0 :: S1 ++ ... ++ Sm ++ R (segments non-empty), the scattered (left, right) pairs are,
   as a set, a0 -> last S1, hd S1 -> last S2, ..., hd Sm -> first node after Sm; the successors of the selected nodes
   ("right_nodes" in the code) contain every segment head and the node after Sm and no other segment node *)
Definition smove_of (k : nat) (sol action : list nat) (a0 : nat) (Ss : list (list nat)) (R : list nat) : Prop :=
  Forall (fun Sg => Sg <> []) Ss /\
  cyc sol (a0 :: concat Ss ++ R) /\ full (length sol) (a0 :: concat Ss ++ R) /\
  hd 0 (firstn k (skipn k action)) = a0 /\
  (forall p, In p (combine (firstn k (skipn k action)) (skipn (2 * k) action)) <-> In p (pairs a0 Ss (hd a0 R))) /\
  (forall v, In v (map (nxt sol) (firstn k action)) -> ~ In v (RV Ss)) /\
  (forall v, In v (heads Ss) -> In v (map (nxt sol) (firstn k action))) /\
  In (hd a0 R) (map (nxt sol) (firstn k action)).

Definition smove_form (k : nat) (sol action : list nat) : Prop := exists a0 Ss R, smove_of k sol action a0 Ss R.

(* THEOREM (all n >= 3, all k, all segment numbers/sizes): on an S-move the operator returns the cycle with every
   segment reversed in place, and the scatter has no conflicting duplicate index *)
Theorem k_opt_smove_order k sol action a0 Ss R :
  3 <= length sol -> smove_of k sol action a0 Ss R ->
  length (k_opt k sol action) = length sol /\
  cyc (k_opt k sol action) (a0 :: concat (map (@rev nat) Ss) ++ R) /\
  scatter_consistent (firstn k (skipn k action)) (skipn (2 * k) action) = true.
Proof.
  intros Hn [Hne [Hcyc [Hfull [Ha0 [Hps [H1 [H2 H3]]]]]]].
  unfold k_opt, k_opt_with. rewrite scatter_scat_ps, Ha0.
  destruct (smove_result sol a0 Ss R _ _ Hne Hcyc Hfull Hn Hps H1 H2 H3) as [Hl Hc].
  split; [exact Hl|]. split; [exact Hc|].
  apply functional_scatter_consistent.
  exact (sm_functional sol a0 Ss R _ Hne Hcyc Hps).
Qed.

Theorem k_opt_smove_valid k sol action :
  3 <= length sol -> smove_form k sol action ->
  is_tour (k_opt k sol action) /\ scatter_consistent (firstn k (skipn k action)) (skipn (2 * k) action) = true.
Proof.
  intros Hn [a0 [Ss [R Hs]]].
  destruct (k_opt_smove_order k sol action a0 Ss R Hn Hs) as [Hl [Hc Hsc]]. split; [|exact Hsc].
  apply (cyc_full_is_tour _ _ Hc). rewrite Hl.
  destruct Hs as [_ [_ [Hfull _]]]. eapply full_perm; [|exact Hfull].
  apply perm_skip. apply Permutation_app_tail. apply Permutation_sym, concat_rev_perm.
Qed.

(* non-vacuity: the 6-node tour 0 3 1 5 2 4, a0 = 0, S1 = [3; 1], S2 = [5; 2], R = [4]: order 0 1 3 2 5 4 *)
Example k_opt_smove_ex :
  k_opt 3 [3; 5; 4; 1; 0; 2] [0; 1; 2; 0; 3; 5; 1; 2; 4] = [1; 3; 5; 2; 0; 4] /\
  walk [1; 3; 5; 2; 0; 4] 0 6 = 0 :: concat (map (@rev nat) [[3; 1]; [5; 2]]) ++ [4] /\
  pairs 0 [[3; 1]; [5; 2]] 4 = combine [0; 3; 5] [1; 2; 4].
Proof. vm_compute. repeat split; reflexivity. Qed.
