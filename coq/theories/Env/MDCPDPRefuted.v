(* MDCPDP, HISTORY: the full-strength statements were FALSE of the code as it was before the repairs of 2026-10-01
   ([as_is]); concrete witnesses, by computation.  The running code is [repaired] (Harness/HMDCPDP.v: current_code);
   every witness is still replayed on the real environment on every run by vt/envs/mdcpdp.py (same instance, same
   actions) and would be reported under its old signature if the defect returned. *)
From Coq Require Import ZArith List Bool Lia Arith.
From RL4CO Require Import Base.Num Base.EnvSig Spec.MultiDepotPD Env.MDCPDP Env.MDCPDPDefs Env.MDCPDPProofs.
Import ListNotations.
Open Scope Z_scope.

Notation EA := (MDCPDP exact as_is).

(* all distances 1 (0 on the diagonal) *)
Definition unit_dist (n : nat) : list (list Z) :=
  map (fun a => map (fun b => if Nat.eqb a b then 0 else 1) (seq 0 n)) (seq 0 n).
(* points on a line at the given integer positions *)
Definition line_dist (xs : list Z) : list (list Z) := map (fun a => map (fun b => Z.abs (a - b)) xs) xs.

Definition inst (nd_ nl : nat) (cp : list Z) (m : list (list Z)) (md_ : nat) : md_inst :=
  {| ndep := nd_; nloc := nl; caps := cp; dist := m; start := 0; opn := false; mode := md_; one := 1; lw := 1;
     solo := true; legs0 := [] |}.

(* ---------------------------------------------------------------- C01 *)
(* (1) generator format: 2 depots, 6 customers, capacity [B,1].  The code takes 1 for the number of depots: node 1
   (depot 1) is visited like a customer, node 4 (a pickup) counts as a delivery.  The admitted episode below drives
   through depot 1 in the middle of vehicle 0's route; pickup 4 is made before it, its delivery 7 after it. *)
Definition w_nd : md_inst := inst 2 6 [2] (unit_dist 8) 0.
Definition w_nd_acts : list nat := [0; 2; 5; 3; 6; 4; 1; 7]%nat.
Theorem md_mask_sound_refuted_depot_count :
  exists i acts, md_wfb i = true /\ md_solvableb i = true /\ adm (E:=EA) i acts = true /\ live as_is i acts /\
                 done EA i (run (E:=EA) i acts) = true /\ spec_feasibleb i acts = false.
Proof.
  exists w_nd, w_nd_acts. repeat split; try (vm_compute; reflexivity). apply liveb_live. vm_compute. reflexivity.
Qed.
(* with the generator's format and more than one depot EVERY finished episode is infeasible: no vehicle ever comes home
   (the single depot the code knows is "the last one"), and the other depots are visited as customers *)

(* (2) one capacity column per depot (so the depot count is right): current_depot never leaves depot 0.  Vehicle 1 is
   loaded up to depot 0's capacity 2 although its own is 1 ... *)
Definition w_sw : md_inst := inst 2 4 [2; 1] (unit_dist 6) 0.
Definition w_sw_acts : list nat := [0; 0; 1; 2; 3; 4; 5]%nat.
Theorem md_mask_sound_refuted_capacity_of_start_depot :
  exists i acts, md_wfb i = true /\ md_solvableb i = true /\ length (caps i) = ndep i /\ adm (E:=EA) i acts = true /\
                 live as_is i acts /\ done EA i (run (E:=EA) i acts) = true /\ spec_feasibleb i acts = false.
Proof.
  exists w_sw, w_sw_acts. repeat split; try (vm_compute; reflexivity). apply liveb_live. vm_compute. reflexivity.
Qed.
(* ... and every vehicle but the last "comes home" to depot 0 *)
Definition w_sw3 : md_inst := inst 3 2 [1; 1; 1] (unit_dist 5) 0.
Definition w_sw3_acts : list nat := [0; 0; 1; 3; 4; 0; 2]%nat.
Theorem md_mask_sound_refuted_wrong_home_depot :
  exists i acts, md_wfb i = true /\ md_solvableb i = true /\ length (caps i) = ndep i /\ adm (E:=EA) i acts = true /\
                 live as_is i acts /\ done EA i (run (E:=EA) i acts) = true /\ parse (ndep i) acts = None.
Proof.
  exists w_sw3, w_sw3_acts. repeat split; try (vm_compute; reflexivity). apply liveb_live. vm_compute. reflexivity.
Qed.

(* ---------------------------------------------------------------- C02 *)
(* without "every capacity >= 1" there is a dead end: capacity 0, one pickup-delivery pair *)
Theorem md_dead_end_without_solvable :
  exists i acts, md_wfb i = true /\ md_solvableb i = false /\ md_good as_is i = true /\ adm (E:=EA) i acts = true /\
                 done EA i (run (E:=EA) i acts) = false /\ anyb (mask EA i (run (E:=EA) i acts)) = false.
Proof. exists (inst 1 2 [0] (unit_dist 3) 0), [0%nat]. repeat split; vm_compute; reflexivity. Qed.

(* the same for the current code: the hypothesis is needed *)
Theorem md_dead_end_without_solvable_repaired :
  exists i acts, md_wfb i = true /\ md_solvableb i = false /\ adm (E:=MDCPDP exact repaired) i acts = true /\
                 done (MDCPDP exact repaired) i (run (E:=MDCPDP exact repaired) i acts) = false /\
                 anyb (mask (MDCPDP exact repaired) i (run (E:=MDCPDP exact repaired) i acts)) = false.
Proof. exists (inst 1 2 [0] (unit_dist 3) 0), [0%nat]. repeat split; vm_compute; reflexivity. Qed.

(* start_mode="random": current_depot starts at a random depot r.  With the generator's one-column capacity the first
   (forced) step gathers capacity[r] out of range as soon as r >= 1: the offered action crashes *)
Theorem md_step_ok_refuted_random_start :
  exists i, md_wfb i = true /\ md_solvableb i = true /\ offered (E:=EA) i (reset EA i) 0 = true /\
            stepok EA i (reset EA i) 0 = false.
Proof.
  exists {| ndep := 2; nloc := 2; caps := [1]; dist := unit_dist 4; start := 1; opn := false; mode := 0; one := 1; lw := 1;
            solo := true; legs0 := [] |}. repeat split; vm_compute; reflexivity.
Qed.
(* ... and with one column per depot the vehicle leaves depot 0 but is booked on (and later sent home to) depot r *)
Theorem md_mask_sound_refuted_random_start :
  exists i acts, md_wfb i = true /\ md_solvableb i = true /\ length (caps i) = ndep i /\ adm (E:=EA) i acts = true /\
                 live as_is i acts /\ done EA i (run (E:=EA) i acts) = true /\ spec_feasibleb i acts = false.
Proof.
  exists {| ndep := 2; nloc := 2; caps := [1; 1]; dist := unit_dist 4; start := 1; opn := false; mode := 0; one := 1; lw := 1;
            solo := true; legs0 := [] |}, [0; 2; 3; 1]%nat.
  repeat split; try (vm_compute; reflexivity). apply liveb_live. vm_compute. reflexivity.
Qed.

(* ---------------------------------------------------------------- C03 *)
(* one depot at 0, pickup at 3, delivery at 7 on a line: the tour 0 -> 3 -> 7 -> 0 has length 14 *)
Definition w_ret : md_inst := inst 1 2 [1] (line_dist [0; 3; 7]) 0.
(* (3) the way home of the last vehicle is missing from the reward of a finished row ... *)
Theorem md_reward_refuted_return_leg :
  exists i acts, md_wfb i = true /\ md_good as_is i = true /\ adm (E:=EA) i acts = true /\ live as_is i acts /\
                 done EA i (run (E:=EA) i acts) = true /\
                 md_reward exact as_is i (run (E:=EA) i acts) = Some (-7) /\ spec_objective i acts = Some (-14).
Proof.
  exists w_ret, [0; 1; 2]%nat. repeat split; try (vm_compute; reflexivity). apply liveb_live. vm_compute. reflexivity.
Qed.
(* ... (C04) and appears as soon as the finished row is stepped once more: padding is not inert *)
Theorem md_padding_refuted :
  exists i acts, md_wfb i = true /\ md_good as_is i = true /\ adm (E:=EA) i (acts ++ [0%nat]) = true /\ live as_is i acts /\
                 done EA i (run (E:=EA) i acts) = true /\
                 md_reward exact as_is i (run (E:=EA) i acts) = Some (-7) /\
                 md_reward exact as_is i (run (E:=EA) i (acts ++ [0%nat])) = Some (-14).
Proof.
  exists w_ret, [0; 1; 2]%nat. repeat split; try (vm_compute; reflexivity). apply liveb_live. vm_compute. reflexivity.
Qed.

(* (2) again: per-depot lengths are all booked on depot 0, so the min-max cost is the TOTAL length.
   Depots at 0 and 10; pairs (1 -> 2) near depot 0 and (9 -> 8) near depot 1; even after the padding step *)
Definition w_mm : md_inst := inst 2 4 [1; 1] (line_dist [0; 10; 1; 9; 2; 8]) 1.
Theorem md_reward_refuted_minmax_booked_on_start_depot :
  exists i acts e, md_wfb i = true /\ length (caps i) = ndep i /\ adm (E:=EA) i (acts ++ [e]) = true /\ live as_is i acts /\
                   done EA i (run (E:=EA) i acts) = true /\
                   md_reward exact as_is i (run (E:=EA) i (acts ++ [e])) = Some (-14) /\ spec_objective i acts = Some (-4).
Proof.
  exists w_mm, [0; 2; 4; 0; 1; 3; 5]%nat, 0%nat. repeat split; try (vm_compute; reflexivity). apply liveb_live. vm_compute. reflexivity.
Qed.

(* (4) in a batch every row adds the step lengths of batch ROW 0: same instance, same actions, row 0 far away *)
Theorem md_row_independent_refuted :
  exists i l0 acts, md_wfb i = true /\ md_good as_is i = true /\
     md_reward exact as_is (with_batch i true []) (run (E:=EA) (with_batch i true []) acts) = Some (-14) /\
     md_reward exact as_is (with_batch i false l0) (run (E:=EA) (with_batch i false l0) acts) = Some (-300).
Proof. exists w_ret, [0; 100; 100; 100], [0; 1; 2; 0]%nat. repeat split; vm_compute; reflexivity. Qed.

(* (5) reward_mode = "lateness_square" was accepted by the constructor and documented, but _get_reward raised *)
Theorem md_reward_lateness_square_raised : forall A i s, mode i = 3%nat -> md_reward A as_is i s = None.
Proof. intros A i s H. unfold md_reward. rewrite H. reflexivity. Qed.
