(* CVRPTWEnv (rl4co/envs/routing/cvrptw/env.py), one batch row, as the code IS.  CVRPTWEnv subclasses CVRPEnv:
   the CVRP bookkeeping (current_node, used_capacity, visited) is the CVRP model unchanged ([cst]); on top of it
   the env keeps [current_time].  Node 0 is the depot.  All quantities are scaled integers; [A : arith] is the
   rounding applied where the code performs a float32 operation. *)
From Coq Require Import ZArith List Bool Lia ZifyBool Arith.
From RL4CO Require Import Base.Num Base.EnvSig Base.SortNat Env.CVRP.
Import ListNotations.
Open Scope Z_scope.

Record cvrptw_inst := {
  base : cvrp_inst;        (* demand, vehicle_capacity, pairwise distances of td["locs"] (depot first), 1e-5 *)
  twlo : list Z;           (* td["time_windows"][..., 0], depot first *)
  twhi : list Z;           (* td["time_windows"][..., 1], depot first *)
  durs : list Z;           (* td["durations"], depot first *)
  tu : Z;                  (* the scaled integer that represents 1.0 (one time unit): .int() truncates to multiples of it *)
  hz0 : Z;                 (* td["time_windows"][..., 0, 1][0]: the depot deadline of BATCH ROW 0, which the checker
                              uses for every row (for a solo row or equal horizons: the row's own twhi[0]) *)
  tsl : Z;                 (* harness only: slack used when the exact specification is evaluated on float32 episodes *)
}.
Definition tn_of (i : cvrptw_inst) : nat := n_of (base i).
Definition lo (i : cvrptw_inst) (j : nat) : Z := nth j (twlo i) 0.
Definition hi (i : cvrptw_inst) (j : nat) : Z := nth j (twhi i) 0.
Definition du (i : cvrptw_inst) (j : nat) : Z := nth j (durs i) 0.
Definition dd (i : cvrptw_inst) (a b : nat) : Z := dfun (base i) a b.      (* get_distance(locs[a], locs[b]) *)

Record cvrptw_st := { cst : cvrp_st; time : Z }.

Section Model.
  Variable A : arith.

  Definition tw_reset (i : cvrptw_inst) : cvrptw_st := {| cst := cvrp_reset (base i); time := 0 |}.

  (* _step: distance = td["distances"][action] was computed by the last get_action_mask from the node the vehicle
     is at BEFORE the move; current_time = (action != 0) * (max(current_time + distance, tw_lo[action]) + dur[action]);
     then CVRPEnv._step *)
  Definition tw_step (i : cvrptw_inst) (s : cvrptw_st) (a : nat) : cvrptw_st :=
    {| cst := cvrp_step A (base i) (cst s) a;
       time := if Nat.eqb a 0 then 0
               else rnd A (Z.max (rnd A (time s + dd i (cur (cst s)) a)) (lo i a) + du i a) |}.

  (* gathers into durations / time_windows / distances must be inside the tensors *)
  Definition tw_stepok (i : cvrptw_inst) (s : cvrptw_st) (a : nat) : bool :=
    cvrp_stepok (base i) (cst s) a && Nat.ltb a (length (twlo i)) && Nat.ltb a (length (twhi i)) && Nat.ltb a (length (durs i)).

  Definition tw_done (i : cvrptw_inst) (s : cvrptw_st) : bool := cvrp_done (base i) (cst s).

  (* can_reach_in_time = current_time + dist <= time_windows[..., 1]   (depot column included) *)
  Definition reach (i : cvrptw_inst) (s : cvrptw_st) (j : nat) : bool :=
    rnd A (time s + dd i (cur (cst s)) j) <=? hi i j.

  (* not_masked & can_reach_in_time *)
  Definition tw_mask (i : cvrptw_inst) (s : cvrptw_st) : list bool :=
    (negb (mask_depot A (base i) (cst s)) && reach i s 0) ::
    map (fun j => negb (mask_loc A (base i) (cst s) j) && reach i s j) (locs (base i)).

  Definition CVRPTW : Env := {|
    inst := cvrptw_inst; st := cvrptw_st;
    reset := tw_reset; step := tw_step; stepok := tw_stepok; mask := tw_mask; done := tw_done |}.

  (* ------------------------------------------------------------------ check_solution_validity
     [fx = false]: the checker as coded.  [fx = true]: the repaired checker (no .int() truncation of the arrival
     time, the row's own depot deadline instead of row 0's) -- kept switchable so that the soundness theorem is
     available the moment the repair is in the code. *)
  Definition trunc (fx : bool) (i : cvrptw_inst) (x : Z) : Z := if fx then x else (x / tu i) * tu i.   (* .int() on x >= 0 *)
  Definition horizon_used (fx : bool) (i : cvrptw_inst) : Z := if fx then hi i 0 else hz0 i.

  Definition nodes (i : cvrptw_inst) : list nat := seq 0 (S (tn_of i)).

  (* the assertions on the instance that precede the time simulation *)
  Definition inst_checks (fx : bool) (i : cvrptw_inst) : bool :=
    forallb (fun j => 0 <=? dd i 0 j) (nodes i) &&
    forallb (fun j => (0 <=? lo i j) && (0 <=? hi i j)) (nodes i) &&
    forallb (fun j => rnd A (rnd A (lo i j + dd i 0 j) + du i j) <=? horizon_used fx i) (nodes i) &&
    forallb (fun j => 0 <=? du i j) (nodes i) &&
    forallb (fun j => lo i j <? hi i j) (nodes i).

  (* the loop over the actions: curr_time = max((curr_time + dist).int(), tw_lo[next]); assert curr_time <= tw_hi[next];
     curr_time += dur[next]; curr_time[next == 0] = 0 *)
  Fixpoint time_ok (fx : bool) (i : cvrptw_inst) (from : nat) (t : Z) (acts : list nat) : bool :=
    match acts with
    | [] => true
    | a :: r =>
        let t1 := Z.max (trunc fx i (rnd A (t + dd i from a))) (lo i a) in
        (t1 <=? hi i a) && time_ok fx i a (if Nat.eqb a 0 then 0 else rnd A (t1 + du i a)) r
    end.

  Definition cvrptw_checker (fx : bool) (i : cvrptw_inst) (acts : list nat) : bool :=
    cvrp_checker A (base i) acts && inst_checks fx i && time_ok fx i 0%nat 0 acts.
End Model.
