(* C09 -- improvement environments (TSPkoptEnv, PDPRuinRepairEnv; rl4co/envs/common/base.py ImprovementEnvBase).
   This file: the linked-list ("successor array") tour representation [rec : list nat] used by the code,
   the specification [is_tour], the structural vocabulary used by the operator proofs ([chain], [cyc]),
   the models of [argsort] on permutations, of the [visited_time] loop, of [get_costs], and the
   best-so-far bookkeeping of [_step] (pure row model and a store model with explicit tensor buffers). *)
From Coq Require Import ZArith List Bool Lia ZifyBool Arith Permutation.
Import ListNotations.

(* ------------------------------------------------------------------ list helpers *)

Fixpoint set_nth {A} (n : nat) (x : A) (l : list A) : list A :=
  match l, n with
  | [], _ => []
  | _ :: t, O => x :: t
  | h :: t, S k => h :: set_nth k x t
  end.

Lemma set_nth_length {A} n (x : A) l : length (set_nth n x l) = length l.
Proof. revert n; induction l as [|h t IH]; intros [|n]; simpl; auto. Qed.

Lemma nth_set_nth {A} n m (x d : A) l :
  nth m (set_nth n x l) d = if (Nat.eqb m n && Nat.ltb n (length l))%bool then x else nth m l d.
Proof.
  revert n m; induction l as [|h t IH]; intros n m.
  - simpl. rewrite andb_false_r. destruct n; reflexivity.
  - destruct n as [|n], m as [|m]; simpl; auto. rewrite IH. reflexivity.
Qed.

Lemma nth_set_nth_eq {A} n (x d : A) l : n < length l -> nth n (set_nth n x l) d = x.
Proof.
  intros H. rewrite nth_set_nth, Nat.eqb_refl. simpl.
  destruct (Nat.ltb n (length l)) eqn:E; [reflexivity|]. apply Nat.ltb_ge in E. lia.
Qed.

Lemma nth_set_nth_neq {A} n m (x d : A) l : m <> n -> nth m (set_nth n x l) d = nth m l d.
Proof.
  intros H. rewrite nth_set_nth. destruct (Nat.eqb m n) eqn:E; [apply Nat.eqb_eq in E; lia|reflexivity].
Qed.

Lemma set_nth_same {A} n (d : A) l : set_nth n (nth n l d) l = l.
Proof. revert n; induction l as [|h t IH]; intros [|n]; simpl; auto. rewrite IH. reflexivity. Qed.

Lemma last_cons_default {A} (x d : A) l : last (x :: l) d = last l x.
Proof.
  revert x d; induction l as [|y l IH]; intros x d; [reflexivity|].
  change (last (x :: y :: l) d) with (last (y :: l) d). rewrite (IH y d), (IH y x). reflexivity.
Qed.

Lemma list_last_cases {A} (l : list A) : l = [] \/ exists l0 z, l = l0 ++ [z].
Proof. induction l using rev_ind; [left; reflexivity|right; eauto]. Qed.

Lemma NoDup_app_iff {A} (a b : list A) :
  NoDup (a ++ b) <-> NoDup a /\ NoDup b /\ (forall x, In x a -> In x b -> False).
Proof.
  induction a as [|h a IH]; simpl.
  - split; [intros H; repeat split; [constructor|exact H|tauto]|tauto].
  - split.
    + intros H. inversion H as [|? ? Hh Ht]; subst. apply IH in Ht as [Ha [Hb Hd]].
      split; [constructor; [intros Hi; apply Hh; apply in_or_app; left; exact Hi|exact Ha]|].
      split; [exact Hb|]. intros x [<-|Hx] Hxb; [apply Hh; apply in_or_app; right; exact Hxb|eauto].
    + intros [Ha [Hb Hd]]. inversion Ha as [|? ? Hh Ht]; subst. constructor.
      * intros Hi. apply in_app_or in Hi as [Hi|Hi]; [tauto|]. apply (Hd h); [left; reflexivity|exact Hi].
      * apply IH. split; [exact Ht|]. split; [exact Hb|]. intros x Hx. apply Hd. right. exact Hx.
Qed.

Fixpoint iterate {A} (f : A -> A) (k : nat) (x : A) : A :=
  match k with O => x | S k' => iterate f k' (f x) end.

Fixpoint index_of (v : nat) (l : list nat) : nat :=
  match l with [] => O | h :: t => if Nat.eqb h v then O else S (index_of v t) end.

Definition mem (x : nat) (l : list nat) : bool := existsb (Nat.eqb x) l.

Lemma mem_In x l : mem x l = true <-> In x l.
Proof.
  unfold mem. rewrite existsb_exists. split.
  - intros [y [Hy E]]. apply Nat.eqb_eq in E. subst. exact Hy.
  - intros H. exists x. split; [exact H|apply Nat.eqb_refl].
Qed.

Lemma mem_app x a b : mem x (a ++ b) = (mem x a || mem x b)%bool.
Proof. unfold mem. apply existsb_app. Qed.

Lemma index_of_lt v l : In v l -> index_of v l < length l.
Proof.
  induction l as [|h t IH]; simpl; [tauto|]. intros H.
  destruct (Nat.eqb h v) eqn:E; [lia|]. apply Nat.eqb_neq in E. destruct H as [H|H]; [congruence|].
  specialize (IH H). lia.
Qed.

Lemma nth_index_of v l d : In v l -> nth (index_of v l) l d = v.
Proof.
  induction l as [|h t IH]; simpl; [tauto|]. intros H.
  destruct (Nat.eqb h v) eqn:E; [apply Nat.eqb_eq in E; exact E|].
  apply Nat.eqb_neq in E. destruct H as [H|H]; [congruence|]. exact (IH H).
Qed.

Lemma index_of_app_notin v a b : ~ In v a -> index_of v (a ++ b) = length a + index_of v b.
Proof.
  induction a as [|h t IH]; simpl; [reflexivity|]. intros H.
  destruct (Nat.eqb h v) eqn:E; [apply Nat.eqb_eq in E; tauto|]. rewrite IH by tauto. reflexivity.
Qed.

Lemma index_of_app_in v a b : In v a -> index_of v (a ++ b) = index_of v a.
Proof.
  induction a as [|h t IH]; simpl; [tauto|]. intros H.
  destruct (Nat.eqb h v) eqn:E; [reflexivity|]. apply Nat.eqb_neq in E.
  destruct H as [H|H]; [congruence|]. rewrite IH by exact H. reflexivity.
Qed.

Lemma index_of_unique v l i :
  i < length l -> nth i l 0 = v -> (forall j, j < length l -> nth j l 0 = v -> j = i) -> index_of v l = i.
Proof.
  intros Hi Hn Hu.
  assert (Hin : In v l) by (rewrite <- Hn; apply nth_In; exact Hi).
  apply Hu; [apply index_of_lt; exact Hin|apply nth_index_of; exact Hin].
Qed.

(* a list of [n] distinct numbers below [n] enumerates [0 .. n-1] *)
Definition full (n : nat) (l : list nat) : Prop := forall v, In v l <-> v < n.

Lemma full_NoDup_length n l : NoDup l -> full n l -> length l = n.
Proof.
  intros Hnd Hf. rewrite <- (seq_length n 0). apply Permutation_length.
  apply NoDup_Permutation; [exact Hnd|apply seq_NoDup|].
  intros x. rewrite in_seq. rewrite (Hf x). lia.
Qed.

Lemma full_perm n l l' : Permutation l l' -> full n l -> full n l'.
Proof.
  intros P Hf v. rewrite <- (Hf v). split; apply Permutation_in; [apply Permutation_sym|]; exact P.
Qed.

Lemma covers_full n l :
  length l = n -> (forall v, v < n -> In v l) -> NoDup l /\ full n l.
Proof.
  intros Hl Hc.
  assert (Hi : incl (seq 0 n) l) by (intros v Hv; apply in_seq in Hv; apply Hc; lia).
  assert (Hnd : NoDup l).
  { apply (NoDup_incl_NoDup (l := seq 0 n)); [apply seq_NoDup|rewrite seq_length; lia|exact Hi]. }
  split; [exact Hnd|].
  intros v. split; [|apply Hc].
  intros Hv.
  assert (Hi' : incl l (seq 0 n)).
  { apply NoDup_length_incl; [apply seq_NoDup|rewrite seq_length; lia|exact Hi]. }
  apply Hi' in Hv. apply in_seq in Hv. lia.
Qed.

Lemma NoDup_map_inj {A B} (f : A -> B) l x y :
  NoDup (map f l) -> In x l -> In y l -> f x = f y -> x = y.
Proof.
  induction l as [|h t IH]; simpl; [tauto|]. intros Hnd Hx Hy E.
  inversion Hnd as [|? ? Hh Ht]; subst.
  destruct Hx as [->|Hx], Hy as [->|Hy]; auto.
  - exfalso. apply Hh. rewrite E. apply in_map. exact Hy.
  - exfalso. apply Hh. rewrite <- E. apply in_map. exact Hx.
Qed.

(* ------------------------------------------------------------------ successor arrays *)

(* [rec[i]]: out-of-range reads are 0 here; every theorem below carries the range conditions under which
   the real gather does not raise, and the results are shown to stay in range *)
Definition nxt (rec : list nat) (i : nat) : nat := nth i rec 0.

Fixpoint walk (rec : list nat) (s : nat) (k : nat) : list nat :=
  match k with O => [] | S k' => s :: walk rec (nxt rec s) k' end.

Fixpoint iter_nxt (rec : list nat) (k : nat) (s : nat) : nat :=
  match k with O => s | S k' => iter_nxt rec k' (nxt rec s) end.

(* SPEC: iterating [rec] from node 0 visits all [n] nodes within [n] steps and is back at 0 after [n] steps *)
Definition is_tour (rec : list nat) : Prop :=
  (forall v, v < length rec -> In v (walk rec 0 (length rec))) /\ iter_nxt rec (length rec) 0 = 0.

Definition is_tourb (rec : list nat) : bool :=
  forallb (fun v => mem v (walk rec 0 (length rec))) (seq 0 (length rec))
  && Nat.eqb (iter_nxt rec (length rec) 0) 0.

Lemma is_tourb_spec rec : is_tourb rec = true <-> is_tour rec.
Proof.
  unfold is_tourb, is_tour. rewrite andb_true_iff, forallb_forall, Nat.eqb_eq.
  split; intros [H1 H2]; (split; [|exact H2]).
  - intros v Hv. apply mem_In. apply H1. apply in_seq. lia.
  - intros v Hv. apply mem_In. apply H1. apply in_seq in Hv. lia.
Qed.

Lemma walk_length rec s k : length (walk rec s k) = k.
Proof. revert s; induction k as [|k IH]; intros s; simpl; auto. Qed.

Lemma walk_app rec s a b : walk rec s (a + b) = walk rec s a ++ walk rec (iter_nxt rec a s) b.
Proof. revert s; induction a as [|a IH]; intros s; simpl; [reflexivity|]. rewrite IH. reflexivity. Qed.

Lemma walk_S_last rec s k : walk rec s (S k) = walk rec s k ++ [iter_nxt rec k s].
Proof. replace (S k) with (k + 1) by lia. rewrite walk_app. reflexivity. Qed.

(* consecutive elements of [l] are linked by [rec] *)
Fixpoint chain (rec : list nat) (l : list nat) : Prop :=
  match l with
  | x :: t => match t with [] => True | y :: _ => nxt rec x = y /\ chain rec t end
  | [] => True
  end.

Lemma chain_cons2 rec x y t : chain rec (x :: y :: t) <-> nxt rec x = y /\ chain rec (y :: t).
Proof. simpl. tauto. Qed.

Lemma chain_app rec a b t : chain rec (a ++ b :: t) <-> chain rec (a ++ [b]) /\ chain rec (b :: t).
Proof.
  induction a as [|x a IH].
  - simpl. tauto.
  - destruct a as [|y a].
    + simpl. destruct t; tauto.
    + change ((x :: y :: a) ++ b :: t) with (x :: y :: (a ++ b :: t)).
      change ((x :: y :: a) ++ [b]) with (x :: y :: (a ++ [b])).
      rewrite !chain_cons2. change (y :: a ++ b :: t) with ((y :: a) ++ b :: t).
      change (y :: a ++ [b]) with ((y :: a) ++ [b]). rewrite IH. tauto.
Qed.

Lemma chain_walk rec s k : chain rec (walk rec s k).
Proof.
  revert s; induction k as [|k IH]; intros s; [exact I|].
  destruct k as [|k]; [exact I|]. change (walk rec s (S (S k))) with (s :: walk rec (nxt rec s) (S k)).
  specialize (IH (nxt rec s)). simpl in *. split; [reflexivity|exact IH].
Qed.

Lemma chain_unique rec s t : chain rec (s :: t) -> s :: t = walk rec s (S (length t)).
Proof.
  revert s; induction t as [|y t IH]; intros s H; [reflexivity|].
  apply chain_cons2 in H as [E H]. subst y.
  change (walk rec s (S (length (nxt rec s :: t)))) with (s :: walk rec (nxt rec s) (S (length t))).
  f_equal. apply IH. exact H.
Qed.

(* writing [rec[i]] does not disturb links that do not start at [i] *)
Lemma chain_set_nth rec l i x :
  chain rec l -> ~ In i (removelast l) -> chain (set_nth i x rec) l.
Proof.
  induction l as [|a l IH]; [auto|]. destruct l as [|b l]; [auto|].
  intros H Hn. apply chain_cons2 in H as [E H]. apply chain_cons2.
  change (removelast (a :: b :: l)) with (a :: removelast (b :: l)) in Hn.
  split.
  - unfold nxt in *. rewrite nth_set_nth_neq; [exact E|]. intros ->. apply Hn. left. reflexivity.
  - apply IH; [exact H|]. intros Hi. apply Hn. right. exact Hi.
Qed.

Lemma removelast_app_single {A} (l : list A) x : removelast (l ++ [x]) = l.
Proof. apply removelast_last. Qed.

Lemma chain_tail rec x l : chain rec (x :: l) -> chain rec l.
Proof. destruct l as [|y l]; [intros _; exact I|]. intros H. apply chain_cons2 in H. destruct H as [_ H]. exact H. Qed.

Lemma chain_app_l rec a b : chain rec (a ++ b) -> chain rec a.
Proof.
  destruct b as [|y b]; [rewrite app_nil_r; auto|]. intros H. apply chain_app in H as [H _].
  clear -H. induction a as [|x a IH]; [exact I|].
  destruct a as [|z a]; [exact I|].
  change ((x :: z :: a) ++ [y]) with (x :: z :: (a ++ [y])) in H. apply chain_cons2 in H as [E H].
  apply chain_cons2. split; [exact E|]. apply IH. exact H.
Qed.

Lemma chain_app_r rec a b : chain rec (a ++ b) -> chain rec b.
Proof.
  induction a as [|x a IH]; [auto|]. intros H. apply IH.
  change ((x :: a) ++ b) with (x :: (a ++ b)) in H. apply chain_tail in H. exact H.
Qed.

Lemma chain_ext r r' l :
  (forall v, In v (removelast l) -> nxt r' v = nxt r v) -> chain r l -> chain r' l.
Proof.
  induction l as [|a l IH]; [auto|]. destruct l as [|b l]; [auto|].
  intros He H. apply chain_cons2 in H as [E H]. apply chain_cons2.
  change (removelast (a :: b :: l)) with (a :: removelast (b :: l)) in He.
  split.
  - rewrite He by (left; reflexivity). exact E.
  - apply IH; [|exact H]. intros v Hv. apply He. right. exact Hv.
Qed.

(* the last node of a :: A is linked to what follows *)
Lemma chain_last_edge rec a A b : chain rec ((a :: A) ++ [b]) -> nxt rec (last A a) = b.
Proof.
  revert a; induction A as [|x A IH]; intros a H.
  - simpl in H. simpl. tauto.
  - rewrite last_cons_default. apply IH.
    change ((a :: x :: A) ++ [b]) with (a :: ((x :: A) ++ [b])) in H. apply chain_tail in H. exact H.
Qed.

Lemma last_in_cons (a : nat) A : In (last A a) (a :: A).
Proof.
  revert a; induction A as [|x A IH]; intros a; [left; reflexivity|].
  rewrite last_cons_default. right. apply IH.
Qed.

(* [l] is a simple cycle of [rec]: distinct nodes, each linked to the next, the last linked to the first *)
Definition cyc (rec : list nat) (l : list nat) : Prop :=
  NoDup l /\ chain rec (l ++ [hd 0 l]).

Lemma cyc_rot rec a b : cyc rec (a ++ b) -> cyc rec (b ++ a).
Proof.
  intros [Hnd Hc]. split.
  - eapply Permutation_NoDup; [apply Permutation_app_comm|exact Hnd].
  - destruct a as [|x a]; [rewrite app_nil_r; exact Hc|].
    destruct b as [|y b]; [rewrite app_nil_r in Hc; exact Hc|].
    change (hd 0 ((x :: a) ++ y :: b)) with x in Hc. change (hd 0 ((y :: b) ++ x :: a)) with y.
    rewrite <- app_assoc in Hc. change ((y :: b) ++ [x]) with (y :: (b ++ [x])) in Hc.
    apply chain_app in Hc as [H1 H2].
    rewrite <- app_assoc. change ((x :: a) ++ [y]) with (x :: (a ++ [y])).
    change ((y :: b) ++ x :: a ++ [y]) with (y :: (b ++ x :: (a ++ [y]))).
    change (y :: b ++ x :: a ++ [y]) with ((y :: b) ++ x :: (a ++ [y])).
    apply chain_app. split; [exact H2|exact H1].
Qed.

Lemma chain_map_nxt rec l h : chain rec (l ++ [h]) -> map (nxt rec) l = tl (l ++ [h]).
Proof.
  induction l as [|x l IH]; [reflexivity|]. intros H.
  destruct l as [|y l].
  - simpl in *. destruct H as [E _]. rewrite E. reflexivity.
  - change ((x :: y :: l) ++ [h]) with (x :: y :: (l ++ [h])) in *.
    apply chain_cons2 in H as [E H]. simpl map. simpl tl.
    change (y :: l ++ [h]) with ((y :: l) ++ [h]) in H. specialize (IH H). simpl in IH.
    rewrite E. f_equal. exact IH.
Qed.

(* the successor function is injective on a cycle *)
Lemma cyc_nxt_inj rec l x y : cyc rec l -> In x l -> In y l -> nxt rec x = nxt rec y -> x = y.
Proof.
  intros [Hnd Hc] Hx Hy E.
  apply (NoDup_map_inj (nxt rec) l); auto.
  rewrite (chain_map_nxt _ _ _ Hc).
  destruct l as [|a l]; [constructor|]. simpl.
  eapply Permutation_NoDup; [|exact Hnd]. apply Permutation_cons_append.
Qed.

Lemma cyc_nxt_in rec l x : cyc rec l -> In x l -> In (nxt rec x) l.
Proof.
  intros [Hnd Hc] Hx.
  assert (H : In (nxt rec x) (map (nxt rec) l)) by (apply in_map; exact Hx).
  rewrite (chain_map_nxt _ _ _ Hc) in H.
  destruct l as [|a l]; [destruct Hx|]. simpl in H. apply in_app_or in H as [H|[<-|[]]]; [right; exact H|left; reflexivity].
Qed.

(* the last node of a cycle links back to the head *)
Lemma cyc_last_edge rec a l : cyc rec (a :: l) -> nxt rec (last l a) = a.
Proof. intros [_ Hc]. apply chain_last_edge. exact Hc. Qed.

(* ---- the two directions between the specification and the structural view *)

Lemma is_tour_cyc rec :
  is_tour rec -> cyc rec (walk rec 0 (length rec)) /\ full (length rec) (walk rec 0 (length rec)).
Proof.
  intros [Hv Hr].
  destruct (covers_full (length rec) (walk rec 0 (length rec)) (walk_length _ _ _) Hv) as [Hnd Hf].
  split; [|exact Hf]. split; [exact Hnd|].
  destruct (length rec) as [|n] eqn:En; [exact I|].
  change (hd 0 (walk rec 0 (S n))) with 0. rewrite <- Hr at 2. rewrite <- walk_S_last. apply chain_walk.
Qed.

Lemma cyc_from_head rec s t :
  cyc rec (s :: t) -> s :: t = walk rec s (S (length t)) /\ iter_nxt rec (S (length t)) s = s.
Proof.
  intros [_ Hc]. change (hd 0 (s :: t)) with s in Hc.
  change ((s :: t) ++ [s]) with (s :: (t ++ [s])) in Hc.
  apply chain_unique in Hc. rewrite app_length in Hc. simpl length in Hc.
  replace (S (length t + 1)) with (S (S (length t))) in Hc by lia.
  rewrite walk_S_last in Hc.
  change (s :: t ++ [s]) with ((s :: t) ++ [s]) in Hc.
  apply app_inj_tail in Hc as [H1 H2]. split; [exact H1|symmetry; exact H2].
Qed.

Lemma cyc_full_is_tour rec l :
  cyc rec l -> full (length rec) l -> is_tour rec.
Proof.
  intros Hc Hf.
  pose proof (full_NoDup_length _ _ (proj1 Hc) Hf) as Hlen.
  unfold is_tour.
  destruct (length rec) as [|n] eqn:En.
  - split; [intros v Hv; lia|reflexivity].
  - assert (H0 : In 0 l) by (apply Hf; lia).
    apply in_split in H0 as [a [b ->]].
    apply cyc_rot in Hc. change ((0 :: b) ++ a) with (0 :: (b ++ a)) in Hc.
    assert (Hl : length (b ++ a) = n) by (rewrite app_length in *; simpl in Hlen; lia).
    destruct (cyc_from_head _ _ _ Hc) as [Hw Hr]. rewrite Hl in Hw, Hr.
    split; [|exact Hr].
    intros v Hv. rewrite <- Hw.
    assert (Hin : In v (a ++ 0 :: b)) by (apply Hf; exact Hv).
    apply in_app_or in Hin as [Hin|[<-|Hin]]; [right; apply in_or_app; right; exact Hin|left; reflexivity|
      right; apply in_or_app; left; exact Hin].
Qed.

Lemma is_tour_in_range rec : is_tour rec -> forall i, i < length rec -> nxt rec i < length rec.
Proof.
  intros Ht i Hi. destruct (is_tour_cyc _ Ht) as [Hc Hf].
  apply Hf. apply (cyc_nxt_in _ _ _ Hc). apply Hf. exact Hi.
Qed.

Lemma is_tour_nxt_inj rec : is_tour rec -> forall i j, i < length rec -> j < length rec ->
  nxt rec i = nxt rec j -> i = j.
Proof.
  intros Ht i j Hi Hj E. destruct (is_tour_cyc _ Ht) as [Hc Hf].
  apply (cyc_nxt_inj _ _ _ _ Hc); [apply Hf; exact Hi|apply Hf; exact Hj|exact E].
Qed.

(* the cycle seen from any node [s] *)
Lemma is_tour_cyc_from rec s :
  is_tour rec -> s < length rec -> exists t, cyc rec (s :: t) /\ full (length rec) (s :: t).
Proof.
  intros Ht Hs. destruct (is_tour_cyc _ Ht) as [Hc Hf].
  assert (Hin : In s (walk rec 0 (length rec))) by (apply Hf; exact Hs).
  apply in_split in Hin as [a [b E]]. rewrite E in Hc, Hf.
  exists (b ++ a). split.
  - apply cyc_rot in Hc. exact Hc.
  - eapply full_perm; [|exact Hf]. change (s :: b ++ a) with ((s :: b) ++ a). apply Permutation_app_comm.
Qed.

(* ------------------------------------------------------------------ argsort on a permutation *)

(* [rec.argsort()]: for a permutation of 0..n-1 the sorting permutation is the inverse permutation,
   entry [v] = the index holding value [v].  (On non-permutations torch's result differs; every use below
   is under [is_tour], which implies permutation.) *)
Definition argsort (rec : list nat) : list nat := map (fun v => index_of v rec) (seq 0 (length rec)).

Lemma argsort_nth rec v : v < length rec -> nth v (argsort rec) 0 = index_of v rec.
Proof.
  intros H. unfold argsort.
  rewrite (nth_indep _ 0 (index_of 0 rec)) by (rewrite map_length, seq_length; exact H).
  rewrite (map_nth (fun v => index_of v rec) (seq 0 (length rec)) 0 v). rewrite seq_nth by exact H. reflexivity.
Qed.

(* if [rec] is injective on 0..n-1 then argsort[rec[x]] = x *)
Lemma argsort_pred rec x :
  x < length rec -> nxt rec x < length rec ->
  (forall j, j < length rec -> nxt rec j = nxt rec x -> j = x) ->
  nth (nxt rec x) (argsort rec) 0 = x.
Proof.
  intros Hx Hr Hinj. rewrite argsort_nth by exact Hr.
  apply index_of_unique; [exact Hx|reflexivity|]. intros j Hj E. apply Hinj; assumption.
Qed.

(* ------------------------------------------------------------------ visited_time, as the code's loop *)

(* for i in range(n): cur = rec[pre]; visited_time[cur] = i + 1; pre = cur   (starting with pre = 0) *)
Fixpoint vt_loop (rec : list nat) (k i pre : nat) (vt : list nat) : list nat :=
  match k with
  | O => vt
  | S k' => let cur := nxt rec pre in vt_loop rec k' (S i) cur (set_nth cur (S i) vt)
  end.
Definition visited_time (rec : list nat) : list nat :=
  vt_loop rec (length rec) 0 0 (repeat 0 (length rec)).

Lemma vt_loop_length rec k i pre vt : length (vt_loop rec k i pre vt) = length vt.
Proof. revert i pre vt; induction k as [|k IH]; intros; simpl; [reflexivity|]. rewrite IH, set_nth_length. reflexivity. Qed.

Lemma vt_loop_spec rec k : forall i pre vt v,
  NoDup (walk rec (nxt rec pre) k) ->
  (forall x, In x (walk rec (nxt rec pre) k) -> x < length vt) ->
  nth v (vt_loop rec k i pre vt) 0 =
    if mem v (walk rec (nxt rec pre) k) then i + 1 + index_of v (walk rec (nxt rec pre) k) else nth v vt 0.
Proof.
  induction k as [|k IH]; intros i pre vt v Hnd Hr; [reflexivity|].
  cbn [vt_loop walk]. cbn [walk] in Hnd, Hr. inversion Hnd as [|? ? Hh Ht]; subst.
  rewrite IH; [|exact Ht|intros x Hx; rewrite set_nth_length; apply Hr; right; exact Hx].
  cbn [mem existsb index_of]. fold (mem v (walk rec (nxt rec (nxt rec pre)) k)).
  destruct (mem v (walk rec (nxt rec (nxt rec pre)) k)) eqn:Em.
  - apply mem_In in Em.
    assert (Hne : nxt rec pre <> v) by (intros Heq; subst v; exact (Hh Em)).
    rewrite orb_true_r. destruct (Nat.eqb (nxt rec pre) v) eqn:E; [apply Nat.eqb_eq in E; tauto|].
    lia.
  - rewrite orb_false_r. destruct (Nat.eqb v (nxt rec pre)) eqn:E.
    + apply Nat.eqb_eq in E. subst v. rewrite Nat.eqb_refl.
      rewrite nth_set_nth_eq by (apply Hr; left; reflexivity). lia.
    + apply Nat.eqb_neq in E. rewrite nth_set_nth_neq by exact E. reflexivity.
Qed.

Lemma visited_time_length rec : length (visited_time rec) = length rec.
Proof. unfold visited_time. rewrite vt_loop_length, repeat_length. reflexivity. Qed.

(* on a tour: position in the visiting order from node 0 (node 0 itself gets n, i.e. 0 modulo n) *)
Lemma visited_time_tour rec v :
  is_tour rec -> v < length rec ->
  nth v (visited_time rec) 0 = (if Nat.eqb v 0 then length rec else index_of v (walk rec 0 (length rec))).
Proof.
  intros Ht Hv. destruct (is_tour_cyc _ Ht) as [[Hnd Hc] Hf]. destruct Ht as [_ Hr].
  destruct (length rec) as [|n] eqn:En; [lia|].
  (* the nodes written by the loop: walk from rec[0], n+1 steps = tl order ++ [0] *)
  assert (Hw : walk rec (nxt rec 0) (S n) = walk rec (nxt rec 0) n ++ [0]).
  { rewrite walk_S_last. f_equal. f_equal. change (iter_nxt rec n (nxt rec 0)) with (iter_nxt rec (S n) 0). exact Hr. }
  assert (Ho : walk rec 0 (S n) = 0 :: walk rec (nxt rec 0) n) by reflexivity.
  rewrite Ho in Hnd, Hf. inversion Hnd as [|? ? H0 Hnd']; subst.
  unfold visited_time. rewrite En. rewrite vt_loop_spec.
  - rewrite Hw, Ho. rewrite mem_app.
    destruct (Nat.eqb v 0) eqn:E0.
    + apply Nat.eqb_eq in E0. subst v.
      destruct (mem 0 (walk rec (nxt rec 0) n)) eqn:Em; [apply mem_In in Em; tauto|].
      simpl orb. cbn [mem existsb Nat.eqb orb].
      rewrite index_of_app_notin by exact H0. rewrite walk_length. simpl. lia.
    + apply Nat.eqb_neq in E0.
      assert (Hin : In v (walk rec (nxt rec 0) n)).
      { assert (H : In v (0 :: walk rec (nxt rec 0) n)) by (apply Hf; exact Hv). destruct H; [lia|assumption]. }
      pose proof Hin as Hm. apply mem_In in Hm. rewrite Hm. simpl orb.
      rewrite index_of_app_in by exact Hin. cbn [index_of].
      destruct (Nat.eqb 0 v) eqn:E1; [apply Nat.eqb_eq in E1; lia|]. lia.
  - rewrite Hw. eapply Permutation_NoDup; [apply Permutation_cons_append|]. constructor; assumption.
  - intros x Hx. rewrite repeat_length. rewrite Hw in Hx. apply Hf.
    apply in_app_or in Hx as [Hx|[<-|[]]]; [right; exact Hx|left; reflexivity].
Qed.

(* ------------------------------------------------------------------ get_costs *)

(* ImprovementEnvBase.get_costs: sum over array positions i of |locs[rec[i]] - locs[i]|; distances are data *)
Definition get_costs (D : nat -> nat -> Z) (rec : list nat) : Z :=
  fold_right Z.add 0%Z (map (fun i => D i (nxt rec i)) (seq 0 (length rec))).

(* SPEC: length of the closed tour that visits [order] in sequence *)
Fixpoint path_length (D : nat -> nat -> Z) (l : list nat) : Z :=
  match l with
  | x :: t => match t with [] => 0%Z | y :: _ => (D x y + path_length D t)%Z end
  | [] => 0%Z
  end.
Definition tour_length (D : nat -> nat -> Z) (order : list nat) : Z := path_length D (order ++ [hd 0 order]).

Lemma sum_perm (f : nat -> Z) l l' : Permutation l l' ->
  fold_right Z.add 0%Z (map f l) = fold_right Z.add 0%Z (map f l').
Proof. induction 1; simpl; lia. Qed.

Lemma path_length_chain D rec l h : chain rec (l ++ [h]) ->
  path_length D (l ++ [h]) = fold_right Z.add 0%Z (map (fun i => D i (nxt rec i)) l).
Proof.
  induction l as [|x l IH]; [reflexivity|]. intros H.
  destruct l as [|y l].
  - simpl in *. destruct H as [E _]. rewrite E. lia.
  - change ((x :: y :: l) ++ [h]) with (x :: y :: (l ++ [h])) in *.
    apply chain_cons2 in H as [E H]. change (y :: l ++ [h]) with ((y :: l) ++ [h]) in H.
    specialize (IH H).
    change (path_length D (x :: y :: l ++ [h])) with (D x y + path_length D ((y :: l) ++ [h]))%Z.
    rewrite IH. cbn [map fold_right]. rewrite E. reflexivity.
Qed.

Theorem get_costs_is_tour_length D rec :
  is_tour rec -> get_costs D rec = tour_length D (walk rec 0 (length rec)).
Proof.
  intros Ht. destruct (is_tour_cyc _ Ht) as [[Hnd Hc] Hf].
  unfold tour_length. rewrite (path_length_chain D rec _ _ Hc). unfold get_costs.
  apply sum_perm. apply NoDup_Permutation; [apply seq_NoDup|exact Hnd|].
  intros x. rewrite in_seq. rewrite (Hf x). lia.
Qed.

(* ------------------------------------------------------------------ best-so-far bookkeeping of _step *)

Section BSF.
  Variable tour : Type.
  Variable act : Type.
  Variable op : tour -> act -> tour.        (* _local_operator, any *)
  Variable cost : tour -> Z.                (* get_costs(locs, .) for the row's instance *)

  Record bstate := { rec_current : tour; rec_best : tour; cost_current : Z; cost_bsf : Z }.

  (* _reset: obj = get_costs(current_rec); cost_bsf = obj.clone(); rec_best = current_rec.clone() *)
  Definition bsf_reset (t0 : tour) : bstate :=
    {| rec_current := t0; rec_best := t0; cost_current := cost t0; cost_bsf := cost t0 |}.

  (* the part of _step after next_rec and new_obj are known, for one row:
       now_bsf = where(new_obj < cost_bsf, new_obj, cost_bsf); reward = cost_bsf - now_bsf;
       index = reward > 0; solution_best[index] = next_rec[index].clone()                           *)
  Definition bsf_update (s : bstate) (next_rec : tour) (new_obj : Z) : bstate * Z :=
    let now_bsf := if (new_obj <? cost_bsf s)%Z then new_obj else cost_bsf s in
    let reward := (cost_bsf s - now_bsf)%Z in
    let index := (reward >? 0)%Z in
    ({| rec_current := next_rec;
        rec_best := if index then next_rec else rec_best s;
        cost_current := new_obj;
        cost_bsf := now_bsf |}, reward).

  Definition bsf_step (s : bstate) (a : act) : bstate * Z :=
    let next_rec := op (rec_current s) a in bsf_update s next_rec (cost next_rec).

  (* run a move sequence; returns final state and the rewards in order *)
  Fixpoint bsf_run (s : bstate) (acts : list act) : bstate * list Z :=
    match acts with
    | [] => (s, [])
    | a :: r => let (s', rw) := bsf_step s a in let (s'', rws) := bsf_run s' r in (s'', rw :: rws)
    end.

  (* the tours seen: the initial one and every next_rec *)
  Fixpoint seen_from (t : tour) (acts : list act) : list tour :=
    match acts with [] => [] | a :: r => op t a :: seen_from (op t a) r end.

  Definition minl (x : Z) (l : list Z) : Z := fold_left Z.min l x.
  Definition sumZ (l : list Z) : Z := fold_right Z.add 0%Z l.

  (* the best-so-far values after each step, in order *)
  Fixpoint bsf_trace (s : bstate) (acts : list act) : list Z :=
    match acts with [] => [] | a :: r => cost_bsf (fst (bsf_step s a)) :: bsf_trace (fst (bsf_step s a)) r end.

  Definition consistent (s : bstate) : Prop :=
    cost_current s = cost (rec_current s) /\ cost_bsf s = cost (rec_best s).

  Lemma bsf_step_facts s a : consistent s ->
    let s' := fst (bsf_step s a) in let rw := snd (bsf_step s a) in
    consistent s' /\ cost_bsf s' = Z.min (cost_bsf s) (cost (op (rec_current s) a)) /\
    rw = (cost_bsf s - cost_bsf s')%Z /\ (0 <= rw)%Z /\ (cost_bsf s' <= cost_bsf s)%Z /\
    rec_current s' = op (rec_current s) a /\
    (rec_best s' = rec_best s \/ rec_best s' = op (rec_current s) a).
  Proof.
    intros [Hc Hb]. unfold bsf_step, bsf_update. cbn [fst snd].
    set (nr := op (rec_current s) a).
    destruct (cost nr <? cost_bsf s)%Z eqn:E.
    - assert (Hr : (cost_bsf s - cost nr >? 0)%Z = true) by lia. rewrite Hr.
      unfold consistent. cbn [rec_current rec_best cost_current cost_bsf].
      repeat split; auto; lia.
    - assert (Hr : (cost_bsf s - cost_bsf s >? 0)%Z = false) by lia. rewrite Hr.
      unfold consistent. cbn [rec_current rec_best cost_current cost_bsf].
      repeat split; auto; lia.
  Qed.

  Lemma minl_cons x y l : minl x (y :: l) = minl (Z.min x y) l.
  Proof. reflexivity. Qed.

  Lemma minl_le x l : (minl x l <= x)%Z.
  Proof.
    revert x; induction l as [|y l IH]; intros x; [unfold minl; simpl; lia|].
    rewrite minl_cons. specialize (IH (Z.min x y)). lia.
  Qed.

  Theorem bsf_exact_gen : forall acts s, consistent s ->
    let s' := fst (bsf_run s acts) in let rws := snd (bsf_run s acts) in
    consistent s' /\
    cost_bsf s' = minl (cost_bsf s) (map cost (seen_from (rec_current s) acts)) /\
    (cost_bsf s' <= cost_bsf s)%Z /\
    Forall (fun r => (0 <= r)%Z) rws /\
    sumZ rws = (cost_bsf s - cost_bsf s')%Z /\
    rec_current s' = last (seen_from (rec_current s) acts) (rec_current s) /\
    (rec_best s' = rec_best s \/ In (rec_best s') (seen_from (rec_current s) acts)).
  Proof.
    induction acts as [|a r IH]; intros s Hs.
    - simpl. repeat split; try apply Hs; auto; lia.
    - cbn [bsf_run]. destruct (bsf_step s a) as [s1 rw] eqn:E1.
      pose proof (bsf_step_facts s a Hs) as F. rewrite E1 in F. cbn [fst snd] in F.
      destruct F as [Hs1 [Hmin [Hrw [Hpos [Hle [Hcur Hbest]]]]]].
      specialize (IH s1 Hs1). destruct (bsf_run s1 r) as [s2 rws] eqn:E2. cbn [fst snd] in IH |- *.
      destruct IH as [Hs2 [Hmin2 [Hle2 [Hpos2 [Hsum2 [Hcur2 Hbest2]]]]]].
      cbn [seen_from map]. rewrite minl_cons. rewrite <- Hmin. rewrite <- Hcur.
      split; [exact Hs2|]. split; [exact Hmin2|]. split; [lia|]. split; [constructor; assumption|].
      split; [cbn [sumZ fold_right]; unfold sumZ in Hsum2; lia|]. split.
      + rewrite Hcur2. rewrite last_cons_default. reflexivity.
      + destruct Hbest2 as [Hb|Hb].
        * rewrite Hb. destruct Hbest as [Hb'|Hb']; [left; exact Hb'|right; left; rewrite Hcur; symmetry; exact Hb'].
        * right. right. exact Hb.
  Qed.

  (* per-step form: the reward of every step is the decrease of the best-so-far cost at that step *)
  Lemma bsf_rewards_stepwise : forall acts s,
    snd (bsf_run s acts) =
      map (fun p => (fst p - snd p)%Z) (combine (cost_bsf s :: bsf_trace s acts) (bsf_trace s acts)).
  Proof.
    induction acts as [|a r IH]; intros s; [reflexivity|].
    cbn [bsf_run bsf_trace]. destruct (bsf_step s a) as [s1 rw] eqn:E1. cbn [fst].
    specialize (IH s1). destruct (bsf_run s1 r) as [s2 rws]. cbn [snd] in *.
    cbn [combine map fst snd]. rewrite IH. f_equal.
    unfold bsf_step, bsf_update in E1. inversion E1. cbn [cost_bsf]. reflexivity.
  Qed.

  (* THEOREM bsf_exact (any operator, any cost function, any move sequence of any length), from _reset *)
  Theorem bsf_exact : forall (t0 : tour) (acts : list act),
    let s := fst (bsf_run (bsf_reset t0) acts) in
    let rws := snd (bsf_run (bsf_reset t0) acts) in
    cost_current s = cost (rec_current s) /\
    cost_bsf s = cost (rec_best s) /\
    cost_bsf s = minl (cost t0) (map cost (seen_from t0 acts)) /\
    In (rec_best s) (t0 :: seen_from t0 acts) /\
    rec_current s = last (seen_from t0 acts) t0 /\
    Forall (fun r => (0 <= r)%Z) rws /\
    rws = map (fun p => (fst p - snd p)%Z)
              (combine (cost t0 :: bsf_trace (bsf_reset t0) acts) (bsf_trace (bsf_reset t0) acts)) /\
    sumZ rws = (cost t0 - cost_bsf s)%Z.
  Proof.
    intros t0 acts.
    assert (Hc : consistent (bsf_reset t0)) by (split; reflexivity).
    destruct (bsf_exact_gen acts (bsf_reset t0) Hc) as [[H1 H2] [H3 [_ [H5 [H6 [H7 H8]]]]]].
    cbn [bsf_reset rec_current rec_best cost_current cost_bsf] in H3, H6, H7, H8.
    repeat split; try assumption.
    - destruct H8 as [H8|H8]; [left; symmetry; exact H8|right; exact H8].
    - apply bsf_rewards_stepwise.
  Qed.

  (* the best-so-far cost never increases along the run *)
  Lemma bsf_trace_mono : forall acts s,
    Forall (fun p => (snd p <= fst p)%Z) (combine (cost_bsf s :: bsf_trace s acts) (bsf_trace s acts)).
  Proof.
    induction acts as [|a r IH]; intros s; [constructor|].
    cbn [bsf_trace combine]. constructor.
    - cbn [fst snd]. unfold bsf_step, bsf_update. cbn [fst cost_bsf].
      destruct (cost (op (rec_current s) a) <? cost_bsf s)%Z eqn:E; lia.
    - apply IH.
  Qed.
End BSF.

(* ---- the same step with tensors as buffers in a store and td fields as references: shows that the code's
   reference structure (rec_best written in place under the index mask, rec_current rebound to the fresh
   buffer returned by _local_operator, both created by .clone() at reset) never aliases the two tours *)
Section BSFStore.
  Variable tour : Type.
  Variable act : Type.
  Variable op : tour -> act -> tour.
  Variable cost : tour -> Z.

  Record hstate := { store : list tour; r_cur : nat; r_best : nat; h_cost_current : Z; h_cost_bsf : Z }.

  (* _reset: "rec_current": current_rec, "rec_best": current_rec.clone() *)
  Definition h_reset (t0 : tour) : hstate :=
    {| store := [t0; t0]; r_cur := 0; r_best := 1; h_cost_current := cost t0; h_cost_bsf := cost t0 |}.

  Definition h_step (s : hstate) (a : act) : option (hstate * Z) :=
    match nth_error (store s) (r_cur s) with
    | None => None
    | Some sol =>
        (* next_rec = self._local_operator(solution, action): works on solution.clone(), a fresh buffer *)
        let next_rec := op sol a in
        let id_next := length (store s) in
        let st1 := store s ++ [next_rec] in
        let new_obj := cost next_rec in
        let now_bsf := if (new_obj <? h_cost_bsf s)%Z then new_obj else h_cost_bsf s in
        let reward := (h_cost_bsf s - now_bsf)%Z in
        let index := (reward >? 0)%Z in
        (* solution_best = td["rec_best"] (the buffer itself); solution_best[index] = next_rec[index].clone() *)
        let st2 := if index then set_nth (r_best s) next_rec st1 else st1 in
        (* td.update: rec_current -> next_rec's buffer, rec_best -> the same buffer as before *)
        Some ({| store := st2; r_cur := id_next; r_best := r_best s;
                 h_cost_current := new_obj; h_cost_bsf := now_bsf |}, reward)
    end.

  Definition h_abs (s : hstate) : option (bstate tour) :=
    match nth_error (store s) (r_cur s), nth_error (store s) (r_best s) with
    | Some c, Some b => Some {| rec_current := c; rec_best := b;
                                cost_current := h_cost_current s; cost_bsf := h_cost_bsf s |}
    | _, _ => None
    end.

  Definition h_inv (s : hstate) : Prop :=
    r_cur s < length (store s) /\ r_best s < length (store s) /\ r_cur s <> r_best s.

  Lemma nth_error_set_nth {A} n m (x : A) l :
    nth_error (set_nth n x l) m = if (Nat.eqb m n && Nat.ltb n (length l))%bool then Some x else nth_error l m.
  Proof.
    revert n m; induction l as [|h t IH]; intros n m.
    - simpl. rewrite andb_false_r. destruct n; reflexivity.
    - destruct n as [|n], m as [|m]; simpl; auto. rewrite IH. reflexivity.
  Qed.

  Lemma h_reset_ok t0 : h_inv (h_reset t0) /\ h_abs (h_reset t0) = Some (bsf_reset tour cost t0).
  Proof. split; [unfold h_inv; simpl; lia|reflexivity]. Qed.

  (* the store-level step refines the pure row model and keeps the two references apart *)
  Theorem h_step_refines s b a : h_inv s -> h_abs s = Some b ->
    exists s' rw, h_step s a = Some (s', rw) /\ h_inv s' /\
                  h_abs s' = Some (fst (bsf_step tour act op cost b a)) /\
                  rw = snd (bsf_step tour act op cost b a).
  Proof.
    intros [Hc [Hb Hne]] Ha. unfold h_abs in Ha.
    destruct (nth_error (store s) (r_cur s)) as [c|] eqn:Ec; [|discriminate].
    destruct (nth_error (store s) (r_best s)) as [bb|] eqn:Eb; [|discriminate].
    inversion Ha; subst b. clear Ha.
    unfold h_step. rewrite Ec.
    unfold bsf_step, bsf_update. cbn [rec_current rec_best cost_current cost_bsf fst snd].
    set (nr := op c a).
    set (now := if (cost nr <? h_cost_bsf s)%Z then cost nr else h_cost_bsf s).
    eexists. eexists. split; [reflexivity|].
    assert (Hlen : length (if (h_cost_bsf s - now >? 0)%Z then set_nth (r_best s) nr (store s ++ [nr]) else store s ++ [nr])
                   = S (length (store s))).
    { destruct (h_cost_bsf s - now >? 0)%Z; rewrite ?set_nth_length, app_length; simpl; lia. }
    split.
    - unfold h_inv. cbn [store r_cur r_best]. rewrite Hlen. lia.
    - split; [|reflexivity]. unfold h_abs. cbn [store r_cur r_best h_cost_current h_cost_bsf].
      destruct (h_cost_bsf s - now >? 0)%Z eqn:Ei.
      + rewrite !nth_error_set_nth. rewrite app_length. simpl length.
        destruct (Nat.eqb (length (store s)) (r_best s)) eqn:E1; [apply Nat.eqb_eq in E1; lia|].
        rewrite Nat.eqb_refl. simpl andb.
        assert (Hlt : Nat.ltb (r_best s) (length (store s) + 1) = true) by (apply Nat.ltb_lt; lia).
        rewrite Hlt. rewrite nth_error_app2 by lia. rewrite Nat.sub_diag. reflexivity.
      + rewrite nth_error_app2 by lia. rewrite Nat.sub_diag. simpl nth_error.
        rewrite nth_error_app1 by exact Hb. rewrite Eb. reflexivity.
  Qed.
End BSFStore.

Arguments rec_current {tour} _.
Arguments rec_best {tour} _.
Arguments cost_current {tour} _.
Arguments cost_bsf {tour} _.
