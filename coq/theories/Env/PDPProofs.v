(* PDP: independent specification and the theorems for C01 (mask soundness), C02 (no dead end, bound, done exactly
   after all nodes), C03 (reward = closed tour length through the depot), C04 (no padding action exists), C05 (every
   precedence-respecting order is reachable), C06 (checker).  Both values of force_start_at_depot. *)
From Coq Require Import ZArith List Bool Lia ZifyBool Arith Permutation.
From RL4CO Require Import Base.Num Base.EnvSig Base.SortNat Spec.Tours Env.TourCore Env.PDP.
Import ListNotations.
Open Scope Z_scope.

Notation E := PDP.

(* ---------------------------------------------------------------- specification *)
(* The vehicle's route is depot -> customers -> depot.  An action list encodes it: without force_start_at_depot the
   depot is implicit (prepended), with it the depot visit is part of the list.  The route [full] must contain every
   node 0..n exactly once, must not pass through the depot in its interior (depot first or last: the reward closes
   the tour through the depot either way), and every pickup k (1..n/2) must come before its delivery k + n/2. *)
Definition depot_at_an_end (full : list nat) : Prop :=
  exists rest, full = 0%nat :: rest \/ full = rest ++ [0%nat].

Definition pdp_feasible (i : pdp_inst) (acts : list nat) : Prop :=
  let n := pgen_n i in
  let full := pdp_full i acts in
  visits_each_once (n + 1) full /\
  depot_at_an_end full /\
  (forall k, (1 <= k <= n / 2)%nat -> (pos k full < pos (k + n / 2) full)%nat).

Definition pdp_feasibleb (i : pdp_inst) (acts : list nat) : bool :=
  let n := pgen_n i in
  let full := pdp_full i acts in
  visits_each_onceb (n + 1) full &&
  (Nat.eqb (hd 1%nat full) 0 || Nat.eqb (last full 1%nat) 0) &&
  forallb (fun k => Nat.ltb (pos k full) (pos (k + n / 2) full)) (seq 1 (n / 2)).

(* objective: minus the length of the closed tour along the route depot -> customers in order (-> depot) *)
Definition pdp_objective (i : pdp_inst) (acts : list nat) : Z := - closed_len (pdp_d i) (pdp_full i acts).

(* documented input format: an even number n >= 2 of customers (n/2 pairs), the env built for that n, the distance
   data a symmetric (n+1)x(n+1) matrix with d(depot,depot) = 0 *)
Definition pdp_wf (i : pdp_inst) : Prop :=
  Nat.even (pgen_n i) = true /\ (2 <= pgen_n i)%nat /\ length (pdist i) = S (pgen_n i) /\
  (forall a b, pdp_d i a b = pdp_d i b a) /\ pdp_d i 0 0 = 0.
Definition pdp_wfb (i : pdp_inst) : bool :=
  Nat.even (pgen_n i) && Nat.leb 2 (pgen_n i) && Nat.eqb (length (pdist i)) (S (pgen_n i)) &&
  forallb (fun r => Nat.eqb (length r) (S (pgen_n i))) (pdist i) &&
  forallb (fun a => forallb (fun b => pdp_d i a b =? pdp_d i b a) (seq 0 (S (pgen_n i)))) (seq 0 (S (pgen_n i))) &&
  (pdp_d i 0 0 =? 0).

Lemma pdp_wfb_ok i : pdp_wfb i = true -> pdp_wf i.
Proof.
  unfold pdp_wfb, pdp_wf. rewrite !andb_true_iff. intros [[[[[H1 H2] H3] H4] H5] H6].
  apply Nat.leb_le in H2. apply Nat.eqb_eq in H3. split; [exact H1|]. split; [exact H2|]. split; [exact H3|]. split; [|lia].
  rewrite forallb_forall in H4, H5. set (N := S (pgen_n i)) in *.
  assert (In_range : forall a b, (a < N)%nat -> (b < N)%nat -> pdp_d i a b = pdp_d i b a).
  { intros a b Ha Hb. specialize (H5 a ltac:(apply in_seq; lia)). rewrite forallb_forall in H5.
    specialize (H5 b ltac:(apply in_seq; lia)). lia. }
  assert (Out : forall a b, (N <= a)%nat \/ (N <= b)%nat -> pdp_d i a b = 0).
  { intros a b Hab. unfold pdp_d, mget. destruct (lt_dec a N) as [Ea|Ea].
    - destruct Hab as [Hab|Hab]; [lia|].
      assert (In (nth a (pdist i) []) (pdist i)) as Hin by (apply nth_In; lia).
      specialize (H4 _ Hin). apply Nat.eqb_eq in H4. apply nth_overflow. lia.
    - rewrite (nth_overflow (pdist i)) by lia. destruct b; reflexivity. }
  intros a b. destruct (lt_dec a N) as [Ea|Ea], (lt_dec b N) as [Eb|Eb].
  - apply In_range; assumption.
  - rewrite (Out a b), (Out b a) by lia. reflexivity.
  - rewrite (Out a b), (Out b a) by lia. reflexivity.
  - rewrite (Out a b), (Out b a) by lia. reflexivity.
Qed.

(* n = 2m with m = n/2 *)
Lemma pdp_even_half i : pdp_wf i -> pgen_n i = (2 * (pgen_n i / 2))%nat /\ pdp_nloc i = pgen_n i /\ (1 <= pgen_n i / 2)%nat.
Proof.
  intros (He & H2 & Hl & _). apply Nat.even_spec in He as [k Hk].
  assert (pgen_n i / 2 = k)%nat as Hd by (rewrite Hk, Nat.mul_comm; apply Nat.div_mul; lia).
  unfold pdp_nloc. rewrite Hl. lia.
Qed.

(* ---------------------------------------------------------------- elementwise and *)
Lemma nth_andl a b j : nth j (andl a b) false = nth j a false && nth j b false.
Proof.
  unfold andl. revert b j; induction a as [|x a IH]; intros b j.
  - simpl. destruct j; reflexivity.
  - destruct b as [|y b]; simpl.
    + destruct j; [rewrite andb_false_r|rewrite andb_false_r]; reflexivity.
    + destruct j; [reflexivity | apply IH].
Qed.

Lemma andl_set0 a b : set_nth 0 false (andl a b) = andl (set_nth 0 false a) b.
Proof. destruct a as [|x a], b as [|y b]; reflexivity. Qed.

(* ---------------------------------------------------------------- partner *)
Lemma partner_cases i a : pdp_wf i -> (a <= pgen_n i)%nat ->
  partner i a = if Nat.leb a (pgen_n i / 2) then (a + pgen_n i / 2)%nat else (a - pgen_n i / 2 - 1)%nat.
Proof.
  intros Hwf Ha. destruct (pdp_even_half i Hwf) as (Hn & Hnl & Hm). unfold partner. rewrite Hnl.
  set (m := (pgen_n i / 2)%nat) in *. destruct (Nat.leb a m) eqn:El.
  - apply Nat.leb_le in El. apply Nat.mod_small. lia.
  - apply Nat.leb_gt in El. symmetry. apply (Nat.mod_unique _ _ 1%nat); lia.
Qed.

(* to_deliver after a list of actions *)
Fixpoint todel_after (i : pdp_inst) (td : list bool) (acts : list nat) : list bool :=
  match acts with [] => td | a :: r => todel_after i (set_nth (partner i a) true td) r end.

Lemma todel_after_length i td acts : length (todel_after i td acts) = length td.
Proof. revert td; induction acts as [|a r IH]; intros td; simpl; [reflexivity|]. rewrite IH. apply set_nth_length. Qed.

Lemma nth_todel_after i td acts j :
  nth j (todel_after i td acts) false = nth j td false || (Nat.ltb j (length td) && existsb (fun a => Nat.eqb (partner i a) j) acts).
Proof.
  revert td; induction acts as [|a r IH]; intros td; simpl.
  - rewrite andb_false_r, orb_false_r. reflexivity.
  - rewrite IH, set_nth_length, nth_set_nth. rewrite (Nat.eqb_sym (partner i a) j).
    destruct (Nat.eqb j (partner i a)) eqn:Ej; cbn [andb orb].
    + apply Nat.eqb_eq in Ej. subst j. destruct (Nat.ltb (partner i a) (length td)) eqn:El; cbn [andb orb].
      * rewrite orb_true_r. reflexivity.
      * reflexivity.
    + reflexivity.
Qed.

(* ---------------------------------------------------------------- the state after any action list *)
Lemma pdp_avail_run_from i s acts : pavail (run_from (E:=E) i s acts) = avail_after (pavail s) acts.
Proof. revert s; induction acts as [|a r IH]; intros s; [reflexivity|]. cbn [run_from avail_after]. rewrite IH. reflexivity. Qed.

Lemma pdp_todel_run_from i s acts : ptodel (run_from (E:=E) i s acts) = todel_after i (ptodel s) acts.
Proof. revert s; induction acts as [|a r IH]; intros s; [reflexivity|]. cbn [run_from todel_after]. rewrite IH. reflexivity. Qed.

Lemma pdp_mask_run i acts : acts <> [] ->
  pmask (run (E:=E) i acts) = andl (pavail (run (E:=E) i acts)) (ptodel (run (E:=E) i acts)).
Proof. intros Hne. destruct acts as [|a acts] using rev_ind; [congruence|]. rewrite run_snoc. reflexivity. Qed.

Lemma pdp_dn_run i acts : acts <> [] -> pdn (run (E:=E) i acts) = negb (anyb (pavail (run (E:=E) i acts))).
Proof. intros Hne. destruct acts as [|a acts] using rev_ind; [congruence|]. rewrite run_snoc. cbn. apply countb_anyb. Qed.

Definition todel0 (i : pdp_inst) : list bool := repeat true (pgen_n i / 2 + 1) ++ repeat false (pgen_n i / 2).

Lemma pdp_reset_todel i : ptodel (pdp_reset i) = todel0 i.
Proof. unfold pdp_reset. destruct (pforce i); reflexivity. Qed.

Lemma pdp_reset_avail i : pavail (pdp_reset i) = avail_after (repeat true (pgen_n i + 1)) (if pforce i then [] else [0%nat]).
Proof. unfold pdp_reset. destruct (pforce i); reflexivity. Qed.

Lemma pdp_reset_mask_noforce i : pforce i = false ->
  pmask (pdp_reset i) = andl (pavail (pdp_reset i)) (ptodel (pdp_reset i)).
Proof. intros Hf. unfold pdp_reset. rewrite Hf. cbn [pmask pavail ptodel]. apply andl_set0. Qed.

Lemma pdp_avail_run i acts : pavail (run (E:=E) i acts) = avail_after (repeat true (pgen_n i + 1)) (pdp_full i acts).
Proof.
  unfold run. rewrite pdp_avail_run_from. cbn [reset PDP]. rewrite pdp_reset_avail. unfold pdp_full.
  destruct (pforce i); [reflexivity|]. rewrite <- avail_after_app. reflexivity.
Qed.

Lemma pdp_todel_run i acts : ptodel (run (E:=E) i acts) = todel_after i (todel0 i) acts.
Proof. unfold run. rewrite pdp_todel_run_from. cbn [reset PDP]. rewrite pdp_reset_todel. reflexivity. Qed.

Lemma nth_todel0 i j : pdp_wf i -> (j <= pgen_n i)%nat -> nth j (todel0 i) false = Nat.leb j (pgen_n i / 2).
Proof.
  intros Hwf Hj. destruct (pdp_even_half i Hwf) as (Hn & _ & Hm). unfold todel0.
  destruct (Nat.leb j (pgen_n i / 2)) eqn:El.
  - apply Nat.leb_le in El. rewrite app_nth1 by (rewrite repeat_length; lia). rewrite nth_repeat_true. apply Nat.ltb_lt. lia.
  - apply Nat.leb_gt in El. rewrite app_nth2 by (rewrite repeat_length; lia).
    apply nth_repeat.
Qed.

Lemma todel0_length i : pdp_wf i -> length (todel0 i) = S (pgen_n i).
Proof. intros Hwf. destruct (pdp_even_half i Hwf) as (Hn & _ & _). unfold todel0. rewrite app_length, !repeat_length. lia. Qed.

(* ---------------------------------------------------------------- admitted action lists, characterised *)
Definition pdp_ok (i : pdp_inst) (acts : list nat) : Prop :=
  NoDup (pdp_full i acts) /\
  (forall a, In a acts -> (a <= pgen_n i)%nat) /\
  (pforce i = true -> forall x r, acts = x :: r -> x = 0%nat) /\
  (forall k, (1 <= k <= pgen_n i / 2)%nat -> In (k + pgen_n i / 2)%nat acts -> (pos k acts < pos (k + pgen_n i / 2) acts)%nat).

(* what one more action must satisfy *)
Definition pdp_next_ok (i : pdp_inst) (p : list nat) (a : nat) : Prop :=
  (a <= pgen_n i)%nat /\ ~ In a (pdp_full i p) /\
  (pforce i = true -> p = [] -> a = 0%nat) /\
  ((pgen_n i / 2 < a)%nat -> In (a - pgen_n i / 2)%nat p).

Lemma pdp_full_snoc i p a : pdp_full i (p ++ [a]) = pdp_full i p ++ [a].
Proof. unfold pdp_full. destruct (pforce i); reflexivity. Qed.

Lemma NoDup_snoc {A} (l : list A) (a : A) : NoDup (l ++ [a]) <-> NoDup l /\ ~ In a l.
Proof.
  split.
  - intros H. split; [apply NoDup_app_l in H; exact H|]. intros Hin.
    apply (NoDup_app_disj l [a] a H Hin). left. reflexivity.
  - intros [Hn Hi]. induction l as [|x l IH]; [constructor; [intros [] | constructor]|].
    inversion Hn as [|? ? Hx Hl]; subst. cbn. constructor.
    + intros Hc. apply in_app_iff in Hc as [Hc|[Hc|[]]]; [contradiction | subst; apply Hi; left; reflexivity].
    + apply IH; [exact Hl | intros Hc; apply Hi; right; exact Hc].
Qed.

Lemma nth_cons_repeat_false n a : nth a (true :: repeat false n) false = Nat.eqb a 0.
Proof.
  destruct a as [|a]; [reflexivity|]. cbn [nth Nat.eqb]. destruct (lt_dec a n) as [H|H].
  - apply nth_repeat.
  - apply nth_overflow. rewrite repeat_length. lia.
Qed.

Lemma pdp_full_in i p a : In a p -> In a (pdp_full i p).
Proof. unfold pdp_full. destruct (pforce i); [auto | intros H; right; exact H]. Qed.

Lemma pdp_offered_iff i p a : pdp_wf i -> pdp_ok i p ->
  (offered (E:=E) i (run (E:=E) i p) a = true <-> pdp_next_ok i p a).
Proof.
  intros Hwf (Hnd & Hrng & Hhd & Hprec). destruct (pdp_even_half i Hwf) as (Hn & Hnl & Hm).
  set (n := pgen_n i) in *. set (m := (n / 2)%nat) in *. unfold pdp_next_ok. fold n m.
  unfold offered. cbn [mask PDP]. unfold pdp_mask.
  destruct (pforce i) eqn:Ef; [destruct p as [|x p]|].
  - (* forced start, first step *)
    unfold run. cbn [run_from reset PDP]. unfold pdp_reset. rewrite Ef. cbn [pmask]. fold n.
    rewrite nth_cons_repeat_false. unfold pdp_full. rewrite Ef. split.
    + intros H. apply Nat.eqb_eq in H. subst a. repeat split; try lia. intros [].
    + intros (_ & _ & H & _). apply Nat.eqb_eq. apply H; reflexivity.
  - (* forced start, later steps *)
    rewrite pdp_mask_run by discriminate. rewrite nth_andl, pdp_avail_run, pdp_todel_run.
    rewrite andb_true_iff, nth_avail_after_true, nth_repeat_true, nth_todel_after. fold n.
    split.
    + intros [[Hlt Hnin] Htd]. apply Nat.ltb_lt in Hlt. split; [lia|]. split; [exact Hnin|]. split; [discriminate|].
      intros Hma. rewrite (nth_todel0 i a Hwf) in Htd by (fold n; lia). fold n m in Htd.
      replace (Nat.leb a m) with false in Htd by (symmetry; apply Nat.leb_gt; exact Hma). cbn [orb] in Htd.
      apply andb_prop in Htd as [_ Hex]. apply existsb_exists in Hex as (b & Hb & Hpb). apply Nat.eqb_eq in Hpb.
      rewrite (partner_cases i b Hwf (Hrng b Hb)) in Hpb. fold n m in Hpb.
      specialize (Hrng b Hb). fold n in Hrng.
      destruct (Nat.leb b m) eqn:Eb; [apply Nat.leb_le in Eb | apply Nat.leb_gt in Eb; lia].
      replace (a - m)%nat with b by lia. exact Hb.
    + intros (Hle & Hnin & _ & Hdel). split; [split; [apply Nat.ltb_lt; lia | exact Hnin]|].
      rewrite (nth_todel0 i a Hwf) by (fold n; lia). fold n m. destruct (Nat.leb a m) eqn:Ea; [reflexivity|].
      apply Nat.leb_gt in Ea. cbn [orb]. apply andb_true_intro. split; [apply Nat.ltb_lt; rewrite (todel0_length i Hwf); fold n; lia|].
      apply existsb_exists. exists (a - m)%nat. split; [apply Hdel; exact Ea|]. apply Nat.eqb_eq.
      rewrite (partner_cases i (a - m)%nat Hwf) by (fold n; lia). fold n m.
      replace (Nat.leb (a - m) m) with true by (symmetry; apply Nat.leb_le; lia). lia.
  - (* depot implicit *)
    assert (Hmask : pmask (run (E:=E) i p) = andl (pavail (run (E:=E) i p)) (ptodel (run (E:=E) i p))).
    { destruct p as [|x p]; [apply pdp_reset_mask_noforce; exact Ef | apply pdp_mask_run; discriminate]. }
    rewrite Hmask. rewrite nth_andl, pdp_avail_run, pdp_todel_run.
    rewrite andb_true_iff, nth_avail_after_true, nth_repeat_true, nth_todel_after. fold n.
    split.
    + intros [[Hlt Hnin] Htd]. apply Nat.ltb_lt in Hlt. split; [lia|]. split; [exact Hnin|]. split; [discriminate|].
      intros Hma. rewrite (nth_todel0 i a Hwf) in Htd by (fold n; lia). fold n m in Htd.
      replace (Nat.leb a m) with false in Htd by (symmetry; apply Nat.leb_gt; exact Hma). cbn [orb] in Htd.
      apply andb_prop in Htd as [_ Hex]. apply existsb_exists in Hex as (b & Hb & Hpb). apply Nat.eqb_eq in Hpb.
      rewrite (partner_cases i b Hwf (Hrng b Hb)) in Hpb. fold n m in Hpb.
      specialize (Hrng b Hb). fold n in Hrng.
      destruct (Nat.leb b m) eqn:Eb; [apply Nat.leb_le in Eb | apply Nat.leb_gt in Eb; lia].
      replace (a - m)%nat with b by lia. exact Hb.
    + intros (Hle & Hnin & _ & Hdel). split; [split; [apply Nat.ltb_lt; lia | exact Hnin]|].
      rewrite (nth_todel0 i a Hwf) by (fold n; lia). fold n m. destruct (Nat.leb a m) eqn:Ea; [reflexivity|].
      apply Nat.leb_gt in Ea. cbn [orb]. apply andb_true_intro. split; [apply Nat.ltb_lt; rewrite (todel0_length i Hwf); fold n; lia|].
      apply existsb_exists. exists (a - m)%nat. split; [apply Hdel; exact Ea|]. apply Nat.eqb_eq.
      rewrite (partner_cases i (a - m)%nat Hwf) by (fold n; lia). fold n m.
      replace (Nat.leb (a - m) m) with true by (symmetry; apply Nat.leb_le; lia). lia.
Qed.

Lemma pdp_ok_nil i : pdp_ok i [].
Proof.
  unfold pdp_ok, pdp_full. split; [|split; [|split]].
  - destruct (pforce i); [constructor | constructor; [intros [] | constructor]].
  - intros a [].
  - intros _ x r H. discriminate.
  - intros k _ [].
Qed.

Lemma pdp_ok_snoc i p a : pdp_wf i -> (pdp_ok i (p ++ [a]) <-> pdp_ok i p /\ pdp_next_ok i p a).
Proof.
  intros Hwf. destruct (pdp_even_half i Hwf) as (Hn & _ & Hm).
  unfold pdp_ok, pdp_next_ok. set (n := pgen_n i) in *. set (m := (n / 2)%nat) in *.
  rewrite pdp_full_snoc, NoDup_snoc. split.
  - intros ((Hnd & Hnin) & Hrng & Hhd & Hprec).
    assert (Hnp : ~ In a p) by (intros Hc; apply Hnin; apply pdp_full_in; exact Hc).
    split; [split; [exact Hnd|]; split; [|split]|].
    + intros b Hb. apply Hrng. apply in_app_iff. left. exact Hb.
    + intros Hf x r Hp. apply (Hhd Hf x (r ++ [a])). rewrite Hp. reflexivity.
    + intros k Hk Hin. specialize (Hprec k Hk ltac:(apply in_app_iff; left; exact Hin)).
      rewrite (pos_app_in (k + m) p [a] Hin) in Hprec.
      assert (In k p) as Hkp.
      { destruct (in_dec Nat.eq_dec k p) as [H|H]; [exact H|]. rewrite pos_app_notin in Hprec by exact H.
        apply pos_lt_In in Hin. lia. }
      rewrite (pos_app_in k p [a] Hkp) in Hprec. exact Hprec.
    + split; [apply Hrng; apply in_app_iff; right; left; reflexivity|]. split; [exact Hnin|]. split.
      * intros Hf Hp. subst p. apply (Hhd Hf a []). reflexivity.
      * intros Hma. assert (Hk : (1 <= a - m <= m)%nat).
        { assert (a <= n)%nat by (apply Hrng; apply in_app_iff; right; left; reflexivity). lia. }
        specialize (Hprec (a - m)%nat Hk). replace (a - m + m)%nat with a in Hprec by lia.
        specialize (Hprec ltac:(apply in_app_iff; right; left; reflexivity)).
        rewrite (pos_app_notin a p [a] Hnp) in Hprec. cbn [pos] in Hprec. rewrite Nat.eqb_refl in Hprec.
        destruct (in_dec Nat.eq_dec (a - m)%nat p) as [H|H]; [exact H|]. rewrite pos_app_notin in Hprec by exact H.
        cbn [pos] in Hprec. destruct (Nat.eqb a (a - m)); lia.
  - intros ((Hnd & Hrng & Hhd & Hprec) & Hle & Hnin & Hfirst & Hdel).
    assert (Hnp : ~ In a p) by (intros Hc; apply Hnin; apply pdp_full_in; exact Hc).
    split; [split; assumption|]. split; [|split].
    + intros b Hb. apply in_app_iff in Hb as [Hb|[<-|[]]]; [apply Hrng; exact Hb | exact Hle].
    + intros Hf x r Hp. destruct p as [|y p].
      * cbn in Hp. inversion Hp; subst. apply Hfirst; [exact Hf | reflexivity].
      * cbn in Hp. inversion Hp; subst. apply (Hhd Hf x p). reflexivity.
    + intros k Hk Hin. apply in_app_iff in Hin as [Hin|[Hin|[]]].
      * specialize (Hprec k Hk Hin). rewrite (pos_app_in (k + m) p [a] Hin).
        assert (In k p) as Hkp. { apply pos_lt_In. apply pos_lt_In in Hin. lia. }
        rewrite (pos_app_in k p [a] Hkp). exact Hprec.
      * subst a. specialize (Hdel ltac:(lia)). replace (k + m - m)%nat with k in Hdel by lia.
        rewrite (pos_app_in k p _ Hdel), (pos_app_notin (k + m) p _ Hnp). apply pos_lt_In in Hdel. lia.
Qed.

Theorem pdp_adm_iff i acts : pdp_wf i -> (adm (E:=E) i acts = true <-> pdp_ok i acts).
Proof.
  intros Hwf. induction acts as [|a p IH] using rev_ind.
  - split; [intros _; apply pdp_ok_nil | reflexivity].
  - rewrite adm_snoc, andb_true_iff, (pdp_ok_snoc i p a Hwf). split.
    + intros [Hp Ho]. apply IH in Hp. split; [exact Hp|]. apply (pdp_offered_iff i p a Hwf Hp). exact Ho.
    + intros [Hp Hn]. split; [apply IH; exact Hp|]. apply (pdp_offered_iff i p a Hwf Hp). exact Hn.
Qed.

(* ---------------------------------------------------------------- consequences of the characterisation *)
Lemma pdp_ok_full_range i acts : pdp_ok i acts -> forall a, In a (pdp_full i acts) -> (a < pgen_n i + 1)%nat.
Proof.
  intros (_ & Hrng & _) a Ha. unfold pdp_full in Ha. destruct (pforce i).
  - specialize (Hrng a Ha). lia.
  - destruct Ha as [<-|Ha]; [lia | specialize (Hrng a Ha); lia].
Qed.

Lemma pdp_full_length i acts : length (pdp_full i acts) = (length acts + if pforce i then 0 else 1)%nat.
Proof. unfold pdp_full. destruct (pforce i); cbn; lia. Qed.

(* done exactly when every node (depot included) has been visited *)
Theorem pdp_done_iff i acts : pdp_wf i -> adm (E:=E) i acts = true ->
  (done E i (run (E:=E) i acts) = true <-> length (pdp_full i acts) = (pgen_n i + 1)%nat).
Proof.
  intros Hwf Hadm. apply (pdp_adm_iff i acts Hwf) in Hadm. pose proof (pdp_ok_full_range i acts Hadm) as Hr.
  destruct Hadm as (Hnd & _). destruct Hwf as (_ & H2 & _). cbn [done PDP]. unfold pdp_done.
  destruct acts as [|a acts].
  - unfold run. cbn [run_from reset PDP]. rewrite pdp_full_length. cbn [length].
    unfold pdp_reset. destruct (pforce i); cbn [pdn]; split; try discriminate; lia.
  - rewrite pdp_dn_run by discriminate. rewrite negb_true_iff, pdp_avail_run. apply nothing_left_iff; assumption.
Qed.

Lemma pos_cons_ne x y l : x <> y -> pos y (x :: l) = S (pos y l).
Proof. intros H. cbn [pos]. apply Nat.eqb_neq in H. rewrite H. reflexivity. Qed.

(* ================================================================ C01 *)
Theorem pdp_mask_sound i acts :
  pdp_wf i -> adm (E:=E) i acts = true -> done E i (run (E:=E) i acts) = true ->
  pdp_feasible i acts /\ exists rest, pdp_full i acts = 0%nat :: rest.
Proof.
  intros Hwf Hadm Hd. apply (pdp_done_iff i acts Hwf Hadm) in Hd. apply (pdp_adm_iff i acts Hwf) in Hadm.
  pose proof (pdp_ok_full_range i acts Hadm) as Hr. destruct (pdp_even_half i Hwf) as (Hn & _ & Hm).
  destruct Hadm as (Hnd & Hrng & Hhd & Hprec).
  assert (Hv : visits_each_once (pgen_n i + 1) (pdp_full i acts)) by (apply visits_each_once_nodup; auto).
  assert (Hstart : exists rest, pdp_full i acts = 0%nat :: rest).
  { unfold pdp_full in *. destruct (pforce i) eqn:Ef; [|exists acts; reflexivity].
    destruct acts as [|x r]; [cbn in Hd; lia|]. exists r. rewrite (Hhd eq_refl x r eq_refl). reflexivity. }
  split; [|exact Hstart]. unfold pdp_feasible. split; [exact Hv|]. split.
  - destruct Hstart as [rest Hrest]. exists rest. left. exact Hrest.
  - intros k Hk. set (m := (pgen_n i / 2)%nat) in *.
    assert (Hin : In (k + m)%nat (pdp_full i acts)).
    { apply occ_In. destruct Hv as [Ho _]. rewrite (Ho (k + m)%nat) by lia. lia. }
    unfold pdp_full in *. destruct (pforce i).
    + apply Hprec; assumption.
    + destruct Hin as [Hin|Hin]; [lia|]. rewrite !pos_cons_ne by lia. specialize (Hprec k Hk Hin). lia.
Qed.

(* ================================================================ C02 *)
Lemma pdp_lengths i acts : pdp_wf i ->
  length (pavail (run (E:=E) i acts)) = S (pgen_n i) /\ length (ptodel (run (E:=E) i acts)) = S (pgen_n i).
Proof.
  intros Hwf. rewrite pdp_avail_run, pdp_todel_run, avail_after_length, todel_after_length, repeat_length, (todel0_length i Hwf). lia.
Qed.

Theorem pdp_step_ok i acts a :
  pdp_wf i -> adm (E:=E) i acts = true -> offered (E:=E) i (run (E:=E) i acts) a = true ->
  stepok E i (run (E:=E) i acts) a = true.
Proof.
  intros Hwf Hadm Ho. apply (pdp_adm_iff i acts Hwf) in Hadm. apply (pdp_offered_iff i acts a Hwf Hadm) in Ho.
  destruct Ho as (Hle & _). destruct (pdp_lengths i acts Hwf) as [L1 L2]. destruct (pdp_even_half i Hwf) as (_ & Hnl & _).
  cbn [stepok PDP]. unfold pdp_stepok. rewrite L1, L2, Nat.eqb_refl, andb_true_r. apply andb_true_intro. split.
  - apply Nat.ltb_lt. lia.
  - apply Nat.ltb_lt. unfold partner. rewrite Hnl. pose proof (Nat.mod_upper_bound (a + pgen_n i / 2) (pgen_n i + 1)). lia.
Qed.

Theorem pdp_bound i acts : pdp_wf i -> adm (E:=E) i acts = true ->
  (length acts <= pgen_n i + if pforce i then 1 else 0)%nat.
Proof.
  intros Hwf Hadm. apply (pdp_adm_iff i acts Hwf) in Hadm. pose proof (pdp_ok_full_range i acts Hadm) as Hr.
  destruct Hadm as (Hnd & _). pose proof (distinct_in_range_le _ _ Hnd Hr) as H. rewrite pdp_full_length in H.
  destruct (pforce i); lia.
Qed.

Lemma nth_true_anyb l j : nth j l false = true -> anyb l = true.
Proof.
  intros H. apply anyb_exists. exists j. split; [|exact H]. destruct (lt_dec j (length l)) as [Hl|Hl]; [exact Hl|].
  rewrite nth_overflow in H by lia. discriminate.
Qed.

Lemma some_left n acts : NoDup acts -> (forall a, In a acts -> (a < n)%nat) -> length acts <> n ->
  exists j, (j < n)%nat /\ ~ In j acts.
Proof.
  intros Hnd Hr Hl. destruct (anyb (avail_after (repeat true n) acts)) eqn:Ea.
  - apply anyb_exists in Ea as (j & _ & Hj). apply nth_avail_after_true in Hj as [Hjn Hjv].
    rewrite nth_repeat_true in Hjn. apply Nat.ltb_lt in Hjn. exists j. split; assumption.
  - apply (nothing_left_iff _ _ Hnd Hr) in Ea. contradiction.
Qed.

Theorem pdp_no_dead_end i acts :
  pdp_wf i -> adm (E:=E) i acts = true -> done E i (run (E:=E) i acts) = false ->
  anyb (mask E i (run (E:=E) i acts)) = true.
Proof.
  intros Hwf Hadm Hd. pose proof (pdp_done_iff i acts Hwf Hadm) as Hiff.
  pose proof (proj1 (pdp_adm_iff i acts Hwf) Hadm) as Hok. pose proof (pdp_ok_full_range i acts Hok) as Hr.
  destruct (pdp_even_half i Hwf) as (Hn & _ & Hm). set (m := (pgen_n i / 2)%nat) in *.
  assert (Hoff : forall a, pdp_next_ok i acts a -> anyb (mask E i (run (E:=E) i acts)) = true).
  { intros a Ha. apply (pdp_offered_iff i acts a Hwf Hok) in Ha. unfold offered in Ha. eapply nth_true_anyb. exact Ha. }
  destruct Hok as (Hnd & Hrng & Hhd & Hprec).
  (* forced start, first step: the depot *)
  destruct (pforce i) eqn:Ef; [destruct acts as [|x p]|].
  - apply (Hoff 0%nat). unfold pdp_next_ok, pdp_full. rewrite Ef. repeat split; try lia. intros [].
  - (* some node is unvisited *)
    destruct (some_left _ _ Hnd Hr) as (j & Hjn & Hjv); [intros Hl; apply Hiff in Hl; congruence|].
    assert (H0 : In 0%nat (pdp_full i (x :: p))).
    { unfold pdp_full. rewrite Ef. left. apply (Hhd eq_refl x p eq_refl). }
    assert (Hj0 : j <> 0%nat) by (intros ->; contradiction).
    destruct (le_dec j m) as [Hjm|Hjm].
    + apply (Hoff j). unfold pdp_next_ok. fold m. split; [lia|]. split; [exact Hjv|]. split; [discriminate | lia].
    + destruct (in_dec Nat.eq_dec (j - m)%nat (x :: p)) as [Hin|Hnin].
      * apply (Hoff j). unfold pdp_next_ok. fold m. split; [lia|]. split; [exact Hjv|]. split; [discriminate | intros _; exact Hin].
      * apply (Hoff (j - m)%nat). unfold pdp_next_ok. fold m. split; [lia|]. split; [|split; [discriminate | lia]].
        unfold pdp_full. rewrite Ef. exact Hnin.
  - destruct (some_left _ _ Hnd Hr) as (j & Hjn & Hjv); [intros Hl; apply Hiff in Hl; congruence|].
    assert (Hj0 : j <> 0%nat) by (intros ->; apply Hjv; unfold pdp_full; rewrite Ef; left; reflexivity).
    destruct (le_dec j m) as [Hjm|Hjm].
    + apply (Hoff j). unfold pdp_next_ok. fold m. split; [lia|]. split; [exact Hjv|]. split; [intros Hf; congruence | lia].
    + destruct (in_dec Nat.eq_dec (j - m)%nat acts) as [Hin|Hnin].
      * apply (Hoff j). unfold pdp_next_ok. fold m. split; [lia|]. split; [exact Hjv|]. split; [intros Hf; congruence | intros _; exact Hin].
      * apply (Hoff (j - m)%nat). unfold pdp_next_ok. fold m. split; [lia|]. split; [|split; [intros Hf; congruence | lia]].
        unfold pdp_full. rewrite Ef. intros [Hc|Hc]; [lia | contradiction].
Qed.

(* once done nothing is offered *)
Theorem pdp_done_mask_empty i acts a :
  pdp_wf i -> adm (E:=E) i acts = true -> done E i (run (E:=E) i acts) = true ->
  offered (E:=E) i (run (E:=E) i acts) a = false.
Proof.
  intros Hwf Hadm Hd. apply (pdp_done_iff i acts Hwf Hadm) in Hd.
  pose proof (proj1 (pdp_adm_iff i acts Hwf) Hadm) as Hok. pose proof (pdp_ok_full_range i acts Hok) as Hr.
  apply not_true_iff_false. intros Ho. apply (pdp_offered_iff i acts a Hwf Hok) in Ho. destruct Ho as (Hle & Hnin & _).
  destruct Hok as (Hnd & _). apply Hnin. apply (proj2 (distinct_all_iff _ _ Hnd Hr) Hd). lia.
Qed.

Theorem pdp_done_stable i acts a :
  pdp_wf i -> adm (E:=E) i (acts ++ [a]) = true -> done E i (run (E:=E) i acts) = true ->
  done E i (run (E:=E) i (acts ++ [a])) = true.
Proof.
  intros Hwf Hadm Hd. rewrite adm_snoc in Hadm. apply andb_prop in Hadm as [Ha Ho].
  rewrite (pdp_done_mask_empty i acts a Hwf Ha Hd) in Ho. discriminate.
Qed.

(* batch level: rows with the same n and the same force flag that have taken the same number t of admitted steps *)
Theorem pdp_batch_lockstep (n t : nat) (f : bool) (rows : list (pdp_inst * list nat)) :
  (forall r, In r rows -> pdp_wf (fst r) /\ pgen_n (fst r) = n /\ pforce (fst r) = f /\ length (snd r) = t /\
                          adm (E:=E) (fst r) (snd r) = true) ->
  rows <> [] ->
  let bound := (n + if f then 1 else 0)%nat in
  (t <= bound)%nat /\
  ((t < bound)%nat -> forall r, In r rows -> done E (fst r) (run (E:=E) (fst r) (snd r)) = false /\
                                             anyb (mask E (fst r) (run (E:=E) (fst r) (snd r))) = true) /\
  (t = bound -> forall r, In r rows -> done E (fst r) (run (E:=E) (fst r) (snd r)) = true).
Proof.
  intros H Hne bound. split; [|split].
  - destruct rows as [|r rows]; [congruence|]. destruct (H r (or_introl eq_refl)) as (Hwf & Hn & Hf & Ht & Ha).
    pose proof (pdp_bound _ _ Hwf Ha) as Hb. rewrite Hn, Hf, Ht in Hb. exact Hb.
  - intros Hlt r Hr. destruct (H r Hr) as (Hwf & Hn & Hf & Ht & Ha).
    assert (Hd : done E (fst r) (run (E:=E) (fst r) (snd r)) = false).
    { destruct (done E (fst r) (run (E:=E) (fst r) (snd r))) eqn:Ed; [|reflexivity].
      apply (pdp_done_iff _ _ Hwf Ha) in Ed. rewrite pdp_full_length, Hn, Hf, Ht in Ed. unfold bound in Hlt. destruct f; lia. }
    split; [exact Hd | apply pdp_no_dead_end; assumption].
  - intros Heq r Hr. destruct (H r Hr) as (Hwf & Hn & Hf & Ht & Ha). apply (pdp_done_iff _ _ Hwf Ha).
    rewrite pdp_full_length, Hn, Hf, Ht. unfold bound in Heq. destruct f; lia.
Qed.

(* ================================================================ C03 *)
Lemma closed_len_dup_head d x r : d x x = 0 -> closed_len d (x :: x :: r) = closed_len d (x :: r).
Proof.
  intros H. unfold closed_len. rewrite open_len_cons, H.
  change (last (x :: x :: r) x) with (last (x :: r) x). lia.
Qed.

(* _get_reward prepends the depot; with force_start_at_depot the action list itself starts with the depot, which
   adds the zero-length leg depot -> depot *)
Theorem pdp_reward_is_objective i acts :
  (forall a b, pdp_d i a b = pdp_d i b a) -> pdp_d i 0 0 = 0 ->
  (pforce i = true -> exists rest, acts = 0%nat :: rest) ->
  pdp_reward i acts = pdp_objective i acts.
Proof.
  intros S H00 Hf. unfold pdp_reward, pdp_objective, pdp_full. rewrite roll_sum_flip_sym by exact S.
  destruct (pforce i); [|reflexivity]. destruct (Hf eq_refl) as [rest ->].
  rewrite closed_len_dup_head by exact H00. reflexivity.
Qed.

(* ================================================================ C04 *)
Theorem pdp_no_padding i acts pad :
  pdp_wf i -> adm (E:=E) i (acts ++ pad) = true -> done E i (run (E:=E) i acts) = true -> pad = [].
Proof.
  intros Hwf Hadm Hd. destruct pad as [|a pad]; [reflexivity|]. exfalso.
  replace (acts ++ a :: pad) with ((acts ++ [a]) ++ pad) in Hadm by (rewrite <- app_assoc; reflexivity).
  apply adm_prefix in Hadm. rewrite adm_snoc in Hadm. apply andb_prop in Hadm as [Ha Ho].
  rewrite (pdp_done_mask_empty i acts a Hwf Ha Hd) in Ho. discriminate.
Qed.

(* ================================================================ C05 *)
(* every feasible route that is encoded with the depot first (always the case without force_start_at_depot, where
   the depot is implicit; the documented forcing otherwise) is admitted step by step and ends the episode *)
Theorem pdp_mask_complete i acts :
  pdp_wf i -> pdp_feasible i acts -> (exists rest, pdp_full i acts = 0%nat :: rest) ->
  adm (E:=E) i acts = true /\ done E i (run (E:=E) i acts) = true.
Proof.
  intros Hwf (Hv & _ & Hprec) [rest Hrest]. destruct (pdp_even_half i Hwf) as (Hn & _ & Hm).
  pose proof (proj1 (visits_each_once_nodup _ _) Hv) as (Hl & Hnd & Hr).
  set (m := (pgen_n i / 2)%nat) in *.
  assert (Hok : pdp_ok i acts).
  { unfold pdp_ok. fold m. split; [exact Hnd|]. split; [|split].
    - intros a Ha. specialize (Hr a (pdp_full_in i acts a Ha)). lia.
    - intros Hf x r Hx. unfold pdp_full in Hrest. rewrite Hf in Hrest. rewrite Hx in Hrest. inversion Hrest. reflexivity.
    - intros k Hk Hin. specialize (Hprec k Hk). unfold pdp_full in Hprec. destruct (pforce i); [exact Hprec|].
      rewrite !pos_cons_ne in Hprec by lia. lia. }
  assert (Hadm : adm (E:=E) i acts = true) by (apply (pdp_adm_iff i acts Hwf); exact Hok).
  split; [exact Hadm|]. apply (pdp_done_iff i acts Hwf Hadm). exact Hl.
Qed.

(* the only feasible encodings outside that form put the forced depot visit last instead of first: same closed tour,
   same reward *)
Lemma open_len_app_last d l y : l <> [] -> open_len d (l ++ [y]) = open_len d l + d (last l 0%nat) y.
Proof.
  intros Hne. destruct (exists_last Hne) as (l' & x & ->). rewrite open_len_snoc, last_last. reflexivity.
Qed.

Theorem pdp_depot_last_same_reward i rest :
  (forall a b, pdp_d i a b = pdp_d i b a) -> pdp_d i 0 0 = 0 ->
  pdp_reward i (rest ++ [0%nat]) = pdp_reward i (0%nat :: rest).
Proof.
  intros S H00. unfold pdp_reward. rewrite !roll_sum_flip_sym by exact S.
  rewrite closed_len_dup_head by exact H00. unfold closed_len.
  change (0%nat :: rest ++ [0%nat]) with ((0%nat :: rest) ++ [0%nat]).
  rewrite open_len_app_last by discriminate. rewrite last_last, H00.
  lia.
Qed.

(* ================================================================ C06 *)
Lemma In_removelast (x : nat) l : In x (removelast l) -> In x l.
Proof.
  induction l as [|y l IH]; [intros []|]. destruct l as [|z l]; [intros []|].
  intros [H|H]; [left; exact H | right; apply IH; exact H].
Qed.

Lemma mid_ok_of_end full : NoDup full -> depot_at_an_end full ->
  forallb (fun a => negb (Nat.eqb a 0)) (mid full) = true.
Proof.
  intros Hnd [rest [Hf|Hf]]; subst full; apply forallb_forall; intros a Ha; apply negb_true_iff, Nat.eqb_neq; intros ->.
  - unfold mid in Ha. cbn [tl] in Ha. apply In_removelast in Ha. inversion Hnd; contradiction.
  - destruct rest as [|x r]; [destruct Ha|]. unfold mid in Ha. cbn [app tl] in Ha. rewrite removelast_last in Ha.
    apply (NoDup_app_disj (x :: r) [0%nat] 0%nat Hnd); [right; exact Ha | left; reflexivity].
Qed.

Lemma end_of_mid_ok full : In 0%nat full -> forallb (fun a => negb (Nat.eqb a 0)) (mid full) = true ->
  depot_at_an_end full.
Proof.
  intros Hin Hmid. destruct full as [|x r]; [destruct Hin|]. destruct (Nat.eq_dec x 0) as [->|Hx].
  - exists r. left. reflexivity.
  - destruct Hin as [Hin|Hin]; [congruence|]. assert (r <> []) as Hne by (intros ->; destruct Hin).
    destruct (exists_last Hne) as (r' & y & ->). unfold mid in Hmid. cbn [tl] in Hmid. rewrite removelast_last in Hmid.
    apply in_app_iff in Hin as [Hin|[->|[]]].
    + rewrite forallb_forall in Hmid. specialize (Hmid 0%nat Hin). discriminate.
    + exists (x :: r'). right. reflexivity.
Qed.

Lemma forallb2_lt_map_seq (f : nat -> nat) c : forall s1 s2,
  forallb2_lt (map f (seq s1 c)) (map f (seq s2 c)) = true <-> (forall t, (t < c)%nat -> (f (s1 + t) < f (s2 + t))%nat).
Proof.
  induction c as [|c IH]; intros s1 s2; cbn [seq map forallb2_lt].
  - split; [intros _ t Ht; lia | reflexivity].
  - rewrite andb_true_iff, IH, Nat.ltb_lt. split.
    + intros [H0 H] [|t] Ht; [rewrite !Nat.add_0_r; exact H0|]. specialize (H t ltac:(lia)).
      replace (s1 + S t)%nat with (S s1 + t)%nat by lia. replace (s2 + S t)%nat with (S s2 + t)%nat by lia. exact H.
    + intros H. split; [specialize (H 0%nat ltac:(lia)); rewrite !Nat.add_0_r in H; exact H|].
      intros t Ht. specialize (H (S t) ltac:(lia)).
      replace (s1 + S t)%nat with (S s1 + t)%nat in H by lia. replace (s2 + S t)%nat with (S s2 + t)%nat in H by lia. exact H.
Qed.

Lemma half_succ_even m : ((2 * m + 1) / 2 = m)%nat.
Proof. symmetry. apply (Nat.div_unique _ _ _ 1%nat); lia. Qed.

(* on action lists of the instance's length the third test of the checker is exactly the precedence constraint *)
Lemma pdp_prec_test i acts : pdp_wf i -> length (pdp_full i acts) = (pgen_n i + 1)%nat ->
  let full := pdp_full i acts in let L := length full in
  (lt_broadcast (map (fun j => pos j full) (seq 1 (L / 2))) (map (fun j => pos j full) (seq (L / 2 + 1) (L - L / 2 - 1))) = true
   <-> (forall k, (1 <= k <= pgen_n i / 2)%nat -> (pos k full < pos (k + pgen_n i / 2) full)%nat)).
Proof.
  intros Hwf Hl full L. destruct (pdp_even_half i Hwf) as (Hn & _ & Hm). set (m := (pgen_n i / 2)%nat) in *.
  assert (HL : L = (2 * m + 1)%nat) by (unfold L, full; lia).
  assert (Hh : (L / 2 = m)%nat) by (rewrite HL; apply half_succ_even).
  rewrite Hh. replace (L - m - 1)%nat with m by lia. unfold lt_broadcast.
  rewrite !map_length, !seq_length, Nat.eqb_refl. rewrite forallb2_lt_map_seq. split.
  - intros H k Hk. specialize (H (k - 1)%nat ltac:(lia)).
    replace (1 + (k - 1))%nat with k in H by lia. replace (m + 1 + (k - 1))%nat with (k + m)%nat in H by lia. exact H.
  - intros H t Ht. specialize (H (1 + t)%nat ltac:(lia)). replace (m + 1 + t)%nat with (1 + t + m)%nat by lia. exact H.
Qed.

Theorem pdp_checker_complete i acts : pdp_wf i -> pdp_feasible i acts -> pdp_checker i acts = true.
Proof.
  intros Hwf (Hv & Hend & Hprec). pose proof (proj1 (visits_each_once_nodup _ _) Hv) as (Hl & Hnd & _).
  pose proof Hwf as (_ & _ & Hpl & _).
  unfold pdp_checker. apply andb_true_intro. split; [apply andb_true_intro; split; [apply andb_true_intro; split|]|].
  - apply Nat.eqb_eq. rewrite Hl, Hpl. lia.
  - apply sorted_is_arange_iff. rewrite Hl. exact Hv.
  - apply mid_ok_of_end; assumption.
  - apply (pdp_prec_test i acts Hwf Hl). exact Hprec.
Qed.

(* accepted => feasible route; no hypothesis on the length of the action list: the checker establishes it *)
Theorem pdp_checker_sound i acts : pdp_wf i -> pdp_checker i acts = true -> pdp_feasible i acts.
Proof.
  intros Hwf Hc. pose proof Hwf as (_ & _ & Hpl & _).
  unfold pdp_checker in Hc. apply andb_prop in Hc as [Hc H3]. apply andb_prop in Hc as [Hc H2]. apply andb_prop in Hc as [H0 H1].
  apply Nat.eqb_eq in H0. assert (Hl : length (pdp_full i acts) = (pgen_n i + 1)%nat) by lia.
  apply sorted_is_arange_iff in H1. rewrite Hl in H1. unfold pdp_feasible. split; [exact H1|]. split.
  - apply end_of_mid_ok; [|exact H2]. apply occ_In. destruct H1 as [Ho _]. rewrite (Ho 0%nat) by lia. lia.
  - apply (pdp_prec_test i acts Hwf Hl). exact H3.
Qed.

Corollary pdp_checker_rejects_wrong_length i acts :
  pdp_wf i -> length (pdp_full i acts) <> (pgen_n i + 1)%nat -> pdp_checker i acts = false.
Proof.
  intros Hwf Hl. apply not_true_iff_false. intros Hc. destruct (pdp_checker_sound i acts Hwf Hc) as (Hv & _).
  apply visits_each_once_nodup in Hv as (H & _). contradiction.
Qed.

Corollary pdp_checker_rejects_delivery_before_pickup i acts k :
  pdp_wf i -> (1 <= k <= pgen_n i / 2)%nat ->
  (pos (k + pgen_n i / 2) (pdp_full i acts) <= pos k (pdp_full i acts))%nat -> pdp_checker i acts = false.
Proof.
  intros Hwf Hk Hp. apply not_true_iff_false. intros Hc. destruct (pdp_checker_sound i acts Hwf Hc) as (_ & _ & H).
  specialize (H k Hk). lia.
Qed.

Corollary pdp_checker_rejects_missing i acts j :
  pdp_wf i -> (j <= pgen_n i)%nat -> ~ In j (pdp_full i acts) -> pdp_checker i acts = false.
Proof.
  intros Hwf Hj Hn. apply not_true_iff_false. intros Hc. destruct (pdp_checker_sound i acts Hwf Hc) as ([Ho _] & _).
  specialize (Ho j ltac:(lia)). apply occ_not_In in Hn. lia.
Qed.

Corollary pdp_checker_rejects_duplicate i acts j : pdp_wf i -> (2 <= occ j (pdp_full i acts))%nat -> pdp_checker i acts = false.
Proof.
  intros Hwf Hd. apply not_true_iff_false. intros Hc. destruct (pdp_checker_sound i acts Hwf Hc) as (Hv & _).
  apply visits_each_once_nodup in Hv as (_ & Hnd & _). apply NoDup_occ_le1 with (x := j) in Hnd. lia.
Qed.

Corollary pdp_checker_rejects_depot_inside i acts a b c :
  pdp_wf i ->
  pdp_full i acts = (a :: b) ++ 0%nat :: c :: nil \/ (exists b', pdp_full i acts = (a :: b) ++ 0%nat :: c :: b') ->
  pdp_checker i acts = false.
Proof.
  intros Hwf Hshape. apply not_true_iff_false. intros Hc. unfold pdp_checker in Hc. apply andb_prop in Hc as [Hc _].
  apply andb_prop in Hc as [_ H2]. rewrite forallb_forall in H2.
  assert (In 0%nat (mid (pdp_full i acts))) as Hin.
  { destruct Hshape as [->|[b' ->]]; unfold mid; cbn [app tl].
    - replace (b ++ [0%nat; c]) with ((b ++ [0%nat]) ++ [c]) by (rewrite <- app_assoc; reflexivity).
      rewrite removelast_last. apply in_app_iff. right. left. reflexivity.
    - replace (b ++ 0%nat :: c :: b') with ((b ++ [0%nat]) ++ c :: b') by (rewrite <- app_assoc; reflexivity).
      rewrite removelast_app by discriminate. apply in_app_iff. left. apply in_app_iff. right. left. reflexivity. }
  specialize (H2 0%nat Hin). discriminate.
Qed.

(* the witnesses of the repaired defect (fix 5d5f57a; known_findings.json: fixed): 4 customers, depot implicit,
   actions [1; 2] (customers 3 and 4 never visited), and 2 customers, forced depot start, actions [0], used to be
   accepted (the checker paired node k with node k + len//2 of the list it was given) and are now rejected *)
Example pdp_checker_truncated_now_rejected :
  let i := {| pgen_n := 4; pforce := false;
              pdist := [[0;1;2;3;4]; [1;0;1;2;3]; [2;1;0;1;2]; [3;2;1;0;1]; [4;3;2;1;0]] |} in
  let j := {| pgen_n := 2; pforce := true; pdist := [[0;1;2]; [1;0;1]; [2;1;0]] |} in
  pdp_wfb i = true /\ pdp_checker i [1; 2]%nat = false /\ pdp_checker i [1; 2; 3; 4]%nat = true /\
  pdp_wfb j = true /\ pdp_checker j [0]%nat = false /\ pdp_checker j [0; 1; 2]%nat = true.
Proof. vm_compute. repeat split. Qed.

(* ---------------------------------------------------------------- the executable twin of the specification *)
Lemma depot_at_an_endb_ok full : full <> [] ->
  (Nat.eqb (hd 1%nat full) 0 || Nat.eqb (last full 1%nat) 0 = true <-> depot_at_an_end full).
Proof.
  intros Hne. rewrite orb_true_iff, !Nat.eqb_eq. split.
  - intros [H|H].
    + destruct full as [|x r]; [congruence|]. cbn in H. subst x. exists r. left. reflexivity.
    + destruct (exists_last Hne) as (r & y & ->). rewrite last_last in H. subst y. exists r. right. reflexivity.
  - intros [rest [->| ->]]; [left; reflexivity | right; apply last_last].
Qed.

Lemma pdp_feasibleb_ok i acts : pdp_feasibleb i acts = true <-> pdp_feasible i acts.
Proof.
  unfold pdp_feasibleb, pdp_feasible. rewrite !andb_true_iff, visits_each_onceb_ok, forallb_forall.
  assert (Hne : visits_each_once (pgen_n i + 1) (pdp_full i acts) -> pdp_full i acts <> []).
  { intros Hv Hc. apply visits_each_once_nodup in Hv as (Hl & _). rewrite Hc in Hl. cbn in Hl. lia. }
  split.
  - intros [[Hv He] Hp]. split; [exact Hv|]. split; [apply depot_at_an_endb_ok; auto|].
    intros k Hk. apply Nat.ltb_lt. apply Hp. apply in_seq. lia.
  - intros (Hv & He & Hp). split; [split; [exact Hv | apply depot_at_an_endb_ok; auto]|].
    intros k Hk. apply in_seq in Hk. apply Nat.ltb_lt. apply Hp. lia.
Qed.

(* ---------------------------------------------------------------- unfolded forms used by the Properties files *)
Lemma pdp_mask_sound_unfolded :
  forall (i : pdp_inst) (acts : list nat),
    pdp_wf i -> adm (E:=E) i acts = true -> done E i (run (E:=E) i acts) = true ->
    let n := pgen_n i in
    let route := if pforce i then acts else 0%nat :: acts in
    ((forall j, (j < n + 1)%nat -> occ j route = 1%nat) /\ (forall a, In a route -> (a < n + 1)%nat)) /\
    (exists rest, route = 0%nat :: rest) /\
    (forall k, (1 <= k <= n / 2)%nat -> (pos k route < pos (k + n / 2) route)%nat).
Proof.
  intros i acts Hwf Ha Hd. destruct (pdp_mask_sound i acts Hwf Ha Hd) as ((Hv & _ & Hp) & Hs). cbv zeta.
  split; [exact Hv|]. split; [exact Hs | exact Hp].
Qed.

Lemma pdp_mask_complete_unfolded :
  forall (i : pdp_inst) (acts : list nat),
    pdp_wf i ->
    let n := pgen_n i in
    let route := if pforce i then acts else 0%nat :: acts in
    (forall j, (j < n + 1)%nat -> occ j route = 1%nat) -> (forall a, In a route -> (a < n + 1)%nat) ->
    (exists rest, route = 0%nat :: rest) ->
    (forall k, (1 <= k <= n / 2)%nat -> (pos k route < pos (k + n / 2) route)%nat) ->
    adm (E:=E) i acts = true /\ done E i (run (E:=E) i acts) = true.
Proof.
  intros i acts Hwf n route H1 H2 [rest H3] H4. apply pdp_mask_complete; [exact Hwf | | exists rest; exact H3].
  split; [split; assumption|]. split; [exists rest; left; exact H3 | exact H4].
Qed.

Lemma pdp_checker_sound_unfolded :
  forall (i : pdp_inst) (acts : list nat),
    pdp_wf i ->
    let n := pgen_n i in
    let route := if pforce i then acts else 0%nat :: acts in
    pdp_checker i acts = true ->
    ((forall j, (j < n + 1)%nat -> occ j route = 1%nat) /\ (forall a, In a route -> (a < n + 1)%nat)) /\
    (exists rest, route = 0%nat :: rest \/ route = rest ++ [0%nat]) /\
    (forall k, (1 <= k <= n / 2)%nat -> (pos k route < pos (k + n / 2) route)%nat).
Proof. intros i acts Hwf n route Hc. exact (pdp_checker_sound i acts Hwf Hc). Qed.

Lemma pdp_checker_complete_unfolded :
  forall (i : pdp_inst) (acts : list nat),
    pdp_wf i ->
    let n := pgen_n i in
    let route := if pforce i then acts else 0%nat :: acts in
    (forall j, (j < n + 1)%nat -> occ j route = 1%nat) -> (forall a, In a route -> (a < n + 1)%nat) ->
    (exists rest, route = 0%nat :: rest \/ route = rest ++ [0%nat]) ->
    (forall k, (1 <= k <= n / 2)%nat -> (pos k route < pos (k + n / 2) route)%nat) ->
    pdp_checker i acts = true.
Proof.
  intros i acts Hwf n route H1 H2 H3 H4. apply pdp_checker_complete; [exact Hwf|].
  split; [split; assumption|]. split; assumption.
Qed.

(* ================================================================ C02, batch corollary: the decoding loop *)
From RL4CO Require Import Env.FixedLenLoop.

Definition pdp_bound_of (i : pdp_inst) : nat := (pgen_n i + if pforce i then 1 else 0)%nat.

Theorem pdp_rollout_terminates (choose : nat -> pdp_inst * pdp_st -> nat) :
  (forall t i s, anyb (mask E i s) = true -> offered (E:=E) i s (choose t (i, s)) = true) ->
  forall (insts : list pdp_inst) (B extra : nat),
    insts <> [] -> (forall i, In i insts -> pdp_wf i /\ pdp_bound_of i = B) ->
    loop E choose (B + extra) (map (fun i => (i, reset E i)) insts) 0 = Some B.
Proof.
  intros Hch insts B extra Hne Hall.
  apply (loop_terminates E pdp_wf pdp_bound_of); try assumption.
  - intros i p Hwf Ha. rewrite (pdp_done_iff i p Hwf Ha), pdp_full_length. unfold pdp_bound_of. destruct (pforce i); lia.
  - intros i p Hwf Ha Hd. apply pdp_no_dead_end; assumption.
Qed.
