(* C09 -- TSPkoptEnv._local_operator, branch k_max > 2 (NeuOpt k-opt relinking), and the sequential move
   builder shared by TSPkoptEnv._random_action and NeuOptPolicy.forward (its masks do not depend on the
   network).  Model only; the unbounded validity theorem is in ImproveKoptUnbounded.v (operator on S-moves) and
   ImproveKoptBuilder.v (builder invariant, [k_opt_valid]); a finite exhaustive statement is in ImproveKoptFinite.v. *)
From Coq Require Import ZArith List Bool Lia ZifyBool Arith.
From RL4CO Require Import Env.Improve.
Import ListNotations.

(* rec.scatter_(1, idx, vals): writes in index order.  With duplicate indices torch leaves the winner
   unspecified; [scatter_consistent] says duplicates carry equal values (checked for every permitted move). *)
Definition scatter (rec idx vals : list nat) : list nat :=
  fold_left (fun r iv => set_nth (fst iv) (snd iv) r) (combine idx vals) rec.

Fixpoint scatter_consistent (idx vals : list nat) : bool :=
  match idx, vals with
  | i :: idx', v :: vals' =>
      forallb (fun jw => negb (Nat.eqb (fst jw) i) || Nat.eqb (snd jw) v) (combine idx' vals')
      && scatter_consistent idx' vals'
  | _, _ => true
  end.

(* one iteration of the relinking loop:
     next_cur = rec_next[cur]; pre_next_wrt_old = argsort[next_cur]
     reverse_link_condition = (cur != pre_next_wrt_old) & ~(next_cur in right_nodes)
     next_next_cur = rec_next[next_cur]
     rec_next[next_cur] = where(reverse_link_condition, pre_next_wrt_old, next_next_cur); cur = next_cur *)
Definition k_opt_body (argsort_old right_nodes : list nat) (st : list nat * nat) : list nat * nat :=
  let rec_next := fst st in
  let cur := snd st in
  let next_cur := nxt rec_next cur in
  let pre := nth next_cur argsort_old 0 in
  let cond := negb (Nat.eqb cur pre) && negb (mem next_cur right_nodes) in
  let next_next_cur := nxt rec_next next_cur in
  (set_nth next_cur (if cond then pre else next_next_cur) rec_next, next_cur).

(* action = selected_index (k) ++ left (k) ++ right (k); [argsort_old] = rec.argsort() *)
Definition k_opt_with (argsort_old : list nat) (k : nat) (sol : list nat) (action : list nat) : list nat :=
  let n := length sol in
  let selected_index := firstn k action in
  let left := firstn k (skipn k action) in
  let right := skipn (2 * k) action in
  let right_nodes := map (nxt sol) selected_index in
  let rec_next := scatter sol left right in
  let cur := hd 0 left in
  fst (iterate (k_opt_body argsort_old right_nodes) (n - 2) (rec_next, cur)).

Definition k_opt (k : nat) (sol : list nat) (action : list nat) : list nat :=
  k_opt_with (argsort sol) k sol action.

(* ------------------------------------------------------------------ the sequential move builder *)

Record kb := {
  action_index : list nat;      (* k entries *)
  k_left : list nat;            (* k + 1 entries *)
  k_right : list nat;           (* k entries *)
  nola : option nat;            (* next_of_last_action; None = -1 *)
  kmask : list bool;            (* True = masked out *)
  stopped : bool;
  vtt : list nat                (* visited_time_tag, fixed at i = 0 *)
}.

Definition kb_init (k gs : nat) : kb :=
  {| action_index := repeat 0 k; k_left := repeat 0 (k + 1); k_right := repeat 0 k; nola := None;
     kmask := repeat false gs; stopped := true; vtt := repeat 0 gs |}.

Definition opt_eqb (o : option nat) (a : nat) : bool := match o with Some x => Nat.eqb x a | None => false end.

Fixpoint map2 {A B C} (f : A -> B -> C) (l : list A) (m : list B) : list C :=
  match l, m with x :: l', y :: m' => f x y :: map2 f l' m' | _, _ => [] end.

(* the node actually used at step i when the sampler proposes c *)
Definition kb_action (i : nat) (st : kb) (c : nat) : nat :=
  if Nat.ltb 0 i && stopped st then nth 0 (action_index st) 0 else c.

(* c can come out of prob.multinomial(1) with prob = softmax(logits masked by -1e30): an unmasked node, or any
   node when every node is masked (uniform softmax).  When the row is stopped (i > 0) the draw is discarded. *)
Definition kb_allows (gs i : nat) (st : kb) (c : nat) : bool :=
  Nat.ltb c gs &&
  ((Nat.ltb 0 i && stopped st) || negb (nth c (kmask st) true) || forallb (fun b => b) (kmask st)).

Definition kb_step (rec vt : list nat) (gs i : nat) (st : kb) (c : nat) : kb :=
  let a := kb_action i st c in
  let next_of_new_action := nxt rec a in
  let ai := set_nth i a (action_index st) in
  let l1 := if stopped st then set_nth i a (k_left st) else k_left st in
  let r1 := if stopped st then k_right st else set_nth (i - 1) a (k_right st) in
  let l2 := set_nth (i + 1) next_of_new_action l1 in
  let stopped' := if Nat.ltb 0 i then stopped st || opt_eqb (nola st) a else opt_eqb (nola st) a in
  let l3 := if stopped' then set_nth i (nth (i - 1) l2 0) l2 else l2 in
  let r2 := if stopped' then set_nth i (nth (i - 1) r1 0) r1 else r1 in
  let vtt' := if Nat.eqb i 0
              then map (fun t => Z.to_nat ((Z.of_nat t - Z.of_nat (nth a vt 0)) mod Z.of_nat gs)) vt
              else vtt st in
  let ta := nth a vtt' 0 in
  let m0 := map (fun t => Nat.leb t ta) vtt' in
  let m1 := if Nat.eqb i 0 then map2 orb m0 (map (fun t => Nat.ltb (gs - 2) t) vtt') else m0 in
  let m2 := if stopped' then set_nth a false m1 else m1 in
  let a0 := nth 0 ai 0 in
  let m3 := if negb stopped' && Nat.eqb next_of_new_action a0 then set_nth a0 false m2 else m2 in
  {| action_index := ai; k_left := l3; k_right := r2;
     nola := if stopped' then None else Some next_of_new_action;
     kmask := m3; stopped := stopped'; vtt := vtt' |}.

Fixpoint kb_loop (rec vt : list nat) (gs i : nat) (cs : list nat) (st : kb) : option kb :=
  match cs with
  | [] => Some st
  | c :: r => if kb_allows gs i st c then kb_loop rec vt gs (S i) r (kb_step rec vt gs i st c) else None
  end.

(* "Form final action" *)
Definition kb_finish (k : nat) (st : kb) : list nat :=
  let right := if stopped st then k_right st else set_nth (k - 1) (nth k (k_left st) 0) (k_right st) in
  action_index st ++ firstn k (k_left st) ++ right.

(* the action formed from the sampler's draws [cs] (k of them), or None when a draw is impossible *)
Definition kopt_builder (k : nat) (rec : list nat) (cs : list nat) : option (list nat) :=
  let gs := length rec in
  match kb_loop rec (visited_time rec) gs 0 cs (kb_init k gs) with
  | None => None
  | Some st => Some (kb_finish k st)
  end.

(* the full-strength statement (the NeuOpt construction is claimed valid for every k and n); proved in
   ImproveKoptBuilder.v as [k_opt_valid_statement_holds] *)
Definition k_opt_valid_statement : Prop :=
  forall k rec cs a, 3 <= k -> 3 <= length rec -> is_tour rec -> length cs = k ->
    kopt_builder k rec cs = Some a -> is_tour (k_opt k rec a).
