(* The batched decoding loop `while not td["done"].all(): ... env.step(td)` over a fixed-length environment
   (TSP, ATSP, PDP: every row of a batch needs exactly [bound] steps and offers nothing afterwards).
   Generic in the environment: it is proved once from two facts (done exactly at the bound, no dead end before) and instantiated by the three environments. *)
From Coq Require Import ZArith List Bool Lia Arith.
From RL4CO Require Import Base.Num Base.EnvSig.
Import ListNotations.

Section Loop.
  Variable E : Env.
  Variable wf : inst E -> Prop.
  Variable bound : inst E -> nat.
  Hypothesis H_done : forall i p, wf i -> adm (E:=E) i p = true ->
    (done E i (run (E:=E) i p) = true <-> length p = bound i).
  Hypothesis H_live : forall i p, wf i -> adm (E:=E) i p = true -> done E i (run (E:=E) i p) = false ->
    anyb (mask E i (run (E:=E) i p)) = true.

  (* any policy: a function choosing the next action of a row from the loop counter and the row's state *)
  Variable choose : nat -> inst E * st E -> nat.
  (* ... that picks an offered action whenever the mask offers one (what masked softmax sampling / argmax do) *)
  Hypothesis choose_ok : forall t i s, anyb (mask E i s) = true -> offered (E:=E) i s (choose t (i, s)) = true.

  (* the loop: Some t = left the loop normally after t steps; None = ran out of fuel (the safety cap) or met a row
     whose mask is all False while the loop is still running (NaN logits) *)
  Fixpoint loop (fuel : nat) (rows : list (inst E * st E)) (t : nat) : option nat :=
    if forallb (fun r => done E (fst r) (snd r)) rows then Some t
    else match fuel with
         | O => None
         | S f =>
             if negb (forallb (fun r => anyb (mask E (fst r) (snd r))) rows) then None
             else loop f (map (fun r => (fst r, step E (fst r) (snd r) (choose t r))) rows) (S t)
         end.

  (* rows that all have taken t admitted steps *)
  Definition in_step (B t : nat) (rows : list (inst E * st E)) : Prop :=
    forall r, In r rows -> exists p, wf (fst r) /\ bound (fst r) = B /\ adm (E:=E) (fst r) p = true /\ length p = t /\
                                     snd r = run (E:=E) (fst r) p.

  (* from reset, for ANY batch of well-formed instances with the same bound B and ANY such policy, the loop stops after
     exactly B iterations: it neither hits a safety cap of B (or more) steps nor ever meets an all-False mask row *)
  Theorem loop_terminates (insts : list (inst E)) (B : nat) :
    insts <> [] -> (forall i, In i insts -> wf i /\ bound i = B) ->
    forall extra, loop (B + extra) (map (fun i => (i, reset E i)) insts) 0 = Some B.
  Proof.
    intros Hne Hall extra.
    assert (G : forall k t rows, rows <> [] -> in_step B t rows -> (t + k = B)%nat -> loop (k + extra) rows t = Some B).
    { clear Hne Hall. induction k as [|k IH]; intros t rows Hne Hin Htk.
      - assert (Hdone : forallb (fun r => done E (fst r) (snd r)) rows = true).
        { apply forallb_forall. intros r Hr. destruct (Hin r Hr) as (p & Hwf & Hb & Ha & Hl & ->).
          apply (H_done _ _ Hwf Ha). lia. }
        cbn [plus]. destruct extra; cbn [loop]; rewrite Hdone; f_equal; lia.
      - assert (Hnone : forall r, In r rows -> done E (fst r) (snd r) = false /\ anyb (mask E (fst r) (snd r)) = true).
        { intros r Hr. destruct (Hin r Hr) as (p & Hwf & Hb & Ha & Hl & ->).
          assert (Hd : done E (fst r) (run (E:=E) (fst r) p) = false).
          { destruct (done E (fst r) (run (E:=E) (fst r) p)) eqn:Ed; [|reflexivity]. apply (H_done _ _ Hwf Ha) in Ed. lia. }
          split; [exact Hd | apply H_live; assumption]. }
        cbn [plus loop].
        replace (forallb (fun r => done E (fst r) (snd r)) rows) with false.
        2:{ symmetry. apply not_true_iff_false. intros Hf. rewrite forallb_forall in Hf.
            destruct rows as [|r rows]; [congruence|]. specialize (Hf r (or_introl eq_refl)).
            destruct (Hnone r (or_introl eq_refl)) as [Hd _]. congruence. }
        replace (forallb (fun r => anyb (mask E (fst r) (snd r))) rows) with true.
        2:{ symmetry. apply forallb_forall. intros r Hr. apply (Hnone r Hr). }
        cbn [negb]. apply IH.
        + destruct rows; [congruence | discriminate].
        + intros r' Hr'. apply in_map_iff in Hr' as (r & <- & Hr). cbn [fst snd].
          destruct (Hin r Hr) as (p & Hwf & Hb & Ha & Hl & Hs). exists (p ++ [choose t r]).
          split; [exact Hwf|]. split; [exact Hb|]. split; [|split].
          * rewrite adm_snoc, Ha. cbn [andb]. rewrite <- Hs. destruct r as [i s]. cbn [fst snd] in *.
            apply choose_ok. apply (Hnone (i, s) Hr).
          * rewrite app_length. cbn. lia.
          * rewrite run_snoc, <- Hs. reflexivity.
        + lia. }
    apply (G B 0%nat).
    - destruct insts; [congruence | discriminate].
    - intros r Hr. apply in_map_iff in Hr as (i & <- & Hi). destruct (Hall i Hi) as [Hwf Hb]. exists [].
      cbn [fst snd]. repeat split; auto.
    - lia.
  Qed.
End Loop.
