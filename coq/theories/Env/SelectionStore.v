(* C08 -- the selection tensor (td["chosen"] of FLP/MCP, td["action_mask"] of DPP/MDPP) as a buffer in a store.

   The row models of Env/FLP.v, Env/MCP.v, Env/DPP.v are functional: [reset I] is a function of the instance and
   [step I s a] a function of (instance, state, action), so a second episode on the same instance, or two rollouts
   stepped alternately, trivially behave like fresh runs.  The code earns this by its reference discipline:

       FLPEnv/MCPEnv._reset :  "chosen": torch.zeros(...)               -- fresh storage
       FLPEnv/MCPEnv._step  :  chosen = td["chosen"].clone(); chosen[arange, a] = True ; td.update(chosen=chosen)
       DPPEnv._reset        :  "action_mask": td["action_mask"]         -- the caller's tensor itself
       MDPPEnv._reset       :  logical_and(action_mask, ~probe)         -- fresh storage
       DPPEnv/MDPPEnv._step :  td["action_mask"].scatter(-1, a, 0)      -- out of place: a new tensor

   Here tensors are buffers in a [heap], TensorDict entries are references, and any number of episodes live on
   the same instance at the same time ([EvReset] starts one, [EvStep k a] steps episode k: any interleaving).
   Two switches give the four disciplines:
       fresh = true  : _reset allocates the tensor          fresh = false : _reset returns the caller's tensor
       clone = true  : _step writes into a new buffer       clone = false : _step scatters in place
   The caller's own tensor sits at address 0.  torchrl's [reset(td)] returns *the caller's TensorDict object*
   updated in place, and rl4co's [step] keeps updating that same object, so the caller's container entry
   ([c_ref]) follows the episode that lives in it ([EvReset true] = "env.reset(td)" on the caller's own
   container; [EvReset false] = reset on another container holding the same tensors).

   [sel_store_refines]: with clone = true, and either fresh = true or (fresh = false, every reset on a separate
   container, the caller's tensor holds the instance), every schedule of the store model is a schedule of
   independent functional episodes: each episode is in the state [run_all (step I) (reset I) (its own actions)],
   its tensor read through the store is that state's tensor, the caller's tensor is bit-identical.
   The in-place / aliasing variants do not refine (the [_refuted] theorems; witnesses by vm_compute). *)
From Coq Require Import ZArith List Bool Lia Arith.
From RL4CO Require Import Env.Selection Env.FLP Env.MCP Env.DPP.
Import ListNotations.
Local Open Scope nat_scope.

(* ------------------------------------------------------------------ list helpers *)
Lemma nth_error_set_nth' {A} n m (x : A) l :
  nth_error (set_nth n x l) m = if (Nat.eqb m n && Nat.ltb n (length l))%bool then Some x else nth_error l m.
Proof.
  revert n m; induction l as [|h t IH]; intros n m.
  - simpl. rewrite andb_false_r. destruct n; reflexivity.
  - destruct n as [|n], m as [|m]; simpl; auto. rewrite IH. reflexivity.
Qed.

Lemma nth_error_map' {A B} (f : A -> B) l n : nth_error (map f l) n = option_map f (nth_error l n).
Proof. revert n; induction l as [|h t IH]; intros [|n]; simpl; auto. Qed.

Lemma Forall_set_nth {A} (P : A -> Prop) k x l : Forall P l -> P x -> Forall P (set_nth k x l).
Proof.
  intros H Hx. revert k; induction H as [|h t Hh Ht IH]; intros [|k]; simpl; constructor; auto.
Qed.

Inductive ev := EvReset (same_container : bool) | EvStep (k a : nat).

(* the actions addressed to episode k, in order *)
Fixpoint acts_of (k : nat) (evs : list ev) : list nat :=
  match evs with
  | [] => []
  | EvStep k' a :: r => if Nat.eqb k' k then a :: acts_of k r else acts_of k r
  | EvReset _ :: r => acts_of k r
  end.

Lemma acts_of_app k e1 e2 : acts_of k (e1 ++ e2) = acts_of k e1 ++ acts_of k e2.
Proof.
  induction e1 as [|e r IH]; simpl; [reflexivity|].
  destruct e as [b|k' a]; [exact IH|]. destruct (Nat.eqb k' k); simpl; rewrite IH; reflexivity.
Qed.

(* no reset on the caller's own container *)
Definition no_same (evs : list ev) : bool :=
  forallb (fun e => match e with EvReset true => false | _ => true end) evs.

Section SelStore.
  Variables (inst st : Type).
  Variable get : st -> list bool.                     (* the tensor field of the row model *)
  Variable reset : inst -> st.
  Variable reset_view : inst -> list bool -> st.      (* _reset when it takes the tensor it is handed *)
  Variable step : inst -> st -> nat -> option st.
  Variable v : bool.                                  (* the value scattered: True into chosen, 0 into action_mask *)
  Variable finish : inst -> st -> nat -> list bool -> option st.   (* the rest of _step, given the new tensor *)

  Hypothesis step_factor : forall I s a,
    step I s a = if (length (get s) <=? a)%nat then None else finish I s a (set_nth a v (get s)).
  Hypothesis finish_get : forall I s a b s', finish I s a b = Some s' -> get s' = b.
  Hypothesis reset_view_ok : forall I, reset_view I (get (reset I)) = reset I.

  (* [eps]: per live episode the reference its td holds for the tensor, and the rest of its td *)
  Record hstore := { heap : list (list bool); c_ref : nat; c_owner : option nat; eps : list (nat * st) }.

  Definition h_init (c0 : list bool) : hstore := {| heap := [c0]; c_ref := 0; c_owner := None; eps := [] |}.

  Definition owner_is (o : option nat) (k : nat) : bool :=
    match o with Some j => Nat.eqb j k | None => false end.

  Definition h_exec (fresh clone : bool) (I : inst) (h : hstore) (e : ev) : option hstore :=
    match e with
    | EvReset same =>
        let k := length (eps h) in
        if fresh then
          let r := length (heap h) in
          Some {| heap := heap h ++ [get (reset I)];
                  c_ref := if same then r else c_ref h;
                  c_owner := if same then Some k else c_owner h;
                  eps := eps h ++ [(r, reset I)] |}
        else
          let r := c_ref h in
          Some {| heap := heap h; c_ref := r;
                  c_owner := if same then Some k else c_owner h;
                  eps := eps h ++ [(r, reset_view I (nth r (heap h) []))] |}
    | EvStep k a =>
        match nth_error (eps h) k with
        | None => None
        | Some (r, s) =>
            let b := nth r (heap h) [] in                      (* read through the reference *)
            if (length b <=? a)%nat then None
            else
              let b' := set_nth a v b in
              match finish I s a b' with
              | None => None
              | Some s' =>
                  if clone then
                    let r' := length (heap h) in
                    Some {| heap := heap h ++ [b'];
                            c_ref := if owner_is (c_owner h) k then r' else c_ref h;
                            c_owner := c_owner h;
                            eps := set_nth k (r', s') (eps h) |}
                  else
                    Some {| heap := set_nth r b' (heap h); c_ref := c_ref h; c_owner := c_owner h;
                            eps := set_nth k (r, s') (eps h) |}
              end
        end
    end.

  Fixpoint h_run (fresh clone : bool) (I : inst) (evs : list ev) (h : hstore) : option hstore :=
    match evs with
    | [] => Some h
    | e :: r => match h_exec fresh clone I h e with Some h' => h_run fresh clone I r h' | None => None end
    end.

  (* the functional counterpart: a list of independent row-model states *)
  Definition f_exec (I : inst) (fs : list st) (e : ev) : option (list st) :=
    match e with
    | EvReset _ => Some (fs ++ [reset I])
    | EvStep k a =>
        match nth_error fs k with
        | None => None
        | Some s => match step I s a with Some s' => Some (set_nth k s' fs) | None => None end
        end
    end.

  Fixpoint f_run (I : inst) (evs : list ev) (fs : list st) : option (list st) :=
    match evs with
    | [] => Some fs
    | e :: r => match f_exec I fs e with Some fs' => f_run I r fs' | None => None end
    end.

  Definition h_abs (h : hstore) : list st := map snd (eps h).

  Definition ep_ok (hp : list (list bool)) (p : nat * st) : Prop :=
    fst p < length hp /\ nth (fst p) hp [] = get (snd p).

  Definition h_inv (fresh : bool) (I : inst) (c0 : list bool) (h : hstore) : Prop :=
    0 < length (heap h) /\ nth 0 (heap h) [] = c0 /\ Forall (ep_ok (heap h)) (eps h) /\
    (fresh = false -> c_owner h = None /\ c_ref h < length (heap h) /\ nth (c_ref h) (heap h) [] = get (reset I)).

  Lemma ep_ok_grow hp x p : ep_ok hp p -> ep_ok (hp ++ [x]) p.
  Proof.
    intros [H1 H2]. split; [rewrite app_length; simpl; lia|]. rewrite app_nth1 by exact H1. exact H2.
  Qed.

  Lemma h_init_inv fresh I c0 : (fresh = false -> c0 = get (reset I)) -> h_inv fresh I c0 (h_init c0).
  Proof.
    intros Hc. unfold h_inv, h_init. cbn [heap c_ref c_owner eps length nth]. repeat split; auto.
  Qed.

  (* one event: the store step (clone discipline) is the functional step, invariant kept *)
  Lemma h_exec_refines fresh I c0 h e :
    h_inv fresh I c0 h -> (fresh = false -> e <> EvReset true) ->
    match h_exec fresh true I h e with
    | Some h' => f_exec I (h_abs h) e = Some (h_abs h') /\ h_inv fresh I c0 h'
    | None => f_exec I (h_abs h) e = None
    end.
  Proof.
    intros [Hpos [H0 [Heps Hal]]] Hsame. destruct e as [same|k a].
    - (* reset *)
      cbn [h_exec f_exec]. destruct fresh.
      + split.
        * unfold h_abs. cbn [eps]. rewrite map_app. reflexivity.
        * unfold h_inv. cbn [heap c_ref c_owner eps]. split; [rewrite app_length; simpl; lia|].
          split; [rewrite app_nth1 by exact Hpos; exact H0|]. split; [|discriminate].
          apply Forall_app. split.
          -- eapply Forall_impl; [|exact Heps]. intros p. apply ep_ok_grow.
          -- constructor; [|constructor]. unfold ep_ok. cbn [fst snd]. split; [rewrite app_length; simpl; lia|].
             rewrite app_nth2 by lia. rewrite Nat.sub_diag. reflexivity.
      + destruct (Hal eq_refl) as [Hown [Hlt Hc]].
        assert (same = false) by (destruct same; [exfalso; apply (Hsame eq_refl); reflexivity | reflexivity]).
        subst same. rewrite Hc, reset_view_ok. split.
        * unfold h_abs. cbn [eps]. rewrite map_app. reflexivity.
        * unfold h_inv. cbn [heap c_ref c_owner eps]. split; [exact Hpos|]. split; [exact H0|]. split.
          -- apply Forall_app. split; [exact Heps|]. constructor; [|constructor].
             unfold ep_ok. cbn [fst snd]. split; assumption.
          -- intros _. repeat split; assumption.
    - (* step *)
      cbn [h_exec f_exec].
      assert (Hn : nth_error (h_abs h) k = option_map snd (nth_error (eps h) k)) by apply nth_error_map'.
      rewrite Hn. clear Hn.
      destruct (nth_error (eps h) k) as [[r s]|] eqn:Ek; cbn [option_map snd]; [|reflexivity].
      assert (Hok : ep_ok (heap h) (r, s)).
      { rewrite Forall_forall in Heps. apply Heps. eapply nth_error_In. exact Ek. }
      destruct Hok as [Hr Hb]. cbn [fst snd] in Hr, Hb.
      rewrite step_factor, Hb.
      destruct (length (get s) <=? a)%nat; [reflexivity|].
      destruct (finish I s a (set_nth a v (get s))) as [s'|] eqn:Hf; [|reflexivity].
      split.
      + unfold h_abs. cbn [eps]. rewrite map_set_nth. reflexivity.
      + unfold h_inv. cbn [heap c_ref c_owner eps]. split; [rewrite app_length; simpl; lia|].
        split; [rewrite app_nth1 by exact Hpos; exact H0|]. split.
        * apply Forall_set_nth.
          -- eapply Forall_impl; [|exact Heps]. intros p. apply ep_ok_grow.
          -- unfold ep_ok. cbn [fst snd]. split; [rewrite app_length; simpl; lia|].
             rewrite app_nth2 by lia. rewrite Nat.sub_diag. cbn [nth]. symmetry. eapply finish_get. exact Hf.
        * intros Hfr. destruct (Hal Hfr) as [Hown [Hlt Hc]]. rewrite Hown. cbn [owner_is].
          split; [reflexivity|]. split; [rewrite app_length; simpl; lia|].
          rewrite app_nth1 by exact Hlt. exact Hc.
  Qed.

  Lemma h_run_refines_from fresh I c0 evs : forall h,
    h_inv fresh I c0 h -> (fresh = false -> no_same evs = true) ->
    match h_run fresh true I evs h with
    | Some h' => f_run I evs (h_abs h) = Some (h_abs h') /\ h_inv fresh I c0 h'
    | None => f_run I evs (h_abs h) = None
    end.
  Proof.
    induction evs as [|e r IH]; intros h Hinv Hns.
    - cbn [h_run f_run]. split; [reflexivity | exact Hinv].
    - cbn [h_run f_run].
      assert (He : fresh = false -> e <> EvReset true).
      { intros Hf E. specialize (Hns Hf). subst e. cbn in Hns. discriminate. }
      assert (Hr : fresh = false -> no_same r = true).
      { intros Hf. specialize (Hns Hf). unfold no_same in *. cbn [forallb] in Hns.
        apply andb_prop in Hns as [_ Hns]. exact Hns. }
      pose proof (h_exec_refines fresh I c0 h e Hinv He) as Hs.
      destruct (h_exec fresh true I h e) as [h1|].
      + destruct Hs as [Hf Hinv1]. rewrite Hf. apply IH; assumption.
      + rewrite Hs. reflexivity.
  Qed.

  (* ---- what a schedule of independent functional episodes is: each episode depends on its own actions only *)
  Lemma f_run_app I e1 e2 fs :
    f_run I (e1 ++ e2) fs = match f_run I e1 fs with Some fs' => f_run I e2 fs' | None => None end.
  Proof.
    revert fs; induction e1 as [|e r IH]; intros fs; cbn [app f_run]; [reflexivity|].
    destruct (f_exec I fs e) as [fs1|]; [apply IH | reflexivity].
  Qed.

  Lemma f_run_episodes I evs : forall fs, f_run I evs [] = Some fs ->
    (forall k, length fs <= k -> acts_of k evs = []) /\
    (forall k s, nth_error fs k = Some s -> run_all (step I) (reset I) (acts_of k evs) = Some s).
  Proof.
    induction evs as [|e r IH] using rev_ind; intros fs H.
    - cbn in H. injection H as <-. split; [reflexivity|]. intros [|k] s Hk; discriminate.
    - rewrite f_run_app in H. destruct (f_run I r []) as [fs1|] eqn:E1; [|discriminate].
      destruct (IH fs1 eq_refl) as [IHa IHb]. cbn [f_run] in H.
      destruct (f_exec I fs1 e) as [fs2|] eqn:E2; [|discriminate]. injection H as <-.
      destruct e as [same|k0 a]; cbn [f_exec] in E2.
      + injection E2 as <-. split.
        * intros k Hk. rewrite app_length in Hk. simpl in Hk. rewrite acts_of_app. cbn [acts_of].
          rewrite app_nil_r. apply IHa. lia.
        * intros k s Hk. rewrite acts_of_app. cbn [acts_of]. rewrite app_nil_r.
          destruct (Nat.lt_ge_cases k (length fs1)) as [Hlt|Hge].
          -- rewrite nth_error_app1 in Hk by exact Hlt. apply IHb. exact Hk.
          -- rewrite nth_error_app2 in Hk by exact Hge.
             destruct (k - length fs1) as [|j] eqn:Ej; [|destruct j; discriminate].
             cbn in Hk. injection Hk as <-. rewrite (IHa k Hge). reflexivity.
      + destruct (nth_error fs1 k0) as [s0|] eqn:Ek0; [|discriminate].
        destruct (step I s0 a) as [s0'|] eqn:Es; [|discriminate]. injection E2 as <-.
        assert (Hk0 : k0 < length fs1) by (apply nth_error_Some; congruence).
        split.
        * intros k Hk. rewrite set_nth_length in Hk. rewrite acts_of_app. cbn [acts_of].
          destruct (Nat.eqb k0 k) eqn:E; [apply Nat.eqb_eq in E; lia|]. rewrite app_nil_r. apply IHa. exact Hk.
        * intros k s Hk. rewrite nth_error_set_nth' in Hk. rewrite acts_of_app. cbn [acts_of].
          destruct (Nat.eqb k0 k) eqn:E.
          -- apply Nat.eqb_eq in E. subst k0. rewrite Nat.eqb_refl in Hk.
             replace (Nat.ltb k (length fs1)) with true in Hk by (symmetry; apply Nat.ltb_lt; exact Hk0).
             cbn [andb] in Hk. injection Hk as <-.
             rewrite run_all_app. rewrite (IHb k s0 Ek0). cbn [run_all]. rewrite Es. reflexivity.
          -- rewrite app_nil_r. rewrite Nat.eqb_sym in E. rewrite E in Hk. cbn [andb] in Hk. apply IHb. exact Hk.
  Qed.

  (* THEOREM: the store model with the clone discipline refines the functional row model, for every schedule *)
  Theorem sel_store_refines (fresh : bool) (I : inst) (c0 : list bool) (evs : list ev) :
    (fresh = false -> c0 = get (reset I) /\ no_same evs = true) ->
    option_map h_abs (h_run fresh true I evs (h_init c0)) = f_run I evs [] /\
    forall h, h_run fresh true I evs (h_init c0) = Some h ->
      nth 0 (heap h) [] = c0 /\
      forall k r s, nth_error (eps h) k = Some (r, s) ->
        nth r (heap h) [] = get s /\ run_all (step I) (reset I) (acts_of k evs) = Some s.
  Proof.
    intros Hyp.
    assert (Hinv0 : h_inv fresh I c0 (h_init c0)) by (apply h_init_inv; intros Hf; apply (Hyp Hf)).
    assert (Hns : fresh = false -> no_same evs = true) by (intros Hf; apply (Hyp Hf)).
    pose proof (h_run_refines_from fresh I c0 evs (h_init c0) Hinv0 Hns) as H.
    change (h_abs (h_init c0)) with (@nil st) in H.
    destruct (h_run fresh true I evs (h_init c0)) as [h1|].
    - destruct H as [Hf [_ [H0 [Heps _]]]]. split; [cbn [option_map]; symmetry; exact Hf|].
      intros h E. injection E as <-. split; [exact H0|]. intros k r s Hk. split.
      + rewrite Forall_forall in Heps. apply (Heps (r, s)). eapply nth_error_In. exact Hk.
      + destruct (f_run_episodes I evs (h_abs h1) Hf) as [_ Hb]. apply Hb.
        unfold h_abs. rewrite nth_error_map', Hk. reflexivity.
    - split; [cbn [option_map]; symmetry; exact H|]. intros h E. discriminate.
  Qed.
End SelStore.

Arguments heap {st} _.
Arguments c_ref {st} _.
Arguments c_owner {st} _.
Arguments eps {st} _.

(* ================================================================== the four envs *)
Local Open Scope Z_scope.

(* ---------------------------------------------------------------- FLP: td["chosen"] *)
Definition flp_finish (I : flp_inst) (s : flp_st) (a : nat) (chosen : list bool) : option flp_st :=
  match flp_curmin I chosen with
  | None => None
  | Some d => Some {| f_chosen := chosen; f_i := f_i s + 1; f_dist := d;
                      f_mask := map negb chosen; f_done := f_q I - 1 <=? f_i s |}
  end.
(* the aliasing _reset:  "chosen": td["chosen"], "action_mask": ~td["chosen"]  (not the code's; used for the
   variants that do not refine) *)
Definition flp_reset_view (I : flp_inst) (b : list bool) : flp_st :=
  {| f_chosen := b; f_i := 0; f_dist := f_dist0 I; f_mask := map negb b; f_done := false |}.

Lemma flp_step_factor I s a :
  flp_step I s a = if (length (f_chosen s) <=? a)%nat then None else flp_finish I s a (set_nth a true (f_chosen s)).
Proof. reflexivity. Qed.
Lemma flp_finish_get I s a b s' : flp_finish I s a b = Some s' -> f_chosen s' = b.
Proof. unfold flp_finish. destruct (flp_curmin I b); [|discriminate]. intros H. injection H as <-. reflexivity. Qed.
Lemma flp_reset_view_ok I : flp_reset_view I (f_chosen (flp_reset I)) = flp_reset I.
Proof. unfold flp_reset_view, flp_reset. cbn [f_chosen]. rewrite map_negb_repeat_false. reflexivity. Qed.

Definition flp_store_run (fresh clone : bool) :=
  h_run flp_inst flp_st f_chosen flp_reset flp_reset_view true flp_finish fresh clone.

(* FLP as coded (fresh zeros at reset, clone at step): whatever the caller's td["chosen"] holds *)
Theorem flp_store_refines (I : flp_inst) (c0 : list bool) (evs : list ev) (h : hstore flp_st) :
  flp_store_run true true I evs (h_init flp_st c0) = Some h ->
  nth 0 (heap h) [] = c0 /\
  forall k r s, nth_error (eps h) k = Some (r, s) ->
    nth r (heap h) [] = f_chosen s /\ flp_run_all I (flp_reset I) (acts_of k evs) = Some s.
Proof.
  intros H.
  destruct (sel_store_refines flp_inst flp_st f_chosen flp_reset flp_reset_view flp_step true flp_finish
              flp_step_factor flp_finish_get flp_reset_view_ok true I c0 evs) as [_ Hb]; [discriminate|].
  exact (Hb h H).
Qed.

(* and the store model raises exactly when the functional episodes do *)
Theorem flp_store_same_outcome (I : flp_inst) (c0 : list bool) (evs : list ev) :
  option_map (fun h => map snd (eps h)) (flp_store_run true true I evs (h_init flp_st c0)) =
  f_run flp_inst flp_st flp_reset flp_step I evs [].
Proof.
  destruct (sel_store_refines flp_inst flp_st f_chosen flp_reset flp_reset_view flp_step true flp_finish
              flp_step_factor flp_finish_get flp_reset_view_ok true I c0 evs) as [Ha _]; [discriminate|].
  exact Ha.
Qed.

(* ---------------------------------------------------------------- MCP: td["chosen"] *)
Definition mcp_finish (I : mcp_inst) (s : mcp_st) (a : nat) (chosen : list bool) : option mcp_st :=
  let n_items := length (m_weights s) in
  match mcp_cover n_items chosen (m_membership s) with
  | None => None
  | Some cov =>
      Some {| m_membership := scale_rows (map negb chosen) (m_membership s);
              m_weights := map (fun j => nth j (m_weights s) 0 * (if nth j cov false then 0 else 1)) (seq 0 n_items);
              m_chosen := chosen; m_i := m_i s + 1; m_mask := map negb chosen;
              m_done := m_q I - 1 <=? m_i s |}
  end.
Definition mcp_reset_view (I : mcp_inst) (b : list bool) : mcp_st :=
  {| m_membership := m_mem I; m_weights := m_w I; m_chosen := b; m_i := 0; m_mask := map negb b; m_done := false |}.

Lemma mcp_step_factor I s a :
  mcp_step I s a = if (length (m_chosen s) <=? a)%nat then None else mcp_finish I s a (set_nth a true (m_chosen s)).
Proof. reflexivity. Qed.
Lemma mcp_finish_get I s a b s' : mcp_finish I s a b = Some s' -> m_chosen s' = b.
Proof.
  unfold mcp_finish. destruct (mcp_cover (length (m_weights s)) b (m_membership s)); [|discriminate].
  intros H. injection H as <-. reflexivity.
Qed.
Lemma mcp_reset_view_ok I : mcp_reset_view I (m_chosen (mcp_reset I)) = mcp_reset I.
Proof. unfold mcp_reset_view, mcp_reset. cbn [m_chosen]. rewrite map_negb_repeat_false. reflexivity. Qed.

Definition mcp_store_run (fresh clone : bool) :=
  h_run mcp_inst mcp_st m_chosen mcp_reset mcp_reset_view true mcp_finish fresh clone.

Theorem mcp_store_refines (I : mcp_inst) (c0 : list bool) (evs : list ev) (h : hstore mcp_st) :
  mcp_store_run true true I evs (h_init mcp_st c0) = Some h ->
  nth 0 (heap h) [] = c0 /\
  forall k r s, nth_error (eps h) k = Some (r, s) ->
    nth r (heap h) [] = m_chosen s /\ mcp_run_all I (mcp_reset I) (acts_of k evs) = Some s.
Proof.
  intros H.
  destruct (sel_store_refines mcp_inst mcp_st m_chosen mcp_reset mcp_reset_view mcp_step true mcp_finish
              mcp_step_factor mcp_finish_get mcp_reset_view_ok true I c0 evs) as [_ Hb]; [discriminate|].
  exact (Hb h H).
Qed.

(* ---------------------------------------------------------------- DPP / MDPP: td["action_mask"] *)
Definition eda_finish (q : Z) (s : dpp_st) (a : nat) (m : list bool) : option dpp_st :=
  Some {| d_i := d_i s + 1; d_mask := m; d_keepout := d_keepout s; d_done := q - 1 <=? d_i s |}.
Lemma eda_step_factor q s a :
  eda_step q s a = if (length (d_mask s) <=? a)%nat then None else eda_finish q s a (set_nth a false (d_mask s)).
Proof. reflexivity. Qed.
Lemma eda_finish_get q s a b s' : eda_finish q s a b = Some s' -> d_mask s' = b.
Proof. unfold eda_finish. intros H. injection H as <-. reflexivity. Qed.

(* DPPEnv._reset as coded: action_mask = the tensor handed in, keepout = ~ of it *)
Definition dpp_reset_view (I : dpp_inst) (b : list bool) : dpp_st :=
  {| d_i := 0; d_mask := b; d_keepout := map negb b; d_done := false |}.
Lemma dpp_reset_view_ok I : dpp_reset_view I (d_mask (dpp_reset I)) = dpp_reset I.
Proof. reflexivity. Qed.

Definition dpp_store_run (fresh clone : bool) :=
  h_run dpp_inst dpp_st d_mask dpp_reset dpp_reset_view false (fun I => eda_finish (d_q I)) fresh clone.

(* DPP as coded (reset keeps the caller's tensor, step scatters out of place): refines as long as every reset
   is given a TensorDict whose "action_mask" entry is the caller's tensor *)
Theorem dpp_store_refines (I : dpp_inst) (evs : list ev) (h : hstore dpp_st) :
  no_same evs = true ->
  dpp_store_run false true I evs (h_init dpp_st (d_avail I)) = Some h ->
  nth 0 (heap h) [] = d_avail I /\
  forall k r s, nth_error (eps h) k = Some (r, s) ->
    nth r (heap h) [] = d_mask s /\ run_all (dpp_step I) (dpp_reset I) (acts_of k evs) = Some s.
Proof.
  intros Hns H.
  destruct (sel_store_refines dpp_inst dpp_st d_mask dpp_reset dpp_reset_view dpp_step false
              (fun I => eda_finish (d_q I)) (fun I => eda_step_factor (d_q I)) (fun I => eda_finish_get (d_q I))
              dpp_reset_view_ok false I (d_avail I) evs) as [_ Hb]; [intros _; split; [reflexivity | exact Hns]|].
  exact (Hb h H).
Qed.

(* MDPPEnv._reset: logical_and(action_mask, ~probe) is a new tensor *)
Definition mdpp_reset_view (I : mdpp_inst) (b : list bool) : dpp_st :=
  {| d_i := 0; d_mask := b; d_keepout := map negb (md_avail I); d_done := false |}.
Lemma mdpp_reset_view_ok I : mdpp_reset_view I (d_mask (mdpp_reset I)) = mdpp_reset I.
Proof. reflexivity. Qed.

Definition mdpp_store_run (fresh clone : bool) :=
  h_run mdpp_inst dpp_st d_mask mdpp_reset mdpp_reset_view false (fun I => eda_finish (md_q I)) fresh clone.

Theorem mdpp_store_refines (I : mdpp_inst) (c0 : list bool) (evs : list ev) (h : hstore dpp_st) :
  mdpp_store_run true true I evs (h_init dpp_st c0) = Some h ->
  nth 0 (heap h) [] = c0 /\
  forall k r s, nth_error (eps h) k = Some (r, s) ->
    nth r (heap h) [] = d_mask s /\ run_all (mdpp_step I) (mdpp_reset I) (acts_of k evs) = Some s.
Proof.
  intros H.
  destruct (sel_store_refines mdpp_inst dpp_st d_mask mdpp_reset mdpp_reset_view mdpp_step false
              (fun I => eda_finish (md_q I)) (fun I => eda_step_factor (md_q I)) (fun I => eda_finish_get (md_q I))
              mdpp_reset_view_ok true I c0 evs) as [_ Hb]; [discriminate|].
  exact (Hb h H).
Qed.

(* ================================================================== non-vacuity *)
(* two full episodes one after the other on the caller's own container, then two more stepped alternately *)
Definition store_ex_evs : list ev :=
  [EvReset true; EvStep 0 3; EvStep 0 1; EvReset true; EvStep 1 0; EvStep 1 2;
   EvReset false; EvReset false; EvStep 2 1; EvStep 3 2; EvStep 2 0; EvStep 3 3]%nat.

Example flp_store_ex :
  option_map (fun h => (nth 0 (heap h) [], map (fun p => nth (fst p) (heap h) []) (eps h), map (fun p => f_done (snd p)) (eps h)))
             (flp_store_run true true flp_ex store_ex_evs (h_init flp_st [false; false; false; false]))
  = Some ([false; false; false; false],
          [[false; true; false; true]; [true; false; true; false]; [true; true; false; false]; [false; false; true; true]],
          [true; true; true; true]) /\
  acts_of 1 store_ex_evs = [0; 2]%nat /\ acts_of 3 store_ex_evs = [2; 3]%nat.
Proof. vm_compute. repeat split; reflexivity. Qed.

Example dpp_store_ex :
  no_same [EvReset false; EvStep 0 8; EvReset false; EvStep 1 0; EvStep 0 0]%nat = true /\
  option_map (fun h => (nth 0 (heap h) [], map (fun p => d_mask (snd p)) (eps h)))
             (dpp_store_run false true dpp_ex [EvReset false; EvStep 0 8; EvReset false; EvStep 1 0; EvStep 0 0]%nat
                            (h_init dpp_st (d_avail dpp_ex)))
  = Some ([true; false; true; true; false; true; true; false; true],
          [[false; false; true; true; false; true; true; false; false];
           [false; false; true; true; false; true; true; false; true]]).
Proof. vm_compute. repeat split; reflexivity. Qed.

(* ================================================================== the variants that do NOT refine *)
(* (1) reset returns the caller's tensor AND step scatters in place (FLP with the clone removed): after one
   episode the caller's tensor is no longer what it was, and the second episode on the same instance starts
   with the first one's facilities chosen -- after its own quota of 2 it holds 4. *)
Theorem flp_alias_inplace_second_episode_refuted :
  exists I evs h, flp_wf I /\
    flp_store_run false false I evs (h_init flp_st (f_chosen (flp_reset I))) = Some h /\
    no_same evs = true /\
    nth 0 (heap h) [] <> f_chosen (flp_reset I) /\
    exists r s, nth_error (eps h) 1 = Some (r, s) /\
      flp_run_all I (flp_reset I) (acts_of 1 evs) <> Some s /\
      f_done s = true /\ Z.of_nat (count_true (nth r (heap h) [])) = 4 /\ f_q I = 2.
Proof.
  exists flp_ex, [EvReset false; EvStep 0 3; EvStep 0 1; EvReset false; EvStep 1 0; EvStep 1 2]%nat.
  eexists. split; [reflexivity|]. split; [vm_compute; reflexivity|]. split; [reflexivity|].
  split; [vm_compute; discriminate|]. eexists. eexists. split; [vm_compute; reflexivity|].
  split; [vm_compute; discriminate|]. split; [reflexivity|]. split; reflexivity.
Qed.

(* (2) the same discipline with two rollouts stepped alternately: each sees the other's selection *)
Theorem flp_alias_inplace_interleaved_refuted :
  exists I evs h, flp_wf I /\
    flp_store_run false false I evs (h_init flp_st (f_chosen (flp_reset I))) = Some h /\ no_same evs = true /\
    exists r s, nth_error (eps h) 1 = Some (r, s) /\
      acts_of 1 evs = [1%nat] /\ nth r (heap h) [] = [false; true; false; true] /\
      flp_run_all I (flp_reset I) (acts_of 1 evs) <> Some s.
Proof.
  exists flp_ex, [EvReset false; EvReset false; EvStep 0 3; EvStep 1 1]%nat.
  eexists. split; [reflexivity|]. split; [vm_compute; reflexivity|]. split; [reflexivity|].
  eexists. eexists. split; [vm_compute; reflexivity|]. split; [reflexivity|]. split; [reflexivity|].
  vm_compute. discriminate.
Qed.

(* (3) half of it is enough when the second reset is given the caller's own TensorDict object: reset returns
   the container's current entry (step still clones, no tensor is ever written twice), and the container's
   entry is the end of the first episode *)
Theorem flp_alias_reset_same_container_refuted :
  exists I evs h, flp_wf I /\
    flp_store_run false true I evs (h_init flp_st (f_chosen (flp_reset I))) = Some h /\
    nth 0 (heap h) [] = f_chosen (flp_reset I) /\
    exists r s, nth_error (eps h) 1 = Some (r, s) /\ acts_of 1 evs = [] /\ s <> flp_reset I.
Proof.
  exists flp_ex, [EvReset true; EvStep 0 3; EvStep 0 1; EvReset true]%nat.
  eexists. split; [reflexivity|]. split; [vm_compute; reflexivity|]. split; [reflexivity|].
  eexists. eexists. split; [vm_compute; reflexivity|]. split; [reflexivity|]. vm_compute. discriminate.
Qed.

(* (4) the hypothesis [no_same] of [dpp_store_refines] is needed: DPPEnv._reset, as coded, takes the instance
   from the entry its own _step overwrites, so a second env.reset(td) on the caller's own TensorDict object
   starts from the cells left over by the first episode (no tensor is mutated: address 0 is intact) *)
Theorem dpp_same_container_second_reset_refuted :
  exists I evs h, dpp_wf I /\
    dpp_store_run false true I evs (h_init dpp_st (d_avail I)) = Some h /\
    nth 0 (heap h) [] = d_avail I /\
    exists r s, nth_error (eps h) 1 = Some (r, s) /\ acts_of 1 evs = [] /\ d_mask s <> d_mask (dpp_reset I).
Proof.
  exists dpp_ex, [EvReset true; EvStep 0 8; EvStep 0 0; EvReset true]%nat.
  eexists. split; [reflexivity|]. split; [vm_compute; reflexivity|]. split; [reflexivity|].
  eexists. eexists. split; [vm_compute; reflexivity|]. split; [reflexivity|]. vm_compute. discriminate.
Qed.
