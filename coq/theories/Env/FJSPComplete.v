(* C05 / unit sched, part 2 -- FJSPEnv / JSSPEnv with mask_no_ops = False: the mask hides no schedule that matters.

   Model: Env/FJSP.v with the invariant of Env/FJSPProofs.v (C07's; imported, not edited).  Specification: Spec/Schedule.v.

   What the automaton can do (cfg = mask_no_ops = false):
     * [fjsp_offers_exactly]: in every reachable state the offered pairs are exactly (job not finished whose next operation
       is released and not being processed, idle machine eligible for that operation), and the wait action is offered
       exactly while some job is being processed;
     * the wait action moves the clock to the next machine release; a dispatch starts the operation NOW.
   Hence the start time of every operation is 0 or the completion time of an operation dispatched earlier.
   Completeness:
     * [fjsp_dominating_reachable] / [fjsp_optimum_reachable]: for EVERY valid schedule of the instance (any start times)
       there is a mask-confined finished episode that processes every operation on the same machine and completes every
       operation no later: its makespan is <= the schedule's.  So the optimal makespan is reachable.
     * [fjsp_mask_complete]: every valid schedule whose operations all start at time 0 or at the completion time of some
       operation ("event-time schedules"; they include the semi-active and the active schedules) is reached EXACTLY:
       same machines, same start times, same completion times.
     * [jssp_...]: the same through JSSPEnv's job-only actions on one-machine-per-operation instances.
   All statements hold for every number of jobs, machines and operations. *)
From Coq Require Import ZArith List Bool Lia ZifyBool Arith Permutation Sorted.
From RL4CO Require Import Spec.Schedule Env.FJSP Env.FJSPProofs.
Import ListNotations.

(* ================================================================ small facts *)
Lemma advance_nop cfg i fuel s : step_complete cfg i s = false -> advance cfg i fuel s = Some s.
Proof. intros H. destruct fuel; cbn [advance]; rewrite H; reflexivity. Qed.

(* the arrays that describe the schedule built so far: untouched by waiting *)
Record same_arrays (s s' : st) : Prop := {
  sa_bu : busy_until s' = busy_until s;
  sa_sch : op_scheduled s' = op_scheduled s;
  sa_st : start_times s' = start_times s;
  sa_fin : finish_times s' = finish_times s;
  sa_asg : ma_assignment s' = ma_assignment s;
  sa_pc : proc_cur s' = proc_cur s;
}.
Lemma same_arrays_refl s : same_arrays s s.
Proof. constructor; reflexivity. Qed.
Lemma same_arrays_trans s1 s2 s3 : same_arrays s1 s2 -> same_arrays s2 s3 -> same_arrays s1 s3.
Proof. intros [A1 A2 A3 A4 A5 A6] [B1 B2 B3 B4 B5 B6]. constructor; congruence. Qed.
Lemma same_arrays_pt s s' : same_arrays s s' ->
  (forall m, bu s' m = bu s m) /\ (forall o, sched s' o = sched s o) /\ (forall o, stt s' o = stt s o) /\
  (forall o, fin s' o = fin s o) /\ (forall m o, asg s' m o = asg s m o) /\ (forall m o, pc s' m o = pc s m o).
Proof.
  intros [A1 A2 A3 A4 A5 A6]. unfold bu, sched, stt, fin, asg, pc. rewrite A1, A2, A3, A4, A5, A6. repeat split.
Qed.
Lemma tr_view_same i s s' t' : tr_view i s s' t' -> same_arrays s s'.
Proof.
  intros V. constructor; [exact (tv_bul _ _ _ _ V) | exact (tv_schl _ _ _ _ V) | exact (tv_stl _ _ _ _ V)
                          | exact (tv_finl _ _ _ _ V) | exact (tv_asgl _ _ _ _ V) | exact (tv_pcl _ _ _ _ V)].
Qed.

Lemma run_repeat_S cfg i s k : run cfg i s (repeat 0 (S k)) =
  match step cfg i s 0 with Some s1 => run cfg i s1 (repeat 0 k) | None => None end.
Proof. reflexivity. Qed.

(* ================================================================ the reference schedule: what a valid schedule gives *)
Definition le_start (a b : entry) : Prop := (e_start a <= e_start b)%Z.

Fixpoint ins_start (e : entry) (l : list entry) : list entry :=
  match l with
  | [] => [e]
  | h :: t => if (e_start e <=? e_start h)%Z then e :: l else h :: ins_start e t
  end.
Definition sort_start (l : list entry) : list entry := fold_right ins_start [] l.

Lemma ins_start_perm e l : Permutation (ins_start e l) (e :: l).
Proof.
  induction l as [|h t IH]; cbn [ins_start]; [apply Permutation_refl|].
  destruct (e_start e <=? e_start h)%Z; [apply Permutation_refl|].
  apply (perm_trans (l' := h :: e :: t)); [apply perm_skip; exact IH | apply perm_swap].
Qed.
Lemma sort_start_perm l : Permutation (sort_start l) l.
Proof.
  induction l as [|h t IH]; cbn [sort_start fold_right]; [apply Permutation_refl|].
  apply (perm_trans (ins_start_perm _ _)). apply perm_skip. exact IH.
Qed.
Lemma ins_start_sorted e l : StronglySorted le_start l -> StronglySorted le_start (ins_start e l).
Proof.
  induction l as [|h t IH]; intros Hs; cbn [ins_start].
  - constructor; [constructor | constructor].
  - inversion Hs as [|? ? Hst Hall]; subst. destruct (e_start e <=? e_start h)%Z eqn:E.
    + constructor; [exact Hs|]. constructor; [unfold le_start; lia|].
      rewrite Forall_forall in *. intros x Hx. specialize (Hall x Hx). unfold le_start in *. lia.
    + constructor; [apply IH; exact Hst|].
      rewrite Forall_forall in *. intros x Hx. apply (Permutation_in _ (ins_start_perm e t)) in Hx.
      destruct Hx as [<-|Hx]; [unfold le_start; lia | apply Hall; exact Hx].
Qed.
Lemma sort_start_sorted l : StronglySorted le_start (sort_start l).
Proof. induction l as [|h t IH]; cbn [sort_start fold_right]; [constructor | apply ins_start_sorted; exact IH]. Qed.

Lemma occ_pos es o e : In e es -> e_op e = o -> 1 <= occ es o.
Proof.
  intros Hin Ho. unfold occ.
  assert (H : In e (filter (fun e0 => e_op e0 =? o) es)) by (apply filter_In; split; [exact Hin | apply Nat.eqb_eq; exact Ho]).
  destruct (filter (fun e0 => e_op e0 =? o) es); [destruct H | cbn; lia].
Qed.
Lemma occ_one_nodup es : (forall e, In e es -> occ es (e_op e) = 1) -> NoDup (map e_op es).
Proof.
  induction es as [|a r IH]; intros H; cbn [map]; [constructor|].
  assert (Ha : occ r (e_op a) = 0).
  { specialize (H a (or_introl eq_refl)). unfold occ in *. cbn [filter] in H. rewrite Nat.eqb_refl in H. cbn [length] in H. lia. }
  constructor.
  - intros Hin. apply in_map_iff in Hin as [x [Hx Hin]]. pose proof (occ_pos r (e_op a) x Hin Hx). lia.
  - apply IH. intros e He. specialize (H e (or_intror He)). unfold occ in *. cbn [filter] in H.
    destruct (e_op a =? e_op e) eqn:E; [|exact H]. exfalso. apply Nat.eqb_eq in E.
    pose proof (occ_pos r (e_op a) e He (eq_sym E)). unfold occ in *. lia.
Qed.

Section Complete.
Variable i : inst.
Hypothesis W : wf i.
Hypothesis Sv : solvableb i = true.

Lemma not_done_of_job s j : Inv i s -> j < nJ i -> jdone s j = false -> done s = false.
Proof.
  intros IV Hj Hd. rewrite (I_done _ _ IV). destruct (forallb (fun b => b) (job_done s)) eqn:E; [|reflexivity].
  pose proof (proj1 (forallb_id_nth (job_done s)) E j) as H. rewrite (sh_jd _ _ (I_shape _ _ IV)) in H.
  specialize (H Hj). unfold jdone in Hd. congruence.
Qed.
Lemma inp_not_jdone s j : Inv i s -> j < nJ i -> inp s j = true -> jdone s j = false.
Proof.
  intros IV Hj Hi. destruct (jdone s j) eqn:E; [|reflexivity]. destruct (I_jd _ _ IV j Hj E) as [H _]. congruence.
Qed.

(* with waits allowed the while loop of _step never has to advance the clock by itself *)
Lemma sc_false s : Inv i s -> step_complete false i s = false.
Proof.
  intros IV. destruct (step_complete false i s) eqn:E; [|reflexivity]. exfalso.
  destruct (step_complete_in_process false i s W Sv IV E) as (j & Hj & Hi).
  unfold step_complete in E. apply andb_prop in E as [Hm Hd]. apply negb_true_iff in Hm, Hd.
  assert (H0 : maskb false i s 0 = true).
  { cbn [maskb]. unfold noop_ok. rewrite Hd. cbn [negb]. rewrite andb_true_r, orb_false_r.
    apply existsb_id_nth. exists j. rewrite (sh_inp _ _ (I_shape _ _ IV)). split; [exact Hj | exact Hi]. }
  rewrite (mask_has false i s 0 ltac:(lia) H0) in Hm. discriminate.
Qed.

(* the wait action: offered while a job is being processed; it is exactly _transit_to_next_time *)
Lemma step_wait s j : Inv i s -> j < nJ i -> inp s j = true ->
  exists s' t', maskb false i s 0 = true /\ step false i s 0 = Some s' /\ next_time s = Some t' /\ tr_view i s s' t' /\
    Inv i s' /\ (time s < time s')%Z /\ busy_count s' < busy_count s.
Proof.
  intros IV Hj Hi.
  pose proof (not_done_of_job s j IV Hj (inp_not_jdone s j IV Hj Hi)) as Hd.
  destruct (transit_some i s j IV Hj Hi) as [s1 H1].
  destruct (transit_inv i s s1 W IV H1) as (IV1 & Ht & Hc).
  assert (Ht' : exists t', next_time s = Some t' /\ s1 = release i (set_time s t')).
  { unfold transit in H1. destruct (next_time s) as [t'|]; [|discriminate]. injection H1 as <-. exists t'. split; reflexivity. }
  destruct Ht' as [t' [Hnt ->]].
  exists (release i (set_time s t')), t'. split; [|split; [|split; [exact Hnt | split; [apply release_set_time_view | split; [exact IV1 | split; assumption]]]]].
  - cbn [maskb]. unfold noop_ok. rewrite Hd. cbn [negb]. rewrite andb_true_r, orb_false_r.
    apply existsb_id_nth. exists j. rewrite (sh_inp _ _ (I_shape _ _ IV)). split; [exact Hj | exact Hi].
  - unfold step. rewrite Hd, H1. apply advance_nop. apply sc_false. exact IV1.
Qed.

(* a dispatch: offered exactly when pair_ok; it is exactly _make_step (no automatic clock advance afterwards) *)
Lemma step_pair s j m : Inv i s -> j < nJ i -> m < nM i -> pair_ok s j m = true ->
  exists s', maskb false i s (S (j * nM i + m)) = true /\ step false i s (S (j * nM i + m)) = Some s' /\
    make_step i s j m = Some s' /\ Inv i s'.
Proof.
  intros IV Hj Hm Hok. destruct (pair_ok_facts s j m Hok) as (Hjd & _).
  pose proof (not_done_of_job s j IV Hj Hjd) as Hd.
  destruct (make_step_some i s j m W IV Hj Hm Hok) as [s1 H1].
  pose proof (make_step_inv i s j m s1 W IV Hok H1) as IV1.
  exists s1. split; [|split; [|split; [exact H1 | exact IV1]]].
  - cbn [maskb]. destruct (decode_pair (nM i) j m Hm) as [-> ->].
    pose proof (pair_index_lt (nJ i) (nM i) j m Hj Hm). replace (j * nM i + m <? nJ i * nM i) with true by lia. exact Hok.
  - unfold step. rewrite Hd. destruct (decode_pair (nM i) j m Hm) as [-> ->]. rewrite H1.
    apply advance_nop. apply sc_false. exact IV1.
Qed.

(* ---------------------------------------------------------------- what the mask offers, exactly *)
Theorem fjsp_offers_exactly s : Inv i s -> done s = false ->
  (forall j m, j < nJ i -> m < nM i ->
     (maskb false i s (S (j * nM i + m)) = true <->
      jdone s j = false /\ inp s j = false /\ (bu s m <= time s)%Z /\ (0 < P i m (nxt s j))%Z)) /\
  (maskb false i s 0 = true <-> exists j, j < nJ i /\ inp s j = true).
Proof.
  intros IV Hd. split.
  - intros j m Hj Hm. cbn [maskb]. destruct (decode_pair (nM i) j m Hm) as [-> ->].
    pose proof (pair_index_lt (nJ i) (nM i) j m Hj Hm). replace (j * nM i + m <? nJ i * nM i) with true by lia.
    cbn [andb]. split.
    + intros Hok. destruct (pair_ok_facts s j m Hok) as (H1 & H2 & H3 & _). repeat split; try assumption.
      pose proof (pair_ok_pc_pos i s j m W IV Hj Hok) as Hp.
      assert (Hs : sched s (nxt s j) = false) by (rewrite (I_cur _ _ IV j Hj), H1, H2; reflexivity).
      destruct (nxt_lt_total i s j W IV Hj) as [_ HoN]. destruct (I_uns _ _ IV _ HoN Hs) as [_ Hpc]. rewrite Hpc in Hp. exact Hp.
    + intros (H1 & H2 & H3 & H4).
      assert (Hs : sched s (nxt s j) = false) by (rewrite (I_cur _ _ IV j Hj), H1, H2; reflexivity).
      destruct (nxt_lt_total i s j W IV Hj) as [_ HoN]. destruct (I_uns _ _ IV _ HoN Hs) as [_ Hpc].
      unfold pair_ok. rewrite H1, H2, Hpc. lia.
  - cbn [maskb]. unfold noop_ok. rewrite Hd. cbn [negb]. rewrite andb_true_r, orb_false_r. rewrite existsb_id_nth.
    rewrite (sh_inp _ _ (I_shape _ _ IV)). reflexivity.
Qed.

(* ---------------------------------------------------------------- waiting until a running operation completes *)
Lemma busy_machine_runs s m o T : Inv i s -> asg s m o = true -> fin s o = T -> (time s < T)%Z ->
  m < nM i /\ bu s m = T /\ exists j, j < nJ i /\ inp s j = true.
Proof.
  intros IV Ha Hf Hlt.
  destruct (asg_true_lt i s m o (I_shape _ _ IV) Ha) as [Hm _].
  pose proof (asg_sched i s m o IV Ha) as Hs.
  destruct (I_sch _ _ IV o Hs) as (m1 & _ & _ & Hu & _ & _ & _ & Hst & Hb). rewrite <- (Hu m Ha) in Hb.
  destruct (I_busy _ _ IV m Hm ltac:(lia)) as (j & Hj & Hi & Ha2 & Hf2).
  split; [exact Hm|]. split; [|exists j; split; assumption].
  destruct (Nat.eq_dec (nxt s j) o) as [E|E]; [rewrite E in Hf2; lia|].
  pose proof (asg_sched i s m _ IV Ha2) as Hs2.
  destruct (I_sch _ _ IV _ Hs2) as (m2 & _ & _ & _ & _ & _ & _ & Hst2 & _).
  destruct (I_excl _ _ IV m o (nxt s j) ltac:(congruence) Ha Ha2) as [H|H]; lia.
Qed.

Lemma wait_until : forall n s m o T, busy_count s <= n -> Inv i s -> asg s m o = true -> fin s o = T -> (time s < T)%Z ->
  exists k s', run false i s (repeat 0 k) = Some s' /\ admb false i s (repeat 0 k) = true /\
    Inv i s' /\ time s' = T /\ same_arrays s s'.
Proof.
  induction n as [|n IH]; intros s m o T Hn IV Ha Hf Hlt;
    destruct (busy_machine_runs s m o T IV Ha Hf Hlt) as (Hm & Hbu & j & Hj & Hi);
    destruct (step_wait s j IV Hj Hi) as (s1 & t' & Hmask & Hstep & Hnt & V & IV1 & Ht & Hc); [lia|].
  destruct (next_time_spec s t' Hnt) as (_ & _ & _ & Hmin).
  assert (Hle : (t' <= T)%Z).
  { rewrite <- Hbu. apply Hmin; [|lia]. unfold bu. apply nth_In. rewrite (sh_bu _ _ (I_shape _ _ IV)). exact Hm. }
  pose proof (tv_time _ _ _ _ V) as Vt. pose proof (tr_view_same _ _ _ _ V) as SA.
  destruct (Z.eq_dec t' T) as [E|E].
  - exists 1, s1. cbn [repeat run admb]. rewrite Hstep, Hmask.
    split; [reflexivity|]. split; [reflexivity|]. split; [exact IV1|]. split; [lia | exact SA].
  - destruct (same_arrays_pt _ _ SA) as (_ & _ & _ & Pf & Pa & _).
    destruct (IH s1 m o T ltac:(lia) IV1 ltac:(rewrite Pa; exact Ha) ltac:(rewrite Pf; exact Hf) ltac:(lia))
      as (k & s' & Hr & Had & IV' & Ht' & SA').
    exists (S k), s'. rewrite run_repeat_S, Hstep. cbn [repeat admb]. rewrite Hmask, Hstep. cbn [andb].
    split; [exact Hr|]. split; [exact Had|]. split; [exact IV'|]. split; [exact Ht'|].
    exact (same_arrays_trans _ _ _ SA SA').
Qed.

(* ---------------------------------------------------------------- after the last dispatch: wait until everything has finished *)
Lemma undone_job s : Inv i s -> done s = false -> exists j, j < nJ i /\ jdone s j = false.
Proof.
  intros IV Ed. destruct (existsb (fun j => negb (jdone s j)) (seq 0 (nJ i))) eqn:En.
  - apply existsb_exists in En as [j [Hj Hnd]]. apply in_seq in Hj. exists j. split; [lia|]. apply negb_true_iff. exact Hnd.
  - exfalso. rewrite (I_done _ _ IV) in Ed.
    assert (forallb (fun b => b) (job_done s) = true); [|congruence].
    apply forallb_id_nth. intros j Hj. rewrite (sh_jd _ _ (I_shape _ _ IV)) in Hj.
    destruct (jdone s j) eqn:E; [exact E|].
    assert (existsb (fun j => negb (jdone s j)) (seq 0 (nJ i)) = true); [|congruence].
    apply existsb_exists. exists j. split; [apply in_seq; lia|]. rewrite E. reflexivity.
Qed.

Lemma all_sched_inp s : Inv i s -> (forall o, o < total_ops i -> sched s o = true) -> done s = false ->
  exists j, j < nJ i /\ inp s j = true.
Proof.
  intros IV Hall Ed. destruct (undone_job s IV Ed) as (j & Hj & Hjd). exists j. split; [exact Hj|].
  destruct (nxt_lt_total i s j W IV Hj) as [HoT _]. pose proof (Hall _ HoT) as Hs.
  rewrite (I_cur _ _ IV j Hj), Hjd, orb_false_r in Hs. exact Hs.
Qed.

Lemma finish_all : forall n s, busy_count s <= n -> Inv i s -> (forall o, o < total_ops i -> sched s o = true) ->
  exists k s', run false i s (repeat 0 k) = Some s' /\ admb false i s (repeat 0 k) = true /\
    Inv i s' /\ done s' = true /\ same_arrays s s'.
Proof.
  induction n as [|n IH]; intros s Hn IV Hall;
    (destruct (done s) eqn:Ed;
     [exists 0, s; cbn [repeat run admb]; split; [reflexivity|]; split; [reflexivity|]; split; [exact IV|]; split;
      [exact Ed | apply same_arrays_refl]|]);
    destruct (all_sched_inp s IV Hall Ed) as (j & Hj & Hi);
    destruct (step_wait s j IV Hj Hi) as (s1 & t' & Hmask & Hstep & Hnt & V & IV1 & Ht & Hc); [lia|].
  pose proof (tr_view_same _ _ _ _ V) as SA.
  destruct (same_arrays_pt _ _ SA) as (_ & Ps & _).
  destruct (IH s1 ltac:(lia) IV1 ltac:(intros o Ho; rewrite Ps; apply Hall; exact Ho)) as (k & s' & Hr & Had & IV' & Hd' & SA').
  exists (S k), s'. rewrite run_repeat_S, Hstep. cbn [repeat admb]. rewrite Hmask, Hstep. cbn [andb].
  split; [exact Hr|]. split; [exact Had|]. split; [exact IV'|]. split; [exact Hd'|].
  exact (same_arrays_trans _ _ _ SA SA').
Qed.

(* ---------------------------------------------------------------- dispatching one operation at a chosen instant T *)
(* [o] is the first unscheduled operation of job j, [m] an eligible machine, and T an instant that is either now or the
   completion time of an operation that is being processed, not before the job's previous operation completes nor before
   the machine is released: then waiting until T and dispatching (j, m) is mask-confined and starts [o] at exactly T,
   leaving every other operation untouched *)
Lemma dispatch_at s j m o T : Inv i s -> j < nJ i -> m < nM i -> sj i j <= o <= ej i j ->
  sched s o = false -> (forall o', sj i j <= o' < o -> sched s o' = true) ->
  (sj i j < o -> (fin s (o - 1) <= T)%Z) -> (bu s m <= T)%Z -> (0 < P i m o)%Z -> (time s <= T)%Z ->
  (T = time s \/ exists m' o', asg s m' o' = true /\ fin s o' = T) ->
  exists acts s2, admb false i s acts = true /\ run false i s acts = Some s2 /\ Inv i s2 /\ time s2 = T /\
    sched s2 o = true /\ asg s2 m o = true /\ stt s2 o = T /\ fin s2 o = (T + P i m o)%Z /\
    (forall o', o' <> o -> sched s2 o' = sched s o' /\ stt s2 o' = stt s o' /\ fin s2 o' = fin s o' /\
                         forall m', asg s2 m' o' = asg s m' o').
Proof.
  intros IV Hj Hm Hrng Huns Hbefore Hprev Hbu Hpos Hle Hev.
  (* 1. reach time T *)
  assert (H1 : exists k s1, run false i s (repeat 0 k) = Some s1 /\ admb false i s (repeat 0 k) = true /\
                            Inv i s1 /\ time s1 = T /\ same_arrays s s1).
  { destruct (Z.eq_dec T (time s)) as [E|E].
    - exists 0, s. cbn [repeat run admb]. split; [reflexivity|]. split; [reflexivity|]. split; [exact IV|].
      split; [symmetry; exact E | apply same_arrays_refl].
    - destruct Hev as [Hev|(m' & o' & Ha & Hf)]; [congruence|].
      exact (wait_until (busy_count s) s m' o' T (le_n _) IV Ha Hf ltac:(lia)). }
  destruct H1 as (k & s1 & Hr1 & Had1 & IV1 & Ht1 & SA).
  destruct (same_arrays_pt _ _ SA) as (Pbu & Psch & Pst & Pfin & Pasg & Ppc).
  (* 2. at time T the pair (j, m) is offered *)
  pose proof (I_rng _ _ IV1 j Hj) as Hr.
  assert (Hge : nxt s1 j <= o).
  { destruct (Nat.le_gt_cases (nxt s1 j) o) as [H|H]; [exact H|]. exfalso.
    destruct (I_past _ _ IV1 j o Hj ltac:(lia)) as [Hs _]. rewrite Psch in Hs. congruence. }
  assert (Hnx : nxt s1 j = o).
  { destruct (Nat.eq_dec (nxt s1 j) o) as [E|E]; [exact E|]. exfalso.
    assert (Hlt : nxt s1 j < o) by lia.
    assert (Ho1 : nxt s1 j = o - 1).
    { destruct (Nat.eq_dec (nxt s1 j) (o - 1)) as [E1|E1]; [exact E1|]. exfalso.
      pose proof (I_fut _ _ IV1 j (o - 1) Hj ltac:(lia)) as Hf. rewrite Psch in Hf.
      rewrite (Hbefore (o - 1) ltac:(lia)) in Hf. discriminate. }
    pose proof (I_cur _ _ IV1 j Hj) as Hc. rewrite Psch, Ho1 in Hc. rewrite (Hbefore (o - 1) ltac:(lia)) in Hc.
    destruct (jdone s1 j) eqn:Ejd.
    - destruct (I_jd _ _ IV1 j Hj Ejd) as (_ & He & _). lia.
    - rewrite orb_false_r in Hc. symmetry in Hc. pose proof (I_inp _ _ IV1 j Hj Hc) as Hi.
      rewrite Ho1, Pfin in Hi. specialize (Hprev ltac:(lia)). lia. }
  assert (Huns1 : sched s1 o = false) by (rewrite Psch; exact Huns).
  pose proof (I_cur _ _ IV1 j Hj) as Hc. rewrite Hnx, Huns1 in Hc. symmetry in Hc. apply orb_false_iff in Hc as [Hi1 Hjd1].
  pose proof (wf_eT _ W j Hj) as HeT. pose proof (wf_TN _ W) as HTN.
  destruct (I_uns _ _ IV1 o ltac:(lia) Huns1) as [_ Hpc1].
  assert (Hok : pair_ok s1 j m = true).
  { unfold pair_ok. rewrite Hjd1, Hi1, Hnx, Hpc1, Pbu, Ht1. lia. }
  destruct (step_pair s1 j m IV1 Hj Hm Hok) as (s2 & Hmask & Hstep & Hms & IV2).
  pose proof (make_step_view i s1 j m s2 (I_shape _ _ IV1) Hms) as V.
  exists (repeat 0 k ++ [S (j * nM i + m)]), s2.
  split; [|split; [|split; [exact IV2|]]].
  - rewrite (admb_app false i _ _ s s1 Hr1), Had1. cbn [admb andb]. rewrite Hmask, Hstep. reflexivity.
  - rewrite run_app, Hr1. cbn [run]. rewrite Hstep. reflexivity.
  - split; [rewrite (mv_time _ _ _ _ _ V); exact Ht1|].
    split; [rewrite (mv_sch _ _ _ _ _ V), Hnx, Nat.eqb_refl; reflexivity|].
    split; [rewrite (mv_asg _ _ _ _ _ V), Hnx, !Nat.eqb_refl; reflexivity|].
    split; [rewrite (mv_st _ _ _ _ _ V), Hnx, Nat.eqb_refl; exact Ht1|].
    split; [rewrite (mv_fin _ _ _ _ _ V), Hnx, Nat.eqb_refl, Hpc1, Ht1; reflexivity|].
    intros o' Hne. apply Nat.eqb_neq in Hne.
    rewrite (mv_sch _ _ _ _ _ V), (mv_st _ _ _ _ _ V), (mv_fin _ _ _ _ _ V), Hnx, Hne, Psch, Pst, Pfin.
    split; [reflexivity|]. split; [reflexivity|]. split; [reflexivity|].
    intros m'. rewrite (mv_asg _ _ _ _ _ V), Hnx, Hne, andb_false_r. apply Pasg.
Qed.

End Complete.

Section Reference.
Variable i : inst.
Hypothesis W : wf i.
Hypothesis Sv : solvableb i = true.
Variables (es : list entry) (mk : Z).
Hypothesis V : valid_schedule (sinst_of i) es mk.

Lemma ref_entry e : In e es ->
  e_op e < total_ops i /\ e_ma e < nM i /\ (0 < P i (e_ma e) (e_op e))%Z /\
  e_end e = (e_start e + P i (e_ma e) (e_op e))%Z /\ (0 <= e_start e)%Z /\ (e_end e <= mk)%Z.
Proof.
  clear Sv. intros Hin. destruct V as (_ & Hok & _ & _ & Hmk & _). destruct (Hok e Hin) as (H1 & H2 & H3 & H4 & H5).
  cbn [sinst_of si_nma si_proc] in *. apply (real_ops_iff i _ W) in H1.
  repeat split; try assumption; try lia. apply Hmk. exact Hin.
Qed.
Lemma ref_of_op o : o < total_ops i -> exists e, In e es /\ e_op e = o.
Proof.
  clear Sv. intros Ho. destruct V as (Honce & _). specialize (Honce o (proj2 (real_ops_iff i o W) Ho)). unfold occ in Honce.
  destruct (filter (fun e => e_op e =? o) es) as [|e r] eqn:E; [discriminate|].
  assert (Hin : In e (filter (fun e => e_op e =? o) es)) by (rewrite E; left; reflexivity).
  apply filter_In in Hin as [H1 H2]. exists e. split; [exact H1 | apply Nat.eqb_eq; exact H2].
Qed.
Lemma ref_nodup : NoDup (map e_op es).
Proof.
  apply occ_one_nodup. intros e He. destruct V as (Honce & _). apply Honce.
  apply (real_ops_iff i _ W). apply (ref_entry e He).
Qed.
Lemma ref_prec j e1 e2 : j < nJ i -> In e1 es -> In e2 es -> sj i j <= e_op e1 -> e_op e1 < e_op e2 -> e_op e2 <= ej i j ->
  (e_end e1 <= e_start e2)%Z.
Proof.
  intros Hj H1 H2 Ha Hb Hc. destruct V as (_ & _ & Hprec & _).
  apply (Hprec (seq (sj i j) (S (ej i j) - sj i j))) with (a := e_op e1) (b := e_op e2); try assumption; try reflexivity.
  - unfold sinst_of. cbn [si_jobs]. apply in_map_iff. exists j. split; [reflexivity | apply in_seq; lia].
  - apply ordered_pairs_seq. lia.
Qed.
Lemma ref_excl e1 e2 : In e1 es -> In e2 es -> e_ma e1 = e_ma e2 -> e_op e1 <> e_op e2 ->
  (e_end e1 <= e_start e2)%Z \/ (e_end e2 <= e_start e1)%Z.
Proof. destruct V as (_ & _ & _ & Hex & _). apply Hex. Qed.

(* ---------------------------------------------------------------- the dispatching invariant *)
(* D = entries of the reference schedule already dispatched, R = those still to come *)
Record Good (D R : list entry) (s : st) : Prop := {
  G_inv : Inv i s;
  G_D : forall d, In d D -> sched s (e_op d) = true /\ asg s (e_ma d) (e_op d) = true /\ (fin s (e_op d) <= e_end d)%Z;
  G_R : forall r, In r R -> sched s (e_op r) = false;
  G_t : forall r, In r R -> (time s <= e_start r)%Z;
}.
(* the bookkeeping shared by both inductions: D ++ e :: R is the reference schedule, in non-decreasing start order *)
Record Split (D : list entry) (e : entry) (R : list entry) : Prop := {
  S_in : forall x, In x (D ++ e :: R) -> In x es;
  S_cover : forall x, In x es -> In x (D ++ e :: R);
  S_nd : NoDup (map e_op (D ++ e :: R));
  S_D : forall d, In d D -> (e_start d <= e_start e)%Z;
  S_R : forall r, In r R -> (e_start e <= e_start r)%Z;
}.

Lemma split_op_D D e R d : Split D e R -> In d D -> e_op d <> e_op e.
Proof.
  intros Sp Hd E. pose proof (S_nd _ _ _ Sp) as Hnd. rewrite map_app in Hnd. cbn [map] in Hnd.
  apply NoDup_remove_2 in Hnd. apply Hnd. apply in_or_app. left. rewrite <- E. apply in_map. exact Hd.
Qed.
Lemma split_op_R D e R r : Split D e R -> In r R -> e_op r <> e_op e.
Proof.
  intros Sp Hr E. pose proof (S_nd _ _ _ Sp) as Hnd. rewrite map_app in Hnd. cbn [map] in Hnd.
  apply NoDup_remove_2 in Hnd. apply Hnd. apply in_or_app. right. rewrite <- E. apply in_map. exact Hr.
Qed.

(* what the reference schedule tells about the next entry e = (o on m) in a Good state *)
Lemma ref_facts D e R s : Split D e R -> Good D (e :: R) s ->
  exists j, j < nJ i /\ sj i j <= e_op e <= ej i j /\
    (forall o', sj i j <= o' < e_op e -> sched s o' = true /\ (fin s o' <= e_start e)%Z /\
        exists d, In d D /\ e_op d = o' /\ (e_end d <= e_start e)%Z) /\
    (bu s (e_ma e) <= e_start e)%Z.
Proof.
  intros Sp G. pose proof (G_inv _ _ _ G) as IV.
  assert (He : In e es) by (apply (S_in _ _ _ Sp); apply in_or_app; right; left; reflexivity).
  destruct (ref_entry e He) as (HoT & Hm & Hpos & Hend & Hst0 & _).
  destruct (wf_cover _ W _ HoT) as (j & Hj & Hrng). exists j. split; [exact Hj|]. split; [exact Hrng|]. split.
  - intros o' Ho'. pose proof (wf_eT _ W j Hj) as HeT.
    destruct (ref_of_op o' ltac:(lia)) as (d & Hd & Hdo).
    destruct (ref_entry d Hd) as (_ & _ & Hposd & Hendd & _).
    pose proof (ref_prec j d e Hj Hd He ltac:(lia) ltac:(lia) ltac:(lia)) as Hp.
    assert (HdD : In d D).
    { pose proof (S_cover _ _ _ Sp d Hd) as Hc. apply in_app_or in Hc as [Hc|[Hc|Hc]]; [exact Hc | subst d; lia |].
      pose proof (S_R _ _ _ Sp d Hc). lia. }
    destruct (G_D _ _ _ G d HdD) as (H1 & _ & H3). rewrite Hdo in *.
    split; [exact H1|]. split; [lia|]. exists d. split; [exact HdD|]. split; [exact Hdo | exact Hp].
  - destruct (Z.le_gt_cases (bu s (e_ma e)) (time s)) as [Hb|Hb].
    + pose proof (G_t _ _ _ G e (or_introl eq_refl)). lia.
    + destruct (I_busy _ _ IV _ Hm ltac:(lia)) as (j' & Hj' & Hi' & Ha' & Hf').
      pose proof (asg_sched i s _ _ IV Ha') as Hs'. pose proof (sched_real i s _ IV Hs') as Hr'.
      destruct (ref_of_op _ Hr') as (d & Hd & Hdo).
      assert (HdD : In d D).
      { pose proof (S_cover _ _ _ Sp d Hd) as Hc. apply in_app_or in Hc as [Hc|Hc]; [exact Hc|]. exfalso.
        pose proof (G_R _ _ _ G d Hc) as Hu. rewrite Hdo in Hu. congruence. }
      destruct (G_D _ _ _ G d HdD) as (_ & H2 & H3). rewrite Hdo in *.
      destruct (I_sch _ _ IV _ Hs') as (m1 & _ & _ & Hu & _). pose proof (Hu _ H2) as E1. pose proof (Hu _ Ha') as E2.
      destruct (ref_entry d Hd) as (_ & _ & Hposd & Hendd & _).
      pose proof (S_D _ _ _ Sp d HdD) as Hord.
      destruct (ref_excl d e Hd He ltac:(congruence) (split_op_D D e R d Sp HdD)) as [H|H]; lia.
Qed.

(* one step of the induction: the next entry e is dispatched at an instant T chosen by the caller *)
Lemma dispatch_entry D e R s T : Split D e R -> Good D (e :: R) s ->
  (time s <= T <= e_start e)%Z ->
  (forall j, j < nJ i -> sj i j < e_op e <= ej i j -> (fin s (e_op e - 1) <= T)%Z) -> (bu s (e_ma e) <= T)%Z ->
  (T = time s \/ exists m' o', asg s m' o' = true /\ fin s o' = T) ->
  exists acts s2, admb false i s acts = true /\ run false i s acts = Some s2 /\ Good (D ++ [e]) R s2 /\
    stt s2 (e_op e) = T /\ fin s2 (e_op e) = (T + P i (e_ma e) (e_op e))%Z /\
    (forall o', o' <> e_op e -> stt s2 o' = stt s o' /\ fin s2 o' = fin s o').
Proof.
  intros Sp G HT Hprev Hbu Hev. pose proof (G_inv _ _ _ G) as IV.
  assert (He : In e es) by (apply (S_in _ _ _ Sp); apply in_or_app; right; left; reflexivity).
  destruct (ref_entry e He) as (HoT & Hm & Hpos & Hend & Hst0 & _).
  destruct (ref_facts D e R s Sp G) as (j & Hj & Hrng & Hbefore & _).
  destruct (dispatch_at i W Sv s j (e_ma e) (e_op e) T IV Hj Hm Hrng (G_R _ _ _ G e (or_introl eq_refl))
              (fun o' Ho' => proj1 (Hbefore o' Ho')) ltac:(intros Hlt; apply (Hprev j Hj); lia) Hbu Hpos ltac:(lia) Hev)
    as (acts & s2 & Had & Hr & IV2 & Ht2 & Hs2 & Ha2 & Hst2 & Hf2 & Hoth).
  exists acts, s2. split; [exact Had|]. split; [exact Hr|]. split; [|split; [exact Hst2 | split; [exact Hf2|]]].
  - constructor.
    + exact IV2.
    + intros d Hd. apply in_app_or in Hd as [Hd|[<-|[]]].
      * destruct (Hoth (e_op d) (split_op_D D e R d Sp Hd)) as (Q1 & _ & Q3 & Q4).
        destruct (G_D _ _ _ G d Hd) as (H1 & H2 & H3). rewrite Q1, Q3, Q4. repeat split; assumption.
      * split; [exact Hs2|]. split; [exact Ha2|]. rewrite Hf2, Hend. lia.
    + intros r Hr'. destruct (Hoth (e_op r) (split_op_R D e R r Sp Hr')) as (Q1 & _). rewrite Q1.
      apply (G_R _ _ _ G). right. exact Hr'.
    + intros r Hr'. rewrite Ht2. pose proof (S_R _ _ _ Sp r Hr'). lia.
  - intros o' Hne. destruct (Hoth o' Hne) as (_ & Q2 & Q3 & _). split; assumption.
Qed.

(* ---------------------------------------------------------------- building a Split from the induction hypotheses *)
Lemma mk_split D e R : StronglySorted le_start (e :: R) ->
  (forall x, In x (D ++ e :: R) -> In x es) -> (forall x, In x es -> In x (D ++ e :: R)) ->
  NoDup (map e_op (D ++ e :: R)) -> (forall d r, In d D -> In r (e :: R) -> (e_start d <= e_start r)%Z) -> Split D e R.
Proof.
  intros Hs H1 H2 H3 H4. inversion Hs as [|? ? _ Hall]; subst. constructor; try assumption.
  - intros d Hd. apply H4; [exact Hd | left; reflexivity].
  - rewrite Forall_forall in Hall. exact Hall.
Qed.

(* the earliest instant at which the env can start [e]: now, or when the job's previous operation completes, or when the
   machine is released -- and it is an instant the clock can be moved to *)
Lemma earliest_start D e R s : Split D e R -> Good D (e :: R) s ->
  exists T, (time s <= T <= e_start e)%Z /\
    (forall j, j < nJ i -> sj i j < e_op e <= ej i j -> (fin s (e_op e - 1) <= T)%Z) /\ (bu s (e_ma e) <= T)%Z /\
    (T = time s \/ exists m' o', asg s m' o' = true /\ fin s o' = T).
Proof.
  intros Sp G. pose proof (G_inv _ _ _ G) as IV.
  assert (He : In e es) by (apply (S_in _ _ _ Sp); apply in_or_app; right; left; reflexivity).
  destruct (ref_entry e He) as (HoT & Hm & _).
  destruct (ref_facts D e R s Sp G) as (j & Hj & Hrng & Hbefore & Hbu).
  pose proof (G_t _ _ _ G e (or_introl eq_refl)) as Ht.
  set (pf := if sj i j <? e_op e then fin s (e_op e - 1) else time s).
  assert (Hpf : (pf <= e_start e)%Z).
  { unfold pf. destruct (sj i j <? e_op e) eqn:E; [|exact Ht]. apply Nat.ltb_lt in E.
    destruct (Hbefore (e_op e - 1) ltac:(lia)) as (_ & H & _). exact H. }
  exists (Z.max (time s) (Z.max pf (bu s (e_ma e)))). split; [lia|]. split; [|split; [lia|]].
  - intros j' Hj' Hr'. assert (j' = j) by (apply (job_ranges_disjoint i j' j (e_op e) W Hj' Hj); lia). subst j'.
    unfold pf. replace (sj i j <? e_op e) with true by lia. lia.
  - destruct (Z.eq_dec (Z.max (time s) (Z.max pf (bu s (e_ma e)))) (time s)) as [E|E]; [left; exact E | right].
    destruct (Z.max_spec (time s) (Z.max pf (bu s (e_ma e)))) as [[Hlt Hmx]|[Hge Hmx]]; [|lia]. rewrite Hmx.
    destruct (Z.max_spec pf (bu s (e_ma e))) as [[Hlt2 Hmx2]|[Hge2 Hmx2]]; rewrite Hmx2 in *.
    + destruct (I_busy _ _ IV _ Hm ltac:(lia)) as (j' & _ & _ & Ha' & Hf'). exists (e_ma e), (nxt s j'). split; assumption.
    + unfold pf in *. destruct (sj i j <? e_op e) eqn:E1; [|lia]. apply Nat.ltb_lt in E1.
      destruct (Hbefore (e_op e - 1) ltac:(lia)) as (Hs & _).
      destruct (I_sch _ _ IV _ Hs) as (m1 & _ & Ha1 & _). exists m1, (e_op e - 1). split; [exact Ha1 | reflexivity].
Qed.

(* ---------------------------------------------------------------- every valid schedule is dominated by a reachable one *)
Lemma dominate_all : forall R D s, StronglySorted le_start R ->
  (forall x, In x (D ++ R) -> In x es) -> (forall x, In x es -> In x (D ++ R)) -> NoDup (map e_op (D ++ R)) ->
  (forall d r, In d D -> In r R -> (e_start d <= e_start r)%Z) -> Good D R s ->
  exists acts s', admb false i s acts = true /\ run false i s acts = Some s' /\ Good (D ++ R) [] s'.
Proof.
  induction R as [|e R IH]; intros D s Hs H1 H2 H3 H4 G.
  - exists [], s. rewrite app_nil_r. split; [reflexivity|]. split; [reflexivity | exact G].
  - pose proof (mk_split D e R Hs H1 H2 H3 H4) as Sp.
    destruct (earliest_start D e R s Sp G) as (T & HT & Hprev & Hbu & Hev).
    destruct (dispatch_entry D e R s T Sp G HT Hprev Hbu Hev) as (acts1 & s2 & Had1 & Hr1 & G2 & _).
    assert (Eapp : (D ++ [e]) ++ R = D ++ e :: R) by (rewrite <- app_assoc; reflexivity).
    inversion Hs as [|? ? Hs' Hall]; subst. rewrite Forall_forall in Hall.
    destruct (IH (D ++ [e]) s2 Hs') as (acts2 & s' & Had2 & Hr2 & G').
    + rewrite Eapp. exact H1.
    + rewrite Eapp. exact H2.
    + rewrite Eapp. exact H3.
    + intros d r Hd Hr. apply in_app_or in Hd as [Hd|[<-|[]]]; [apply H4; [exact Hd | right; exact Hr] | apply Hall; exact Hr].
    + exact G2.
    + exists (acts1 ++ acts2), s'. rewrite Eapp in G'. split; [|split; [|exact G']].
      * rewrite (admb_app false i _ _ s s2 Hr1), Had1, Had2. reflexivity.
      * rewrite run_app, Hr1. exact Hr2.
Qed.

Lemma good_reset L : (forall x, In x L -> In x es) -> Good [] L (reset i).
Proof.
  intros HL. constructor.
  - apply reset_inv. exact W.
  - intros d [].
  - intros r _. unfold sched. cbn [reset op_scheduled]. apply nth_repeat_any.
  - intros r Hr. cbn [reset time]. apply (ref_entry r (HL r Hr)).
Qed.

(* from "everything dispatched" to the finished episode and its reward *)
Lemma finish_good s1 : Good es [] s1 ->
  exists k s', run false i s1 (repeat 0 k) = Some s' /\ admb false i s1 (repeat 0 k) = true /\ Inv i s' /\
    done s' = true /\ same_arrays s1 s' /\
    exists mk', reward i s' = Some (- mk')%Z /\ (mk' <= mk)%Z /\ valid_schedule (sinst_of i) (schedule_of s') mk'.
Proof.
  intros G. pose proof (G_inv _ _ _ G) as IV.
  assert (Hall : forall o, o < total_ops i -> sched s1 o = true).
  { intros o Ho. destruct (ref_of_op o Ho) as (e & He & <-). apply (G_D _ _ _ G e He). }
  destruct (finish_all i W Sv (busy_count s1) s1 (le_n _) IV Hall) as (k & s' & Hr & Had & IV' & Hd & SA).
  exists k, s'. split; [exact Hr|]. split; [exact Had|]. split; [exact IV'|]. split; [exact Hd|]. split; [exact SA|].
  destruct (done_valid i s' W IV' Hd) as (mk' & Hrew & Hval). exists mk'. split; [exact Hrew|]. split; [|exact Hval].
  destruct Hval as (_ & _ & _ & _ & _ & (e0 & Hin0 & Hend0)).
  apply in_entries in Hin0 as (m & o & Ha & ->). cbn [mk_e e_end] in Hend0. fold (fin s' o) in Hend0. fold (asg s' m o) in Ha.
  pose proof (sched_real i s' o IV' (asg_sched i s' m o IV' Ha)) as Ho.
  destruct (ref_of_op o Ho) as (e & He & <-). destruct (G_D _ _ _ G e He) as (_ & _ & Hf).
  destruct (same_arrays_pt _ _ SA) as (_ & _ & _ & Pf & _). rewrite Pf in Hend0.
  destruct (ref_entry e He) as (_ & _ & _ & _ & _ & Hmk). lia.
Qed.

Theorem dominating_reachable :
  exists acts s', admb false i (reset i) acts = true /\ run false i (reset i) acts = Some s' /\ done s' = true /\
    (forall e, In e es -> asg s' (e_ma e) (e_op e) = true /\ (fin s' (e_op e) <= e_end e)%Z) /\
    exists mk', reward i s' = Some (- mk')%Z /\ (mk' <= mk)%Z.
Proof.
  pose proof (sort_start_perm es) as HP. pose proof (sort_start_sorted es) as HS. set (L := sort_start es) in *.
  assert (HL : forall x, In x L -> In x es) by (intros x Hx; apply (Permutation_in _ HP Hx)).
  destruct (dominate_all L [] (reset i) HS) as (acts1 & s1 & Had1 & Hr1 & G1).
  - exact HL.
  - intros x Hx. apply (Permutation_in _ (Permutation_sym HP) Hx).
  - cbn [app]. apply (Permutation_NoDup (Permutation_map e_op (Permutation_sym HP))). exact ref_nodup.
  - intros d r [].
  - apply good_reset. exact HL.
  - cbn [app] in G1.
    assert (G1' : Good es [] s1).
    { destruct G1 as [A B C D0]. constructor; [exact A | | intros r [] | intros r []].
      intros d Hd. apply B. apply (Permutation_in _ (Permutation_sym HP) Hd). }
    destruct (finish_good s1 G1') as (k & s' & Hr2 & Had2 & IV' & Hd & SA & mk' & Hrew & Hle & _).
    exists (acts1 ++ repeat 0 k), s'. split; [|split; [|split; [exact Hd | split]]].
    + rewrite (admb_app false i _ _ _ s1 Hr1), Had1, Had2. reflexivity.
    + rewrite run_app, Hr1. exact Hr2.
    + intros e He. destruct (G_D _ _ _ G1' e He) as (_ & H2 & H3).
      destruct (same_arrays_pt _ _ SA) as (_ & _ & _ & Pf & Pa & _). rewrite Pf, Pa. split; assumption.
    + exists mk'. split; assumption.
Qed.

(* ---------------------------------------------------------------- event-time schedules are reached exactly *)
Definition event_time : Prop :=
  forall e, In e es -> e_start e = 0%Z \/ exists e', In e' es /\ e_end e' = e_start e.

Lemma exact_fin D R s d : Good D R s -> In d D -> In d es -> stt s (e_op d) = e_start d -> fin s (e_op d) = e_end d.
Proof.
  intros G Hd He Hst. pose proof (G_inv _ _ _ G) as IV. destruct (G_D _ _ _ G d Hd) as (Hs & Ha & _).
  destruct (I_sch _ _ IV _ Hs) as (m1 & _ & _ & Hu & _ & Hf & _). pose proof (Hu _ Ha) as E. subst m1.
  destruct (ref_entry d He) as (_ & _ & _ & Hend & _). rewrite Hf, Hst, Hend. reflexivity.
Qed.

Lemma exact_all : event_time -> forall R D s, StronglySorted le_start R ->
  (forall x, In x (D ++ R) -> In x es) -> (forall x, In x es -> In x (D ++ R)) -> NoDup (map e_op (D ++ R)) ->
  (forall d r, In d D -> In r R -> (e_start d <= e_start r)%Z) -> Good D R s ->
  (forall d, In d D -> stt s (e_op d) = e_start d) ->
  exists acts s', admb false i s acts = true /\ run false i s acts = Some s' /\ Good (D ++ R) [] s' /\
    (forall d, In d (D ++ R) -> stt s' (e_op d) = e_start d).
Proof.
  intros Hev. induction R as [|e R IH]; intros D s Hs H1 H2 H3 H4 G HX.
  - exists [], s. rewrite app_nil_r. split; [reflexivity|]. split; [reflexivity|]. split; [exact G | exact HX].
  - pose proof (mk_split D e R Hs H1 H2 H3 H4) as Sp. pose proof (G_inv _ _ _ G) as IV.
    assert (He : In e es) by (apply H1; apply in_or_app; right; left; reflexivity).
    destruct (ref_entry e He) as (_ & _ & _ & _ & Hst0 & _).
    destruct (ref_facts D e R s Sp G) as (j & Hj & Hrng & Hbefore & Hbu).
    pose proof (G_t _ _ _ G e (or_introl eq_refl)) as Ht.
    assert (Hevt : e_start e = time s \/ exists m' o', asg s m' o' = true /\ fin s o' = e_start e).
    { destruct (Hev e He) as [E0|(e' & He' & Hend')].
      - left. pose proof (I_t0 _ _ IV). lia.
      - right. destruct (ref_entry e' He') as (_ & _ & Hpos' & Hendd' & _).
        assert (HdD : In e' D).
        { pose proof (S_cover _ _ _ Sp e' He') as Hc. apply in_app_or in Hc as [Hc|[Hc|Hc]]; [exact Hc | subst e'; lia |].
          pose proof (S_R _ _ _ Sp e' Hc). lia. }
        exists (e_ma e'), (e_op e'). split; [apply (G_D _ _ _ G e' HdD)|].
        rewrite (exact_fin D (e :: R) s e' G HdD He' (HX e' HdD)). exact Hend'. }
    destruct (dispatch_entry D e R s (e_start e) Sp G ltac:(lia)) as (acts1 & s2 & Had1 & Hr1 & G2 & Hst2 & _ & Hoth).
    + intros j' Hj' Hr'. assert (j' = j) by (apply (job_ranges_disjoint i j' j (e_op e) W Hj' Hj); lia). subst j'.
      destruct (Hbefore (e_op e - 1) ltac:(lia)) as (_ & H & _). exact H.
    + exact Hbu.
    + exact Hevt.
    + assert (Eapp : (D ++ [e]) ++ R = D ++ e :: R) by (rewrite <- app_assoc; reflexivity).
      inversion Hs as [|? ? Hs' Hall]; subst. rewrite Forall_forall in Hall.
      destruct (IH (D ++ [e]) s2 Hs') as (acts2 & s' & Had2 & Hr2 & G' & HX').
      * rewrite Eapp. exact H1.
      * rewrite Eapp. exact H2.
      * rewrite Eapp. exact H3.
      * intros d r Hd Hr. apply in_app_or in Hd as [Hd|[<-|[]]]; [apply H4; [exact Hd | right; exact Hr] | apply Hall; exact Hr].
      * exact G2.
      * intros d Hd. apply in_app_or in Hd as [Hd|[<-|[]]]; [|exact Hst2].
        destruct (Hoth (e_op d) (split_op_D D e R d Sp Hd)) as [Q _]. rewrite Q. apply HX. exact Hd.
      * exists (acts1 ++ acts2), s'. rewrite Eapp in G', HX'. split; [|split; [|split; [exact G' | exact HX']]].
        -- rewrite (admb_app false i _ _ s s2 Hr1), Had1, Had2. reflexivity.
        -- rewrite run_app, Hr1. exact Hr2.
Qed.

Theorem mask_complete : event_time ->
  exists acts s', admb false i (reset i) acts = true /\ run false i (reset i) acts = Some s' /\ done s' = true /\
    (forall e, In e es -> asg s' (e_ma e) (e_op e) = true /\ stt s' (e_op e) = e_start e /\ fin s' (e_op e) = e_end e) /\
    reward i s' = Some (- mk)%Z.
Proof.
  intros Hev.
  pose proof (sort_start_perm es) as HP. pose proof (sort_start_sorted es) as HS. set (L := sort_start es) in *.
  assert (HL : forall x, In x L -> In x es) by (intros x Hx; apply (Permutation_in _ HP Hx)).
  destruct (exact_all Hev L [] (reset i) HS) as (acts1 & s1 & Had1 & Hr1 & G1 & HX1).
  - exact HL.
  - intros x Hx. apply (Permutation_in _ (Permutation_sym HP) Hx).
  - cbn [app]. apply (Permutation_NoDup (Permutation_map e_op (Permutation_sym HP))). exact ref_nodup.
  - intros d r [].
  - apply good_reset. exact HL.
  - intros d [].
  - cbn [app] in G1, HX1.
    assert (G1' : Good es [] s1).
    { destruct G1 as [A B C D0]. constructor; [exact A | | intros r [] | intros r []].
      intros d Hd. apply B. apply (Permutation_in _ (Permutation_sym HP) Hd). }
    assert (HX1' : forall d, In d es -> stt s1 (e_op d) = e_start d).
    { intros d Hd. apply HX1. apply (Permutation_in _ (Permutation_sym HP) Hd). }
    destruct (finish_good s1 G1') as (k & s' & Hr2 & Had2 & IV' & Hd & SA & mk' & Hrew & Hle & Hval).
    destruct (same_arrays_pt _ _ SA) as (_ & _ & Pst & Pf & Pa & _).
    assert (Hall : forall e, In e es -> asg s' (e_ma e) (e_op e) = true /\ stt s' (e_op e) = e_start e /\ fin s' (e_op e) = e_end e).
    { intros e He. destruct (G_D _ _ _ G1' e He) as (_ & H2 & _). rewrite Pa, Pst, Pf.
      split; [exact H2|]. split; [apply HX1'; exact He|]. apply (exact_fin es [] s1 e G1' He He). apply HX1'. exact He. }
    exists (acts1 ++ repeat 0 k), s'. split; [|split; [|split; [exact Hd | split; [exact Hall|]]]].
    + rewrite (admb_app false i _ _ _ s1 Hr1), Had1, Had2. reflexivity.
    + rewrite run_app, Hr1. exact Hr2.
    + rewrite Hrew. f_equal. f_equal.
      destruct V as (_ & _ & _ & _ & _ & (e & He & Hend)).
      destruct (Hall e He) as (Ha & _ & Hf).
      destruct Hval as (_ & _ & _ & _ & Hub & _).
      assert (Hin : In (mk_e (start_times s') (finish_times s') (e_ma e) (e_op e)) (schedule_of s')).
      { apply in_entries. exists (e_ma e), (e_op e). split; [exact Ha | reflexivity]. }
      specialize (Hub _ Hin). cbn [mk_e e_end] in Hub. fold (fin s' (e_op e)) in Hub. lia.
Qed.


End Reference.

(* ================================================================ closed statements (boolean well-formedness, no section hypotheses) *)
Lemma valid_solvable i es mk : wf i -> valid_schedule (sinst_of i) es mk -> solvableb i = true.
Proof.
  intros W V. unfold solvableb. apply forallb_forall. intros o Ho. apply in_seq in Ho.
  destruct (ref_of_op i W es mk V o ltac:(lia)) as (e & He & <-).
  destruct (ref_entry i W es mk V e He) as (_ & Hm & Hpos & _).
  apply existsb_exists. exists (e_ma e). split; [apply in_seq; lia | lia].
Qed.

(* FJSPEnv(mask_no_ops=False): for every valid schedule there is a finished mask-confined episode that uses the same machine
   for every operation and completes every operation no later; in particular its makespan is not larger *)
Theorem fjsp_dominating_reachable i es mk : wfb i = true -> valid_schedule (sinst_of i) es mk ->
  exists acts s', admb false i (reset i) acts = true /\ run false i (reset i) acts = Some s' /\ done s' = true /\
    (forall e, In e es -> asg s' (e_ma e) (e_op e) = true /\ (fin s' (e_op e) <= e_end e)%Z) /\
    exists mk', reward i s' = Some (- mk')%Z /\ (mk' <= mk)%Z.
Proof.
  intros Hw V. pose proof (wfb_wf i Hw) as W. exact (dominating_reachable i W (valid_solvable i es mk W V) es mk V).
Qed.

Corollary fjsp_optimum_reachable i es mk : wfb i = true -> valid_schedule (sinst_of i) es mk ->
  exists acts s' mk', admb false i (reset i) acts = true /\ run false i (reset i) acts = Some s' /\ done s' = true /\
    reward i s' = Some (- mk')%Z /\ (mk' <= mk)%Z.
Proof.
  intros Hw V. destruct (fjsp_dominating_reachable i es mk Hw V) as (acts & s' & H1 & H2 & H3 & _ & mk' & H4 & H5).
  exists acts, s', mk'. repeat split; assumption.
Qed.

(* the optimal makespan -- the least makespan over ALL valid schedules of the instance -- is the reward of a finished
   mask-confined episode (reachable: above; nothing better is reachable: C07, every finished episode is a valid schedule) *)
Theorem fjsp_optimal_makespan_reached i es opt : wfb i = true -> valid_schedule (sinst_of i) es opt ->
  (forall es' mk', valid_schedule (sinst_of i) es' mk' -> (opt <= mk')%Z) ->
  exists acts s', admb false i (reset i) acts = true /\ run false i (reset i) acts = Some s' /\ done s' = true /\
    reward i s' = Some (- opt)%Z.
Proof.
  intros Hw V Hopt. pose proof (wfb_wf i Hw) as W. pose proof (valid_solvable i es opt W V) as Sv.
  destruct (fjsp_optimum_reachable i es opt Hw V) as (acts & s' & mk' & H1 & H2 & H3 & H4 & H5).
  exists acts, s'. split; [exact H1|]. split; [exact H2|]. split; [exact H3|].
  destruct (FJSP_valid false i acts Hw Sv H1) as (s2 & Hr2 & Hv). rewrite H2 in Hr2. injection Hr2 as <-.
  destruct (Hv H3) as (mk2 & Hrew2 & Hval2). rewrite H4 in Hrew2. injection Hrew2 as E.
  pose proof (Hopt _ _ Hval2). rewrite H4. f_equal. lia.
Qed.

(* event-time schedules (every operation starts at time 0 or when some operation completes) are reached exactly *)
Theorem fjsp_mask_complete i es mk : wfb i = true -> valid_schedule (sinst_of i) es mk -> event_time es ->
  exists acts s', admb false i (reset i) acts = true /\ run false i (reset i) acts = Some s' /\ done s' = true /\
    (forall e, In e es -> asg s' (e_ma e) (e_op e) = true /\ stt s' (e_op e) = e_start e /\ fin s' (e_op e) = e_end e) /\
    reward i s' = Some (- mk)%Z.
Proof.
  intros Hw V Hev. pose proof (wfb_wf i Hw) as W. exact (mask_complete i W (valid_solvable i es mk W V) es mk V Hev).
Qed.

(* the characterisation of the mask, on the states an episode can be in *)
Theorem fjsp_offers_exactly_reachable i acts s : wfb i = true -> solvableb i = true ->
  admb false i (reset i) acts = true -> run false i (reset i) acts = Some s -> done s = false ->
  (forall j m, j < nJ i -> m < nM i ->
     (maskb false i s (S (j * nM i + m)) = true <->
      jdone s j = false /\ inp s j = false /\ (bu s m <= time s)%Z /\ (0 < P i m (nxt s j))%Z)) /\
  (maskb false i s 0 = true <-> exists j, j < nJ i /\ inp s j = true).
Proof.
  intros Hw Sv Ha Hr Hd. pose proof (wfb_wf i Hw) as W.
  exact (fjsp_offers_exactly i W Sv s (reachable_inv false i acts s Hw Sv Ha Hr) Hd).
Qed.

(* ================================================================ JSSPEnv: the same episodes through job-only actions *)
Definition jtr (i : inst) (a : nat) : nat := match a with O => O | S k => S (k / nM i) end.

Lemma jssp_of_fjsp_step cfg i s a s' : wf i -> jssp_wfb i = true -> Inv i s ->
  maskb cfg i s a = true -> step cfg i s a = Some s' ->
  jssp_maskb cfg i s (jtr i a) = true /\ jssp_step cfg i s (jtr i a) = Some s'.
Proof.
  intros W Jw IV Hm Hs. destruct a as [|k]; cbn [jtr].
  - split; [exact Hm|]. unfold jssp_step. destruct (done s) eqn:Ed; [|exact Hs].
    unfold step in Hs. rewrite Ed in Hs. exact Hs.
  - cbn [maskb] in Hm. apply andb_prop in Hm as [Hk Hok]. apply Nat.ltb_lt in Hk. pose proof (wf_M _ W) as HM.
    assert (Hj : k / nM i < nJ i) by (apply Nat.div_lt_upper_bound; lia).
    assert (Hmm : k mod nM i < nM i) by (apply Nat.mod_upper_bound; lia).
    remember (k / nM i) as j eqn:Ej. remember (k mod nM i) as m eqn:Em.
    split.
    + cbn [jssp_maskb]. replace (j <? nJ i) with true by lia. cbn [andb]. apply existsb_exists. exists m.
      split; [apply in_seq; lia | exact Hok].
    + unfold jssp_step. destruct (done s) eqn:Ed; [unfold step in Hs; rewrite Ed in Hs; exact Hs|].
      replace (j <? nJ i) with true by lia.
      destruct (pair_ok_facts s j m Hok) as (Hd & Hi & _ & _).
      assert (Hsc : sched s (nxt s j) = false) by (rewrite (I_cur _ _ IV j Hj), Hi, Hd; reflexivity).
      destruct (nxt_lt_total i s j W IV Hj) as [HoT HoN].
      destruct (I_uns _ _ IV _ HoN Hsc) as [_ Hpc].
      unfold jssp_translate.
      rewrite (filter_ext (fun m0 => (0 <? pc s m0 (nxt s j))%Z) (fun m0 => (0 <? P i m0 (nxt s j))%Z)) by (intros m0; rewrite Hpc; reflexivity).
      unfold jssp_wfb in Jw. rewrite forallb_forall in Jw. specialize (Jw (nxt s j) ltac:(apply in_seq; lia)).
      apply Nat.eqb_eq in Jw.
      destruct (filter (fun m0 => (0 <? P i m0 (nxt s j))%Z) (seq 0 (nM i))) as [|m1 [|m2 r]] eqn:Ef; try discriminate.
      assert (Hin : In m [m1]).
      { rewrite <- Ef. apply filter_In. split; [apply in_seq; lia|]. pose proof (pair_ok_pc_pos i s j m W IV Hj Hok). rewrite Hpc in *. lia. }
      destruct Hin as [E1|[]]. subst m1.
      replace (j * nM i + m) with k; [exact Hs|]. subst j m. pose proof (Nat.div_mod k (nM i) ltac:(lia)). lia.
Qed.

Lemma jssp_of_fjsp_run cfg i : wf i -> jssp_wfb i = true -> forall acts s s', Inv i s ->
  admb cfg i s acts = true -> run cfg i s acts = Some s' ->
  jssp_admb cfg i s (map (jtr i) acts) = true /\ jssp_run cfg i s (map (jtr i) acts) = Some s'.
Proof.
  intros W Jw. pose proof (jssp_wfb_solvable i Jw) as Sv.
  induction acts as [|a r IH]; intros s s' IV Ha Hr; [cbn in *; split; [reflexivity | exact Hr]|].
  cbn [admb run map jssp_admb jssp_run] in *. apply andb_prop in Ha as [Hm Ha].
  destruct (step_ok cfg i s a W Sv IV Hm) as (s1 & H1 & IV1 & _). rewrite H1 in *.
  destruct (jssp_of_fjsp_step cfg i s a s1 W Jw IV Hm H1) as [Q1 Q2]. rewrite Q1, Q2. cbn [andb].
  exact (IH s1 s' IV1 Ha Hr).
Qed.

Theorem jssp_dominating_reachable i es mk : wfb i = true -> jssp_wfb i = true -> valid_schedule (sinst_of i) es mk ->
  exists acts s', jssp_admb false i (reset i) acts = true /\ jssp_run false i (reset i) acts = Some s' /\ done s' = true /\
    (forall e, In e es -> asg s' (e_ma e) (e_op e) = true /\ (fin s' (e_op e) <= e_end e)%Z) /\
    exists mk', reward i s' = Some (- mk')%Z /\ (mk' <= mk)%Z.
Proof.
  intros Hw Jw V. pose proof (wfb_wf i Hw) as W.
  destruct (fjsp_dominating_reachable i es mk Hw V) as (acts & s' & H1 & H2 & H3 & H4 & H5).
  destruct (jssp_of_fjsp_run false i W Jw acts (reset i) s' (reset_inv i W) H1 H2) as [Q1 Q2].
  exists (map (jtr i) acts), s'. exact (conj Q1 (conj Q2 (conj H3 (conj H4 H5)))).
Qed.

Theorem jssp_mask_complete i es mk : wfb i = true -> jssp_wfb i = true -> valid_schedule (sinst_of i) es mk -> event_time es ->
  exists acts s', jssp_admb false i (reset i) acts = true /\ jssp_run false i (reset i) acts = Some s' /\ done s' = true /\
    (forall e, In e es -> asg s' (e_ma e) (e_op e) = true /\ stt s' (e_op e) = e_start e /\ fin s' (e_op e) = e_end e) /\
    reward i s' = Some (- mk)%Z.
Proof.
  intros Hw Jw V Hev. pose proof (wfb_wf i Hw) as W.
  destruct (fjsp_mask_complete i es mk Hw V Hev) as (acts & s' & H1 & H2 & H3 & H4 & H5).
  destruct (jssp_of_fjsp_run false i W Jw acts (reset i) s' (reset_inv i W) H1 H2) as [Q1 Q2].
  exists (map (jtr i) acts), s'. exact (conj Q1 (conj Q2 (conj H3 (conj H4 H5)))).
Qed.

(* ================================================================ non-vacuity *)
(* FJSP.ex_i: jobs A = (M0,3),(M1,2), B = (M1,2).  The schedule "A0 and B0 at 0, A1 at 3" is valid, event-time, makespan 5;
   a delayed variant (B0 at time 1, nothing completes at 1) is valid but not event-time: it is dominated, not reached *)
Definition cex_es : list entry := [ {| e_op := 0; e_ma := 0; e_start := 0; e_end := 3 |};
  {| e_op := 2; e_ma := 1; e_start := 0; e_end := 2 |}; {| e_op := 1; e_ma := 1; e_start := 3; e_end := 5 |} ]%Z.
Definition cex_delayed : list entry := [ {| e_op := 0; e_ma := 0; e_start := 0; e_end := 3 |};
  {| e_op := 2; e_ma := 1; e_start := 1; e_end := 3 |}; {| e_op := 1; e_ma := 1; e_start := 3; e_end := 5 |} ]%Z.
Example complete_ex :
  wfb ex_i = true /\ valid_schedule (sinst_of ex_i) cex_es 5%Z /\ event_time cex_es /\
  valid_schedule (sinst_of ex_i) cex_delayed 5%Z /\ ~ event_time cex_delayed.
Proof.
  split; [reflexivity|]. split; [apply valid_scheduleb_iff; vm_compute; reflexivity|]. split; [|split].
  - intros e [<-|[<-|[<-|[]]]]; cbn [e_start]; [left; reflexivity | left; reflexivity | right].
    eexists. split; [left; reflexivity | reflexivity].
  - apply valid_scheduleb_iff. vm_compute. reflexivity.
  - intros H. destruct (H _ (or_intror (or_introl eq_refl))) as [E|(e' & He' & E)]; cbn [e_start] in *; [discriminate|].
    destruct He' as [<-|[<-|[<-|[]]]]; cbn [e_end] in E; discriminate.
Qed.
