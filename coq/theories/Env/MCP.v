(* C08 -- MCPEnv (rl4co/envs/graph/mcp/env.py), one batch row, variable by variable.

   td["membership"] [n_sets, max_size]  -> m_membership : list (list Z)   item ids 1..n_items, 0 = padding;
                                           *mutated* by _step: rows of chosen sets are zeroed
   td["weights"]    [n_items]           -> m_weights : list Z             *mutated*: covered items zeroed
   td["chosen"], td["i"], td["action_mask"], td["done"] -> m_chosen, m_i, m_mask, m_done
   td["orig_membership"], td["orig_weights"], td["n_sets_to_choose"] -> instance m_mem, m_w, m_q

   _step:  chosen[a] = True ;  done = i >= n_sets_to_choose - 1
           chosen_membership    = chosen.unsqueeze(-1) * td["membership"]      (the *current*, already zeroed one)
           remaining_membership = (~chosen).unsqueeze(-1) * td["membership"]
           idx = the non-zero entries of chosen_membership (as long)
           chosen_items = zeros(n_items + 1); chosen_items[idx] += 1; chosen_items = chosen_items[1:]
           weights = td["weights"] * (1 - (chosen_items > 0)) ; membership = remaining_membership
           action_mask = ~chosen ; i = i + 1
   _get_reward: the same cover computation on orig_membership with the final chosen;  sum(covered * orig_weights) *)
From Coq Require Import ZArith List Bool Lia ZifyBool Arith.
From RL4CO Require Import Env.Selection.
Import ListNotations.
Open Scope Z_scope.

Record mcp_inst := { m_mem : list (list Z); m_w : list Z; m_q : Z }.
Record mcp_st := { m_membership : list (list Z); m_weights : list Z; m_chosen : list bool; m_i : Z;
                   m_mask : list bool; m_done : bool }.

Definition mcp_reset (I : mcp_inst) : mcp_st :=
  {| m_membership := m_mem I; m_weights := m_w I; m_chosen := repeat false (length (m_mem I)); m_i := 0;
     m_mask := repeat true (length (m_mem I)); m_done := false |}.

Definition zero_row (r : list Z) : list Z := map (fun _ => 0) r.
(* sel.unsqueeze(-1) * mem : row k kept where sel[k], zeroed elsewhere *)
Definition scale_rows (sel : list bool) (mem : list (list Z)) : list (list Z) :=
  map (fun k => if nth k sel false then nth k mem [] else zero_row (nth k mem [])) (seq 0 (length mem)).
(* the values at .nonzero() positions *)
Definition nonzero_vals (rows : list (list Z)) : list Z := filter (fun x => negb (x =? 0)) (concat rows).
(* (chosen_items[1:] > 0): position j (0-based) stands for item id j+1 *)
Definition covered_items (n_items : nat) (idxs : list Z) : list bool :=
  map (fun j => existsb (fun x => x =? Z.of_nat (S j)) idxs) (seq 0 n_items).
(* index_put into a vector of n_items+1 slots raises for ids above n_items; negative ids are outside the
   format (they would wrap around in torch) and are rejected here as well *)
Definition mcp_cover (n_items : nat) (sel : list bool) (mem : list (list Z)) : option (list bool) :=
  let idxs := nonzero_vals (scale_rows sel mem) in
  if existsb (fun x => (x <? 0) || (Z.of_nat n_items <? x)) idxs then None
  else Some (covered_items n_items idxs).

Definition mcp_step (I : mcp_inst) (s : mcp_st) (a : nat) : option mcp_st :=
  if (length (m_chosen s) <=? a)%nat then None
  else
    let chosen := set_nth a true (m_chosen s) in
    let n_items := length (m_weights s) in
    match mcp_cover n_items chosen (m_membership s) with
    | None => None
    | Some cov =>
        Some {| m_membership := scale_rows (map negb chosen) (m_membership s);
                m_weights := map (fun j => nth j (m_weights s) 0 * (if nth j cov false then 0 else 1)) (seq 0 n_items);
                m_chosen := chosen; m_i := m_i s + 1; m_mask := map negb chosen;
                m_done := m_q I - 1 <=? m_i s |}
    end.

Definition mcp_reward (I : mcp_inst) (s : mcp_st) : option Z :=
  let n_items := length (m_w I) in
  match mcp_cover n_items (m_chosen s) (m_mem I) with
  | None => None
  | Some cov => Some (sumZ (map (fun j => (if nth j cov false then 1 else 0) * nth j (m_w I) 0) (seq 0 n_items)))
  end.

(* documented input format: quota at least 1, item ids in 0..n_items *)
Definition rows_in_rangeb (n : nat) (mm : list (list Z)) : bool :=
  forallb (forallb (fun x => (0 <=? x) && (x <=? Z.of_nat n))) mm.
Definition mcp_wfb (I : mcp_inst) : bool := (1 <=? m_q I) && rows_in_rangeb (length (m_w I)) (m_mem I).
Definition mcp_wf (I : mcp_inst) : Prop := mcp_wfb I = true.

Definition mcp_run (I : mcp_inst) := run_adm (mcp_step I) m_mask.
Definition mcp_run_all (I : mcp_inst) := run_all (mcp_step I).

(* ------------------------------------------------------------------ independent specification *)
(* item j (0-based position in the weight vector, id j+1) is covered by a selection of sets *)
Definition coveredb (mem : list (list Z)) (as_ : list nat) (j : nat) : bool :=
  existsb (fun a => existsb (fun x => x =? Z.of_nat (S j)) (nth a mem [])) as_.
Definition covered (mem : list (list Z)) (as_ : list nat) (j : nat) : Prop :=
  exists a, In a as_ /\ In (Z.of_nat (S j)) (nth a mem []).
Lemma coveredb_iff mem as_ j : coveredb mem as_ j = true <-> covered mem as_ j.
Proof.
  unfold coveredb, covered. rewrite existsb_exists. split.
  - intros [a [Ha H]]. apply existsb_exists in H as [x [Hx E]]. apply Z.eqb_eq in E. subst x. eauto.
  - intros [a [Ha H]]. exists a. split; [exact Ha|]. apply existsb_exists. exists (Z.of_nat (S j)).
    split; [exact H | apply Z.eqb_refl].
Qed.

(* ------------------------------------------------------------------ list facts about the tensor expressions *)
Lemma nth_map_negb l k : (k < length l)%nat -> nth k (map negb l) false = negb (nth k l false).
Proof.
  intros H. rewrite (nth_indep _ false (negb true)) by (rewrite map_length; exact H).
  rewrite map_nth. f_equal. apply nth_indep. exact H.
Qed.

Lemma scale_rows_length sel mem : length (scale_rows sel mem) = length mem.
Proof. unfold scale_rows. rewrite map_length, seq_length. reflexivity. Qed.

Lemma nth_scale_rows sel mem k : (k < length mem)%nat ->
  nth k (scale_rows sel mem) [] = if nth k sel false then nth k mem [] else zero_row (nth k mem []).
Proof. intros H. unfold scale_rows. apply nth_map_seq. exact H. Qed.

Lemma zero_row_idem r : zero_row (zero_row r) = zero_row r.
Proof. unfold zero_row. rewrite map_map. reflexivity. Qed.

Lemma In_zero_row y r : In y (zero_row r) -> y = 0.
Proof. unfold zero_row. rewrite in_map_iff. intros [x [E _]]. congruence. Qed.

Lemma scale_rows_twice sel1 sel2 mem :
  (forall k, nth k sel2 false = true -> nth k sel1 false = true) ->
  scale_rows sel2 (scale_rows sel1 mem) = scale_rows sel2 mem.
Proof.
  intros H. apply (list_eq_nth []); [rewrite !scale_rows_length; reflexivity|].
  intros k Hk. rewrite !scale_rows_length in Hk.
  rewrite (nth_scale_rows sel2 (scale_rows sel1 mem)) by (rewrite scale_rows_length; exact Hk).
  rewrite (nth_scale_rows sel2 mem) by exact Hk. rewrite (nth_scale_rows sel1 mem) by exact Hk.
  destruct (nth k sel2 false) eqn:E2.
  - rewrite (H k E2). reflexivity.
  - destruct (nth k sel1 false); [reflexivity | apply zero_row_idem].
Qed.

Lemma In_nonzero_vals y sel mm : y <> 0 ->
  (In y (nonzero_vals (scale_rows sel mm)) <->
   exists k, (k < length mm)%nat /\ nth k sel false = true /\ In y (nth k mm [])).
Proof.
  intros Hy. unfold nonzero_vals. rewrite filter_In, in_concat. split.
  - intros [[row [Hrow Hin]] _]. unfold scale_rows in Hrow. apply in_map_iff in Hrow as [k [E Hk]].
    apply in_seq in Hk. exists k. split; [lia|].
    destruct (nth k sel false); [subst row; auto|]. subst row. apply In_zero_row in Hin. congruence.
  - intros [k [Hk [Hs Hin]]]. split.
    + exists (nth k mm []). split; [|exact Hin]. unfold scale_rows. apply in_map_iff. exists k.
      rewrite Hs. split; [reflexivity | apply in_seq; lia].
    + apply negb_true_iff. apply Z.eqb_neq. exact Hy.
Qed.

Definition rows_in_range (n : nat) (mm : list (list Z)) : Prop :=
  forall row x, In row mm -> In x row -> 0 <= x <= Z.of_nat n.
Lemma rows_in_rangeb_ok n mm : rows_in_rangeb n mm = true -> rows_in_range n mm.
Proof.
  unfold rows_in_rangeb, rows_in_range. intros H row x Hr Hx.
  rewrite forallb_forall in H. specialize (H row Hr). rewrite forallb_forall in H. specialize (H x Hx). lia.
Qed.
Lemma rows_in_range_scale n sel mm : rows_in_range n mm -> rows_in_range n (scale_rows sel mm).
Proof.
  unfold rows_in_range. intros H row x Hr Hx. unfold scale_rows in Hr. apply in_map_iff in Hr as [k [E Hk]].
  apply in_seq in Hk. destruct (nth k sel false).
  - subst row. apply (H (nth k mm [])); [apply nth_In; lia | exact Hx].
  - subst row. apply In_zero_row in Hx. lia.
Qed.

Lemma mcp_cover_some n sel mm : rows_in_range n mm ->
  mcp_cover n sel mm = Some (covered_items n (nonzero_vals (scale_rows sel mm))).
Proof.
  intros H. unfold mcp_cover.
  destruct (existsb (fun x => (x <? 0) || (Z.of_nat n <? x)) (nonzero_vals (scale_rows sel mm))) eqn:E; [|reflexivity].
  exfalso. apply existsb_exists in E as [x [Hx Hb]]. unfold nonzero_vals in Hx. apply filter_In in Hx as [Hx _].
  apply in_concat in Hx as [row [Hrow Hin]]. pose proof (rows_in_range_scale n sel mm H row x Hrow Hin). lia.
Qed.

(* which items one cover computation marks: exactly those listed by a selected row *)
Lemma cover_char sel mm j :
  existsb (fun x => x =? Z.of_nat (S j)) (nonzero_vals (scale_rows sel mm)) = true <->
  exists k, (k < length mm)%nat /\ nth k sel false = true /\ In (Z.of_nat (S j)) (nth k mm []).
Proof.
  rewrite existsb_exists. split.
  - intros [x [Hx E]]. apply Z.eqb_eq in E. subst x. apply In_nonzero_vals in Hx; [exact Hx | lia].
  - intros H. exists (Z.of_nat (S j)). split; [apply In_nonzero_vals; [lia | exact H] | apply Z.eqb_refl].
Qed.

(* ------------------------------------------------------------------ the invariant and the explicit step *)
Definition mcp_mask0 (I : mcp_inst) : list bool := repeat true (length (m_mem I)).
Definition mcp_inv (I : mcp_inst) (s : mcp_st) : Prop :=
  length (m_chosen s) = length (m_mem I) /\ m_mask s = map negb (m_chosen s) /\
  m_membership s = scale_rows (map negb (m_chosen s)) (m_mem I) /\ length (m_weights s) = length (m_w I).

Lemma mcp_wf_quota I : mcp_wf I -> 1 <= m_q I.
Proof. unfold mcp_wf, mcp_wfb. intros H. apply andb_prop in H as [H _]. lia. Qed.
Lemma mcp_wf_range I : mcp_wf I -> rows_in_range (length (m_w I)) (m_mem I).
Proof. unfold mcp_wf, mcp_wfb. intros H. apply andb_prop in H as [_ H]. apply rows_in_rangeb_ok. exact H. Qed.

Lemma scale_rows_all_true n mem : n = length mem -> scale_rows (repeat true n) mem = mem.
Proof.
  intros ->. apply (list_eq_nth []); [apply scale_rows_length|].
  intros j Hj. rewrite scale_rows_length in Hj. rewrite nth_scale_rows by exact Hj.
  rewrite nth_repeat_lt by exact Hj. reflexivity.
Qed.

Lemma map_negb_repeat_false n : map negb (repeat false n) = repeat true n.
Proof. induction n; simpl; congruence. Qed.

Lemma mcp_reset_ok I : mcp_wf I ->
  mcp_inv I (mcp_reset I) /\ m_mask (mcp_reset I) = mcp_mask0 I /\ m_i (mcp_reset I) = 0 /\
  m_done (mcp_reset I) = false.
Proof.
  intros _. unfold mcp_inv, mcp_reset, mcp_mask0. cbn [m_chosen m_mask m_i m_done m_membership m_weights].
  rewrite repeat_length, map_negb_repeat_false. rewrite scale_rows_all_true by reflexivity.
  repeat split; reflexivity.
Qed.

(* the step written out: the newly chosen set a contributes its *original* row iff it was not chosen before *)
Definition mcp_newcov (I : mcp_inst) (s : mcp_st) (a j : nat) : bool :=
  negb (nth a (m_chosen s) false) && existsb (fun x => x =? Z.of_nat (S j)) (nth a (m_mem I) []).

Lemma mcp_cov_step I s a j : mcp_inv I s -> (a < length (m_chosen s))%nat ->
  existsb (fun x => x =? Z.of_nat (S j))
          (nonzero_vals (scale_rows (set_nth a true (m_chosen s)) (m_membership s))) = mcp_newcov I s a j.
Proof.
  intros [Hlen [_ [Hmem _]]] Ha. apply Bool.eq_iff_eq_true. rewrite cover_char. unfold mcp_newcov.
  rewrite andb_true_iff, negb_true_iff, existsb_exists. rewrite Hmem, scale_rows_length. split.
  - intros [k [Hk [Hsel Hin]]]. rewrite nth_scale_rows in Hin by exact Hk.
    rewrite nth_map_negb in Hin by lia.
    destruct (nth k (m_chosen s) false) eqn:Ec; simpl in Hin; [apply In_zero_row in Hin; lia|].
    rewrite nth_set_nth in Hsel. destruct (Nat.eqb k a) eqn:E; simpl in Hsel; [|congruence].
    apply Nat.eqb_eq in E. subst k. split; [exact Ec|]. exists (Z.of_nat (S j)). split; [exact Hin | apply Z.eqb_refl].
  - intros [Hc [x [Hx E]]]. apply Z.eqb_eq in E. subst x. exists a. split; [lia|]. split.
    + rewrite nth_set_nth, Nat.eqb_refl. replace (Nat.ltb a (length (m_chosen s))) with true
        by (symmetry; apply Nat.ltb_lt; exact Ha). reflexivity.
    + rewrite nth_scale_rows by lia. rewrite nth_map_negb by lia. rewrite Hc. exact Hx.
Qed.

Definition mcp_step_result (I : mcp_inst) (s : mcp_st) (a : nat) : mcp_st :=
  let chosen := set_nth a true (m_chosen s) in
  {| m_membership := scale_rows (map negb chosen) (m_mem I);
     m_weights := map (fun j => nth j (m_weights s) 0 * (if mcp_newcov I s a j then 0 else 1)) (seq 0 (length (m_w I)));
     m_chosen := chosen; m_i := m_i s + 1; m_mask := map negb chosen; m_done := m_q I - 1 <=? m_i s |}.

Lemma mcp_step_eq I s a : mcp_wf I -> mcp_inv I s -> (a < length (m_chosen s))%nat ->
  mcp_step I s a = Some (mcp_step_result I s a).
Proof.
  intros Hwf Hinv Ha. pose proof Hinv as [Hlen [Hmask [Hmem Hw]]].
  unfold mcp_step. destruct (Nat.leb (length (m_chosen s)) a) eqn:E; [apply Nat.leb_le in E; lia|].
  rewrite mcp_cover_some.
  2:{ rewrite Hmem, Hw. apply rows_in_range_scale. apply mcp_wf_range. exact Hwf. }
  unfold mcp_step_result. f_equal. f_equal.
  - rewrite Hmem at 1. apply scale_rows_twice. intros k Hk.
    destruct (Nat.ltb k (length (m_chosen s))) eqn:L.
    + apply Nat.ltb_lt in L. rewrite nth_map_negb in Hk by (rewrite set_nth_length; exact L).
      rewrite nth_map_negb by exact L. rewrite nth_set_nth in Hk.
      destruct (Nat.eqb k a && Nat.ltb a (length (m_chosen s)))%bool; [discriminate | exact Hk].
    + apply Nat.ltb_ge in L. rewrite nth_overflow in Hk; [discriminate|]. rewrite map_length, set_nth_length. exact L.
  - rewrite Hw. apply map_seq_ext. intros j Hj. f_equal.
    unfold covered_items. rewrite nth_map_seq by exact Hj. rewrite (mcp_cov_step I s a j Hinv Ha). reflexivity.
Qed.

Lemma mcp_step_inv I s a : mcp_inv I s -> (a < length (m_chosen s))%nat -> mcp_inv I (mcp_step_result I s a).
Proof.
  intros [Hlen [Hmask [Hmem Hw]]] Ha. unfold mcp_inv, mcp_step_result. cbn [m_chosen m_mask m_membership m_weights].
  rewrite set_nth_length, map_length, seq_length. repeat split; auto.
Qed.

Lemma mcp_step_ok I s a : mcp_wf I -> mcp_inv I s -> (a < length (m_mask s))%nat ->
  exists s', mcp_step I s a = Some s' /\ mcp_inv I s' /\ m_mask s' = set_nth a false (m_mask s) /\
             m_i s' = m_i s + 1 /\ m_done s' = (m_q I - 1 <=? m_i s).
Proof.
  intros Hwf Hinv Hlt. pose proof Hinv as [Hlen [Hmask _]]. rewrite Hmask, map_length in Hlt.
  exists (mcp_step_result I s a). split; [apply mcp_step_eq; assumption|].
  split; [apply mcp_step_inv; assumption|]. unfold mcp_step_result. cbn [m_mask m_i m_done].
  rewrite Hmask, map_set_nth. repeat split; reflexivity.
Qed.

(* ------------------------------------------------------------------ quota theorems (instances of SelCore) *)
Lemma mcp_allowed_range I as_ :
  Forall (fun a => nth a (mcp_mask0 I) false = true) as_ -> Forall (fun a => (a < length (m_mem I))%nat) as_.
Proof.
  apply Forall_impl. intros a H. apply nth_true_lt in H. unfold mcp_mask0 in H. rewrite repeat_length in H. exact H.
Qed.

Theorem mcp_sel_quota I as_ s : mcp_wf I ->
  mcp_run I (mcp_reset I) as_ = Some s -> m_done s = true ->
  (forall k s', (0 < k < length as_)%nat -> mcp_run I (mcp_reset I) (firstn k as_) = Some s' -> m_done s' = false) ->
  Z.of_nat (length as_) = m_q I /\ NoDup as_ /\ Forall (fun a => (a < length (m_mem I))%nat) as_.
Proof.
  intros Hwf Hrun Hd Hf.
  destruct (sel_quota mcp_inst mcp_st mcp_wf mcp_reset mcp_step m_mask m_i m_done m_q mcp_mask0 mcp_inv
              mcp_wf_quota mcp_reset_ok mcp_step_ok I as_ s Hwf Hrun Hd Hf) as [H1 [H2 H3]].
  repeat split; auto. apply mcp_allowed_range. exact H3.
Qed.

Theorem mcp_done_iff I as_ s : mcp_wf I -> mcp_run I (mcp_reset I) as_ = Some s ->
  m_done s = negb (Nat.eqb (length as_) 0) && (m_q I <=? Z.of_nat (length as_)).
Proof.
  exact (sel_done_iff mcp_inst mcp_st mcp_wf mcp_reset mcp_step m_mask m_i m_done m_q mcp_mask0 mcp_inv
           mcp_reset_ok mcp_step_ok I as_ s).
Qed.

Theorem mcp_distinct_in_range I as_ s : mcp_wf I -> mcp_run I (mcp_reset I) as_ = Some s ->
  NoDup as_ /\ Forall (fun a => (a < length (m_mem I))%nat) as_ /\
  m_mask s = clear_all (repeat true (length (m_mem I))) as_ /\ m_i s = Z.of_nat (length as_).
Proof.
  intros Hwf Hrun.
  destruct (sel_distinct_allowed mcp_inst mcp_st mcp_wf mcp_reset mcp_step m_mask m_i m_done m_q mcp_mask0 mcp_inv
              mcp_reset_ok mcp_step_ok I as_ s Hwf Hrun) as [H1 [H2 [H3 H4]]].
  repeat split; auto. apply mcp_allowed_range. exact H2.
Qed.

Theorem mcp_progress I as_ s a : mcp_wf I -> mcp_run I (mcp_reset I) as_ = Some s ->
  nth a (m_mask s) false = true -> exists s', mcp_step I s a = Some s'.
Proof.
  exact (sel_progress mcp_inst mcp_st mcp_wf mcp_reset mcp_step m_mask m_i m_done m_q mcp_mask0 mcp_inv
           mcp_reset_ok mcp_step_ok I as_ s a).
Qed.

Theorem mcp_no_dead_end I as_ s : mcp_wf I -> mcp_run I (mcp_reset I) as_ = Some s ->
  Z.of_nat (length as_) < m_q I -> m_q I <= Z.of_nat (length (m_mem I)) -> exists a, nth a (m_mask s) false = true.
Proof.
  intros Hwf Hrun Hlt Hq.
  apply (sel_no_dead_end mcp_inst mcp_st mcp_wf mcp_reset mcp_step m_mask m_i m_done m_q mcp_mask0 mcp_inv
           mcp_reset_ok mcp_step_ok I as_ s Hwf Hrun Hlt).
  unfold mcp_mask0. rewrite count_true_repeat_true. exact Hq.
Qed.

Theorem mcp_episode_completes I as_ s : mcp_wf I -> m_q I <= Z.of_nat (length (m_mem I)) ->
  mcp_run I (mcp_reset I) as_ = Some s -> Z.of_nat (length as_) <= m_q I ->
  exists ext s', mcp_run I (mcp_reset I) (as_ ++ ext) = Some s' /\ Z.of_nat (length (as_ ++ ext)) = m_q I.
Proof.
  intros Hwf Hq Hrun Hle.
  apply (sel_episode_completes mcp_inst mcp_st mcp_wf mcp_reset mcp_step m_mask m_i m_done m_q mcp_mask0 mcp_inv
           mcp_reset_ok mcp_step_ok I Hwf) with (fuel := Z.to_nat (m_q I - Z.of_nat (length as_))) (s := s).
  - unfold mcp_mask0. rewrite count_true_repeat_true. exact Hq.
  - exact Hrun.
  - lia.
Qed.

(* ------------------------------------------------------------------ bookkeeping: weights, membership, reward *)
Record mcp_book (I : mcp_inst) (pre : list nat) (s : mcp_st) : Prop := {
  bk_inv : mcp_inv I s;
  bk_chosen : m_chosen s = set_all (repeat false (length (m_mem I))) pre;
  bk_weights : m_weights s =
               map (fun j => if coveredb (m_mem I) pre j then 0 else nth j (m_w I) 0) (seq 0 (length (m_w I)));
}.

Lemma coveredb_snoc mem pre a j :
  coveredb mem (pre ++ [a]) j = coveredb mem pre j || existsb (fun x => x =? Z.of_nat (S j)) (nth a mem []).
Proof. unfold coveredb. rewrite existsb_app. simpl. rewrite orb_false_r. reflexivity. Qed.

Lemma mcp_book_step I pre s a s' : mcp_wf I -> mcp_book I pre s -> mcp_step I s a = Some s' ->
  mcp_book I (pre ++ [a]) s' /\ (a < length (m_mem I))%nat.
Proof.
  intros Hwf [Hinv Hch Hwt] Hs. pose proof Hinv as [Hlen [_ [_ Hw]]].
  assert (Ha : (a < length (m_chosen s))%nat).
  { unfold mcp_step in Hs. destruct (Nat.leb (length (m_chosen s)) a) eqn:E; [discriminate|]. apply Nat.leb_gt in E. exact E. }
  rewrite (mcp_step_eq I s a Hwf Hinv Ha) in Hs. injection Hs as <-. split; [|lia].
  constructor.
  - apply mcp_step_inv; assumption.
  - unfold mcp_step_result. cbn [m_chosen]. rewrite set_all_app, <- Hch. reflexivity.
  - unfold mcp_step_result. cbn [m_weights]. apply map_seq_ext. intros j Hj.
    rewrite Hwt. rewrite nth_map_seq by exact Hj. rewrite coveredb_snoc. unfold mcp_newcov.
    assert (Hca : nth a (m_chosen s) false = memb a pre).
    { rewrite Hch, nth_set_all, repeat_length. rewrite nth_repeat.
      replace (Nat.ltb a (length (m_mem I))) with true by (symmetry; apply Nat.ltb_lt; lia).
      simpl. apply andb_true_r. }
    rewrite Hca.
    destruct (coveredb (m_mem I) pre j) eqn:Ec; cbn [orb]; [lia|].
    destruct (existsb (fun x => x =? Z.of_nat (S j)) (nth a (m_mem I) [])) eqn:Ee; cbn [orb andb negb].
    + destruct (memb a pre) eqn:Em; cbn [orb andb negb]; [|lia]. exfalso.
      apply memb_In in Em. unfold coveredb in Ec.
      assert (existsb (fun a0 => existsb (fun x => x =? Z.of_nat (S j)) (nth a0 (m_mem I) [])) pre = true).
      { apply existsb_exists. exists a. split; assumption. }
      congruence.
    + rewrite andb_false_r. lia.
Qed.

Lemma mcp_book_run I : mcp_wf I -> forall as_ pre s0 s, mcp_book I pre s0 -> mcp_run_all I s0 as_ = Some s ->
  mcp_book I (pre ++ as_) s /\ Forall (fun a => (a < length (m_mem I))%nat) as_.
Proof.
  intros Hwf. unfold mcp_run_all. induction as_ as [|a r IH]; intros pre s0 s Hb Hrun; simpl in Hrun.
  - injection Hrun as <-. rewrite app_nil_r. split; [exact Hb | constructor].
  - destruct (mcp_step I s0 a) as [s1|] eqn:Hs; [|discriminate].
    destruct (mcp_book_step I pre s0 a s1 Hwf Hb Hs) as [Hb1 Ha].
    destruct (IH (pre ++ [a]) s1 s Hb1 Hrun) as [Hb2 Hr]. rewrite <- app_assoc in Hb2. simpl in Hb2.
    split; [exact Hb2 | constructor; assumption].
Qed.

Lemma mcp_book_reset I : mcp_wf I -> mcp_book I [] (mcp_reset I).
Proof.
  intros Hwf. constructor.
  - apply mcp_reset_ok. exact Hwf.
  - reflexivity.
  - cbn [mcp_reset m_weights]. apply (list_eq_nth 0); [rewrite map_length, seq_length; reflexivity|].
    intros j Hj. rewrite nth_map_seq by exact Hj. reflexivity.
Qed.

(* what the policy is shown after any sequence of selections the code accepts (mask-confined or not):
   weights  = original weight where the item is not yet covered by a selected set, 0 where it is;
   membership = original rows for unselected sets, zero rows for selected ones;
   and the final reward is the total original weight of the covered items. *)
Theorem mcp_bookkeeping I as_ s : mcp_wf I -> mcp_run_all I (mcp_reset I) as_ = Some s ->
  m_weights s = map (fun j => if coveredb (m_mem I) as_ j then 0 else nth j (m_w I) 0) (seq 0 (length (m_w I))) /\
  m_membership s = map (fun k => if memb k as_ then zero_row (nth k (m_mem I) []) else nth k (m_mem I) [])
                       (seq 0 (length (m_mem I))) /\
  (forall k, (k < length (m_mem I))%nat -> nth k (m_chosen s) false = memb k as_) /\
  mcp_reward I s =
    Some (sumZ (map (fun j => if coveredb (m_mem I) as_ j then nth j (m_w I) 0 else 0) (seq 0 (length (m_w I))))).
Proof.
  intros Hwf Hrun.
  destruct (mcp_book_run I Hwf as_ [] _ s (mcp_book_reset I Hwf) Hrun) as [[Hinv Hch Hwt] Hrng].
  simpl in Hch, Hwt. destruct Hinv as [Hlen [_ [Hmem Hw]]].
  assert (Hck : forall k, (k < length (m_mem I))%nat -> nth k (m_chosen s) false = memb k as_).
  { intros k Hk. rewrite Hch, nth_set_all, repeat_length, nth_repeat.
    replace (Nat.ltb k (length (m_mem I))) with true by (symmetry; apply Nat.ltb_lt; lia).
    simpl. apply andb_true_r. }
  split; [exact Hwt|]. split; [|split; [exact Hck|]].
  - rewrite Hmem. unfold scale_rows. apply map_seq_ext. intros k Hk.
    rewrite nth_map_negb by lia. rewrite (Hck k Hk). destruct (memb k as_); reflexivity.
  - unfold mcp_reward. rewrite mcp_cover_some by (apply mcp_wf_range; exact Hwf).
    f_equal. f_equal. apply map_seq_ext. intros j Hj.
    unfold covered_items. rewrite nth_map_seq by exact Hj.
    replace (existsb (fun x => x =? Z.of_nat (S j)) (nonzero_vals (scale_rows (m_chosen s) (m_mem I))))
      with (coveredb (m_mem I) as_ j).
    + destruct (coveredb (m_mem I) as_ j); lia.
    + apply Bool.eq_iff_eq_true. rewrite cover_char, coveredb_iff. unfold covered. split.
      * intros [a [Ha Hin]]. exists a. rewrite Forall_forall in Hrng. pose proof (Hrng a Ha) as Hlt.
        split; [exact Hlt|]. split; [|exact Hin]. rewrite (Hck a Hlt). apply memb_In. exact Ha.
      * intros [k [Hk [Hc Hin]]]. exists k. split; [|exact Hin]. rewrite (Hck k Hk) in Hc. apply memb_In. exact Hc.
Qed.

(* ------------------------------------------------------------------ non-vacuity / executable sanity *)
(* 4 sets over 6 items; sets 0 and 3 overlap in item 5; zero padding at the end and in the middle *)
Definition mcp_ex : mcp_inst :=
  {| m_mem := [[1; 5; 0]; [2; 0; 3]; [0; 0; 0]; [5; 6; 0]]; m_w := [10; 20; 30; 40; 50; 60]; m_q := 2 |}.
Example mcp_ex_wf : mcp_wf mcp_ex. Proof. reflexivity. Qed.
Example mcp_ex_run :
  option_map (fun s => (m_weights s, m_done s, m_mask s, m_membership s)) (mcp_run mcp_ex (mcp_reset mcp_ex) [0%nat; 3%nat])
  = Some ([0; 20; 30; 40; 0; 0], true, [false; true; true; false], [[0; 0; 0]; [2; 0; 3]; [0; 0; 0]; [0; 0; 0]]) /\
  option_map m_done (mcp_run mcp_ex (mcp_reset mcp_ex) [0%nat]) = Some false /\
  option_map (mcp_reward mcp_ex) (mcp_run mcp_ex (mcp_reset mcp_ex) [0%nat; 3%nat]) = Some (Some 120).
Proof. vm_compute. repeat split; reflexivity. Qed.

(* an item id above n_items makes the code raise: this is what mcp_wf excludes *)
Example mcp_out_of_range_raises :
  mcp_step {| m_mem := [[7]]; m_w := [1; 1]; m_q := 1 |} (mcp_reset {| m_mem := [[7]]; m_w := [1; 1]; m_q := 1 |}) 0 = None.
Proof. reflexivity. Qed.

(* ------------------------------------------------------------------ batches: per-row quotas *)
(* MCP in a lockstep batch (n_sets_to_choose has shape [B,1], so done is the B x B matrix of Selection.v).
   Row 0 (quota 1) next to row 1 (quota 3): row 0 must keep choosing until row 1 is finished and ends with
   3 sets; its reward is the coverage of 3 sets (60+... instead of the single set it was asked for). *)
Definition mcp_brun := brun mcp_inst mcp_st mcp_step m_mask m_i m_q.
Theorem mcp_batch_quota_refuted : exists Is steps ss m,
  Forall mcp_wf Is /\
  mcp_brun Is (map mcp_reset Is) (map (fun _ => [false]) Is) steps = Some (ss, m) /\ all_done m = true /\
  exists r I s, nth_error Is r = Some I /\ nth_error ss r = Some s /\
    Z.of_nat (count_true (m_chosen s)) <> m_q I /\
    exists s1, mcp_run I (mcp_reset I) (firstn 1 (map (fun acts => nth r acts 0%nat) steps)) = Some s1 /\
               m_done s1 = true /\ mcp_reward I s1 <> mcp_reward I s.
Proof.
  pose (I1 := {| m_mem := [[1; 5; 0]; [2; 0; 3]; [0; 0; 0]; [5; 6; 0]]; m_w := [10; 20; 30; 40; 50; 60]; m_q := 1 |}).
  pose (I3 := {| m_mem := [[1; 5; 0]; [2; 0; 3]; [0; 0; 0]; [5; 6; 0]]; m_w := [10; 20; 30; 40; 50; 60]; m_q := 3 |}).
  exists [I1; I3], [[0; 0]; [1; 1]; [3; 2]]%nat.
  eexists. eexists. split; [repeat constructor|].
  split; [vm_compute; reflexivity|]. split; [vm_compute; reflexivity|].
  exists 0%nat. eexists. eexists. split; [reflexivity|]. split; [reflexivity|].
  split; [vm_compute; discriminate|].
  eexists. split; [vm_compute; reflexivity|]. split; [reflexivity|]. vm_compute. discriminate.
Qed.
