(* ATSPEnv (rl4co/envs/routing/atsp/env.py), one batch row, bookkeeping variable by variable, plus the batched
   wrapper that contains the batch-global first-step test of _step (batch_to_scalar(td["i"])) literally.
   Nodes are 0..n-1 (no depot).  The cost matrix is asymmetric instance data (scaled integers). *)
From Coq Require Import ZArith List Bool Lia ZifyBool Arith.
From RL4CO Require Import Base.Num Base.EnvSig Base.SortNat Env.TourCore.
Import ListNotations.
Open Scope Z_scope.

Record atsp_inst := {
  agen_n : nat;             (* self.generator.num_loc: the size _reset gives to the mask *)
  acost : list (list Z);    (* td["cost_matrix"]: entry [a][b] = cost of travelling FROM a TO b *)
}.
Definition atsp_n (i : atsp_inst) : nat := agen_n i.
Definition atsp_d (i : atsp_inst) (a b : nat) : Z := mget (acost i) a b.

Record atsp_st := {
  afirst : nat;             (* td["first_node"] *)
  acur : nat;               (* td["current_node"] *)
  acnt : nat;               (* td["i"] *)
  aavail : list bool;       (* td["action_mask"]: True = not visited yet *)
  adn : bool;               (* td["done"] *)
}.

(* available = ones(batch, self.generator.num_loc) *)
Definition atsp_reset (i : atsp_inst) : atsp_st :=
  {| afirst := 0; acur := 0; acnt := 0; aavail := repeat true (agen_n i); adn := false |}.

(* _step with the outcome [g] of the first-step test given *)
Definition atsp_step_g (g : bool) (s : atsp_st) (a : nat) : atsp_st :=
  let available := clear a (aavail s) in
  {| afirst := if g then a else afirst s;
     acur := a;
     acnt := S (acnt s);
     aavail := available;
     adn := Nat.leb (countb available) 0 |}.       (* torch.count_nonzero(available, -1) <= 0 *)

(* row-wise reading of the first-step test: this row's own counter is 0 *)
Definition atsp_step (i : atsp_inst) (s : atsp_st) (a : nat) : atsp_st := atsp_step_g (Nat.eqb (acnt s) 0) s a.

(* scatter index must be inside the mask *)
Definition atsp_stepok (i : atsp_inst) (s : atsp_st) (a : nat) : bool := Nat.ltb a (length (aavail s)).

Definition atsp_mask (i : atsp_inst) (s : atsp_st) : list bool := aavail s.
Definition atsp_done (i : atsp_inst) (s : atsp_st) : bool := adn s.

Definition ATSP : Env := {|
  inst := atsp_inst; st := atsp_st;
  reset := atsp_reset; step := atsp_step; stepok := atsp_stepok; mask := atsp_mask; done := atsp_done |}.

(* ---------------------------------------------------------------- the batch as the code sees it *)
(* batch_to_scalar(td["i"]) == 0 : param[0].item() -- the counter of batch row 0 decides for every row
   (on an empty batch param[0] raises; the wrapper is only used on non-empty batches: [atsp_bstepok]) *)
Definition atsp_first_test (rows : list atsp_st) : bool :=
  match rows with [] => false | s0 :: _ => Nat.eqb (acnt s0) 0 end.
Definition atsp_bstepok (rows : list atsp_st) : bool := match rows with [] => false | _ :: _ => true end.

Definition atsp_bstep (rows : list atsp_st) (acts : list nat) : list atsp_st :=
  map (fun sa => atsp_step_g (atsp_first_test rows) (fst sa) (snd sa)) (combine rows acts).

(* ---------------------------------------------------------------- _get_reward *)
(* nodes_src = actions; nodes_tgt = roll(actions, -1); -cost_matrix[b, nodes_src, nodes_tgt].sum(-1):
   the cost is read at [current][next] *)
Definition atsp_reward (i : atsp_inst) (acts : list nat) : Z := - roll_sum (atsp_d i) acts.
(* advanced indexing raises on an index outside the matrix *)
Definition atsp_rewardok (i : atsp_inst) (acts : list nat) : bool :=
  forallb (fun a => Nat.ltb a (length (acost i))) acts.

(* ---------------------------------------------------------------- check_solution_validity *)
(* actions.size(1) == td["cost_matrix"].size(-1)  and  arange(actions.size(1)) == actions.sort(1)[0].
   (The length test was added by the fix 5d5f57a -- recorded as fixed in known_findings.json; before it a tour that
   omitted the highest-numbered nodes was accepted.) *)
Definition atsp_cols (i : atsp_inst) : nat := length (hd [] (acost i)).     (* cost_matrix.size(-1) *)
Definition atsp_checker (i : atsp_inst) (acts : list nat) : bool :=
  Nat.eqb (length acts) (atsp_cols i) && sorted_is_arange acts.
