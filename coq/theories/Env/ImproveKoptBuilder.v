(* C09 -- the sequential k-opt move builder (TSPkoptEnv._random_action / NeuOptPolicy.forward) only forms
   S-moves, for EVERY k_max >= 1 and EVERY n >= 3 (UNBOUNDED): loop invariant over the builder's steps.
   With ImproveKoptUnbounded.k_opt_smove_valid this gives the unbounded k-opt validity theorem. *)
From Coq Require Import ZArith List Bool Lia ZifyBool Arith Permutation.
From RL4CO Require Import Env.Improve Env.ImproveKopt Env.ImproveKoptUnbounded.
Import ListNotations.

(* ------------------------------------------------------------------ helpers *)

Ltac snth :=
  repeat first [ rewrite nth_set_nth_neq by lia
               | rewrite nth_set_nth_eq by (rewrite ?set_nth_length, ?repeat_length; lia) ].

Lemma nth_map_lt {A B} (f : A -> B) l d d' c : c < length l -> nth c (map f l) d = f (nth c l d').
Proof. intros H. rewrite (nth_indep _ d (f d')) by (rewrite map_length; exact H). apply map_nth. Qed.

Lemma map2_length {A B C} (f : A -> B -> C) : forall l m, length l = length m -> length (map2 f l m) = length l.
Proof. induction l as [|x l IH]; intros [|y m] H; simpl in *; try lia. rewrite IH; lia. Qed.

Lemma nth_map2 {A B C} (f : A -> B -> C) d d1 d2 : forall l m c, c < length l -> c < length m ->
  nth c (map2 f l m) d = f (nth c l d1) (nth c m d2).
Proof.
  induction l as [|x l IH]; intros [|y m] c Hl Hm; simpl in *; try lia.
  destruct c as [|c]; [reflexivity|]. apply IH; lia.
Qed.

Lemma mod_eq (a n r : Z) : (0 <= r < n)%Z -> (exists q, a = n * q + r)%Z -> (a mod n = r)%Z.
Proof. intros Hr [q E]. symmetry. apply (Z.mod_unique_pos a n q r); assumption. Qed.

(* links of an S-move in "snoc" form: pairs = links ++ [(lasthead, z)] *)
Fixpoint links (x : nat) (Ss : list (list nat)) : list (nat * nat) :=
  match Ss with [] => [] | Sg :: Ss' => (x, last Sg 0) :: links (hd 0 Sg) Ss' end.
Fixpoint lasthead (x : nat) (Ss : list (list nat)) : nat :=
  match Ss with [] => x | Sg :: Ss' => lasthead (hd 0 Sg) Ss' end.

Lemma pairs_links Ss : forall x z, pairs x Ss z = links x Ss ++ [(lasthead x Ss, z)].
Proof. induction Ss as [|Sg Ss IH]; intros x z; [reflexivity|]. cbn [pairs links lasthead app]. rewrite IH. reflexivity. Qed.

Lemma links_length Ss : forall x, length (links x Ss) = length Ss.
Proof. induction Ss as [|Sg Ss IH]; intros x; [reflexivity|]. cbn [links length]. rewrite IH. reflexivity. Qed.

Lemma links_snoc Ss Sg : forall x, links x (Ss ++ [Sg]) = links x Ss ++ [(lasthead x Ss, last Sg 0)].
Proof. induction Ss as [|S1 Ss IH]; intros x; [reflexivity|]. cbn [links lasthead app]. rewrite IH. reflexivity. Qed.

Lemma lasthead_snoc Ss Sg : forall x, lasthead x (Ss ++ [Sg]) = hd 0 Sg.
Proof. induction Ss as [|S1 Ss IH]; intros x; [reflexivity|]. cbn [lasthead app]. apply IH. Qed.

Lemma heads_snoc Ss Sg : heads (Ss ++ [Sg]) = heads Ss ++ [hd 0 Sg].
Proof. unfold heads. rewrite map_app. reflexivity. Qed.

Lemma in_combine_nth (l1 l2 : list nat) k p : length l1 = k -> length l2 = k ->
  (In p (combine l1 l2) <-> exists j, j < k /\ p = (nth j l1 0, nth j l2 0)).
Proof.
  intros H1 H2. split.
  - intros Hin. apply (In_nth _ _ (0, 0)) in Hin as [j [Hj E]]. rewrite combine_length, H1, H2, Nat.min_id in Hj.
    exists j. split; [exact Hj|]. rewrite combine_nth in E by lia. symmetry. exact E.
  - intros [j [Hj ->]]. rewrite <- combine_nth by lia. apply nth_In. rewrite combine_length. lia.
Qed.

Lemma action_parts (a b c : list nat) k : length a = k -> length b = k ->
  firstn k (a ++ b ++ c) = a /\ firstn k (skipn k (a ++ b ++ c)) = b /\ skipn (2 * k) (a ++ b ++ c) = c.
Proof.
  intros Ha Hb.
  assert (E1 : firstn k (a ++ b ++ c) = a).
  { rewrite firstn_app, Ha, Nat.sub_diag. cbn [firstn]. rewrite app_nil_r. rewrite <- Ha. apply firstn_all. }
  assert (E2 : skipn k (a ++ b ++ c) = b ++ c).
  { rewrite skipn_app, Ha, Nat.sub_diag. cbn [skipn]. rewrite <- Ha, skipn_all. reflexivity. }
  split; [exact E1|]. split.
  - rewrite E2. rewrite firstn_app, Hb, Nat.sub_diag. cbn [firstn]. rewrite app_nil_r. rewrite <- Hb. apply firstn_all.
  - rewrite app_assoc. assert (Hl : length (a ++ b) = 2 * k) by (rewrite app_length; lia).
    rewrite skipn_app, Hl, Nat.sub_diag. cbn [skipn]. rewrite <- Hl, skipn_all. reflexivity.
Qed.

Lemma index_after P c R2 c' : NoDup ((P ++ [c]) ++ R2) -> In c' ((P ++ [c]) ++ R2) ->
  (index_of c ((P ++ [c]) ++ R2) < index_of c' ((P ++ [c]) ++ R2) <-> In c' R2).
Proof.
  intros Hnd Hin. apply NoDup_app_iff in Hnd as [Hnd1 [_ Hd]].
  assert (HcP : ~ In c P).
  { apply NoDup_app_iff in Hnd1 as [_ [_ Hd1]]. intros Hi. apply (Hd1 c Hi). left. reflexivity. }
  assert (Ec : index_of c ((P ++ [c]) ++ R2) = length P).
  { rewrite index_of_app_in by (apply in_or_app; right; left; reflexivity).
    rewrite index_of_app_notin by exact HcP. cbn [index_of]. rewrite Nat.eqb_refl. lia. }
  rewrite Ec. split.
  - intros Hlt. apply in_app_or in Hin as [Hin|Hin]; [|exact Hin].
    rewrite index_of_app_in in Hlt by exact Hin. apply index_of_lt in Hin. rewrite app_length in Hin. simpl in Hin. lia.
  - intros Hi. rewrite index_of_app_notin by (intros Hp; exact (Hd c' Hp Hi)). rewrite app_length. simpl. lia.
Qed.

Lemma next_in_chain rec P c R2 a0 : chain rec (P ++ c :: R2 ++ [a0]) -> nxt rec c = hd a0 R2.
Proof.
  intros H. apply chain_app_r in H. destruct R2 as [|r R2]; cbn [app hd] in *; apply chain_cons2 in H; apply H.
Qed.

(* visited_time_tag of the builder = position in the cycle seen from the first selected node *)
Lemma vtt_pos rec a0 A B v : is_tour rec -> walk rec 0 (length rec) = A ++ a0 :: B -> v < length rec ->
  Z.to_nat ((Z.of_nat (nth v (visited_time rec) 0) - Z.of_nat (nth a0 (visited_time rec) 0))
            mod Z.of_nat (length rec)) = index_of v (a0 :: B ++ A).
Proof.
  intros Ht EW Hv. destruct (is_tour_cyc _ Ht) as [[Hnd _] Hf].
  set (n := length rec) in *.
  assert (Ha0 : a0 < n) by (apply Hf; rewrite EW; apply in_or_app; right; left; reflexivity).
  rewrite !visited_time_tour by assumption. fold n.
  assert (Hlen : n = length A + S (length B)).
  { rewrite <- (walk_length rec 0 n), EW, app_length. reflexivity. }
  assert (H0 : index_of 0 (walk rec 0 n) = 0).
  { destruct n as [|n']; [lia|]. cbn [walk index_of]. rewrite Nat.eqb_refl. reflexivity. }
  rewrite EW in Hnd, H0. pose proof Hnd as Hnd0.
  apply NoDup_app_iff in Hnd as [HndA [HndB Hd]]. apply NoDup_cons_iff in HndB as [HaB HndB].
  assert (HaA : ~ In a0 A) by (intros Hi; apply (Hd a0 Hi); left; reflexivity).
  assert (Eia : index_of a0 (A ++ a0 :: B) = length A).
  { rewrite index_of_app_notin by exact HaA. cbn [index_of]. rewrite Nat.eqb_refl. lia. }
  assert (Hvin : In v (A ++ a0 :: B)) by (rewrite <- EW; apply Hf; exact Hv).
  rewrite EW.
  assert (Hcase : exists t, index_of v (a0 :: B ++ A) = t /\ t < n /\
            ((index_of v (A ++ a0 :: B) = t + length A) \/ (index_of v (A ++ a0 :: B) + n = t + length A))).
  { apply in_app_or in Hvin as [HvA|[<-|HvB]].
    - assert (Hne : a0 <> v) by (intros ->; contradiction).
      assert (HvB : ~ In v B) by (intros Hi; apply (Hd v HvA); right; exact Hi).
      exists (S (length B + index_of v A)). cbn [index_of].
      destruct (Nat.eqb a0 v) eqn:E; [apply Nat.eqb_eq in E; contradiction|].
      rewrite index_of_app_notin by exact HvB. rewrite index_of_app_in by exact HvA.
      pose proof (index_of_lt v A HvA). split; [reflexivity|]. split; [lia|right; lia].
    - exists 0. cbn [index_of]. rewrite Nat.eqb_refl. split; [reflexivity|]. split; [lia|left; lia].
    - assert (Hne : a0 <> v) by (intros ->; contradiction).
      assert (HvA : ~ In v A) by (intros Hi; apply (Hd v Hi); right; exact HvB).
      exists (S (index_of v B)).
      rewrite index_of_app_notin by exact HvA. cbn [index_of].
      destruct (Nat.eqb a0 v) eqn:E; [apply Nat.eqb_eq in E; contradiction|].
      rewrite index_of_app_in by exact HvB.
      pose proof (index_of_lt v B HvB). split; [reflexivity|]. split; [lia|left; lia]. }
  destruct Hcase as [t [-> [Htn Hc]]].
  assert (Hmod : ((Z.of_nat (if Nat.eqb v 0 then n else index_of v (A ++ a0 :: B)) -
                   Z.of_nat (if Nat.eqb a0 0 then n else index_of a0 (A ++ a0 :: B))) mod Z.of_nat n = Z.of_nat t)%Z).
  { apply mod_eq; [lia|].
    destruct (Nat.eqb v 0) eqn:E1; destruct (Nat.eqb a0 0) eqn:E2;
      try (apply Nat.eqb_eq in E1; subst v); try (apply Nat.eqb_eq in E2; subst a0);
      destruct Hc as [Hc|Hc];
      first [exists 0%Z; lia | exists 1%Z; lia | exists (-1)%Z; lia | exists (-2)%Z; lia | exists 2%Z; lia]. }
  rewrite Hmod. apply Nat2Z.id.
Qed.

(* ------------------------------------------------------------------ the builder's loop invariant *)

Section Builder.
  Variables (rec : list nat) (k : nat).
  Let n := length rec.
  Let vt := visited_time rec.
  Hypothesis Ht : is_tour rec.
  Hypothesis Hn : 3 <= n.

  (* (a0, Ss, R): the cycle seen from the first selected node a0 is a0 :: S1 ++ ... ++ Sm ++ R *)
  Record Common (st : kb) (a0 : nat) (Ss : list (list nat)) (R : list nat) : Prop := {
    c_ne : Forall (fun Sg : list nat => Sg <> []) Ss;
    c_cyc : cyc rec (a0 :: concat Ss ++ R);
    c_full : full n (a0 :: concat Ss ++ R);
    c_lai : length (action_index st) = k;
    c_ll : length (k_left st) = k + 1;
    c_lr : length (k_right st) = k;
    c_l0 : nth 0 (k_left st) 0 = a0;
    c_a0 : nth 0 (action_index st) 0 = a0 }.

  (* after i >= 1 steps, the row has not stopped: i - 1 closed segments, the next node must come from R *)
  Record Active (i : nat) (st : kb) (a0 : nat) (Ss : list (list nat)) (R : list nat) : Prop := {
    a_c : Common st a0 Ss R;
    a_i : length Ss = i - 1 /\ 1 <= i;
    a_st : stopped st = false;
    a_nola : nola st = Some (hd a0 R);
    a_lv : length (vtt st) = n;
    a_vtt : forall c, c < n -> nth c (vtt st) 0 = index_of c (a0 :: concat Ss ++ R);
    a_lm : length (kmask st) = n;
    a_mask : forall c, c < n -> nth c (kmask st) true = false -> In c R \/ (c = a0 /\ R = []);
    a_wit : nth (hd a0 R) (kmask st) true = false;
    a_links : forall j, j < i - 1 -> (nth j (k_left st) 0, nth j (k_right st) 0) = nth j (links a0 Ss) (0, 0);
    a_lh : nth (i - 1) (k_left st) 0 = lasthead a0 Ss;
    a_z : nth i (k_left st) 0 = hd a0 R;
    a_rn : forall j, j < i -> In (nxt rec (nth j (action_index st) 0)) (hd a0 R :: heads Ss);
    a_cov : forall v, In v (hd a0 R :: heads Ss) -> exists j, j < i /\ nxt rec (nth j (action_index st) 0) = v }.

  (* after i steps, stopped: the first i (left, right) entries are exactly the links of the S-move (with repeats) *)
  Record Stopped (i : nat) (st : kb) (a0 : nat) (Ss : list (list nat)) (R : list nat) : Prop := {
    s_c : Common st a0 Ss R;
    s_i : 1 <= i;
    s_st : stopped st = true;
    s_in : forall j, j < i -> In (nth j (k_left st) 0, nth j (k_right st) 0) (pairs a0 Ss (hd a0 R));
    s_cov : forall p, In p (pairs a0 Ss (hd a0 R)) ->
            exists j, j < i /\ p = (nth j (k_left st) 0, nth j (k_right st) 0);
    s_rn : forall j, j < i -> ~ In (nxt rec (nth j (action_index st) 0)) (RV Ss);
    s_rcov : forall v, In v (hd a0 R :: heads Ss) -> exists j, j < i /\ nxt rec (nth j (action_index st) 0) = v }.

  (* facts about a decomposition *)
  Lemma dec_facts a0 Ss R :
    Forall (fun Sg : list nat => Sg <> []) Ss -> cyc rec (a0 :: concat Ss ++ R) -> full n (a0 :: concat Ss ++ R) ->
    hd a0 R < n /\ a0 < n /\ ~ In (hd a0 R) (RV Ss) /\ (forall v, In v (heads Ss) -> ~ In v (RV Ss)) /\
    ~ In (nxt rec a0) (RV Ss) /\ ~ In (nxt rec (hd a0 R)) (RV Ss).
  Proof.
    intros Hne Hcyc Hfull.
    destruct (sm_disj rec a0 Ss R Hne Hcyc) as [_ [HaRV [_ [HrH [HrR _]]]]].
    assert (Hz : In (hd a0 R) (a0 :: concat Ss ++ R)).
    { destruct R as [|r R']; [left; reflexivity|right; apply in_or_app; right; left; reflexivity]. }
    assert (HzRV : ~ In (hd a0 R) (RV Ss)).
    { destruct R as [|r R']; [exact HaRV|]. intros Hi. apply (HrR r Hi). left. reflexivity. }
    split; [apply Hfull; exact Hz|]. split; [apply Hfull; left; reflexivity|]. split; [exact HzRV|].
    split; [intros v Hv Hi; exact (HrH v Hi Hv)|].
    destruct Hcyc as [_ Hch]. cbn [hd app] in Hch.
    assert (Ha : ~ In (nxt rec a0) (RV Ss)).
    { destruct Ss as [|S1 Ss'].
      - cbn [concat app] in Hch. rewrite (next_in_chain rec [] a0 R a0 Hch). exact HzRV.
      - inversion Hne as [|? ? H1 _]; subst. destruct S1 as [|h t]; [congruence|].
        cbn [concat app] in Hch. apply chain_cons2 in Hch as [E _]. rewrite E.
        intros Hi. apply (HrH h Hi). left. reflexivity. }
    split; [exact Ha|].
    destruct R as [|r R']; [exact Ha|]. cbn [hd].
    rewrite <- app_assoc in Hch. change (a0 :: concat Ss ++ (r :: R') ++ [a0]) with ((a0 :: concat Ss) ++ r :: R' ++ [a0]) in Hch.
    rewrite (next_in_chain rec _ r R' a0 Hch).
    destruct R' as [|r' R'']; [exact HaRV|]. intros Hi. apply (HrR r' Hi). right. left. reflexivity.
  Qed.

  Lemma step_active i st c a0 Ss R : i < k -> Active i st a0 Ss R -> kb_allows n i st c = true ->
    (exists Ss' R', Active (S i) (kb_step rec vt n i st c) a0 Ss' R') \/
    Stopped (S i) (kb_step rec vt n i st c) a0 Ss R.
  Proof.
    intros Hik [[Hne Hcyc Hfull Hlai Hll Hlr Hl0 Hai0] [HlS Hi1] Hst Hnola Hlv Hvtt Hlm Hmask Hwit Hlinks Hlh Hz Hrn Hcov] Hal.
    destruct (dec_facts a0 Ss R Hne Hcyc Hfull) as [Hzn [Ha0n [HzRV [HhRV [Hna0 Hnz]]]]].
    set (z := hd a0 R) in *.
    (* the draw is an unmasked node *)
    unfold kb_allows in Hal. rewrite Hst, andb_false_r, orb_false_l in Hal.
    apply andb_prop in Hal as [Hcn Hor]. apply Nat.ltb_lt in Hcn.
    assert (Hfa : forallb (fun b : bool => b) (kmask st) = false).
    { destruct (forallb (fun b : bool => b) (kmask st)) eqn:Efa; [|reflexivity].
      rewrite forallb_forall in Efa.
      assert (Hi : In (nth z (kmask st) true) (kmask st)) by (apply nth_In; rewrite Hlm; exact Hzn).
      apply Efa in Hi. rewrite Hwit in Hi. discriminate. }
    rewrite Hfa, orb_false_r in Hor. apply negb_true_iff in Hor.
    pose proof (Hmask c Hcn Hor) as Hc.
    assert (Hi0 : Nat.ltb 0 i = true) by (apply Nat.ltb_lt; lia).
    assert (Hi0' : Nat.eqb i 0 = false) by (apply Nat.eqb_neq; lia).
    unfold kb_step, kb_action. rewrite Hst, Hnola, Hi0, Hi0'. cbn [opt_eqb andb orb negb]. fold z.
    destruct (Nat.eqb z c) eqn:Ezc.
    - (* the draw closes the move *)
      apply Nat.eqb_eq in Ezc. subst c. right. cbn [negb andb].
      constructor; cbn [action_index k_left k_right nola kmask stopped vtt].
      + constructor; cbn [action_index k_left k_right nola kmask stopped vtt];
          rewrite ?set_nth_length; try assumption; snth; assumption.
      + lia.
      + reflexivity.
      + intros j Hj. rewrite pairs_links. apply in_or_app.
        destruct (Nat.eq_dec j i) as [->|Hji]; [|destruct (Nat.eq_dec j (i - 1)) as [->|Hji1]].
        * right. left. snth. rewrite Hlh. reflexivity.
        * right. left. snth. rewrite Hlh. reflexivity.
        * left. snth. rewrite Hlinks by lia. apply nth_In. rewrite links_length. lia.
      + intros p Hp. rewrite pairs_links in Hp. apply in_app_or in Hp as [Hp|[<-|[]]].
        * apply (In_nth _ _ (0, 0)) in Hp as [j [Hj E]]. rewrite links_length in Hj.
          exists j. split; [lia|]. snth. rewrite Hlinks by lia. symmetry. exact E.
        * exists (i - 1). split; [lia|]. snth. rewrite Hlh. reflexivity.
      + intros j Hj. destruct (Nat.eq_dec j i) as [->|Hji].
        * snth. exact Hnz.
        * snth. specialize (Hrn j ltac:(lia)). destruct Hrn as [<-|Hh]; [exact HzRV|apply HhRV; exact Hh].
      + intros v Hv. destruct (Hcov v Hv) as [j [Hj E]]. exists j. split; [lia|]. snth. exact E.
    - (* the draw closes a new segment X ++ [c] *)
      apply Nat.eqb_neq in Ezc. left. cbn [negb andb].
      assert (HcR : In c R).
      { destruct Hc as [Hc|[-> ->]]; [exact Hc|]. exfalso. apply Ezc. reflexivity. }
      apply in_split in HcR as [X [R2 ER]].
      assert (HX : X <> []) by (intros ->; apply Ezc; unfold z; rewrite ER; reflexivity).
      exists (Ss ++ [X ++ [c]]), R2.
      assert (EC : a0 :: concat (Ss ++ [X ++ [c]]) ++ R2 = a0 :: concat Ss ++ R).
      { rewrite concat_app. cbn [concat]. rewrite app_nil_r, ER, <- !app_assoc. reflexivity. }
      assert (Enc : nxt rec c = hd a0 R2).
      { destruct Hcyc as [_ Hch]. cbn [hd app] in Hch. rewrite ER, <- !app_assoc in Hch. cbn [app] in Hch.
        rewrite app_comm_cons, app_assoc in Hch. exact (next_in_chain rec _ c R2 a0 Hch). }
      assert (EzX : z = hd 0 (X ++ [c])).
      { unfold z. rewrite ER. destruct X as [|x X']; [congruence|reflexivity]. }
      pose proof (proj1 Hcyc) as HndC.
      assert (Esplit : a0 :: concat Ss ++ R = ((a0 :: concat Ss ++ X) ++ [c]) ++ R2).
      { rewrite ER. cbn [app]. rewrite <- !app_assoc. reflexivity. }
      assert (Hafter : forall c', c' < n -> (nth c (vtt st) 0 < nth c' (vtt st) 0 <-> In c' R2)).
      { intros c' Hc'. rewrite !Hvtt by assumption. rewrite Esplit. apply index_after.
        - rewrite <- Esplit. exact HndC.
        - rewrite <- Esplit. apply Hfull. exact Hc'. }
      assert (Ha0R2 : ~ In a0 R2).
      { intros Hi. apply NoDup_cons_iff in HndC as [Hh _]. apply Hh. apply in_or_app. right. rewrite ER.
        apply in_or_app. right. right. exact Hi. }
      assert (Hm1 : forall c', c' < n ->
                nth c' (map (fun t : nat => Nat.leb t (nth c (vtt st) 0)) (vtt st)) true = false -> In c' R2).
      { intros c' Hc' E. rewrite (nth_map_lt _ _ true 0) in E by (rewrite Hlv; exact Hc').
        apply Hafter; [exact Hc'|]. apply Nat.leb_gt in E. exact E. }
      constructor; cbn [action_index k_left k_right nola kmask stopped vtt].
      + constructor; cbn [action_index k_left k_right nola kmask stopped vtt];
          rewrite ?set_nth_length; try assumption; try (snth; assumption).
        * apply Forall_app. split; [exact Hne|]. constructor; [|constructor]. destruct X; discriminate.
        * rewrite EC. exact Hcyc.
        * rewrite EC. exact Hfull.
      + rewrite app_length. simpl. lia.
      + reflexivity.
      + rewrite Enc. reflexivity.
      + exact Hlv.
      + intros c' Hc'. rewrite EC. apply Hvtt. exact Hc'.
      + destruct (Nat.eqb (nxt rec c) (nth 0 (set_nth i c (action_index st)) 0)); rewrite ?set_nth_length, map_length; exact Hlv.
      + intros c' Hc'. snth. rewrite Hai0.
        destruct (Nat.eqb (nxt rec c) a0) eqn:Ena.
        * apply Nat.eqb_eq in Ena. rewrite Enc in Ena.
          assert (ER2 : R2 = []).
          { destruct R2 as [|r R2']; [reflexivity|]. cbn [hd] in Ena. subst r. exfalso. apply Ha0R2. left. reflexivity. }
          destruct (Nat.eq_dec c' a0) as [->|Hne']; [intros _; right; split; [reflexivity|exact ER2]|].
          snth. intros E. left. apply Hm1; assumption.
        * intros E. left. apply Hm1; assumption.
      + snth. rewrite Hai0, Enc.
        destruct R2 as [|r R2']; cbn [hd].
        * rewrite Nat.eqb_refl. apply nth_set_nth_eq. rewrite map_length, Hlv. exact Ha0n.
        * assert (Hrn' : r < n) by (apply Hfull; rewrite Esplit; apply in_or_app; right; left; reflexivity).
          assert (Hra : Nat.eqb r a0 = false) by (apply Nat.eqb_neq; intros ->; apply Ha0R2; left; reflexivity).
          rewrite Hra. rewrite (nth_map_lt _ _ true 0) by (rewrite Hlv; exact Hrn').
          apply Nat.leb_gt. apply Hafter; [exact Hrn'|left; reflexivity].
      + intros j Hj. rewrite links_snoc. replace (S i - 1) with i in Hj by lia.
        destruct (Nat.eq_dec j (i - 1)) as [->|Hji].
        * rewrite app_nth2 by (rewrite links_length; lia). rewrite links_length, HlS, Nat.sub_diag. cbn [nth].
          snth. rewrite Hlh, last_last. reflexivity.
        * rewrite app_nth1 by (rewrite links_length; lia). snth. apply Hlinks. lia.
      + replace (S i - 1) with i by lia. snth. rewrite Hz, lasthead_snoc. exact EzX.
      + replace (i + 1) with (S i) by lia. snth. exact Enc.
      + intros j Hj. rewrite heads_snoc, <- EzX.
        destruct (Nat.eq_dec j i) as [->|Hji].
        * snth. left. symmetry. exact Enc.
        * snth. right. specialize (Hrn j ltac:(lia)). destruct Hrn as [<-|Hh]; apply in_or_app; [right; left; reflexivity|left; exact Hh].
      + intros v Hv. rewrite heads_snoc, <- EzX in Hv.
        assert (Hv' : v = hd a0 R2 \/ In v (z :: heads Ss)).
        { destruct Hv as [<-|Hv]; [left; reflexivity|]. right. apply in_app_or in Hv as [Hv|[<-|[]]]; [right; exact Hv|left; reflexivity]. }
        destruct Hv' as [->|Hv'].
        * exists i. split; [lia|]. snth. exact Enc.
        * destruct (Hcov v Hv') as [j [Hj E]]. exists j. split; [lia|]. snth. exact E.
  Qed.

  Lemma step_stopped i st c a0 Ss R : i < k -> Stopped i st a0 Ss R ->
    Stopped (S i) (kb_step rec vt n i st c) a0 Ss R.
  Proof.
    intros Hik [[Hne Hcyc Hfull Hlai Hll Hlr Hl0 Hai0] Hi1 Hst Hin Hcov Hrn Hrcov].
    destruct (dec_facts a0 Ss R Hne Hcyc Hfull) as [Hzn [Ha0n [HzRV [HhRV [Hna0 Hnz]]]]].
    assert (Hi0 : Nat.ltb 0 i = true) by (apply Nat.ltb_lt; lia).
    assert (Hi0' : Nat.eqb i 0 = false) by (apply Nat.eqb_neq; lia).
    unfold kb_step, kb_action. rewrite Hst, Hi0, Hi0', Hai0. cbn [andb orb negb].
    constructor; cbn [action_index k_left k_right nola kmask stopped vtt].
    - constructor; cbn [action_index k_left k_right nola kmask stopped vtt];
        rewrite ?set_nth_length; try assumption; snth; assumption.
    - lia.
    - reflexivity.
    - intros j Hj. destruct (Nat.eq_dec j i) as [->|Hji].
      + snth. apply Hin. lia.
      + snth. apply Hin. lia.
    - intros p Hp. destruct (Hcov p Hp) as [j [Hj E]]. exists j. split; [lia|]. snth. exact E.
    - intros j Hj. destruct (Nat.eq_dec j i) as [->|Hji].
      + snth. exact Hna0.
      + snth. apply Hrn. lia.
    - intros v Hv. destruct (Hrcov v Hv) as [j [Hj E]]. exists j. split; [lia|]. snth. exact E.
  Qed.

  Lemma nxt_not_self c C : cyc rec C -> 3 <= length C -> In c C -> nxt rec c <> c.
  Proof.
    intros Hc Hl Hi E. apply (cyc_no_2cycle rec C c Hc Hl Hi). rewrite E. exact E.
  Qed.

  Lemma step0 c : 1 <= k -> kb_allows n 0 (kb_init k n) c = true ->
    exists R, Active 1 (kb_step rec vt n 0 (kb_init k n) c) c [] R.
  Proof.
    intros Hk Hal. unfold kb_allows in Hal. apply andb_prop in Hal as [Hcn _]. apply Nat.ltb_lt in Hcn.
    destruct (is_tour_cyc _ Ht) as [Hc Hf]. fold n in Hc, Hf.
    assert (HcW : In c (walk rec 0 n)) by (apply Hf; exact Hcn).
    apply in_split in HcW as [A [B EW]].
    exists (B ++ A).
    assert (Hcyc : cyc rec (c :: B ++ A)).
    { rewrite EW in Hc. apply cyc_rot in Hc. exact Hc. }
    assert (Hfull : full n (c :: B ++ A)).
    { eapply full_perm; [|exact Hf]. rewrite EW. change (c :: B ++ A) with ((c :: B) ++ A). apply Permutation_app_comm. }
    assert (HlC : length (c :: B ++ A) = n) by (apply full_NoDup_length; [exact (proj1 Hcyc)|exact Hfull]).
    assert (Hlvt : length vt = n) by (unfold vt; apply visited_time_length).
    set (vtt' := map (fun t : nat => Z.to_nat ((Z.of_nat t - Z.of_nat (nth c vt 0)) mod Z.of_nat n)) vt).
    assert (Hlv : length vtt' = n) by (unfold vtt'; rewrite map_length; exact Hlvt).
    assert (Hpos : forall c', c' < n -> nth c' vtt' 0 = index_of c' (c :: B ++ A)).
    { intros c' Hc'. unfold vtt'. rewrite (nth_map_lt _ _ 0 0) by (rewrite Hlvt; exact Hc').
      unfold vt, n. apply vtt_pos; [exact Ht|exact EW|exact Hc']. }
    assert (Hpc : nth c vtt' 0 = 0) by (rewrite Hpos by exact Hcn; cbn [index_of]; rewrite Nat.eqb_refl; reflexivity).
    destruct (B ++ A) as [|r R'] eqn:ER; [simpl in HlC; lia|].
    assert (Hnc : nxt rec c = r).
    { destruct Hcyc as [_ Hch]. cbn [hd app] in Hch. apply chain_cons2 in Hch. apply Hch. }
    assert (Hrc : r <> c).
    { intros ->. destruct Hcyc as [Hnd _]. apply NoDup_cons_iff in Hnd as [Hh _]. apply Hh. left. reflexivity. }
    assert (Hrn' : r < n) by (apply Hfull; right; left; reflexivity).
    assert (Hpr : nth r vtt' 0 = 1).
    { rewrite Hpos by exact Hrn'. cbn [index_of]. destruct (Nat.eqb c r) eqn:E; [apply Nat.eqb_eq in E; congruence|].
      rewrite Nat.eqb_refl. reflexivity. }
    unfold kb_step, kb_action, kb_init.
    cbn [action_index k_left k_right nola kmask stopped vtt Nat.ltb Nat.leb Nat.eqb andb orb negb opt_eqb Nat.add Nat.sub].
    fold vtt'. rewrite Hpc.
    assert (E0 : nth 0 (set_nth 0 c (repeat 0 k)) 0 = c) by (snth; reflexivity).
    rewrite E0, Hnc.
    destruct (Nat.eqb r c) eqn:Erc; [apply Nat.eqb_eq in Erc; contradiction|].
    set (m1 := map2 orb (map (fun t : nat => Nat.leb t 0) vtt') (map (fun t : nat => Nat.ltb (n - 2) t) vtt')).
    assert (Hm1 : forall c', c' < n -> nth c' m1 true = (Nat.leb (nth c' vtt' 0) 0 || Nat.ltb (n - 2) (nth c' vtt' 0))).
    { intros c' Hc'. unfold m1. rewrite (nth_map2 orb true true true) by (rewrite map_length, Hlv; exact Hc').
      rewrite !(nth_map_lt _ _ true 0) by (rewrite Hlv; exact Hc'). reflexivity. }
    constructor; cbn [action_index k_left k_right nola kmask stopped vtt hd concat app heads map].
    - constructor; cbn [action_index k_left k_right nola kmask stopped vtt concat app];
        rewrite ?set_nth_length, ?repeat_length; try reflexivity; try assumption; try (snth; reflexivity).
      constructor.
    - simpl. lia.
    - reflexivity.
    - reflexivity.
    - exact Hlv.
    - exact Hpos.
    - unfold m1. rewrite map2_length; rewrite !map_length; [exact Hlv|reflexivity].
    - intros c' Hc' E. left. rewrite Hm1 in E by exact Hc'. apply orb_false_elim in E as [E _].
      apply Nat.leb_gt in E. rewrite Hpos in E by exact Hc'.
      assert (Hi : In c' (c :: r :: R')) by (apply Hfull; exact Hc').
      destruct Hi as [<-|Hi]; [|exact Hi]. cbn [index_of] in E. rewrite Nat.eqb_refl in E. lia.
    - rewrite Hm1 by exact Hrn'. rewrite Hpr. apply orb_false_intro; [reflexivity|]. apply Nat.ltb_ge. lia.
    - intros j Hj. lia.
    - snth. reflexivity.
    - snth. reflexivity.
    - intros j Hj. assert (j = 0) by lia. subst j. rewrite E0, Hnc. left. reflexivity.
    - intros v [<-|[]]. exists 0. split; [lia|]. rewrite E0. exact Hnc.
  Qed.

  Definition Inv (i : nat) (st : kb) : Prop :=
    exists a0 Ss R, Active i st a0 Ss R \/ Stopped i st a0 Ss R.

  Lemma loop_inv : forall cs i st st', 1 <= i -> i + length cs = k -> Inv i st ->
    kb_loop rec vt n i cs st = Some st' -> Inv k st'.
  Proof.
    induction cs as [|c cs IH]; intros i st st' Hi Hl HI Hk.
    - simpl in Hl. rewrite Nat.add_0_r in Hl. subst i. simpl in Hk. inversion Hk; subst. exact HI.
    - cbn [kb_loop] in Hk. destruct (kb_allows n i st c) eqn:Hal; [|discriminate].
      simpl in Hl. apply (IH (S i) (kb_step rec vt n i st c) st'); [lia|lia| |exact Hk].
      destruct HI as [a0 [Ss [R [HA|HS]]]].
      + destruct (step_active i st c a0 Ss R ltac:(lia) HA Hal) as [[Ss' [R' HA']]|HS'].
        * exists a0, Ss', R'. left. exact HA'.
        * exists a0, Ss, R. right. exact HS'.
      + exists a0, Ss, R. right. apply step_stopped; [lia|exact HS].
  Qed.

  Lemma nth_firstn_lt {A} (l : list A) d : forall m j, j < m -> nth j (firstn m l) d = nth j l d.
  Proof.
    induction l as [|x l IH]; intros m j Hj; [rewrite firstn_nil; reflexivity|].
    destruct m as [|m]; [lia|]. destruct j as [|j]; [reflexivity|]. cbn [firstn nth]. apply IH. lia.
  Qed.

  Lemma finish_smove st : 1 <= k -> Inv k st -> smove_form k rec (kb_finish k st).
  Proof.
    intros Hk [a0 [Ss [R HI]]]. exists a0, Ss, R.
    assert (HC : Common st a0 Ss R) by (destruct HI as [H|H]; apply H).
    destruct HC as [Hne Hcyc Hfull Hlai Hll Hlr Hl0 Hai0].
    destruct (dec_facts a0 Ss R Hne Hcyc Hfull) as [Hzn [Ha0n [HzRV [HhRV [Hna0 Hnz]]]]].
    set (right' := if stopped st then k_right st else set_nth (k - 1) (nth k (k_left st) 0) (k_right st)).
    assert (Hlr' : length right' = k) by (unfold right'; destruct (stopped st); rewrite ?set_nth_length; exact Hlr).
    assert (Hlf : length (firstn k (k_left st)) = k) by (rewrite firstn_length; lia).
    unfold kb_finish. fold right'.
    destruct (action_parts (action_index st) (firstn k (k_left st)) right' k Hlai Hlf) as [E1 [E2 E3]].
    unfold smove_of. fold n. rewrite E1, E2, E3.
    assert (Hhd : hd 0 (firstn k (k_left st)) = a0).
    { rewrite <- Hl0. destruct (k_left st) as [|x l]; [simpl in Hll; lia|]. destruct k; [lia|reflexivity]. }
    assert (Hmap : forall v, In v (map (nxt rec) (action_index st)) <->
                             exists j, j < k /\ nxt rec (nth j (action_index st) 0) = v).
    { intros v. rewrite in_map_iff. split.
      - intros [x [E Hx]]. apply (In_nth _ _ 0) in Hx as [j [Hj Ex]]. exists j. split; [lia|]. rewrite Ex. exact E.
      - intros [j [Hj E]]. exists (nth j (action_index st) 0). split; [exact E|apply nth_In; lia]. }
    assert (Hcomb : forall p, In p (combine (firstn k (k_left st)) right') <->
                              exists j, j < k /\ p = (nth j (k_left st) 0, nth j right' 0)).
    { intros p. rewrite (in_combine_nth _ _ k p Hlf Hlr'). split; intros [j [Hj E]]; exists j; (split; [exact Hj|]).
      - rewrite nth_firstn_lt in E by exact Hj. exact E.
      - rewrite nth_firstn_lt by exact Hj. exact E. }
    split; [exact Hne|]. split; [exact Hcyc|]. split; [exact Hfull|]. split; [exact Hhd|].
    destruct HI as [[_ [HlS Hi1] Hst _ _ _ _ _ _ Hlinks Hlh Hz Hrn Hcov]|[_ Hi1 Hst Hin Hcov Hrn Hrcov]].
    - (* not stopped: right[k-1] = left[k] *)
      assert (Hnth : forall j, j < k -> (nth j (k_left st) 0, nth j right' 0) = nth j (pairs a0 Ss (hd a0 R)) (0, 0)).
      { intros j Hj. unfold right'. rewrite Hst, pairs_links.
        destruct (Nat.eq_dec j (k - 1)) as [->|Hjk].
        - rewrite app_nth2 by (rewrite links_length; lia). rewrite links_length, HlS, Nat.sub_diag. cbn [nth].
          snth. rewrite Hlh, Hz. reflexivity.
        - rewrite app_nth1 by (rewrite links_length; lia). snth. apply Hlinks. lia. }
      assert (Hlp : length (pairs a0 Ss (hd a0 R)) = k).
      { rewrite pairs_links, app_length, links_length. simpl. lia. }
      split; [|split; [|split]].
      + intros p. rewrite Hcomb. split.
        * intros [j [Hj ->]]. rewrite Hnth by exact Hj. apply nth_In. lia.
        * intros Hp. apply (In_nth _ _ (0, 0)) in Hp as [j [Hj E]]. exists j. split; [lia|]. rewrite Hnth by lia. symmetry. exact E.
      + intros v Hv. apply Hmap in Hv as [j [Hj <-]].
        destruct (Hrn j Hj) as [<-|Hh]; [exact HzRV|apply HhRV; exact Hh].
      + intros v Hv. apply Hmap. apply Hcov. right. exact Hv.
      + apply Hmap. apply Hcov. left. reflexivity.
    - (* stopped *)
      assert (Er : right' = k_right st) by (unfold right'; rewrite Hst; reflexivity).
      split; [|split; [|split]].
      + intros p. rewrite Hcomb, Er. split.
        * intros [j [Hj ->]]. apply Hin. exact Hj.
        * intros Hp. apply Hcov. exact Hp.
      + intros v Hv. apply Hmap in Hv as [j [Hj <-]]. apply Hrn. exact Hj.
      + intros v Hv. apply Hmap. apply Hrcov. right. exact Hv.
      + apply Hmap. apply Hrcov. left. reflexivity.
  Qed.

  (* every action the sequential builder can form is an S-move *)
  Theorem builder_smove cs a : 1 <= k -> length cs = k -> kopt_builder k rec cs = Some a -> smove_form k rec a.
  Proof.
    intros Hk Hl Hb. unfold kopt_builder in Hb. fold n vt in Hb.
    destruct (kb_loop rec vt n 0 cs (kb_init k n)) as [st|] eqn:E; [|discriminate]. inversion Hb; subst a.
    apply finish_smove; [exact Hk|].
    destruct cs as [|c cs]; [simpl in Hl; lia|]. cbn [kb_loop] in E.
    destruct (kb_allows n 0 (kb_init k n) c) eqn:Hal; [|discriminate].
    destruct (step0 c Hk Hal) as [R HA].
    apply (loop_inv cs 1 (kb_step rec vt n 0 (kb_init k n) c) st); [lia|simpl in Hl; lia| |exact E].
    exists c, [], R. left. exact HA.
  Qed.
End Builder.

(* ------------------------------------------------------------------ the unbounded k-opt theorem *)

(* THEOREM (UNBOUNDED: every k_max >= 1, every n >= 3, every tour, every sequence of draws the sampler can make):
   the move formed by the sequential builder maps the tour to a tour, and its scatter has no conflicting
   duplicate index.  (k_opt_valid_statement of ImproveKopt.v is the instance 3 <= k.) *)
Theorem k_opt_valid : forall k rec cs a,
  1 <= k -> 3 <= length rec -> is_tour rec -> length cs = k -> kopt_builder k rec cs = Some a ->
  is_tour (k_opt k rec a) /\ scatter_consistent (firstn k (skipn k a)) (skipn (2 * k) a) = true.
Proof.
  intros k rec cs a Hk Hn Ht Hl Hb.
  apply k_opt_smove_valid; [exact Hn|]. exact (builder_smove rec k Ht Hn cs a Hk Hl Hb).
Qed.

Theorem k_opt_valid_statement_holds : k_opt_valid_statement.
Proof.
  intros k rec cs a Hk Hn Ht Hl Hb. apply (k_opt_valid k rec cs a); try assumption. lia.
Qed.

(* and it is the NeuOpt S-move: every segment between consecutive selected nodes is reversed in place *)
Theorem k_opt_builder_order : forall k rec cs a,
  1 <= k -> 3 <= length rec -> is_tour rec -> length cs = k -> kopt_builder k rec cs = Some a ->
  exists a0 Ss R,
    cyc rec (a0 :: concat Ss ++ R) /\ full (length rec) (a0 :: concat Ss ++ R) /\
    cyc (k_opt k rec a) (a0 :: concat (map (@rev nat) Ss) ++ R).
Proof.
  intros k rec cs a Hk Hn Ht Hl Hb.
  destruct (builder_smove rec k Ht Hn cs a Hk Hl Hb) as [a0 [Ss [R Hs]]].
  exists a0, Ss, R. destruct (k_opt_smove_order k rec a a0 Ss R Hn Hs) as [_ [Hc _]].
  destruct Hs as [_ [H1 [H2 _]]]. split; [exact H1|]. split; [exact H2|exact Hc].
Qed.

