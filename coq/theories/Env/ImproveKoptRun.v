(* C09 -- whole runs of TSPkoptEnv with k_max > 2, UNBOUNDED in n, k, the distance data and the number of steps:
   combines the best-so-far bookkeeping theorem with the unbounded k-opt theorem of ImproveKoptBuilder.v. *)
From Coq Require Import ZArith List Bool Lia ZifyBool Arith Permutation.
From RL4CO Require Import Env.Improve Env.ImproveKopt Env.ImproveKoptFinite Env.ImproveRun
  Env.ImproveKoptUnbounded Env.ImproveKoptBuilder.
Import ListNotations.

Theorem kopt_run_valid (D : nat -> nat -> Z) (k : nat) (t0 : list nat) (acts : list (list nat + list nat)) :
  1 <= k -> 3 <= length t0 ->
  is_tour t0 ->
  admitted_seq _ _ (step_op (k_opt k)) (adm_kopt k (length t0)) t0 acts ->
  let s := fst (bsf_run _ _ (step_op (k_opt k)) (get_costs D) (bsf_reset _ (get_costs D) t0) acts) in
  is_tour (rec_current s) /\ is_tour (rec_best s) /\
  cost_current s = tour_length D (walk (rec_current s) 0 (length (rec_current s))) /\
  cost_bsf s = tour_length D (walk (rec_best s) 0 (length (rec_best s))).
Proof.
  intros Hk Hn H0 Ha s.
  set (P := fun t : list nat => is_tour t /\ length t = length t0).
  assert (Hok : forall t a, P t -> adm_kopt k (length t0) t a -> P (step_op (k_opt k) t a)).
  { intros t [m|target] [Ht Hl] Hadm; cbn [step_op adm_kopt] in *.
    - destruct Hadm as [cs [Hcs Hb]]. split; [|rewrite k_opt_length; exact Hl].
      apply (k_opt_valid k t cs m); [exact Hk|rewrite Hl; exact Hn|exact Ht|exact Hcs|exact Hb].
    - exact Hadm. }
  destruct (run_valid _ _ _ (get_costs D) P (adm_kopt k (length t0)) Hok t0 acts (conj H0 eq_refl) Ha) as [[Hc _] [[Hb _] _]].
  fold s in Hc, Hb.
  destruct (bsf_exact _ _ (step_op (k_opt k)) (get_costs D) t0 acts) as [E1 [E2 _]].
  fold s in E1, E2.
  split; [exact Hc|]. split; [exact Hb|]. split.
  - rewrite E1. apply get_costs_is_tour_length. exact Hc.
  - rewrite E2. apply get_costs_is_tour_length. exact Hb.
Qed.

(* non-vacuity: a 9-node tour (beyond the bound of the finite statement for k = 4 and a 5-exchange, k = 5, which the
   finite statement does not cover at all); the builder forms an action and the result is the S-move order *)
Example k_opt_unbounded_ex :
  let rec := [3; 5; 4; 1; 6; 2; 8; 0; 7] in
  is_tourb rec = true /\
  walk rec 0 9 = [0; 3; 1; 5; 2; 4; 6; 8; 7] /\
  kopt_builder 5 rec [3; 5; 4; 8; 0] = Some [3; 5; 4; 8; 0; 3; 1; 2; 6; 7; 5; 4; 8; 0; 3] /\
  walk (k_opt 5 rec [3; 5; 4; 8; 0; 3; 1; 2; 6; 7; 5; 4; 8; 0; 3]) 3 9 = [3; 5; 1; 4; 2; 8; 6; 0; 7] /\
  is_tourb (k_opt 5 rec [3; 5; 4; 8; 0; 3; 1; 2; 6; 7; 5; 4; 8; 0; 3]) = true.
Proof. vm_compute. repeat split; reflexivity. Qed.
